import DK.Lemmas.Loader
import Mathlib.Data.Real.Basic
import Mathlib.Tactic.Ring
import Mathlib.Tactic.Linarith
/-!
# C20 — scenario helpers decode run-length / care / on-off specs to the table denoted

All statements are about the definitions of `DK/Model/Loader.lean` (the ones the driver executes),
for every horizon `basis`, every run list and every value type.

* `runToArray_spec`      sorted runs with a run at 0: slot `t` holds the value of the LAST run with start ≤ t
* `runToArray_greatest`  any key order, distinct keys: slot `t` holds the value of the run with the GREATEST start ≤ t
* `runToArray_perm`, `runToArray_perm_spec`  the result does not depend on the key order (the sort fix, D24)
* `runToArray_keyError`  no run at 0 ⇒ `KeyError`
* `runToArrayNp_homogeneous`  the numpy layer (shape from the template, broadcasting) is the generic one on homogeneous runs
* `runToCbounds_entries`, `runToCbounds_partition`, `runToCbounds_perm`
* `care_spec`, `care_spec_vec`, `on_spec`, `on_odd`  (the on-intervals INCLUDE their end)
* `supply_spec`, `supplyBounds_spec`, `supplyBounds_eq`  per slot `(−hi, −lo)` for EVERY basis (code after fix 375582f);
  `supply_basis2_regression` records what the old `(2, basis)` reading did at `basis = 2` (labelled, not the model)
* `tableBounds_spec`, `load_bounds_spec`, `supply_bounds_spec`  the loaded leaf's bounds are that expansion
* bridges to the functions `loadDevice` / the driver actually execute (last part of the file):
  - `runToCboundsNp_eq`   `runToCboundsNp` (the `[l, h] = …` unpacking) = generic `runToCbounds` on 2-list values,
    so `runToCbounds_entries/partition/perm` speak about what is executed; `load_cbounds_spec`: a loaded
    leaf's `cbs` is that list
  - `runToArrayNp_spec`   the executed `run_to_array` on homogeneous runs: row `t` = value of the run with the greatest start ≤ t
  - `flowTerm_spec`       `flow`: per slot `Poly2DOffset` row `[a, b, 0]`, offset `c` of that run
  - `fbrTerm_spec`        `flow_bounds_relative`: per slot `(p_l, p_h)` of that run, `(x_l, x_h)` = the device's bounds row
  - `cfbr_spec` (+ `rangesFn_eval`, `cboundsOf_chained`)  `cumulative_flow_bounds_relative`: the function is the sum
    over the cumulative runs of the curve `(p_l, p_h, l_i, h_i)` at the flow summed over `[start_i, start_{i+1})`
  - `loadCostFunction_ok` the cost is the `SumFunction` of the present terms in the order flow, fbr, cfbr, peak
    (`peak_flow` is `Fn.demand` of the exported coefficient list verbatim — nothing to expand)
  - `load_leaf_spec`, `supply_leaf_spec`, `storage_leaf_spec`  a loaded leaf IS `mkLeaf` of those parts
    (supply: bounds `supplyPair`, cost reflected)
  - `storageParams_spec`, `storageParams_unknown`  the storage parameter map; any key outside it (the clipping
    factors) ⇒ `KeyError`
* NOT covered by a theorem (T2 + oracle only): the numpy layer on NON-homogeneous runs (`npCheck`/`npAt`
  broadcasting quirks); the validators (`boundsOrdered`, `validCBounds`, `checkDevice`) beyond "a loaded leaf
  passed them"; the thermal loader (a known finding: it cannot load for `basis ≥ 2`); the correspondence
  between the Python objects (`SumFunction`, `Poly2DOffset`, `X2D`, `RangesFunction`, `DemandFunction`,
  `ReflectedFunction`) and `Fn` (T2 fingerprints + `loader.dcost`; `Fn` itself is C01's model).
* value semantics: every function returns new values; the inputs are immutable Lean values, so
  "inputs unchanged" is by construction here — the Python side's `deepcopy` / aliasing is checked by the oracle.
-/
namespace DK.Loader
open DK

/-! ## run_to_array -/
section generic
variable {V : Type}

theorem sorted_distinct {l : List (Nat × V)} (h : Sorted l) : DistinctStarts l := by
  unfold DistinctStarts List.Nodup
  exact List.pairwise_map.mpr (List.Pairwise.imp (fun hab => Nat.ne_of_lt hab) h)

/-- **run_to_array, sorted input.** For runs sorted by start whose first run starts at 0, the call
succeeds and slot `t < basis` holds the value of the last run with start `≤ t`; nothing else is
written. (The starts need not be `< basis`: later runs just fall outside the array.) -/
theorem runToArray_spec (basis : Nat) (z : V) {runs : List (Nat × V)} (hs : Sorted runs)
    (h0 : ∃ v rest, runs = (0, v) :: rest) :
    ∃ a, runToArray basis z runs = .ok a ∧ (∀ t, t < basis → lastLE runs t = some (a t)) ∧
      ∀ t, basis ≤ t → a t = z := by
  obtain ⟨v, rest, rfl⟩ := h0
  refine ⟨fillRuns basis ((0, v) :: rest) (fun _ => z), ?_, ?_, ?_⟩
  · simp [runToArray, hasZero, sortRuns_of_sorted hs]
  · intro t ht
    rw [fillRuns_sorted basis hs _ ht]
    cases h : lastLE ((0, v) :: rest) t with
    | some w => rfl
    | none =>
      have := lastLE_none.mp h (0, v) List.mem_cons_self
      simp at this
  · intro t ht
    exact fillRuns_beyond basis _ _ ht

example : ∃ a, runToArray 4 (0 : Nat) [(0, 1), (2, 5)] = .ok a ∧ a 0 = 1 ∧ a 1 = 1 ∧ a 2 = 5 ∧ a 3 = 5 :=
  ⟨_, rfl, by decide, by decide, by decide, by decide⟩

/-- **run_to_array, any key order.** With distinct starts and a run at 0, slot `t < basis` holds the
value of the run with the greatest start `≤ t` (membership only: no reference to the order). -/
theorem runToArray_greatest (basis : Nat) (z : V) {runs : List (Nat × V)} (hd : DistinctStarts runs)
    (h0 : ∃ r ∈ runs, r.1 = 0) :
    ∃ a, runToArray basis z runs = .ok a ∧
      ∀ t, t < basis → ∃ r ∈ runs, r.1 ≤ t ∧ (∀ r' ∈ runs, r'.1 ≤ t → r'.1 ≤ r.1) ∧ a t = r.2 := by
  refine ⟨fillRuns basis (sortRuns runs) (fun _ => z), ?_, ?_⟩
  · simp only [runToArray, hasZero_iff.mpr h0, if_true]
  · intro t ht
    have hs := sortRuns_sorted hd
    have hp := sortRuns_perm runs
    rw [fillRuns_sorted basis hs _ ht]
    cases h : lastLE (sortRuns runs) t with
    | none =>
      obtain ⟨r, hr, hr0⟩ := h0
      have := lastLE_none.mp h r (hp.mem_iff.mpr hr)
      omega
    | some w =>
      obtain ⟨r, hr, hrt, hmax, hv⟩ := lastLE_some hs h
      exact ⟨r, hp.mem_iff.mp hr, hrt, fun r' hr' => hmax r' (hp.mem_iff.mpr hr'), hv⟩

example : DistinctStarts [(2, 5), (0, 1)] ∧ ∃ r ∈ [(2, 5), (0, 1)], r.1 = 0 := by decide

/-- **the sort fix (D24).** The result does not depend on the order in which the dictionary lists
its keys. -/
theorem runToArray_perm (basis : Nat) (z : V) {runs₁ runs₂ : List (Nat × V)} (hp : runs₁.Perm runs₂)
    (hd : DistinctStarts runs₁) : runToArray basis z runs₁ = runToArray basis z runs₂ := by
  simp only [runToArray, hasZero_perm hp, sortRuns_perm_eq hp hd]

/-- any key order of sorted runs decodes to the table the sorted runs denote. -/
theorem runToArray_perm_spec (basis : Nat) (z : V) {runs runs' : List (Nat × V)} (hs : Sorted runs)
    (h0 : ∃ v rest, runs = (0, v) :: rest) (hp : runs'.Perm runs) :
    ∃ a, runToArray basis z runs' = .ok a ∧ (∀ t, t < basis → lastLE runs t = some (a t)) ∧
      ∀ t, basis ≤ t → a t = z := by
  have hd : DistinctStarts runs' := ((hp.map _).nodup_iff).mpr (sorted_distinct hs)
  rw [runToArray_perm basis z hp hd]
  exact runToArray_spec basis z hs h0

example : ∃ a, runToArray 4 (0 : Nat) [(2, 5), (0, 1)] = .ok a ∧ a 1 = 1 ∧ a 3 = 5 :=
  ⟨_, rfl, by decide, by decide⟩

/-- no run starting at 0: `run['runs']['0']` raises `KeyError`. -/
theorem runToArray_keyError (basis : Nat) (z : V) {runs : List (Nat × V)} (h : ∀ r ∈ runs, r.1 ≠ 0) :
    runToArray basis z runs = .error .keyError := by
  have : hasZero runs = false := by
    cases hh : hasZero runs with
    | false => rfl
    | true =>
      obtain ⟨r, hr, h0⟩ := hasZero_iff.mp hh
      exact absurd h0 (h r hr)
  simp [runToArray, this]

end generic

/-! ## run_to_cbounds_array -/
section
variable {α : Type}

/-- **entries.** The `i`-th bound is `(l_i, h_i, start_i, start_{i+1})`, the last one ends at `basis`. -/
theorem cboundsOf_getElem? (basis : Nat) (l : List (Nat × (α × α))) (i : Nat) :
    (cboundsOf basis l)[i]? =
      l[i]?.map (fun r => ⟨r.2.1, r.2.2, r.1, match l[i + 1]? with | some r' => r'.1 | none => basis⟩) := by
  induction l generalizing i with
  | nil => simp [cboundsOf]
  | cons r rs ih =>
    cases rs with
    | nil => cases i <;> simp [cboundsOf]
    | cons r' rest =>
      cases i with
      | zero => simp [cboundsOf]
      | succ i => simpa [cboundsOf] using ih i

theorem runToCbounds_entries (basis : Nat) {runs : List (Nat × (α × α))} (hs : Sorted runs) (i : Nat) :
    (runToCbounds basis runs)[i]? =
      runs[i]?.map (fun r => ⟨r.2.1, r.2.2, r.1, match runs[i + 1]? with | some r' => r'.1 | none => basis⟩) := by
  rw [runToCbounds, sortRuns_of_sorted hs]
  exact cboundsOf_getElem? basis runs i

theorem runToCbounds_length (basis : Nat) (runs : List (Nat × (α × α))) :
    (runToCbounds basis runs).length = runs.length := by
  rw [runToCbounds, cboundsOf_length, (sortRuns_perm runs).length_eq]

theorem cboundsOf_chain (basis : Nat) {l : List (Nat × (α × α))} (hs : Sorted l) :
    (cboundsOf basis l).Pairwise (fun c d => c.e ≤ d.s) := by
  induction l with
  | nil => simp [cboundsOf]
  | cons r rs ih =>
    have hx := List.pairwise_cons.mp hs
    cases rs with
    | nil => simp [cboundsOf]
    | cons r' rest =>
      simp only [cboundsOf]
      refine List.pairwise_cons.mpr ⟨?_, ih hx.2⟩
      intro d hd
      exact cboundsOf_start_ge basis hx.2 r' rest rfl d hd

theorem cboundsOf_within (basis : Nat) {l : List (Nat × (α × α))} (hs : Sorted l)
    (hb : ∀ r ∈ l, r.1 < basis) : ∀ c ∈ cboundsOf basis l, c.s < c.e ∧ c.e ≤ basis := by
  induction l with
  | nil => simp [cboundsOf]
  | cons r rs ih =>
    have hx := List.pairwise_cons.mp hs
    cases rs with
    | nil =>
      intro c hc
      simp only [cboundsOf, List.mem_singleton] at hc
      subst hc
      exact ⟨hb r List.mem_cons_self, Nat.le_refl _⟩
    | cons r' rest =>
      intro c hc
      simp only [cboundsOf, List.mem_cons] at hc
      rcases hc with rfl | hc
      · exact ⟨hx.1 r' List.mem_cons_self, Nat.le_of_lt (hb r' (by simp))⟩
      · exact ih hx.2 (fun x hx' => hb x (List.mem_cons_of_mem _ hx')) c (by simpa [cboundsOf] using hc)

theorem cboundsOf_cover (basis : Nat) {l : List (Nat × (α × α))} :
    ∀ r rest, l = r :: rest → ∀ t, r.1 ≤ t → t < basis → ∃ c ∈ cboundsOf basis l, c.s ≤ t ∧ t < c.e := by
  induction l with
  | nil => intro r rest h; cases h
  | cons x xs ih =>
    intro r rest h t hrt htb
    cases h
    cases xs with
    | nil => exact ⟨⟨x.2.1, x.2.2, x.1, basis⟩, by simp [cboundsOf], hrt, htb⟩
    | cons r' rest' =>
      by_cases h1 : t < r'.1
      · exact ⟨⟨x.2.1, x.2.2, x.1, r'.1⟩, by simp [cboundsOf], hrt, h1⟩
      · obtain ⟨c, hc, hcs⟩ := ih r' rest' rfl t (by omega) htb
        exact ⟨c, by simp only [cboundsOf, List.mem_cons]; exact Or.inr (by simpa [cboundsOf] using hc), hcs⟩

/-- **partition.** For runs sorted by start, the first at 0, all starts `< basis`: every range is a
non-empty sub-range of `[0, basis)`, the ranges are consecutive (each ends where the next starts or
before), hence pairwise disjoint, and every slot of `[0, basis)` lies in one of them. -/
theorem runToCbounds_partition (basis : Nat) {runs : List (Nat × (α × α))} (hs : Sorted runs)
    (h0 : ∃ v rest, runs = (0, v) :: rest) (hb : ∀ r ∈ runs, r.1 < basis) :
    (∀ c ∈ runToCbounds basis runs, c.s < c.e ∧ c.e ≤ basis) ∧
    (runToCbounds basis runs).Pairwise (fun c d => ∀ t, ¬ (c.s ≤ t ∧ t < c.e ∧ d.s ≤ t ∧ t < d.e)) ∧
    (∀ t, t < basis → ∃ c ∈ runToCbounds basis runs, c.s ≤ t ∧ t < c.e) := by
  rw [runToCbounds, sortRuns_of_sorted hs]
  refine ⟨cboundsOf_within basis hs hb, ?_, ?_⟩
  · exact List.Pairwise.imp (fun hcd t => by omega) (cboundsOf_chain basis hs)
  · obtain ⟨v, rest, rfl⟩ := h0
    intro t ht
    exact cboundsOf_cover basis (0, v) rest rfl t (Nat.zero_le _) ht

example : Sorted [(0, ((1 : Nat), (3 : Nat))), (2, (2, 5))] ∧ (∀ r ∈ [(0, ((1 : Nat), (3 : Nat))), (2, (2, 5))], r.1 < 4) := by
  decide

/-- the cumulative bounds do not depend on the key order either. -/
theorem runToCbounds_perm (basis : Nat) {runs₁ runs₂ : List (Nat × (α × α))} (hp : runs₁.Perm runs₂)
    (hd : DistinctStarts runs₁) : runToCbounds basis runs₁ = runToCbounds basis runs₂ := by
  simp only [runToCbounds, sortRuns_perm_eq hp hd]

end

/-! ## the numpy layer on homogeneous runs -/
section
variable {α : Type} [OfNat α 0]

omit [OfNat α 0] in
theorem npCheck_sameShape {tmpl v : RunVal α} (L : Nat) (h : tmpl.sameShape v = true) :
    npCheck tmpl L v = true := by
  cases tmpl <;> cases v <;> simp_all [RunVal.sameShape, npCheck]

theorem npAt_sameShape {tmpl v : RunVal α} (j : Nat) (h : tmpl.sameShape v = true) :
    npAt tmpl j v = v := by
  cases tmpl with
  | num x => cases v with
    | num y => rfl
    | vec ys => simp [RunVal.sameShape] at h
  | vec ts => cases v with
    | num y => simp [RunVal.sameShape] at h
    | vec ys =>
      simp only [RunVal.sameShape, beq_iff_eq] at h
      match ys, h with
      | [], _ => rfl
      | [y], h =>
        simp only [npAt]
        match ts, h with
        | [_], _ => rfl
      | _ :: _ :: _, _ => rfl

theorem fillRunsNp_homogeneous (basis : Nat) (tmpl : RunVal α) (l : List (Nat × RunVal α))
    (a : Nat → RunVal α) (h : ∀ r ∈ l, tmpl.sameShape r.2 = true) :
    fillRunsNp basis tmpl l a = .ok (fillRuns basis l a) := by
  induction l generalizing a with
  | nil => rfl
  | cons r rs ih =>
    have hr := h r List.mem_cons_self
    have hrs : ∀ x ∈ rs, tmpl.sameShape x.2 = true := fun x hx => h x (List.mem_cons_of_mem _ hx)
    cases rs with
    | nil =>
      simp only [fillRunsNp, npCheck_sameShape _ hr, if_true, fillRuns]
      congr 1
      funext t
      simp only [assignSlice, npAt_sameShape _ hr]
    | cons r' rest =>
      simp only [fillRunsNp, npCheck_sameShape _ hr, if_true] at ih ⊢
      rw [ih _ hrs]
      simp only [fillRuns]
      congr 2
      funext t
      simp only [assignSlice, npAt_sameShape _ hr]

/-- **shape layer.** When every run value has the template's shape (all scalars, or all lists of the
template's length), `run_to_array` with numpy's assignment semantics is exactly the generic
`runToArray` started from the zero row of that shape. -/
theorem runToArrayNp_homogeneous (run : Run α) (tmpl : RunVal α)
    (ht : template run.runs = some tmpl) (h : ∀ r ∈ run.runs, tmpl.sameShape r.2 = true) :
    runToArrayNp run = (runToArray run.basis tmpl.zeroLike run.runs).map (fun a => (tmpl, a)) := by
  have hz : hasZero run.runs = true := by
    simp only [template, Option.map_eq_some_iff] at ht
    obtain ⟨r, hr, _⟩ := ht
    have := List.find?_some hr
    have hm := List.mem_of_find?_eq_some hr
    exact hasZero_iff.mpr ⟨r, hm, by simpa using this⟩
  have hs : ∀ r ∈ sortRuns run.runs, tmpl.sameShape r.2 = true :=
    fun r hr => h r ((sortRuns_perm run.runs).mem_iff.mp hr)
  simp only [runToArrayNp, ht, fillRunsNp_homogeneous _ _ _ _ hs, runToArray, hz, if_true, Except.map]

end

/-! ## care2bounds / on2bounds -/

/-- **care mask, 2-tuple limits.** Cared slots (`care t = 1`) get exactly the limits, the others `(0, 0)`. -/
theorem care_spec (n : ℕ) (care : ℕ → ℝ) (lo hi : ℝ) (t : ℕ) :
    (care t = 1 → (care2bounds n care (.pair lo hi)).1 t = lo ∧ (care2bounds n care (.pair lo hi)).2 t = hi) ∧
    (care t = 0 → (care2bounds n care (.pair lo hi)).1 t = 0 ∧ (care2bounds n care (.pair lo hi)).2 t = 0) := by
  simp only [care2bounds, maskBounds]
  constructor <;> intro h <;> simp [h]

/-- **care mask, per-slot limits** (a 2-tuple of vectors, or one vector read as `lo = hi`; the single
vector form needs `n ≠ 2`, see `care_vector_n2`). -/
theorem care_spec_vec (n : ℕ) (care lo hi v : ℕ → ℝ) (t : ℕ) :
    (care t = 1 → (care2bounds n care (.pairVec lo hi)).1 t = lo t ∧ (care2bounds n care (.pairVec lo hi)).2 t = hi t) ∧
    (care t = 0 → (care2bounds n care (.pairVec lo hi)).1 t = 0 ∧ (care2bounds n care (.pairVec lo hi)).2 t = 0) ∧
    (n ≠ 2 → care t = 1 → (care2bounds n care (.vector v)).1 t = v t ∧ (care2bounds n care (.vector v)).2 t = v t) ∧
    (care t = 0 → (care2bounds n care (.vector v)).1 t = 0 ∧ (care2bounds n care (.vector v)).2 t = 0) := by
  simp only [care2bounds, maskBounds]
  refine ⟨fun h => by simp [h], fun h => by simp [h], fun hn h => by simp [hn, h], fun h => ?_⟩
  split <;> simp [h]

/-- the ambiguity of a length-2 vector: at `n = 2` it is read as the 2-tuple `(v 0, v 1)`. -/
theorem care_vector_n2 (care v : ℕ → ℝ) :
    care2bounds 2 care (.vector v) = care2bounds 2 care (.pair (v 0) (v 1)) := by
  simp [care2bounds, maskBounds]

/-- slot `t` lies in one of the on-intervals `[on[0], on[1]], [on[2], on[3]], …` — ends INCLUDED. -/
def inOn : List Nat → Nat → Prop
  | s :: e :: rest, t => (s ≤ t ∧ t ≤ e) ∨ inOn rest t
  | _, _ => False

theorem onVector_spec (l : ℕ) : ∀ (on : List ℕ) (a : ℕ → ℝ), on.length % 2 = 0 →
    ∃ m, onVector l on a = .ok m ∧ ∀ t, t < l → (inOn on t → m t = 1) ∧ (¬ inOn on t → m t = a t)
  | [], a, _ => ⟨a, rfl, fun t _ => by simp [inOn]⟩
  | [_], _, h => by simp at h
  | s :: e :: rest, a, h => by
    obtain ⟨m, hm, hsp⟩ := onVector_spec l rest (fun t => if s ≤ t ∧ t < e + 1 ∧ t < l then 1 else a t)
      (by simp only [List.length_cons] at h; omega)
    refine ⟨m, by simpa [onVector] using hm, ?_⟩
    intro t ht
    obtain ⟨h1, h2⟩ := hsp t ht
    by_cases hr : inOn rest t
    · exact ⟨fun _ => h1 hr, fun hn => absurd (Or.inr hr) hn⟩
    · constructor
      · intro hin
        rcases hin with hse | hin
        · rw [h2 hr, if_pos (by omega)]
        · exact absurd hin hr
      · intro hn
        have : ¬ (s ≤ t ∧ t ≤ e) := fun hse => hn (Or.inl hse)
        rw [h2 hr, if_neg (by omega)]

/-- **on-intervals.** With an even number of entries the call succeeds; slots inside an interval
(ends included) get exactly the limits, the others `(0, 0)`. -/
theorem on_spec (l : ℕ) (on : List ℕ) (lo hi : ℝ) (hev : on.length % 2 = 0) :
    ∃ b, on2bounds l on (.pair lo hi) = .ok b ∧ ∀ t, t < l →
      (inOn on t → b.1 t = lo ∧ b.2 t = hi) ∧ (¬ inOn on t → b.1 t = 0 ∧ b.2 t = 0) := by
  obtain ⟨m, hm, hsp⟩ := onVector_spec l on (fun _ => (0 : ℝ)) hev
  refine ⟨maskBounds l m (.pair lo hi), by simp [on2bounds, hm], ?_⟩
  intro t ht
  obtain ⟨h1, h2⟩ := hsp t ht
  simp only [maskBounds]
  exact ⟨fun h => by simp [h1 h], fun h => by simp [h2 h]⟩

example : inOn [1, 2] 2 ∧ ¬ inOn [1, 2] 3 ∧ ([1, 2] : List ℕ).length % 2 = 0 := by
  simp [inOn]

/-- an odd number of entries: `on[i+1]` raises `IndexError`. -/
theorem on_odd (l : ℕ) : ∀ (on : List ℕ) (a : ℕ → ℝ), on.length % 2 = 1 → onVector l on a = .error .indexError
  | [], _, h => by simp at h
  | [_], _, _ => rfl
  | s :: e :: rest, a, h => by
    simp only [onVector]
    exact on_odd l rest _ (by simp only [List.length_cons] at h; omega)

/-! ## supply: negate and swap -/

/-- **supply.** Per slot the pair handed to the device is `(−hi, −lo)`. -/
theorem supply_spec (lo hi : ℕ → ℝ) (t : ℕ) :
    (supplyPair lo hi).1 t = - hi t ∧ (supplyPair lo hi).2 t = - lo t := by
  simp [supplyPair]

theorem boundsOrdered_iff (n : ℕ) (lo hi : ℕ → ℝ) :
    boundsOrdered n lo hi = true ↔ ∀ t, t < n → lo t ≤ hi t := by
  simp [boundsOrdered]

/-- **supply, every horizon (incl. `basis = 2`).** For ordered input bounds the supply device gets
exactly `(−hi, −lo)` per slot, and the call does not raise. -/
theorem supplyBounds_spec (basis : ℕ) (lo hi : ℕ → ℝ) (hord : ∀ t, t < basis → lo t ≤ hi t) :
    ∃ q, supplyBounds basis lo hi = .ok q ∧ ∀ t, q.1 t = - hi t ∧ q.2 t = - lo t := by
  refine ⟨supplyPair lo hi, ?_, supply_spec lo hi⟩
  have : boundsOrdered basis (supplyPair lo hi).1 (supplyPair lo hi).2 = true := by
    rw [boundsOrdered_iff]
    intro t ht
    have := hord t ht
    simp only [supplyPair]
    linarith
  unfold supplyBounds
  rw [if_pos this]

example : ∀ t, t < 2 → (fun t => if t = 0 then (1 : ℝ) else 0) t ≤ (fun t => if t = 0 then (5 : ℝ) else 2) t := by
  intro t ht
  have : t = 0 ∨ t = 1 := by omega
  rcases this with rfl | rfl <;> norm_num

/-- whenever the supply bounds are accepted they ARE the negated-and-swapped table (any scalar type,
any horizon); the only other outcome is `ValueError` (mis-ordered input bounds). -/
theorem supplyBounds_eq {α : Type} [Mul α] [Neg α] [OfNat α 1] [LE α] [DecidableLE α]
    (basis : Nat) (lo hi : Nat → α) :
    supplyBounds basis lo hi = .ok (supplyPair lo hi) ∨ supplyBounds basis lo hi = .error .valueError := by
  unfold supplyBounds
  by_cases h : boundsOrdered basis (supplyPair lo hi).1 (supplyPair lo hi).2 = true
  · exact Or.inl (if_pos h)
  · exact Or.inr (if_neg h)

/-! ### regression statement about the OLD reading (before fix 375582f) — NOT the current code

Before the fix `load_supply_device` built `np.array([bounds[:,1], bounds[:,0]])`, a `(2, basis)`
array, which `validate_bounds` read as the pair (lower vector, upper vector) — except at
`basis = 2`, where a `(2, 2)` array is a per-slot *table*.  `readPairOld` is that old reading; it is
kept here only to state what the fix repaired, and is not part of the model. -/

/-- OLD reading (pre-375582f) of the `(2, basis)` array; regression reference only. -/
def readPairOld (basis : ℕ) (p : (ℕ → ℝ) × (ℕ → ℝ)) : (ℕ → ℝ) × (ℕ → ℝ) :=
  if basis = 2 then
    (fun t => if t = 0 then p.1 0 else p.2 0, fun t => if t = 0 then p.1 1 else p.2 1)
  else p

/-- **regression (D: supply at basis 2).** With bounds `[(1,5), (0,2)]` the current model gives the
device `[(-5,-1), (-2,0)]`; the OLD reading gave `[(-5,-2), (-1,0)]`. -/
theorem supply_basis2_regression :
    (∃ q, supplyBounds 2 (fun t => if t = 0 then (1 : ℝ) else 0) (fun t => if t = 0 then (5 : ℝ) else 2) = .ok q ∧
      q.1 0 = -5 ∧ q.2 0 = -1 ∧ q.1 1 = -2 ∧ q.2 1 = 0) ∧
    (let old := readPairOld 2 (supplyPair (fun t => if t = 0 then (1 : ℝ) else 0) (fun t => if t = 0 then (5 : ℝ) else 2))
     old.1 0 = -5 ∧ old.2 0 = -2 ∧ old.1 1 = -1 ∧ old.2 1 = 0) := by
  constructor
  · obtain ⟨q, hq, hs⟩ := supplyBounds_spec 2 (fun t => if t = 0 then (1 : ℝ) else 0) (fun t => if t = 0 then (5 : ℝ) else 2)
      (by intro t ht
          have : t = 0 ∨ t = 1 := by omega
          rcases this with rfl | rfl <;> norm_num)
    refine ⟨q, hq, ?_⟩
    have h0 := hs 0
    have h1 := hs 1
    simp at h0 h1
    exact ⟨h0.1, h0.2, h1.1, h1.2⟩
  · simp [readPairOld, supplyPair]

/-! ## the loaded device's bounds are the expansion -/
section
variable {α : Type} [OfNat α 0]

omit [OfNat α 0] in
theorem template_some {runs : List (Nat × RunVal α)} (h0 : ∃ r ∈ runs, r.1 = 0) :
    ∃ r ∈ runs, r.1 = 0 ∧ template runs = some r.2 := by
  cases hf : runs.find? (fun r => r.1 == 0) with
  | none =>
    obtain ⟨r, hr, h⟩ := h0
    have := List.find?_eq_none.mp hf r hr
    simp [h] at this
  | some r =>
    exact ⟨r, List.mem_of_find?_eq_some hf, by simpa using List.find?_some hf, by simp [template, hf]⟩

/-- **bounds table of a device.** A `bounds` run of 2-vectors (any key order, distinct keys, a run at
0, the export's basis) loads, and slot `t` gets `(lo, hi)` = the value of the run with the greatest
start `≤ t`. -/
theorem tableBounds_spec (basis : Nat) (run : Run α) (hb : run.basis = basis)
    (hd : DistinctStarts run.runs) (h0 : ∃ r ∈ run.runs, r.1 = 0)
    (h2 : ∀ r ∈ run.runs, ∃ x y, r.2 = .vec [x, y]) :
    ∃ b, tableBounds basis run = .ok b ∧ ∀ t, t < basis →
      ∃ r ∈ run.runs, r.1 ≤ t ∧ (∀ r' ∈ run.runs, r'.1 ≤ t → r'.1 ≤ r.1) ∧ r.2 = .vec [b.1 t, b.2 t] := by
  obtain ⟨r0, hr0, _, htm⟩ := template_some h0
  obtain ⟨x0, y0, hxy⟩ := h2 r0 hr0
  have hsh : ∀ r ∈ run.runs, (r0.2).sameShape r.2 = true := by
    intro r hr
    obtain ⟨x, y, h⟩ := h2 r hr
    simp [hxy, h, RunVal.sameShape]
  obtain ⟨a, ha, hsp⟩ := runToArray_greatest run.basis (r0.2).zeroLike hd h0
  have hnp := runToArrayNp_homogeneous run r0.2 htm hsh
  rw [ha] at hnp
  refine ⟨(fun t => (a t).get 0, fun t => (a t).get 1), ?_, ?_⟩
  · unfold tableBounds
    simp only [hb, ne_eq, not_true_eq_false, if_false, hnp, Except.map, bind, Except.bind, hxy]
    rfl
  · intro t ht
    obtain ⟨r, hr, hrt, hmax, hv⟩ := hsp t (hb ▸ ht)
    obtain ⟨x, y, h⟩ := h2 r hr
    refine ⟨r, hr, hrt, hmax, ?_⟩
    simp [hv, h, RunVal.get]

example : DistinctStarts [(2, RunVal.vec [(1 : Nat), 3]), (0, .vec [0, 2])] ∧
    (∃ r ∈ [(2, RunVal.vec [(1 : Nat), 3]), (0, .vec [0, 2])], r.1 = 0) := by
  refine ⟨by decide, ⟨_, List.mem_cons_of_mem _ List.mem_cons_self, rfl⟩⟩
end

section
variable {α : Type} [Add α] [Sub α] [Mul α] [Div α] [Neg α]
  [OfNat α 0] [OfNat α 1] [OfNat α 2]
  [LT α] [LE α] [DecidableEq α] [DecidableLT α] [DecidableLE α]

omit [Sub α] [Div α] in
/-- a loaded `load` device carries exactly the table of its `bounds` run, over `basis` slots. -/
theorem load_bounds_spec (basis : Nat) (bounds : Run α) (cb : Option (Run α)) (costs : Option (Costs α))
    (leaf : Leaf α) (h : loadDevice basis (.load bounds cb costs) = .ok leaf) :
    ∃ b, tableBounds basis bounds = .ok b ∧ leaf.n = basis ∧ leaf.lb = b.1 ∧ leaf.hb = b.2 := by
  simp only [loadDevice, bind, Except.bind] at h
  cases hb : tableBounds basis bounds with
  | error e => simp [hb] at h
  | ok b =>
    refine ⟨b, rfl, ?_⟩
    simp only [hb] at h
    repeat' split at h
    all_goals (try simp at h)
    all_goals (try (simp only [pure, Except.pure, Except.ok.injEq] at h; subst h; simp [mkLeaf]))

omit [Sub α] [Div α] in
/-- a loaded `supply` device carries the negated-and-swapped table (as `validate_bounds` reads it). -/
theorem supply_bounds_spec (basis : Nat) (bounds : Run α) (cb : Option (Run α)) (costs : Option (Costs α))
    (leaf : Leaf α) (h : loadDevice basis (.supply bounds cb costs) = .ok leaf) :
    ∃ b q, tableBounds basis bounds = .ok b ∧ supplyBounds basis b.1 b.2 = .ok q ∧
      leaf.n = basis ∧ leaf.lb = q.1 ∧ leaf.hb = q.2 := by
  simp only [loadDevice, bind, Except.bind] at h
  cases hb : tableBounds basis bounds with
  | error e => simp [hb] at h
  | ok b =>
    simp only [hb] at h
    cases hq : supplyBounds basis b.1 b.2 with
    | error e =>
      simp only [hq] at h
      repeat' split at h
      all_goals (try simp at h)
    | ok q =>
      refine ⟨b, q, rfl, hq, ?_⟩
      simp only [hq] at h
      repeat' split at h
      all_goals (try simp at h)
      all_goals (try (simp only [pure, Except.pure, Except.ok.injEq] at h; subst h; simp [mkLeaf]))

omit [Sub α] [Div α] in
/-- one leaf per exported device. -/
theorem loadData_length (basis : Nat) (devs : List (DevSpec α)) (ls : List (Leaf α))
    (h : loadData basis devs = .ok ls) : ls.length = devs.length := by
  unfold loadData at h
  induction devs generalizing ls with
  | nil => simp [List.mapM_nil, pure, Except.pure] at h; subst h; rfl
  | cons d ds ih =>
    simp only [List.mapM_cons, bind, Except.bind] at h
    split at h
    · simp at h
    · split at h
      · simp at h
      · rename_i ls' hls'
        simp only [pure, Except.pure, Except.ok.injEq] at h
        subst h
        simp [ih ls' hls']
end

/-! ## bridges: the functions `loadDevice` and the driver actually execute -/
section
variable {V W : Type}
theorem insertRun_map (f : V → W) (r : Nat × V) (l : List (Nat × V)) :
    insertRun (r.1, f r.2) (l.map (fun x => (x.1, f x.2))) = (insertRun r l).map (fun x => (x.1, f x.2)) := by
  induction l with
  | nil => rfl
  | cons x xs ih =>
    simp only [List.map_cons, insertRun]
    split
    · rfl
    · simp only [List.map_cons, ih]

theorem sortRuns_map (f : V → W) (l : List (Nat × V)) :
    sortRuns (l.map (fun x => (x.1, f x.2))) = (sortRuns l).map (fun x => (x.1, f x.2)) := by
  induction l with
  | nil => rfl
  | cons r rs ih =>
    simp only [List.map_cons, sortRuns, ih]
    exact insertRun_map f r (sortRuns rs)
end

section
variable {α : Type} [OfNat α 0]

/-- the `(l, h)` pair of a 2-list run value. -/
def pairOf (v : RunVal α) : α × α := (v.get 0, v.get 1)

theorem mapM_cbPair (l : List (Nat × RunVal α)) (h2 : ∀ r ∈ l, ∃ x y, r.2 = .vec [x, y]) :
    l.mapM (fun r => do let p ← cbPair r.2; pure (r.1, p)) = (.ok (l.map (fun r => (r.1, pairOf r.2))) : Except LoadErr _) := by
  induction l with
  | nil => rfl
  | cons r rs ih =>
    obtain ⟨x, y, hxy⟩ := h2 r List.mem_cons_self
    have := ih (fun q hq => h2 q (List.mem_cons_of_mem _ hq))
    rw [List.mapM_cons, this]
    simp [hxy, cbPair, bind, Except.bind, pure, Except.pure, pairOf, RunVal.get]

/-- **bridge for cumulative bounds.** On a run dictionary whose values are 2-lists, the function the
loader executes (`runToCboundsNp`: unpacking `[l, h] = …`) is the generic `runToCbounds` of the pairs. -/
theorem runToCboundsNp_eq (run : Run α) (h2 : ∀ r ∈ run.runs, ∃ x y, r.2 = .vec [x, y]) :
    runToCboundsNp run = .ok (runToCbounds run.basis (run.runs.map (fun r => (r.1, pairOf r.2)))) := by
  have hs : ∀ r ∈ sortRuns run.runs, ∃ x y, r.2 = .vec [x, y] :=
    fun r hr => h2 r ((sortRuns_perm run.runs).mem_iff.mp hr)
  unfold runToCboundsNp runToCbounds
  rw [sortRuns_map pairOf run.runs]
  have hm := mapM_cbPair _ hs
  simp only [bind, Except.bind, pure, Except.pure] at hm ⊢
  rw [hm]

/-- **run_to_array as executed (numpy layer), homogeneous runs, any key order.** The call succeeds;
the template is the value of the run at 0; row `t` is the value of the run with the greatest start `≤ t`. -/
theorem runToArrayNp_spec (run : Run α) (hd : DistinctStarts run.runs) (h0 : ∃ r ∈ run.runs, r.1 = 0)
    (hsh : ∀ r ∈ run.runs, ∀ r' ∈ run.runs, (r.2).sameShape r'.2 = true) :
    ∃ tmpl rows, runToArrayNp run = .ok (tmpl, rows) ∧ (∃ r ∈ run.runs, r.1 = 0 ∧ tmpl = r.2) ∧
      ∀ t, t < run.basis → ∃ r ∈ run.runs, r.1 ≤ t ∧ (∀ r' ∈ run.runs, r'.1 ≤ t → r'.1 ≤ r.1) ∧ rows t = r.2 := by
  obtain ⟨r0, hr0, hz, htm⟩ := template_some h0
  obtain ⟨a, ha, hsp⟩ := runToArray_greatest run.basis (r0.2).zeroLike hd h0
  have hnp := runToArrayNp_homogeneous run r0.2 htm (hsh r0 hr0)
  rw [ha] at hnp
  exact ⟨r0.2, a, by simpa [Except.map] using hnp, ⟨r0, hr0, hz, rfl⟩, hsp⟩

/-- **flow cost.** A `flow` run of 3-lists `[a, b, offset]` becomes `Poly2DOffset` with, per slot,
the quadratic `[a, b, 0]` and the offset of the run with the greatest start `≤ t`. -/
theorem flowTerm_spec (basis : Nat) (run : Run α) (hb : run.basis = basis)
    (hd : DistinctStarts run.runs) (h0 : ∃ r ∈ run.runs, r.1 = 0)
    (h3 : ∀ r ∈ run.runs, ∃ a b c, r.2 = .vec [a, b, c]) :
    ∃ cs off, flowTerm basis run = .ok (.poly cs off) ∧ ∀ t, t < basis →
      ∃ r ∈ run.runs, r.1 ≤ t ∧ (∀ r' ∈ run.runs, r'.1 ≤ t → r'.1 ≤ r.1) ∧
        ∃ a b c, r.2 = .vec [a, b, c] ∧ cs t = [a, b, 0] ∧ off t = c := by
  have hsh : ∀ r ∈ run.runs, ∀ r' ∈ run.runs, (r.2).sameShape r'.2 = true := by
    intro r hr r' hr'
    obtain ⟨a, b, c, h⟩ := h3 r hr
    obtain ⟨a', b', c', h'⟩ := h3 r' hr'
    simp [h, h', RunVal.sameShape]
  obtain ⟨tmpl, rows, hnp, ⟨r0, hr0, _, htm⟩, hsp⟩ := runToArrayNp_spec run hd h0 hsh
  obtain ⟨a0, b0, c0, h0v⟩ := h3 r0 hr0
  refine ⟨fun k => [(rows k).get 0, (rows k).get 1, 0], fun k => (rows k).get 2, ?_, ?_⟩
  · unfold flowTerm
    simp [hb, hnp, htm, h0v, bind, Except.bind, pure, Except.pure]
  · intro t ht
    obtain ⟨r, hr, hrt, hmax, hv⟩ := hsp t (hb ▸ ht)
    obtain ⟨a, b, c, h⟩ := h3 r hr
    exact ⟨r, hr, hrt, hmax, a, b, c, h, by simp [hv, h, RunVal.get], by simp [hv, h, RunVal.get]⟩

/-- **flow_bounds_relative cost.** A run of 2-lists `[p_l, p_h]` becomes, per slot, the high/low
quadratic with `(p_l, p_h)` of the run with the greatest start `≤ t` and `(x_l, x_h)` = the device's
bounds row `t` (the `(basis, 2)` array handed in). -/
theorem fbrTerm_spec (basis : Nat) (raw : RawBounds α) (run : Run α) (hb : run.basis = basis)
    (hrows : raw.rows = basis) (hcols : raw.cols = 2)
    (hd : DistinctStarts run.runs) (h0 : ∃ r ∈ run.runs, r.1 = 0)
    (h2 : ∀ r ∈ run.runs, ∃ x y, r.2 = .vec [x, y]) :
    ∃ pl ph, fbrTerm basis raw run = .ok (.hlq pl ph (fun k => raw.get k 0) (fun k => raw.get k 1)) ∧
      ∀ t, t < basis → ∃ r ∈ run.runs, r.1 ≤ t ∧ (∀ r' ∈ run.runs, r'.1 ≤ t → r'.1 ≤ r.1) ∧
        r.2 = .vec [pl t, ph t] := by
  have hsh : ∀ r ∈ run.runs, ∀ r' ∈ run.runs, (r.2).sameShape r'.2 = true := by
    intro r hr r' hr'
    obtain ⟨a, b, h⟩ := h2 r hr
    obtain ⟨a', b', h'⟩ := h2 r' hr'
    simp [h, h', RunVal.sameShape]
  obtain ⟨tmpl, rows, hnp, ⟨r0, hr0, _, htm⟩, hsp⟩ := runToArrayNp_spec run hd h0 hsh
  obtain ⟨a0, b0, h0v⟩ := h2 r0 hr0
  refine ⟨fun k => (rows k).get 0, fun k => (rows k).get 1, ?_, ?_⟩
  · unfold fbrTerm
    simp [hb, hnp, htm, h0v, hrows, hcols, bind, Except.bind, pure, Except.pure]
  · intro t ht
    obtain ⟨r, hr, hrt, hmax, hv⟩ := hsp t (hb ▸ ht)
    obtain ⟨a, b, h⟩ := h2 r hr
    exact ⟨r, hr, hrt, hmax, by simp [hv, h, RunVal.get]⟩
end

section
variable {α : Type} [OfNat α 0]

/-- the terms `load_cost_function` collects, in its fixed order flow, flow_bounds_relative,
cumulative_flow_bounds_relative, peak_flow (each present or not). -/
def costTerms (f1 f2 : Option (Fn α)) (c : Costs α) (cbs : Option (List (CBound α))) : List (Fn α) :=
  f1.toList ++ f2.toList ++ (c.cfbr.map (fun p => rangesFn p.1 p.2 (cbs.getD []))).toList ++
    (c.peak.map Fn.demand).toList

theorem optMapM_ok {β γ : Type} {o : Option β} {f : β → Except LoadErr γ} {r : Option γ}
    (h : o.mapM f = .ok r) : (o = none ∧ r = none) ∨ ∃ x y, o = some x ∧ f x = .ok y ∧ r = some y := by
  cases o with
  | none => left; simp [Option.mapM, pure, Except.pure] at h; exact ⟨rfl, h.symm⟩
  | some x =>
    right
    cases hf : f x with
    | error e => simp [Option.mapM, hf, bind, Except.bind, Functor.map, Except.map] at h
    | ok y =>
      simp [Option.mapM, hf, bind, Except.bind, Functor.map, Except.map, pure, Except.pure] at h
      exact ⟨x, y, rfl, hf, h.symm⟩

theorem loadCostFunction_ok (basis : Nat) (c : Costs α) (raw : RawBounds α) (cbs : Option (List (CBound α)))
    (hcf : c.cumulativeFlow = false) (f1 f2 : Option (Fn α))
    (h1 : c.flow.mapM (flowTerm basis) = .ok f1) (h2 : c.fbr.mapM (fbrTerm basis raw) = .ok f2)
    (h3 : c.cfbr = none ∨ ∃ c0 rest, cbs = some (c0 :: rest) ∧ c0.s = 0) :
    loadCostFunction basis (some c) raw cbs =
      .ok (if (costTerms f1 f2 c cbs).isEmpty then none else some (sumFn (costTerms f1 f2 c cbs))) := by
  rcases optMapM_ok h1 with ⟨hfl, rfl⟩ | ⟨run1, g1, hfl, hg1, rfl⟩ <;>
  rcases optMapM_ok h2 with ⟨hfb, rfl⟩ | ⟨run2, g2, hfb, hg2, rfl⟩ <;>
  rcases h3 with hcb | ⟨c0, rest, rfl, hs0⟩ <;>
  cases hcb' : c.cfbr <;> cases hpk : c.peak <;>
  simp_all [loadCostFunction, costTerms, bind, Except.bind, pure, Except.pure]
end

section
variable {α : Type}
/-- consecutive ranges: the first starts at `s0`, each ends where the next starts, the last ends at
`n`, none is reversed. -/
def Chained : Nat → Nat → List (CBound α) → Prop
  | _, _, [] => False
  | s0, n, [c] => c.s = s0 ∧ c.s ≤ c.e ∧ c.e = n
  | s0, n, c :: c' :: rest => c.s = s0 ∧ c.s ≤ c.e ∧ Chained c.e n (c' :: rest)

theorem cboundsOf_chained (basis : Nat) {l : List (Nat × (α × α))} (hs : Sorted l)
    (hb : ∀ r ∈ l, r.1 ≤ basis) : ∀ r rest, l = r :: rest → Chained r.1 basis (cboundsOf basis l) := by
  induction l with
  | nil => intro r rest h; cases h
  | cons x xs ih =>
    intro r rest h
    cases h
    have hx := List.pairwise_cons.mp hs
    cases xs with
    | nil => exact ⟨rfl, hb x List.mem_cons_self, rfl⟩
    | cons r' rest' =>
      simp only [cboundsOf]
      have h1 := ih hx.2 (fun q hq => hb q (List.mem_cons_of_mem _ hq)) r' rest' rfl
      cases hc : cboundsOf basis (r' :: rest') with
      | nil =>
        have := cboundsOf_length basis (r' :: rest')
        simp [hc] at this
      | cons c cs =>
        rw [hc] at h1
        exact ⟨rfl, Nat.le_of_lt (hx.1 r' List.mem_cons_self), h1⟩
end

/-- what a chain of ranges denotes: the sum over the ranges of the curve at the range's flow sum. -/
noncomputable def rangesSum (pl ph : ℝ) (cbs : List (CBound ℝ)) (x : ℕ → ℝ) : ℝ :=
  (cbs.map (fun c => hlqCost pl ph c.l c.h (sumRange c.s c.e x))).sum

theorem rangesFn_eval (pl ph : ℝ) (x : ℕ → ℝ) : ∀ (cbs : List (CBound ℝ)) (s0 n : ℕ), Chained s0 n cbs →
    (rangesFn pl ph cbs).eval (n - s0) (fun i => x (s0 + i)) = rangesSum pl ph cbs x
  | [], _, _, h => by simp [Chained] at h
  | [c], s0, n, h => by
    obtain ⟨h1, _, h3⟩ := h
    subst h1 h3
    simp [rangesFn, Fn.eval, rangesSum, sumRange]
  | c :: c' :: rest, s0, n, h => by
    obtain ⟨h1, h2, h3⟩ := h
    subst h1
    have ih := rangesFn_eval pl ph x (c' :: rest) c.e n h3
    have hle : c.e ≤ n := by
      clear ih
      induction rest generalizing c c' with
      | nil => obtain ⟨a, b, d⟩ := h3; omega
      | cons c'' rest ih2 =>
        obtain ⟨a, b, d⟩ := h3
        have := ih2 c' c'' (by omega) d
        omega
    simp only [rangesFn, Fn.eval, rangesSum, List.map_cons, List.sum_cons] at ih ⊢
    have e1 : n - c.s - (c.e - c.s) = n - c.e := by omega
    have e2 : (fun i => x (c.s + (c.e - c.s + i))) = fun i => x (c.e + i) := by
      funext i; congr 1; omega
    rw [e1, e2, ih]
    simp [sumRange]

/-- **cumulative_flow_bounds_relative cost.** For cumulative runs sorted by start, the first at 0, all
starts `< basis`, the `RangesFunction` built from the loaded cbounds evaluates, on any flow `x` of
length `basis`, to the sum over the cumulative runs of the curve `(p_l, p_h, l_i, h_i)` at the flow
summed over exactly the slots `[start_i, start_{i+1})` (the last up to `basis`). -/
theorem cfbr_spec (basis : ℕ) (pl ph : ℝ) {runs : List (ℕ × (ℝ × ℝ))} (hs : Sorted runs)
    (h0 : ∃ v rest, runs = (0, v) :: rest) (hb : ∀ r ∈ runs, r.1 < basis) (x : ℕ → ℝ) :
    (rangesFn pl ph (runToCbounds basis runs)).eval basis x = rangesSum pl ph (runToCbounds basis runs) x := by
  rw [runToCbounds, sortRuns_of_sorted hs]
  obtain ⟨v, rest, rfl⟩ := h0
  have := rangesFn_eval pl ph x _ 0 basis
    (cboundsOf_chained basis hs (fun r hr => Nat.le_of_lt (hb r hr)) (0, v) rest rfl)
  simpa using this

section
variable {α : Type} [Add α] [Sub α] [Mul α] [Div α] [Neg α]
  [OfNat α 0] [OfNat α 1] [OfNat α 2]
  [LT α] [LE α] [DecidableEq α] [DecidableLT α] [DecidableLE α]

theorem load_leaf_spec (basis : Nat) (bounds : Run α) (cb : Option (Run α)) (costs : Option (Costs α))
    (leaf : Leaf α) (h : loadDevice basis (.load bounds cb costs) = .ok leaf) :
    ∃ b cbs f, tableBounds basis bounds = .ok b ∧ loadCbounds basis cb = .ok cbs ∧
      loadCostFunction basis costs ⟨basis, 2, fun t c => if c = 0 then b.1 t else b.2 t⟩ cbs = .ok f ∧
      leaf = mkLeaf basis b (cbs.getD []) (.adevice (f.getD .null)) := by
  simp only [loadDevice, bind, Except.bind] at h
  cases hb : tableBounds basis bounds with
  | error e => simp [hb] at h
  | ok b =>
    simp only [hb] at h
    cases hc : loadCbounds basis cb with
    | error e => simp [hc] at h
    | ok cbs =>
      simp only [hc] at h
      cases hf : loadCostFunction basis costs ⟨basis, 2, fun t c => if c = 0 then b.1 t else b.2 t⟩ cbs with
      | error e => simp [hf] at h
      | ok f =>
        simp only [hf] at h
        refine ⟨b, cbs, f, rfl, rfl, hf, ?_⟩
        split at h
        · simp at h
        · simp only [pure, Except.pure, Except.ok.injEq] at h
          exact h.symm

theorem supply_leaf_spec (basis : Nat) (bounds : Run α) (cb : Option (Run α)) (costs : Option (Costs α))
    (leaf : Leaf α) (h : loadDevice basis (.supply bounds cb costs) = .ok leaf) :
    ∃ b cbs f, tableBounds basis bounds = .ok b ∧ loadCbounds basis cb = .ok cbs ∧
      loadCostFunction basis costs ⟨basis, 2, fun t c => if c = 0 then (supplyPair b.1 b.2).1 t else (supplyPair b.1 b.2).2 t⟩ cbs = .ok f ∧
      leaf = mkLeaf basis (supplyPair b.1 b.2) (cbs.getD [])
        (.adevice (match f with | some g => .reflect g | none => .null)) := by
  simp only [loadDevice, bind, Except.bind] at h
  cases hb : tableBounds basis bounds with
  | error e => simp [hb] at h
  | ok b =>
    simp only [hb] at h
    cases hc : loadCbounds basis cb with
    | error e => simp [hc] at h
    | ok cbs =>
      simp only [hc] at h
      cases hf : loadCostFunction basis costs ⟨basis, 2, fun t c => if c = 0 then (supplyPair b.1 b.2).1 t else (supplyPair b.1 b.2).2 t⟩ cbs with
      | error e => simp [hf] at h
      | ok f =>
        simp only [hf] at h
        refine ⟨b, cbs, f, rfl, rfl, hf, ?_⟩
        rcases supplyBounds_eq basis b.1 b.2 with hq | hq
        · simp only [hq] at h
          split at h
          · simp at h
          · simp only [pure, Except.pure, Except.ok.injEq] at h
            exact h.symm
        · simp [hq] at h

/-- the storage field a builder key is mapped to (`parameter_map`, builder_loader.py:65-76). -/
def sField (q : SParams α) : String → Option α
  | "capacity" => some q.capacity
  | "efficiencyFactor" => some q.efficiency
  | "reserveRatio" => some q.reserve
  | "startingRatio" => some q.start
  | "fastChargeCostFactor" => some q.c1
  | "flipFlopCostFactor" => some q.c2
  | "deepDischargeCostFactor" => some q.c3
  | "deepDepthRatio" => some q.damageDepth
  | _ => none

def storageKeys : List String := ["capacity", "efficiencyFactor", "reserveRatio", "startingRatio",
  "fastChargeCostFactor", "flipFlopCostFactor", "deepDischargeCostFactor", "deepDepthRatio"]

theorem storageSet_spec (q : SParams α) (k : String) (v : α) (hk : k ∈ storageKeys) :
    ∃ q', storageSet q k v = .ok q' ∧ sField q' k = some v ∧ q'.sustainment = q.sustainment ∧
      ∀ k', k' ≠ k → sField q' k' = sField q k' := by
  simp only [storageKeys, List.mem_cons, List.not_mem_nil, or_false] at hk
  rcases hk with rfl | rfl | rfl | rfl | rfl | rfl | rfl | rfl <;>
    refine ⟨_, rfl, rfl, rfl, ?_⟩ <;> intro k' hk' <;> simp only [sField] <;> split <;> simp_all

theorem storageSet_unknown (q : SParams α) (k : String) (v : α) (hk : k ∉ storageKeys) :
    storageSet q k v = .error .keyError := by
  simp only [storageSet]
  split <;> first | rfl | simp_all [storageKeys]

/-- **storage parameter map.** With distinct keys, all of them in `parameter_map`, the call succeeds;
every exported value lands in the field the map names, every other mapped field and `sustainment`
keep their previous (default) value. -/
theorem storageParams_spec : ∀ (ps : List (String × α)) (q : SParams α),
    (ps.map (·.1)).Nodup → (∀ kv ∈ ps, kv.1 ∈ storageKeys) →
    ∃ q', storageParams ps q = .ok q' ∧ (∀ kv ∈ ps, sField q' kv.1 = some kv.2) ∧
      (∀ k, k ∉ ps.map (·.1) → sField q' k = sField q k) ∧ q'.sustainment = q.sustainment
  | [], q, _, _ => ⟨q, rfl, by simp, by simp, rfl⟩
  | (k, v) :: rest, q, hnd, hk => by
    obtain ⟨q1, hq1, hv, hsus, hoth⟩ := storageSet_spec q k v (hk (k, v) List.mem_cons_self)
    have hnd' := List.nodup_cons.mp hnd
    obtain ⟨q', hq', hall, hkeep, hsus'⟩ := storageParams_spec rest q1 hnd'.2
      (fun kv hkv => hk kv (List.mem_cons_of_mem _ hkv))
    refine ⟨q', by simp [storageParams, hq1, hq', bind, Except.bind], ?_, ?_, by rw [hsus', hsus]⟩
    · intro kv hkv
      rcases List.mem_cons.mp hkv with rfl | hkv
      · rw [hkeep _ hnd'.1]; exact hv
      · exact hall kv hkv
    · intro k' hk'
      simp only [List.map_cons, List.mem_cons, not_or] at hk'
      rw [hkeep k' hk'.2, hoth k' hk'.1]

/-- any key outside `parameter_map` — in particular the two clipping-factor keys — makes the whole
load raise `KeyError` (known finding: storage with clipping factors cannot load). -/
theorem storageParams_unknown : ∀ (ps : List (String × α)) (q : SParams α),
    (∃ kv ∈ ps, kv.1 ∉ storageKeys) → storageParams ps q = .error .keyError
  | [], _, h => by simp at h
  | (k, v) :: rest, q, h => by
    by_cases hk : k ∈ storageKeys
    · obtain ⟨q1, hq1, _⟩ := storageSet_spec q k v hk
      have : ∃ kv ∈ rest, kv.1 ∉ storageKeys := by
        obtain ⟨kv, hkv, hn⟩ := h
        rcases List.mem_cons.mp hkv with rfl | hkv
        · exact absurd hk hn
        · exact ⟨kv, hkv, hn⟩
      simp [storageParams, hq1, storageParams_unknown rest q1 this, bind, Except.bind]
    · simp [storageParams, storageSet_unknown q k v hk, bind, Except.bind]

example : "chargeRateClippingFactor" ∉ storageKeys ∧ "disChargeRateClippingFactor" ∉ storageKeys := by decide

theorem storage_leaf_spec (basis : Nat) (bounds : Run α) (ps : Option (List (String × α)))
    (leaf : Leaf α) (h : loadDevice basis (.storage bounds ps) = .ok leaf) :
    ∃ b l q, tableBounds basis bounds = .ok b ∧ ps = some l ∧ storageParams l sDefaults = .ok q ∧
      leaf = mkLeaf basis b [] (.sdevice q) := by
  simp only [loadDevice, bind, Except.bind] at h
  cases hb : tableBounds basis bounds with
  | error e => simp [hb] at h
  | ok b =>
    simp only [hb] at h
    cases ps with
    | none => simp at h
    | some l =>
      simp only at h
      cases hq : storageParams l sDefaults with
      | error e => simp [hq] at h
      | ok q =>
        simp only [hq] at h
        refine ⟨b, l, q, rfl, rfl, hq, ?_⟩
        split at h
        · simp at h
        · simp only [pure, Except.pure, Except.ok.injEq] at h
          exact h.symm
end

section
variable {α : Type} [Add α] [Sub α] [Mul α] [Div α] [Neg α]
  [OfNat α 0] [OfNat α 1] [OfNat α 2]
  [LT α] [LE α] [DecidableEq α] [DecidableLT α] [DecidableLE α]

/-- **cumulative bounds of a loaded leaf.** A loaded `load` device whose `cumulative_bounds` run has
2-list values carries exactly `runToCbounds` of those pairs (so `runToCbounds_entries/partition/perm`
apply to the leaf's `cbs`); without the key it carries none. -/
theorem load_cbounds_spec (basis : Nat) (bounds : Run α) (cb : Option (Run α)) (costs : Option (Costs α))
    (leaf : Leaf α) (h : loadDevice basis (.load bounds cb costs) = .ok leaf) :
    (cb = none → leaf.cbs = []) ∧
    (∀ run, cb = some run → (∀ r ∈ run.runs, ∃ x y, r.2 = .vec [x, y]) →
      leaf.cbs = runToCbounds basis (run.runs.map (fun r => (r.1, pairOf r.2)))) := by
  obtain ⟨b, cbs, f, _, hc, _, rfl⟩ := load_leaf_spec basis bounds cb costs leaf h
  constructor
  · intro hn
    subst hn
    simp [loadCbounds, pure, Except.pure] at hc
    subst hc
    rfl
  · intro run hr h2
    subst hr
    simp only [loadCbounds, bind, Except.bind] at hc
    split at hc
    · simp [throw, throwThe, MonadExceptOf.throw] at hc
    · rename_i hbasis
      simp only [runToCboundsNp_eq run h2, pure, Except.pure, Except.ok.injEq] at hc
      subst hc
      have : run.basis = basis := by simpa using hbasis
      simp [mkLeaf, this]
end

end DK.Loader
