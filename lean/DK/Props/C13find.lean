import DK.Props.C13
import DK.Model.TreeFind
/-!
# C13 — lookup by label: `find` / `get` return exactly the rows whose label matches, in row order

`Tree.findLabels t p` (DK/Model/TreeFind.lean) is the list of (row, label) with `p label`.
* `findLabels_mem`      : (k, l) is returned  ↔  l is the label of row k and `p l`;
* `findLabels_sorted`   : rows are returned in strictly increasing order (so each at most once);
* `findLabels_head_least`: the first entry (what `get` returns) is the least matching row;
* `findLabels_row_lt` / `findLabels_owner` : every returned row is a row of the flow matrix and is
  owned by exactly one block (the block whose cost / bounds / constraints read that row, C02).
-/
namespace DK.C13
open DK DK.C02

theorem findLabels_mem (t : Tree ℝ) (p : String → Bool) (k : ℕ) (l : String) :
    (k, l) ∈ t.findLabels p ↔ (t.labels "")[k]? = some l ∧ p l = true := by
  unfold Tree.findLabels
  simp only [List.mem_map, List.mem_filter, Prod.mk.injEq]
  constructor
  · rintro ⟨⟨l', k'⟩, ⟨hm, hp⟩, rfl, rfl⟩
    exact ⟨List.mem_zipIdx_iff_getElem?.mp hm |> fun h => by simpa using h, hp⟩
  · rintro ⟨hl, hp⟩
    exact ⟨(l, k), ⟨List.mem_zipIdx_iff_getElem?.mpr (by simpa using hl), hp⟩, rfl, rfl⟩

theorem findLabels_sorted (t : Tree ℝ) (p : String → Bool) :
    ((t.findLabels p).map Prod.fst).Pairwise (· < ·) := by
  unfold Tree.findLabels
  rw [List.map_map]
  have h : ((t.labels "").zipIdx.map (fun lk => lk.2)).Pairwise (· < ·) := by
    rw [List.zipIdx_map_snd]
    exact List.pairwise_lt_range'
  have hs : (((t.labels "").zipIdx.filter (fun lk => p lk.1)).map (fun lk => lk.2)).Sublist
      ((t.labels "").zipIdx.map (fun lk => lk.2)) := List.Sublist.map _ List.filter_sublist
  exact List.Pairwise.sublist hs h

/-- what `get` returns (the head of the candidate list) is the least row whose label matches. -/
theorem findLabels_head_least (t : Tree ℝ) (p : String → Bool) (k : ℕ) (l : String)
    (h : (t.findLabels p).head? = some (k, l)) (j : ℕ) (l' : String)
    (hj : (t.labels "")[j]? = some l') (hp : p l' = true) : k ≤ j := by
  have hmem : (j, l') ∈ t.findLabels p := (findLabels_mem t p j l').mpr ⟨hj, hp⟩
  have hs := findLabels_sorted t p
  cases hfl : t.findLabels p with
  | nil => rw [hfl] at hmem; cases hmem
  | cons a as =>
    rw [hfl] at h hmem hs
    simp only [List.head?_cons, Option.some.injEq] at h
    subst h
    rcases List.mem_cons.mp hmem with heq | hin
    · cases heq; exact Nat.le_refl _
    · simp only [List.map_cons, List.pairwise_cons] at hs
      exact Nat.le_of_lt (hs.1 j (List.mem_map.mpr ⟨(j, l'), hin, rfl⟩))

theorem findLabels_row_lt (t : Tree ℝ) (h : WF t) (p : String → Bool) (k : ℕ) (l : String)
    (hk : (k, l) ∈ t.findLabels p) : k < t.rows := by
  have h1 := ((findLabels_mem t p k l).mp hk).1
  rw [← labels_length t h]
  by_contra hge
  rw [List.getElem?_eq_none (Nat.le_of_not_lt hge)] at h1
  cases h1

/-- every returned row is owned by exactly one block. -/
theorem findLabels_owner (t : Tree ℝ) (h : WF t) (p : String → Bool) (k : ℕ) (l : String)
    (hk : (k, l) ∈ t.findLabels p) :
    ∃ x : BlockAt, (x ∈ t.blocks "" 0 ∧ x.off ≤ k ∧ k < x.off + x.b.rows) ∧
      ∀ y : BlockAt, (y ∈ t.blocks "" 0 ∧ y.off ≤ k ∧ k < y.off + y.b.rows) → y = x := by
  obtain ⟨x, hx, h1, h2⟩ := row_owner t "" k (findLabels_row_lt t h p k l hk)
  exact ⟨x, ⟨hx, h1, h2⟩, fun y hy => row_owner_unique t "" k y x hy.1 hx ⟨hy.2.1, hy.2.2⟩ ⟨h1, h2⟩⟩

/-- `get(name)`'s candidates are the rows whose label ends with `name` (definitional). -/
theorem getCandidates_mem (t : Tree ℝ) (name : String) (k : ℕ) (l : String) :
    (k, l) ∈ t.getCandidates name ↔ (t.labels "")[k]? = some l ∧ l.endsWith name = true :=
  findLabels_mem t (fun l => l.endsWith name) k l

/-- non-vacuity: on the example tree row 3 (= row 1 of the nested 3-row block at offset 2) is found by any
predicate its label satisfies, and it is a row (< 6) owned by a block. -/
example : ∃ l, (3, l) ∈ exTree.findLabels (fun _ => true) ∧ 3 < exTree.rows := by
  refine ⟨_, (findLabels_mem exTree _ 3 _).mpr ⟨label_get exTree exTree_WF _ exTree_mem 1 (by simp [BlockAt.b, exBlock]), rfl⟩, ?_⟩
  simp [exTree, Tree.rows, rowsL, exBlock]

end DK.C13

#print axioms DK.C13.findLabels_mem
#print axioms DK.C13.findLabels_sorted
#print axioms DK.C13.findLabels_head_least
#print axioms DK.C13.findLabels_row_lt
#print axioms DK.C13.findLabels_owner
#print axioms DK.C13.getCandidates_mem
