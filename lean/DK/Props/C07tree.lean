import DK.Props.C07
import DK.Props.C02
import DK.Props.C04
import DK.Lemmas.TreeConvex
/-!
# C07 (tree level) — the cost of a whole device tree is convex over its bounds box, the feasible
set of C03/C04 is convex, and therefore a local optimum is a global one

Definitions (in `DK/Lemmas/TreeConvex.lean`, namespace `DK`):
`MInBox R n bd S`, `mmix θ S T`, `MConvexOn R n bd f`, `MAffine`, `MCon.Affine`, `MCon.ConvexSat`,
`Con.Affine`, `Con.ConvexSat`, `Con.ConcaveIneq`, `Block.Local`, `Block.Convex n b`,
`Block.ConvexOnFeas n b`.

Findings recorded here as theorems:
* `ofMF_not_convex_on_box` — a multi-flow adaptor over an `IDevice` is **not** convex over its conduit
  box (the column sum of `k` conduits in `[0, hb]` reaches `k·hb`, where `c·q^b` with odd `b` is
  concave); it *is* convex on its feasible set, where the column sum is constrained back into
  `[lb, hb]` (`ofMF_convex_feasible`).  The tree theorem is therefore stated in two forms:
  box (`tree_cost_convex`) and feasible set (`tree_cost_convex_feasible`).
* `socHi_not_convexSat`, `sdevice_feasible_not_convex` — for a lossy storage (`efficiency < 1`) the
  upper state-of-charge constraint `capacity − soc ≥ 0` does not define a convex set, and neither does
  the whole `SDevice.constraints` list intersected with the bounds box.  `soc ≥ 0`, the reserve and the
  discharge-rate clip are concave inequalities (convex sets); at `efficiency = 1` everything is affine.

Notes on the statements:
* `tree_cost_convex` needs NO locality hypothesis: `MInBox b.rows …` constrains only the block's own rows and
  `Block.Convex` quantifies over all matrices, so the shifted slices `shiftRows off S` can be fed to it
  directly (`shiftRows off (mmix θ S T) = mmix θ (shiftRows off S) (shiftRows off T)` is `rfl`).
  `Block.Local` is still stated and proved for the shipped blocks (`ofLeaf_local`, `ofMF_local`,
  `tree_cost_local`).
* `Leaf.ConvexAcc` for `IDevice` asks for integer exponents `b ≥ 0` (weaker than the validator's `b ≥ 1`;
  `q ↦ q^b` is convex on `[0, ∞)` for every natural `b`), `a ≥ 0`, `c ≥ 0`, `lb ≤ hb`.
* `local_is_global`: the decision variables are the entries `(r, i)`, `r < R`, `i < n`; competitors agree with
  `S` elsewhere (`AgreeOutside`).  `local_is_global_of_local` is the version with the plain sup-norm
  neighbourhood for `F`, `f` that ignore the entries outside the window.
-/
namespace DK.C07tree
open DK DK.C02

/-! ## 2. locality of the shipped blocks -/

theorem ofLeaf_local (id : String) (d : Leaf ℝ) (cons : List (Con ℝ)) : (Block.ofLeaf id d cons).Local := by
  intro S S' P P' hS hP
  have h1 : S 0 = S' 0 := hS 0 Nat.zero_lt_one
  have h2 : P 0 = P' 0 := hP 0 Nat.zero_lt_one
  show d.cost (S 0) (P 0) = d.cost (S' 0) (P' 0)
  rw [h1, h2]

theorem ofMF_local (id : String) (d : Leaf ℝ) (cons : List (Con ℝ)) (flows : List String)
    (ratio : Option (Bool × ℝ × ℝ)) : (Block.ofMF id d cons flows ratio).Local := by
  intro S S' P P' hS hP
  have hS' : ∀ r < flows.length, S r = S' r := hS
  have hP' : ∀ r < flows.length, P r = P' r := hP
  have h1 : colSum flows.length S = colSum flows.length S' := by
    funext i
    exact sumTo_congr (fun r hr => by rw [hS' r hr])
  have h2 : sumTo flows.length (fun r => sumTo d.n (fun i => S r i * P r i))
      = sumTo flows.length (fun r => sumTo d.n (fun i => S' r i * P' r i)) :=
    sumTo_congr (fun r hr => by rw [hS' r hr, hP' r hr])
  show d.cost (colSum flows.length S) (fun _ => 0) + _ = d.cost (colSum flows.length S') (fun _ => 0) + _
  rw [h1, h2]

/-- the cost of a tree of local blocks reads only the tree's own rows. -/
theorem tree_cost_local (t : Tree ℝ) (hl : ∀ x : BlockAt, x ∈ t.blocks "" 0 → x.b.Local)
    (S S' P P' : Mat ℝ) (hS : ∀ r < t.rows, S r = S' r) (hP : ∀ r < t.rows, P r = P' r) :
    t.cost S P = t.cost S' P' := by
  rw [cost_eq_sum_blocks t "" S P, cost_eq_sum_blocks t "" S' P']
  congr 1
  apply List.map_congr_left
  intro x hx
  have hm := Tree.blocks_mem_bounds t "" 0 x hx
  exact hl x hx _ _ _ _ (fun r hr => hS (x.2.1 + r) (by simp only [BlockAt.b] at hr; omega))
    (fun r hr => hP (x.2.1 + r) (by simp only [BlockAt.b] at hr; omega))

/-! ## 3. the tree cost is convex -/

/-- feasible set of a tree over horizon `n`: the bounds box and every constraint of `Tree.cons`. -/
def Feasible (t : Tree ℝ) (n : ℕ) (S : Mat ℝ) : Prop :=
  MInBox t.rows n t.bounds S ∧ ∀ c ∈ t.cons n, c.Sat S

theorem feasible_block (t : Tree ℝ) (n : ℕ) (S : Mat ℝ) (hS : Feasible t n S) (x : BlockAt)
    (hx : x ∈ t.blocks "" 0) :
    MInBox x.b.rows n x.b.bounds (shiftRows x.off S) ∧ ∀ c ∈ x.b.cons, c.Sat (shiftRows x.off S) :=
  ⟨mInBox_block t "" n x hx hS.1, ((cons_sat_iff t n S).1 hS.2).1 x hx⟩

/-- chord inequality of the tree cost between *feasible* matrices, when every block's cost is convex
on the block's own feasible set. -/
theorem tree_cost_convex_feasible (t : Tree ℝ) (n : ℕ)
    (h : ∀ x : BlockAt, x ∈ t.blocks "" 0 → x.b.ConvexOnFeas n) (P S T : Mat ℝ)
    (hS : Feasible t n S) (hT : Feasible t n T) (θ : ℝ) (h0 : 0 ≤ θ) (h1 : θ ≤ 1) :
    t.cost (mmix θ S T) P ≤ θ * t.cost S P + (1 - θ) * t.cost T P := by
  rw [cost_eq_sum_blocks t "" (mmix θ S T) P, cost_eq_sum_blocks t "" S P, cost_eq_sum_blocks t "" T P]
  apply list_sum_chord
  intro x hx
  obtain ⟨bS, cS⟩ := feasible_block t n S hS x hx
  obtain ⟨bT, cT⟩ := feasible_block t n T hT x hx
  exact h x hx (shiftRows x.off P) _ _ bS cS bT cT θ h0 h1

/-- **the tree cost is convex over the tree's bounds box** when every block's cost is convex over the
block's own bounds box (any depth, any fan-out, children with different row counts). -/
theorem tree_cost_convex (t : Tree ℝ) (n : ℕ) (h : ∀ x : BlockAt, x ∈ t.blocks "" 0 → x.b.Convex n)
    (P : Mat ℝ) : MConvexOn t.rows n t.bounds (fun S => t.cost S P) := by
  intro S T hS hT θ h0 h1
  simp only
  rw [cost_eq_sum_blocks t "" (mmix θ S T) P, cost_eq_sum_blocks t "" S P, cost_eq_sum_blocks t "" T P]
  apply list_sum_chord
  intro x hx
  exact h x hx (shiftRows x.off P) _ _ (mInBox_block t "" n x hx hS) (mInBox_block t "" n x hx hT) θ h0 h1

/-! ## 4. shipped blocks are convex under the acceptance hypotheses -/

/-- the per-class hypotheses under which the class's cost is convex (what the validators enforce, plus —
where the validators are too weak — what the property text restricts to). -/
def _root_.DK.Leaf.ConvexAcc (d : Leaf ℝ) : Prop :=
  match d.kind with
  | .device => True
  | .cdevice _ _ => True
  | .cdevice2 pl ph => pl ≤ ph ∧ ∀ c ∈ d.cbs, c.l ≤ c.h ∧ c.e ≤ d.n
  | .idevice a b c => (∀ k < d.n, 0 ≤ a k) ∧ (∀ k < d.n, 0 ≤ b k) ∧ (∀ k < d.n, 0 ≤ c k) ∧
      (∀ k < d.n, d.lb k ≤ d.hb k)
  | .idevice2 pl ph => (∀ k < d.n, pl k ≤ ph k) ∧ (∀ k < d.n, d.lb k ≤ d.hb k)
  | .gdevice cs => ∀ k < d.n, ∀ u v : ℝ, -d.hb k ≤ u → u ≤ -d.lb k → -d.hb k ≤ v → v ≤ -d.lb k →
      ∀ θ : ℝ, 0 ≤ θ → θ ≤ 1 →
        polyEval (cs k) (θ * u + (1 - θ) * v) ≤ θ * polyEval (cs k) u + (1 - θ) * polyEval (cs k) v
  | .sdevice q => 0 ≤ q.c2 ∧ q.c2 ≤ q.c1 ∧ 0 ≤ q.c3 ∧ 0 < q.efficiency ∧ q.efficiency ≤ 1 ∧ 0 ≤ q.sustainment
  | .tdevice q => (∀ k < d.n, 0 ≤ q.c k) ∧ 0 ≤ q.tRange
  | .adevice f => ConvexOnBox d.n d.lb d.hb (f.eval d.n)

/-- every shipped class, as the executable `Leaf.cost` evaluates it (integer exponents for `IDevice`),
is convex over its bounds box under `Leaf.ConvexAcc`. -/
theorem leaf_cost_convex (d : Leaf ℝ) (h : d.ConvexAcc) (p : ℕ → ℝ) :
    ConvexOnBox d.n d.lb d.hb (fun x => d.cost x p) := by
  obtain ⟨n, lb, hb, cbs, kind⟩ := d
  cases kind with
  | device => exact C07.device_convex n lb hb p
  | cdevice a b => exact C07.cdevice_convex n a b lb hb p
  | cdevice2 pl ph => exact C07.cdevice2_convex n pl ph cbs lb hb p h.1 h.2
  | idevice a b c => exact idevice_ipow_convex n a b c lb hb p h.1 h.2.1 h.2.2.1 h.2.2.2
  | idevice2 pl ph => exact C07.idevice2_convex n pl ph lb hb p h.1 h.2
  | gdevice cs => exact C07.gdevice_convex n cs lb hb p h
  | sdevice q => exact C07.sdevice_convex n q lb hb p h.1 h.2.1 h.2.2.1 h.2.2.2.1 h.2.2.2.2.1 h.2.2.2.2.2
  | tdevice q => exact C07.tdevice_convex n q lb hb p h.1 h.2
  | adevice f => exact ConvexOnBox.add h ((isAffine_priceTerm n p).convexOnBox n lb hb)

/-- the classes whose cost is convex on *every* box, not only on their own bounds box
(linear, high/low quadratic, thermal, storage). -/
def _root_.DK.Leaf.GlobalKind (d : Leaf ℝ) : Prop :=
  match d.kind with
  | .device | .cdevice _ _ | .cdevice2 _ _ | .idevice2 _ _ | .sdevice _ | .tdevice _ => True
  | _ => False

theorem leaf_cost_convex_univ (d : Leaf ℝ) (h : d.ConvexAcc) (hk : d.GlobalKind) (lb' hb' p : ℕ → ℝ) :
    ConvexOnBox d.n lb' hb' (fun x => d.cost x p) := by
  obtain ⟨n, lb, hb, cbs, kind⟩ := d
  cases kind with
  | device => exact C07.device_convex n lb' hb' p
  | cdevice a b => exact C07.cdevice_convex n a b lb' hb' p
  | cdevice2 pl ph => exact C07.cdevice2_convex n pl ph cbs lb' hb' p h.1 h.2
  | idevice a b c => exact absurd hk id
  | idevice2 pl ph =>
    show ConvexOnBox n lb' hb' (fun x => idev2Cost n pl ph lb hb x p)
    unfold idev2Cost
    exact (convexOnBox_slots n lb' hb' (φ := fun k t => hlqCost (pl k) (ph k) (lb k) (hb k) t)
      (fun k hk => (chordR_hlqCost _ _ _ _ (h.1 k hk) (h.2 k hk)).chordIcc _ _)).add
      ((isAffine_priceTerm n p).convexOnBox n lb' hb')
  | gdevice cs => exact absurd hk id
  | sdevice q => exact C07.sdevice_convex n q lb' hb' p h.1 h.2.1 h.2.2.1 h.2.2.2.1 h.2.2.2.2.1 h.2.2.2.2.2
  | tdevice q => exact C07.tdevice_convex n q lb' hb' p h.1 h.2
  | adevice f => exact absurd hk id

/-- an atomic device as a one-row block (horizon `n ≥ d.n`; in a well-formed tree `n = d.n`). -/
theorem ofLeaf_convex (id : String) (d : Leaf ℝ) (cons : List (Con ℝ)) (n : ℕ) (hn : d.n ≤ n)
    (h : d.ConvexAcc) : (Block.ofLeaf id d cons).Convex n := by
  intro P S T hS hT θ h0 h1
  have hS' : InBox d.n d.lb d.hb (S 0) := fun k hk => hS 0 Nat.zero_lt_one k (lt_of_lt_of_le hk hn)
  have hT' : InBox d.n d.lb d.hb (T 0) := fun k hk => hT 0 Nat.zero_lt_one k (lt_of_lt_of_le hk hn)
  exact leaf_cost_convex d h (P 0) (S 0) (T 0) hS' hT' θ h0 h1

/-! ### the multi-flow adaptor -/

/-- lower / upper conduit bound (`(lb, 0)` for a producer, `(0, hb)` for a consumer). -/
noncomputable def mfLo (d : Leaf ℝ) (i : ℕ) : ℝ := if anyNeg d.n d.lb then d.lb i else 0
noncomputable def mfHi (d : Leaf ℝ) (i : ℕ) : ℝ := if anyNeg d.n d.lb then 0 else d.hb i

theorem mf_bounds_eq (id : String) (d : Leaf ℝ) (cons : List (Con ℝ)) (flows : List String)
    (ratio : Option (Bool × ℝ × ℝ)) (r i : ℕ) :
    (Block.ofMF id d cons flows ratio).bounds r i = (mfLo d i, mfHi d i) := by
  show (if anyNeg d.n d.lb then (d.lb i, 0) else (0, d.hb i)) = _
  unfold mfLo mfHi
  split_ifs <;> rfl

/-- the numeraire term of the adaptor is linear in the conduit matrix. -/
theorem mAffine_mfPrice (k n : ℕ) (P : Mat ℝ) :
    MAffine (fun S => sumTo k (fun r => sumTo n (fun i => S r i * P r i))) :=
  MAffine.sumTo k (fun r _ => MAffine.sumTo n (fun i _ => (mAffine_entry r i).mul_const (P r i)))

/-- the column sum of `k` conduits in the conduit box lies in the `k`-fold box. -/
theorem colSum_inBox (id : String) (d : Leaf ℝ) (cons : List (Con ℝ)) (flows : List String)
    (ratio : Option (Bool × ℝ × ℝ)) (n : ℕ) (hn : d.n ≤ n) (S : Mat ℝ)
    (hS : MInBox (Block.ofMF id d cons flows ratio).rows n (Block.ofMF id d cons flows ratio).bounds S) :
    InBox d.n (fun i => flows.length * mfLo d i) (fun i => flows.length * mfHi d i) (colSum flows.length S) := by
  intro i hi
  have hb : ∀ r < flows.length, mfLo d i ≤ S r i ∧ S r i ≤ mfHi d i := by
    intro r hr
    have := hS r hr i (lt_of_lt_of_le hi hn)
    rw [mf_bounds_eq] at this
    exact this
  have h1 := sumTo_le (n := flows.length) (f := fun _ => mfLo d i) (g := fun r => S r i) (fun r hr => (hb r hr).1)
  have h2 := sumTo_le (n := flows.length) (f := fun r => S r i) (g := fun _ => mfHi d i) (fun r hr => (hb r hr).2)
  rw [sumTo_const] at h1 h2
  exact ⟨h1, h2⟩

/-- **adaptor, box form.**  The adaptor cost is (wrapped cost ∘ column sum) + linear price term.  The column
sum of `k` conduits each in `[0, hb]` ranges over `[0, k·hb]`, which is LARGER than the wrapped device's box:
the hypothesis is convexity of the wrapped cost (at zero price) on that `k`-fold box. -/
theorem ofMF_convex (id : String) (d : Leaf ℝ) (cons : List (Con ℝ)) (flows : List String)
    (ratio : Option (Bool × ℝ × ℝ)) (n : ℕ) (hn : d.n ≤ n)
    (h : ConvexOnBox d.n (fun i => flows.length * mfLo d i) (fun i => flows.length * mfHi d i)
      (fun x => d.cost x (fun _ => 0))) :
    (Block.ofMF id d cons flows ratio).Convex n := by
  intro P S T hS hT θ h0 h1
  have hc := h _ _ (colSum_inBox id d cons flows ratio n hn S hS) (colSum_inBox id d cons flows ratio n hn T hT) θ h0 h1
  have hp := mAffine_mfPrice flows.length d.n P θ S T
  show d.cost (colSum flows.length (mmix θ S T)) (fun _ => 0) + _ ≤
    θ * (d.cost (colSum flows.length S) (fun _ => 0) + _) + (1 - θ) * (d.cost (colSum flows.length T) (fun _ => 0) + _)
  rw [colSum_mmix]
  simp only at hc hp
  linarith

/-- corollary: wrapped classes that are convex everywhere (linear, high/low quadratic, thermal, storage). -/
theorem ofMF_convex_global (id : String) (d : Leaf ℝ) (cons : List (Con ℝ)) (flows : List String)
    (ratio : Option (Bool × ℝ × ℝ)) (n : ℕ) (hn : d.n ≤ n) (h : d.ConvexAcc) (hk : d.GlobalKind) :
    (Block.ofMF id d cons flows ratio).Convex n :=
  ofMF_convex id d cons flows ratio n hn (leaf_cost_convex_univ d h hk _ _ _)

/-- **adaptor, feasible-set form**: between conduit matrices satisfying the adaptor's own constraints (which
put the column sum back into the wrapped device's box `[lb, hb]`), the chord inequality needs only convexity
of the wrapped cost on its own box — i.e. `Leaf.ConvexAcc`, for every class. -/
theorem ofMF_convex_feasible (id : String) (d : Leaf ℝ) (cons : List (Con ℝ)) (flows : List String)
    (ratio : Option (Bool × ℝ × ℝ)) (n : ℕ) (h : d.ConvexAcc) :
    (Block.ofMF id d cons flows ratio).ConvexOnFeas n := by
  intro P S T _ cS _ cT θ h0 h1
  have bS : InBox d.n d.lb d.hb (colSum flows.length S) := ((C04.mf_cons_sat_iff id d cons flows ratio S).1 cS).1
  have bT : InBox d.n d.lb d.hb (colSum flows.length T) := ((C04.mf_cons_sat_iff id d cons flows ratio T).1 cT).1
  have hc := leaf_cost_convex d h (fun _ => 0) _ _ bS bT θ h0 h1
  have hp := mAffine_mfPrice flows.length d.n P θ S T
  show d.cost (colSum flows.length (mmix θ S T)) (fun _ => 0) + _ ≤
    θ * (d.cost (colSum flows.length S) (fun _ => 0) + _) + (1 - θ) * (d.cost (colSum flows.length T) (fun _ => 0) + _)
  rw [colSum_mmix]
  simp only at hc hp
  linarith

/-- the box form really needs the larger box: two conduits over an `IDevice` with `c·q³`, bounds `[0,1]`
(which satisfies `Leaf.ConvexAcc`) give an adaptor that is NOT convex over its conduit box. -/
noncomputable def exCubic : Leaf ℝ :=
  { n := 1, lb := fun _ => 0, hb := fun _ => 1, cbs := [], kind := .idevice (fun _ => 0) (fun _ => 3) (fun _ => 1) }

theorem exCubic_acc : exCubic.ConvexAcc := by
  refine ⟨?_, ?_, ?_, ?_⟩ <;> intro k _ <;> simp [exCubic]

theorem exCubic_mfBox (v : ℝ) (h0 : 0 ≤ v) (h1 : v ≤ 1) :
    MInBox (Block.ofMF "m" exCubic [] ["a", "b"] none).rows 1 (Block.ofMF "m" exCubic [] ["a", "b"] none).bounds
      (fun _ _ => v) := by
  have ha : anyNeg exCubic.n exCubic.lb = false := (anyNeg_false_iff _ _).2 (fun i _ => le_refl (0:ℝ))
  intro r _ i _
  rw [mf_bounds_eq]
  simp only [mfLo, mfHi, ha, Bool.false_eq_true, if_false]
  exact ⟨h0, h1⟩

theorem ofMF_not_convex_on_box : exCubic.ConvexAcc ∧ ¬ (Block.ofMF "m" exCubic [] ["a", "b"] none).Convex 1 := by
  refine ⟨exCubic_acc, fun h => ?_⟩
  have h' := h (fun _ _ => 0) (fun _ _ => 1) (fun _ _ => 1/2) (exCubic_mfBox 1 (by norm_num) (by norm_num))
    (exCubic_mfBox (1/2) (by norm_num) (by norm_num)) (1/2) (by norm_num) (by norm_num)
  simp only [Block.ofMF, exCubic, Leaf.cost, idevCost, abcCost, abcQ, abcS, colSum, sumTo, mmix, ipow,
    priceTerm, List.length_cons, List.length_nil] at h'
  have e : Int.toNat 3 = 3 := rfl
  rw [e] at h'
  norm_num at h'

/-! ## 5. the feasible set is convex -/

/-- every constraint of a tree is affine when every block constraint is (the closures a set adds itself —
aggregate bounds, label balancing — are affine, and `MCon.lift` preserves affinity). -/
theorem tree_cons_affine (t : Tree ℝ) (n : ℕ)
    (h : ∀ x : BlockAt, x ∈ t.blocks "" 0 → ∀ c ∈ x.b.cons, c.Affine) : ∀ c ∈ t.cons n, c.Affine :=
  Tree.cons_all n MCon.Affine (fun _ off rows hc => hc.lift off rows)
    (fun R own labels c hc => ownCons_affine n R own labels c hc) "" 0 t h

/-- the same for "the satisfaction set is convex" (covers the concave storage inequalities). -/
theorem tree_cons_convexSat (t : Tree ℝ) (n : ℕ)
    (h : ∀ x : BlockAt, x ∈ t.blocks "" 0 → ∀ c ∈ x.b.cons, c.ConvexSat) : ∀ c ∈ t.cons n, c.ConvexSat :=
  Tree.cons_all n MCon.ConvexSat (fun _ off rows hc => hc.lift off rows)
    (fun R own labels c hc => (ownCons_affine n R own labels c hc).convexSat) "" 0 t h

/-- **the feasible set `{S | MInBox ∧ ∀ c ∈ t.cons n, c.Sat S}` is closed under `mmix`** when every
constraint has a convex satisfaction set … -/
theorem feasible_convex (t : Tree ℝ) (n : ℕ) (h : ∀ c ∈ t.cons n, c.ConvexSat) (S T : Mat ℝ)
    (hS : Feasible t n S) (hT : Feasible t n T) (θ : ℝ) (h0 : 0 ≤ θ) (h1 : θ ≤ 1) :
    Feasible t n (mmix θ S T) :=
  ⟨mInBox_mmix hS.1 hT.1 h0 h1, fun c hc => h c hc S T θ h0 h1 (hS.2 c hc) (hT.2 c hc)⟩

/-- … in particular when every constraint function is affine … -/
theorem feasible_convex_affine (t : Tree ℝ) (n : ℕ) (h : ∀ c ∈ t.cons n, c.Affine) (S T : Mat ℝ)
    (hS : Feasible t n S) (hT : Feasible t n T) (θ : ℝ) (h0 : 0 ≤ θ) (h1 : θ ≤ 1) :
    Feasible t n (mmix θ S T) :=
  feasible_convex t n (fun c hc => (h c hc).convexSat) S T hS hT θ h0 h1

/-- … which only has to be checked on the blocks. -/
theorem feasible_convex_of_blocks (t : Tree ℝ) (n : ℕ)
    (h : ∀ x : BlockAt, x ∈ t.blocks "" 0 → ∀ c ∈ x.b.cons, c.ConvexSat) (S T : Mat ℝ)
    (hS : Feasible t n S) (hT : Feasible t n T) (θ : ℝ) (h0 : 0 ≤ θ) (h1 : θ ≤ 1) :
    Feasible t n (mmix θ S T) :=
  feasible_convex t n (tree_cons_convexSat t n h) S T hS hT θ h0 h1

/-! ### shipped blocks -/

theorem ofLeaf_cons_affine (id : String) (d : Leaf ℝ) (cons : List (Con ℝ)) (h : ∀ c ∈ cons, c.Affine) :
    ∀ c ∈ (Block.ofLeaf id d cons).cons, c.Affine := by
  intro c hc
  obtain ⟨c', hc', rfl⟩ := List.mem_map.1 hc
  exact (h c' hc').toM

theorem ofLeaf_cons_convexSat (id : String) (d : Leaf ℝ) (cons : List (Con ℝ)) (h : ∀ c ∈ cons, c.ConvexSat) :
    ∀ c ∈ (Block.ofLeaf id d cons).cons, c.ConvexSat := by
  intro c hc
  obtain ⟨c', hc', rfl⟩ := List.mem_map.1 hc
  exact (h c' hc').toM

theorem ofMF_cons_affine (id : String) (d : Leaf ℝ) (cons : List (Con ℝ)) (flows : List String)
    (ratio : Option (Bool × ℝ × ℝ)) (h : ∀ c ∈ cons, c.Affine) :
    ∀ c ∈ (Block.ofMF id d cons flows ratio).cons, c.Affine := by
  intro c hc
  simp only [Block.ofMF, List.mem_append, List.mem_flatMap, List.mem_map] at hc
  rcases hc with (⟨i, _, hi⟩ | ⟨c', hc', rfl⟩) | hc
  · exact sboundCons_affine _ _ i c hi
  · exact (h c' hc').overConduits _
  · cases ratio with
    | none => simp at hc
    | some q =>
      obtain ⟨e, r0, r1⟩ := q
      simp only [List.mem_map] at hc
      obtain ⟨i, _, rfl⟩ := hc
      exact ratioCon_affine e r0 r1 i

theorem ofMF_cons_convexSat (id : String) (d : Leaf ℝ) (cons : List (Con ℝ)) (flows : List String)
    (ratio : Option (Bool × ℝ × ℝ)) (h : ∀ c ∈ cons, c.ConvexSat) :
    ∀ c ∈ (Block.ofMF id d cons flows ratio).cons, c.ConvexSat := by
  intro c hc
  simp only [Block.ofMF, List.mem_append, List.mem_flatMap, List.mem_map] at hc
  rcases hc with (⟨i, _, hi⟩ | ⟨c', hc', rfl⟩) | hc
  · exact (sboundCons_affine _ _ i c hi).convexSat
  · exact (h c' hc').overConduits _
  · cases ratio with
    | none => simp at hc
    | some q =>
      obtain ⟨e, r0, r1⟩ := q
      simp only [List.mem_map] at hc
      obtain ⟨i, _, rfl⟩ := hc
      exact (ratioCon_affine e r0 r1 i).convexSat

/-! ### storage: which of `SDevice.constraints` define convex sets -/

/-- the two closures of `socCons`, named. -/
noncomputable def socLoCon (n : ℕ) (q : SParams ℝ) (i : ℕ) : Con ℝ :=
  { isEq := false, fn := fun r => socDot n q r i, jac := some (fun r j => socJac q r i j) }
noncomputable def socHiCon (n : ℕ) (q : SParams ℝ) (i : ℕ) : Con ℝ :=
  { isEq := false, fn := fun r => q.capacity - socDot n q r i, jac := some (fun r j => (-1 : ℝ) * socJac q r i j) }

theorem socCons_eq (n : ℕ) (q : SParams ℝ) (i : ℕ) : socCons n q i = [socLoCon n q i, socHiCon n q i] := rfl

/-- at `efficiency = 1` **every** storage constraint is affine (both clips on or off). -/
theorem sdeviceCons_affine (n : ℕ) (cbs : List (CBound ℝ)) (q : SParams ℝ) (lb hb : ℕ → ℝ)
    (clipLo clipHi : Option ℝ) (he : q.efficiency = 1) :
    ∀ c ∈ sdeviceCons n cbs q lb hb clipLo clipHi, c.Affine := by
  intro c hc
  have hsoc := socDot_affine n q he
  simp only [sdeviceCons, List.mem_append, List.mem_flatMap, List.mem_singleton] at hc
  rcases hc with (((hc | ⟨i, _, hi⟩) | hc) | hc) | rfl
  · exact deviceCons_affine n cbs c hc
  · simp only [socCons, List.mem_cons, List.not_mem_nil, or_false] at hi
    rcases hi with rfl | rfl
    · exact hsoc i
    · exact (isAffine_const _).sub (hsoc i)
  · cases clipLo with
    | none => simp at hc
    | some cl =>
      simp only [List.mem_map] at hc
      obtain ⟨i, _, rfl⟩ := hc
      exact (isAffine_coord i).sub (((hsoc i).div_const _).const_mul _)
  · cases clipHi with
    | none => simp at hc
    | some ch =>
      simp only [List.mem_map] at hc
      obtain ⟨i, _, rfl⟩ := hc
      exact (((isAffine_const 1).sub ((hsoc i).div_const _)).const_mul _).sub (isAffine_coord i)
  · exact (hsoc (n - 1)).sub (isAffine_const _)

/-- lossy storage, `0 < efficiency ≤ 1`, `sustainment ≥ 0`: `soc_i ≥ 0` is a concave inequality … -/
theorem socLoCon_concave (n : ℕ) (q : SParams ℝ) (he0 : 0 < q.efficiency) (he1 : q.efficiency ≤ 1)
    (hs : 0 ≤ q.sustainment) (i : ℕ) : (socLoCon n q i).ConcaveIneq :=
  ⟨rfl, fun x y θ h0 h1 => socDot_concave n q he0 he1 hs i x y θ h0 h1⟩

/-- … so is the end-of-window reserve … -/
theorem reserveCon_concave (n : ℕ) (q : SParams ℝ) (he0 : 0 < q.efficiency) (he1 : q.efficiency ≤ 1)
    (hs : 0 ≤ q.sustainment) : (reserveCon n q).ConcaveIneq := by
  refine ⟨rfl, fun x y θ h0 h1 => ?_⟩
  have := socDot_concave n q he0 he1 hs (n - 1) x y θ h0 h1
  simp only [reserveCon]
  linarith

/-- … and the discharge-rate clip `r_i − clip·lb_i·soc_i/capacity ≥ 0` (with `clip ≥ 0`, `lb_i ≤ 0`,
`capacity > 0`: a nonnegative multiple of the concave state of charge plus a coordinate). -/
theorem clipLoCon_concave (n : ℕ) (q : SParams ℝ) (lb : ℕ → ℝ) (clip : ℝ) (i : ℕ) (he0 : 0 < q.efficiency)
    (he1 : q.efficiency ≤ 1) (hs : 0 ≤ q.sustainment) (hclip : 0 ≤ clip) (hlb : lb i ≤ 0) (hcap : 0 < q.capacity) :
    (clipLoCon n q lb clip i).ConcaveIneq := by
  refine ⟨rfl, fun x y θ h0 h1 => ?_⟩
  have hc := socDot_concave n q he0 he1 hs i x y θ h0 h1
  have hκ : 0 ≤ -(clip * lb i) / q.capacity :=
    div_nonneg (neg_nonneg.2 (mul_nonpos_of_nonneg_of_nonpos hclip hlb)) hcap.le
  have hm := mul_nonneg hκ (sub_nonneg.2 hc)
  simp only [clipLoCon]
  generalize socDot n q x i = sx at *
  generalize socDot n q y i = sy at *
  generalize socDot n q (mix θ x y) i = sm at *
  have key : (mix θ x y i - clip * lb i * (sm / q.capacity))
      - (θ * (x i - clip * lb i * (sx / q.capacity)) + (1 - θ) * (y i - clip * lb i * (sy / q.capacity)))
      = -(clip * lb i) / q.capacity * (sm - (θ * sx + (1 - θ) * sy)) := by
    simp only [mix]; ring
  linarith

/-- the part of `SDevice.constraints` that defines a convex set for a lossy storage: cumulative bounds,
`soc ≥ 0` per slot, the discharge clip, the reserve. (Missing: `capacity − soc ≥ 0` and the charge clip.) -/
theorem sdevice_convex_part (n : ℕ) (cbs : List (CBound ℝ)) (q : SParams ℝ) (lb : ℕ → ℝ) (clipLo : Option ℝ)
    (he0 : 0 < q.efficiency) (he1 : q.efficiency ≤ 1) (hs : 0 ≤ q.sustainment)
    (hclip : ∀ cl, clipLo = some cl → 0 ≤ cl ∧ 0 < q.capacity ∧ ∀ i < n, lb i ≤ 0) :
    ∀ c ∈ deviceCons n cbs ++ (List.range n).map (socLoCon n q)
        ++ (match clipLo with | some cl => (List.range n).map (clipLoCon n q lb cl) | none => [])
        ++ [reserveCon n q], c.ConvexSat := by
  intro c hc
  simp only [List.mem_append, List.mem_map, List.mem_singleton, List.mem_range] at hc
  rcases hc with ((hc | ⟨i, _, rfl⟩) | hc) | rfl
  · exact (deviceCons_affine n cbs c hc).convexSat
  · exact (socLoCon_concave n q he0 he1 hs i).convexSat
  · cases clipLo with
    | none => simp at hc
    | some cl =>
      simp only [List.mem_map, List.mem_range] at hc
      obtain ⟨i, hi, rfl⟩ := hc
      obtain ⟨h1, h2, h3⟩ := hclip cl rfl
      exact (clipLoCon_concave n q lb cl i he0 he1 hs h1 (h3 i hi) h2).convexSat
  · exact (reserveCon_concave n q he0 he1 hs).convexSat

/-- every closure of `sdevice_convex_part` is one of `SDevice.constraints` (nothing invented). -/
theorem sdevice_convex_part_sub (n : ℕ) (cbs : List (CBound ℝ)) (q : SParams ℝ) (lb hb : ℕ → ℝ)
    (clipLo clipHi : Option ℝ) :
    ∀ c ∈ deviceCons n cbs ++ (List.range n).map (socLoCon n q)
        ++ (match clipLo with | some cl => (List.range n).map (clipLoCon n q lb cl) | none => [])
        ++ [reserveCon n q], c ∈ sdeviceCons n cbs q lb hb clipLo clipHi := by
  intro c hc
  simp only [List.mem_append, List.mem_map, List.mem_singleton, List.mem_range] at hc
  simp only [sdeviceCons, List.mem_append, List.mem_flatMap, List.mem_singleton, List.mem_range]
  rcases hc with ((hc | ⟨i, hi, rfl⟩) | hc) | rfl
  · exact Or.inl (Or.inl (Or.inl (Or.inl hc)))
  · exact Or.inl (Or.inl (Or.inl (Or.inr ⟨i, hi, by rw [socCons_eq]; simp⟩)))
  · refine Or.inl (Or.inl (Or.inr ?_))
    cases clipLo with
    | none => exact hc
    | some cl => exact hc
  · exact Or.inr rfl

/-- a lossy storage: capacity 4, half full, efficiency 1/2, no leakage. -/
noncomputable def exLossy : SParams ℝ :=
  { c1 := 1, c2 := 0, c3 := 0, capacity := 4, damageDepth := 0, start := 1/2, reserve := 0,
    efficiency := 1/2, sustainment := 1 }

noncomputable def exA : ℕ → ℝ := fun j => if j = 0 then 4 else 0
noncomputable def exB : ℕ → ℝ := fun j => if j = 0 then -1 else 8

/-- FALSE as a general claim: "`capacity − soc_i ≥ 0` defines a convex set".  Witness: horizon 2, slot 1,
flows `(4, 0)` (soc `4, 4`) and `(−1, 8)` (soc `0, 4`) are fine, their midpoint `(1.5, 4)` has soc_1 `= 4.75 > 4`. -/
theorem socHi_not_convexSat : ¬ (socHiCon 2 exLossy 1).ConvexSat := by
  intro h
  have h' := h exA exB (1/2) (by norm_num) (by norm_num)
    (by simp only [Con.Sat, socHiCon, socDot, exLossy, exA, sumTo, effPow, susW, npow_eq_pow]; norm_num)
    (by simp only [Con.Sat, socHiCon, socDot, exLossy, exB, sumTo, effPow, susW, npow_eq_pow]; norm_num)
  simp only [Con.Sat, socHiCon, socDot, exLossy, exA, exB, mix, sumTo, effPow, susW, npow_eq_pow] at h'
  norm_num at h'

/-- likewise the charge-rate clip `clip·hb_i·(1 − soc_i/capacity) − r_i ≥ 0` (clip 1/2, hb 8, slot 1):
`(4, 0)` and `(−1, 2)` satisfy it, the midpoint `(1.5, 1)` does not. -/
theorem clipHi_not_convexSat : ¬ (clipHiCon 2 exLossy (fun _ => 8) (1/2) 1).ConvexSat := by
  intro h
  have h' := h exA (fun j => if j = 0 then -1 else 2) (1/2) (by norm_num) (by norm_num)
    (by simp only [Con.Sat, clipHiCon, socDot, exLossy, exA, sumTo, effPow, susW, npow_eq_pow]; norm_num)
    (by simp only [Con.Sat, clipHiCon, socDot, exLossy, sumTo, effPow, susW, npow_eq_pow]; norm_num)
  simp only [Con.Sat, clipHiCon, socDot, exLossy, exA, mix, sumTo, effPow, susW, npow_eq_pow] at h'
  norm_num at h'

theorem exLossy_mem (c : Con ℝ) (hc : c ∈ sdeviceCons 2 [] exLossy (fun _ => -1) (fun _ => 8) none none) :
    c = socLoCon 2 exLossy 0 ∨ c = socHiCon 2 exLossy 0 ∨ c = socLoCon 2 exLossy 1 ∨ c = socHiCon 2 exLossy 1 ∨
      c = reserveCon 2 exLossy := by
  simp only [sdeviceCons, deviceCons, List.flatMap_nil, List.nil_append, List.append_nil, List.mem_append,
    List.mem_flatMap, List.mem_range, List.mem_singleton] at hc
  rcases hc with ⟨i, hi, hc⟩ | rfl
  · rw [socCons_eq] at hc
    simp only [List.mem_cons, List.not_mem_nil, or_false] at hc
    rcases (by omega : i = 0 ∨ i = 1) with rfl | rfl <;> rcases hc with rfl | rfl <;> simp
  · simp

/-- FALSE as a general claim: "the storage feasible set (box ∩ `SDevice.constraints`) is convex".
Witness (efficiency 1/2): `(4, 0)` and `(−1, 8)` are feasible, their midpoint is not. -/
theorem sdevice_feasible_not_convex :
    ∃ x y : ℕ → ℝ, InBox 2 (fun _ => -1) (fun _ => 8) x ∧ InBox 2 (fun _ => -1) (fun _ => 8) y ∧
      (∀ c ∈ sdeviceCons 2 [] exLossy (fun _ => -1) (fun _ => 8) none none, c.Sat x) ∧
      (∀ c ∈ sdeviceCons 2 [] exLossy (fun _ => -1) (fun _ => 8) none none, c.Sat y) ∧
      ¬ (∀ c ∈ sdeviceCons 2 [] exLossy (fun _ => -1) (fun _ => 8) none none, c.Sat (mix (1/2) x y)) := by
  refine ⟨exA, exB, ?_, ?_, ?_, ?_, ?_⟩
  · intro k hk
    rcases (by omega : k = 0 ∨ k = 1) with rfl | rfl <;> norm_num [exA]
  · intro k hk
    rcases (by omega : k = 0 ∨ k = 1) with rfl | rfl <;> norm_num [exB]
  · intro c hc
    rcases exLossy_mem c hc with rfl | rfl | rfl | rfl | rfl <;>
      (simp only [Con.Sat, socLoCon, socHiCon, reserveCon, socDot, exLossy, exA, sumTo, effPow, susW, npow_eq_pow]
       norm_num)
  · intro c hc
    rcases exLossy_mem c hc with rfl | rfl | rfl | rfl | rfl <;>
      (simp only [Con.Sat, socLoCon, socHiCon, reserveCon, socDot, exLossy, exB, sumTo, effPow, susW, npow_eq_pow]
       norm_num)
  · intro h
    have h' := h (socHiCon 2 exLossy 1) (by
      simp only [sdeviceCons, List.mem_append, List.mem_flatMap, List.mem_range]
      exact Or.inl (Or.inl (Or.inl (Or.inr ⟨1, by omega, by rw [socCons_eq]; simp⟩))))
    simp only [Con.Sat, socHiCon, socDot, exLossy, exA, exB, mix, sumTo, effPow, susW, npow_eq_pow] at h'
    norm_num at h'

/-! ## 6. a local optimum is global; sub-level sets are convex -/

/-- `F` is closed under convex combinations. -/
def ClosedMix (F : Mat ℝ → Prop) : Prop :=
  ∀ S T θ, 0 ≤ θ → θ ≤ 1 → F S → F T → F (mmix θ S T)

/-- chord inequality of `f` between points of `F`. -/
def ChordOn (F : Mat ℝ → Prop) (f : Mat ℝ → ℝ) : Prop :=
  ∀ S T, F S → F T → ∀ θ : ℝ, 0 ≤ θ → θ ≤ 1 → f (mmix θ S T) ≤ θ * f S + (1 - θ) * f T

/-- `T` coincides with `S` outside the `R × n` window of decision variables. -/
def AgreeOutside (R n : ℕ) (S T : Mat ℝ) : Prop := ∀ r i, ¬ (r < R ∧ i < n) → T r i = S r i

/-- **sub-level sets**: `{S ∈ F | f S ≤ c}` is closed under `mmix`. -/
theorem sublevel_convex (F : Mat ℝ → Prop) (f : Mat ℝ → ℝ) (hF : ClosedMix F) (hf : ChordOn F f) (c : ℝ) :
    ClosedMix (fun S => F S ∧ f S ≤ c) := by
  intro S T θ h0 h1 hS hT
  refine ⟨hF S T θ h0 h1 hS.1 hT.1, ?_⟩
  have h1' : 0 ≤ 1 - θ := by linarith
  have := hf S T hS.1 hT.1 θ h0 h1
  have := mul_le_mul_of_nonneg_left hS.2 h0
  have := mul_le_mul_of_nonneg_left hT.2 h1'
  linarith

/-- **a local optimum is global.**  The decision variables are the entries of the `R × n` window; entries
outside it are not variables (competitors agree with `S` there).  If `S ∈ F` is no worse than every
`T ∈ F` within sup-distance `ε` of it, it is no worse than every `T ∈ F`.
(Move from `S` a step `ε / (M + ε)` towards `T`, `M` a bound for `|T − S|` on the window.) -/
theorem local_is_global (R n : ℕ) (F : Mat ℝ → Prop) (f : Mat ℝ → ℝ) (hF : ClosedMix F) (hf : ChordOn F f)
    (S : Mat ℝ) (hS : F S)
    (hloc : ∃ ε > 0, ∀ T, F T → AgreeOutside R n S T → (∀ r < R, ∀ i < n, |T r i - S r i| ≤ ε) → f S ≤ f T) :
    ∀ T, F T → AgreeOutside R n S T → f S ≤ f T := by
  obtain ⟨ε, hε, hloc⟩ := hloc
  intro T hT hout
  set M : ℝ := sumTo R (fun r => sumTo n (fun i => |T r i - S r i|)) with hM
  have hrow : ∀ r, 0 ≤ sumTo n (fun i => |T r i - S r i|) := fun r => sumTo_nonneg (fun i _ => abs_nonneg _)
  have hM0 : 0 ≤ M := sumTo_nonneg (fun r _ => hrow r)
  have hbound : ∀ r < R, ∀ i < n, |T r i - S r i| ≤ M := by
    intro r hr i hi
    have a := le_sumTo_of_nonneg (f := fun i => |T r i - S r i|) (fun i _ => abs_nonneg _) hi
    have b := le_sumTo_of_nonneg (f := fun r => sumTo n (fun i => |T r i - S r i|)) (fun r _ => hrow r) hr
    exact le_trans a b
  have hden : 0 < M + ε := by linarith
  set τ : ℝ := ε / (M + ε) with hτ
  have hτ0 : 0 < τ := div_pos hε hden
  have hτ1 : τ ≤ 1 := by rw [hτ, div_le_one hden]; linarith
  have hτM : τ * M ≤ ε := by
    have : τ * M = ε * (M / (M + ε)) := by rw [hτ]; ring
    rw [this]
    have : M / (M + ε) ≤ 1 := by rw [div_le_one hden]; linarith
    nlinarith
  have hU : F (mmix τ T S) := hF T S τ hτ0.le hτ1 hT hS
  have hUout : AgreeOutside R n S (mmix τ T S) := by
    intro r i hri
    simp only [mmix, hout r i hri]; ring
  have hUnear : ∀ r < R, ∀ i < n, |mmix τ T S r i - S r i| ≤ ε := by
    intro r hr i hi
    have e : mmix τ T S r i - S r i = τ * (T r i - S r i) := by simp only [mmix]; ring
    rw [e, abs_mul, abs_of_pos hτ0]
    exact le_trans (mul_le_mul_of_nonneg_left (hbound r hr i hi) hτ0.le) hτM
  have h1 := hloc _ hU hUout hUnear
  have h2 := hf T S hT hS τ hτ0.le hτ1
  have h3 : τ * f S ≤ τ * f T := by linarith
  exact le_of_mul_le_mul_left h3 hτ0

/-- the same with the honest sup-norm neighbourhood over *all* entries, for `F`, `f` that ignore the entries
outside the window. -/
theorem local_is_global_of_local (R n : ℕ) (F : Mat ℝ → Prop) (f : Mat ℝ → ℝ) (hF : ClosedMix F)
    (hf : ChordOn F f)
    (hFl : ∀ T T' : Mat ℝ, (∀ r < R, ∀ i < n, T r i = T' r i) → (F T ↔ F T'))
    (hfl : ∀ T T' : Mat ℝ, (∀ r < R, ∀ i < n, T r i = T' r i) → f T = f T')
    (S : Mat ℝ) (hS : F S)
    (hloc : ∃ ε > 0, ∀ T, F T → (∀ r i, |T r i - S r i| ≤ ε) → f S ≤ f T) :
    ∀ T, F T → f S ≤ f T := by
  obtain ⟨ε, hε, hloc⟩ := hloc
  have key := local_is_global R n F f hF hf S hS ⟨ε, hε, fun T hT hout hnear => hloc T hT (fun r i => by
    by_cases hri : r < R ∧ i < n
    · exact hnear r hri.1 i hri.2
    · rw [hout r i hri]; simpa using hε.le)⟩
  intro T hT
  have hagree : ∀ r < R, ∀ i < n, T r i = (fun r i => if r < R ∧ i < n then T r i else S r i) r i := by
    intro r hr i hi
    simp only [hr, hi, and_self, if_true]
  have := key (fun r i => if r < R ∧ i < n then T r i else S r i) ((hFl _ _ hagree).1 hT)
    (fun r i hri => by simp only [if_neg hri])
  rw [hfl T _ hagree]
  exact this

/-! ### the tree statements -/

/-- under convex block costs (on the blocks' feasible sets) and convex block constraint sets:
the feasible set of the tree is closed under `mmix` and the tree cost satisfies the chord inequality on it. -/
theorem tree_closedMix (t : Tree ℝ) (n : ℕ)
    (hcons : ∀ x : BlockAt, x ∈ t.blocks "" 0 → ∀ c ∈ x.b.cons, c.ConvexSat) : ClosedMix (Feasible t n) :=
  fun S T θ h0 h1 hS hT => feasible_convex_of_blocks t n hcons S T hS hT θ h0 h1

theorem tree_chordOn (t : Tree ℝ) (n : ℕ) (P : Mat ℝ)
    (hcost : ∀ x : BlockAt, x ∈ t.blocks "" 0 → x.b.ConvexOnFeas n) :
    ChordOn (Feasible t n) (fun S => t.cost S P) :=
  fun S T hS hT θ h0 h1 => tree_cost_convex_feasible t n hcost P S T hS hT θ h0 h1

/-- **C07, consequence 1**: feasible set ∩ sub-level set of the tree cost is convex. -/
theorem tree_sublevel_convex (t : Tree ℝ) (n : ℕ) (P : Mat ℝ)
    (hcost : ∀ x : BlockAt, x ∈ t.blocks "" 0 → x.b.ConvexOnFeas n)
    (hcons : ∀ x : BlockAt, x ∈ t.blocks "" 0 → ∀ c ∈ x.b.cons, c.ConvexSat) (c : ℝ) :
    ClosedMix (fun S => Feasible t n S ∧ t.cost S P ≤ c) :=
  sublevel_convex _ _ (tree_closedMix t n hcons) (tree_chordOn t n P hcost) c

/-- **C07, consequence 2**: a feasible flow matrix that is locally optimal is globally optimal. -/
theorem tree_local_is_global (t : Tree ℝ) (n : ℕ) (P : Mat ℝ)
    (hcost : ∀ x : BlockAt, x ∈ t.blocks "" 0 → x.b.ConvexOnFeas n)
    (hcons : ∀ x : BlockAt, x ∈ t.blocks "" 0 → ∀ c ∈ x.b.cons, c.ConvexSat)
    (S : Mat ℝ) (hS : Feasible t n S)
    (hloc : ∃ ε > 0, ∀ T, Feasible t n T → AgreeOutside t.rows n S T →
      (∀ r < t.rows, ∀ i < n, |T r i - S r i| ≤ ε) → t.cost S P ≤ t.cost T P) :
    ∀ T, Feasible t n T → AgreeOutside t.rows n S T → t.cost S P ≤ t.cost T P :=
  local_is_global t.rows n (Feasible t n) (fun S => t.cost S P) (tree_closedMix t n hcons)
    (tree_chordOn t n P hcost) S hS hloc

/-! ### constraint lists of the shipped leaves -/

/-- when the whole constraint list of a leaf is affine: always, except a lossy storage (and user
constraints of an `ADevice` must be affine themselves). -/
def _root_.DK.Leaf.AffineCons (d : Leaf ℝ) (extra : List (Con ℝ)) : Prop :=
  match d.kind with
  | .sdevice q => q.efficiency = 1
  | .adevice _ => ∀ c ∈ extra, c.Affine
  | _ => True

theorem leaf_cons_affine (d : Leaf ℝ) (clipLo clipHi : Option ℝ) (extra : List (Con ℝ)) (h : d.AffineCons extra) :
    ∀ c ∈ d.cons clipLo clipHi extra, c.Affine := by
  obtain ⟨n, lb, hb, cbs, kind⟩ := d
  cases kind with
  | sdevice q => exact sdeviceCons_affine n cbs q lb hb clipLo clipHi h
  | adevice f =>
    intro c hc
    rcases List.mem_append.1 hc with hc | hc
    · exact deviceCons_affine n cbs c hc
    · exact h c hc
  | _ => exact deviceCons_affine n cbs

/-! ## non-vacuity: an `IDevice2` leaf (with a cumulative bound) and a 2-conduit adaptor over a `Device`,
under a set with aggregate bounds -/

noncomputable def exI2 : Leaf ℝ :=
  { n := 2, lb := fun _ => 0, hb := fun _ => 3, cbs := [⟨0, 4, 0, 2⟩], kind := .idevice2 (fun _ => 1) (fun _ => 2) }
noncomputable def exDev : Leaf ℝ := { n := 2, lb := fun _ => 0, hb := fun _ => 2, cbs := [], kind := .device }
noncomputable def exOwn : NodeSpec ℝ :=
  { sbounds := some (fun _ => (0, 4)), labels := [], balEq := true, sign := 1, applyToRemaining := false }
noncomputable def exLeafB : Block ℝ := Block.ofLeaf "i" exI2 (exI2.cons none none [])
noncomputable def exMFB : Block ℝ := Block.ofMF "m" exDev (exDev.cons none none []) ["a", "b"] none
noncomputable def exTree : Tree ℝ := .node "h" exOwn [.block exLeafB, .block exMFB]

theorem exTree_blocks : exTree.blocks "" 0 = [("" ++ "h" ++ ".", 0, exLeafB), ("" ++ "h" ++ ".", 1, exMFB)] := by
  simp [exTree, Tree.blocks, blocksL, Tree.rows, exLeafB, Block.ofLeaf]

theorem exTree_mem (x : BlockAt) (hx : x ∈ exTree.blocks "" 0) :
    x = ("" ++ "h" ++ ".", 0, exLeafB) ∨ x = ("" ++ "h" ++ ".", 1, exMFB) := by
  rw [exTree_blocks] at hx
  simpa using hx

theorem exI2_acc : exI2.ConvexAcc := by
  refine ⟨?_, ?_⟩ <;> intro k _ <;> norm_num [exI2]

theorem exDev_acc : exDev.ConvexAcc := trivial

/-- hypotheses of `tree_cost_convex` on the example tree. -/
theorem exTree_convex : ∀ x : BlockAt, x ∈ exTree.blocks "" 0 → x.b.Convex 2 := by
  intro x hx
  rcases exTree_mem x hx with rfl | rfl
  · exact ofLeaf_convex "i" exI2 (exI2.cons none none []) 2 (le_refl 2) exI2_acc
  · exact ofMF_convex_global "m" exDev (exDev.cons none none []) ["a", "b"] none 2 (le_refl 2) exDev_acc trivial

example (P : Mat ℝ) : MConvexOn exTree.rows 2 exTree.bounds (fun S => exTree.cost S P) :=
  tree_cost_convex exTree 2 exTree_convex P

example : ∀ x : BlockAt, x ∈ exTree.blocks "" 0 → x.b.Local := by
  intro x hx
  rcases exTree_mem x hx with rfl | rfl
  · exact ofLeaf_local "i" exI2 (exI2.cons none none [])
  · exact ofMF_local "m" exDev (exDev.cons none none []) ["a", "b"] none

/-- hypotheses of `feasible_convex*` on the example tree: every block constraint is affine. -/
theorem exTree_cons_affine : ∀ x : BlockAt, x ∈ exTree.blocks "" 0 → ∀ c ∈ x.b.cons, c.Affine := by
  intro x hx
  rcases exTree_mem x hx with rfl | rfl
  · exact ofLeaf_cons_affine "i" exI2 (exI2.cons none none []) (leaf_cons_affine exI2 none none [] trivial)
  · exact ofMF_cons_affine "m" exDev (exDev.cons none none []) ["a", "b"] none (leaf_cons_affine exDev none none [] trivial)

theorem exTree_cons_convexSat : ∀ x : BlockAt, x ∈ exTree.blocks "" 0 → ∀ c ∈ x.b.cons, c.ConvexSat :=
  fun x hx c hc => (exTree_cons_affine x hx c hc).convexSat

example : ∀ c ∈ exTree.cons 2, c.Affine := tree_cons_affine exTree 2 exTree_cons_affine

theorem exDev_anyNeg : anyNeg exDev.n exDev.lb = false := (anyNeg_false_iff _ _).2 (fun _ _ => le_refl (0:ℝ))

/-- the zero matrix is feasible for the example tree … -/
theorem exTree_feasible_zero : Feasible exTree 2 (fun _ _ => 0) := by
  constructor
  · apply mInBox_of_blocks exTree "" 2
    intro x hx
    rcases exTree_mem x hx with rfl | rfl
    · intro r _ i _
      show (0:ℝ) ≤ 0 ∧ (0:ℝ) ≤ 3
      norm_num
    · intro r _ i _
      simp only [exMFB, mf_bounds_eq, mfLo, mfHi, exDev_anyNeg, shiftRows]
      norm_num [exDev]
  · refine (cons_sat_iff exTree 2 _).2 ⟨?_, ?_⟩
    · intro x hx
      rcases exTree_mem x hx with rfl | rfl
      · refine (C04.leaf_cons_sat_iff "i" exI2 (exI2.cons none none []) _).2 ?_
        intro c hc
        simp only [exI2, Leaf.cons, deviceCons, List.flatMap_cons, List.flatMap_nil, cboundCons, List.append_nil,
          List.mem_cons, List.not_mem_nil, or_false] at hc
        rcases hc with rfl | rfl <;> norm_num [Con.Sat, sliceSum, sumRange, sumTo, shiftRows]
      · refine (C04.mf_cons_sat_iff "m" exDev (exDev.cons none none []) ["a", "b"] none _).2 ⟨?_, ?_, ?_⟩
        · intro i _
          norm_num [colSum, sumTo, shiftRows, exDev]
        · intro c hc
          simp [exDev, Leaf.cons, deviceCons] at hc
        · intro e r0 r1 h
          simp at h
    · intro nd hnd
      simp only [exTree, Tree.nodes, nodesL, List.append_nil, List.mem_singleton] at hnd
      subst hnd
      refine (C04.ownCons_sat_iff _ _ _ _ _).2 ⟨?_, ?_, ?_⟩
      · intro sb hsb
        simp only [exOwn, Option.some.injEq] at hsb
        subst hsb
        intro i _
        norm_num [colSum, shiftRows, sumTo_const]
      · intro l hl
        simp [exOwn] at hl
      · intro h
        simp [exOwn] at h

/-- … and, at zero price, globally optimal: the `IDevice2` curve `3·(t²/2 + t) + 3/2`, `t = x/3`, is
smallest at `x = 0` on the box and the `Device` costs nothing.  So all hypotheses of
`tree_local_is_global` (convex block costs, convex block constraint sets, a feasible locally optimal
matrix) hold together on the example tree. -/
theorem exTree_zero_opt (T : Mat ℝ) (hT : Feasible exTree 2 T) :
    exTree.cost (fun _ _ => 0) (fun _ _ => 0) ≤ exTree.cost T (fun _ _ => 0) := by
  have hmem : (("" ++ "h" ++ ".", 0, exLeafB) : BlockAt) ∈ exTree.blocks "" 0 := by rw [exTree_blocks]; simp
  have hb := (feasible_block exTree 2 T hT _ hmem).1
  have h0 : (0:ℝ) ≤ T 0 0 := (hb 0 Nat.zero_lt_one 0 (by norm_num)).1
  have h1 : (0:ℝ) ≤ T 0 1 := (hb 0 Nat.zero_lt_one 1 (by norm_num)).1
  simp only [exTree, Tree.cost, costL, exLeafB, exMFB, Block.ofLeaf, Block.ofMF, Leaf.cost, exI2, exDev, idev2Cost,
    deviceCost, priceTerm, sumTo, hlqCost, mul_zero, add_zero, shiftRows, sumTo_zero_fn]
  norm_num
  nlinarith [mul_nonneg h0 h0, mul_nonneg h1 h1]

example : ∀ T, Feasible exTree 2 T → AgreeOutside exTree.rows 2 (fun _ _ => 0) T →
    exTree.cost (fun _ _ => 0) (fun _ _ => 0) ≤ exTree.cost T (fun _ _ => 0) :=
  tree_local_is_global exTree 2 (fun _ _ => 0) (fun x hx => (exTree_convex x hx).onFeas) exTree_cons_convexSat
    (fun _ _ => 0) exTree_feasible_zero ⟨1, one_pos, fun T hT _ _ => exTree_zero_opt T hT⟩

example (c : ℝ) : ClosedMix (fun S => Feasible exTree 2 S ∧ exTree.cost S (fun _ _ => 0) ≤ c) :=
  tree_sublevel_convex exTree 2 _ (fun x hx => (exTree_convex x hx).onFeas) exTree_cons_convexSat c

example (S T : Mat ℝ) (hS : Feasible exTree 2 S) (hT : Feasible exTree 2 T) : Feasible exTree 2 (mmix (1/3) S T) :=
  feasible_convex_of_blocks exTree 2 exTree_cons_convexSat S T hS hT (1/3) (by norm_num) (by norm_num)


/-! ### further non-vacuity: one instance of `Leaf.ConvexAcc` per class that has hypotheses -/

example : ({ n := 4, lb := fun _ => 0, hb := fun _ => 3, cbs := [⟨0, 5, 0, 2⟩, ⟨1, 6, 2, 4⟩], kind := .cdevice2 1 2 } : Leaf ℝ).ConvexAcc := by
  refine ⟨by norm_num, ?_⟩
  intro c hc
  simp only [List.mem_cons, List.not_mem_nil, or_false] at hc
  rcases hc with rfl | rfl <;> norm_num

example : ConvexOnBox exCubic.n exCubic.lb exCubic.hb (fun x => exCubic.cost x (fun _ => 5)) :=
  leaf_cost_convex exCubic exCubic_acc _

example : ({ n := 2, lb := fun _ => -3, hb := fun _ => 0, cbs := [], kind := .gdevice (fun _ => [1, 0, 0]) } : Leaf ℝ).ConvexAcc := by
  intro k _ u v _ _ _ _ θ h0 h1
  simp only [polyEval, List.foldl]
  nlinarith [mul_nonneg (mul_nonneg h0 (sub_nonneg.mpr h1)) (mul_self_nonneg (u - v))]

example : ({ n := 3, lb := fun _ => -1, hb := fun _ => 1, cbs := [],
             kind := .sdevice ⟨2, 1, 4, 10, 1/5, 1/2, 0, 9/10, 99/100⟩ } : Leaf ℝ).ConvexAcc := by
  refine ⟨?_, ?_, ?_, ?_, ?_, ?_⟩ <;> norm_num

example : ({ n := 3, lb := fun _ => 0, hb := fun _ => 3, cbs := [],
             kind := .tdevice ⟨9/10, -2, 20, 21, 3, fun _ => 30, fun _ => 1⟩ } : Leaf ℝ).ConvexAcc := by
  refine ⟨?_, ?_⟩
  · intro k _; norm_num
  · norm_num

/-- `ADevice` with the (convex) user function `HLQuadraticCost`-per-slot. -/
example : ({ n := 2, lb := fun _ => 0, hb := fun _ => 3, cbs := [],
             kind := .adevice (.hlq (fun _ => 1) (fun _ => 2) (fun _ => 0) (fun _ => 3)) } : Leaf ℝ).ConvexAcc :=
  convexOnBox_slots 2 _ _ (φ := fun _ t => hlqCost 1 2 0 3 t)
    (fun _ _ => (chordR_hlqCost 1 2 0 3 (by norm_num) (by norm_num)).chordIcc _ _)

/-- the adaptor over the cubic `IDevice` — not convex on its conduit box (`ofMF_not_convex_on_box`) — is
convex on its feasible set, which is all `tree_cost_convex_feasible` asks for. -/
example : (Block.ofMF "m" exCubic [] ["a", "b"] none).ConvexOnFeas 1 :=
  ofMF_convex_feasible "m" exCubic [] ["a", "b"] none 1 exCubic_acc

/-- box form of the adaptor with its hypothesis spelled out (wrapped `Device`: linear, convex on `[0, 2·hb]`). -/
example : (Block.ofMF "m" exDev [] ["a", "b"] none).Convex 2 :=
  ofMF_convex "m" exDev [] ["a", "b"] none 2 (le_refl 2) (C07.device_convex 2 _ _ _)

/-- storage at efficiency 1 with both clips: all constraints affine. -/
example : ∀ c ∈ sdeviceCons 3 [⟨0, 1, 0, 3⟩] ⟨2, 1, 4, 10, 1/5, 1/2, 0, 1, 99/100⟩ (fun _ => -1) (fun _ => 1)
    (some (1/2)) (some (1/2)), c.Affine :=
  sdeviceCons_affine 3 _ _ _ _ _ _ rfl

/-- lossy storage: the convex part of its constraints, discharge clip on; as a one-row block of a tree. -/
example : ∀ c ∈ (Block.ofLeaf "s" ({ n := 2, lb := fun _ => -1, hb := fun _ => 8, cbs := [], kind := .sdevice exLossy } : Leaf ℝ)
    (deviceCons 2 [] ++ (List.range 2).map (socLoCon 2 exLossy)
      ++ (List.range 2).map (clipLoCon 2 exLossy (fun _ => -1) (1/2)) ++ [reserveCon 2 exLossy])).cons, c.ConvexSat :=
  ofLeaf_cons_convexSat _ _ _ (sdevice_convex_part 2 [] exLossy (fun _ => -1) (some (1/2))
    (by norm_num [exLossy]) (by norm_num [exLossy]) (by norm_num [exLossy])
    (by
      intro cl h
      simp only [Option.some.injEq] at h
      subst h
      exact ⟨by norm_num, by norm_num [exLossy], fun _ _ => by norm_num⟩))

/-- `local_is_global`, `local_is_global_of_local`: one variable in `[0, 1]`, `f = ` that variable, `S = 0`. -/
example : ∀ T : Mat ℝ, (0 ≤ T 0 0 ∧ T 0 0 ≤ 1) → (fun S : Mat ℝ => S 0 0) (fun _ _ => 0) ≤ (fun S : Mat ℝ => S 0 0) T :=
  local_is_global_of_local 1 1 (fun T => 0 ≤ T 0 0 ∧ T 0 0 ≤ 1) (fun S => S 0 0)
    (fun S T θ h0 h1 hS hT => by
      have := mInBox_mmix (R := 1) (n := 1) (bd := fun _ _ => (0, 1)) (S := S) (T := T)
        (fun r hr i hi => by
          have hr0 : r = 0 := by omega
          have hi0 : i = 0 := by omega
          subst hr0 hi0
          exact hS)
        (fun r hr i hi => by
          have hr0 : r = 0 := by omega
          have hi0 : i = 0 := by omega
          subst hr0 hi0
          exact hT) h0 h1
      exact this 0 Nat.zero_lt_one 0 Nat.zero_lt_one)
    (fun S T _ _ θ _ _ => le_of_eq (mAffine_entry 0 0 θ S T))
    (fun T T' h => by rw [h 0 Nat.zero_lt_one 0 Nat.zero_lt_one])
    (fun T T' h => h 0 Nat.zero_lt_one 0 Nat.zero_lt_one)
    (fun _ _ => 0) ⟨le_refl 0, zero_le_one⟩ ⟨1, one_pos, fun T hT _ => hT.1⟩

example : ∀ S S' P P' : Mat ℝ, (∀ r < exTree.rows, S r = S' r) → (∀ r < exTree.rows, P r = P' r) →
    exTree.cost S P = exTree.cost S' P' :=
  tree_cost_local exTree (by
    intro x hx
    rcases exTree_mem x hx with rfl | rfl
    · exact ofLeaf_local "i" exI2 (exI2.cons none none [])
    · exact ofMF_local "m" exDev (exDev.cons none none []) ["a", "b"] none)

end DK.C07tree

#print axioms DK.C07tree.ofLeaf_local
#print axioms DK.C07tree.ofMF_local
#print axioms DK.C07tree.tree_cost_local
#print axioms DK.C07tree.tree_cost_convex
#print axioms DK.C07tree.tree_cost_convex_feasible
#print axioms DK.C07tree.leaf_cost_convex
#print axioms DK.C07tree.leaf_cost_convex_univ
#print axioms DK.C07tree.ofLeaf_convex
#print axioms DK.C07tree.ofMF_convex
#print axioms DK.C07tree.ofMF_convex_global
#print axioms DK.C07tree.ofMF_convex_feasible
#print axioms DK.C07tree.ofMF_not_convex_on_box
#print axioms DK.C07tree.tree_cons_affine
#print axioms DK.C07tree.tree_cons_convexSat
#print axioms DK.C07tree.feasible_convex
#print axioms DK.C07tree.feasible_convex_affine
#print axioms DK.C07tree.feasible_convex_of_blocks
#print axioms DK.C07tree.ofLeaf_cons_affine
#print axioms DK.C07tree.ofMF_cons_affine
#print axioms DK.C07tree.ofLeaf_cons_convexSat
#print axioms DK.C07tree.ofMF_cons_convexSat
#print axioms DK.C07tree.leaf_cons_affine
#print axioms DK.C07tree.sdeviceCons_affine
#print axioms DK.C07tree.socLoCon_concave
#print axioms DK.C07tree.reserveCon_concave
#print axioms DK.C07tree.clipLoCon_concave
#print axioms DK.C07tree.sdevice_convex_part
#print axioms DK.C07tree.sdevice_convex_part_sub
#print axioms DK.C07tree.socHi_not_convexSat
#print axioms DK.C07tree.clipHi_not_convexSat
#print axioms DK.C07tree.sdevice_feasible_not_convex
#print axioms DK.C07tree.sublevel_convex
#print axioms DK.C07tree.local_is_global
#print axioms DK.C07tree.local_is_global_of_local
#print axioms DK.C07tree.tree_sublevel_convex
#print axioms DK.C07tree.tree_local_is_global
#print axioms DK.C07tree.exTree_feasible_zero
#print axioms DK.C07tree.exTree_zero_opt
#print axioms DK.chordIcc_abcCost_ipow
#print axioms DK.idevice_ipow_convex
#print axioms DK.Tree.cons_all
#print axioms DK.sboundCons_affine
#print axioms DK.ownCons_affine
#print axioms DK.socDot_concave
