import DK.Props.C01
import DK.Props.C01b
import DK.Props.C01c
import DK.Props.C02
import DK.Props.C07
import DK.Props.C09
import DK.Props.C14
import DK.Lemmas.Bridge
/-!
# All property modules together (checks that the helper-lemma layers do not clash)
-/
