import DK.Props.C01
import DK.Props.C01all
import DK.Props.C01b
import DK.Props.C01c
import DK.Props.C02
import DK.Props.C03
import DK.Props.C04
import DK.Props.C05
import DK.Props.C06
import DK.Props.C07
import DK.Props.C07tree
import DK.Props.C07mono
import DK.Props.C08
import DK.Props.C09
import DK.Props.C10
import DK.Props.C11
import DK.Props.C11b
import DK.Props.C11c
import DK.Props.C11d
import DK.Props.C12
import DK.Props.C13
import DK.Props.C13find
import DK.Props.C14
import DK.Props.C14b
import DK.Props.C15
import DK.Props.C16
import DK.Props.C17
import DK.Props.C18
import DK.Props.C19
import DK.Props.C20
import DK.Props.TreeGrad
import DK.Props.Link
import DK.Lemmas.Bridge
import DK.Lemmas.BridgeVec
import DK.Lemmas.BridgeSets
/-!
# All property modules together (built by setup_cmd; also checks that the helper-lemma layers do not clash)
-/
