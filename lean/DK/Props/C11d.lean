import DK.Props.C11c
/-!
# C11, parts D and E — invariants over arbitrary setter histories; reported = supplied

Setters are public API and order-dependent (`c1` is checked against the *current* `c2`, keyword arguments
are applied in caller order).  `runAll d ops` applies any list of assignments, **catching** every exception
and carrying on with the state it left; `setAll` stops at the first exception (a constructor, or a caller
that does not catch).  The invariants below are what the code really guarantees after *any* such history;
where that is weaker than what another property needs, it is said.
-/
namespace DK.C11
open DK DK.Validate

/-! ## D. invariants -/

/-- the storage parameters a device holds are always within these ranges. -/
def SInv (d : Dev ℝ) : Prop :=
  0 ≤ d.c1 ∧ 0 ≤ d.c2 ∧ 0 ≤ d.c3 ∧ (d.c2 ≤ d.c1 ∨ d.c1 = 0) ∧ 0 < d.capacity ∧
  (0 ≤ d.damageDepth ∧ d.damageDepth ≤ 1) ∧ (0 ≤ d.start ∧ d.start ≤ 1) ∧ (0 ≤ d.reserve ∧ d.reserve ≤ 1) ∧
  (0 < d.efficiency ∧ d.efficiency ≤ 1) ∧ (0 < d.sustainment ∧ d.sustainment ≤ 1) ∧
  (∀ y, d.rateClip.1 = some y → 1 ≤ y) ∧ (∀ y, d.rateClip.2 = some y → 1 ≤ y)

/-- the curve parameters of `IDevice2` / `CDevice2`: validated, and `p_l ≤ p_h` (so `p_l ≤ p_h ≤ 0`). -/
def HLInv (d : Dev ℝ) : Prop :=
  hlParamOk d.pl d.n = true ∧ hlParamOk d.ph d.n = true ∧ d.pl.allLe d.ph = true

/-- the curve parameters of `IDevice`: `a, c ≥ 0`, `b > 0`, each a scalar or an `n`-vector. -/
def IInv (d : Dev ℝ) : Prop :=
  iParamOk d.ia d.n = true ∧ iBOk d.ib d.n = true ∧ iParamOk d.ic d.n = true

/-- `CDevice.a ≤ 0`. -/
def CInv (d : Dev ℝ) : Prop := d.ca ≤ 0

/-- every parameter invariant at once. -/
def PInv (d : Dev ℝ) : Prop := SInv d ∧ HLInv d ∧ IInv d ∧ CInv d

theorem pinv_default (cls : Cls) (n : ℕ) : PInv (Dev.default cls n : Dev ℝ) := by
  refine ⟨?_, ?_, ?_, ?_⟩
  · simp [SInv, Dev.default, natCast']
    norm_num
  · simp [HLInv, Dev.default, hlParamOk, PVal.lenOk, PVal.all, PVal.allLe]
  · simp [IInv, Dev.default, iParamOk, iBOk, PVal.lenOk, PVal.all]
  · simp [CInv, Dev.default]

/-- what an assignment can never change: the class, the length; and the bounds table / the cumulative bounds
unless it is an assignment to exactly that field. -/
theorem step_frame {d : Dev ℝ} {f : Field} {v : Val ℝ} {r : Dev ℝ × Option Err} (h : Step d f v r) :
    r.1.cls = d.cls ∧ r.1.n = d.n ∧ (f ≠ .bounds → r.1.table = d.table) ∧ (f ≠ .cbounds → r.1.cbounds = d.cbounds) := by
  cases h with
  | bounds bv w t e hf hv hw hg he => exact ⟨rfl, rfl, fun h => absurd hf h, fun _ => rfl⟩
  | cbNone hf hv => exact ⟨rfl, rfl, fun _ => rfl, fun h => absurd hf h⟩
  | cb spec st hf hv hs hr => exact ⟨rfl, rfl, fun _ => rfl, fun h => absurd hf h⟩
  | _ => exact ⟨rfl, rfl, fun _ => rfl, fun _ => rfl⟩

/-- one assignment — accepted or rejected — preserves every parameter invariant. -/
theorem step_pinv {d : Dev ℝ} {f : Field} {v : Val ℝ} {r : Dev ℝ × Option Err} (h : Step d f v r) (hi : PInv d) :
    PInv r.1 := by
  obtain ⟨⟨s1, s2, s3, s4, s5, s6, s7, s8, s9, s10, s11, s12⟩, ⟨l1, l2, l3⟩, ⟨i1, i2, i3⟩, c1⟩ := hi
  cases h with
  | c1 x hf ho hv hok =>
    obtain ⟨h1, h2⟩ := (sC1Ok_iff x d.c2).mp hok
    refine ⟨⟨h1, s2, s3, ?_, s5, s6, s7, s8, s9, s10, s11, s12⟩, ⟨l1, l2, l3⟩, ⟨i1, i2, i3⟩, c1⟩
    rcases h2 with h2 | h2
    · left; exact le_of_lt h2
    · left; show d.c2 ≤ x; linarith
  | c2 x hf ho hv hok =>
    obtain ⟨h1, h2⟩ := (sC2Ok_iff x d.c1).mp hok
    refine ⟨⟨s1, h1, s3, ?_, s5, s6, s7, s8, s9, s10, s11, s12⟩, ⟨l1, l2, l3⟩, ⟨i1, i2, i3⟩, c1⟩
    rcases h2 with h2 | h2
    · left; exact h2
    · right; show d.c1 = 0; linarith
  | c3 x hf ho hv hok =>
    exact ⟨⟨s1, s2, (sC3Ok_iff x).mp hok, s4, s5, s6, s7, s8, s9, s10, s11, s12⟩, ⟨l1, l2, l3⟩, ⟨i1, i2, i3⟩, c1⟩
  | capacity x hf ho hv hok =>
    exact ⟨⟨s1, s2, s3, s4, (sCapacityOk_iff x).mp hok, s6, s7, s8, s9, s10, s11, s12⟩, ⟨l1, l2, l3⟩, ⟨i1, i2, i3⟩, c1⟩
  | damageDepth x hf ho hv hok =>
    exact ⟨⟨s1, s2, s3, s4, s5, (sUnitOk_iff x).mp hok, s7, s8, s9, s10, s11, s12⟩, ⟨l1, l2, l3⟩, ⟨i1, i2, i3⟩, c1⟩
  | start x hf ho hv hok =>
    exact ⟨⟨s1, s2, s3, s4, s5, s6, (sUnitOk_iff x).mp hok, s8, s9, s10, s11, s12⟩, ⟨l1, l2, l3⟩, ⟨i1, i2, i3⟩, c1⟩
  | reserve x hf ho hv hok =>
    exact ⟨⟨s1, s2, s3, s4, s5, s6, s7, (sUnitOk_iff x).mp hok, s9, s10, s11, s12⟩, ⟨l1, l2, l3⟩, ⟨i1, i2, i3⟩, c1⟩
  | efficiency x hf ho hv hok =>
    exact ⟨⟨s1, s2, s3, s4, s5, s6, s7, s8, (sRateOk_iff x).mp hok, s10, s11, s12⟩, ⟨l1, l2, l3⟩, ⟨i1, i2, i3⟩, c1⟩
  | sustainment x hf ho hv hok =>
    exact ⟨⟨s1, s2, s3, s4, s5, s6, s7, s8, s9, (sRateOk_iff x).mp hok, s11, s12⟩, ⟨l1, l2, l3⟩, ⟨i1, i2, i3⟩, c1⟩
  | rcScalar x hf ho hv hok =>
    have := (sClipOk_iff (some x)).mp hok
    exact ⟨⟨s1, s2, s3, s4, s5, s6, s7, s8, s9, s10, this, this⟩, ⟨l1, l2, l3⟩, ⟨i1, i2, i3⟩, c1⟩
  | rcNone hf ho hv =>
    exact ⟨⟨s1, s2, s3, s4, s5, s6, s7, s8, s9, s10, (by intro y hy; cases hy), (by intro y hy; cases hy)⟩,
      ⟨l1, l2, l3⟩, ⟨i1, i2, i3⟩, c1⟩
  | rcPair a b hf ho hv hoa hob =>
    exact ⟨⟨s1, s2, s3, s4, s5, s6, s7, s8, s9, s10, (sClipOk_iff a).mp hoa, (sClipOk_iff b).mp hob⟩,
      ⟨l1, l2, l3⟩, ⟨i1, i2, i3⟩, c1⟩
  | c p hf ho hv hok =>
    exact ⟨⟨s1, s2, s3, s4, s5, s6, s7, s8, s9, s10, s11, s12⟩, ⟨l1, l2, l3⟩, ⟨i1, i2, hok⟩, c1⟩
  | pL p hf ho hv hsc hok =>
    obtain ⟨h1, h2⟩ := (pLOk_iff p d.ph d.n).mp hok
    exact ⟨⟨s1, s2, s3, s4, s5, s6, s7, s8, s9, s10, s11, s12⟩, ⟨h1, l2, h2⟩, ⟨i1, i2, i3⟩, c1⟩
  | pH p hf ho hv hsc hok =>
    obtain ⟨h1, h2⟩ := (pHOk_iff p d.pl d.n).mp hok
    exact ⟨⟨s1, s2, s3, s4, s5, s6, s7, s8, s9, s10, s11, s12⟩, ⟨l1, h1, h2⟩, ⟨i1, i2, i3⟩, c1⟩
  | aC x hf ho hc hv hok =>
    exact ⟨⟨s1, s2, s3, s4, s5, s6, s7, s8, s9, s10, s11, s12⟩, ⟨l1, l2, l3⟩, ⟨i1, i2, i3⟩, (cAOk_iff x).mp hok⟩
  | aI p hf ho hc hv hok =>
    exact ⟨⟨s1, s2, s3, s4, s5, s6, s7, s8, s9, s10, s11, s12⟩, ⟨l1, l2, l3⟩, ⟨hok, i2, i3⟩, c1⟩
  | bI p hf ho hc hv hok =>
    exact ⟨⟨s1, s2, s3, s4, s5, s6, s7, s8, s9, s10, s11, s12⟩, ⟨l1, l2, l3⟩, ⟨i1, hok, i3⟩, c1⟩
  | _ => exact ⟨⟨s1, s2, s3, s4, s5, s6, s7, s8, s9, s10, s11, s12⟩, ⟨l1, l2, l3⟩, ⟨i1, i2, i3⟩, c1⟩

/-- **after any history of assignments, accepted or rejected-and-caught, in any order**, every parameter
invariant holds (and the class and the length are what they were). -/
theorem params_invariant (d : Dev ℝ) (hi : PInv d) (ops : List (Field × Val ℝ)) :
    PInv (runAll d ops) ∧ (runAll d ops).cls = d.cls ∧ (runAll d ops).n = d.n := by
  induction ops generalizing d with
  | nil => exact ⟨hi, rfl, rfl⟩
  | cons p rest ih =>
    obtain ⟨f, v⟩ := p
    have hs := setField_step d f v
    obtain ⟨j1, j2, j3⟩ := ih (setField d f v).1 (step_pinv hs hi)
    obtain ⟨k1, k2, _, _⟩ := step_frame hs
    refine ⟨?_, ?_, ?_⟩ <;> simp only [runAll]
    · exact j1
    · rw [j2, k1]
    · rw [j3, k2]

theorem setAll_eq_runAll {d d' : Dev ℝ} {ops : List (Field × Val ℝ)} (h : setAll d ops = .ok d') : d' = runAll d ops := by
  induction ops generalizing d with
  | nil => simp [setAll] at h; simp [runAll, h]
  | cons p rest ih =>
    obtain ⟨f, v⟩ := p
    simp only [setAll] at h
    cases hs : setField d f v with
    | mk d1 e =>
      cases e with
      | none => simp only [hs] at h; simp only [runAll, hs]; exact ih h
      | some e => simp [hs] at h

/-- what `CDevice2.__init__` does after the base constructor leaves everything but `cbounds` alone. -/
theorem cdevice2Post_spec {d d' : Dev ℝ} (h : cdevice2Post d = .ok d') :
    (∃ st, d' = { d with cbounds := st }) ∧ (∀ c cs, d.cbounds = some (c :: cs) → d' = d) := by
  unfold cdevice2Post at h
  have ranges : ∀ d1 : Dev ℝ, cdevice2Ranges d1 = .ok d' → d' = d1 := by
    intro d1 h2
    unfold cdevice2Ranges at h2
    split at h2
    · split_ifs at h2; cases h2; rfl
    · cases h2; rfl
  cases hfill : cdevice2Fill d with
  | error e => simp [hfill] at h
  | ok d1 =>
    simp only [hfill] at h
    have e1 := ranges d1 h
    subst e1
    unfold cdevice2Fill at hfill
    cases hcb : d.cbounds with
    | none =>
      simp only [hcb] at hfill
      split_ifs at hfill
      refine ⟨?_, fun c cs hc => by cases hc⟩
      have hs := setField_step d .cbounds (.cbounds (.pair (sumTo d.n (lbOf d.table)) (sumTo d.n (hbOf d.table))))
      cases hr : setField d .cbounds (.cbounds (.pair (sumTo d.n (lbOf d.table)) (sumTo d.n (hbOf d.table)))) with
      | mk d2 e =>
        rw [hr] at hs hfill
        cases e with
        | some e => simp at hfill
        | none =>
          simp only [Except.ok.injEq] at hfill
          subst hfill
          cases hs with
          | attr ho => exact absurd (owns_cbounds d) ho
          | cbNone hf hv => exact ⟨_, rfl⟩
          | cb spec st hf hv hs hr => exact ⟨_, rfl⟩
          | bounds bv w t e hf hv hw hg he => cases hf
          | _ => contradiction
    | some l =>
      cases l with
      | nil =>
        simp only [hcb] at hfill
        split_ifs at hfill
        refine ⟨?_, fun c cs hc => by cases hc⟩
        have hs := setField_step d .cbounds (.cbounds (.pair (sumTo d.n (lbOf d.table)) (sumTo d.n (hbOf d.table))))
        cases hr : setField d .cbounds (.cbounds (.pair (sumTo d.n (lbOf d.table)) (sumTo d.n (hbOf d.table)))) with
        | mk d2 e =>
          rw [hr] at hs hfill
          cases e with
          | some e => simp at hfill
          | none =>
            simp only [Except.ok.injEq] at hfill
            subst hfill
            cases hs with
            | attr ho => exact absurd (owns_cbounds d) ho
            | cbNone hf hv => exact ⟨_, rfl⟩
            | cb spec st hf hv hs hr => exact ⟨_, rfl⟩
            | bounds bv w t e hf hv hw hg he => cases hf
            | _ => contradiction
      | cons c cs =>
        simp only [hcb] at hfill
        cases hfill
        exact ⟨⟨d.cbounds, rfl⟩, fun _ _ _ => rfl⟩

theorem pinv_congr_cbounds {d : Dev ℝ} (st : Option (List (CBound4 ℝ))) (h : PInv d) : PInv { d with cbounds := st } := h

/-- every device any constructor returns satisfies every parameter invariant … -/
theorem construct_params_invariant {cls : Cls} {n : ℕ} {bv : PyVal ℝ} {cb : CbSpec ℝ} {kw : List (Field × Val ℝ)}
    {d : Dev ℝ} (h : construct cls n bv cb kw = .ok d) : PInv d := by
  unfold construct at h
  cases hs : setAll (Dev.default cls n) ((.bounds, .bounds bv) :: (.cbounds, .cbounds cb) :: kw) with
  | error e => simp [hs] at h
  | ok d0 =>
    simp only [hs] at h
    have h0 : PInv d0 := by
      rw [setAll_eq_runAll hs]
      exact (params_invariant _ (pinv_default cls n) _).1
    split_ifs at h
    · obtain ⟨⟨st, e⟩, _⟩ := cdevice2Post_spec h
      rw [e]; exact pinv_congr_cbounds st h0
    · cases h; exact h0

/-- … and keeps satisfying them whatever is assigned to it afterwards, accepted or not. -/
theorem history_params_invariant {cls : Cls} {n : ℕ} {bv : PyVal ℝ} {cb : CbSpec ℝ} {kw : List (Field × Val ℝ)}
    {d : Dev ℝ} (h : construct cls n bv cb kw = .ok d) (ops : List (Field × Val ℝ)) : PInv (runAll d ops) :=
  (params_invariant d (construct_params_invariant h) ops).1

example : ∃ d, construct (α := ℝ) .sdevice 1 (.seq .tuple [.num 0, .num 1]) .pyNone [(.c1, .scalar 2), (.c2, .scalar 1)] = .ok d := by
  refine ⟨{ (Dev.default .sdevice 1 : Dev ℝ) with table := [(some 0, some 1)], c1 := 2, c2 := 1 }, ?_⟩
  simp [construct, setAll, setField, owns, validateBoundsW, npShape, commonShape, pairPath, normElem, pyLen, entries,
    scalars, scalar?, finish, zipRows, rowAllNone, rowHasNone, rowOrdered, rowPair, scalarSet, guardSet,
    sC1Ok, sC2Ok, Dev.default]
  try norm_num

/-- slot-wise reading of `HLInv`: after any history, `p_l ≤ p_h ≤ 0` in every slot. -/
theorem hl_pointwise (d : Dev ℝ) (h : HLInv d) : ∀ i < d.n, PVal.at d.pl i ≤ PVal.at d.ph i ∧ PVal.at d.ph i ≤ 0 := by
  obtain ⟨h1, h2, h3⟩ := h
  obtain ⟨a1, a2⟩ := (hlParamOk_iff d.pl d.n).mp h1
  obtain ⟨b1, b2⟩ := (hlParamOk_iff d.ph d.n).mp h2
  intro i hi
  refine ⟨allLe_pointwise d.pl d.ph d.n a1 b1 h3 i hi, ?_⟩
  cases hp : d.ph with
  | scalar y => rw [hp] at b2; simpa [PVal.at, PVal.toList] using b2
  | vec ys =>
    rw [hp] at b1 b2
    simp [PVal.lenOk] at b1
    simp only [PVal.at]
    have hi' : i < ys.length := by omega
    have e : List.getD ys i 0 = ys[i] := by simp [List.getD_eq_getElem?_getD, hi']
    rw [e]
    exact b2 _ (by simpa [PVal.toList] using List.getElem_mem hi')

/-- **what the storage validators do NOT guarantee**: `c1 = 0` with `c2 > 0` is reachable by accepted
assignments (`c1 := 0` passes because `c2 = 0`; then `c2 := 5` passes because `c1 = 0`).  The flip-flop term
`−c2·Σ rᵢrᵢ₊₁` is then the whole quadratic part: indefinite.  Convexity (C07) needs `c2 ≤ c1`; the code
guarantees only `c2 ≤ c1 ∨ c1 = 0`. -/
theorem sdevice_c1_zero_c2_pos_reachable (d : Dev ℝ) (hc : d.cls = .sdevice) (h2 : d.c2 = 0) :
    ∃ d', setAll d [(.c1, .scalar 0), (.c2, .scalar 5)] = .ok d' ∧ d'.c1 = 0 ∧ d'.c2 = 5 := by
  refine ⟨{ d with c1 := 0, c2 := 5 }, ?_, rfl, rfl⟩
  simp [setAll, setField, hc, owns, scalarSet, guardSet, sC1Ok, sC2Ok, h2]

/-- an order-dependence the callers see: the *same* consistent pair `p_l = −3, p_h = −2` is accepted when
`p_l` is assigned first and rejected when `p_h` is assigned first (from the defaults `p_l = −1, p_h = 0`). -/
theorem hl_order_dependent (n : ℕ) :
    (∃ d, setAll (Dev.default .idevice2 n : Dev ℝ) [(.pL, .scalar (-3)), (.pH, .scalar (-2))] = .ok d) ∧
    setAll (Dev.default .idevice2 n : Dev ℝ) [(.pH, .scalar (-2)), (.pL, .scalar (-3))] = .error .valueError := by
  constructor
  · refine ⟨{ (Dev.default .idevice2 n : Dev ℝ) with pl := .scalar (-3), ph := .scalar (-2) }, ?_⟩
    simp [setAll, setField, owns, pvalSet, asPVal, guardSet, scalarIfC2, pLOk, pHOk, hlParamOk, PVal.lenOk, PVal.all, PVal.allLe,
      Dev.default]
    try norm_num
  · simp [setAll, setField, owns, pvalSet, asPVal, guardSet, scalarIfC2, pLOk, pHOk, hlParamOk, PVal.lenOk, PVal.all, PVal.allLe,
      Dev.default]
    try norm_num

/-! ### CDevice2: scalar slopes, cumulative ranges that cover the horizon; GDevice: coefficient tables -/

/-- a `CDevice2` holds scalar `p_l`, `p_h` (its curve applies to the scalar flow sum). -/
def ScalarHL (d : Dev ℝ) : Prop :=
  d.cls = .cdevice2 → scalarIfC2 .cdevice2 d.pl = true ∧ scalarIfC2 .cdevice2 d.ph = true

theorem step_scalarHL {d : Dev ℝ} {f : Field} {v : Val ℝ} {r : Dev ℝ × Option Err} (h : Step d f v r) (hi : ScalarHL d) :
    ScalarHL r.1 := by
  cases h with
  | pL p hf ho hv hsc hok => intro hc; exact ⟨by rw [← (show d.cls = Cls.cdevice2 from hc)]; exact hsc, (hi hc).2⟩
  | pH p hf ho hv hsc hok => intro hc; exact ⟨(hi hc).1, by rw [← (show d.cls = Cls.cdevice2 from hc)]; exact hsc⟩
  | _ => exact hi

/-- after any history of assignments (accepted or rejected-and-caught) a `CDevice2` still holds scalar slopes. -/
theorem cdevice2_scalar_invariant (d : Dev ℝ) (hi : ScalarHL d) (ops : List (Field × Val ℝ)) : ScalarHL (runAll d ops) := by
  induction ops generalizing d with
  | nil => exact hi
  | cons p rest ih =>
    obtain ⟨f, v⟩ := p
    simp only [runAll]
    exact ih _ (step_scalarHL (setField_step d f v) hi)

theorem scalarHL_default (cls : Cls) (n : ℕ) : ScalarHL (Dev.default cls n : Dev ℝ) := by
  intro _; simp [Dev.default, scalarIfC2]

/-- with two or more cumulative bounds a `CDevice2` is accepted only if the ranges are contiguous from slot 0
and the last one ends at the horizon. -/
theorem cdevice2Ranges_ok {d d' : Dev ℝ} (h : cdevice2Ranges d = .ok d') :
    d' = d ∧ ∀ c c2 cs, d.cbounds = some (c :: c2 :: cs) →
      ((c :: c2 :: cs).getLast?.map (·.e)) = some (d.n : ℤ) ∧ rangesOk 0 (c :: c2 :: cs) = true := by
  unfold cdevice2Ranges at h
  split at h
  · next c c2 cs hc =>
    split_ifs at h with h1 h2
    cases h
    refine ⟨rfl, ?_⟩
    intro c' c2' cs' hc'
    rw [hc] at hc'
    cases hc'
    exact ⟨not_not.mp h1, h2⟩
  · next hne =>
    cases h
    exact ⟨rfl, fun c c2 cs hc => absurd hc (hne c c2 cs)⟩

/-- `GDevice.cost_coeffs`: accepted iff one polynomial (1-D) or one row per slot (2-D with `len` rows);
whatever is assigned is stored, accepted or not. -/
theorem gdevice_coeffs_accept_iff (d : Dev ℝ) (hc : d.cls = .gdevice) (k rows : ℕ) :
    (setField d .costCoeffs (.ndim k rows)).2 = none ↔ k = 1 ∨ (k = 2 ∧ rows = d.n) := by
  have ho : owns d.cls .costCoeffs = true := by rw [hc]; rfl
  rw [setField_costCoeffs d _ ho]
  simp only
  rcases guardSet_fst d { d with coeffNdim := some (k, rows) } (decide (k = 1 ∨ (k = 2 ∧ rows = d.n))) with ⟨h, hk⟩ | ⟨h, hk⟩ <;> rw [h]
  · simp only [reduceCtorEq, false_iff]
    simpa using hk
  · simp only [true_iff]
    simpa using hk

/-! ### generators: upper bounds `≤ 0` -/

/-- every upper bound of the device is a number `≤ 0`. -/
def HbNonpos (d : Dev ℝ) : Prop := ∀ r ∈ d.table, ∃ h, r.2 = some h ∧ h ≤ 0

theorem hbNonpos_ok {t : Table ℝ} (h : hbNonpos t = .ok ()) : ∀ r ∈ t, ∃ h, r.2 = some h ∧ h ≤ 0 := by
  unfold hbNonpos at h
  split_ifs at h with h1 h2
  intro r hr
  have := (List.all_eq_true.mp h2) r hr
  cases hr2 : r.2 with
  | none => simp [hr2] at this
  | some hh => simp [hr2] at this; exact ⟨hh, rfl, this⟩

theorem hbNonpos_of {t : Table ℝ} (h : ∀ r ∈ t, ∃ h, r.2 = some h ∧ h ≤ 0) : hbNonpos t = .ok () := by
  unfold hbNonpos
  split_ifs with h1 h2
  · exfalso
    obtain ⟨r, hr, hnone⟩ := List.any_eq_true.mp h1
    obtain ⟨hh, e, _⟩ := h r hr
    simp [e] at hnone
  · rfl
  · exfalso
    apply h2
    apply List.all_eq_true.mpr
    intro r hr
    obtain ⟨hh, e, hle⟩ := h r hr
    simp [e, hle]

/-- one assignment — accepted **or rejected** — keeps a generator's upper bounds `≤ 0`: the sign check comes before
anything is stored. -/
theorem step_gen {d : Dev ℝ} (hc : d.cls = .gdevice ∨ d.cls = .pvdevice) {f : Field} {v : Val ℝ} {r : Dev ℝ × Option Err}
    (h : Step d f v r) (hi : HbNonpos d) : HbNonpos r.1 := by
  by_cases hf : f = .bounds
  · subst hf
    cases h with
    | bounds bv w t e hf' hv hw hg he => exact hbNonpos_ok (hg hc)
    | attr ho => exact absurd (owns_bounds d) ho
    | rejected e => exact hi
    | _ => contradiction
  · have := (step_frame h).2.2.1 hf
    intro r' hr
    exact hi r' (by rw [← this]; exact hr)

/-- **a generator never reports a positive upper bound, after any history of assignments — accepted, or rejected
and caught.** -/
theorem gen_hb_nonpos (d : Dev ℝ) (hc : d.cls = .gdevice ∨ d.cls = .pvdevice) (hi : HbNonpos d)
    (ops : List (Field × Val ℝ)) : HbNonpos (runAll d ops) := by
  induction ops generalizing d with
  | nil => exact hi
  | cons p rest ih =>
    obtain ⟨f, v⟩ := p
    simp only [runAll]
    have hs := setField_step d f v
    exact ih _ (by rw [(step_frame hs).1]; exact hc) (step_gen hc hs hi)

/-! ### rejected assignments -/

/-- **a rejected assignment leaves the device exactly as it was** — for every field, with one exception that
still exists in the code: `bounds` when `validate_bounds` mis-reads its argument (only possible on a length-2
device, see `C11.misread_only_at_two`): the mis-read table is stored before `HyperCube` refuses its shape. -/
theorem rejected_assignment_keeps_state {d d' : Dev ℝ} {f : Field} {v : Val ℝ} {err : Err}
    (h : setField d f v = (d', some err)) :
    d' = d ∨ (∃ bv w t, f = .bounds ∧ v = .bounds bv ∧ validateBoundsW bv d.n = .ok (w, t) ∧ w ≠ 2 ∧
      d' = { d with table := t }) := by
  have hs := setField_step d f v
  rw [h] at hs
  cases hs with
  | rejected e => left; rfl
  | bounds bv w t e hf hv hw hg he =>
    right
    refine ⟨bv, w, t, hf, hv, hw, ?_, rfl⟩
    intro h2
    have := he.mpr h2
    cases this

/-- in particular a rejected assignment to anything but `bounds` changes nothing. -/
theorem rejected_keeps_state_of_ne_bounds {d d' : Dev ℝ} {f : Field} {v : Val ℝ} {err : Err}
    (h : setField d f v = (d', some err)) (hf : f ≠ .bounds) : d' = d := by
  rcases rejected_assignment_keeps_state h with h' | ⟨_, _, _, hb, _⟩
  · exact h'
  · exact absurd hb hf

/-- the remaining store-before-raise: `d.bounds = [[0,0,0],[1,1,1]]` on a length-2 device raises `ValueError`
('Bad shape') and leaves the device reporting the rows `(0,0)`, `(1,1)`. -/
theorem rejected_bounds_misread_retained :
    ∃ (d : Dev ℝ) (v : Val ℝ), (setField d .bounds v).2 = some .valueError ∧ (setField d .bounds v).1.table ≠ d.table := by
  refine ⟨Dev.default .device 2,
    .bounds (.seq .list [.seq .list [.num 0, .num 0, .num 0], .seq .list [.num 1, .num 1, .num 1]]), ?_, ?_⟩
  · simp [setField, owns, Dev.default, validateBoundsW, npShape, commonShape, pairPath, normElem, pyLen, entries,
      scalars, scalar?, finish, rowAllNone, rowHasNone, rowOrdered, rowPair]
  · simp [setField, owns, Dev.default, validateBoundsW, npShape, commonShape, pairPath, normElem, pyLen, entries,
      scalars, scalar?, finish, rowAllNone, rowHasNone, rowOrdered, rowPair]

/-! ## E. reported = supplied -/

def PVal.toVal {α : Type} : PVal α → Val α
  | .scalar x => .scalar x
  | .vec xs => .vec xs

theorem asPVal_toVal {v : Val ℝ} {p : PVal ℝ} (h : asPVal v = some p) : PVal.toVal p = v := by
  cases v <;> simp [asPVal] at h <;> subst h <;> rfl

/-- what the device reports for a parameter (its property getter / `to_dict` entry). -/
def reported (d : Dev ℝ) : Field → Option (Val ℝ)
  | .c1 => some (.scalar d.c1)
  | .c2 => some (.scalar d.c2)
  | .c3 => some (.scalar d.c3)
  | .capacity => some (.scalar d.capacity)
  | .damageDepth => some (.scalar d.damageDepth)
  | .start => some (.scalar d.start)
  | .reserve => some (.scalar d.reserve)
  | .efficiency => some (.scalar d.efficiency)
  | .sustainment => some (.scalar d.sustainment)
  | .rateClip => some (.optPair d.rateClip.1 d.rateClip.2)
  | .a => if d.cls = .cdevice then some (.scalar d.ca) else some (PVal.toVal d.ia)
  | .b => if d.cls = .cdevice then some (.scalar d.cb) else some (PVal.toVal d.ib)
  | .c => some (PVal.toVal d.ic)
  | .pL => some (PVal.toVal d.pl)
  | .pH => some (PVal.toVal d.ph)
  | .costCoeffs => d.coeffNdim.map (fun p => .ndim p.1 p.2)
  | .bounds => none
  | .cbounds => none

/-- the only normalisation of a parameter: `rate_clip = x` means `(x, x)`, `rate_clip = None` means `(None, None)`. -/
def normVal : Field → Val ℝ → Val ℝ
  | .rateClip, .scalar x => .optPair (some x) (some x)
  | .rateClip, .pyNone => .optPair none none
  | _, v => v

/-- an accepted assignment to a parameter stores exactly the supplied value (normalised), or — when the
class has no such property — records it as a plain attribute. -/
theorem step_reported {d : Dev ℝ} {f : Field} {v : Val ℝ} {d' : Dev ℝ} (h : Step d f v (d', none))
    (hb : f ≠ .bounds) (hcb : f ≠ .cbounds) :
    (owns d.cls f = true → reported d' f = some (normVal f v) ∧ d'.extra = d.extra) ∧
    (¬ owns d.cls f = true → d'.extra = d.extra ++ [(f, v)]) := by
  cases h with
  | attr ho => exact ⟨fun h => absurd h ho, fun _ => rfl⟩
  | bounds bv w t e hf hv hw hg he => exact absurd hf hb
  | cbNone hf hv => exact absurd hf hcb
  | cb spec st hf hv hs hr => exact absurd hf hcb
  | c1 x hf ho hv hok => subst hf hv; exact ⟨fun _ => ⟨rfl, rfl⟩, fun h => absurd ho h⟩
  | c2 x hf ho hv hok => subst hf hv; exact ⟨fun _ => ⟨rfl, rfl⟩, fun h => absurd ho h⟩
  | c3 x hf ho hv hok => subst hf hv; exact ⟨fun _ => ⟨rfl, rfl⟩, fun h => absurd ho h⟩
  | capacity x hf ho hv hok => subst hf hv; exact ⟨fun _ => ⟨rfl, rfl⟩, fun h => absurd ho h⟩
  | damageDepth x hf ho hv hok => subst hf hv; exact ⟨fun _ => ⟨rfl, rfl⟩, fun h => absurd ho h⟩
  | start x hf ho hv hok => subst hf hv; exact ⟨fun _ => ⟨rfl, rfl⟩, fun h => absurd ho h⟩
  | reserve x hf ho hv hok => subst hf hv; exact ⟨fun _ => ⟨rfl, rfl⟩, fun h => absurd ho h⟩
  | efficiency x hf ho hv hok => subst hf hv; exact ⟨fun _ => ⟨rfl, rfl⟩, fun h => absurd ho h⟩
  | sustainment x hf ho hv hok => subst hf hv; exact ⟨fun _ => ⟨rfl, rfl⟩, fun h => absurd ho h⟩
  | c p hf ho hv hok =>
    subst hf; exact ⟨fun _ => ⟨by simp [reported, normVal, asPVal_toVal hv], rfl⟩, fun h => absurd ho h⟩
  | pL p hf ho hv hsc hok =>
    subst hf; exact ⟨fun _ => ⟨by simp [reported, normVal, asPVal_toVal hv], rfl⟩, fun h => absurd ho h⟩
  | pH p hf ho hv hsc hok =>
    subst hf; exact ⟨fun _ => ⟨by simp [reported, normVal, asPVal_toVal hv], rfl⟩, fun h => absurd ho h⟩
  | aC x hf ho hc hv hok =>
    subst hf hv; exact ⟨fun _ => ⟨by simp [reported, normVal, hc], rfl⟩, fun h => absurd ho h⟩
  | aI p hf ho hc hv hok =>
    subst hf; exact ⟨fun _ => ⟨by simp [reported, normVal, hc, asPVal_toVal hv], rfl⟩, fun h => absurd ho h⟩
  | bC x hf ho hc hv =>
    subst hf hv; exact ⟨fun _ => ⟨by simp [reported, normVal, hc], rfl⟩, fun h => absurd ho h⟩
  | bI p hf ho hc hv hok =>
    subst hf; exact ⟨fun _ => ⟨by simp [reported, normVal, hc, asPVal_toVal hv], rfl⟩, fun h => absurd ho h⟩
  | rcScalar x hf ho hv hok => subst hf hv; exact ⟨fun _ => ⟨rfl, rfl⟩, fun h => absurd ho h⟩
  | rcNone hf ho hv => subst hf hv; exact ⟨fun _ => ⟨rfl, rfl⟩, fun h => absurd ho h⟩
  | rcPair a b hf ho hv hoa hob => subst hf hv; exact ⟨fun _ => ⟨rfl, rfl⟩, fun h => absurd ho h⟩
  | coeffs k rows hf ho hv hok => subst hf hv; exact ⟨fun _ => ⟨rfl, rfl⟩, fun h => absurd ho h⟩

/-- an assignment to `f` (accepted or not) leaves what is reported for every *other* parameter alone,
and never removes a plain attribute. -/
theorem step_reported_frame {d : Dev ℝ} {f : Field} {v : Val ℝ} {r : Dev ℝ × Option Err} (h : Step d f v r) :
    (∀ g, g ≠ f → reported r.1 g = reported d g) ∧ (∀ p ∈ d.extra, p ∈ r.1.extra) := by
  have cl : r.1.cls = d.cls := (step_frame h).1
  cases h with
  | rejected e => exact ⟨fun _ _ => rfl, fun _ hp => hp⟩
  | attr ho => exact ⟨fun g _ => by cases g <;> rfl, fun p hp => List.mem_append_left _ hp⟩
  | bounds bv w t e hf hv hw hg he => exact ⟨fun g _ => by cases g <;> rfl, fun _ hp => hp⟩
  | cbNone hf hv => exact ⟨fun g _ => by cases g <;> rfl, fun _ hp => hp⟩
  | cb spec st hf hv hs hr => exact ⟨fun g _ => by cases g <;> rfl, fun _ hp => hp⟩
  | c1 x hf ho hv hok => subst hf; exact ⟨fun g hg => by cases g <;> first | rfl | exact absurd rfl hg, fun _ hp => hp⟩
  | c2 x hf ho hv hok => subst hf; exact ⟨fun g hg => by cases g <;> first | rfl | exact absurd rfl hg, fun _ hp => hp⟩
  | c3 x hf ho hv hok => subst hf; exact ⟨fun g hg => by cases g <;> first | rfl | exact absurd rfl hg, fun _ hp => hp⟩
  | capacity x hf ho hv hok => subst hf; exact ⟨fun g hg => by cases g <;> first | rfl | exact absurd rfl hg, fun _ hp => hp⟩
  | damageDepth x hf ho hv hok => subst hf; exact ⟨fun g hg => by cases g <;> first | rfl | exact absurd rfl hg, fun _ hp => hp⟩
  | start x hf ho hv hok => subst hf; exact ⟨fun g hg => by cases g <;> first | rfl | exact absurd rfl hg, fun _ hp => hp⟩
  | reserve x hf ho hv hok => subst hf; exact ⟨fun g hg => by cases g <;> first | rfl | exact absurd rfl hg, fun _ hp => hp⟩
  | efficiency x hf ho hv hok => subst hf; exact ⟨fun g hg => by cases g <;> first | rfl | exact absurd rfl hg, fun _ hp => hp⟩
  | sustainment x hf ho hv hok => subst hf; exact ⟨fun g hg => by cases g <;> first | rfl | exact absurd rfl hg, fun _ hp => hp⟩
  | c p hf ho hv hok => subst hf; exact ⟨fun g hg => by cases g <;> first | rfl | exact absurd rfl hg, fun _ hp => hp⟩
  | pL p hf ho hv hsc hok => subst hf; exact ⟨fun g hg => by cases g <;> first | rfl | exact absurd rfl hg, fun _ hp => hp⟩
  | pH p hf ho hv hsc hok => subst hf; exact ⟨fun g hg => by cases g <;> first | rfl | exact absurd rfl hg, fun _ hp => hp⟩
  | aC x hf ho hc hv hok =>
    subst hf
    exact ⟨fun g hg => by cases g <;> first | rfl | exact absurd rfl hg | simp [reported, hc], fun _ hp => hp⟩
  | aI p hf ho hc hv hok =>
    subst hf
    exact ⟨fun g hg => by cases g <;> first | rfl | exact absurd rfl hg | simp [reported, hc], fun _ hp => hp⟩
  | bC x hf ho hc hv =>
    subst hf
    exact ⟨fun g hg => by cases g <;> first | rfl | exact absurd rfl hg | simp [reported, hc], fun _ hp => hp⟩
  | bI p hf ho hc hv hok =>
    subst hf
    exact ⟨fun g hg => by cases g <;> first | rfl | exact absurd rfl hg | simp [reported, hc], fun _ hp => hp⟩
  | rcScalar x hf ho hv hok => subst hf; exact ⟨fun g hg => by cases g <;> first | rfl | exact absurd rfl hg, fun _ hp => hp⟩
  | rcNone hf ho hv => subst hf; exact ⟨fun g hg => by cases g <;> first | rfl | exact absurd rfl hg, fun _ hp => hp⟩
  | rcPair a b hf ho hv hoa hob => subst hf; exact ⟨fun g hg => by cases g <;> first | rfl | exact absurd rfl hg, fun _ hp => hp⟩
  | coeffs k rows hf ho hv hok => subst hf; exact ⟨fun g hg => by cases g <;> first | rfl | exact absurd rfl hg, fun _ hp => hp⟩

/-- keyword arguments applied in caller order: each is stored as supplied, nothing else moves. -/
theorem setAll_reported {d d' : Dev ℝ} {kw : List (Field × Val ℝ)} (h : setAll d kw = .ok d')
    (hk : ∀ p ∈ kw, p.1 ≠ .bounds ∧ p.1 ≠ .cbounds) (hnd : (kw.map Prod.fst).Nodup) :
    d'.cls = d.cls ∧ d'.n = d.n ∧ d'.table = d.table ∧ d'.cbounds = d.cbounds ∧
    (∀ f v, (f, v) ∈ kw →
      (owns d.cls f = true → reported d' f = some (normVal f v)) ∧ (¬ owns d.cls f = true → (f, v) ∈ d'.extra)) ∧
    (∀ g, g ∉ kw.map Prod.fst → reported d' g = reported d g) ∧ (∀ p ∈ d.extra, p ∈ d'.extra) := by
  induction kw generalizing d with
  | nil =>
    simp [setAll] at h; subst h
    exact ⟨rfl, rfl, rfl, rfl, by simp, fun _ _ => rfl, fun _ hp => hp⟩
  | cons p rest ih =>
    obtain ⟨f, v⟩ := p
    simp only [setAll] at h
    have hs := setField_step d f v
    cases hr : setField d f v with
    | mk d1 e =>
      rw [hr] at hs
      cases e with
      | some e => simp [hr] at h
      | none =>
        simp only [hr] at h
        obtain ⟨hfb, hfc⟩ := hk (f, v) (by simp)
        obtain ⟨k1, k2, k3, k4⟩ := step_frame hs
        obtain ⟨r1, r2⟩ := step_reported hs hfb hfc
        obtain ⟨fr1, fr2⟩ := step_reported_frame hs
        have hnd' : (rest.map Prod.fst).Nodup := (List.nodup_cons.mp (by simpa using hnd)).2
        have hfn : f ∉ rest.map Prod.fst := (List.nodup_cons.mp (by simpa using hnd)).1
        obtain ⟨j1, j2, j3, j4, j5, j6, j7⟩ := ih h (fun p hp => hk p (List.mem_cons_of_mem _ hp)) hnd'
        simp only at k1 k2 k3 k4 fr1 fr2
        refine ⟨by rw [j1, k1], by rw [j2, k2], by rw [j3, k3 hfb], by rw [j4, k4 hfc], ?_, ?_, ?_⟩
        · intro g w hgw
          rcases List.mem_cons.mp hgw with e | hgw
          · cases e
            constructor
            · intro ho
              rw [j6 f hfn]; exact (r1 ho).1
            · intro ho
              apply j7
              rw [r2 ho]; simp
          · have := j5 g w hgw
            rw [k1] at this
            exact this
        · intro g hg
          have hg' : g ≠ f ∧ g ∉ rest.map Prod.fst := by
            simp only [List.map_cons, List.mem_cons, not_or] at hg
            exact hg
          rw [j6 g hg'.2, fr1 g hg'.1]
        · intro p hp
          exact j7 p (fr2 p hp)

/-- **Every accepted setting is reported back as supplied.**  For a device returned by the constructor of any
class with the common signature:
* its bounds table is the table the supplied specification denotes (`validate_sound` / `gen_bounds_iff`);
* its cumulative bounds are the supplied ones in 4-tuple form — for *every* class, `IDevice`, `IDevice2` and
  `SDevice` included (`CDevice2` substitutes `(Σlb, Σhb, 0, n)` when none, or an empty list, is given);
* every keyword argument the class has a property for is reported with the supplied value (`rate_clip = x`
  as `(x, x)`), every other keyword argument is kept as a plain attribute. -/
theorem reported_eq_supplied {cls : Cls} {n : ℕ} {bv : PyVal ℝ} {cb : CbSpec ℝ} {kw : List (Field × Val ℝ)} {d : Dev ℝ}
    (h : construct cls n bv cb kw = .ok d)
    (hk : ∀ p ∈ kw, p.1 ≠ .bounds ∧ p.1 ≠ .cbounds) (hnd : (kw.map Prod.fst).Nodup) :
    d.cls = cls ∧ d.n = n ∧
    (if cls = .gdevice ∨ cls = .pvdevice then genBounds bv n else deviceBounds bv n) = .ok d.table ∧
    (cls ≠ .cdevice2 → cbMeaning n cb = some d.cbounds) ∧
    (cls = .cdevice2 → ∀ c cs, cbMeaning n cb = some (some (c :: cs)) → d.cbounds = some (c :: cs)) ∧
    (∀ f v, (f, v) ∈ kw →
      (owns cls f = true → reported d f = some (normVal f v)) ∧ (¬ owns cls f = true → (f, v) ∈ d.extra)) := by
  unfold construct at h
  cases hsa : setAll (Dev.default cls n) ((.bounds, .bounds bv) :: (.cbounds, .cbounds cb) :: kw) with
  | error e => simp [hsa] at h
  | ok d0 =>
    simp only [hsa] at h
    -- step 1: bounds
    simp only [setAll] at hsa
    have hs1 := setField_step (Dev.default cls n : Dev ℝ) .bounds (.bounds bv)
    cases hr1 : setField (Dev.default cls n : Dev ℝ) .bounds (.bounds bv) with
    | mk d1 e1 =>
      rw [hr1] at hs1
      cases e1 with
      | some e => simp [hr1] at hsa
      | none =>
        simp only [hr1] at hsa
        -- step 2: cbounds
        have hs2 := setField_step d1 .cbounds (.cbounds cb)
        cases hr2 : setField d1 .cbounds (.cbounds cb) with
        | mk d2 e2 =>
          rw [hr2] at hs2
          cases e2 with
          | some e => simp [hr2] at hsa
          | none =>
            simp only [hr2] at hsa
            obtain ⟨a1, a2, _, a4⟩ := step_frame hs1
            obtain ⟨b1, b2, b3, _⟩ := step_frame hs2
            simp only at a1 a2 a4 b1 b2 b3
            have hd1cls : d1.cls = cls := a1
            have hd1n : d1.n = n := a2
            obtain ⟨j1, j2, j3, j4, j5, _, _⟩ := setAll_reported hsa hk hnd
            -- the bounds table of d1
            have hbounds : (if cls = .gdevice ∨ cls = .pvdevice then genBounds bv n else deviceBounds bv n) = .ok d1.table := by
              cases hs1 with
              | attr ho => exact absurd (owns_bounds _) ho
              | bounds bv' w t e hf hv hw hg he =>
                cases hv
                have hw2 : w = 2 := he.mp rfl
                have hwn : validateBoundsW bv n = .ok (w, t) := hw
                have hdev : deviceBounds bv n = .ok t := by simp [deviceBounds, hwn, hw2]
                split_ifs with hg'
                · have hnp := hg hg'
                  simp [genBounds, hwn, hnp, hw2]
                · exact hdev
              | cbNone hf hv => cases hf
              | cb spec st hf hv hs hr => cases hf
              | _ => contradiction
            -- the cumulative bounds of d2
            have hcb : cbMeaning n cb = some d2.cbounds := by
              cases hs2 with
              | attr ho => exact absurd (owns_cbounds _) ho
              | bounds bv' w t e hf hv hw hg he => cases hf
              | cbNone hf hv => cases hv; rfl
              | cb spec st hf hv hs hr =>
                cases hv
                rw [← hd1n]
                by_cases hn : tableNumeric d1.table = true
                · rw [if_pos hn] at hr
                  exact ((setCbounds_ok_iff d1.n (lbOf d1.table) (hbOf d1.table) cb st).mp hr).1
                · rw [if_neg hn] at hr
                  exact setCboundsNone_ok d1.n cb st hr
              | _ => contradiction
            have hd0cls : d0.cls = cls := by rw [j1, b1, hd1cls]
            have hd0n : d0.n = n := by rw [j2, b2, hd1n]
            have hparams : ∀ f v, (f, v) ∈ kw →
                (owns cls f = true → reported d0 f = some (normVal f v)) ∧ (¬ owns cls f = true → (f, v) ∈ d0.extra) := by
              intro f v hfv
              have := j5 f v hfv
              rw [b1, hd1cls] at this
              exact this
            split_ifs at h with hc2
            · -- CDevice2
              obtain ⟨⟨st, est⟩, hkeep⟩ := cdevice2Post_spec h
              refine ⟨by rw [est]; exact hd0cls, by rw [est]; exact hd0n, ?_, fun hne => absurd hc2 hne, ?_, ?_⟩
              · rw [est]; show _ = Except.ok d0.table; rw [j3, b3 (by simp)]; exact hbounds
              · intro _ c cs hm
                have e0 : d0.cbounds = some (c :: cs) := by
                  rw [j4]
                  rw [hm] at hcb
                  exact (Option.some.inj hcb).symm
                rw [hkeep c cs e0]; exact e0
              · intro f v hfv
                obtain ⟨p1, p2⟩ := hparams f v hfv
                rw [est]
                refine ⟨fun ho => ?_, p2⟩
                have := p1 ho
                cases f <;> first | exact this | skip
            · cases h
              refine ⟨hd0cls, hd0n, ?_, fun _ => ?_, fun hc => absurd hc hc2, hparams⟩
              · rw [j3, b3 (by simp)]; exact hbounds
              · rw [j4]; exact hcb

end DK.C11
