import DK.Props.Defs
import DK.Lemmas.Convex
import Mathlib.Analysis.Convex.Function
import Mathlib.Analysis.Calculus.Deriv.Slope
import Mathlib.Analysis.Calculus.Deriv.Mul
import Mathlib.Analysis.Calculus.Deriv.Add
/-!
# C07 — shipped device costs are convex over their bounds box

Elementary chord form: `ConvexOnBox n lb hb f` says `f (θ•x + (1-θ)•y) ≤ θ f x + (1-θ) f y` for all
in-box `x y` and `θ ∈ [0,1]`.  `convexOnBox_iff` relates it to Mathlib's `ConvexOn` on the box as
a subset of `ℕ → ℝ` (optional bridge; prove it if it is cheap, otherwise leave it out and say so).
-/
namespace DK.C07
open DK

theorem device_convex (n : ℕ) (lb hb p : ℕ → ℝ) : ConvexOnBox n lb hb (fun x => deviceCost n x p) := by
  unfold deviceCost
  exact (isAffine_priceTerm n p).convexOnBox n lb hb

theorem cdevice_convex (n : ℕ) (a b : ℝ) (lb hb p : ℕ → ℝ) : ConvexOnBox n lb hb (fun x => cdevCost n a b x p) := by
  unfold cdevCost
  exact ((((isAffine_sumTo n).const_mul a).add (isAffine_const b)).add (isAffine_priceTerm n p)).convexOnBox n lb hb

/-- acceptance: `p_l ≤ p_h` per slot (idevice2.py validators) and `lb ≤ hb` (validate_bounds). -/
theorem idevice2_convex (n : ℕ) (pl ph lb hb p : ℕ → ℝ) (hp : ∀ k < n, pl k ≤ ph k) (hb' : ∀ k < n, lb k ≤ hb k) :
    ConvexOnBox n lb hb (fun x => idev2Cost n pl ph lb hb x p) := by
  unfold idev2Cost
  exact (convexOnBox_slots n lb hb (φ := fun k t => hlqCost (pl k) (ph k) (lb k) (hb k) t)
    (fun k hk => (chordR_hlqCost _ _ _ _ (hp k hk) (hb' k hk)).chordIcc _ _)).add
    ((isAffine_priceTerm n p).convexOnBox n lb hb)

example : ConvexOnBox 2 (fun _ => 0) (fun _ => 3)
    (fun x => idev2Cost 2 (fun _ => 1) (fun _ => 2) (fun _ => 0) (fun _ => 3) x (fun _ => 5)) :=
  idevice2_convex 2 _ _ _ _ _ (by intros; norm_num) (by intros; norm_num)

/-- `c ≥ 0`, `a ≥ 0`, real exponent `b ≥ 1`.  (The validator admits `0 < b < 1`, where this is FALSE:
see `idevice_not_convex_small_b`.) -/
theorem idevice_convex (n : ℕ) (a b c lb hb p : ℕ → ℝ) (ha : ∀ k < n, 0 ≤ a k) (hb1 : ∀ k < n, 1 ≤ b k)
    (hc : ∀ k < n, 0 ≤ c k) (hb' : ∀ k < n, lb k ≤ hb k) :
    ConvexOnBox n lb hb (fun x => idevCost Real.rpow n a b c lb hb x p) := by
  unfold idevCost
  exact (convexOnBox_slots n lb hb (φ := fun k t => abcCost Real.rpow t (a k) (b k) (c k) (lb k) (hb k))
    (fun k hk => chordIcc_abcCost_rpow _ _ _ _ _ (ha k hk) (hb1 k hk) (hc k hk) (hb' k hk))).add
    ((isAffine_priceTerm n p).convexOnBox n lb hb)

example : ConvexOnBox 2 (fun _ => 0) (fun _ => 3)
    (fun x => idevCost Real.rpow 2 (fun _ => 1/2) (fun _ => 3/2) (fun _ => 4) (fun _ => 0) (fun _ => 3) x (fun _ => 5)) :=
  idevice_convex 2 _ _ _ _ _ _ (by intros; norm_num) (by intros; norm_num) (by intros; norm_num) (by intros; norm_num)

/-- the accepted corner `b = 1/2` is not convex: a concrete witness (n = 1, bounds (0,1), a = 0, c = 1). -/
theorem idevice_not_convex_small_b :
    ¬ ConvexOnBox 1 (fun _ => 0) (fun _ => 1)
        (fun x => idevCost Real.rpow 1 (fun _ => 0) (fun _ => (1/2 : ℝ)) (fun _ => 1) (fun _ => 0) (fun _ => 1) x (fun _ => 0)) := by
  intro h
  have h' := h (fun _ => 0) (fun _ => 1) (by intro k _; norm_num) (by intro k _; norm_num) (1/2) (by norm_num) (by norm_num)
  simp only [idevCost, abcCost, abcQ, abcS, sumTo, priceTerm, mix] at h'
  norm_num at h'
  have := Real.rpow_lt_rpow_of_exponent_gt (x := (1/2:ℝ)) (y := 1) (z := 1/2) (by norm_num) (by norm_num) (by norm_num)
  rw [Real.rpow_one] at this
  linarith

/-- generator: restricted (as the property says) to polynomials convex on the generated range. -/
theorem gdevice_convex (n : ℕ) (cs : ℕ → List ℝ) (lb hb p : ℕ → ℝ)
    (hcv : ∀ k < n, ∀ u v : ℝ, -hb k ≤ u → u ≤ -lb k → -hb k ≤ v → v ≤ -lb k → ∀ θ : ℝ, 0 ≤ θ → θ ≤ 1 →
      polyEval (cs k) (θ * u + (1 - θ) * v) ≤ θ * polyEval (cs k) u + (1 - θ) * polyEval (cs k) v) :
    ConvexOnBox n lb hb (fun x => gdevCost n cs x p) := by
  unfold gdevCost
  refine convexOnBox_slots n lb hb (φ := fun k t => t * p k + polyEval (cs k) (- t)) ?_
  intro k hk u v hu1 hu2 hv1 hv2 θ h0 h1
  have := hcv k hk (-u) (-v) (by linarith) (by linarith) (by linarith) (by linarith) θ h0 h1
  have e : -(θ * u + (1 - θ) * v) = θ * -u + (1 - θ) * -v := by ring
  simp only [e]
  linarith

example : ConvexOnBox 2 (fun _ => -3) (fun _ => 0) (fun x => gdevCost 2 (fun _ => [1, 0, 0]) x (fun _ => 5)) :=
  gdevice_convex 2 _ _ _ _ (by
    intro k _ u v _ _ _ _ θ h0 h1
    simp only [polyEval, List.foldl]
    nlinarith [mul_nonneg (mul_nonneg h0 (sub_nonneg.mpr h1)) (mul_self_nonneg (u - v))])

/-- cumulative high/low quadratic: `p_l ≤ p_h`, every range has `l ≤ h` and lies inside the horizon. -/
theorem cdevice2_convex (n : ℕ) (pl ph : ℝ) (cbs : List (CBound ℝ)) (lb hb p : ℕ → ℝ) (hp : pl ≤ ph)
    (hcb : ∀ c ∈ cbs, c.l ≤ c.h ∧ c.e ≤ n) :
    ConvexOnBox n lb hb (fun x => cdev2Cost n pl ph cbs x p) := by
  have hprice := (isAffine_priceTerm n p).convexOnBox n lb hb
  have hgen : ∀ l : List (CBound ℝ), (∀ c ∈ l, c.l ≤ c.h ∧ c.e ≤ n) →
      ConvexOnBox n lb hb (fun x => (l.map (fun c => hlqCost pl ph c.l c.h (sumRange c.s c.e x))).foldl (· + ·) 0) := by
    intro l hl
    simp only [foldl_add_eq_sum, zero_add]
    exact ConvexOnBox.listSum l (g := fun c x => hlqCost pl ph c.l c.h (sumRange c.s c.e x))
      (fun c hc => convexOnBox_comp_affine n lb hb (φ := fun t => hlqCost pl ph c.l c.h t)
        (isAffine_sumRange c.s c.e) (chordR_hlqCost _ _ _ _ hp (hl c hc).1))
  unfold cdev2Cost
  rcases cbs with _ | ⟨c, _ | ⟨d, rest⟩⟩
  · exact (hgen [] hcb).add hprice
  · simp only [cdev2Fn]
    exact (convexOnBox_comp_affine n lb hb (φ := fun t => hlqCost pl ph c.l c.h t)
      (isAffine_sumTo n) (chordR_hlqCost _ _ _ _ hp (hcb c (by simp)).1)).add hprice
  · exact (hgen (c :: d :: rest) hcb).add hprice

example : ConvexOnBox 4 (fun _ => 0) (fun _ => 3)
    (fun x => cdev2Cost 4 1 2 [⟨0, 5, 0, 2⟩, ⟨1, 6, 2, 4⟩] x (fun _ => 5)) :=
  cdevice2_convex 4 1 2 _ _ _ _ (by norm_num) (by
    intro c hc
    simp only [List.mem_cons, List.not_mem_nil, or_false] at hc
    rcases hc with rfl | rfl <;> norm_num)

/-- thermal: `c ≥ 0`, `t_range ≥ 0`; any efficiency sign (heating or cooling). -/
theorem tdevice_convex (n : ℕ) (q : TParams ℝ) (lb hb p : ℕ → ℝ) (hc : ∀ k < n, 0 ≤ q.c k) (hr : 0 ≤ q.tRange) :
    ConvexOnBox n lb hb (fun x => tdevCost n q x p) := by
  unfold tdevCost
  exact (ConvexOnBox.sumTo n (g := fun i x => tSlotCost q (r2t q x i) i)
    (fun i hi => convexOnBox_comp_affine n lb hb (φ := fun t => tSlotCost q t i)
      (isAffine_r2t q i) (chordR_tSlotCost q i (hc i hi)))).add
    ((isAffine_priceTerm n p).convexOnBox n lb hb)

example : ConvexOnBox 3 (fun _ => 0) (fun _ => 3)
    (fun x => tdevCost 3 ⟨9/10, -2, 20, 21, 3, fun _ => 30, fun _ => 1⟩ x (fun _ => 5)) :=
  tdevice_convex 3 _ _ _ _ (by intros; norm_num) (by norm_num)

/-- storage, rate + flip-flop terms: `c1 ≥ c2 ≥ 0` makes `c1 Σ r² − c2 Σ r_i r_{i+1}` convex
(identity: `(c1−c2) Σ r² + (c2/2)(Σ (r_i − r_{i+1})² + r_0² + r_{n−1}²)`). -/
theorem sdevice_quadratic_convex (n : ℕ) (c1 c2 : ℝ) (lb hb : ℕ → ℝ) (h2 : 0 ≤ c2) (h12 : c2 ≤ c1) :
    ConvexOnBox n lb hb (fun r => sumTo n (fun i => c1 * (r i * r i) + (if i + 1 < n then c2 * (-1 : ℝ) * (r i * r (i + 1)) else 0))) :=
  sdev_quad_convex n c1 c2 lb hb h2 h12

example : ConvexOnBox 3 (fun _ => -1) (fun _ => 1)
    (fun r => sumTo 3 (fun i => (2:ℝ) * (r i * r i) + (if i + 1 < 3 then (1:ℝ) * (-1 : ℝ) * (r i * r (i + 1)) else 0))) :=
  sdevice_quadratic_convex 3 2 1 _ _ (by norm_num) (by norm_num)

/-- the accepted corner `c1 = 0, c2 > 0` (sdevice.py setters) is not convex: witness n = 2, c2 = 1. -/
theorem sdevice_quadratic_not_convex :
    ¬ ConvexOnBox 2 (fun _ => -1) (fun _ => 1)
        (fun r => sumTo 2 (fun i => (0:ℝ) * (r i * r i) + (if i + 1 < 2 then (1:ℝ) * (-1 : ℝ) * (r i * r (i + 1)) else 0))) := by
  intro h
  have h' := h (fun _ => 1) (fun _ => -1) (by intro k _; norm_num) (by intro k _; norm_num) (1/2) (by norm_num) (by norm_num)
  simp only [sumTo, mix] at h'
  norm_num at h'

/-- storage, full cost: `c1 ≥ c2 ≥ 0`, `c3 ≥ 0`, `0 < efficiency ≤ 1`, `0 ≤ sustainment`.
The deep-discharge term is (convex, non-increasing) ∘ (concave state of charge). -/
theorem sdevice_convex (n : ℕ) (q : SParams ℝ) (lb hb p : ℕ → ℝ) (h2 : 0 ≤ q.c2) (h12 : q.c2 ≤ q.c1) (h3 : 0 ≤ q.c3)
    (he0 : 0 < q.efficiency) (he1 : q.efficiency ≤ 1) (hs : 0 ≤ q.sustainment) :
    ConvexOnBox n lb hb (fun x => sdevCost n q x p) := by
  have hq := sdev_quad_convex n q.c1 q.c2 lb hb h2 h12
  have hsf : ConvexOnBox n lb hb (fun x => sumTo n (fun i => q.c3 * (shortfall q x i * shortfall q x i))) :=
    ConvexOnBox.sumTo n (g := fun i x => q.c3 * (shortfall q x i * shortfall q x i))
      (fun i _ => (shortfallSq_convex n lb hb q he0 he1 hs i).const_mul h3)
  have hl := (isAffine_priceTerm n p).convexOnBox n lb hb
  refine ((hq.add hsf).add hl).congr ?_
  intro x
  simp only [sdevCost, chargeCost, priceTerm, sumTo_add]

example : ConvexOnBox 3 (fun _ => -1) (fun _ => 1)
    (fun x => sdevCost 3 ⟨2, 1, 4, 10, 1/5, 1/2, 0, 9/10, 99/100⟩ x (fun _ => 5)) :=
  sdevice_convex 3 _ _ _ _ (by norm_num) (by norm_num) (by norm_num) (by norm_num) (by norm_num) (by norm_num)

/-- consequence used by C05/C19: on a convex cost, a point whose directional derivatives towards every
in-box point are ≥ −ε is ε-optimal (first-order certificate). -/
theorem first_order_certificate (n : ℕ) (lb hb : ℕ → ℝ) (f : (ℕ → ℝ) → ℝ) (g : ℕ → ℝ) (x : ℕ → ℝ) (ε : ℝ)
    (hf : ConvexOnBox n lb hb f) (hx : InBox n lb hb x)
    (hg : ∀ y, InBox n lb hb y → HasDerivAt (fun τ => f (fun k => x k + τ * (y k - x k))) (sumTo n (fun k => g k * (y k - x k))) 0)
    (hopt : ∀ y, InBox n lb hb y → -ε ≤ sumTo n (fun k => g k * (y k - x k))) :
    ∀ y, InBox n lb hb y → f x - ε ≤ f y := by
  intro y hy
  have hd := hg y hy
  have hlim := hd.tendsto_slope_zero_right
  have hle : sumTo n (fun k => g k * (y k - x k)) ≤ f y - f x := by
    refine le_of_tendsto hlim ?_
    filter_upwards [Ioo_mem_nhdsGT (zero_lt_one' ℝ)] with τ hτ
    obtain ⟨h0, h1⟩ := hτ
    have e1 : (fun k => x k + (0 + τ) * (y k - x k)) = mix τ y x := by
      funext k; simp only [mix]; ring
    have e0 : (fun k => x k + (0:ℝ) * (y k - x k)) = x := by
      funext k; ring
    simp only [e1, e0, smul_eq_mul]
    have hc := hf y x hy hx τ h0.le h1.le
    rw [inv_mul_le_iff₀ h0]
    linarith
  have := hopt y hy
  linarith

example : ∀ y, InBox 2 (fun _ => 0) (fun _ => 1) y →
    (fun x : ℕ → ℝ => sumTo 2 (fun k => x k * 1)) (fun _ => 0) - 0 ≤ (fun x : ℕ → ℝ => sumTo 2 (fun k => x k * 1)) y :=
  first_order_certificate 2 (fun _ => 0) (fun _ => 1) (fun x => sumTo 2 (fun k => x k * 1)) (fun _ => 1) (fun _ => 0) 0
    ((isAffine_priceTerm 2 (fun _ => 1)).convexOnBox 2 _ _) (by intro k _; norm_num)
    (by
      intro y _
      simp only [sumTo]
      have h := ((hasDerivAt_id' (0:ℝ)).mul_const (y 0 - 0)).add ((hasDerivAt_id' (0:ℝ)).mul_const (y 1 - 0))
      refine (h.congr_deriv (by ring)).congr_of_eventuallyEq ?_
      filter_upwards with τ
      simp only [Pi.add_apply]
      ring)
    (by
      intro y hy
      simp only [sumTo]
      have := (hy 0 (by norm_num)).1
      have := (hy 1 (by norm_num)).1
      linarith)

/-- bridge to Mathlib: the chord form is exactly `ConvexOn ℝ` on the box as a subset of `ℕ → ℝ`. -/
theorem convexOnBox_iff (n : ℕ) (lb hb : ℕ → ℝ) (f : (ℕ → ℝ) → ℝ) :
    ConvexOnBox n lb hb f ↔ ConvexOn ℝ {x | InBox n lb hb x} f := by
  have emix : ∀ (a b : ℝ) (x y : ℕ → ℝ), a + b = 1 → a • x + b • y = mix a x y := by
    intro a b x y hab
    have : b = 1 - a := by linarith
    subst this
    funext k
    simp [mix]
  constructor
  · intro h
    refine ⟨?_, ?_⟩
    · intro x hx y hy a b ha hb hab
      rw [emix a b x y hab]
      exact inBox_mix hx hy ha (by linarith)
    · intro x hx y hy a b ha hb hab
      rw [emix a b x y hab]
      have : b = 1 - a := by linarith
      subst this
      simpa only [smul_eq_mul] using h x y hx hy a ha (by linarith)
  · intro h x y hx hy θ h0 h1
    have := h.2 hx hy h0 (by linarith : (0:ℝ) ≤ 1 - θ) (by ring)
    rw [emix θ (1 - θ) x y (by ring)] at this
    simpa only [smul_eq_mul] using this

#print axioms convexOnBox_iff
#print axioms device_convex
#print axioms cdevice_convex
#print axioms idevice2_convex
#print axioms idevice_convex
#print axioms idevice_not_convex_small_b
#print axioms gdevice_convex
#print axioms cdevice2_convex
#print axioms tdevice_convex
#print axioms sdevice_quadratic_convex
#print axioms sdevice_quadratic_not_convex
#print axioms sdevice_convex
#print axioms first_order_certificate

end DK.C07
