import DK.Props.C11b
/-!
# C11, part D (first half) — every way an assignment can end

`Step d f v r` lists, constructor by constructor, the outcomes `r = (state afterwards, exception)` of
`setattr(device, f, v)`; `setField_step` proves the model's `setField` always ends in one of them.  The
invariants of `DK/Props/C11d.lean` are then case analyses over `Step`, not over the definition.
-/
namespace DK.C11
open DK DK.Validate

theorem guardSet_fst (d d' : Dev ℝ) (ok : Bool) :
    (guardSet d d' ok = (d, some .valueError) ∧ ok = false) ∨ (guardSet d d' ok = (d', none) ∧ ok = true) := by
  cases ok <;> simp [guardSet]

theorem scalarSet_cases (d : Dev ℝ) (v : Val ℝ) (ok : ℝ → Bool) (store : ℝ → Dev ℝ) :
    (∃ e, scalarSet d v ok store = (d, some e)) ∨
    (∃ x, v = .scalar x ∧ ok x = true ∧ scalarSet d v ok store = (store x, none)) := by
  cases v with
  | scalar x =>
    rcases guardSet_fst d (store x) (ok x) with ⟨h, _⟩ | ⟨h, hok⟩
    · left; exact ⟨_, by simpa [scalarSet] using h⟩
    · right; exact ⟨x, rfl, hok, by simpa [scalarSet] using h⟩
  | _ => left; exact ⟨_, rfl⟩

theorem pvalSet_cases (d : Dev ℝ) (v : Val ℝ) (ok : PVal ℝ → Bool) (store : PVal ℝ → Dev ℝ) :
    (∃ e, pvalSet d v ok store = (d, some e)) ∨
    (∃ p, asPVal v = some p ∧ ok p = true ∧ pvalSet d v ok store = (store p, none)) := by
  unfold pvalSet
  cases hv : asPVal v with
  | none => left; exact ⟨_, rfl⟩
  | some p =>
    rcases guardSet_fst d (store p) (ok p) with ⟨h, _⟩ | ⟨h, hok⟩
    · left; exact ⟨_, h⟩
    · right; exact ⟨p, rfl, hok, h⟩

/-! ### unfolding `setField` one field at a time -/
section eqns
variable (d : Dev ℝ) (v : Val ℝ)

theorem owns_bounds : owns d.cls .bounds = true := by cases d.cls <;> rfl
theorem owns_cbounds : owns d.cls .cbounds = true := by cases d.cls <;> rfl

theorem setField_notOwned (f : Field) (ho : ¬ owns d.cls f = true) :
    setField d f v = ({ d with extra := d.extra ++ [(f, v)] }, none) := by
  unfold setField; rw [if_pos ho]

theorem setField_c1 (ho : owns d.cls .c1 = true) :
    setField d .c1 v = scalarSet d v (fun x => sC1Ok x d.c2) (fun x => { d with c1 := x }) := by
  unfold setField; rw [if_neg (not_not.mpr ho)]

theorem setField_c2 (ho : owns d.cls .c2 = true) :
    setField d .c2 v = scalarSet d v (fun x => sC2Ok x d.c1) (fun x => { d with c2 := x }) := by
  unfold setField; rw [if_neg (not_not.mpr ho)]

theorem setField_c3 (ho : owns d.cls .c3 = true) :
    setField d .c3 v = scalarSet d v sC3Ok (fun x => { d with c3 := x }) := by
  unfold setField; rw [if_neg (not_not.mpr ho)]

theorem setField_capacity (ho : owns d.cls .capacity = true) :
    setField d .capacity v = scalarSet d v sCapacityOk (fun x => { d with capacity := x }) := by
  unfold setField; rw [if_neg (not_not.mpr ho)]

theorem setField_damageDepth (ho : owns d.cls .damageDepth = true) :
    setField d .damageDepth v = scalarSet d v sUnitOk (fun x => { d with damageDepth := x }) := by
  unfold setField; rw [if_neg (not_not.mpr ho)]

theorem setField_start (ho : owns d.cls .start = true) :
    setField d .start v = scalarSet d v sUnitOk (fun x => { d with start := x }) := by
  unfold setField; rw [if_neg (not_not.mpr ho)]

theorem setField_reserve (ho : owns d.cls .reserve = true) :
    setField d .reserve v = scalarSet d v sUnitOk (fun x => { d with reserve := x }) := by
  unfold setField; rw [if_neg (not_not.mpr ho)]

theorem setField_efficiency (ho : owns d.cls .efficiency = true) :
    setField d .efficiency v = scalarSet d v sRateOk (fun x => { d with efficiency := x }) := by
  unfold setField; rw [if_neg (not_not.mpr ho)]

theorem setField_sustainment (ho : owns d.cls .sustainment = true) :
    setField d .sustainment v = scalarSet d v sRateOk (fun x => { d with sustainment := x }) := by
  unfold setField; rw [if_neg (not_not.mpr ho)]

theorem setField_c (ho : owns d.cls .c = true) :
    setField d .c v = pvalSet d v (fun p => iParamOk p d.n) (fun p => { d with ic := p }) := by
  unfold setField; rw [if_neg (not_not.mpr ho)]

theorem setField_pL (ho : owns d.cls .pL = true) :
    setField d .pL v = pvalSet d v (fun p => scalarIfC2 d.cls p && pLOk p d.ph d.n) (fun p => { d with pl := p }) := by
  unfold setField; rw [if_neg (not_not.mpr ho)]

theorem setField_pH (ho : owns d.cls .pH = true) :
    setField d .pH v = pvalSet d v (fun p => scalarIfC2 d.cls p && pHOk p d.pl d.n) (fun p => { d with ph := p }) := by
  unfold setField; rw [if_neg (not_not.mpr ho)]

theorem setField_a_c (ho : owns d.cls .a = true) (hc : d.cls = .cdevice) :
    setField d .a v = scalarSet d v cAOk (fun x => { d with ca := x }) := by
  unfold setField; rw [if_neg (not_not.mpr ho)]; simp only [hc, if_true]
theorem setField_a_i (ho : owns d.cls .a = true) (hc : ¬ d.cls = .cdevice) :
    setField d .a v = pvalSet d v (fun p => iParamOk p d.n) (fun p => { d with ia := p }) := by
  unfold setField; rw [if_neg (not_not.mpr ho)]; simp only [hc, if_false]
theorem setField_b_c (ho : owns d.cls .b = true) (hc : d.cls = .cdevice) :
    setField d .b v = scalarSet d v (fun _ => true) (fun x => { d with cb := x }) := by
  unfold setField; rw [if_neg (not_not.mpr ho)]; simp only [hc, if_true]
theorem setField_b_i (ho : owns d.cls .b = true) (hc : ¬ d.cls = .cdevice) :
    setField d .b v = pvalSet d v (fun p => iBOk p d.n) (fun p => { d with ib := p }) := by
  unfold setField; rw [if_neg (not_not.mpr ho)]; simp only [hc, if_false]

theorem setField_bounds (bv : PyVal ℝ) :
    setField d .bounds (.bounds bv) =
      match validateBoundsW bv d.n with
      | .error e => (d, some e)
      | .ok (w, t) =>
        match (if d.cls = .gdevice ∨ d.cls = .pvdevice then hbNonpos t else .ok ()) with
        | .error e => (d, some e)
        | .ok _ => if w ≠ 2 then ({ d with table := t }, some .valueError) else ({ d with table := t }, none) := by
  unfold setField; rw [if_neg (not_not.mpr (owns_bounds d))]
  simp only
  cases validateBoundsW bv d.n with
  | error e => rfl
  | ok p => rfl

theorem setField_bounds_bad (hv : ∀ bv, v ≠ .bounds bv) : setField d .bounds v = (d, some .unmodelled) := by
  unfold setField; rw [if_neg (not_not.mpr (owns_bounds d))]
  cases v with
  | bounds bv => exact absurd rfl (hv bv)
  | _ => rfl

theorem setField_cbounds (spec : CbSpec ℝ) :
    setField d .cbounds (.cbounds spec) =
      match spec with
      | .pyNone => ({ d with cbounds := none }, none)
      | _ =>
        match (if tableNumeric d.table then setCbounds d.n (lbOf d.table) (hbOf d.table) spec
               else setCboundsNone d.n spec).2 with
        | none => ({ d with cbounds := (if tableNumeric d.table then setCbounds d.n (lbOf d.table) (hbOf d.table) spec
                                        else setCboundsNone d.n spec).1 }, none)
        | some e => (d, some e) := by
  unfold setField; rw [if_neg (not_not.mpr (owns_cbounds d))]
  cases spec <;> rfl

theorem setField_cbounds_bad (hv : ∀ s, v ≠ .cbounds s) : setField d .cbounds v = (d, some .unmodelled) := by
  unfold setField; rw [if_neg (not_not.mpr (owns_cbounds d))]
  cases v with
  | cbounds s => exact absurd rfl (hv s)
  | _ => rfl

theorem setField_rateClip (ho : owns d.cls .rateClip = true) :
    setField d .rateClip v =
      match v with
      | .scalar x => guardSet d { d with rateClip := (some x, some x) } (sClipOk (some x))
      | .pyNone => ({ d with rateClip := (none, none) }, none)
      | .optPair a b => guardSet d { d with rateClip := (a, b) } (sClipOk a && sClipOk b)
      | _ => (d, some .unmodelled) := by
  unfold setField; rw [if_neg (not_not.mpr ho)]
  cases v <;> rfl

theorem setField_costCoeffs (ho : owns d.cls .costCoeffs = true) :
    setField d .costCoeffs v =
      match v with
      | .ndim k rows => guardSet d { d with coeffNdim := some (k, rows) } (decide (k = 1 ∨ (k = 2 ∧ rows = d.n)))
      | _ => (d, some .unmodelled) := by
  unfold setField; rw [if_neg (not_not.mpr ho)]
  cases v <;> rfl
end eqns

/-- **every way an assignment `setattr(device, f, v)` can end**: the state afterwards and the exception. -/
inductive Step (d : Dev ℝ) (f : Field) (v : Val ℝ) : Dev ℝ × Option Err → Prop
  /-- raised, nothing stored -/
  | rejected (e : Err) : Step d f v (d, some e)
  /-- the class has no property of that name: a plain attribute, no validation -/
  | attr (ho : ¬ owns d.cls f = true) : Step d f v ({ d with extra := d.extra ++ [(f, v)] }, none)
  /-- `bounds`: `validate_bounds` returned (and, for a generator, every upper bound is a number `≤ 0`): the table is
  stored; the only exception left is `HyperCube` refusing a width `≠ 2` — **after** the table was stored -/
  | bounds (bv : PyVal ℝ) (w : ℕ) (t : Table ℝ) (e : Option Err) (hf : f = .bounds) (hv : v = .bounds bv)
      (hw : validateBoundsW bv d.n = .ok (w, t))
      (hg : (d.cls = .gdevice ∨ d.cls = .pvdevice) → hbNonpos t = .ok ())
      (he : e = none ↔ w = 2) :
      Step d f v ({ d with table := t }, e)
  | cbNone (hf : f = .cbounds) (hv : v = .cbounds .pyNone) : Step d f v ({ d with cbounds := none }, none)
  /-- `cbounds`: every (implied) 4-tuple passed; they are stored -/
  | cb (spec : CbSpec ℝ) (st : Option (List (CBound4 ℝ))) (hf : f = .cbounds) (hv : v = .cbounds spec)
      (hs : spec ≠ .pyNone)
      (hr : (if tableNumeric d.table then setCbounds d.n (lbOf d.table) (hbOf d.table) spec
             else setCboundsNone d.n spec) = (st, none)) :
      Step d f v ({ d with cbounds := st }, none)
  | c1 (x : ℝ) (hf : f = .c1) (ho : owns d.cls .c1 = true) (hv : v = .scalar x) (hok : sC1Ok x d.c2 = true) :
      Step d f v ({ d with c1 := x }, none)
  | c2 (x : ℝ) (hf : f = .c2) (ho : owns d.cls .c2 = true) (hv : v = .scalar x) (hok : sC2Ok x d.c1 = true) :
      Step d f v ({ d with c2 := x }, none)
  | c3 (x : ℝ) (hf : f = .c3) (ho : owns d.cls .c3 = true) (hv : v = .scalar x) (hok : sC3Ok x = true) :
      Step d f v ({ d with c3 := x }, none)
  | capacity (x : ℝ) (hf : f = .capacity) (ho : owns d.cls .capacity = true) (hv : v = .scalar x) (hok : sCapacityOk x = true) :
      Step d f v ({ d with capacity := x }, none)
  | damageDepth (x : ℝ) (hf : f = .damageDepth) (ho : owns d.cls .damageDepth = true) (hv : v = .scalar x) (hok : sUnitOk x = true) :
      Step d f v ({ d with damageDepth := x }, none)
  | start (x : ℝ) (hf : f = .start) (ho : owns d.cls .start = true) (hv : v = .scalar x) (hok : sUnitOk x = true) :
      Step d f v ({ d with start := x }, none)
  | reserve (x : ℝ) (hf : f = .reserve) (ho : owns d.cls .reserve = true) (hv : v = .scalar x) (hok : sUnitOk x = true) :
      Step d f v ({ d with reserve := x }, none)
  | efficiency (x : ℝ) (hf : f = .efficiency) (ho : owns d.cls .efficiency = true) (hv : v = .scalar x) (hok : sRateOk x = true) :
      Step d f v ({ d with efficiency := x }, none)
  | sustainment (x : ℝ) (hf : f = .sustainment) (ho : owns d.cls .sustainment = true) (hv : v = .scalar x) (hok : sRateOk x = true) :
      Step d f v ({ d with sustainment := x }, none)
  | c (p : PVal ℝ) (hf : f = .c) (ho : owns d.cls .c = true) (hv : asPVal v = some p) (hok : iParamOk p d.n = true) :
      Step d f v ({ d with ic := p }, none)
  | pL (p : PVal ℝ) (hf : f = .pL) (ho : owns d.cls .pL = true) (hv : asPVal v = some p)
      (hsc : scalarIfC2 d.cls p = true) (hok : pLOk p d.ph d.n = true) :
      Step d f v ({ d with pl := p }, none)
  | pH (p : PVal ℝ) (hf : f = .pH) (ho : owns d.cls .pH = true) (hv : asPVal v = some p)
      (hsc : scalarIfC2 d.cls p = true) (hok : pHOk p d.pl d.n = true) :
      Step d f v ({ d with ph := p }, none)
  | aC (x : ℝ) (hf : f = .a) (ho : owns d.cls .a = true) (hc : d.cls = .cdevice) (hv : v = .scalar x)
      (hok : cAOk x = true) : Step d f v ({ d with ca := x }, none)
  | aI (p : PVal ℝ) (hf : f = .a) (ho : owns d.cls .a = true) (hc : ¬ d.cls = .cdevice) (hv : asPVal v = some p)
      (hok : iParamOk p d.n = true) : Step d f v ({ d with ia := p }, none)
  | bC (x : ℝ) (hf : f = .b) (ho : owns d.cls .b = true) (hc : d.cls = .cdevice) (hv : v = .scalar x) :
      Step d f v ({ d with cb := x }, none)
  | bI (p : PVal ℝ) (hf : f = .b) (ho : owns d.cls .b = true) (hc : ¬ d.cls = .cdevice) (hv : asPVal v = some p)
      (hok : iBOk p d.n = true) : Step d f v ({ d with ib := p }, none)
  | rcScalar (x : ℝ) (hf : f = .rateClip) (ho : owns d.cls .rateClip = true) (hv : v = .scalar x)
      (hok : sClipOk (some x) = true) : Step d f v ({ d with rateClip := (some x, some x) }, none)
  | rcNone (hf : f = .rateClip) (ho : owns d.cls .rateClip = true) (hv : v = .pyNone) :
      Step d f v ({ d with rateClip := (none, none) }, none)
  | rcPair (a b : Option ℝ) (hf : f = .rateClip) (ho : owns d.cls .rateClip = true) (hv : v = .optPair a b)
      (hoa : sClipOk a = true) (hob : sClipOk b = true) : Step d f v ({ d with rateClip := (a, b) }, none)
  | coeffs (k rows : ℕ) (hf : f = .costCoeffs) (ho : owns d.cls .costCoeffs = true) (hv : v = .ndim k rows)
      (hok : k = 1 ∨ (k = 2 ∧ rows = d.n)) : Step d f v ({ d with coeffNdim := some (k, rows) }, none)

theorem setField_step (d : Dev ℝ) (f : Field) (v : Val ℝ) : Step d f v (setField d f v) := by
  by_cases ho : owns d.cls f = true
  swap
  · rw [setField_notOwned d v f ho]; exact .attr ho
  cases f with
  | bounds =>
    by_cases hb : ∃ bv, v = .bounds bv
    · obtain ⟨bv, rfl⟩ := hb
      rw [setField_bounds]
      cases hw : validateBoundsW bv d.n with
      | error e => exact .rejected e
      | ok p =>
        obtain ⟨w, t⟩ := p
        simp only
        by_cases hg : d.cls = .gdevice ∨ d.cls = .pvdevice
        · rw [if_pos hg]
          cases hh : hbNonpos t with
          | error e => exact .rejected e
          | ok u =>
            simp only
            by_cases h2 : w ≠ 2
            · rw [if_pos h2]; exact .bounds bv w t _ rfl rfl hw (fun _ => hh) ⟨fun h => (by cases h), fun h => absurd h h2⟩
            · rw [if_neg h2]; exact .bounds bv w t _ rfl rfl hw (fun _ => hh) ⟨fun _ => not_not.mp h2, fun _ => rfl⟩
        · rw [if_neg hg]
          simp only
          by_cases h2 : w ≠ 2
          · rw [if_pos h2]; exact .bounds bv w t _ rfl rfl hw (fun h => absurd h hg) ⟨fun h => (by cases h), fun h => absurd h h2⟩
          · rw [if_neg h2]; exact .bounds bv w t _ rfl rfl hw (fun h => absurd h hg) ⟨fun _ => not_not.mp h2, fun _ => rfl⟩
    · rw [setField_bounds_bad d v (fun bv h => hb ⟨bv, h⟩)]; exact .rejected _
  | cbounds =>
    by_cases hb : ∃ s, v = .cbounds s
    · obtain ⟨spec, rfl⟩ := hb
      rw [setField_cbounds]
      by_cases hs : spec = .pyNone
      · subst hs; exact .cbNone rfl rfl
      · cases spec with
        | pyNone => exact absurd rfl hs
        | _ =>
          simp only
          generalize hr : (if tableNumeric d.table then setCbounds d.n (lbOf d.table) (hbOf d.table) _
            else setCboundsNone d.n _) = r
          obtain ⟨st, e⟩ := r
          cases e with
          | none => exact .cb _ st rfl rfl (by simp) hr
          | some e => exact .rejected e
    · rw [setField_cbounds_bad d v (fun s h => hb ⟨s, h⟩)]; exact .rejected _
  | c1 =>
    rw [setField_c1 d v ho]
    rcases scalarSet_cases d v (fun x => sC1Ok x d.c2) (fun x => { d with c1 := x }) with ⟨e, h⟩ | ⟨x, hv, hok, h⟩ <;> rw [h]
    · exact .rejected e
    · exact .c1 x rfl ho hv hok
  | c2 =>
    rw [setField_c2 d v ho]
    rcases scalarSet_cases d v (fun x => sC2Ok x d.c1) (fun x => { d with c2 := x }) with ⟨e, h⟩ | ⟨x, hv, hok, h⟩ <;> rw [h]
    · exact .rejected e
    · exact .c2 x rfl ho hv hok
  | c3 =>
    rw [setField_c3 d v ho]
    rcases scalarSet_cases d v sC3Ok (fun x => { d with c3 := x }) with ⟨e, h⟩ | ⟨x, hv, hok, h⟩ <;> rw [h]
    · exact .rejected e
    · exact .c3 x rfl ho hv hok
  | capacity =>
    rw [setField_capacity d v ho]
    rcases scalarSet_cases d v sCapacityOk (fun x => { d with capacity := x }) with ⟨e, h⟩ | ⟨x, hv, hok, h⟩ <;> rw [h]
    · exact .rejected e
    · exact .capacity x rfl ho hv hok
  | damageDepth =>
    rw [setField_damageDepth d v ho]
    rcases scalarSet_cases d v sUnitOk (fun x => { d with damageDepth := x }) with ⟨e, h⟩ | ⟨x, hv, hok, h⟩ <;> rw [h]
    · exact .rejected e
    · exact .damageDepth x rfl ho hv hok
  | start =>
    rw [setField_start d v ho]
    rcases scalarSet_cases d v sUnitOk (fun x => { d with start := x }) with ⟨e, h⟩ | ⟨x, hv, hok, h⟩ <;> rw [h]
    · exact .rejected e
    · exact .start x rfl ho hv hok
  | reserve =>
    rw [setField_reserve d v ho]
    rcases scalarSet_cases d v sUnitOk (fun x => { d with reserve := x }) with ⟨e, h⟩ | ⟨x, hv, hok, h⟩ <;> rw [h]
    · exact .rejected e
    · exact .reserve x rfl ho hv hok
  | efficiency =>
    rw [setField_efficiency d v ho]
    rcases scalarSet_cases d v sRateOk (fun x => { d with efficiency := x }) with ⟨e, h⟩ | ⟨x, hv, hok, h⟩ <;> rw [h]
    · exact .rejected e
    · exact .efficiency x rfl ho hv hok
  | sustainment =>
    rw [setField_sustainment d v ho]
    rcases scalarSet_cases d v sRateOk (fun x => { d with sustainment := x }) with ⟨e, h⟩ | ⟨x, hv, hok, h⟩ <;> rw [h]
    · exact .rejected e
    · exact .sustainment x rfl ho hv hok
  | c =>
    rw [setField_c d v ho]
    rcases pvalSet_cases d v (fun p => iParamOk p d.n) (fun p => { d with ic := p }) with ⟨e, h⟩ | ⟨p, hv, hok, h⟩ <;> rw [h]
    · exact .rejected e
    · exact .c p rfl ho hv hok
  | pL =>
    rw [setField_pL d v ho]
    rcases pvalSet_cases d v (fun p => scalarIfC2 d.cls p && pLOk p d.ph d.n) (fun p => { d with pl := p }) with ⟨e, h⟩ | ⟨p, hv, hok, h⟩ <;> rw [h]
    · exact .rejected e
    · rw [Bool.and_eq_true] at hok; exact .pL p rfl ho hv hok.1 hok.2
  | pH =>
    rw [setField_pH d v ho]
    rcases pvalSet_cases d v (fun p => scalarIfC2 d.cls p && pHOk p d.pl d.n) (fun p => { d with ph := p }) with ⟨e, h⟩ | ⟨p, hv, hok, h⟩ <;> rw [h]
    · exact .rejected e
    · rw [Bool.and_eq_true] at hok; exact .pH p rfl ho hv hok.1 hok.2
  | a =>
    by_cases hc : d.cls = .cdevice
    · rw [setField_a_c d v ho hc]
      rcases scalarSet_cases d v cAOk (fun x => { d with ca := x }) with ⟨e, h⟩ | ⟨x, hv, hok, h⟩ <;> rw [h]
      · exact .rejected e
      · exact .aC x rfl ho hc hv hok
    · rw [setField_a_i d v ho hc]
      rcases pvalSet_cases d v (fun p => iParamOk p d.n) (fun p => { d with ia := p }) with ⟨e, h⟩ | ⟨p, hv, hok, h⟩ <;> rw [h]
      · exact .rejected e
      · exact .aI p rfl ho hc hv hok
  | b =>
    by_cases hc : d.cls = .cdevice
    · rw [setField_b_c d v ho hc]
      rcases scalarSet_cases d v (fun _ => true) (fun x => { d with cb := x }) with ⟨e, h⟩ | ⟨x, hv, hok, h⟩ <;> rw [h]
      · exact .rejected e
      · exact .bC x rfl ho hc hv
    · rw [setField_b_i d v ho hc]
      rcases pvalSet_cases d v (fun p => iBOk p d.n) (fun p => { d with ib := p }) with ⟨e, h⟩ | ⟨p, hv, hok, h⟩ <;> rw [h]
      · exact .rejected e
      · exact .bI p rfl ho hc hv hok
  | rateClip =>
    rw [setField_rateClip d v ho]
    cases v with
    | scalar x =>
      simp only
      rcases guardSet_fst d { d with rateClip := (some x, some x) } (sClipOk (some x)) with ⟨h, _⟩ | ⟨h, hok⟩ <;> rw [h]
      · exact .rejected _
      · exact .rcScalar x rfl ho rfl hok
    | pyNone => exact .rcNone rfl ho rfl
    | optPair a b =>
      simp only
      rcases guardSet_fst d { d with rateClip := (a, b) } (sClipOk a && sClipOk b) with ⟨h, _⟩ | ⟨h, hok⟩ <;> rw [h]
      · exact .rejected _
      · rw [Bool.and_eq_true] at hok
        exact .rcPair a b rfl ho rfl hok.1 hok.2
    | vec _ => exact .rejected _
    | ndim _ _ => exact .rejected _
    | bounds _ => exact .rejected _
    | cbounds _ => exact .rejected _
  | costCoeffs =>
    rw [setField_costCoeffs d v ho]
    cases v with
    | ndim k rows =>
      simp only
      rcases guardSet_fst d { d with coeffNdim := some (k, rows) } (decide (k = 1 ∨ (k = 2 ∧ rows = d.n))) with ⟨h, _⟩ | ⟨h, hok⟩ <;> rw [h]
      · exact .rejected _
      · exact .coeffs k rows rfl ho rfl (by simpa using hok)
    | scalar _ => exact .rejected _
    | vec _ => exact .rejected _
    | pyNone => exact .rejected _
    | optPair _ _ => exact .rejected _
    | bounds _ => exact .rejected _
    | cbounds _ => exact .rejected _

end DK.C11
