import DK.Props.C02
/-!
# C13 — row labelling: `map()` pairs each flow row with the leaf that owns it

The label theorems are proved in `DK/Props/C02.lean` (they share the block enumeration
`t.blocks` and the tiling lemmas with the composition theorems); this module re-exports them
under `DK.C13` so that C13 has its own module and list of proof obligations.

`t.blocks "" 0` enumerates (dot-joined ancestor ids, absolute row offset, block) in row order;
`WF t` says every block carries one label per row (true for the shipped blocks: `ofLeaf_labels`,
`ofMF_labels`).
-/
namespace DK.C13
open DK DK.C02

/-- one label per flow-matrix row. -/
theorem labels_length (t : Tree ℝ) (h : WF t) : (t.labels "").length = t.rows :=
  DK.C02.labels_length t h

/-- the label of row `off + r` is the dot-joined ancestor ids followed by the owning block's own label. -/
theorem label_get (t : Tree ℝ) (h : WF t) (x : BlockAt) (hx : x ∈ t.blocks "" 0) (r : ℕ) (hr : r < x.b.rows) :
    (t.labels "")[x.off + r]? = some (x.pre ++ x.b.labels.getD r "") :=
  DK.C02.label_get t h x hx r hr

/-- `map` pairs that label with exactly the row the owning block's cost / bounds / constraints read
(`C02.cost_eq_sum_blocks`, `deriv_block`, `bounds_block`, `cons_sat_iff` all read `shiftRows x.off S`). -/
theorem mapRows_get (t : Tree ℝ) (h : WF t) (S : Mat ℝ) (x : BlockAt) (hx : x ∈ t.blocks "" 0) (r : ℕ) (hr : r < x.b.rows) :
    (t.mapRows S)[x.off + r]? = some (x.pre ++ x.b.labels.getD r "", shiftRows x.off S r) :=
  DK.C02.mapRows_get t h S x hx r hr

/-- every row has exactly one owner (so the pairing above covers every row, once). -/
theorem row_owner (t : Tree ℝ) (pre : String) (r : ℕ) (hr : r < t.rows) :
    ∃ x : BlockAt, x ∈ t.blocks pre 0 ∧ x.off ≤ r ∧ r < x.off + x.b.rows :=
  DK.C02.row_owner t pre r hr

theorem row_owner_unique (t : Tree ℝ) (pre : String) (r : ℕ) (x y : BlockAt)
    (hx : x ∈ t.blocks pre 0) (hy : y ∈ t.blocks pre 0)
    (hxr : x.off ≤ r ∧ r < x.off + x.b.rows) (hyr : y.off ≤ r ∧ r < y.off + y.b.rows) : x = y :=
  DK.C02.row_owner_unique t pre r x y hx hy hxr hyr

/-- shipped blocks: an atomic device is labelled by its id, an adaptor by `id.flow` per conduit. -/
theorem ofLeaf_labels (id : String) (d : Leaf ℝ) (cs : List (Con ℝ)) :
    (Block.ofLeaf id d cs).labels = [id] ∧ (Block.ofLeaf id d cs).rows = 1 :=
  DK.C02.ofLeaf_labels id d cs

theorem ofMF_labels (id : String) (d : Leaf ℝ) (cs : List (Con ℝ)) (flows : List String) (ra : Option (Bool × ℝ × ℝ)) :
    (Block.ofMF id d cs flows ra).labels = flows.map (fun f => id ++ "." ++ f) ∧
    (Block.ofMF id d cs flows ra).rows = flows.length :=
  DK.C02.ofMF_labels id d cs flows ra

/-- non-vacuity (same instance as in C02): a well-formed two-level tree with a nested 3-row block at offset 2. -/
example : WF exTree ∧ ∃ x : BlockAt, x ∈ exTree.blocks "" 0 ∧ ∃ r, r < x.b.rows ∧ 0 < x.off ∧ 0 < r :=
  ⟨exTree_WF, _, exTree_mem, 1, by simp [BlockAt.b, exBlock], by simp [BlockAt.off], by omega⟩

example : (exTree.mapRows (fun r i => (r : ℝ) + i))[2 + 1]? =
    some ("" ++ "a" ++ "." ++ "b" ++ "." ++ (exBlock 3 2).labels.getD 1 "", shiftRows 2 (fun r i => (r : ℝ) + i) 1) :=
  mapRows_get exTree exTree_WF _ _ exTree_mem 1 (by simp [BlockAt.b, exBlock])

end DK.C13
