import DK.Props.Defs
import DK.Props.C02
import DK.Lemmas.ConsJac
/-!
# C06 — every supplied constraint Jacobian is the gradient of its constraint function

For every constraint the model exports with a Jacobian — cumulative bounds (`deviceCons`), storage
(`sdeviceCons`: state of charge ≥ 0, ≤ capacity, reserve), a set's aggregate bounds (`sboundCons`),
the two-ratio closure (`ratioCon`), a wrapped device's constraint tiled over conduits
(`Con.overConduits`), a leaf constraint seen as a one-row matrix constraint (`Con.toM`), and the
zero-padded re-wrapping by a parent set (`MCon.lift`) — the Jacobian evaluated at any flow is the
gradient of the function with respect to *all* `n` (resp. `R·n`) flow variables (`IsGradAt` /
`IsMGradAt`: the derivative along every direction is `Σ jac_k · d_k`), and it is zero on the
variables the function does not read (`…_jac_support`).

Cumulative-bound, aggregate-bound and ratio constraints are affine, so for them the stronger exact
statement `fn x' − fn x = Σ jac_k (x'_k − x_k)` is proved (`…_jac_affine`) and the gradient follows.
Lossy storage (`efficiency ≠ 1`) has a kink where a slot changes between charging and discharging:
its statements carry `efficiency = 1 ∨ ∀ k < n, x k ≠ 0`, exactly the property's
"away from the charge/discharge kink" (and an exact affine statement between two flows with the same
charge/discharge pattern).

`tree_cons_isMGrad` puts the pieces together: for every tree (any depth, fan-out, row counts), if
every block's Jacobians are gradients on the block's own rows then every constraint of the whole
tree has a Jacobian that is the gradient with respect to all `rows × n` variables of the tree.
-/
namespace DK.C06
open DK DK.ConsJac

/-- the Jacobian `c` supplies (if it supplies one) is the gradient of `c.fn` at `x` over `n` slots. -/
def JacOK (n : ℕ) (c : Con ℝ) (x : ℕ → ℝ) : Prop :=
  ∀ j, c.jac = some j → IsGradAt n c.fn (j x) x

/-- matrix version: gradient with respect to all `R × n` variables. -/
def MJacOK (R n : ℕ) (c : MCon ℝ) (S : Mat ℝ) : Prop :=
  ∀ j, c.jac = some j → IsMGradAt R n c.fn (j S) S

/-- exactly affine with the supplied Jacobian as slope. -/
def JacAffine (n : ℕ) (c : Con ℝ) : Prop :=
  ∃ j, c.jac = some j ∧ ∀ x x', c.fn x' - c.fn x = sumTo n (fun k => j x k * (x' k - x k))

def MJacAffine (R n : ℕ) (c : MCon ℝ) : Prop :=
  ∃ j, c.jac = some j ∧ ∀ S S', c.fn S' - c.fn S =
    sumTo R (fun r => sumTo n (fun i => j S r i * (S' r i - S r i)))

theorem JacAffine.ok {n : ℕ} {c : Con ℝ} (h : JacAffine n c) (x : ℕ → ℝ) : JacOK n c x := by
  obtain ⟨j, hj, ha⟩ := h
  intro j' hj'
  rw [hj] at hj'; cases hj'
  exact isGradAt_of_affine n c.fn (j x) x (ha x)

theorem MJacAffine.ok {R n : ℕ} {c : MCon ℝ} (h : MJacAffine R n c) (S : Mat ℝ) : MJacOK R n c S := by
  obtain ⟨j, hj, ha⟩ := h
  intro j' hj'
  rw [hj] at hj'; cases hj'
  exact isMGradAt_of_affine R n c.fn (j S) S (ha S)

/-! ## cumulative bounds (`Device.constraints`) -/

theorem sliceSum_eq_masked (n s e : ℕ) (x : ℕ → ℝ) :
    sliceSum n s e x = sumTo n (fun k => (inRange s e k : ℝ) * x k) := by
  unfold sliceSum
  rw [sumRange_eq_sumTo_ite n s (min e n) (Nat.min_le_right e n)]
  refine sumTo_congr (fun k hk => ?_)
  unfold inRange
  have : (s ≤ k ∧ k < min e n) ↔ (s ≤ k ∧ k < e) := by omega
  by_cases h : s ≤ k ∧ k < e
  · rw [if_pos (this.mpr h), if_pos h]; ring
  · rw [if_neg (fun h' => h (this.mp h')), if_neg h]; ring

/-- both closures of a cumulative bound are exactly affine with the supplied Jacobian. -/
theorem cbound_jac_affine (n : ℕ) (cb : CBound ℝ) : ∀ c ∈ cboundCons n cb, JacAffine n c := by
  intro c hc
  simp only [cboundCons, List.mem_cons, List.not_mem_nil, or_false] at hc
  rcases hc with rfl | rfl
  · refine ⟨_, rfl, fun x x' => ?_⟩
    simp only [sliceSum_eq_masked]
    rw [sub_sub_sub_cancel_right, ← sumTo_sub]
    exact sumTo_congr (fun k _ => by ring)
  · refine ⟨_, rfl, fun x x' => ?_⟩
    simp only [sliceSum_eq_masked]
    rw [sub_sub_sub_cancel_left, ← sumTo_sub]
    exact sumTo_congr (fun k _ => by ring)

/-- **Device**: every constraint of every cumulative-bound list has a Jacobian and is affine in it. -/
theorem device_jac_affine (n : ℕ) (cbs : List (CBound ℝ)) : ∀ c ∈ deviceCons n cbs, JacAffine n c := by
  intro c hc
  obtain ⟨cb, _, hc'⟩ := List.mem_flatMap.mp hc
  exact cbound_jac_affine n cb c hc'

/-- … hence the Jacobian is the gradient, at every flow. -/
theorem device_jac_isGrad (n : ℕ) (cbs : List (CBound ℝ)) (x : ℕ → ℝ) :
    ∀ c ∈ deviceCons n cbs, JacOK n c x :=
  fun c hc => (device_jac_affine n cbs c hc).ok x

/-- … and is zero outside the bound's own slot range. -/
theorem cbound_jac_support (n : ℕ) (cb : CBound ℝ) (c : Con ℝ) (hc : c ∈ cboundCons n cb)
    (j : (ℕ → ℝ) → ℕ → ℝ) (hj : c.jac = some j) (x : ℕ → ℝ) (k : ℕ) (hk : k < cb.s ∨ cb.e ≤ k) :
    j x k = 0 := by
  simp only [cboundCons, List.mem_cons, List.not_mem_nil, or_false] at hc
  have hz : (inRange cb.s cb.e k : ℝ) = 0 := by
    unfold inRange; rw [if_neg (by omega)]
  rcases hc with rfl | rfl <;> (simp only [Option.some.injEq] at hj; subst hj; simp [hz])

/-- non-vacuity: the bound `(1, 4)` over slots `[1, 3)` of 4: Jacobian `(0, 1, 1, 0)` / its negative. -/
example : ∃ c ∈ deviceCons 4 [⟨1, 4, 1, 3⟩], ∃ j, c.jac = some j ∧
    j (fun _ => 0) 0 = 0 ∧ j (fun _ => 0) 1 = 1 ∧ j (fun _ => 0) 2 = 1 ∧ j (fun _ => 0) 3 = (0:ℝ) := by
  refine ⟨_, List.mem_flatMap.mpr ⟨_, List.mem_singleton_self _, List.mem_cons_self⟩, _, rfl, ?_⟩
  simp [inRange]

/-! ## storage (`SDevice.constraints`) -/

/-- the condition of the property: no slot sits on the charge/discharge kink (no kink if lossless). -/
def NoKinkS (n : ℕ) (q : SParams ℝ) (x : ℕ → ℝ) : Prop := q.efficiency = 1 ∨ ∀ k < n, x k ≠ 0

theorem neg_isGradAt {n : ℕ} {f : (ℕ → ℝ) → ℝ} {g x : ℕ → ℝ} (c : ℝ) (h : IsGradAt n f g x) :
    IsGradAt n (fun r => c - f r) (fun k => (-1 : ℝ) * g k) x := by
  intro d
  refine HasDerivAt.congr_deriv ((h d).const_sub c) ?_
  rw [← sumTo_neg]
  exact sumTo_congr (fun k _ => by ring)

theorem sub_const_isGradAt {n : ℕ} {f : (ℕ → ℝ) → ℝ} {g x : ℕ → ℝ} (c : ℝ) (h : IsGradAt n f g x) :
    IsGradAt n (fun r => f r - c) g x := fun d => (h d).sub_const c

theorem socCons_jac_isGrad (n : ℕ) (q : SParams ℝ) (x : ℕ → ℝ) (hk : NoKinkS n q x) (i : ℕ) :
    ∀ c ∈ socCons n q i, JacOK n c x := by
  intro c hc j hj
  simp only [socCons, List.mem_cons, List.not_mem_nil, or_false] at hc
  rcases hc with rfl | rfl <;> (simp only [Option.some.injEq] at hj; subst hj)
  · exact socDot_isGradAt n q x i hk
  · exact neg_isGradAt q.capacity (socDot_isGradAt n q x i hk)

theorem reserve_jac_isGrad (n : ℕ) (q : SParams ℝ) (x : ℕ → ℝ) (hk : NoKinkS n q x) :
    JacOK n (reserveCon n q) x := by
  intro j hj
  simp only [reserveCon, Option.some.injEq] at hj; subst hj
  exact sub_const_isGradAt _ (socDot_isGradAt n q x (n - 1) hk)

/-- **SDevice**: every constraint of the storage list that supplies a Jacobian (cumulative bounds,
state of charge ≥ 0 and ≤ capacity per slot, reserve) has the gradient as Jacobian, away from the kink.
(The rate-clip constraints supply none: `clip_no_jac`.) -/
theorem sdevice_jac_isGrad (n : ℕ) (cbs : List (CBound ℝ)) (q : SParams ℝ) (lb hb : ℕ → ℝ)
    (clipLo clipHi : Option ℝ) (x : ℕ → ℝ) (hk : NoKinkS n q x) :
    ∀ c ∈ sdeviceCons n cbs q lb hb clipLo clipHi, JacOK n c x := by
  intro c hc
  unfold sdeviceCons at hc
  simp only [List.mem_append, List.mem_singleton] at hc
  rcases hc with (((hc | hc) | hc) | hc) | rfl
  · exact device_jac_isGrad n cbs x c hc
  · obtain ⟨i, _, hc'⟩ := List.mem_flatMap.mp hc
    exact socCons_jac_isGrad n q x hk i c hc'
  · cases clipLo with
    | none => simp at hc
    | some a =>
      obtain ⟨i, _, rfl⟩ := List.mem_map.mp hc
      intro j hj; simp [clipLoCon] at hj
  · cases clipHi with
    | none => simp at hc
    | some a =>
      obtain ⟨i, _, rfl⟩ := List.mem_map.mp hc
      intro j hj; simp [clipHiCon] at hj
  · exact reserve_jac_isGrad n q x hk

theorem clip_no_jac (n : ℕ) (q : SParams ℝ) (b : ℕ → ℝ) (c : ℝ) (i : ℕ) :
    (clipLoCon n q b c i).jac = none ∧ (clipHiCon n q b c i).jac = none := ⟨rfl, rfl⟩

/-- the state-of-charge Jacobian row `i` is zero on the later slots `j > i` (which slot `i`'s state
does not depend on). -/
theorem soc_jac_support (q : SParams ℝ) (x : ℕ → ℝ) (i j : ℕ) (h : i < j) : socJac q x i j = 0 := by
  unfold socJac; rw [susW_of_lt _ h]; ring

/-- exact increments between two flows with the same charge/discharge pattern (all flows if lossless). -/
theorem soc_jac_affine (n : ℕ) (q : SParams ℝ) (x x' : ℕ → ℝ) (i : ℕ)
    (hs : ∀ k < n, effPow q.efficiency (x' k) = effPow q.efficiency (x k)) :
    ∀ c ∈ socCons n q i ++ [reserveCon n q], ∃ j, c.jac = some j ∧
      c.fn x' - c.fn x = sumTo n (fun k => j x k * (x' k - x k)) := by
  intro c hc
  simp only [socCons, List.cons_append, List.nil_append, List.mem_cons, List.not_mem_nil, or_false] at hc
  rcases hc with rfl | rfl | rfl
  · exact ⟨_, rfl, socDot_affine n q x x' i hs⟩
  · refine ⟨_, rfl, ?_⟩
    have := socDot_affine n q x x' i hs
    simp only
    rw [sub_sub_sub_cancel_left, ← neg_sub, this, ← sumTo_neg]
    exact sumTo_congr (fun k _ => by ring)
  · refine ⟨_, rfl, ?_⟩
    simp only [reserveCon]
    rw [sub_sub_sub_cancel_right]
    exact socDot_affine n q x x' (n - 1) hs

theorem same_pattern_of_lossless (q : SParams ℝ) (h : q.efficiency = 1) (a b : ℝ) :
    effPow q.efficiency a = effPow q.efficiency b := by rw [h, effPow_one, effPow_one]

theorem same_pattern_of_sign (e a b : ℝ) (h : (0 < a ↔ 0 < b) ∧ (a < 0 ↔ b < 0)) :
    effPow e a = effPow e b := by
  unfold effPow
  by_cases h1 : 0 < a
  · rw [if_pos h1, if_pos (h.1.mp h1)]
  · rw [if_neg h1, if_neg (fun hb => h1 (h.1.mpr hb))]
    by_cases h2 : a < 0
    · rw [if_pos h2, if_pos (h.2.mp h2)]
    · rw [if_neg h2, if_neg (fun hb => h2 (h.2.mpr hb))]

/-- non-vacuity of the kink condition with a lossy device: efficiency 1/2, flow `(1, −1)`. -/
example : ∃ (q : SParams ℝ) (x : ℕ → ℝ), q.efficiency ≠ 1 ∧ NoKinkS 2 q x :=
  ⟨⟨1, 0, 0, 4, 0, 1/2, 0, 1/2, 1⟩, fun k => if k = 0 then 1 else -1, by norm_num,
   Or.inr (fun k _ => by by_cases h : k = 0 <;> simp [h])⟩

/-! ## the whole constraint list of a shipped leaf -/

/-- **every atomic class**: all Jacobians of `Leaf.cons` are gradients, given that the (opaque) user
constraints' are, and away from the kink for storage. -/
theorem leaf_jac_isGrad (d : Leaf ℝ) (clipLo clipHi : Option ℝ) (extra : List (Con ℝ)) (x : ℕ → ℝ)
    (hk : ∀ q, d.kind = .sdevice q → NoKinkS d.n q x) (hu : ∀ u ∈ extra, JacOK d.n u x) :
    ∀ c ∈ d.cons clipLo clipHi extra, JacOK d.n c x := by
  unfold Leaf.cons
  cases hkind : d.kind with
  | sdevice q => exact sdevice_jac_isGrad d.n d.cbs q d.lb d.hb clipLo clipHi x (hk q hkind)
  | adevice f =>
    intro c hc
    rcases List.mem_append.mp hc with h | h
    · exact device_jac_isGrad d.n d.cbs x c h
    · exact hu c h
  | _ => exact device_jac_isGrad d.n d.cbs x

/-! ## a leaf constraint as a one-row matrix constraint (`Block.ofLeaf`) -/

theorem toM_isMGrad (n : ℕ) (c : Con ℝ) (S : Mat ℝ) (h : JacOK n c (S 0)) : MJacOK 1 n c.toM S := by
  intro j' hj'
  cases hj : c.jac with
  | none => simp [Con.toM, hj] at hj'
  | some j =>
    simp only [Con.toM, hj, Option.map_some, Option.some.injEq] at hj'
    subst hj'
    intro D
    have := h j hj (D 0)
    refine HasDerivAt.congr_deriv this ?_
    rw [sumTo_one]
    exact sumTo_congr (fun i _ => by simp)

theorem toM_jac_support (c : Con ℝ) (j' : Mat ℝ → ℕ → ℕ → ℝ) (hj' : c.toM.jac = some j')
    (S : Mat ℝ) (r i : ℕ) (hr : r ≠ 0) : j' S r i = 0 := by
  cases hj : c.jac with
  | none => simp [Con.toM, hj] at hj'
  | some j =>
    simp only [Con.toM, hj, Option.map_some, Option.some.injEq] at hj'
    subst hj'
    simp [hr]

/-! ## a wrapped device's constraint over `k` conduits (`MFDeviceSet.constraints`) -/

/-- the Jacobian of the wrapped constraint is *tiled*: conduit `r`, slot `i` gets the wrapped
Jacobian's entry `i` (evaluated at the column sum) — not entry `(r·n + i) / k` as a `repeat` would. -/
theorem overConduits_jac_tiled (k : ℕ) (c : Con ℝ) (j : (ℕ → ℝ) → ℕ → ℝ) (hj : c.jac = some j) :
    ∃ j', (c.overConduits k).jac = some j' ∧
      ∀ S r i, j' S r i = if r < k then j (colSum k S) i else 0 :=
  ⟨_, by simp only [Con.overConduits, hj, Option.map_some], fun _ _ _ => rfl⟩

theorem overConduits_isMGrad (k n : ℕ) (c : Con ℝ) (S : Mat ℝ) (h : JacOK n c (colSum k S)) :
    MJacOK k n (c.overConduits k) S := by
  intro j' hj'
  cases hj : c.jac with
  | none => simp [Con.overConduits, hj] at hj'
  | some j =>
    simp only [Con.overConduits, hj, Option.map_some, Option.some.injEq] at hj'
    subst hj'
    intro D
    have := h j hj (colSum k D)
    have e : (fun τ => (Con.overConduits k c).fn fun r i => S r i + τ * D r i) =
        fun τ => c.fn (line (colSum k S) (colSum k D) τ) := by
      funext τ; simp only [Con.overConduits, colSum_line]
    rw [e]
    refine HasDerivAt.congr_deriv this ?_
    exact tile_sum k n (j (colSum k S)) D

/-- non-vacuity: wrapping the cumulative bound over slots `[0,2)` of 2 into 3 conduits. -/
example : ∃ c : Con ℝ, ∃ j, c.jac = some j ∧ ∀ S : Mat ℝ, JacOK 2 c (colSum 3 S) :=
  ⟨_, _, rfl, fun S => device_jac_isGrad 2 [⟨0, 1, 0, 2⟩] (colSum 3 S) _
    (List.mem_flatMap.mpr ⟨_, List.mem_singleton_self _, List.mem_cons_self⟩)⟩

/-! ## a set's aggregate bounds (`DeviceSet.constraints`, `zmm(..., axis=1)`) -/

theorem colSum_masked (R n i : ℕ) (hi : i < n) (v : ℝ) (D : Mat ℝ) :
    sumTo R (fun r => sumTo n (fun k => (if r < R ∧ k = i then v else 0) * D r k)) = v * colSum R D i := by
  have : sumTo R (fun r => sumTo n (fun k => (if r < R ∧ k = i then v else 0) * D r k)) =
      sumTo R (fun r => sumTo n (fun k => (if k = i then v else 0) * D r k)) :=
    sumTo_congr (fun r hr => sumTo_congr (fun k _ => by simp [hr]))
  rw [this, sum_col R n i hi (fun _ => v) D]
  simp only [colSum]; rw [sumTo_mul_left]

theorem sbound_jac_affine (R n : ℕ) (sb : ℕ → ℝ × ℝ) (i : ℕ) (hi : i < n) :
    ∀ c ∈ sboundCons R sb i, MJacAffine R n c := by
  intro c hc
  unfold sboundCons at hc
  split_ifs at hc
  all_goals
    simp only [List.mem_cons, List.not_mem_nil, or_false] at hc
  · subst hc
    refine ⟨_, rfl, fun S S' => ?_⟩
    simp only
    rw [colSum_masked R n i hi 1 (fun r k => S' r k - S r k), sub_sub_sub_cancel_right, colSum_sub]
    simp [colSum]
  · rcases hc with rfl | rfl
    · refine ⟨_, rfl, fun S S' => ?_⟩
      simp only
      rw [colSum_masked R n i hi 1 (fun r k => S' r k - S r k), sub_sub_sub_cancel_right, colSum_sub]
      simp [colSum]
    · refine ⟨_, rfl, fun S S' => ?_⟩
      simp only
      rw [colSum_masked R n i hi (-1) (fun r k => S' r k - S r k), sub_sub_sub_cancel_left, ← neg_sub,
        colSum_sub]
      simp [colSum]

/-- zero outside the `R` rows of the set and outside slot `i`. -/
theorem sbound_jac_support (R : ℕ) (sb : ℕ → ℝ × ℝ) (i : ℕ) (c : MCon ℝ) (hc : c ∈ sboundCons R sb i)
    (j : Mat ℝ → ℕ → ℕ → ℝ) (hj : c.jac = some j) (S : Mat ℝ) (r k : ℕ) (h : R ≤ r ∨ k ≠ i) :
    j S r k = 0 := by
  have hn : ¬ (r < R ∧ k = i) := by omega
  unfold sboundCons at hc
  split_ifs at hc
  all_goals
    simp only [List.mem_cons, List.not_mem_nil, or_false] at hc
  · subst hc
    simp only [Option.some.injEq] at hj; subst hj; simp [hn]
  · rcases hc with rfl | rfl <;> (simp only [Option.some.injEq] at hj; subst hj; simp [hn])

/-! ## the two-ratio closure (`TwoRatioMFDeviceSet.constraints`) -/

theorem ratio_jac_affine (R n : ℕ) (hR : 2 ≤ R) (e : Bool) (r0 r1 : ℝ) (i : ℕ) (hi : i < n) :
    MJacAffine R n (ratioCon e r0 r1 i) := by
  refine ⟨_, rfl, fun S S' => ?_⟩
  simp only [ratioCon]
  have h1 : sumTo R (fun r => sumTo n (fun k =>
        (if k = i then (if r = 0 then r0 else if r = 1 then -r1 else 0) else 0) * (S' r k - S r k))) =
      sumTo R (fun r => (if r = 0 then r0 else if r = 1 then -r1 else 0) * (S' r i - S r i)) :=
    sum_col R n i hi (fun r => if r = 0 then r0 else if r = 1 then -r1 else 0) (fun r k => S' r k - S r k)
  rw [h1, sumTo_split R 2 hR]
  have h2 : sumTo (R - 2) (fun r => (if 2 + r = 0 then r0 else if 2 + r = 1 then -r1 else 0) *
      (S' (2 + r) i - S (2 + r) i)) = 0 := by
    rw [sumTo_congr (g := fun _ => (0:ℝ))]
    · exact sumTo_zero_fn _
    · intro r _
      rw [if_neg (by omega), if_neg (by omega)]; ring
  rw [h2]
  simp [sumTo]
  ring

/-- zero outside conduits 0 and 1 and outside slot `i`; the two live entries are `r0` and `−r1`. -/
theorem ratio_jac_support (e : Bool) (r0 r1 : ℝ) (i : ℕ) (S : Mat ℝ) :
    ∃ j, (ratioCon e r0 r1 i).jac = some j ∧ j S 0 i = r0 ∧ j S 1 i = -r1 ∧
      ∀ r k, (2 ≤ r ∨ k ≠ i) → j S r k = 0 := by
  refine ⟨_, rfl, by simp, by simp, ?_⟩
  intro r k h
  by_cases hk : k = i
  · have : 2 ≤ r := by omega
    simp only [hk, if_true]
    rw [if_neg (by omega), if_neg (by omega)]
  · simp [hk]

/-! ## re-wrapping by a parent set (`zmm` over rows) — re-exported from C02 -/

theorem lift_isMGrad (R n off rows : ℕ) (hR : off + rows ≤ R) (c : MCon ℝ) (j : Mat ℝ → ℕ → ℕ → ℝ)
    (hj : c.jac = some j) (S : Mat ℝ)
    (hg : IsMGradAt rows n c.fn (j (shiftRows off S)) (shiftRows off S)) :
    ∃ j', (c.lift off rows).jac = some j' ∧ IsMGradAt R n (c.lift off rows).fn (j' S) S :=
  C02.lift_isMGrad R n off rows hR c j hj S hg

theorem lift_jac_support (off rows : ℕ) (c : MCon ℝ) (j : Mat ℝ → ℕ → ℕ → ℝ) (hj : c.jac = some j)
    (S : Mat ℝ) (r i : ℕ) (hr : r < off ∨ off + rows ≤ r) :
    ∃ j', (c.lift off rows).jac = some j' ∧ j' S r i = 0 :=
  C02.lift_jac_support off rows c j hj S r i hr

/-- re-wrapping preserves "the Jacobian is the gradient". -/
theorem lift_ok (R n off rows : ℕ) (hR : off + rows ≤ R) (c : MCon ℝ) (S : Mat ℝ)
    (h : MJacOK rows n c (shiftRows off S)) : MJacOK R n (c.lift off rows) S := by
  intro j' hj'
  cases hj : c.jac with
  | none => simp [MCon.lift, hj] at hj'
  | some j =>
    obtain ⟨j'', hj'', hg⟩ := C02.lift_isMGrad R n off rows hR c j hj S (h j hj)
    rw [hj''] at hj'; cases hj'
    exact hg

/-! ## a set's own constraints, shipped blocks, whole trees -/

theorem ownCons_isMGrad (n R : ℕ) (own : NodeSpec ℝ) (labels : List String) (S : Mat ℝ) :
    ∀ c ∈ ownCons n R own labels, MJacOK R n c S := by
  intro c hc
  unfold ownCons at hc
  rcases List.mem_append.mp hc with h | h
  · cases hsb : own.sbounds with
    | none => simp [hsb] at h
    | some sb =>
      simp only [hsb] at h
      obtain ⟨i, hi, hc'⟩ := List.mem_flatMap.mp h
      exact (sbound_jac_affine R n sb i (List.mem_range.mp hi) c hc').ok S
  · obtain ⟨rows, _, hc'⟩ := List.mem_flatMap.mp h
    obtain ⟨i, _, rfl⟩ := List.mem_map.mp hc'
    intro j hj; simp [balanceCon] at hj

/-- **atomic device as a block**: one row, `n` slots. -/
theorem ofLeaf_isMGrad (id : String) (d : Leaf ℝ) (cons : List (Con ℝ)) (S : Mat ℝ)
    (h : ∀ c ∈ cons, JacOK d.n c (S 0)) : ∀ c ∈ (Block.ofLeaf id d cons).cons, MJacOK 1 d.n c S := by
  intro c hc
  obtain ⟨c0, hc0, rfl⟩ := List.mem_map.mp hc
  exact toM_isMGrad d.n c0 S (h c0 hc0)

/-- **multi-flow adaptor as a block**: `k = flows.length` rows; conduit-sum bounds, the wrapped
device's constraints tiled over the conduits, and the ratio closures (which need `k ≥ 2`; the code
only accepts `k = 2`). -/
theorem ofMF_isMGrad (id : String) (d : Leaf ℝ) (cons : List (Con ℝ)) (flows : List String)
    (ratio : Option (Bool × ℝ × ℝ)) (hr : ratio.isSome → 2 ≤ flows.length) (S : Mat ℝ)
    (h : ∀ c ∈ cons, JacOK d.n c (colSum flows.length S)) :
    ∀ c ∈ (Block.ofMF id d cons flows ratio).cons, MJacOK flows.length d.n c S := by
  intro c hc
  simp only [Block.ofMF, List.mem_append] at hc
  rcases hc with (hc | hc) | hc
  · obtain ⟨i, hi, hc'⟩ := List.mem_flatMap.mp hc
    exact (sbound_jac_affine flows.length d.n _ i (List.mem_range.mp hi) c hc').ok S
  · obtain ⟨c0, hc0, rfl⟩ := List.mem_map.mp hc
    exact overConduits_isMGrad flows.length d.n c0 S (h c0 hc0)
  · cases ratio with
    | none => simp at hc
    | some t =>
      obtain ⟨e, r0, r1⟩ := t
      obtain ⟨i, hi, rfl⟩ := List.mem_map.mp hc
      exact (ratio_jac_affine flows.length d.n (hr rfl) e r0 r1 i (List.mem_range.mp hi)).ok S

mutual
theorem Tree.cons_ok (n : ℕ) (pre : String) (off : ℕ) (S : Mat ℝ) :
    (t : Tree ℝ) →
      (∀ x ∈ t.blocks pre off, ∀ c ∈ x.2.2.cons, MJacOK x.2.2.rows n c (shiftRows x.2.1 S)) →
      ∀ c ∈ t.cons n, MJacOK t.rows n c (shiftRows off S)
  | .block b, h => by
    simpa [Tree.blocks, Tree.cons, Tree.rows] using h
  | .node id own cs, h => by
    intro c hc
    simp only [Tree.cons, List.mem_append] at hc
    simp only [Tree.rows]
    rcases hc with hc | hc
    · have := consL_ok n (pre ++ id ++ ".") off 0 (rowsL cs) S cs (by omega)
        (by simpa [Tree.blocks] using h)
      exact this c hc
    · exact ownCons_isMGrad n (rowsL cs) own _ _ c hc
theorem consL_ok (n : ℕ) (pre : String) (off k R : ℕ) (S : Mat ℝ) :
    (ts : List (Tree ℝ)) → k + rowsL ts ≤ R →
      (∀ x ∈ blocksL ts pre (off + k), ∀ c ∈ x.2.2.cons, MJacOK x.2.2.rows n c (shiftRows x.2.1 S)) →
      ∀ c ∈ consL n k ts, MJacOK R n c (shiftRows off S)
  | [], _, _ => by simp [consL]
  | t :: ts, hR, h => by
    intro c hc
    simp only [consL, List.mem_append] at hc
    simp only [rowsL] at hR
    simp only [blocksL, List.forall_mem_append] at h
    rcases hc with hc | hc
    · obtain ⟨c0, hc0, rfl⟩ := List.mem_map.mp hc
      refine lift_ok R n k t.rows (by omega) c0 _ ?_
      rw [shiftRows_shiftRows]
      exact Tree.cons_ok n pre (off + k) S t h.1 c0 hc0
    · refine consL_ok n pre off (k + t.rows) R S ts (by omega) ?_ c hc
      rw [← Nat.add_assoc]
      exact h.2
end

/-- **every tree** (any depth, fan-out, children with different row counts, adaptors as blocks): if
each block's Jacobians are gradients on the block's own rows of `S`, then every constraint of the
tree's list that supplies a Jacobian supplies the gradient with respect to all `t.rows × n` flow
variables. -/
theorem tree_cons_isMGrad (t : Tree ℝ) (n : ℕ) (S : Mat ℝ)
    (h : ∀ x : C02.BlockAt, x ∈ t.blocks "" 0 → ∀ c ∈ x.b.cons, MJacOK x.b.rows n c (shiftRows x.off S)) :
    ∀ c ∈ t.cons n, MJacOK t.rows n c S := by
  have := Tree.cons_ok n "" 0 S t h
  rw [shiftRows_zero] at this
  exact this

/-- non-vacuity: the two-level example tree of C02 with affine one-constraint blocks. -/
example : ∃ (t : Tree ℝ), (∃ id own cs, t = .node id own cs ∧ 2 ≤ cs.length) ∧ ∀ S : Mat ℝ,
    ∀ x : C02.BlockAt, x ∈ t.blocks "" 0 → ∀ c ∈ x.b.cons, MJacOK x.b.rows 1 c (shiftRows x.off S) := by
  refine ⟨C02.exTree, ⟨_, _, _, rfl, by simp⟩, ?_⟩
  intro S x hx c hc j hj
  rw [C02.exTree_blocks] at hx
  simp only [List.mem_cons, List.not_mem_nil, or_false] at hx
  rcases hx with rfl | rfl | rfl | rfl <;>
    (simp only [C02.BlockAt.b, C02.exBlock, List.mem_singleton] at hc; subst hc; simp at hj)

/-! ## trees of shipped devices: the end-to-end statement -/

/-- a block is one of the shipped ones — an atomic device with its own constraint list, or a
multi-flow adaptor around one — and the side conditions of the leaf theorems hold at the flow the
block sees (`S 0` for a device, the conduit sum for an adaptor). -/
def ShippedAt (n : ℕ) (b : Block ℝ) (S : Mat ℝ) : Prop :=
  (∃ id d lo hi extra, b = Block.ofLeaf id d (d.cons lo hi extra) ∧ d.n = n ∧
      (∀ q, d.kind = .sdevice q → NoKinkS n q (S 0)) ∧ ∀ u ∈ extra, JacOK n u (S 0)) ∨
  (∃ id d lo hi extra flows ratio, b = Block.ofMF id d (d.cons lo hi extra) flows ratio ∧ d.n = n ∧
      (ratio.isSome → 2 ≤ flows.length) ∧
      (∀ q, d.kind = .sdevice q → NoKinkS n q (colSum flows.length S)) ∧
      ∀ u ∈ extra, JacOK n u (colSum flows.length S))

/-- **every tree of shipped devices and adaptors**: every supplied Jacobian of the tree's constraint
list is the gradient with respect to the whole flattened flow (away from storage kinks, and given
that user-supplied Jacobians of `ADevice`s are gradients). -/
theorem shipped_tree_isMGrad (t : Tree ℝ) (n : ℕ) (S : Mat ℝ)
    (h : ∀ x : C02.BlockAt, x ∈ t.blocks "" 0 → ShippedAt n x.b (shiftRows x.off S)) :
    ∀ c ∈ t.cons n, MJacOK t.rows n c S := by
  apply tree_cons_isMGrad
  intro x hx
  rcases h x hx with ⟨id, d, lo, hi, extra, hb, hn, hk, hu⟩ | ⟨id, d, lo, hi, extra, flows, ratio, hb, hn, hr, hk, hu⟩
  · rw [hb]; subst hn
    exact ofLeaf_isMGrad id d _ _ (leaf_jac_isGrad d lo hi extra _ hk hu)
  · rw [hb]; subst hn
    exact ofMF_isMGrad id d _ flows ratio hr _ (leaf_jac_isGrad d lo hi extra _ hk hu)

/-- non-vacuity: a set holding a device with the cumulative bound `(1, 4)` over slots `[1, 3)` of 3 and a
two-ratio adaptor with two conduits around a device with a whole-horizon cumulative bound, aggregate
bounds on the set. Every one of its constraints carries a Jacobian or is a balance closure. -/
noncomputable def exLeafA : Leaf ℝ := { n := 3, lb := fun _ => 0, hb := fun _ => 2, cbs := [⟨1, 4, 1, 3⟩], kind := .device }
noncomputable def exLeafB : Leaf ℝ := { n := 3, lb := fun _ => 0, hb := fun _ => 2, cbs := [⟨0, 5, 0, 3⟩], kind := .cdevice 1 0 }
noncomputable def exShipped : Tree ℝ :=
  .node "root" { sbounds := some (fun _ => (0, 3)), labels := [], balEq := true, sign := 1, applyToRemaining := false }
    [.block (Block.ofLeaf "a" exLeafA (exLeafA.cons none none [])),
     .block (Block.ofMF "m" exLeafB (exLeafB.cons none none []) ["e", "h"] (some (true, 2, 3)))]

example (S : Mat ℝ) : ∀ c ∈ exShipped.cons 3, MJacOK exShipped.rows 3 c S := by
  apply shipped_tree_isMGrad
  intro x hx
  simp only [exShipped, Tree.blocks, blocksL, List.append_nil, List.singleton_append, List.mem_cons,
    List.not_mem_nil, or_false] at hx
  rcases hx with rfl | rfl
  · exact Or.inl ⟨"a", exLeafA, none, none, [], rfl, rfl, fun q hq => by simp [exLeafA] at hq, by simp⟩
  · exact Or.inr ⟨"m", exLeafB, none, none, [], ["e", "h"], some (true, 2, 3), rfl, rfl, by simp,
      fun q hq => by simp [exLeafB] at hq, by simp⟩

example : (exShipped.cons 3).length = 2 + (6 + 2 + 3) + 6 ∧ exShipped.rows = 3 := by
  simp [exShipped, Tree.cons, consL, ownCons, Tree.rows, rowsL, Block.ofLeaf, Block.ofMF, Leaf.cons, exLeafA, exLeafB,
    deviceCons, cboundCons, sboundCons, List.range, List.range.loop]

end DK.C06

#print axioms DK.C06.device_jac_affine
#print axioms DK.C06.device_jac_isGrad
#print axioms DK.C06.cbound_jac_support
#print axioms DK.C06.sdevice_jac_isGrad
#print axioms DK.C06.soc_jac_support
#print axioms DK.C06.soc_jac_affine
#print axioms DK.C06.leaf_jac_isGrad
#print axioms DK.C06.toM_isMGrad
#print axioms DK.C06.toM_jac_support
#print axioms DK.C06.overConduits_jac_tiled
#print axioms DK.C06.overConduits_isMGrad
#print axioms DK.C06.sbound_jac_affine
#print axioms DK.C06.sbound_jac_support
#print axioms DK.C06.ratio_jac_affine
#print axioms DK.C06.ratio_jac_support
#print axioms DK.C06.lift_isMGrad
#print axioms DK.C06.lift_jac_support
#print axioms DK.C06.lift_ok
#print axioms DK.C06.ownCons_isMGrad
#print axioms DK.C06.ofLeaf_isMGrad
#print axioms DK.C06.ofMF_isMGrad
#print axioms DK.C06.tree_cons_isMGrad
#print axioms DK.C06.shipped_tree_isMGrad
