import DK.Lemmas.Projection
import DK.Lemmas.TreeLemmas
/-!
# C18 — projection returns the nearest point of the region (or raises), idempotently

All statements are about the definitions of `DK/Model/Projection.lean` at `ℝ`, for every
dimension `n`, every normal (≠ 0), offset and box (zero-width sides included: only `lo ≤ hi` is
assumed), every point.

A vector is `ℕ → ℝ` read at indices `< n`; "equal" means equal at every index `< n`.
`is_in` statements are at `tol = 0` (exact arithmetic); `sliceProj_tol_close` says what `tol > 0`
changes.  What is *not* provable for a finite run — that Dykstra's iterates are the nearest point
of the intersection — is a limit statement; the loop gets partial correctness only
(`dykstra_partial`: a returned point passed both `is_in` tests, i.e. is within `tol` of both sets).
-/
namespace DK.C18
open DK

/-! ## the regions as sets -/

def BoxMem (n : ℕ) (lo hi x : ℕ → ℝ) : Prop := ∀ i < n, lo i ≤ x i ∧ x i ≤ hi i

/-- `HalfSpace(normal, offset, sign)`: `normal·x ≥ offset` for `sign > 0`, `≤` for `sign < 0`. -/
def HalfMem (n : ℕ) (nrm : ℕ → ℝ) (o sign : ℝ) (x : ℕ → ℝ) : Prop :=
  (0 < sign → o ≤ dot n nrm x) ∧ (sign < 0 → dot n nrm x ≤ o)

/-- `Slice(normal, low, high)`: `low ≤ normal·x ≤ high`. -/
def SlabMem (n : ℕ) (nrm : ℕ → ℝ) (lo hi : ℝ) (x : ℕ → ℝ) : Prop :=
  lo ≤ dot n nrm x ∧ dot n nrm x ≤ hi

/-- what the property asks of a projection `proj` onto the set `Mem` in dimension `n`. -/
structure IsProjOnto (n : ℕ) (Mem : (ℕ → ℝ) → Prop) (proj : (ℕ → ℝ) → ℕ → ℝ) : Prop where
  /-- membership only reads the first `n` coordinates -/
  local_ : ∀ x y, (∀ i < n, x i = y i) → Mem x → Mem y
  /-- `proj_mem`: the result is in the region -/
  mem : ∀ p, Mem (proj p)
  /-- `proj_nearest`: no member is nearer -/
  nearest : ∀ p y, Mem y → dist2 n p (proj p) ≤ dist2 n p y
  /-- `proj_fixes_members` -/
  fixes : ∀ p, Mem p → ∀ i < n, proj p i = p i
  /-- `proj_idempotent` -/
  idem : ∀ p, ∀ i < n, proj (proj p) i = proj p i
  /-- `isIn_iff_mem` at `tol = 0` -/
  isIn_iff : ∀ p, isIn n 0 proj p = true ↔ Mem p

/-! ## HyperCube -/
section cube
variable (n : ℕ) (lo hi : ℕ → ℝ)

theorem cube_proj_mem (h : ∀ i < n, lo i ≤ hi i) (p : ℕ → ℝ) : BoxMem n lo hi (cubeProj lo hi p) :=
  fun i hi' => clamp_mem _ _ _ (h i hi')

theorem cube_proj_nearest (h : ∀ i < n, lo i ≤ hi i) (p y : ℕ → ℝ) (hy : BoxMem n lo hi y) :
    dist2 n p (cubeProj lo hi p) ≤ dist2 n p y :=
  sumTo_le (fun i hi' => clamp_nearest _ _ _ _ (h i hi') (hy i hi'))

theorem cube_proj_fixes_members (p : ℕ → ℝ) (hp : BoxMem n lo hi p) :
    ∀ i < n, cubeProj lo hi p i = p i :=
  fun i hi' => clamp_of_mem _ _ _ (hp i hi')

theorem cube_proj_idempotent (p : ℕ → ℝ) (i : ℕ) :
    cubeProj lo hi (cubeProj lo hi p) i = cubeProj lo hi p i :=
  clamp_idem _ _ _

theorem cube_isIn_iff_mem (h : ∀ i < n, lo i ≤ hi i) (p : ℕ → ℝ) :
    isIn n 0 (cubeProj lo hi) p = true ↔ BoxMem n lo hi p := by
  unfold isIn
  rw [closeTo_zero_iff]
  constructor
  · intro he i hi'
    have := clamp_mem (lo i) (hi i) (p i) (h i hi')
    have e : clamp (lo i) (hi i) (p i) = p i := he i hi'
    rw [e] at this; exact this
  · intro hp; exact cube_proj_fixes_members n lo hi p hp

theorem cube_isProjOnto (h : ∀ i < n, lo i ≤ hi i) :
    IsProjOnto n (BoxMem n lo hi) (cubeProj lo hi) where
  local_ := fun x y e hx i hi' => by rw [← e i hi']; exact hx i hi'
  mem := cube_proj_mem n lo hi h
  nearest := cube_proj_nearest n lo hi h
  fixes := cube_proj_fixes_members n lo hi
  idem := fun p i _ => cube_proj_idempotent lo hi p i
  isIn_iff := cube_isIn_iff_mem n lo hi h

/-- non-vacuity: a box with a zero-width side and a point outside it. -/
example : ∃ (lo hi p : ℕ → ℝ), (∀ i < 2, lo i ≤ hi i) ∧ ¬ BoxMem 2 lo hi p ∧ lo 1 = hi 1 :=
  ⟨fun _ => 0, fun i => if i = 0 then 1 else 0, fun _ => 2,
   by intro i _; dsimp only; split_ifs <;> norm_num,
   by intro h; have := (h 0 (by norm_num)).2; norm_num at this,
   by norm_num⟩
end cube

/-! ## HalfSpace -/
section half
variable (n : ℕ) (nrm : ℕ → ℝ) (o sign : ℝ)

/-- the projection when the point is on the wrong side: onto the boundary plane. -/
theorem halfspaceProj_of_out (hn : 0 < dot n nrm nrm) (p : ℕ → ℝ)
    (hout : (0 < sign ∧ dot n nrm p < o) ∨ (sign < 0 ∧ o < dot n nrm p)) :
    halfspaceProj n nrm o sign p = fun i => p i + nrm i * ((o - dot n nrm p) / dot n nrm nrm) := by
  unfold halfspaceProj; dsimp only
  rw [if_neg (ne_of_gt hn), if_pos hout]

theorem halfspaceProj_of_in (p : ℕ → ℝ)
    (hin : ¬ ((0 < sign ∧ dot n nrm p < o) ∨ (sign < 0 ∧ o < dot n nrm p))) :
    halfspaceProj n nrm o sign p = p := by
  unfold halfspaceProj; dsimp only
  split_ifs <;> rfl

theorem halfMem_iff_not_out (p : ℕ → ℝ) :
    HalfMem n nrm o sign p ↔ ¬ ((0 < sign ∧ dot n nrm p < o) ∨ (sign < 0 ∧ o < dot n nrm p)) := by
  unfold HalfMem
  constructor
  · rintro ⟨h1, h2⟩ (⟨hs1, hd⟩ | ⟨hs2, hd⟩)
    · linarith [h1 hs1]
    · linarith [h2 hs2]
  · intro h
    push_neg at h
    exact ⟨fun hs1 => h.1 hs1, fun hs2 => h.2 hs2⟩

/-- the projected point lies on the boundary plane when the point was outside. -/
theorem dot_halfspaceProj_of_out (hn : 0 < dot n nrm nrm) (p : ℕ → ℝ)
    (hout : (0 < sign ∧ dot n nrm p < o) ∨ (sign < 0 ∧ o < dot n nrm p)) :
    dot n nrm (halfspaceProj n nrm o sign p) = o := by
  rw [halfspaceProj_of_out n nrm o sign hn p hout, dot_add_smul]
  field_simp
  ring

theorem halfspace_proj_mem (hn : 0 < dot n nrm nrm) (p : ℕ → ℝ) :
    HalfMem n nrm o sign (halfspaceProj n nrm o sign p) := by
  by_cases hout : (0 < sign ∧ dot n nrm p < o) ∨ (sign < 0 ∧ o < dot n nrm p)
  · have e := dot_halfspaceProj_of_out n nrm o sign hn p hout
    exact ⟨fun _ => by rw [e], fun _ => by rw [e]⟩
  · rw [halfspaceProj_of_in n nrm o sign p hout]
    exact (halfMem_iff_not_out n nrm o sign p).mpr hout

theorem halfspace_proj_nearest (hn : 0 < dot n nrm nrm) (p y : ℕ → ℝ)
    (hy : HalfMem n nrm o sign y) :
    dist2 n p (halfspaceProj n nrm o sign p) ≤ dist2 n p y := by
  by_cases hout : (0 < sign ∧ dot n nrm p < o) ∨ (sign < 0 ∧ o < dot n nrm p)
  · apply dist2_le_of_variational
    have hx := dot_halfspaceProj_of_out n nrm o sign hn p hout
    rw [halfspaceProj_of_out n nrm o sign hn p hout] at hx ⊢
    set t := (o - dot n nrm p) / dot n nrm nrm with ht
    -- (p − x)·(y − x) = −t·(nrm·y − nrm·x) = −t·(nrm·y − o)
    have e : sumTo n (fun i => (p i - (p i + nrm i * t)) * (y i - (p i + nrm i * t)))
        = - t * (dot n nrm y - dot n nrm (fun i => p i + nrm i * t)) := by
      unfold dot
      rw [← sumTo_sub, ← sumTo_mul_left]
      exact sumTo_congr (fun i _ => by ring)
    rw [e, hx]
    rcases hout with ⟨hs1, hd⟩ | ⟨hs2, hd⟩
    · have ht' : 0 < t := div_pos (by linarith) hn
      have := hy.1 hs1
      nlinarith
    · have ht' : t < 0 := div_neg_of_neg_of_pos (by linarith) hn
      have := hy.2 hs2
      nlinarith
  · rw [halfspaceProj_of_in n nrm o sign p hout]
    have : dist2 n p p = 0 := by
      unfold dist2
      rw [sumTo_congr (g := fun _ => (0 : ℝ)) (fun i _ => by ring)]; simp
    rw [this]; exact dist2_nonneg n p y

theorem halfspace_proj_fixes_members (p : ℕ → ℝ) (hp : HalfMem n nrm o sign p) :
    ∀ i < n, halfspaceProj n nrm o sign p i = p i := by
  intro i _
  rw [halfspaceProj_of_in n nrm o sign p ((halfMem_iff_not_out n nrm o sign p).mp hp)]

theorem halfspace_proj_idempotent (hn : 0 < dot n nrm nrm) (p : ℕ → ℝ) :
    ∀ i < n, halfspaceProj n nrm o sign (halfspaceProj n nrm o sign p) i = halfspaceProj n nrm o sign p i :=
  halfspace_proj_fixes_members n nrm o sign _ (halfspace_proj_mem n nrm o sign hn p)

theorem halfspace_isIn_iff_mem (hn : 0 < dot n nrm nrm) (p : ℕ → ℝ) :
    isIn n 0 (halfspaceProj n nrm o sign) p = true ↔ HalfMem n nrm o sign p := by
  unfold isIn
  rw [closeTo_zero_iff]
  constructor
  · intro he
    by_contra hnm
    have hout := (not_iff_comm.mp (halfMem_iff_not_out n nrm o sign p).symm).mp hnm
    rw [halfspaceProj_of_out n nrm o sign hn p hout] at he
    obtain ⟨i, hi, hne⟩ := exists_ne_zero_of_dot_pos n nrm hn
    have h0 : nrm i * ((o - dot n nrm p) / dot n nrm nrm) = 0 := by
      have := he i hi; dsimp only at this; linarith
    have ht : (o - dot n nrm p) / dot n nrm nrm ≠ 0 := by
      apply div_ne_zero _ (ne_of_gt hn)
      rcases hout with ⟨_, hd⟩ | ⟨_, hd⟩ <;> intro h <;> linarith
    exact (mul_ne_zero hne ht) h0
  · intro hp; exact halfspace_proj_fixes_members n nrm o sign p hp

theorem halfMem_local (x y : ℕ → ℝ) (e : ∀ i < n, x i = y i) (hx : HalfMem n nrm o sign x) :
    HalfMem n nrm o sign y := by
  unfold HalfMem at *
  rw [← dot_congr_right nrm e]; exact hx

theorem halfspace_isProjOnto (hn : 0 < dot n nrm nrm) :
    IsProjOnto n (HalfMem n nrm o sign) (halfspaceProj n nrm o sign) where
  local_ := halfMem_local n nrm o sign
  mem := halfspace_proj_mem n nrm o sign hn
  nearest := halfspace_proj_nearest n nrm o sign hn
  fixes := halfspace_proj_fixes_members n nrm o sign
  idem := halfspace_proj_idempotent n nrm o sign hn
  isIn_iff := halfspace_isIn_iff_mem n nrm o sign hn

/-- non-vacuity: normal (3,4), `3x+4y ≤ 10` (`sign < 0`), the point (4,4) is outside. -/
example : ∃ (nrm p : ℕ → ℝ) (o sign : ℝ), 0 < dot 2 nrm nrm ∧ sign ≠ 0 ∧ ¬ HalfMem 2 nrm o sign p :=
  ⟨fun i => if i = 0 then 3 else 4, fun _ => 4, 10, -1,
   by norm_num [dot, sumTo], by norm_num,
   by intro h; have := h.2 (by norm_num); norm_num [dot, sumTo] at this⟩

/-- **what the code computes** (projection.py:49-74): the normal and the offset are divided by
`‖normal‖ = √(normal·normal)` in the constructor, `project` compares `p·n̂` with `ô` and moves by
`n̂·(ô − n̂·p)`. -/
noncomputable def halfspaceProjSqrt (p : ℕ → ℝ) : ℕ → ℝ :=
  let N := Real.sqrt (dot n nrm nrm)
  let nh : ℕ → ℝ := fun i => nrm i / N
  let oh := o / N
  if (0 < sign ∧ dot n p nh < oh) then fun i => p i + nh i * (oh - dot n nh p)
  else if (sign < 0 ∧ oh < dot n p nh) then fun i => p i + nh i * (oh - dot n nh p)
  else p

/-- the square-root form the code evaluates equals the square-root-free form of the model:
same side test, same point. -/
theorem halfspace_sqrt_form (hn : 0 < dot n nrm nrm) (p : ℕ → ℝ) :
    halfspaceProjSqrt n nrm o sign p = halfspaceProj n nrm o sign p := by
  have hN : 0 < Real.sqrt (dot n nrm nrm) := Real.sqrt_pos.mpr hn
  have hNN : Real.sqrt (dot n nrm nrm) * Real.sqrt (dot n nrm nrm) = dot n nrm nrm :=
    Real.mul_self_sqrt (le_of_lt hn)
  set N := Real.sqrt (dot n nrm nrm) with hNdef
  have hd1 : dot n p (fun i => nrm i / N) = dot n nrm p / N := by
    unfold dot
    rw [div_eq_mul_inv, ← sumTo_mul_right]
    exact sumTo_congr (fun i _ => by ring)
  have hd2 : dot n (fun i => nrm i / N) p = dot n nrm p / N := by
    unfold dot
    rw [div_eq_mul_inv, ← sumTo_mul_right]
    exact sumTo_congr (fun i _ => by ring)
  have hlt : dot n nrm p / N < o / N ↔ dot n nrm p < o := div_lt_div_iff_of_pos_right hN
  have hgt : o / N < dot n nrm p / N ↔ o < dot n nrm p := div_lt_div_iff_of_pos_right hN
  have hmove : ∀ i, p i + nrm i / N * (o / N - dot n nrm p / N)
      = p i + nrm i * ((o - dot n nrm p) / dot n nrm nrm) := by
    intro i
    rw [← hNN]
    field_simp
  unfold halfspaceProjSqrt halfspaceProj
  dsimp only
  rw [← hNdef, hd1, hd2, if_neg (ne_of_gt hn)]
  simp only [hlt, hgt]
  by_cases h1 : 0 < sign ∧ dot n nrm p < o
  · rw [if_pos h1, if_pos (Or.inl h1)]; funext i; exact hmove i
  · rw [if_neg h1]
    by_cases h2 : sign < 0 ∧ o < dot n nrm p
    · rw [if_pos h2, if_pos (Or.inr h2)]; funext i; exact hmove i
    · rw [if_neg h2, if_neg (by tauto)]
end half

/-! ## Slice (slab): `lo ≤ normal·x ≤ hi`

`Slice.project` projects onto exactly one of its two half-spaces: the upper one when the lower
test passes, the lower one otherwise.  For a slab (`lo ≤ hi`) at most one side is violated, so
this is the nearest point — proved here for a violated LOW side and a violated HIGH side alike. -/
section slab
variable (n : ℕ) (nrm : ℕ → ℝ) (lo hi : ℝ)

theorem low_isIn_iff (hn : 0 < dot n nrm nrm) (p : ℕ → ℝ) :
    isIn n 0 (halfspaceProj n nrm lo 1) p = true ↔ lo ≤ dot n nrm p := by
  rw [halfspace_isIn_iff_mem n nrm lo 1 hn]
  unfold HalfMem
  constructor
  · intro h; exact h.1 one_pos
  · intro h; exact ⟨fun _ => h, fun h1 => absurd h1 (by norm_num)⟩

theorem high_isIn_iff (hn : 0 < dot n nrm nrm) (p : ℕ → ℝ) :
    isIn n 0 (halfspaceProj n nrm hi (-1)) p = true ↔ dot n nrm p ≤ hi := by
  rw [halfspace_isIn_iff_mem n nrm hi (-1) hn]
  unfold HalfMem
  constructor
  · intro h; exact h.2 (by norm_num)
  · intro h; exact ⟨fun h1 => absurd h1 (by norm_num), fun _ => h⟩

/-- the branch taken at `tol = 0`. -/
theorem sliceProj_zero (hn : 0 < dot n nrm nrm) (p : ℕ → ℝ) :
    sliceProj n 0 nrm lo hi p =
      if lo ≤ dot n nrm p then halfspaceProj n nrm hi (-1) p else halfspaceProj n nrm lo 1 p := by
  unfold sliceProj
  by_cases h : lo ≤ dot n nrm p
  · rw [if_pos ((low_isIn_iff n nrm lo hn p).mpr h), if_pos h]
  · rw [if_neg (fun hc => h ((low_isIn_iff n nrm lo hn p).mp hc)), if_neg h]

theorem slabMem_iff (x : ℕ → ℝ) :
    SlabMem n nrm lo hi x ↔ HalfMem n nrm lo 1 x ∧ HalfMem n nrm hi (-1) x := by
  unfold SlabMem HalfMem
  constructor
  · rintro ⟨h1, h2⟩
    exact ⟨⟨fun _ => h1, fun h => absurd h (by norm_num)⟩, ⟨fun h => absurd h (by norm_num), fun _ => h2⟩⟩
  · rintro ⟨h1, h2⟩
    exact ⟨h1.1 one_pos, h2.2 (by norm_num)⟩

theorem slab_proj_mem (hn : 0 < dot n nrm nrm) (hlh : lo ≤ hi) (p : ℕ → ℝ) :
    SlabMem n nrm lo hi (sliceProj n 0 nrm lo hi p) := by
  rw [sliceProj_zero n nrm lo hi hn]
  by_cases h : lo ≤ dot n nrm p
  · rw [if_pos h]
    by_cases hout : (0 < (-1 : ℝ) ∧ dot n nrm p < hi) ∨ ((-1 : ℝ) < 0 ∧ hi < dot n nrm p)
    · have e := dot_halfspaceProj_of_out n nrm hi (-1) hn p hout
      unfold SlabMem; rw [e]; exact ⟨hlh, le_refl _⟩
    · rw [halfspaceProj_of_in n nrm hi (-1) p hout]
      push_neg at hout
      exact ⟨h, hout.2 (by norm_num)⟩
  · rw [if_neg h]
    have hout : (0 < (1 : ℝ) ∧ dot n nrm p < lo) ∨ ((1 : ℝ) < 0 ∧ lo < dot n nrm p) :=
      Or.inl ⟨one_pos, not_le.mp h⟩
    have e := dot_halfspaceProj_of_out n nrm lo 1 hn p hout
    unfold SlabMem; rw [e]; exact ⟨le_refl _, hlh⟩

/-- nearest point, whichever side (LOW or HIGH) the point violates. -/
theorem slab_proj_nearest (hn : 0 < dot n nrm nrm) (p y : ℕ → ℝ) (hy : SlabMem n nrm lo hi y) :
    dist2 n p (sliceProj n 0 nrm lo hi p) ≤ dist2 n p y := by
  rw [sliceProj_zero n nrm lo hi hn]
  have hy' := (slabMem_iff n nrm lo hi y).mp hy
  by_cases h : lo ≤ dot n nrm p
  · rw [if_pos h]; exact halfspace_proj_nearest n nrm hi (-1) hn p y hy'.2
  · rw [if_neg h]; exact halfspace_proj_nearest n nrm lo 1 hn p y hy'.1

theorem slab_proj_fixes_members (hn : 0 < dot n nrm nrm) (p : ℕ → ℝ) (hp : SlabMem n nrm lo hi p) :
    ∀ i < n, sliceProj n 0 nrm lo hi p i = p i := by
  rw [sliceProj_zero n nrm lo hi hn, if_pos hp.1]
  exact halfspace_proj_fixes_members n nrm hi (-1) p ((slabMem_iff n nrm lo hi p).mp hp).2

theorem slab_proj_idempotent (hn : 0 < dot n nrm nrm) (hlh : lo ≤ hi) (p : ℕ → ℝ) :
    ∀ i < n, sliceProj n 0 nrm lo hi (sliceProj n 0 nrm lo hi p) i = sliceProj n 0 nrm lo hi p i :=
  slab_proj_fixes_members n nrm lo hi hn _ (slab_proj_mem n nrm lo hi hn hlh p)

theorem slabMem_local (x y : ℕ → ℝ) (e : ∀ i < n, x i = y i) (hx : SlabMem n nrm lo hi x) :
    SlabMem n nrm lo hi y := by
  unfold SlabMem at *
  rw [← dot_congr_right nrm e]; exact hx

/-- `Slice.is_in` (both half-space tests) at `tol = 0` is membership. -/
theorem slab_isIn_iff_mem (hn : 0 < dot n nrm nrm) (p : ℕ → ℝ) :
    sliceIsIn n 0 nrm lo hi p = true ↔ SlabMem n nrm lo hi p := by
  unfold sliceIsIn SlabMem
  rw [Bool.and_eq_true, low_isIn_iff n nrm lo hn, high_isIn_iff n nrm hi hn]

/-- the inherited test `|project(p) − p| ≤ 0` agrees too. -/
theorem slab_baseIsIn_iff_mem (hn : 0 < dot n nrm nrm) (hlh : lo ≤ hi) (p : ℕ → ℝ) :
    isIn n 0 (sliceProj n 0 nrm lo hi) p = true ↔ SlabMem n nrm lo hi p := by
  unfold isIn
  rw [closeTo_zero_iff]
  constructor
  · intro he
    exact slabMem_local n nrm lo hi _ _ he (slab_proj_mem n nrm lo hi hn hlh p)
  · intro hp; exact slab_proj_fixes_members n nrm lo hi hn p hp

theorem slab_isProjOnto (hn : 0 < dot n nrm nrm) (hlh : lo ≤ hi) :
    IsProjOnto n (SlabMem n nrm lo hi) (sliceProj n 0 nrm lo hi) where
  local_ := slabMem_local n nrm lo hi
  mem := slab_proj_mem n nrm lo hi hn hlh
  nearest := slab_proj_nearest n nrm lo hi hn
  fixes := slab_proj_fixes_members n nrm lo hi hn
  idem := slab_proj_idempotent n nrm lo hi hn hlh
  isIn_iff := slab_baseIsIn_iff_mem n nrm lo hi hn hlh

/-- **what `tol > 0` changes**: a point that violates the low side by so little that
`low.is_in` accepts it is returned as it is (the high side is then not violated), i.e. the result
is within `tol` (in every coordinate) of the exact nearest point instead of being it.  Nothing
else changes. -/
theorem sliceProj_tol_close (hn : 0 < dot n nrm nrm) (hlh : lo ≤ hi) (tol : ℝ) (htol : 0 ≤ tol)
    (p : ℕ → ℝ) :
    ∀ i < n, |sliceProj n tol nrm lo hi p i - sliceProj n 0 nrm lo hi p i| ≤ tol := by
  intro i hi'
  by_cases b0 : isIn n 0 (halfspaceProj n nrm lo 1) p = true
  · have b1 : isIn n tol (halfspaceProj n nrm lo 1) p = true := by
      unfold isIn at *
      rw [closeTo_iff]; rw [closeTo_zero_iff] at b0
      intro j hj; rw [b0 j hj]; simpa using htol
    unfold sliceProj
    rw [if_pos b0, if_pos b1]; simpa using htol
  · by_cases b1 : isIn n tol (halfspaceProj n nrm lo 1) p = true
    · have hd : dot n nrm p < lo := not_le.mp (fun h => b0 ((low_isIn_iff n nrm lo hn p).mpr h))
      have hin : ¬ ((0 < (-1 : ℝ) ∧ dot n nrm p < hi) ∨ ((-1 : ℝ) < 0 ∧ hi < dot n nrm p)) := by
        rintro (⟨h, _⟩ | ⟨_, h⟩)
        · norm_num at h
        · linarith
      unfold sliceProj
      rw [if_pos b1, if_neg b0, halfspaceProj_of_in n nrm hi (-1) p hin]
      unfold isIn at b1
      rw [closeTo_iff] at b1
      rw [abs_sub_comm]; exact b1 i hi'
    · unfold sliceProj
      rw [if_neg b0, if_neg b1]; simpa using htol

/-- non-vacuity: a zero-width slab `3x+4y = 5` and points violating the low and the high side. -/
example : ∃ (nrm p q : ℕ → ℝ) (lo hi : ℝ), 0 < dot 2 nrm nrm ∧ lo ≤ hi ∧
    dot 2 nrm p < lo ∧ hi < dot 2 nrm q :=
  ⟨fun i => if i = 0 then 3 else 4, fun _ => 0, fun _ => 4, 5, 5,
   by norm_num [dot, sumTo], le_refl _, by norm_num [dot, sumTo], by norm_num [dot, sumTo]⟩
end slab

/-! ## List: one region per row (axis 0) or per column (axis 1)

Stated for *arbitrary* sub-regions: whatever projections `projs k` are nearest-point projections
onto sets `Mem k`, the list projection is the nearest-point projection onto their product. -/
section list

/-- the region of a `List` over `R × C` matrices: line `k` lies in region `k`. -/
def ListMem (axis R C : ℕ) (Mem : ℕ → (ℕ → ℝ) → Prop) (Y : Mat ℝ) : Prop :=
  if axis = 0 then ∀ r < R, Mem r (Y r) else ∀ c < C, Mem c (fun r => Y r c)

structure IsMatProjOnto (R C : ℕ) (Mem : Mat ℝ → Prop) (proj : Mat ℝ → Mat ℝ) : Prop where
  mem : ∀ P, Mem (proj P)
  nearest : ∀ P Y, Mem Y → mdist2 R C P (proj P) ≤ mdist2 R C P Y
  fixes : ∀ P, Mem P → ∀ r < R, ∀ c < C, proj P r c = P r c
  idem : ∀ P, ∀ r < R, ∀ c < C, proj (proj P) r c = proj P r c
  isIn_iff : ∀ P, mcloseTo R C 0 (proj P) P = true ↔ Mem P

theorem listProj_axis0 (projs : ℕ → (ℕ → ℝ) → ℕ → ℝ) (P : Mat ℝ) :
    listProj 0 projs P = fun r c => projs r (P r) c := by
  unfold listProj; rw [if_pos rfl]

theorem listProj_axis1 (axis : ℕ) (hax : axis ≠ 0) (projs : ℕ → (ℕ → ℝ) → ℕ → ℝ) (P : Mat ℝ) :
    listProj axis projs P = fun r c => projs c (fun r' => P r' c) r := by
  unfold listProj; rw [if_neg hax]

theorem mdist2_by_columns (R C : ℕ) (P Q : Mat ℝ) :
    mdist2 R C P Q = sumTo C (fun c => dist2 R (fun r => P r c) (fun r => Q r c)) := by
  unfold mdist2 dist2
  exact sumTo_comm R C _

/-- rows: `R` regions of length `C`. -/
theorem list_isProjOnto_rows (R C : ℕ) (Mem : ℕ → (ℕ → ℝ) → Prop)
    (projs : ℕ → (ℕ → ℝ) → ℕ → ℝ) (h : ∀ r < R, IsProjOnto C (Mem r) (projs r)) :
    IsMatProjOnto R C (ListMem 0 R C Mem) (listProj 0 projs) where
  mem := fun P => by
    unfold ListMem; rw [if_pos rfl, listProj_axis0]
    intro r hr; exact (h r hr).mem (P r)
  nearest := fun P Y hY => by
    unfold ListMem at hY; rw [if_pos rfl] at hY
    rw [listProj_axis0]; unfold mdist2
    exact sumTo_le (fun r hr => (h r hr).nearest (P r) (Y r) (hY r hr))
  fixes := fun P hP r hr c hc => by
    unfold ListMem at hP; rw [if_pos rfl] at hP
    rw [listProj_axis0]
    exact (h r hr).fixes (P r) (hP r hr) c hc
  idem := fun P r hr c hc => by
    rw [listProj_axis0, listProj_axis0]
    exact (h r hr).idem (P r) c hc
  isIn_iff := fun P => by
    rw [mcloseTo_zero_iff]; unfold ListMem; rw [if_pos rfl, listProj_axis0]
    constructor
    · intro he r hr
      exact (h r hr).local_ _ _ (fun c hc => he r hr c hc) ((h r hr).mem (P r))
    · intro hP r hr c hc
      exact (h r hr).fixes (P r) (hP r hr) c hc

/-- columns (`axis = 1`): `C` regions of length `R`. -/
theorem list_isProjOnto_columns (axis : ℕ) (hax : axis ≠ 0) (R C : ℕ) (Mem : ℕ → (ℕ → ℝ) → Prop)
    (projs : ℕ → (ℕ → ℝ) → ℕ → ℝ) (h : ∀ c < C, IsProjOnto R (Mem c) (projs c)) :
    IsMatProjOnto R C (ListMem axis R C Mem) (listProj axis projs) where
  mem := fun P => by
    unfold ListMem; rw [if_neg hax, listProj_axis1 axis hax]
    intro c hc; exact (h c hc).mem (fun r => P r c)
  nearest := fun P Y hY => by
    unfold ListMem at hY; rw [if_neg hax] at hY
    rw [listProj_axis1 axis hax, mdist2_by_columns, mdist2_by_columns]
    exact sumTo_le (fun c hc => (h c hc).nearest (fun r => P r c) (fun r => Y r c) (hY c hc))
  fixes := fun P hP r hr c hc => by
    unfold ListMem at hP; rw [if_neg hax] at hP
    rw [listProj_axis1 axis hax]
    exact (h c hc).fixes (fun r => P r c) (hP c hc) r hr
  idem := fun P r hr c hc => by
    rw [listProj_axis1 axis hax, listProj_axis1 axis hax]
    exact (h c hc).idem (fun r => P r c) r hr
  isIn_iff := fun P => by
    rw [mcloseTo_zero_iff]; unfold ListMem; rw [if_neg hax, listProj_axis1 axis hax]
    constructor
    · intro he c hc
      exact (h c hc).local_ _ _ (fun r hr => he r hr c hc) ((h c hc).mem (fun r => P r c))
    · intro hP r hr c hc
      exact (h c hc).fixes (fun r => P r c) (hP c hc) r hr

/-- non-vacuity: a list of two boxes (one with a zero-width side) over the rows of a 2×2 matrix. -/
example : ∃ (lo hi : ℕ → ℕ → ℝ), (∀ r < 2, ∀ i < 2, lo r i ≤ hi r i) ∧ lo 1 0 = hi 1 0 ∧
    ∀ r < 2, IsProjOnto 2 (BoxMem 2 (lo r) (hi r)) (cubeProj (lo r) (hi r)) :=
  ⟨fun _ _ => 0, fun r _ => if r = 0 then 1 else 0,
   by intro r _ i _; dsimp only; split_ifs <;> norm_num,
   by norm_num,
   fun r _ => cube_isProjOnto 2 _ _ (by intro i _; dsimp only; split_ifs <;> norm_num)⟩
end list

/-! ## Intersection -/
section inter
variable {X : Type} (add sub : X → X → X) (close : X → X → Bool)
  (Pa Pb : X → Except PErr X) (inA inB : X → Except PErr Bool)

theorem dykTest_false_iff (y x : X) :
    dykTest close inA y x = .ok false ↔ close x y = true ∧ inA x = .ok true := by
  unfold dykTest
  cases hc : close x y with
  | false => simp [pure, Except.pure]
  | true =>
    cases hA : inA x with
    | error e => simp [bind, Except.bind]
    | ok a => cases a <;> simp [bind, Except.bind, pure, Except.pure]

/-- first shortcut of `Intersection.project`: `proj = a.project(p); if b.is_in(proj): return proj`. -/
theorem interProj_shortcut_a (M : ℕ) (zero p pa : X) (h1 : Pa p = .ok pa) (h2 : inB pa = .ok true) :
    interProj add sub close Pa Pb inA inB M zero p = .ok pa := by
  unfold interProj
  simp [h1, h2, bind, Except.bind, pure, Except.pure]

/-- second shortcut: `proj = b.project(p); if a.is_in(proj): return proj`. -/
theorem interProj_shortcut_b (M : ℕ) (zero p pa pb : X) (h1 : Pa p = .ok pa) (h2 : inB pa = .ok false)
    (h3 : Pb p = .ok pb) (h4 : inA pb = .ok true) :
    interProj add sub close Pa Pb inA inB M zero p = .ok pb := by
  unfold interProj
  simp [h1, h2, h3, h4, bind, Except.bind, pure, Except.pure]

/-- **partial correctness of the Dykstra loop** (for `1 ≤ maxiter`; `c < M` at entry): if the
loop returns `r` then the exit test succeeded on the last iteration: `r = b.project(y + q)` is
the b-side iterate, `y = a.project(u)` the a-side iterate of that iteration, the two *agree within
`tol`* (`close r y`, i.e. `|r − y| ≤ tol` in every coordinate: `lclose_toL_iff`), and `a.is_in(r)`
holds for the returned point itself.  With `interProj_ok_mem` / `VRegion.inter_result_isIn`: a
returned point is within `tol` of both sets.  Otherwise the result is an error (`maxiter`, or an
error of a sub-projection).

What this does *not* say: that the iterates converge, and that a point where they agree only
within `tol > 0` is within some explicit distance of the nearest point — the exact statement is
`dykstra_fixed_point_optimal` (agreement at `tol = 0` ⇒ nearest point, given Dykstra's invariant);
convergence (Boyle–Dykstra) is a statement about the limit. -/
theorem dykLoop_partial (M : ℕ) : ∀ (fuel c : ℕ) (x p q r : X), c < M →
    dykLoop add sub close Pa Pb inA M fuel c x p q = .ok r →
    inA r = .ok true ∧ ∃ u y q', Pa u = .ok y ∧ Pb (add y q') = .ok r ∧ close r y = true := by
  intro fuel
  induction fuel with
  | zero => intro c x p q r _ h; simp [dykLoop, throw, throwThe, MonadExceptOf.throw] at h
  | succ f ih =>
    intro c x p q r hc h
    unfold dykLoop at h
    cases hy : Pa (add x p) with
    | error e => simp [hy, bind, Except.bind] at h
    | ok y =>
      cases hx : Pb (add y q) with
      | error e => simp [hy, hx, bind, Except.bind] at h
      | ok x' =>
        simp only [hy, hx, bind, Except.bind] at h
        by_cases hlt : c + 1 < M
        · simp only [hlt, if_true] at h
          cases hnb : dykTest close inA y x' with
          | error e => simp [hnb] at h
          | ok b =>
            cases b with
            | true =>
              simp only [hnb] at h
              exact ih _ _ _ _ _ hlt h
            | false =>
              have hne : ¬ (c + 1 = M) := by omega
              simp [hnb, pure, Except.pure, hne] at h
              have := (dykTest_false_iff close inA y x').mp hnb
              subst h
              exact ⟨this.2, add x p, y, q, hy, hx, this.1⟩
        · have he : c + 1 = M := by omega
          simp [hlt, he, pure, Except.pure, throw, throwThe, MonadExceptOf.throw] at h

/-- the `fuel` argument (present only to make the recursion structural) never runs out when it
exceeds the remaining iterations: the result does not depend on it. -/
theorem dykLoop_fuel (M : ℕ) : ∀ (f g c : ℕ) (x p q : X), c ≤ M → M < c + f → M < c + g →
    dykLoop add sub close Pa Pb inA M f c x p q = dykLoop add sub close Pa Pb inA M g c x p q := by
  intro f
  induction f with
  | zero => intro g c x p q h1 h2 _; omega
  | succ f ih =>
    intro g c x p q h1 h2 h3
    cases g with
    | zero => omega
    | succ g =>
      unfold dykLoop
      simp only [bind, Except.bind]
      cases hy : Pa (add x p) with
      | error e => rfl
      | ok y =>
        simp only []
        cases hx : Pb (add y q) with
        | error e => rfl
        | ok x' =>
          simp only []
          by_cases hlt : c + 1 < M
          · simp only [hlt, if_true]
            cases hnb : dykTest close inA y x' with
            | error e => rfl
            | ok b =>
              cases b with
              | true =>
                simp only [if_true]
                exact ih g (c + 1) _ _ _ (by omega) (by omega) (by omega)
              | false => rfl
          · simp [hlt, pure, Except.pure]

theorem dykstra_partial (M : ℕ) (hM : 1 ≤ M) (zero point r : X)
    (h : dykstraProj add sub close Pa Pb inA M zero point = .ok r) :
    inA r = .ok true ∧ ∃ u y q, Pa u = .ok y ∧ Pb (add y q) = .ok r ∧ close r y = true :=
  dykLoop_partial add sub close Pa Pb inA M (M + 1) 0 point zero zero r (by omega) h

/-- whatever `Intersection.project` returns is a shortcut value or passed the loop test itself;
in all other cases it raises. -/
theorem interProj_ok_cases (M : ℕ) (hM : 1 ≤ M) (zero p r : X)
    (h : interProj add sub close Pa Pb inA inB M zero p = .ok r) :
    (Pa p = .ok r ∧ inB r = .ok true) ∨ (Pb p = .ok r ∧ inA r = .ok true) ∨
    (inA r = .ok true ∧ ∃ u y q, Pa u = .ok y ∧ Pb (add y q) = .ok r ∧ close r y = true) := by
  unfold interProj at h
  simp only [bind, Except.bind] at h
  cases h1 : Pa p with
  | error e => simp [h1] at h
  | ok pa =>
    simp only [h1] at h
    cases h2 : inB pa with
    | error e => simp [h2] at h
    | ok b =>
      cases b with
      | true =>
        simp [h2, pure, Except.pure] at h
        left; rw [← h]; exact ⟨rfl, h2⟩
      | false =>
        simp only [h2] at h
        cases h3 : Pb p with
        | error e => simp [h3] at h
        | ok pb =>
          simp only [h3] at h
          cases h4 : inA pb with
          | error e => simp [h4] at h
          | ok b' =>
            cases b' with
            | true =>
              simp [h4, pure, Except.pure] at h
              right; left; rw [← h]; exact ⟨rfl, h4⟩
            | false =>
              simp [h4] at h
              right; right
              exact dykstra_partial add sub close Pa Pb inA M hM zero p r h
/-- **every returned point is (tolerance-)in both regions.**  `InA`, `InB` are what the two
`is_in` tests certify (at `tol = 0`: membership, `*_isIn_iff_mem`; at `tol > 0`: being moved by at
most `tol` per coordinate by the region's projection).  If each region's `project` lands where
its own `is_in` accepts, then whatever `Intersection.project` returns — by either shortcut or by
the loop — is accepted by both tests; otherwise it raises. -/
theorem interProj_ok_mem (InA InB : X → Prop)
    (hPa : ∀ x r, Pa x = .ok r → InA r) (hPb : ∀ x r, Pb x = .ok r → InB r)
    (hinA : ∀ x, inA x = .ok true → InA x) (hinB : ∀ x, inB x = .ok true → InB x)
    (M : ℕ) (hM : 1 ≤ M) (zero p r : X)
    (h : interProj add sub close Pa Pb inA inB M zero p = .ok r) : InA r ∧ InB r := by
  rcases interProj_ok_cases add sub close Pa Pb inA inB M hM zero p r h with ⟨h1, h2⟩ | ⟨h1, h2⟩ | ⟨h1, _, y, q, _, h4, _⟩
  · exact ⟨hPa p r h1, hinB r h2⟩
  · exact ⟨hinA r h2, hPb p r h1⟩
  · exact ⟨hinA r h1, hPb _ r h4⟩
end inter

/-- **shortcut_sound**: if `x` is the nearest point of `A` to `p` and `x ∈ B`, then `x` is the
nearest point of `A ∩ B` (and symmetrically with the roles exchanged). -/
theorem shortcut_sound (n : ℕ) (MemA MemB : (ℕ → ℝ) → Prop) (p x : ℕ → ℝ)
    (hxA : MemA x) (hnear : ∀ y, MemA y → dist2 n p x ≤ dist2 n p y) (hxB : MemB x) :
    (MemA x ∧ MemB x) ∧ ∀ y, MemA y ∧ MemB y → dist2 n p x ≤ dist2 n p y :=
  ⟨⟨hxA, hxB⟩, fun y hy => hnear y hy.1⟩

/-- the two shortcuts of `Intersection.project` on the model, for any two regions whose
`project` are nearest-point projections and whose `is_in` decide membership (true of box,
half-space and slab at `tol = 0` by the theorems above): the value returned is the nearest point
of the intersection. -/
theorem inter_shortcut_sound {n : ℕ} (add sub : (ℕ → ℝ) → (ℕ → ℝ) → ℕ → ℝ)
    (close : (ℕ → ℝ) → (ℕ → ℝ) → Bool)
    (MemA MemB : (ℕ → ℝ) → Prop) (projA projB : (ℕ → ℝ) → ℕ → ℝ)
    (hA : IsProjOnto n MemA projA) (hB : IsProjOnto n MemB projB)
    (inA inB : (ℕ → ℝ) → Except PErr Bool)
    (hinA : ∀ x, ∃ b, inA x = .ok b ∧ (b = true ↔ MemA x))
    (hinB : ∀ x, ∃ b, inB x = .ok b ∧ (b = true ↔ MemB x))
    (M : ℕ) (zero p : ℕ → ℝ) :
    (MemB (projA p) →
      interProj add sub close (fun x => .ok (projA x)) (fun x => .ok (projB x)) inA inB M zero p = .ok (projA p) ∧
      (MemA (projA p) ∧ MemB (projA p)) ∧ ∀ y, MemA y ∧ MemB y → dist2 n p (projA p) ≤ dist2 n p y) ∧
    (¬ MemB (projA p) → MemA (projB p) →
      interProj add sub close (fun x => .ok (projA x)) (fun x => .ok (projB x)) inA inB M zero p = .ok (projB p) ∧
      (MemA (projB p) ∧ MemB (projB p)) ∧ ∀ y, MemA y ∧ MemB y → dist2 n p (projB p) ≤ dist2 n p y) := by
  constructor
  · intro hb
    obtain ⟨b, hb1, hb2⟩ := hinB (projA p)
    have : b = true := hb2.mpr hb
    subst this
    refine ⟨interProj_shortcut_a add sub close _ _ inA inB M zero p (projA p) rfl hb1, ?_⟩
    exact shortcut_sound n MemA MemB p (projA p) (hA.mem p) (hA.nearest p) hb
  · intro hnb ha
    obtain ⟨b, hb1, hb2⟩ := hinB (projA p)
    have hbf : b = false := by
      cases b with
      | false => rfl
      | true => exact absurd (hb2.mp rfl) hnb
    subst hbf
    obtain ⟨a, ha1, ha2⟩ := hinA (projB p)
    have : a = true := ha2.mpr ha
    subst this
    refine ⟨interProj_shortcut_b add sub close _ _ inA inB M zero p (projA p) (projB p) rfl hb1 rfl ha1, ?_⟩
    have := shortcut_sound n MemB MemA p (projB p) (hB.mem p) (hB.nearest p) ha
    exact ⟨⟨this.1.2, this.1.1⟩, fun y hy => this.2 y ⟨hy.2, hy.1⟩⟩

/-- non-vacuity of `inter_shortcut_sound`'s hypotheses: a box and a half-space with their exact
`is_in` tests. -/
example : ∃ (lo hi nrm : ℕ → ℝ) (o sign : ℝ),
    IsProjOnto 2 (BoxMem 2 lo hi) (cubeProj lo hi) ∧ IsProjOnto 2 (HalfMem 2 nrm o sign) (halfspaceProj 2 nrm o sign) ∧
    (∀ x, ∃ b, (Except.ok (isIn 2 0 (cubeProj lo hi) x) : Except PErr Bool) = .ok b ∧ (b = true ↔ BoxMem 2 lo hi x)) :=
  ⟨fun _ => 0, fun _ => 1, fun _ => 1, 1, -1,
   cube_isProjOnto 2 _ _ (by intro i _; norm_num),
   halfspace_isProjOnto 2 _ _ _ (by norm_num [dot, sumTo]),
   fun x => ⟨_, rfl, cube_isIn_iff_mem 2 _ _ (by intro i _; norm_num) x⟩⟩

/-! ## the classes as composed by `VRegion` reduce to the building blocks -/
section glue
variable (tol : ℝ) (M n : ℕ)

theorem VRegion.project_cube (lo hi p : ℕ → ℝ) :
    (VRegion.cube n lo hi).project tol M n p = .ok (cubeProj lo hi p) := by
  simp [VRegion.project, pure, Except.pure]

theorem VRegion.project_half (nrm : ℕ → ℝ) (o sign : ℝ) (p : ℕ → ℝ) :
    (VRegion.half n nrm o sign).project tol M n p = .ok (halfspaceProj n nrm o sign p) := by
  simp [VRegion.project, pure, Except.pure]

theorem VRegion.project_slice (nrm : ℕ → ℝ) (lo hi : ℝ) (p : ℕ → ℝ) :
    (VRegion.slice n nrm lo hi).project tol M n p = .ok (sliceProj n tol nrm lo hi p) := by
  simp [VRegion.project, pure, Except.pure]

theorem VRegion.isIn_cube (lo hi p : ℕ → ℝ) :
    (VRegion.cube n lo hi).isIn tol M n p = .ok (isIn n tol (cubeProj lo hi) p) := by
  simp [VRegion.isIn, pure, Except.pure]

theorem VRegion.isIn_half (nrm : ℕ → ℝ) (o sign : ℝ) (p : ℕ → ℝ) :
    (VRegion.half n nrm o sign).isIn tol M n p = .ok (isIn n tol (halfspaceProj n nrm o sign) p) := by
  simp [VRegion.isIn, pure, Except.pure]

theorem VRegion.isIn_slice (nrm : ℕ → ℝ) (lo hi : ℝ) (p : ℕ → ℝ) :
    (VRegion.slice n nrm lo hi).isIn tol M n p = .ok (sliceIsIn n tol nrm lo hi p) := by
  simp [VRegion.isIn, pure, Except.pure]

/-- a point of the wrong length raises `ValueError` (box shown; the other classes alike). -/
theorem VRegion.project_cube_wrong_length (m : ℕ) (hm : m ≠ n) (lo hi p : ℕ → ℝ) :
    (VRegion.cube n lo hi).project tol M m p = .error .valueError := by
  simp [VRegion.project, hm, throw, throwThe, MonadExceptOf.throw]
end glue

/-! ## device level -/
section device
variable (n : ℕ) (lb hb : ℕ → ℝ)

/-- `Device.project` returns (rather than raising `ValueError`) exactly for inputs with `n`
entries, flat or shaped; the result is then a row of the device shape `(1, n)`. -/
theorem device_project_shape (size : ℕ) (s : ℕ → ℝ) :
    (∃ x, deviceProject n lb hb size s = .ok x) ↔ size = n := by
  unfold deviceProject
  by_cases h : size = n
  · simp [h, pure, Except.pure]
  · simp [h, throw, throwThe, MonadExceptOf.throw]

theorem device_project_eq_clamp (s : ℕ → ℝ) :
    deviceProject n lb hb n s = .ok (cubeProj lb hb s) := by
  simp [deviceProject, pure, Except.pure]

/-- `Device.project` = per-slot clamp ⇒ in-bounds, fixes in-bounds input, nearest, idempotent. -/
theorem device_project_spec (h : ∀ i < n, lb i ≤ hb i) (size : ℕ) (s x : ℕ → ℝ)
    (hx : deviceProject n lb hb size s = .ok x) :
    size = n ∧ BoxMem n lb hb x ∧ (BoxMem n lb hb s → ∀ i < n, x i = s i) ∧
    (∀ y, BoxMem n lb hb y → dist2 n s x ≤ dist2 n s y) ∧
    deviceProject n lb hb n x = .ok x := by
  have hs : size = n := (device_project_shape n lb hb size s).mp ⟨x, hx⟩
  subst hs
  rw [device_project_eq_clamp] at hx
  have e : cubeProj lb hb s = x := by injection hx
  subst e
  refine ⟨rfl, cube_proj_mem size lb hb h s, cube_proj_fixes_members size lb hb s,
    cube_proj_nearest size lb hb h s, ?_⟩
  rw [device_project_eq_clamp]
  congr 1
  funext i
  exact cube_proj_idempotent lb hb s i
end device

/-! ## DeviceSet.project: per block -/
section set

mutual
theorem Tree.project_block_gen (bp : ℕ → Block ℝ → Mat ℝ → Mat ℝ) (pre : String) (off : ℕ) (S : Mat ℝ)
    (x : String × ℕ × Block ℝ) (r i : ℕ) (hr : r < x.2.2.rows) :
    (t : Tree ℝ) → x ∈ t.blocks pre off → ∀ q, off + q = x.2.1 + r →
      t.project bp off (shiftRows off S) q i = bp x.2.1 x.2.2 (shiftRows x.2.1 S) r i
  | .block b, hx, q, hq => by
    simp only [Tree.blocks, List.mem_singleton] at hx
    subst hx
    simp only at hq
    have : q = r := by omega
    subst this
    simp [Tree.project]
  | .node id own cs, hx, q, hq => by
    simp only [Tree.blocks] at hx
    simp only [Tree.project]
    exact projectL_block_gen bp (pre ++ id ++ ".") off S x r i hr cs hx q hq
theorem projectL_block_gen (bp : ℕ → Block ℝ → Mat ℝ → Mat ℝ) (pre : String) (off : ℕ) (S : Mat ℝ)
    (x : String × ℕ × Block ℝ) (r i : ℕ) (hr : r < x.2.2.rows) :
    (ts : List (Tree ℝ)) → x ∈ blocksL ts pre off → ∀ q, off + q = x.2.1 + r →
      projectL bp ts off (shiftRows off S) q i = bp x.2.1 x.2.2 (shiftRows x.2.1 S) r i
  | [], hx, _, _ => by simp [blocksL] at hx
  | t :: ts, hx, q, hq => by
    simp only [blocksL, List.mem_append] at hx
    simp only [projectL]
    rcases hx with hx | hx
    · have hb := Tree.blocks_mem_bounds t pre off x hx
      have hq' : q < t.rows := by omega
      rw [if_pos hq']
      exact Tree.project_block_gen bp pre off S x r i hr t hx q hq
    · have hb := blocksL_mem_bounds ts pre (off + t.rows) x hx
      have hq' : ¬ q < t.rows := by omega
      rw [if_neg hq', shiftRows_shiftRows]
      exact projectL_block_gen bp pre (off + t.rows) S x r i hr ts hx (q - t.rows) (by omega)
end

/-- **`DeviceSet.project` acts per block**: the rows of the result that belong to the block `b`
placed at absolute row offset `o` are `b`'s own projection of `b`'s rows of the input — for every
tree (any nesting, children with different row counts), every block behaviour. -/
theorem set_project_per_block (bp : ℕ → Block ℝ → Mat ℝ → Mat ℝ) (t : Tree ℝ) (S : Mat ℝ)
    (pre : String) (o : ℕ) (b : Block ℝ) (hb : (pre, o, b) ∈ t.blocks "" 0) (r i : ℕ) (hr : r < b.rows) :
    t.project bp 0 S (o + r) i = bp o b (shiftRows o S) r i := by
  have := Tree.project_block_gen bp "" 0 S (pre, o, b) r i hr t hb (o + r) (by simp)
  simpa using this

/-- the root call raises `ValueError` unless the (flat or shaped) input has `rows·n` entries. -/
theorem set_project_shape (bp : ℕ → Block ℝ → Mat ℝ → Mat ℝ) (t : Tree ℝ) (n size : ℕ) (S : Mat ℝ) :
    (∃ X, setProject bp t n size S = .ok X) ↔ size = t.rows * n := by
  unfold setProject
  by_cases h : size = t.rows * n
  · simp [h, pure, Except.pure]
  · simp [h, throw, throwThe, MonadExceptOf.throw]

/-- if every block projects by clamping to its own bounds (true of every shipped atomic device:
`leaf_block_is_clamp`), the set projects by clamping every entry to the tree's bounds … -/
theorem set_project_clamp (bp : ℕ → Block ℝ → Mat ℝ → Mat ℝ) (t : Tree ℝ)
    (hbp : ∀ x ∈ t.blocks "" 0, ∀ (S : Mat ℝ) r i, r < x.2.2.rows →
      bp x.2.1 x.2.2 S r i = clamp (x.2.2.bounds r i).1 (x.2.2.bounds r i).2 (S r i))
    (S : Mat ℝ) (r i : ℕ) (hr : r < t.rows) :
    t.project bp 0 S r i = clamp (t.bounds r i).1 (t.bounds r i).2 (S r i) := by
  obtain ⟨x, hx, h1, h2⟩ := Tree.row_owner_gen "" 0 r t hr
  have hr' : 0 + r - x.2.1 < x.2.2.rows := by omega
  have e1 := Tree.project_block_gen bp "" 0 S x (0 + r - x.2.1) i hr' t hx r (by omega)
  have e2 := Tree.bounds_block_gen "" 0 x (0 + r - x.2.1) i hr' t hx r (by omega)
  rw [shiftRows_zero] at e1
  rw [e1, e2, hbp x hx _ _ _ hr']
  have : x.2.1 + (0 + r - x.2.1) = r := by omega
  simp only [shiftRows, this]

/-- … hence: within bounds, in-bounds input unchanged, and no in-bounds flow matrix is nearer. -/
theorem set_project_spec (bp : ℕ → Block ℝ → Mat ℝ → Mat ℝ) (t : Tree ℝ) (n : ℕ)
    (hbp : ∀ x ∈ t.blocks "" 0, ∀ (S : Mat ℝ) r i, r < x.2.2.rows →
      bp x.2.1 x.2.2 S r i = clamp (x.2.2.bounds r i).1 (x.2.2.bounds r i).2 (S r i))
    (hbd : ∀ r < t.rows, ∀ i < n, (t.bounds r i).1 ≤ (t.bounds r i).2) (S : Mat ℝ) :
    (∀ r < t.rows, ∀ i < n, (t.bounds r i).1 ≤ t.project bp 0 S r i ∧ t.project bp 0 S r i ≤ (t.bounds r i).2) ∧
    ((∀ r < t.rows, ∀ i < n, (t.bounds r i).1 ≤ S r i ∧ S r i ≤ (t.bounds r i).2) →
      ∀ r < t.rows, ∀ i < n, t.project bp 0 S r i = S r i) ∧
    (∀ Y : Mat ℝ, (∀ r < t.rows, ∀ i < n, (t.bounds r i).1 ≤ Y r i ∧ Y r i ≤ (t.bounds r i).2) →
      mdist2 t.rows n S (t.project bp 0 S) ≤ mdist2 t.rows n S Y) := by
  refine ⟨?_, ?_, ?_⟩
  · intro r hr i hi
    rw [set_project_clamp bp t hbp S r i hr]
    exact clamp_mem _ _ _ (hbd r hr i hi)
  · intro hS r hr i hi
    rw [set_project_clamp bp t hbp S r i hr]
    exact clamp_of_mem _ _ _ (hS r hr i hi)
  · intro Y hY
    unfold mdist2 dist2
    apply sumTo_le
    intro r hr
    apply sumTo_le
    intro i hi
    rw [set_project_clamp bp t hbp S r i hr]
    exact clamp_nearest _ _ _ _ (hbd r hr i hi) (hY r hr i hi)

/-- a shipped atomic device as a block projects by clamping to the block's bounds. -/
theorem leaf_block_is_clamp (id : String) (d : Leaf ℝ) (cons : List (Con ℝ)) (S : Mat ℝ) (r i : ℕ)
    (hr : r < (Block.ofLeaf id d cons).rows) :
    (BlockProj.device d.lb d.hb).run S r i =
      clamp ((Block.ofLeaf id d cons).bounds r i).1 ((Block.ofLeaf id d cons).bounds r i).2 (S r i) := by
  have : r = 0 := by simp [Block.ofLeaf] at hr; exact hr
  subst this
  simp [BlockProj.run, Block.ofLeaf, cubeProj]
end set

/-! ## MFDeviceSet.project -/
section mf
variable (k : ℕ) (lb hb : ℕ → ℝ)

/-- **mf_project_keeps_totals**: the column sums of the result are the wrapped device's
projection of the column sums of the input (`k ≥ 1` conduits) … -/
theorem mf_project_keeps_totals (hk : 1 ≤ k) (S : Mat ℝ) (i : ℕ) :
    colSum k (mfProject k lb hb S) i = cubeProj lb hb (colSum k S) i := by
  have hk' : (k : ℝ) ≠ 0 := by
    have : (0 : ℝ) < k := by exact_mod_cast hk
    exact ne_of_gt this
  show sumTo k (fun _ => cubeProj lb hb (colSum k S) i / natCast' k) = _
  rw [sumTo_const, natCast'_eq]
  field_simp

/-- … so an input whose slot totals are within the wrapped device's bounds keeps its totals. -/
theorem mf_project_in_bounds_keeps_totals (hk : 1 ≤ k) (n : ℕ) (S : Mat ℝ)
    (hS : ∀ i < n, lb i ≤ colSum k S i ∧ colSum k S i ≤ hb i) :
    ∀ i < n, colSum k (mfProject k lb hb S) i = colSum k S i := by
  intro i hi
  rw [mf_project_keeps_totals k lb hb hk]
  exact clamp_of_mem _ _ _ (hS i hi)

/-- the totals are split equally over the conduits. -/
theorem mf_project_equal_split (S : Mat ℝ) (r r' i : ℕ) :
    mfProject k lb hb S r i = mfProject k lb hb S r' i := rfl

/-- the result respects the conduit bounds `(lb, 0)` / `(0, hb)` of the adaptor, given the
constructor's one-directional guard. -/
theorem mf_project_in_conduit_bounds (hk : 1 ≤ k) (n : ℕ) (hlh : ∀ i < n, lb i ≤ hb i) (S : Mat ℝ) (r : ℕ) :
    ((∀ i < n, hb i ≤ 0) → ∀ i < n, lb i ≤ mfProject k lb hb S r i ∧ mfProject k lb hb S r i ≤ 0) ∧
    ((∀ i < n, 0 ≤ lb i) → ∀ i < n, 0 ≤ mfProject k lb hb S r i ∧ mfProject k lb hb S r i ≤ hb i) := by
  have hk' : (1 : ℝ) ≤ k := by exact_mod_cast hk
  have hkpos : (0 : ℝ) < k := by linarith
  constructor
  · intro hneg i hi
    have hc := clamp_mem (lb i) (hb i) (colSum k S i) (hlh i hi)
    show lb i ≤ clamp (lb i) (hb i) (colSum k S i) / natCast' k ∧ clamp (lb i) (hb i) (colSum k S i) / natCast' k ≤ 0
    rw [natCast'_eq]
    have hc0 : clamp (lb i) (hb i) (colSum k S i) ≤ 0 := le_trans hc.2 (hneg i hi)
    constructor
    · rw [le_div_iff₀ hkpos]; nlinarith
    · exact div_nonpos_of_nonpos_of_nonneg hc0 (le_of_lt hkpos)
  · intro hpos i hi
    have hc := clamp_mem (lb i) (hb i) (colSum k S i) (hlh i hi)
    show 0 ≤ clamp (lb i) (hb i) (colSum k S i) / natCast' k ∧ clamp (lb i) (hb i) (colSum k S i) / natCast' k ≤ hb i
    rw [natCast'_eq]
    have hc0 : 0 ≤ clamp (lb i) (hb i) (colSum k S i) := le_trans (hpos i hi) hc.1
    constructor
    · exact div_nonneg hc0 (le_of_lt hkpos)
    · rw [div_le_iff₀ hkpos]; nlinarith

/-- non-vacuity: two conduits, a consumer with a zero-width slot, totals above the bound. -/
example : ∃ (k : ℕ) (lb hb : ℕ → ℝ) (S : Mat ℝ), 1 ≤ k ∧ (∀ i < 2, lb i ≤ hb i) ∧ (∀ i < 2, 0 ≤ lb i) ∧
    lb 1 = hb 1 ∧ hb 0 < colSum k S 0 :=
  ⟨2, fun _ => 0, fun i => if i = 0 then 1 else 0, fun _ _ => 1, by norm_num,
   by intro i _; dsimp only; split_ifs <;> norm_num, by intro i _; norm_num, by norm_num,
   by norm_num [colSum, sumTo]⟩
end mf


/-- a multi-flow adaptor inside a set keeps its contract: the slot totals of its rows of the
set's projection are the wrapped device's projection of the slot totals of its rows of the input. -/
theorem set_project_mf_totals (bp : ℕ → Block ℝ → Mat ℝ → Mat ℝ) (t : Tree ℝ) (S : Mat ℝ)
    (pre : String) (o : ℕ) (b : Block ℝ) (hb : (pre, o, b) ∈ t.blocks "" 0)
    (k : ℕ) (lb hb' : ℕ → ℝ) (hk : 1 ≤ k) (hrows : b.rows = k)
    (hbp : bp o b = (BlockProj.mf k lb hb').run) (i : ℕ) :
    colSum k (shiftRows o (t.project bp 0 S)) i = cubeProj lb hb' (colSum k (shiftRows o S)) i := by
  rw [← mf_project_keeps_totals k lb hb' hk (shiftRows o S) i]
  unfold colSum
  apply sumTo_congr
  intro r hr
  show t.project bp 0 S (o + r) i = _
  rw [set_project_per_block bp t S pre o b hb r i (by omega), hbp]
  rfl

/-! ## utils.project (SciPy SLSQP): a parameter

`utils.project(p, x0, bounds, constraints)` hands `min ‖s − p‖²` to SLSQP.  The solver is not
modelled.  What is proved is the certificate its contract amounts to: a *feasible* point at which
the first-order (variational) condition holds against every feasible point is the nearest
feasible point, and it is unique.  (Full statement wanted: "the returned flow is the nearest flow
satisfying bounds and constraints" — needs a verified solver; the oracle checks feasibility to
1e-6 and distance against random feasible points instead.) -/
theorem utils_project_partial (n : ℕ) (Feas : (ℕ → ℝ) → Prop) (p x : ℕ → ℝ) (hx : Feas x)
    (hkkt : ∀ y, Feas y → sumTo n (fun i => (p i - x i) * (y i - x i)) ≤ 0) :
    Feas x ∧ ∀ y, Feas y → dist2 n p x ≤ dist2 n p y :=
  ⟨hx, fun y hy => dist2_le_of_variational n p x y (hkkt y hy)⟩

/-- non-vacuity: the box projection satisfies the certificate. -/
example : ∃ (Feas : (ℕ → ℝ) → Prop) (p x : ℕ → ℝ), Feas x ∧
    ∀ y, Feas y → sumTo 1 (fun i => (p i - x i) * (y i - x i)) ≤ 0 :=
  ⟨fun y => 0 ≤ y 0 ∧ y 0 ≤ 1, fun _ => 2, fun _ => 1, by norm_num,
   by intro y hy; simp only [sumTo]; nlinarith [hy.1, hy.2]⟩


/-! ## the shortcuts on the composed classes (`VRegion.inter`): closing the gap between the
generic `interProj` theorems and the deep embedding (whose Dykstra state is kept as lists) -/
theorem ofL_toL (m : ℕ) (f : ℕ → ℝ) (i : ℕ) (hi : i < m) : ofL (toL m f) i = f i := by
  unfold ofL toL
  simp [List.getD, hi]

/-- a projection reads only the first `n` coordinates. -/
def LocalProj (n : ℕ) (proj : (ℕ → ℝ) → ℕ → ℝ) : Prop :=
  ∀ x y, (∀ i < n, x i = y i) → ∀ i < n, proj x i = proj y i

theorem cubeProj_local (n : ℕ) (lo hi : ℕ → ℝ) : LocalProj n (cubeProj lo hi) := by
  intro x y e i hi'; unfold cubeProj; rw [e i hi']

theorem halfspaceProj_local (n : ℕ) (nrm : ℕ → ℝ) (o sign : ℝ) : LocalProj n (halfspaceProj n nrm o sign) := by
  intro x y e i hi'
  unfold halfspaceProj
  rw [dot_congr_right nrm e]
  split_ifs
  · exact e i hi'
  · show x i + _ = y i + _
    rw [e i hi']
  · exact e i hi'

theorem isIn_local (n : ℕ) (tol : ℝ) (proj : (ℕ → ℝ) → ℕ → ℝ) (hl : LocalProj n proj) (x y : ℕ → ℝ)
    (e : ∀ i < n, x i = y i) : isIn n tol proj x = isIn n tol proj y := by
  unfold isIn
  have : ∀ a b : Bool, (a = true ↔ b = true) → a = b := by
    intro a b; cases a <;> cases b <;> simp
  apply this
  rw [closeTo_iff, closeTo_iff]
  constructor
  · intro h i hi'; rw [← hl x y e i hi', ← e i hi']; exact h i hi'
  · intro h i hi'; rw [hl x y e i hi', e i hi']; exact h i hi'

theorem sliceProj_local (n : ℕ) (tol : ℝ) (nrm : ℕ → ℝ) (lo hi : ℝ) : LocalProj n (sliceProj n tol nrm lo hi) := by
  intro x y e i hi'
  unfold sliceProj
  rw [isIn_local n tol _ (halfspaceProj_local n nrm lo 1) x y e]
  split_ifs
  · exact halfspaceProj_local n nrm hi (-1) x y e i hi'
  · exact halfspaceProj_local n nrm lo 1 x y e i hi'

/-- **the first shortcut on the composed classes**: for two regions `a`, `b` of the deep embedding
whose `project` / `is_in` are the nearest-point projections / exact membership tests of sets
`MemA`, `MemB` (boxes, half-spaces, slabs at `tol = 0`), if `P_a p ∈ b` then
`Intersection(a, b).project(p)` returns `P_a p`, which is the nearest point of `a ∩ b`. -/
theorem VRegion.inter_shortcut_a (M n : ℕ) (a b : VRegion ℝ) (MemA MemB : (ℕ → ℝ) → Prop)
    (projA projB : (ℕ → ℝ) → ℕ → ℝ)
    (hA : IsProjOnto n MemA projA) (hB : IsProjOnto n MemB projB) (hlA : LocalProj n projA)
    (ha : ∀ x, a.project 0 M n x = .ok (projA x))
    (hib : ∀ x, b.isIn 0 M n x = .ok (isIn n 0 projB x))
    (p : ℕ → ℝ) (hmem : MemB (projA p)) :
    ∃ x, (VRegion.inter a b).project 0 M n p = .ok x ∧ (∀ i < n, x i = projA p i) ∧
      (MemA x ∧ MemB x) ∧ ∀ y, MemA y ∧ MemB y → dist2 n p x ≤ dist2 n p y := by
  have e0 : ∀ i < n, ofL (toL n p) i = p i := fun i hi' => ofL_toL n p i hi'
  set pa := toL n (projA (ofL (toL n p))) with hpa
  have e1 : ∀ i < n, ofL pa i = projA p i := by
    intro i hi'
    rw [hpa, ofL_toL n _ i hi']
    exact hlA _ _ e0 i hi'
  have hmB : MemB (ofL pa) := hB.local_ _ _ (fun i hi' => (e1 i hi').symm) hmem
  have hmA : MemA (ofL pa) := hA.local_ _ _ (fun i hi' => (e1 i hi').symm) (hA.mem p)
  refine ⟨ofL pa, ?_, e1, ⟨hmA, hmB⟩, ?_⟩
  · rw [VRegion.project]
    have h1 : (fun x => Except.map (toL n) (VRegion.project 0 M a n (ofL x))) (toL n p) = .ok pa := by
      simp only [ha, Except.map, hpa]
    have h2 : (fun x => VRegion.isIn 0 M b n (ofL x)) pa = .ok true := by
      simp only [hib]
      rw [(hB.isIn_iff (ofL pa)).mpr hmB]
    rw [interProj_shortcut_a ladd lsub _ _ _ _ _ M _ (toL n p) pa h1 h2]
    rfl
  · intro y hy
    rw [dist2_congr_right p e1]
    exact hA.nearest p y hy.1

/-- **the second shortcut**: `P_a p ∉ b` but `P_b p ∈ a` ⇒ `P_b p` is returned and is the nearest
point of `a ∩ b`. -/
theorem VRegion.inter_shortcut_b (M n : ℕ) (a b : VRegion ℝ) (MemA MemB : (ℕ → ℝ) → Prop)
    (projA projB : (ℕ → ℝ) → ℕ → ℝ)
    (hA : IsProjOnto n MemA projA) (hB : IsProjOnto n MemB projB) (hlA : LocalProj n projA)
    (hlB : LocalProj n projB)
    (ha : ∀ x, a.project 0 M n x = .ok (projA x)) (hb : ∀ x, b.project 0 M n x = .ok (projB x))
    (hia : ∀ x, a.isIn 0 M n x = .ok (isIn n 0 projA x))
    (hib : ∀ x, b.isIn 0 M n x = .ok (isIn n 0 projB x))
    (p : ℕ → ℝ) (hnot : ¬ MemB (projA p)) (hmem : MemA (projB p)) :
    ∃ x, (VRegion.inter a b).project 0 M n p = .ok x ∧ (∀ i < n, x i = projB p i) ∧
      (MemA x ∧ MemB x) ∧ ∀ y, MemA y ∧ MemB y → dist2 n p x ≤ dist2 n p y := by
  have e0 : ∀ i < n, ofL (toL n p) i = p i := fun i hi' => ofL_toL n p i hi'
  set pa := toL n (projA (ofL (toL n p))) with hpa
  set pb := toL n (projB (ofL (toL n p))) with hpb
  have e1 : ∀ i < n, ofL pa i = projA p i := by
    intro i hi'
    rw [hpa, ofL_toL n _ i hi']
    exact hlA _ _ e0 i hi'
  have e2 : ∀ i < n, ofL pb i = projB p i := by
    intro i hi'
    rw [hpb, ofL_toL n _ i hi']
    exact hlB _ _ e0 i hi'
  have hnB : ¬ MemB (ofL pa) := fun h => hnot (hB.local_ _ _ e1 h)
  have hmA : MemA (ofL pb) := hA.local_ _ _ (fun i hi' => (e2 i hi').symm) hmem
  have hmB : MemB (ofL pb) := hB.local_ _ _ (fun i hi' => (e2 i hi').symm) (hB.mem p)
  refine ⟨ofL pb, ?_, e2, ⟨hmA, hmB⟩, ?_⟩
  · rw [VRegion.project]
    have h1 : (fun x => Except.map (toL n) (VRegion.project 0 M a n (ofL x))) (toL n p) = .ok pa := by
      simp only [ha, Except.map, hpa]
    have h2 : (fun x => VRegion.isIn 0 M b n (ofL x)) pa = .ok false := by
      simp only [hib]
      have : isIn n 0 projB (ofL pa) = false :=
        Bool.eq_false_iff.mpr (fun h => hnB ((hB.isIn_iff (ofL pa)).mp h))
      rw [this]
    have h3 : (fun x => Except.map (toL n) (VRegion.project 0 M b n (ofL x))) (toL n p) = .ok pb := by
      simp only [hb, Except.map, hpb]
    have h4 : (fun x => VRegion.isIn 0 M a n (ofL x)) pb = .ok true := by
      simp only [hia]
      rw [(hA.isIn_iff (ofL pb)).mpr hmA]
    rw [interProj_shortcut_b ladd lsub _ _ _ _ _ M _ (toL n p) pa pb h1 h2 h3 h4]
    rfl
  · intro y hy
    rw [dist2_congr_right p e2]
    exact hB.nearest p y hy.2

/-- instance: a box and a half-space (`Intersection(HyperCube, HalfSpace)`), any dimension,
zero-width sides allowed. -/
theorem box_half_shortcut (M n : ℕ) (lo hi nrm : ℕ → ℝ) (o sign : ℝ) (h : ∀ i < n, lo i ≤ hi i)
    (hn : 0 < dot n nrm nrm) (p : ℕ → ℝ) (hmem : HalfMem n nrm o sign (cubeProj lo hi p)) :
    ∃ x, (VRegion.inter (.cube n lo hi) (.half n nrm o sign)).project 0 M n p = .ok x ∧
      (∀ i < n, x i = cubeProj lo hi p i) ∧ (BoxMem n lo hi x ∧ HalfMem n nrm o sign x) ∧
      ∀ y, BoxMem n lo hi y ∧ HalfMem n nrm o sign y → dist2 n p x ≤ dist2 n p y :=
  VRegion.inter_shortcut_a M n _ _ _ _ _ _ (cube_isProjOnto n lo hi h) (halfspace_isProjOnto n nrm o sign hn)
    (cubeProj_local n lo hi) (fun x => VRegion.project_cube 0 M n lo hi x)
    (fun x => VRegion.isIn_half 0 M n nrm o sign x) p hmem

/-- non-vacuity of `box_half_shortcut`: unit square, `x + y ≤ 3`, the point (2, 2). -/
example : ∃ (lo hi nrm p : ℕ → ℝ) (o sign : ℝ), (∀ i < 2, lo i ≤ hi i) ∧ 0 < dot 2 nrm nrm ∧
    HalfMem 2 nrm o sign (cubeProj lo hi p) ∧ ¬ BoxMem 2 lo hi p :=
  ⟨fun _ => 0, fun _ => 1, fun _ => 1, fun _ => 2, 3, -1, by intro i _; norm_num,
   by norm_num [dot, sumTo],
   ⟨fun h => absurd h (by norm_num), fun _ => by norm_num [dot, sumTo, cubeProj, clamp]⟩,
   by intro h; have := (h 0 (by norm_num)).2; norm_num at this⟩


/-- **the composed `Intersection` never returns a point its own membership test rejects**
(any `tol`, `1 ≤ maxiter`): if each part's `project` lands where that part's `is_in` accepts
(`hselfA`, `hselfB`; true of boxes and half-spaces for every `tol ≥ 0`, see
`box_half_result_isIn`), then a value returned by `Intersection(a, b).project` — through either
shortcut or through Dykstra's loop — passes `a.is_in` and `b.is_in`, i.e. `is_in(project(p))`. -/
theorem VRegion.inter_result_isIn (tol : ℝ) (M n : ℕ) (hM : 1 ≤ M) (a b : VRegion ℝ)
    (hselfA : ∀ x y, a.project tol M n x = .ok y → a.isIn tol M n (ofL (toL n y)) = .ok true)
    (hselfB : ∀ x y, b.project tol M n x = .ok y → b.isIn tol M n (ofL (toL n y)) = .ok true)
    (p x : ℕ → ℝ) (h : (VRegion.inter a b).project tol M n p = .ok x) :
    (VRegion.inter a b).isIn tol M n x = .ok true := by
  rw [VRegion.project] at h
  cases hr : interProj ladd lsub (lclose tol)
      (fun x => Except.map (toL n) (VRegion.project tol M a n (ofL x)))
      (fun x => Except.map (toL n) (VRegion.project tol M b n (ofL x)))
      (fun x => VRegion.isIn tol M a n (ofL x)) (fun x => VRegion.isIn tol M b n (ofL x))
      M (List.replicate n 0) (toL n p) with
  | error e => rw [hr] at h; simp [Except.map] at h
  | ok r =>
    rw [hr] at h
    have hx : x = ofL r := by simp [Except.map] at h; exact h.symm
    subst hx
    have key := interProj_ok_mem ladd lsub _ _ _ _ _
      (fun r => VRegion.isIn tol M a n (ofL r) = .ok true)
      (fun r => VRegion.isIn tol M b n (ofL r) = .ok true)
      (by
        intro x r' hx'
        cases hp : VRegion.project tol M a n (ofL x) with
        | error e => simp [hp, Except.map] at hx'
        | ok y =>
          simp [hp, Except.map] at hx'
          rw [← hx']; exact hselfA _ _ hp)
      (by
        intro x r' hx'
        cases hp : VRegion.project tol M b n (ofL x) with
        | error e => simp [hp, Except.map] at hx'
        | ok y =>
          simp [hp, Except.map] at hx'
          rw [← hx']; exact hselfB _ _ hp)
      (fun _ h => h) (fun _ h => h) M hM _ _ r hr
    rw [VRegion.isIn]
    unfold interIsIn
    simp [key.1, key.2, bind, Except.bind]

/-- instance: box ∩ half-space, every `tol ≥ 0`, every dimension. -/
theorem box_half_result_isIn (tol : ℝ) (htol : 0 ≤ tol) (M n : ℕ) (hM : 1 ≤ M) (lo hi nrm : ℕ → ℝ)
    (o sign : ℝ) (hn : 0 < dot n nrm nrm) (p x : ℕ → ℝ)
    (h : (VRegion.inter (.cube n lo hi) (.half n nrm o sign)).project tol M n p = .ok x) :
    (VRegion.inter (.cube n lo hi) (.half n nrm o sign)).isIn tol M n x = .ok true := by
  apply VRegion.inter_result_isIn tol M n hM _ _ _ _ p x h
  · intro x y hxy
    rw [VRegion.project_cube] at hxy
    have e : cubeProj lo hi x = y := by injection hxy
    subst e
    rw [VRegion.isIn_cube]
    congr 1
    unfold isIn
    rw [closeTo_iff]
    intro i hi'
    rw [cubeProj_local n lo hi _ _ (fun j hj => ofL_toL n _ j hj) i hi', ofL_toL n _ i hi',
      cube_proj_idempotent]
    simpa using htol
  · intro x y hxy
    rw [VRegion.project_half] at hxy
    have e : halfspaceProj n nrm o sign x = y := by injection hxy
    subst e
    rw [VRegion.isIn_half]
    congr 1
    unfold isIn
    rw [closeTo_iff]
    intro i hi'
    rw [halfspaceProj_local n nrm o sign _ _ (fun j hj => ofL_toL n _ j hj) i hi', ofL_toL n _ i hi',
      halfspace_proj_idempotent n nrm o sign hn _ i hi']
    simpa using htol



/-! ## the agreement test of the Dykstra loop -/
/-- the list-carrier agreement test is the componentwise `|f − g| ≤ tol`. -/
theorem lclose_toL_iff (tol : ℝ) (n : ℕ) (f g : ℕ → ℝ) :
    lclose tol (toL n f) (toL n g) = true ↔ ∀ i < n, |f i - g i| ≤ tol := by
  unfold lclose toL
  simp [List.zipWith_map, List.zipWith_self, absv_eq_abs]

/-- **why the loop waits for the two iterates to agree.**  Dykstra's iteration maintains
`point = x + p + q` with `p` in the normal cone of `a` at the a-side iterate and `q` in the normal
cone of `b` at the b-side iterate.  When the two iterates coincide in a point `x` of `a ∩ b`, that
point is the nearest point of `a ∩ b` to `point` (no convexity needed for this direction).  Two
*different* feasible iterates carry no such certificate — the defect of the `is_in`-only tests.
(The invariant itself — that the loop's `p`, `q` are normal vectors — rests on the variational
characterisation of the sub-projections and is not formalised here.) -/
theorem dykstra_fixed_point_optimal (n : ℕ) (MemA MemB : (ℕ → ℝ) → Prop) (pt x p q : ℕ → ℝ)
    (hinv : ∀ i < n, pt i = x i + p i + q i)
    (hp : ∀ z, MemA z → sumTo n (fun i => p i * (z i - x i)) ≤ 0)
    (hq : ∀ z, MemB z → sumTo n (fun i => q i * (z i - x i)) ≤ 0) :
    ∀ z, MemA z ∧ MemB z → dist2 n pt x ≤ dist2 n pt z := by
  intro z hz
  apply dist2_le_of_variational
  have e : sumTo n (fun i => (pt i - x i) * (z i - x i))
      = sumTo n (fun i => p i * (z i - x i)) + sumTo n (fun i => q i * (z i - x i)) := by
    rw [← sumTo_add]
    exact sumTo_congr (fun i hi => by rw [hinv i hi]; ring)
  rw [e]
  linarith [hp z hz.1, hq z hz.2]

/-- non-vacuity: unit interval ∩ `x ≤ 1/2`, point 3: the fixed point is `1/2` with `p = 0`, `q = 5/2`. -/
example : ∃ (MemA MemB : (ℕ → ℝ) → Prop) (pt x p q : ℕ → ℝ), (MemA x ∧ MemB x) ∧
    (∀ i < 1, pt i = x i + p i + q i) ∧
    (∀ z, MemA z → sumTo 1 (fun i => p i * (z i - x i)) ≤ 0) ∧
    (∀ z, MemB z → sumTo 1 (fun i => q i * (z i - x i)) ≤ 0) :=
  ⟨fun z => 0 ≤ z 0 ∧ z 0 ≤ 1, fun z => z 0 ≤ 1/2, fun _ => 3, fun _ => 1/2, fun _ => 0, fun _ => 5/2,
   by norm_num, by intro i _; norm_num, by intro z _; simp [sumTo],
   by intro z hz; simp only [sumTo]; nlinarith [hz]⟩


end DK.C18
