import DK.Props.C13
/-!
# C13 (second part) — `map()` is a total, ordered, position-independent pairing

* `mapRows_length`, `mapRows_labels` — one entry per flow-matrix row, and the first components are exactly
  the enumeration of leaf labels, in that order;
* `mapRows_row` — entry `k` carries row `k` of the matrix (for EVERY `k` below the row count — no block
  hypothesis), hence `mapRows_total`: every row is paired with its (unique) owning block's label;
* `mapRows_ext` — entry `k` reads row `k` only: changing other rows of the flow matrix does not change it;
* `labels_prefix` — re-rooting: the labels of a subtree placed under a path `p` are its own labels with `p`
  prepended, so a leaf's label relative to any ancestor is the same wherever that ancestor sits.
-/
namespace DK.C13
open DK DK.C02

theorem mapRows_length (t : Tree ℝ) (h : WF t) (S : Mat ℝ) : (t.mapRows S).length = t.rows := by
  unfold Tree.mapRows
  rw [List.length_map, List.length_zipIdx]
  exact labels_length t h

/-- the labels `map` reports are the leaf enumeration, in row order. -/
theorem mapRows_labels (t : Tree ℝ) (S : Mat ℝ) : (t.mapRows S).map Prod.fst = t.labels "" := by
  unfold Tree.mapRows
  apply List.ext_getElem?
  intro k
  simp only [List.getElem?_map, List.getElem?_zipIdx]
  cases (t.labels "")[k]? <;> simp

/-- entry `k` of `map` is (label `k`, row `k`), for every row index. -/
theorem mapRows_row (t : Tree ℝ) (h : WF t) (S : Mat ℝ) (k : ℕ) (hk : k < t.rows) :
    ∃ l, (t.labels "")[k]? = some l ∧ (t.mapRows S)[k]? = some (l, S k) := by
  have hlen := labels_length t h
  have hk' : k < (t.labels "").length := by omega
  refine ⟨(t.labels "")[k], List.getElem?_eq_getElem hk', ?_⟩
  unfold Tree.mapRows
  rw [List.getElem?_map, List.getElem?_zipIdx, List.getElem?_eq_getElem hk']
  simp

/-- every row of the flow matrix is paired with the label of the block that owns it (and only that block
owns it: `row_owner_unique`). -/
theorem mapRows_total (t : Tree ℝ) (h : WF t) (S : Mat ℝ) (k : ℕ) (hk : k < t.rows) :
    ∃ x : BlockAt, x ∈ t.blocks "" 0 ∧ ∃ r, r < x.b.rows ∧ k = x.off + r ∧
      (t.mapRows S)[k]? = some (x.pre ++ x.b.labels.getD r "", S k) := by
  obtain ⟨x, hx, hlo, hhi⟩ := row_owner t "" k hk
  refine ⟨x, hx, k - x.off, by omega, by omega, ?_⟩
  have := mapRows_get t h S x hx (k - x.off) (by omega)
  have e : x.off + (k - x.off) = k := by omega
  rw [e] at this
  rw [this]
  simp [shiftRows, e]

/-- entry `k` reads row `k` of the matrix only. -/
theorem mapRows_ext (t : Tree ℝ) (S S' : Mat ℝ) (k : ℕ) (hS : S k = S' k) :
    (t.mapRows S)[k]? = (t.mapRows S')[k]? := by
  unfold Tree.mapRows
  simp only [List.getElem?_map, List.getElem?_zipIdx]
  cases (t.labels "")[k]? <;> simp [hS]

mutual
/-- re-rooting: labels under the path `p ++ q` are the labels under `q` with `p` prepended. -/
theorem labels_prefix (p q : String) : (t : Tree ℝ) → t.labels (p ++ q) = (t.labels q).map (p ++ ·)
  | .block b => by
    simp only [Tree.labels, List.map_map]
    apply List.map_congr_left
    intro l _
    simp [String.append_assoc]
  | .node id own cs => by
    simp only [Tree.labels]
    have := labelsL_prefix p (q ++ id ++ ".") cs
    simpa [String.append_assoc] using this
theorem labelsL_prefix (p q : String) : (ts : List (Tree ℝ)) → labelsL ts (p ++ q) = (labelsL ts q).map (p ++ ·)
  | [] => by simp [labelsL]
  | t :: ts => by
    simp only [labelsL, List.map_append]
    rw [labels_prefix p q t, labelsL_prefix p q ts]
end

/-- the labels of a set are its children's labels, each under `id.`, concatenated in child order. -/
theorem labels_node (id : String) (own : NodeSpec ℝ) (cs : List (Tree ℝ)) (pre : String) :
    (Tree.node id own cs).labels pre = (labelsL cs (id ++ ".")).map (pre ++ ·) := by
  simp only [Tree.labels]
  have := labelsL_prefix pre (id ++ ".") cs
  simpa [String.append_assoc] using this

/-- non-vacuity on the example tree (4 blocks, nested 3-row block at offset 2): all rows are listed. -/
example : ∀ k < exTree.rows, ∃ l, ((exTree.mapRows (fun r i => (r : ℝ) + i))[k]?).map Prod.fst = some l := by
  intro k hk
  obtain ⟨l, _, h2⟩ := mapRows_row exTree exTree_WF (fun r i => (r : ℝ) + i) k hk
  exact ⟨l, by rw [h2]; rfl⟩

end DK.C13

#print axioms DK.C13.mapRows_length
#print axioms DK.C13.mapRows_labels
#print axioms DK.C13.mapRows_row
#print axioms DK.C13.mapRows_total
#print axioms DK.C13.mapRows_ext
#print axioms DK.C13.labels_prefix
#print axioms DK.C13.labelsL_prefix
#print axioms DK.C13.labels_node
