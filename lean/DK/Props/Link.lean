import DK.Props.C07tree
import DK.Props.C10
import DK.Props.C14b
import DK.Props.C01all
import DK.Props.C11
import DK.Props.C11d
import DK.Lemmas.Bridge
import Mathlib.Algebra.Order.Archimedean.Real.Basic
/-!
# Link — what the validators accept (C10 / C11) is what the numeric theorems assume (C07 / C14 / C01)

Two families of theorems met only through informal hypotheses:

* (A) `DK.Validate` + `DK.C11`: the constructors and setters as a state machine; what an *accepted* device
  can hold after any history (`PInv`, `ScalarHL`, `HbNonpos`, `cbound_accept_iff`, …);
* (B) `DK.C07`, `DK.C07tree`, `DK.C10`, `DK.C14`, `DK.C14b`, `DK.C01all`: convexity, definedness,
  PSD Hessians and gradients of the numeric model `Leaf ℝ`, under bare hypotheses (`Leaf.ConvexAcc`, …).

## The bridge, and why it has two storeys

`Leaf.Accepted` (`DK/Model/Accept.lean`) is the hinge.  It is a predicate on the *numeric* leaf, it is
decidable, the C10 check evaluates it at exact rationals against the real constructors, and the C10
theorems already use it as their hypothesis.  So the numeric storey is stated from `Leaf.Accepted`:

  `accepted_convexAcc : d.Accepted pr → NotOpenCorner d → d.ConvexAcc`      (§1)
  `accepted_defined`, `accepted_hess_psd`, `accepted_leaf_summary`           (§3–§5)

The state-machine storey maps what a `Validate.Dev` *holds* to a leaf, `Dev.toLeaf?` (§6), and proves that
every device a constructor returns — and every device reached from it by **any** history of assignments, each
accepted or rejected-and-caught (`Reach`, `runAll`) — lands in `Leaf.AcceptedCore` (§7), the part of `Leaf.Accepted`
the numeric theorems actually consume.  It is `Leaf.Accepted` minus two clauses that are **not** invariants of the
setter state machine:

* feasibility of a stored cumulative bound against the *current* per-slot bounds (`set_cbound` checks it
  once, against the bounds of that moment; a later `bounds` assignment is not re-checked) —
  `stale_cbound_reachable`;
* `CDevice2`'s range tiling (`_validate_ranges` runs in `__init__` only) — `cdevice2_ranges_stale`.

Directly after a constructor (no `bounds` keyword repeated) the full `Leaf.Accepted` holds: `construct_accepted`,
and for `TDevice` (`TDev`, one constructor, no setters) `tdeviceCtor_accepted`.  Working from `Dev` alone was not an
option: `Dev` records only the *shape* of a `GDevice` coefficient table and nothing of an `ADevice` function (`Ext`);
real (non-integer) `IDevice` exponents have no `Leaf` at all and get their own statement (§8).

## Open corners (accepted, but outside the numeric theorems)

| class | validator accepts | theorem needs | `NotOpenCorner` |
|---|---|---|---|
| `IDevice` | `b > 0` | `b ≥ 1` | `∀ k < n, 1 ≤ b k` — automatic for the integer exponents of `Leaf` (`idevice_int_no_corner`); the real corner `0 < b < 1` is §8 |
| `SDevice` | `c2 ≤ c1 ∨ c1 = 0` | `c2 ≤ c1` | `c1 = 0 → c2 = 0` |
| `GDevice` | any coefficient table | polynomials convex on the generated range | the property's own restriction |
| `ADevice` | any function | a convex function | the property's own restriction |
-/
set_option linter.unusedVariables false
set_option linter.unusedSimpArgs false

namespace DK.Link
open DK DK.Validate

/-! ## 1. accepted ∧ not in an open corner ⇒ the convexity hypotheses -/

/-- the named open corners, negated: what has to be added to `Leaf.Accepted` to obtain `Leaf.ConvexAcc`. -/
def NotOpenCorner (d : Leaf ℝ) : Prop :=
  match d.kind with
  | .idevice _ b _ => ∀ k < d.n, 1 ≤ b k
  | .sdevice q => q.c1 = 0 → q.c2 = 0
  | .gdevice cs => ∀ k < d.n, ∀ u v : ℝ, -d.hb k ≤ u → u ≤ -d.lb k → -d.hb k ≤ v → v ≤ -d.lb k →
      ∀ θ : ℝ, 0 ≤ θ → θ ≤ 1 →
        polyEval (cs k) (θ * u + (1 - θ) * v) ≤ θ * polyEval (cs k) u + (1 - θ) * polyEval (cs k) v
  | .adevice f => ConvexOnBox d.n d.lb d.hb (f.eval d.n)
  | _ => True

/-- one stored cumulative bound has the shape `set_cbound` insists on whatever the per-slot bounds are. -/
def cbShape (n : ℕ) (cb : CBound ℝ) : Prop := cb.s < cb.e ∧ cb.e ≤ n ∧ cb.l < cb.h

/-- `Leaf.Accepted` without the two clauses that later assignments can invalidate (feasibility of the
cumulative bounds against the current per-slot bounds; `CDevice2`'s range tiling). -/
def _root_.DK.Leaf.AcceptedCore (d : Leaf ℝ) (isProducer : Bool) : Prop :=
  accBounds d.n d.lb d.hb ∧ (isProducer = true → accProducer d.n d.hb) ∧ (∀ cb ∈ d.cbs, cbShape d.n cb) ∧
  (match d.kind with
   | .device => True
   | .cdevice a _ => a ≤ 0
   | .cdevice2 pl ph => accHLQ 1 (fun _ => pl) (fun _ => ph)
   | .idevice a b c => accABC d.n a b c
   | .idevice2 pl ph => accHLQ d.n pl ph
   | .gdevice _ => True
   | .sdevice q => accSParams q
   | .tdevice q => accTParams d.n q
   | .adevice _ => True)

theorem accepted_core (d : Leaf ℝ) (pr : Bool) (h : d.Accepted pr) : d.AcceptedCore pr := by
  obtain ⟨n, lb, hb, cbs, kind⟩ := d
  obtain ⟨h1, h2, h3, h4⟩ := h
  refine ⟨h1, h2, fun cb hcb => ⟨(h3 cb hcb).1, (h3 cb hcb).2.1, (h3 cb hcb).2.2.1⟩, ?_⟩
  cases kind with
  | cdevice2 pl ph => exact h4.1
  | _ => exact h4

/-- the convexity hypotheses follow from the core acceptance conditions outside the open corners. -/
theorem core_convexAcc (d : Leaf ℝ) (pr : Bool) (h : d.AcceptedCore pr) (hc : NotOpenCorner d) : d.ConvexAcc := by
  obtain ⟨n, lb, hb, cbs, kind⟩ := d
  obtain ⟨hbd, _, hcb, hk⟩ := h
  cases kind with
  | device => trivial
  | cdevice a b => trivial
  | cdevice2 pl ph =>
    exact ⟨(hk 0 Nat.zero_lt_one).1, fun c hc' => ⟨le_of_lt (hcb c hc').2.2, (hcb c hc').2.1⟩⟩
  | idevice a b c =>
    exact ⟨fun k hk' => (hk k hk').1, fun k hk' => le_of_lt (hk k hk').2.1, fun k hk' => (hk k hk').2.2, hbd⟩
  | idevice2 pl ph => exact ⟨fun k hk' => (hk k hk').1, hbd⟩
  | gdevice cs => exact hc
  | sdevice q =>
    obtain ⟨h1, h2, h12, h3, _, _, _, _, he, hs⟩ := hk
    refine ⟨h2, ?_, h3, he.1, he.2, le_of_lt hs.1⟩
    by_contra hlt
    have hlt' : q.c1 < q.c2 := not_le.mp hlt
    rcases h1.lt_or_eq with hpos | hz
    · exact h12 ⟨hlt', hpos⟩
    · have : q.c2 = 0 := hc hz.symm
      rw [this, ← hz] at hlt'
      exact lt_irrefl _ hlt'
  | tdevice q => exact ⟨hk.2.2.2, hk.2.2.1⟩
  | adevice f => exact hc

/-- **accepted and not in an open corner ⇒ `Leaf.ConvexAcc`** (the hypothesis of `leaf_cost_convex`,
`ofLeaf_convex`, `ofMF_convex_feasible`, `tree_cost_convex`). -/
theorem accepted_convexAcc (d : Leaf ℝ) (pr : Bool) (h : d.Accepted pr) (hc : NotOpenCorner d) : d.ConvexAcc :=
  core_convexAcc d pr (accepted_core d pr h) hc

/-- for the *integer* exponents of the executable model the `IDevice` corner is empty: `b > 0` is `b ≥ 1`. -/
theorem idevice_int_no_corner (d : Leaf ℝ) (pr : Bool) (h : d.AcceptedCore pr)
    (hk : ∀ q, d.kind ≠ .sdevice q) (hg : ∀ cs, d.kind ≠ .gdevice cs) (ha : ∀ f, d.kind ≠ .adevice f) :
    NotOpenCorner d := by
  obtain ⟨n, lb, hb, cbs, kind⟩ := d
  cases kind with
  | idevice a b c => exact fun k hk' => (h.2.2.2 k hk').2.1
  | sdevice q => exact absurd rfl (hk q)
  | gdevice cs => exact absurd rfl (hg cs)
  | adevice f => exact absurd rfl (ha f)
  | _ => trivial

/-- the classes with no open corner: `Leaf.Accepted` alone gives `Leaf.ConvexAcc`. -/
theorem accepted_convexAcc_closed (d : Leaf ℝ) (pr : Bool) (h : d.Accepted pr)
    (hk : ∀ q, d.kind ≠ .sdevice q) (hg : ∀ cs, d.kind ≠ .gdevice cs) (ha : ∀ f, d.kind ≠ .adevice f) :
    d.ConvexAcc :=
  accepted_convexAcc d pr h (idevice_int_no_corner d pr (accepted_core d pr h) hk hg ha)

/-- for storage the corner is *exactly* what is missing: accepted ⇒ (`ConvexAcc` ↔ `NotOpenCorner`). -/
theorem sdevice_convexAcc_iff (d : Leaf ℝ) (pr : Bool) (q : SParams ℝ) (hq : d.kind = .sdevice q)
    (h : d.Accepted pr) : d.ConvexAcc ↔ NotOpenCorner d := by
  refine ⟨?_, accepted_convexAcc d pr h⟩
  obtain ⟨n, lb, hb, cbs, kind⟩ := d
  simp only at hq
  subst hq
  intro hc hz
  have h2 : 0 ≤ q.c2 := hc.1
  have h12 : q.c2 ≤ q.c1 := hc.2.1
  rw [hz] at h12
  exact le_antisymm h12 h2

/-! ### the two running examples: an accepted `IDevice2` and an accepted `SDevice` -/

/-- a 3-slot `IDevice2`: bounds `[0, 2]`, marginal cost rising from `-3` to `-1`, one cumulative bound. -/
noncomputable def exI2 : Leaf ℝ :=
  { n := 3, lb := fun _ => 0, hb := fun _ => 2, cbs := [⟨1, 5, 0, 3⟩], kind := .idevice2 (fun _ => -3) (fun _ => -1) }

/-- a 3-slot lossy `SDevice` with `c1 = 2 ≥ c2 = 1`. -/
noncomputable def exS : Leaf ℝ :=
  { n := 3, lb := fun _ => -1, hb := fun _ => 1, cbs := [],
    kind := .sdevice ⟨2, 1, 4, 10, 1/5, 1/2, 0, 9/10, 99/100⟩ }

theorem exI2_accepted : exI2.Accepted false := by
  refine ⟨fun k _ => by norm_num [exI2], fun h => (by cases h), ?_, fun k _ => by norm_num [exI2]⟩
  intro cb hcb
  simp only [exI2, List.mem_cons, List.not_mem_nil, or_false] at hcb
  subst hcb
  refine ⟨by norm_num, by norm_num [exI2], by norm_num, ?_, ?_⟩ <;>
    norm_num [exI2, sliceSum, sumRange, sumTo]

theorem exS_accepted : exS.Accepted false := by
  refine ⟨fun k _ => by norm_num [exS], fun h => (by cases h), fun cb hcb => (by simp [exS] at hcb), ?_⟩
  show accSParams _
  unfold accSParams
  norm_num

theorem exI2_notCorner : NotOpenCorner exI2 := trivial
theorem exS_notCorner : NotOpenCorner exS := by
  intro h
  norm_num [exS] at h

example : exI2.ConvexAcc := accepted_convexAcc exI2 false exI2_accepted exI2_notCorner
example : exS.ConvexAcc := accepted_convexAcc exS false exS_accepted exS_notCorner
example : exI2.ConvexAcc := accepted_convexAcc_closed exI2 false exI2_accepted
  (fun _ h => by cases h) (fun _ h => by cases h) (fun _ h => by cases h)
example : exS.ConvexAcc ↔ NotOpenCorner exS := sdevice_convexAcc_iff exS false _ rfl exS_accepted

/-! ## 2. the corners are real: accepted leaves whose cost is NOT convex over the bounds box -/

/-- storage corner: `c1 = 0`, `c2 = 1` (accepted: the `c2` setter only refuses `c2 > c1 > 0`). -/
noncomputable def exSCorner : Leaf ℝ :=
  { n := 2, lb := fun _ => -1, hb := fun _ => 1, cbs := [], kind := .sdevice ⟨0, 1, 0, 10, 0, 0, 0, 1, 1⟩ }

theorem exSCorner_accepted : exSCorner.Accepted false := by
  refine ⟨fun k _ => by norm_num [exSCorner], fun h => (by cases h), fun cb hcb => (by simp [exSCorner] at hcb), ?_⟩
  show accSParams _
  unfold accSParams
  norm_num

theorem exSCorner_corner : ¬ NotOpenCorner exSCorner := by
  intro h
  have : (1 : ℝ) = 0 := h rfl
  norm_num at this

theorem exSCorner_not_convex :
    ¬ ConvexOnBox exSCorner.n exSCorner.lb exSCorner.hb (fun x => exSCorner.cost x (fun _ => 0)) := by
  intro h
  refine C07.sdevice_quadratic_not_convex (h.congr ?_)
  intro x
  show _ = sdevCost 2 ⟨0, 1, 0, 10, 0, 0, 0, 1, 1⟩ x (fun _ => 0)
  simp only [sdevCost, chargeCost, sumTo]
  norm_num

/-- **the storage corner is open**: an accepted `SDevice` outside `NotOpenCorner` whose cost is not convex. -/
theorem sdevice_corner_open :
    ∃ d : Leaf ℝ, d.Accepted false ∧ ¬ NotOpenCorner d ∧ ¬ d.ConvexAcc ∧
      ¬ ConvexOnBox d.n d.lb d.hb (fun x => d.cost x (fun _ => 0)) :=
  ⟨exSCorner, exSCorner_accepted, exSCorner_corner,
    fun h => exSCorner_not_convex (C07tree.leaf_cost_convex exSCorner h _), exSCorner_not_convex⟩

/-- generator corner: the concave cost polynomial `-g²` (any coefficient table is accepted). -/
noncomputable def exGCorner : Leaf ℝ :=
  { n := 1, lb := fun _ => -1, hb := fun _ => 0, cbs := [], kind := .gdevice (fun _ => [-1, 0, 0]) }

theorem exGCorner_accepted : exGCorner.Accepted true := by
  refine ⟨fun k _ => by norm_num [exGCorner], fun _ k _ => (by norm_num [exGCorner]),
    fun cb hcb => (by simp [exGCorner] at hcb), trivial⟩

theorem exGCorner_not_convex :
    ¬ ConvexOnBox exGCorner.n exGCorner.lb exGCorner.hb (fun x => exGCorner.cost x (fun _ => 0)) := by
  intro h
  have h' := h (fun _ => 0) (fun _ => -1) (by intro k _; norm_num [exGCorner]) (by intro k _; norm_num [exGCorner])
    (1/2) (by norm_num) (by norm_num)
  simp only [exGCorner, Leaf.cost, gdevCost, polyEval, List.foldl, sumTo, mix] at h'
  norm_num at h'

/-- **the generator corner is open** (a producer: `hb ≤ 0` holds). -/
theorem gdevice_corner_open :
    ∃ d : Leaf ℝ, d.Accepted true ∧ ¬ NotOpenCorner d ∧ ¬ d.ConvexAcc ∧
      ¬ ConvexOnBox d.n d.lb d.hb (fun x => d.cost x (fun _ => 0)) :=
  ⟨exGCorner, exGCorner_accepted,
    fun h => exGCorner_not_convex (C07tree.leaf_cost_convex exGCorner h _),
    fun h => exGCorner_not_convex (C07tree.leaf_cost_convex exGCorner h _), exGCorner_not_convex⟩

/-- user-function corner: `ADevice` with the concave `Poly2D` `-x²`. -/
noncomputable def exACorner : Leaf ℝ :=
  { n := 1, lb := fun _ => 0, hb := fun _ => 1, cbs := [], kind := .adevice (.poly (fun _ => [-1, 0, 0]) (fun _ => 0)) }

theorem exACorner_accepted : exACorner.Accepted false := by
  refine ⟨fun k _ => by norm_num [exACorner], fun h => (by cases h),
    fun cb hcb => (by simp [exACorner] at hcb), trivial⟩

theorem exACorner_not_convex :
    ¬ ConvexOnBox exACorner.n exACorner.lb exACorner.hb (fun x => exACorner.cost x (fun _ => 0)) := by
  intro h
  have h' := h (fun _ => 0) (fun _ => 1) (by intro k _; norm_num [exACorner]) (by intro k _; norm_num [exACorner])
    (1/2) (by norm_num) (by norm_num)
  simp only [exACorner, Leaf.cost, Fn.eval, priceTerm, polyEval, List.foldl, sumTo, mix] at h'
  norm_num at h'

theorem adevice_corner_open :
    ∃ d : Leaf ℝ, d.Accepted false ∧ ¬ NotOpenCorner d ∧ ¬ d.ConvexAcc ∧
      ¬ ConvexOnBox d.n d.lb d.hb (fun x => d.cost x (fun _ => 0)) :=
  ⟨exACorner, exACorner_accepted,
    fun h => exACorner_not_convex (C07tree.leaf_cost_convex exACorner h _),
    fun h => exACorner_not_convex (C07tree.leaf_cost_convex exACorner h _), exACorner_not_convex⟩

/-! ## 3. accepted ∧ in bounds ⇒ every division and power of the kernels is defined (C10) -/

/-- the C10 side-conditions of the class's *cost* kernel at the flow `s` (`True` for the classes whose cost
has no division and no general power: `Device`, `CDevice`, `GDevice`; `ADevice` is C10's `Fn` half). -/
def _root_.DK.Leaf.CostDefined (d : Leaf ℝ) (s : ℕ → ℝ) : Prop :=
  match d.kind with
  | .idevice a b c => ∀ k < d.n, Gen.abc_cost_defined ipow C10.ipowDef (s k) (a k) (b k) (c k) (d.lb k) (d.hb k)
  | .idevice2 pl ph => ∀ k < d.n, Gen.hlq_cost_defined (s k) (pl k) (ph k) (d.lb k) (d.hb k)
  | .cdevice2 pl ph => ∀ cb ∈ d.cbs, ∀ x : ℝ, Gen.hlq_cost_defined x pl ph cb.l cb.h
  | .sdevice q => q.efficiency ≠ 0 ∧ q.capacity ≠ 0
  | .tdevice q => ∀ k < d.n, ∀ t : ℝ,
      Gen.abc_cost_defined ipow C10.ipowDef t 0 (2 : ℤ) (q.c k) (q.tOptimal - q.tRange) q.tOptimal
  | _ => True

/-- … of the *marginal-cost* kernel. -/
def _root_.DK.Leaf.DerivDefined (d : Leaf ℝ) (s : ℕ → ℝ) : Prop :=
  match d.kind with
  | .idevice a b c => ∀ k < d.n,
      Gen.abc_deriv_defined ipow C10.ipowDef intCast' (s k) (a k) (b k) (c k) (d.lb k) (d.hb k)
  | .idevice2 pl ph => ∀ k < d.n, Gen.hlq_deriv_defined (s k) (pl k) (ph k) (d.lb k) (d.hb k)
  | .cdevice2 pl ph => ∀ cb ∈ d.cbs, ∀ x : ℝ, Gen.hlq_deriv_defined x pl ph cb.l cb.h
  | .sdevice q => q.efficiency ≠ 0 ∧ q.capacity ≠ 0
  | .tdevice q => ∀ k < d.n, ∀ t : ℝ,
      Gen.abc_deriv_defined ipow C10.ipowDef intCast' t 0 (2 : ℤ) (q.c k) (q.tOptimal - q.tRange) q.tOptimal
  | _ => True

/-- … of the *Hessian* kernel (storage / thermal differentiate numerically: nothing to define). -/
def _root_.DK.Leaf.HessDefined (d : Leaf ℝ) (s : ℕ → ℝ) : Prop :=
  match d.kind with
  | .idevice a b c => ∀ k < d.n,
      Gen.abc_hess_defined ipow C10.ipowDef intCast' (s k) (a k) (b k) (c k) (d.lb k) (d.hb k)
  | .idevice2 pl ph => ∀ k < d.n, Gen.hlq_hess_defined (s k) (pl k) (ph k) (d.lb k) (d.hb k)
  | .cdevice2 pl ph => ∀ cb ∈ d.cbs, ∀ x : ℝ, Gen.hlq_hess_defined x pl ph cb.l cb.h
  | .tdevice q => ∀ k < d.n, ∀ t : ℝ,
      Gen.abc_hess_defined ipow C10.ipowDef intCast' t 0 (2 : ℤ) (q.c k) (q.tOptimal - q.tRange) q.tOptimal
  | _ => True

theorem core_defined (d : Leaf ℝ) (pr : Bool) (h : d.AcceptedCore pr) (s : ℕ → ℝ)
    (hs : InBox d.n d.lb d.hb s) : d.CostDefined s ∧ d.DerivDefined s ∧ d.HessDefined s := by
  obtain ⟨n, lb, hb, cbs, kind⟩ := d
  obtain ⟨hbd, _, _, hk⟩ := h
  cases kind with
  | device => exact ⟨trivial, trivial, trivial⟩
  | cdevice a b => exact ⟨trivial, trivial, trivial⟩
  | cdevice2 pl ph =>
    exact ⟨fun cb _ x => C10.hlq_cost_defined _ _ _ _ _, fun cb _ x => C10.hlq_deriv_defined _ _ _ _ _,
      fun cb _ x => C10.hlq_hess_defined _ _ _ _ _⟩
  | idevice a b c => exact C10.idevice_model_defined n lb hb a b c s hbd hk hs
  | idevice2 pl ph =>
    exact ⟨fun k hk' => (C10.idevice2_defined n pl ph lb hb s k hk').1,
      fun k hk' => (C10.idevice2_defined n pl ph lb hb s k hk').2.1,
      fun k hk' => (C10.idevice2_defined n pl ph lb hb s k hk').2.2⟩
  | gdevice cs => exact ⟨trivial, trivial, trivial⟩
  | sdevice q => exact ⟨C10.sdevice_divisors q hk, C10.sdevice_divisors q hk, trivial⟩
  | tdevice q =>
    exact ⟨fun k _ t => (C10.tdevice_kernel_defined t (q.c k) q.tOptimal q.tRange).1,
      fun k _ t => (C10.tdevice_kernel_defined t (q.c k) q.tOptimal q.tRange).2.1,
      fun k _ t => (C10.tdevice_kernel_defined t (q.c k) q.tOptimal q.tRange).2.2⟩
  | adevice f => exact ⟨trivial, trivial, trivial⟩

/-- **accepted ∧ in-bounds flow ⇒ cost, marginal cost and Hessian kernels are all defined** — for the executable
model (integer `IDevice` exponents, so no corner condition survives: `C10.idevice_model_defined`).  The real-exponent
`IDevice`, where marginal cost and Hessian are defined only outside exact corners, is `idevice_real_defined` (§8). -/
theorem accepted_defined (d : Leaf ℝ) (pr : Bool) (h : d.Accepted pr) (s : ℕ → ℝ)
    (hs : InBox d.n d.lb d.hb s) : d.CostDefined s ∧ d.DerivDefined s ∧ d.HessDefined s :=
  core_defined d pr (accepted_core d pr h) s hs

example : exI2.CostDefined (fun _ => 1) ∧ exI2.DerivDefined (fun _ => 1) ∧ exI2.HessDefined (fun _ => 1) :=
  accepted_defined exI2 false exI2_accepted _ (fun k _ => by norm_num [exI2])
example : exS.CostDefined (fun _ => 1/2) ∧ exS.DerivDefined (fun _ => 1/2) ∧ exS.HessDefined (fun _ => 1/2) :=
  accepted_defined exS false exS_accepted _ (fun k _ => by norm_num [exS])

/-! ## 4. accepted ∧ not in a corner ⇒ the (analytic) Hessian is positive semidefinite (C14, C14b) -/

/-- integer-exponent companion of `abcHess_rpow_nonneg`. -/
theorem abcHess_ipow_nonneg (x a : ℝ) (b : ℤ) (c xl xh : ℝ) (hb : 1 ≤ b) (hc : 0 ≤ c)
    (hq : 0 ≤ abcQ x xl xh a) : 0 ≤ abcHess ipow intCast' x a b c xl xh := by
  unfold abcHess
  split_ifs with h
  · exact le_refl 0
  · rw [intCast'_eq]
    have hb2 : 2 ≤ b := by
      rcases (show b = 1 ∨ 2 ≤ b by omega) with h1 | h2
      · exfalso; apply h; right; rw [intCast'_eq, h1]; norm_num
      · exact h2
    have h1 : 0 ≤ ipow (abcQ x xl xh a) (b - 2) := by
      rw [ipow_of_nonneg _ _ (by omega)]; exact pow_nonneg hq _
    have h2 : (0 : ℝ) ≤ (b : ℝ) := by exact_mod_cast (by omega : (0 : ℤ) ≤ b)
    have h3 : (0 : ℝ) ≤ (b : ℝ) - 1 := by
      have : (1 : ℝ) ≤ (b : ℝ) := by exact_mod_cast hb
      linarith
    exact mul_nonneg (mul_nonneg (mul_nonneg (mul_nonneg hc h2) h3) h1) (mul_self_nonneg _)

/-- inside the bounds of an accepted slot the base `q` of the curve is non-negative (or the slot has zero width,
where every kernel returns `0`). -/
theorem abcHess_ipow_nonneg_box (x a : ℝ) (b : ℤ) (c xl xh : ℝ) (hle : xl ≤ xh) (hx : xl ≤ x ∧ x ≤ xh)
    (ha : 0 ≤ a) (hb : 1 ≤ b) (hc : 0 ≤ c) : 0 ≤ abcHess ipow intCast' x a b c xl xh := by
  rcases hle.lt_or_eq with hlt | heq
  · refine abcHess_ipow_nonneg x a b c xl xh hb hc ?_
    rw [← Bridge.abc_q]
    exact C10.abc_q_nonneg x xl xh a hlt hx ha
  · unfold abcHess
    rw [if_pos (Or.inl heq)]

/-- the kinds with a PSD theorem in C14 / C14b (`GDevice`, `ADevice`: symmetric Hessians only). -/
def _root_.DK.Leaf.PsdKind (d : Leaf ℝ) : Prop :=
  match d.kind with
  | .gdevice _ | .adevice _ => False
  | _ => True

theorem core_hess_psd (d : Leaf ℝ) (pr : Bool) (h : d.AcceptedCore pr) (hc : NotOpenCorner d) (hp : d.PsdKind)
    (s : ℕ → ℝ) (hs : InBox d.n d.lb d.hb s) (Hm : ℕ → ℕ → ℝ) (H : ∀ i j, d.hess2 s i j = some (Hm i j)) :
    C14.PSD d.n Hm := by
  have hacc := core_convexAcc d pr h hc
  obtain ⟨n, lb, hb, cbs, kind⟩ := d
  obtain ⟨hbd, _, hcb, hk⟩ := h
  cases kind with
  | device =>
    have e : Hm = fun _ _ => 0 := by funext i j; exact (Option.some.inj (H i j)).symm
    subst e; exact C14.PSD.zero n
  | cdevice a b =>
    have e : Hm = fun _ _ => 0 := by funext i j; exact (Option.some.inj (H i j)).symm
    subst e; exact C14.PSD.zero n
  | cdevice2 pl ph =>
    have e : Hm = cdev2Hess pl ph cbs := by funext i j; exact (Option.some.inj (H i j)).symm
    subst e; exact C14.cdevice2_hess_psd n pl ph cbs hacc.1 hacc.2
  | idevice a b c =>
    have e : Hm = idevHess ipow intCast' a b c lb hb s := by
      funext i j; exact (Option.some.inj (H i j)).symm
    subst e
    exact C14.PSD.diag n (fun i => abcHess ipow intCast' (s i) (a i) (b i) (c i) (lb i) (hb i))
      (fun i hi => abcHess_ipow_nonneg_box _ _ _ _ _ _ (hbd i hi) (hs i hi) (hk i hi).1 (hc i hi) (hk i hi).2.2)
  | idevice2 pl ph =>
    have e : Hm = idev2Hess pl ph lb hb := by funext i j; exact (Option.some.inj (H i j)).symm
    subst e; exact C14.idevice2_hess_psd n pl ph lb hb hacc.1 hacc.2
  | gdevice cs => exact absurd hp id
  | sdevice q =>
    have e : Hm = sdevHess n q s := by funext i j; exact (Option.some.inj (H i j)).symm
    subst e; exact C14b.sdevice_hess_psd n q s hacc.1 hacc.2.1 hacc.2.2.1
  | tdevice q =>
    have e : Hm = tdevHess n q s := by funext i j; exact (Option.some.inj (H i j)).symm
    subst e; exact C14b.tdevice_hess_psd n q s hacc.1
  | adevice f => exact absurd hp id

/-- **accepted ∧ not in a corner ⇒ the Hessian (`Leaf.hess2`: closed form where the source has one, the analytic
second derivative for storage / thermal) is PSD at every in-bounds flow.** -/
theorem accepted_hess_psd (d : Leaf ℝ) (pr : Bool) (h : d.Accepted pr) (hc : NotOpenCorner d) (hp : d.PsdKind)
    (s : ℕ → ℝ) (hs : InBox d.n d.lb d.hb s) (Hm : ℕ → ℕ → ℝ) (H : ∀ i j, d.hess2 s i j = some (Hm i j)) :
    C14.PSD d.n Hm :=
  core_hess_psd d pr (accepted_core d pr h) hc hp s hs Hm H

example : C14.PSD 3 (idev2Hess (fun _ => -3) (fun _ => -1) (fun _ => 0) (fun _ => 2)) :=
  accepted_hess_psd exI2 false exI2_accepted exI2_notCorner trivial (fun _ => 1) (fun k _ => by norm_num [exI2]) _
    (fun _ _ => rfl)
example : C14.PSD 3 (sdevHess 3 ⟨2, 1, 4, 10, 1/5, 1/2, 0, 9/10, 99/100⟩ (fun _ => 1/2)) :=
  accepted_hess_psd exS false exS_accepted exS_notCorner trivial (fun _ => 1/2) (fun k _ => by norm_num [exS]) _
    (fun _ _ => rfl)

/-- in the storage corner the analytic Hessian is indefinite (`vᵀHv = -2` at `v = (1, 1)`). -/
theorem exSCorner_hess_not_psd : ¬ C14.PSD 2 (sdevHess 2 ⟨0, 1, 0, 10, 0, 0, 0, 1, 1⟩ (fun _ => 0)) := by
  intro h
  have := h (fun _ => 1)
  simp only [sdevHess, sumTo] at this
  norm_num at this

/-! ## 5. the chain: accepted, not in a corner ⇒ convex cost whose reported marginal cost is its gradient -/

open DK.C01all in
/-- what is left of `Leaf.NoKink` once the device is accepted and outside the corners: only the genuinely
flow-dependent kinks (a resting slot of a lossy store; the kinks of a user function). -/
def ResidualKink (d : Leaf ℝ) (s : ℕ → ℝ) : Prop :=
  match d.kind with
  | .sdevice q => q.efficiency = 1 ∨ ∀ k < d.n, s k ≠ 0
  | .adevice f => DK.NoKink f d.n s
  | _ => True

open DK.C01all in
theorem core_noKink (d : Leaf ℝ) (pr : Bool) (h : d.AcceptedCore pr) (hc : NotOpenCorner d) (s : ℕ → ℝ)
    (hr : ResidualKink d s) : Leaf.NoKink d s := by
  obtain ⟨n, lb, hb, cbs, kind⟩ := d
  obtain ⟨_, _, hcb, hk⟩ := h
  cases kind with
  | cdevice2 pl ph => exact fun c hc' => (hcb c hc').2.1
  | idevice a b c => exact hc
  | sdevice q =>
    obtain ⟨_, _, _, _, _, _, _, _, he, _⟩ := hk
    exact ⟨he.1, hr⟩
  | adevice f => exact hr
  | _ => trivial

open DK.C01all in
/-- **summary**: for an accepted leaf outside the open corners the cost is convex over the bounds box, and at
every in-bounds kink-free flow the reported marginal cost is its gradient. -/
theorem accepted_leaf_summary (d : Leaf ℝ) (pr : Bool) (p : ℕ → ℝ) (h : d.Accepted pr) (hc : NotOpenCorner d) :
    ConvexOnBox d.n d.lb d.hb (fun x => d.cost x p) ∧
    (∀ s, InBox d.n d.lb d.hb s → Leaf.NoKink d s → IsGradAt d.n (fun x => d.cost x p) (d.deriv s p) s) :=
  ⟨C07tree.leaf_cost_convex d (accepted_convexAcc d pr h hc) p, fun s _ hk => leaf_grad d s p hk⟩

open DK.C01all in
/-- the same with the kink hypothesis reduced to its flow-dependent residue, plus definedness and PSD. -/
theorem accepted_leaf_summary_full (d : Leaf ℝ) (pr : Bool) (p : ℕ → ℝ) (h : d.Accepted pr) (hc : NotOpenCorner d) :
    ConvexOnBox d.n d.lb d.hb (fun x => d.cost x p) ∧
    (∀ s, InBox d.n d.lb d.hb s →
      (d.CostDefined s ∧ d.DerivDefined s ∧ d.HessDefined s) ∧
      (ResidualKink d s → IsGradAt d.n (fun x => d.cost x p) (d.deriv s p) s) ∧
      (d.PsdKind → ∀ Hm : ℕ → ℕ → ℝ, (∀ i j, d.hess2 s i j = some (Hm i j)) → C14.PSD d.n Hm)) :=
  ⟨C07tree.leaf_cost_convex d (accepted_convexAcc d pr h hc) p, fun s hs =>
    ⟨accepted_defined d pr h s hs,
     fun hr => leaf_grad d s p (core_noKink d pr (accepted_core d pr h) hc s hr),
     fun hp Hm H => accepted_hess_psd d pr h hc hp s hs Hm H⟩⟩

open DK.C01all in
/-- **first-order optimality certificate for an accepted leaf** (chains C11/C10 → C07 → C01 → `first_order_certificate`):
at an in-bounds kink-free flow `x`, if the reported marginal cost has directional derivative `≥ -ε` towards every
in-bounds flow, then `x` is `ε`-optimal over the whole box. -/
theorem accepted_first_order_opt (d : Leaf ℝ) (pr : Bool) (p : ℕ → ℝ) (h : d.Accepted pr) (hc : NotOpenCorner d)
    (x : ℕ → ℝ) (ε : ℝ) (hx : InBox d.n d.lb d.hb x) (hk : Leaf.NoKink d x)
    (hopt : ∀ y, InBox d.n d.lb d.hb y → -ε ≤ sumTo d.n (fun k => d.deriv x p k * (y k - x k))) :
    ∀ y, InBox d.n d.lb d.hb y → d.cost x p - ε ≤ d.cost y p := by
  obtain ⟨hcv, hg⟩ := accepted_leaf_summary d pr p h hc
  exact C07.first_order_certificate d.n d.lb d.hb (fun z => d.cost z p) (d.deriv x p) x ε hcv hx
    (fun y _ => hg x hx hk (fun k => y k - x k)) hopt

example (p : ℕ → ℝ) : ConvexOnBox 3 exI2.lb exI2.hb (fun x => exI2.cost x p) ∧
    (∀ s, InBox 3 exI2.lb exI2.hb s → DK.C01all.Leaf.NoKink exI2 s →
      IsGradAt 3 (fun x => exI2.cost x p) (exI2.deriv s p) s) :=
  accepted_leaf_summary exI2 false p exI2_accepted exI2_notCorner

example (p : ℕ → ℝ) : ConvexOnBox 3 exS.lb exS.hb (fun x => exS.cost x p) ∧
    (∀ s, InBox 3 exS.lb exS.hb s → DK.C01all.Leaf.NoKink exS s →
      IsGradAt 3 (fun x => exS.cost x p) (exS.deriv s p) s) :=
  accepted_leaf_summary exS false p exS_accepted exS_notCorner

example (p : ℕ → ℝ) := accepted_leaf_summary_full exI2 false p exI2_accepted exI2_notCorner
example (p : ℕ → ℝ) := accepted_leaf_summary_full exS false p exS_accepted exS_notCorner

/-- the kink hypotheses are satisfiable on the running examples (every flow for `IDevice2`; a flow with no resting
slot for the lossy `SDevice`). -/
example : DK.C01all.Leaf.NoKink exI2 (fun _ => 1) := trivial
example : DK.C01all.Leaf.NoKink exS (fun _ => 1/2) :=
  core_noKink exS false (accepted_core _ _ exS_accepted) exS_notCorner _ (Or.inr (fun k _ => by norm_num))

/-- `accepted_first_order_opt` on the `IDevice2` example at price `3`: the marginal cost at the lower bound `0` is
`-3 + 3 = 0`, so the zero flow is optimal. -/
example : ∀ y, InBox 3 exI2.lb exI2.hb y → exI2.cost (fun _ => 0) (fun _ => 3) - 0 ≤ exI2.cost y (fun _ => 3) :=
  accepted_first_order_opt exI2 false (fun _ => 3) exI2_accepted exI2_notCorner (fun _ => 0) 0
    (fun k _ => by norm_num [exI2]) trivial
    (by
      intro y hy
      have e : ∀ k, exI2.deriv (fun _ => 0) (fun _ => 3) k = 0 := by
        intro k
        simp only [exI2, Leaf.deriv, idev2Deriv, hlqDeriv]
        norm_num
      simp only [e, zero_mul, sumTo_zero_fn, neg_zero, le_refl])

/-! ## 6. the abstraction: from what a `Validate.Dev` holds to the numeric leaf -/

/-- the settings `Dev` records only the shape of (`GDevice.cost_coeffs`) or not at all (`ADevice`'s function). -/
structure Ext where
  coeffs : ℕ → List ℝ
  fn : Fn ℝ

/-- value of a (broadcast) curve parameter in slot `k`. -/
abbrev slot (p : PVal ℝ) (k : ℕ) : ℝ := C11.PVal.at p k

/-- a stored 4-tuple as the leaf's cumulative bound (accepted ones have `0 ≤ start < end ≤ len`). -/
def cb4ToLeaf (c : CBound4 ℝ) : CBound ℝ := ⟨c.l, c.h, c.s.toNat, c.e.toNat⟩

/-- the stored cumulative bounds (`None` ↦ no bound). -/
def devCbs (d : Dev ℝ) : List (CBound ℝ) := (d.cbounds.getD []).map cb4ToLeaf

open Classical in
/-- the exponent vector as integers, when every slot holds an integer (the executable `Leaf` model has integer
exponents only; a device with a non-integer exponent has no `Leaf` and is treated in §8). -/
noncomputable def intExps? (p : PVal ℝ) (n : ℕ) : Option (ℕ → ℤ) :=
  if ∀ k < n, slot p k = ((⌊slot p k⌋ : ℤ) : ℝ) then some (fun k => ⌊slot p k⌋) else none

/-- `PVDevice` and `GDevice` are the producers (`Leaf.Accepted`'s flag). -/
def producerCls : Cls → Bool
  | .gdevice | .pvdevice => true
  | _ => false

/-- the class parameters as a `Kind`. -/
noncomputable def devKind? (d : Dev ℝ) (x : Ext) : Option (Kind ℝ) :=
  match d.cls with
  | .device => some .device
  | .pvdevice => some .device
  | .cdevice => some (.cdevice d.ca d.cb)
  | .cdevice2 =>
    match d.pl, d.ph with
    | .scalar pl, .scalar ph => some (.cdevice2 pl ph)
    | _, _ => none
  | .idevice => (intExps? d.ib d.n).map (fun b => .idevice (slot d.ia) b (slot d.ic))
  | .idevice2 => some (.idevice2 (slot d.pl) (slot d.ph))
  | .gdevice => some (.gdevice x.coeffs)
  | .sdevice => some (.sdevice ⟨d.c1, d.c2, d.c3, d.capacity, d.damageDepth, d.start, d.reserve,
      d.efficiency, d.sustainment⟩)
  | .adevice => some (.adevice x.fn)

/-- **the abstraction**: the numeric leaf a device with a fully numeric `len`-row bounds table denotes
(`none`: an all-`None` or mis-sized table, vector slopes on a `CDevice2`, a non-integer `IDevice` exponent). -/
noncomputable def _root_.DK.Validate.Dev.toLeaf? (d : Dev ℝ) (x : Ext) : Option (Leaf ℝ) :=
  if tableNumeric d.table = true ∧ d.table.length = d.n then
    (devKind? d x).map (fun k => ⟨d.n, lbOf d.table, hbOf d.table, devCbs d, k⟩)
  else none

/-! ## 7. every reachable device denotes a leaf in `Leaf.AcceptedCore` -/

/-- shape of a stored cumulative bound. -/
def cb4Shape (n : ℕ) (c : CBound4 ℝ) : Prop := 0 ≤ c.s ∧ c.s < c.e ∧ c.e ≤ (n : ℤ) ∧ c.l < c.h

/-- the invariant of **every** assignment, accepted or rejected (validators now check before they store; the one
store-before-raise left — a mis-read `bounds` table on a length-2 device, `C11.rejected_bounds_misread_retained` —
still stores a table that passed the `low ≤ high` check: `validateBoundsW_tableOK`). -/
structure RInv (d : Dev ℝ) : Prop where
  pinv : C11.PInv d
  shl : C11.ScalarHL d
  tab : C11.TableOK d.table
  cb : ∀ cs, d.cbounds = some cs → ∀ c ∈ cs, cb4Shape d.n c
  gen : (d.cls = .gdevice ∨ d.cls = .pvdevice) → C11.HbNonpos d

theorem rinv_default (cls : Cls) (n : ℕ) : RInv (Dev.default cls n : Dev ℝ) where
  pinv := C11.pinv_default cls n
  shl := C11.scalarHL_default cls n
  tab := Or.inl (fun r hr => by simp [Dev.default] at hr)
  cb := fun cs h => by simp [Dev.default] at h
  gen := fun _ r hr => by simp [Dev.default] at hr

/-- on an all-`None` table no cumulative bound is ever accepted (`None + None` is a `TypeError`). -/
theorem cb4None_ne_none (n : ℕ) (c : CBound4 ℝ) : cb4None n c ≠ none := by
  unfold cb4None
  by_cases hr : cbRangeOk n c = true
  · obtain ⟨h0, h1, h2⟩ := (C11.cbRangeOk_iff n c).mp hr
    have hclip : ¬ clipIdx n c.e ≤ clipIdx n c.s := by
      unfold clipIdx
      split_ifs <;> omega
    rw [if_neg (not_not.mpr hr)]
    split_ifs <;> simp
  · rw [if_pos hr]; simp

theorem cbLoopNone_nil (n : ℕ) (xs : List (CbItem ℝ)) (cs : List (CBound4 ℝ))
    (h : cbLoopNone n xs = (cs, none)) : cs = [] := by
  cases xs with
  | nil => simp [cbLoopNone] at h; exact h
  | cons it rest =>
    cases it with
    | bad k => simp [cbLoopNone] at h
    | four c =>
      simp only [cbLoopNone] at h
      cases hc : cb4None n c with
      | none => exact absurd hc (cb4None_ne_none n c)
      | some e => simp [hc] at h

theorem setCboundsNone_nil (n : ℕ) (spec : CbSpec ℝ) (st : Option (List (CBound4 ℝ)))
    (h : setCboundsNone n spec = (st, none)) : ∀ cs, st = some cs → cs = [] := by
  intro cs hcs
  subst hcs
  cases spec with
  | pyNone => simp [setCboundsNone] at h
  | notSeq => simp [setCboundsNone] at h
  | pair l hh =>
    simp only [setCboundsNone] at h
    cases hc : cb4None n ⟨l, hh, 0, (n : ℤ)⟩ with
    | none => exact absurd hc (cb4None_ne_none n _)
    | some e => simp [hc] at h
  | items xs =>
    have key : (∃ y, xs = [.bad none, y] ∧ setCboundsNone n (.items xs) = (some [], some .typeError)) ∨
        setCboundsNone n (.items xs) = (some (cbLoopNone n xs).1, (cbLoopNone n xs).2) := by
      match xs with
      | [] => right; rfl
      | .four _ :: _ => right; rfl
      | .bad (some _) :: _ => right; rfl
      | [.bad none] => right; rfl
      | .bad none :: _ :: _ :: _ => right; rfl
      | [.bad none, y] => left; exact ⟨y, rfl, rfl⟩
    rcases key with ⟨y, _, hr⟩ | hr
    · rw [hr] at h; simp at h
    · rw [hr] at h
      have h1 : cs = (cbLoopNone n xs).1 := by have := congrArg Prod.fst h; simpa using this.symm
      have h2 : (cbLoopNone n xs).2 = none := by have := congrArg Prod.snd h; simpa using this
      rw [h1]
      exact cbLoopNone_nil n xs _ (by rw [← h2])

theorem cb4Ok_shape (n : ℕ) (lb hb : ℕ → ℝ) (c : CBound4 ℝ) (h : cb4Ok n lb hb c = true) : cb4Shape n c := by
  obtain ⟨⟨h0, h1, h2⟩, h3, _, _⟩ := (C11.cbound_accept_iff n lb hb c).mp h
  exact ⟨h0, h1, h2, h3⟩

theorem finish_tableOK {w w' : ℕ} {rows : List (Row ℝ)} {t : Table ℝ} (h : finish w rows = .ok (w', t)) :
    C11.TableOK t := by
  obtain ⟨_, ht, _, hr⟩ := C11.finish_spec h
  rw [ht]; exact C11.tableOK_of_rows hr

theorem pairPath_tableOK {n w : ℕ} {a b : PyVal ℝ} {t : Table ℝ} (h : pairPath n a b = .ok (w, t)) :
    C11.TableOK t := by
  unfold pairPath at h
  simp only at h
  repeat' split at h
  all_goals first
    | exact finish_tableOK h
    | simp at h

/-- whatever `validate_bounds` returns — also in the mis-read region, where the width is not 2 — passed the
`low ≤ high` (or all-`None`) check. -/
theorem validateBoundsW_tableOK {v : PyVal ℝ} {n w : ℕ} {t : Table ℝ} (h : validateBoundsW v n = .ok (w, t)) :
    C11.TableOK t := by
  unfold validateBoundsW at h
  repeat' split at h
  all_goals first
    | exact finish_tableOK h
    | exact pairPath_tableOK h
    | simp at h

/-- one assignment — **accepted or rejected** — preserves `RInv`. -/
theorem step_rinv {d : Dev ℝ} {f : Field} {v : Val ℝ} {r : Dev ℝ × Option Err} (h : C11.Step d f v r) (hi : RInv d) :
    RInv r.1 := by
  have hp : C11.PInv r.1 := C11.step_pinv h hi.pinv
  have hs : C11.ScalarHL r.1 := C11.step_scalarHL h hi.shl
  obtain ⟨hcls, hn, htab, hcb⟩ := C11.step_frame h
  have hg : (r.1.cls = .gdevice ∨ r.1.cls = .pvdevice) → C11.HbNonpos r.1 := by
    intro hc
    rw [hcls] at hc
    exact C11.step_gen hc h (hi.gen hc)
  refine ⟨hp, hs, ?_, ?_, hg⟩
  · by_cases hf : f = .bounds
    · subst hf
      cases h with
      | rejected e => exact hi.tab
      | bounds bv w t e hf' hv hw hg' he => exact validateBoundsW_tableOK hw
      | attr ho => exact absurd (C11.owns_bounds d) ho
      | _ => contradiction
    · rw [htab hf]; exact hi.tab
  · by_cases hf : f = .cbounds
    · subst hf
      cases h with
      | rejected e => exact hi.cb
      | attr ho => exact absurd (C11.owns_cbounds d) ho
      | cbNone hf' hv => intro cs hcs; cases hcs
      | cb spec st hf' hv hs' hr =>
        intro cs hcs c hc
        simp only at hcs
        subst hcs
        by_cases hnum : tableNumeric d.table = true
        · rw [if_pos hnum] at hr
          exact cb4Ok_shape _ _ _ c (((C11.setCbounds_ok_iff _ _ _ spec (some cs)).mp hr).2 cs rfl c hc)
        · rw [if_neg hnum] at hr
          have := setCboundsNone_nil d.n spec (some cs) hr cs rfl
          subst this
          cases hc
      | _ => contradiction
    · rw [hcb hf, hn]; exact hi.cb

/-- **any history of assignments, accepted or rejected-and-caught, preserves `RInv`.** -/
theorem runAll_rinv {d : Dev ℝ} (hi : RInv d) (ops : List (Field × Val ℝ)) : RInv (runAll d ops) := by
  induction ops generalizing d with
  | nil => exact hi
  | cons p rest ih =>
    obtain ⟨f, v⟩ := p
    simp only [runAll]
    exact ih (step_rinv (C11.setField_step d f v) hi)

theorem setAll_rinv {d d' : Dev ℝ} {ops : List (Field × Val ℝ)} (hi : RInv d) (h : setAll d ops = .ok d') :
    RInv d' := by
  rw [C11.setAll_eq_runAll h]; exact runAll_rinv hi ops

/-- `CDevice2.__init__` after the base constructor: nothing, or one (accepted) `cbounds` assignment. -/
theorem cdevice2Post_step {d d' : Dev ℝ} (h : cdevice2Post d = .ok d') :
    d' = d ∨ setField d .cbounds (.cbounds (.pair (sumTo d.n (lbOf d.table)) (sumTo d.n (hbOf d.table)))) = (d', none) := by
  unfold cdevice2Post at h
  have ranges : ∀ d1 : Dev ℝ, cdevice2Ranges d1 = .ok d' → d' = d1 := fun d1 h2 => (C11.cdevice2Ranges_ok h2).1
  cases hfill : cdevice2Fill d with
  | error e => simp [hfill] at h
  | ok d1 =>
    simp only [hfill] at h
    have e1 := ranges d1 h
    subst e1
    unfold cdevice2Fill at hfill
    split at hfill
    · left; cases hfill; rfl
    · split_ifs at hfill
      right
      cases hr : setField d .cbounds (.cbounds (.pair (sumTo d.n (lbOf d.table)) (sumTo d.n (hbOf d.table)))) with
      | mk d2 e =>
        rw [hr] at hfill
        cases e with
        | some e => simp at hfill
        | none => simp only [Except.ok.injEq] at hfill; rw [hfill]

theorem cdevice2Post_rinv {d d' : Dev ℝ} (hi : RInv d) (h : cdevice2Post d = .ok d') : RInv d' := by
  rcases cdevice2Post_step h with rfl | hs
  · exact hi
  · have := C11.setField_step d .cbounds (.cbounds (.pair (sumTo d.n (lbOf d.table)) (sumTo d.n (hbOf d.table))))
    rw [hs] at this
    exact step_rinv this hi

theorem construct_rinv {cls : Cls} {n : ℕ} {bv : PyVal ℝ} {cb : CbSpec ℝ} {kw : List (Field × Val ℝ)} {d : Dev ℝ}
    (h : construct cls n bv cb kw = .ok d) : RInv d := by
  unfold construct at h
  cases hs : setAll (Dev.default cls n) ((.bounds, .bounds bv) :: (.cbounds, .cbounds cb) :: kw) with
  | error e => simp [hs] at h
  | ok d0 =>
    simp only [hs] at h
    have h0 : RInv d0 := setAll_rinv (rinv_default cls n) hs
    split_ifs at h
    · exact cdevice2Post_rinv h0 h
    · cases h; exact h0

/-- **reachable**: returned by a constructor, then **any** history of assignments — each one accepted, or rejected
and the exception caught (`runAll`). -/
def Reach (d : Dev ℝ) : Prop :=
  ∃ (cls : Cls) (n : ℕ) (bv : PyVal ℝ) (cb : CbSpec ℝ) (kw : List (Field × Val ℝ)) (d0 : Dev ℝ)
    (ops : List (Field × Val ℝ)), construct cls n bv cb kw = .ok d0 ∧ runAll d0 ops = d

/-- in particular: a constructor followed by accepted assignments only. -/
theorem reach_of_setAll {cls : Cls} {n : ℕ} {bv : PyVal ℝ} {cb : CbSpec ℝ} {kw : List (Field × Val ℝ)} {d0 d : Dev ℝ}
    {ops : List (Field × Val ℝ)} (hc : construct cls n bv cb kw = .ok d0) (hs : setAll d0 ops = .ok d) : Reach d :=
  ⟨cls, n, bv, cb, kw, d0, ops, hc, (C11.setAll_eq_runAll hs).symm⟩

theorem reach_rinv {d : Dev ℝ} (h : Reach d) : RInv d := by
  obtain ⟨cls, n, bv, cb, kw, d0, ops, hc, rfl⟩ := h
  exact runAll_rinv (construct_rinv hc) ops

/-! ### from the invariant to `Leaf.AcceptedCore` -/

theorem tableOK_lb_le_hb (t : Table ℝ) (h : C11.TableOK t) (k : ℕ) : lbOf t k ≤ hbOf t k := by
  unfold lbOf hbOf
  cases ht : t[k]? with
  | none => simp
  | some r =>
    have hr : r ∈ t := List.mem_of_getElem? ht
    rcases h with h | h
    · rw [h r hr]
    · obtain ⟨l, hh, e, hle⟩ := h r hr
      subst e
      simpa using hle

theorem hbNonpos_hb (t : Table ℝ) (h : ∀ r ∈ t, ∃ hh, r.2 = some hh ∧ hh ≤ 0) (k : ℕ) : hbOf t k ≤ 0 := by
  unfold hbOf
  cases ht : t[k]? with
  | none => simp
  | some r =>
    obtain ⟨hh, e, hle⟩ := h r (List.mem_of_getElem? ht)
    obtain ⟨r1, r2⟩ := r
    simp only at e
    subst e
    simpa using hle

/-- slot-wise reading of a validated scalar-or-vector parameter. -/
theorem slot_of_all (p : PVal ℝ) (n : ℕ) (P : ℝ → Prop) (hl : p.lenOk n = true)
    (h : ∀ x ∈ C11.PVal.toList p, P x) : ∀ i < n, P (slot p i) := by
  intro i hi
  cases p with
  | scalar x => exact h x (by simp [C11.PVal.toList])
  | vec xs =>
    simp [PVal.lenOk] at hl
    have hi' : i < xs.length := by omega
    have e : slot (.vec xs) i = xs[i] := by simp [slot, C11.PVal.at, List.getD_eq_getElem?_getD, hi']
    rw [e]
    exact h _ (by simp [C11.PVal.toList])

theorem intExps_spec {p : PVal ℝ} {n : ℕ} {b : ℕ → ℤ} (h : intExps? p n = some b) :
    ∀ k < n, slot p k = (b k : ℝ) := by
  unfold intExps? at h
  split_ifs at h with hall
  cases h
  exact hall

theorem cb4Shape_toLeaf (n : ℕ) (c : CBound4 ℝ) (h : cb4Shape n c) : cbShape n (cb4ToLeaf c) := by
  obtain ⟨h0, h1, h2, h3⟩ := h
  refine ⟨?_, ?_, h3⟩
  · show c.s.toNat < c.e.toNat
    omega
  · show c.e.toNat ≤ n
    omega

/-- **the invariant of accepted histories puts the denoted leaf in `Leaf.AcceptedCore`.** -/
theorem rinv_core (d : Dev ℝ) (x : Ext) (l : Leaf ℝ) (hi : RInv d) (hl : d.toLeaf? x = some l) :
    l.AcceptedCore (producerCls d.cls) := by
  unfold Dev.toLeaf? at hl
  split_ifs at hl with hnum
  cases hk : devKind? d x with
  | none => simp [hk] at hl
  | some kind =>
    simp only [hk, Option.map_some, Option.some.injEq] at hl
    subst hl
    obtain ⟨⟨hS, hHL, hI, hC⟩, hshl, htab, hcb, hgen⟩ := hi
    refine ⟨fun k _ => tableOK_lb_le_hb d.table htab k, ?_, ?_, ?_⟩
    · intro hp k _
      have hc : d.cls = .gdevice ∨ d.cls = .pvdevice := by
        cases hcl : d.cls <;> simp [producerCls, hcl] at hp ⊢
      exact hbNonpos_hb d.table (hgen hc) k
    · intro cb hcb'
      simp only [devCbs, List.mem_map] at hcb'
      obtain ⟨c, hc, rfl⟩ := hcb'
      cases hst : d.cbounds with
      | none => simp [hst] at hc
      | some cs =>
        simp only [hst, Option.getD_some] at hc
        exact cb4Shape_toLeaf d.n c (hcb cs hst c hc)
    · unfold devKind? at hk
      cases hcl : d.cls with
      | device => simp only [hcl, Option.some.injEq] at hk; subst hk; trivial
      | pvdevice => simp only [hcl, Option.some.injEq] at hk; subst hk; trivial
      | cdevice => simp only [hcl, Option.some.injEq] at hk; subst hk; exact hC
      | cdevice2 =>
        simp only [hcl] at hk
        obtain ⟨h1, h2, h3⟩ := hHL
        cases hpl : d.pl with
        | vec _ => simp [hpl] at hk
        | scalar pl =>
          cases hph : d.ph with
          | vec _ => simp [hpl, hph] at hk
          | scalar ph =>
            simp only [hpl, hph, Option.some.injEq] at hk
            subst hk
            rw [hpl] at h1 h3
            rw [hph] at h2 h3
            have a1 := ((C11.hlParamOk_iff _ _).mp h1).2 pl (by simp [C11.PVal.toList])
            have a2 := ((C11.hlParamOk_iff _ _).mp h2).2 ph (by simp [C11.PVal.toList])
            have a3 : pl ≤ ph := by simpa [PVal.allLe] using h3
            exact fun k _ => ⟨a3, a1, a2⟩
      | idevice =>
        simp only [hcl] at hk
        cases hb : intExps? d.ib d.n with
        | none => simp [hb] at hk
        | some b =>
          simp only [hb, Option.map_some, Option.some.injEq] at hk
          subst hk
          obtain ⟨i1, i2, i3⟩ := hI
          obtain ⟨a1, a2⟩ := (C11.iParamOk_iff _ _).mp i1
          obtain ⟨b1, b2⟩ := (C11.iBOk_iff _ _).mp i2
          obtain ⟨c1, c2⟩ := (C11.iParamOk_iff _ _).mp i3
          intro k hk'
          refine ⟨slot_of_all d.ia d.n (fun y => 0 ≤ y) a1 a2 k hk', ?_, slot_of_all d.ic d.n (fun y => 0 ≤ y) c1 c2 k hk'⟩
          have hpos := slot_of_all d.ib d.n (fun y => 0 < y) b1 b2 k hk'
          rw [intExps_spec hb k hk'] at hpos
          exact_mod_cast hpos
      | idevice2 =>
        simp only [hcl, Option.some.injEq] at hk
        subst hk
        have hpw := C11.hl_pointwise d hHL
        intro k hk'
        obtain ⟨e1, e2⟩ := hpw k hk'
        exact ⟨e1, le_trans e1 e2, e2⟩
      | gdevice => simp only [hcl, Option.some.injEq] at hk; subst hk; trivial
      | sdevice =>
        simp only [hcl, Option.some.injEq] at hk
        subst hk
        obtain ⟨s1, s2, s3, s4, s5, s6, s7, s8, s9, s10, _, _⟩ := hS
        refine ⟨s1, s2, ?_, s3, s5, s6, s7, s8, s9, s10⟩
        rintro ⟨hlt, hpos⟩
        rcases s4 with h | h
        · exact absurd hlt (not_lt.mpr h)
        · rw [h] at hpos; exact lt_irrefl _ hpos
      | adevice => simp only [hcl, Option.some.injEq] at hk; subst hk; trivial

/-- **every device a constructor returns, after any history of accepted assignments, denotes a leaf that meets
the core acceptance conditions.** -/
theorem reach_core (d : Dev ℝ) (x : Ext) (l : Leaf ℝ) (h : Reach d) (hl : d.toLeaf? x = some l) :
    l.AcceptedCore (producerCls d.cls) :=
  rinv_core d x l (reach_rinv h) hl

/-- **`accepted_convexAcc` from the state machine**: reachable ∧ not in an open corner ⇒ `Leaf.ConvexAcc`. -/
theorem reach_convexAcc (d : Dev ℝ) (x : Ext) (l : Leaf ℝ) (h : Reach d) (hl : d.toLeaf? x = some l)
    (hc : NotOpenCorner l) : l.ConvexAcc :=
  core_convexAcc l _ (reach_core d x l h hl) hc

open DK.C01all in
/-- **the whole chain from the constructors**: the leaf of a reachable device outside the open corners has a
convex cost over its bounds box; at every in-bounds flow all kernels are defined, the reported marginal cost is the
gradient wherever the flow-dependent kinks are avoided, and the Hessian is PSD. -/
theorem reach_summary (d : Dev ℝ) (x : Ext) (l : Leaf ℝ) (p : ℕ → ℝ) (h : Reach d) (hl : d.toLeaf? x = some l)
    (hc : NotOpenCorner l) :
    ConvexOnBox l.n l.lb l.hb (fun z => l.cost z p) ∧
    (∀ s, InBox l.n l.lb l.hb s →
      (l.CostDefined s ∧ l.DerivDefined s ∧ l.HessDefined s) ∧
      (ResidualKink l s → IsGradAt l.n (fun z => l.cost z p) (l.deriv s p) s) ∧
      (l.PsdKind → ∀ Hm : ℕ → ℕ → ℝ, (∀ i j, l.hess2 s i j = some (Hm i j)) → C14.PSD l.n Hm)) := by
  have hcore := reach_core d x l h hl
  exact ⟨C07tree.leaf_cost_convex l (core_convexAcc l _ hcore hc) p, fun s hs =>
    ⟨core_defined l _ hcore s hs,
     fun hr => leaf_grad l s p (core_noKink l _ hcore hc s hr),
     fun hp Hm H => core_hess_psd l _ hcore hc hp s hs Hm H⟩⟩

/-! ### directly after a constructor: the full `Leaf.Accepted` -/

/-- `Leaf.Accepted` is the core plus exactly the two history-sensitive clauses. -/
theorem accepted_of_core (d : Leaf ℝ) (pr : Bool) (h : d.AcceptedCore pr) (hcb : accCBounds d.n d.lb d.hb d.cbs)
    (hr : ∀ pl ph, d.kind = .cdevice2 pl ph → accRanges d.n d.cbs) : d.Accepted pr := by
  obtain ⟨n, lb, hb, cbs, kind⟩ := d
  obtain ⟨h1, h2, _, h4⟩ := h
  refine ⟨h1, h2, hcb, ?_⟩
  cases kind with
  | cdevice2 pl ph => exact ⟨h4, hr pl ph rfl⟩
  | _ => exact h4

theorem accepted_iff_core (d : Leaf ℝ) (pr : Bool) :
    d.Accepted pr ↔ d.AcceptedCore pr ∧ accCBounds d.n d.lb d.hb d.cbs ∧
      (∀ pl ph, d.kind = .cdevice2 pl ph → accRanges d.n d.cbs) := by
  refine ⟨fun h => ⟨accepted_core d pr h, h.2.2.1, ?_⟩, fun h => accepted_of_core d pr h.1 h.2.1 h.2.2⟩
  obtain ⟨n, lb, hb, cbs, kind⟩ := d
  intro pl ph hk
  simp only at hk
  subst hk
  exact h.2.2.2.2

/-- the stored cumulative bounds are feasible against the *current* bounds table. -/
def FreshCb (d : Dev ℝ) : Prop :=
  tableNumeric d.table = true → ∀ cs, d.cbounds = some cs → ∀ c ∈ cs, cb4Ok d.n (lbOf d.table) (hbOf d.table) c = true

theorem step_fresh {d : Dev ℝ} {f : Field} {v : Val ℝ} {d' : Dev ℝ} (h : C11.Step d f v (d', none))
    (hf : f ≠ .bounds) (hi : FreshCb d) : FreshCb d' := by
  obtain ⟨_, hn, htab, hcb⟩ := C11.step_frame h
  simp only at hn htab hcb
  by_cases hc : f = .cbounds
  · subst hc
    cases h with
    | attr ho => exact absurd (C11.owns_cbounds d) ho
    | cbNone hf' hv => intro _ cs hcs; cases hcs
    | cb spec st hf' hv hs' hr =>
      intro hnum cs hcs c hc'
      simp only at hcs hnum
      subst hcs
      rw [if_pos hnum] at hr
      exact ((C11.setCbounds_ok_iff _ _ _ spec (some cs)).mp hr).2 cs rfl c hc'
    | _ => contradiction
  · intro hnum cs hcs
    rw [htab hf] at hnum ⊢
    rw [hcb hc] at hcs
    rw [hn]
    exact hi hnum cs hcs

theorem setAll_fresh {d d' : Dev ℝ} {ops : List (Field × Val ℝ)} (hno : ∀ p ∈ ops, p.1 ≠ .bounds)
    (hi : FreshCb d) (h : setAll d ops = .ok d') : FreshCb d' := by
  induction ops generalizing d with
  | nil => simp [setAll] at h; rw [← h]; exact hi
  | cons p rest ih =>
    obtain ⟨f, v⟩ := p
    simp only [setAll] at h
    have hs := C11.setField_step d f v
    cases hr : setField d f v with
    | mk d1 e =>
      rw [hr] at hs
      cases e with
      | some e => simp [hr] at h
      | none =>
        simp only [hr] at h
        exact ih (fun p hp => hno p (List.mem_cons_of_mem _ hp))
          (step_fresh hs (hno (f, v) (List.mem_cons_self)) hi) h

theorem construct_fresh {cls : Cls} {n : ℕ} {bv : PyVal ℝ} {cb : CbSpec ℝ} {kw : List (Field × Val ℝ)} {d : Dev ℝ}
    (h : construct cls n bv cb kw = .ok d) (hno : ∀ p ∈ kw, p.1 ≠ .bounds) : FreshCb d ∧ d.cls = cls ∧ d.n = n := by
  unfold construct at h
  cases hs : setAll (Dev.default cls n) ((.bounds, .bounds bv) :: (.cbounds, .cbounds cb) :: kw) with
  | error e => simp [hs] at h
  | ok d0 =>
    simp only [hs] at h
    have hfr0 : d0.cls = cls ∧ d0.n = n := by
      rw [C11.setAll_eq_runAll hs]
      exact (C11.params_invariant _ (C11.pinv_default cls n) _).2
    have h0 : FreshCb d0 := by
      simp only [setAll] at hs
      have hst := C11.setField_step (Dev.default cls n : Dev ℝ) .bounds (.bounds bv)
      cases hr : setField (Dev.default cls n : Dev ℝ) .bounds (.bounds bv) with
      | mk d1 e =>
        rw [hr] at hst
        cases e with
        | some e => simp [hr] at hs
        | none =>
          simp only [hr] at hs
          have hcb1 : d1.cbounds = none := (C11.step_frame hst).2.2.2 (by simp)
          have hf1 : FreshCb d1 := fun _ cs hcs => by rw [hcb1] at hcs; cases hcs
          refine setAll_fresh (ops := (.cbounds, .cbounds cb) :: kw) ?_ hf1 (by simpa [setAll] using hs)
          intro p hp
          rcases List.mem_cons.mp hp with rfl | hp
          · simp
          · exact hno p hp
    split_ifs at h with hc
    · rcases cdevice2Post_step h with rfl | hstep
      · exact ⟨h0, hfr0⟩
      · have := C11.setField_step d0 .cbounds (.cbounds (.pair (sumTo d0.n (lbOf d0.table)) (sumTo d0.n (hbOf d0.table))))
        rw [hstep] at this
        obtain ⟨e1, e2, _, _⟩ := C11.step_frame this
        simp only at e1 e2
        exact ⟨step_fresh this (by simp) h0, by rw [e1]; exact hfr0.1, by rw [e2]; exact hfr0.2⟩
    · cases h; exact ⟨h0, hfr0⟩

/-- what `_validate_ranges` established at construction time. -/
theorem cdevice2Post_ranges {d d' : Dev ℝ} (h : cdevice2Post d = .ok d') :
    ∀ c c2 cs, d'.cbounds = some (c :: c2 :: cs) →
      ((c :: c2 :: cs).getLast?.map (·.e)) = some (d'.n : ℤ) ∧ rangesOk 0 (c :: c2 :: cs) = true := by
  unfold cdevice2Post at h
  cases hfill : cdevice2Fill d with
  | error e => simp [hfill] at h
  | ok d1 =>
    simp only [hfill] at h
    obtain ⟨e1, hr⟩ := C11.cdevice2Ranges_ok h
    subst e1
    exact hr

theorem rangesOk_contiguous (l : List (CBound4 ℝ)) (prev : ℤ) (hsh : ∀ c ∈ l, 0 ≤ c.s ∧ 0 ≤ c.e)
    (h : rangesOk prev l = true) :
    (∀ c rest, l = c :: rest → c.s = prev) ∧ contiguous (l.map cb4ToLeaf) = true := by
  induction l generalizing prev with
  | nil => exact ⟨fun c rest h => (by cases h), rfl⟩
  | cons c rest ih =>
    simp only [rangesOk, Bool.and_eq_true, decide_eq_true_eq] at h
    obtain ⟨h1, h2⟩ := h
    obtain ⟨i1, i2⟩ := ih c.e (fun c' hc' => hsh c' (List.mem_cons_of_mem _ hc')) h2
    refine ⟨fun c' rest' e => by cases e; linarith, ?_⟩
    cases rest with
    | nil => rfl
    | cons c2 r =>
      have e2 : c2.s = c.e := i1 c2 r rfl
      simp only [List.map_cons, contiguous, Bool.and_eq_true, beq_iff_eq] at i2 ⊢
      exact ⟨by simp [cb4ToLeaf, e2], i2⟩

theorem accRanges_toLeaf (n : ℕ) (l : List (CBound4 ℝ)) (hsh : ∀ c ∈ l, cb4Shape n c)
    (h : ∀ c c2 cs, l = c :: c2 :: cs →
      ((c :: c2 :: cs).getLast?.map (·.e)) = some (n : ℤ) ∧ rangesOk 0 (c :: c2 :: cs) = true) :
    accRanges n (l.map cb4ToLeaf) := by
  match l, hsh, h with
  | [], _, _ => trivial
  | [_], _, _ => trivial
  | c :: c2 :: cs, hsh, h =>
    obtain ⟨hlast, hr⟩ := h c c2 cs rfl
    obtain ⟨i1, i2⟩ := rangesOk_contiguous (c :: c2 :: cs) 0 (fun c' hc' => ⟨(hsh c' hc').1, by
      have := hsh c' hc'; obtain ⟨a, b, _, _⟩ := this; omega⟩) hr
    have hs0 : c.s = 0 := i1 c _ rfl
    show (cb4ToLeaf c).s = 0 ∧ contiguous (List.map cb4ToLeaf (c :: c2 :: cs)) = true ∧
      ((List.map cb4ToLeaf (c :: c2 :: cs)).getLast?.map (·.e)) = some n
    refine ⟨by simp [cb4ToLeaf, hs0], i2, ?_⟩
    rw [List.getLast?_map]
    cases hl : (c :: c2 :: cs).getLast? with
    | none => simp [hl] at hlast
    | some z =>
      simp only [hl, Option.map_some, Option.some.injEq] at hlast ⊢
      simp [cb4ToLeaf, hlast]

theorem toLeaf_some {d : Dev ℝ} {x : Ext} {l : Leaf ℝ} (h : d.toLeaf? x = some l) :
    tableNumeric d.table = true ∧ ∃ k, devKind? d x = some k ∧ l = ⟨d.n, lbOf d.table, hbOf d.table, devCbs d, k⟩ := by
  unfold Dev.toLeaf? at h
  split_ifs at h with hnum
  cases hk : devKind? d x with
  | none => simp [hk] at h
  | some k =>
    simp only [hk, Option.map_some, Option.some.injEq] at h
    exact ⟨hnum.1, k, rfl, h.symm⟩

theorem devKind_cdevice2 {d : Dev ℝ} {x : Ext} {pl ph : ℝ} (h : devKind? d x = some (.cdevice2 pl ph)) :
    d.cls = .cdevice2 := by
  cases hc : d.cls with
  | cdevice2 => rfl
  | idevice => simp only [devKind?, hc] at h; cases hb : intExps? d.ib d.n <;> simp [hb] at h
  | _ => simp [devKind?, hc] at h

theorem cb4Ok_accCBound (n : ℕ) (lb hb : ℕ → ℝ) (c : CBound4 ℝ) (h : cb4Ok n lb hb c = true) :
    accCBound n lb hb (cb4ToLeaf c) := by
  obtain ⟨⟨h0, h1, h2⟩, h3, h4, h5⟩ := (C11.cbound_accept_iff n lb hb c).mp h
  have he : c.e.toNat ≤ n := by omega
  refine ⟨by show c.s.toNat < c.e.toNat; omega, he, h3, ?_, ?_⟩
  · show DK.sliceSum n c.s.toNat c.e.toNat lb ≤ c.h
    unfold DK.sliceSum
    rw [Nat.min_eq_left he]; exact h4
  · show c.l ≤ DK.sliceSum n c.s.toNat c.e.toNat hb
    unfold DK.sliceSum
    rw [Nat.min_eq_left he]; exact h5

/-- **directly after a constructor** (no `bounds` keyword repeated among the keyword arguments) the denoted leaf
satisfies the full `Leaf.Accepted` — the predicate the C10 check evaluates against the real constructors. -/
theorem construct_accepted {cls : Cls} {n : ℕ} {bv : PyVal ℝ} {cb : CbSpec ℝ} {kw : List (Field × Val ℝ)} {d : Dev ℝ}
    (h : construct cls n bv cb kw = .ok d) (hno : ∀ p ∈ kw, p.1 ≠ .bounds) (x : Ext) (l : Leaf ℝ)
    (hl : d.toLeaf? x = some l) : l.Accepted (producerCls cls) := by
  have hri := construct_rinv h
  obtain ⟨hfresh, hcls, hn⟩ := construct_fresh h hno
  have hcore := rinv_core d x l hri hl
  rw [hcls] at hcore
  obtain ⟨hnum, k, hk, rfl⟩ := toLeaf_some hl
  refine accepted_of_core _ _ hcore ?_ ?_
  · intro cb' hcb'
    simp only [devCbs, List.mem_map] at hcb'
    obtain ⟨c, hc, rfl⟩ := hcb'
    cases hst : d.cbounds with
    | none => simp [hst] at hc
    | some cs =>
      simp only [hst, Option.getD_some] at hc
      exact cb4Ok_accCBound _ _ _ c (hfresh hnum cs hst c hc)
  · intro pl ph hkind
    simp only at hkind
    subst hkind
    have hc2 : cls = .cdevice2 := by rw [← hcls]; exact devKind_cdevice2 hk
    unfold construct at h
    cases hs : setAll (Dev.default cls n) ((.bounds, .bounds bv) :: (.cbounds, .cbounds cb) :: kw) with
    | error e => simp [hs] at h
    | ok d0 =>
      simp only [hs, if_pos hc2] at h
      have hrg := cdevice2Post_ranges h
      show accRanges d.n (devCbs d)
      unfold devCbs
      cases hst : d.cbounds with
      | none => trivial
      | some cs =>
        simp only [Option.getD_some]
        exact accRanges_toLeaf d.n cs (hri.cb cs hst) (fun c c2 cs' e => hrg c c2 cs' (by rw [hst, e]))

/-! ### non-vacuity: a constructed `IDevice2` and a constructed `SDevice`, and their leaves -/

noncomputable def ext0 : Ext := ⟨fun _ => [], .null⟩

noncomputable def exDevI2 : Dev ℝ :=
  { (Dev.default .idevice2 3 : Dev ℝ) with
    table := [(some 0, some 2), (some 0, some 2), (some 0, some 2)],
    cbounds := some [⟨1, 5, 0, 3⟩], pl := .scalar (-3), ph := .scalar (-1) }

theorem exDevI2_construct :
    construct (α := ℝ) .idevice2 3 (.seq .tuple [.num 0, .num 2]) (.pair 1 5) [(.pL, .scalar (-3)), (.pH, .scalar (-1))]
      = .ok exDevI2 := by
  simp [construct, setAll, setField, owns, validateBoundsW, npShape, commonShape, pairPath, normElem, pyLen, entries,
    scalars, scalar?, finish, zipRows, rowAllNone, rowHasNone, rowOrdered, rowPair, pvalSet, asPVal, guardSet,
    scalarIfC2, pLOk, pHOk, hlParamOk, PVal.lenOk, PVal.all, PVal.allLe, Dev.default, exDevI2, tableNumeric,
    setCbounds, cb4Ok, cbRangeOk, Validate.sliceSum, clipIdx, sumRange, sumTo, lbOf, hbOf]
  try norm_num

theorem exDevI2_reach : Reach exDevI2 := ⟨_, _, _, _, _, _, [], exDevI2_construct, rfl⟩

/-- the leaf the constructed device denotes (it is `exI2` of §1 up to the table read-out). -/
noncomputable def exLeafI2 : Leaf ℝ :=
  ⟨3, lbOf exDevI2.table, hbOf exDevI2.table, [⟨1, 5, 0, 3⟩], .idevice2 (slot (.scalar (-3))) (slot (.scalar (-1)))⟩

theorem exDevI2_toLeaf : exDevI2.toLeaf? ext0 = some exLeafI2 := by
  simp [Dev.toLeaf?, devKind?, devCbs, cb4ToLeaf, exDevI2, exLeafI2, Dev.default, tableNumeric]

noncomputable def exDevS : Dev ℝ :=
  { (Dev.default .sdevice 3 : Dev ℝ) with
    table := [(some (-1), some 1), (some (-1), some 1), (some (-1), some 1)],
    c1 := 2, c2 := 1, c3 := 4, damageDepth := 1/5, start := 1/2, efficiency := 9/10, sustainment := 99/100 }

theorem exDevS_construct :
    construct (α := ℝ) .sdevice 3 (.seq .tuple [.num (-1), .num 1]) .pyNone
      [(.c1, .scalar 2), (.c2, .scalar 1), (.c3, .scalar 4), (.damageDepth, .scalar (1/5)), (.start, .scalar (1/2)),
       (.efficiency, .scalar (9/10)), (.sustainment, .scalar (99/100))] = .ok exDevS := by
  simp [construct, setAll, setField, owns, validateBoundsW, npShape, commonShape, pairPath, normElem, pyLen, entries,
    scalars, scalar?, finish, zipRows, rowAllNone, rowHasNone, rowOrdered, rowPair, scalarSet, guardSet,
    sC1Ok, sC2Ok, sC3Ok, sUnitOk, sRateOk, Dev.default, exDevS]
  try norm_num

theorem exDevS_reach : Reach exDevS := ⟨_, _, _, _, _, _, [], exDevS_construct, rfl⟩

noncomputable def exLeafS : Leaf ℝ :=
  ⟨3, lbOf exDevS.table, hbOf exDevS.table, [], .sdevice ⟨2, 1, 4, natCast' 10, 1/5, 1/2, 0, 9/10, 99/100⟩⟩

theorem exDevS_toLeaf : exDevS.toLeaf? ext0 = some exLeafS := by
  simp [Dev.toLeaf?, devKind?, devCbs, exDevS, exLeafS, Dev.default, tableNumeric]

theorem exLeafS_notCorner : NotOpenCorner exLeafS := by
  intro h
  norm_num [exLeafS] at h

example : exLeafI2.AcceptedCore false := reach_core exDevI2 ext0 _ exDevI2_reach exDevI2_toLeaf
example : exLeafS.AcceptedCore false := reach_core exDevS ext0 _ exDevS_reach exDevS_toLeaf
example : exLeafI2.ConvexAcc := reach_convexAcc exDevI2 ext0 _ exDevI2_reach exDevI2_toLeaf trivial
example : exLeafS.ConvexAcc := reach_convexAcc exDevS ext0 _ exDevS_reach exDevS_toLeaf exLeafS_notCorner
example : exLeafI2.Accepted false :=
  construct_accepted exDevI2_construct (by intro p hp; simp at hp; rcases hp with rfl | rfl <;> simp) ext0 _ exDevI2_toLeaf
example : exLeafS.Accepted false :=
  construct_accepted exDevS_construct (by
    intro p hp
    simp only [List.mem_cons, List.not_mem_nil, or_false] at hp
    rcases hp with rfl | rfl | rfl | rfl | rfl | rfl | rfl <;> simp) ext0 _ exDevS_toLeaf
example (p : ℕ → ℝ) : ConvexOnBox 3 exLeafS.lb exLeafS.hb (fun z => exLeafS.cost z p) :=
  (reach_summary exDevS ext0 _ p exDevS_reach exDevS_toLeaf exLeafS_notCorner).1

/-! ### what later assignments can invalidate -/

/-- a `Device` built with bounds `(0, 1)` and the cumulative bound `(0, 1)`, then `device.bounds = (5, 6)`. -/
noncomputable def exDevStale : Dev ℝ :=
  { (Dev.default .device 1 : Dev ℝ) with table := [(some 5, some 6)], cbounds := some [⟨0, 1, 0, 1⟩] }

theorem exDevStale_reach : Reach exDevStale := by
  refine reach_of_setAll (cls := .device) (n := 1) (bv := .seq .tuple [.num 0, .num 1]) (cb := .pair 0 1) (kw := [])
    (d0 := { (Dev.default .device 1 : Dev ℝ) with table := [(some 0, some 1)], cbounds := some [⟨0, 1, 0, 1⟩] })
    (ops := [(.bounds, .bounds (.seq .tuple [.num 5, .num 6]))]) ?_ ?_
  · simp [construct, setAll, setField, owns, validateBoundsW, npShape, commonShape, pairPath, normElem, pyLen, entries,
      scalars, scalar?, finish, zipRows, rowAllNone, rowHasNone, rowOrdered, rowPair, Dev.default, tableNumeric,
      setCbounds, cb4Ok, cbRangeOk, Validate.sliceSum, clipIdx, sumRange, sumTo, lbOf, hbOf]
    try norm_num
  · simp [setAll, setField, owns, validateBoundsW, npShape, commonShape, pairPath, normElem, pyLen, entries,
      scalars, scalar?, finish, zipRows, rowAllNone, rowHasNone, rowOrdered, rowPair, Dev.default, exDevStale]
    try norm_num

noncomputable def exLeafStale : Leaf ℝ :=
  ⟨1, lbOf exDevStale.table, hbOf exDevStale.table, [⟨0, 1, 0, 1⟩], .device⟩

theorem exDevStale_toLeaf : exDevStale.toLeaf? ext0 = some exLeafStale := by
  simp [Dev.toLeaf?, devKind?, devCbs, cb4ToLeaf, exDevStale, exLeafStale, Dev.default, tableNumeric]

/-- **`Leaf.Accepted` is not an invariant of accepted assignments**: the `bounds` setter does not re-check the
stored cumulative bounds, so a reachable device can hold a cumulative bound `Σ s ≤ 1` that no in-bounds flow
(`s ≥ 5`) satisfies.  The numeric theorems are unaffected (they need only `Leaf.AcceptedCore`); the *feasible set*
of such a device is empty. -/
theorem stale_cbound_reachable :
    ∃ (d : Dev ℝ) (l : Leaf ℝ), Reach d ∧ d.toLeaf? ext0 = some l ∧ l.AcceptedCore false ∧ ¬ l.Accepted false ∧
      ¬ ∃ s, InBox l.n l.lb l.hb s ∧ ∀ cb ∈ l.cbs, DK.sliceSum l.n cb.s cb.e s ≤ cb.h := by
  refine ⟨exDevStale, exLeafStale, exDevStale_reach, exDevStale_toLeaf,
    reach_core exDevStale ext0 _ exDevStale_reach exDevStale_toLeaf, ?_, ?_⟩
  · intro h
    have := (h.2.2.1 ⟨0, 1, 0, 1⟩ (by simp [exLeafStale])).2.2.2.1
    simp [exLeafStale, exDevStale, DK.sliceSum, sumRange, sumTo, lbOf] at this
  · rintro ⟨s, hs, hc⟩
    have h1 := (hs 0 (by simp [exLeafStale])).1
    have h2 := hc ⟨0, 1, 0, 1⟩ (by simp [exLeafStale])
    simp [exLeafStale, exDevStale, DK.sliceSum, sumRange, sumTo, lbOf] at h1 h2
    linarith

/-- a `CDevice2` built with two tiling ranges, then `cbounds` re-assigned to two overlapping ranges: every
4-tuple passes `set_cbound`, and `_validate_ranges` is not run again. -/
noncomputable def exDevC2 : Dev ℝ :=
  { (Dev.default .cdevice2 2 : Dev ℝ) with
    table := [(some 0, some 1), (some 0, some 1)],
    cbounds := some [⟨0, 1, 0, 1⟩, ⟨0, 2, 0, 2⟩] }

theorem exDevC2_reach : Reach exDevC2 := by
  refine reach_of_setAll (cls := .cdevice2) (n := 2) (bv := .seq .tuple [.num 0, .num 1])
    (cb := .items [.four ⟨0, 1, 0, 1⟩, .four ⟨0, 1, 1, 2⟩]) (kw := [])
    (d0 := { (Dev.default .cdevice2 2 : Dev ℝ) with
      table := [(some 0, some 1), (some 0, some 1)],
      cbounds := some [⟨0, 1, 0, 1⟩, ⟨0, 1, 1, 2⟩] })
    (ops := [(.cbounds, .cbounds (.items [.four ⟨0, 1, 0, 1⟩, .four ⟨0, 2, 0, 2⟩]))]) ?_ ?_
  · simp [construct, setAll, setField, owns, validateBoundsW, npShape, commonShape, pairPath, normElem, pyLen, entries,
      scalars, scalar?, finish, zipRows, rowAllNone, rowHasNone, rowOrdered, rowPair, Dev.default, tableNumeric,
      setCbounds, cbLoop, cbItemOk, cb4Ok, cbRangeOk, Validate.sliceSum, clipIdx, sumRange, sumTo, lbOf, hbOf,
      cdevice2Post, cdevice2Fill, cdevice2Ranges, rangesOk]
    try norm_num
  · simp [setAll, setField, owns, Dev.default, tableNumeric, exDevC2,
      setCbounds, cbLoop, cbItemOk, cb4Ok, cbRangeOk, Validate.sliceSum, clipIdx, sumRange, sumTo, lbOf, hbOf]
    try norm_num

noncomputable def exLeafC2 : Leaf ℝ :=
  ⟨2, lbOf exDevC2.table, hbOf exDevC2.table, [⟨0, 1, 0, 1⟩, ⟨0, 2, 0, 2⟩], .cdevice2 (-1) 0⟩

theorem exDevC2_toLeaf : exDevC2.toLeaf? ext0 = some exLeafC2 := by
  simp [Dev.toLeaf?, devKind?, devCbs, cb4ToLeaf, exDevC2, exLeafC2, Dev.default, tableNumeric]

/-- **`CDevice2`'s range tiling is not an invariant either** (convexity does not need it: `Leaf.ConvexAcc` holds). -/
theorem cdevice2_ranges_stale :
    ∃ (d : Dev ℝ) (l : Leaf ℝ), Reach d ∧ d.toLeaf? ext0 = some l ∧ l.AcceptedCore false ∧ l.ConvexAcc ∧
      accCBounds l.n l.lb l.hb l.cbs ∧ ¬ accRanges l.n l.cbs ∧ ¬ l.Accepted false := by
  have hcore := reach_core exDevC2 ext0 _ exDevC2_reach exDevC2_toLeaf
  have hnr : ¬ accRanges exLeafC2.n exLeafC2.cbs := by
    simp [exLeafC2, accRanges, contiguous]
  refine ⟨exDevC2, exLeafC2, exDevC2_reach, exDevC2_toLeaf, hcore, core_convexAcc _ _ hcore trivial, ?_, hnr,
    fun h => hnr h.2.2.2.2⟩
  intro cb hcb
  simp only [exLeafC2, List.mem_cons, List.not_mem_nil, or_false] at hcb
  rcases hcb with rfl | rfl <;>
    refine ⟨by norm_num, by norm_num [exLeafC2], by norm_num, ?_, ?_⟩ <;>
    norm_num [exLeafC2, exDevC2, DK.sliceSum, sumRange, sumTo, lbOf, hbOf]

/-! ## 8. `IDevice` with real exponents: the corner `0 < b < 1`, and `TDevice`

`Leaf` has integer exponents (the executable model), so the accepted real exponents `0 < b < 1` have no leaf.
Their statement is made on the `Dev` directly, with the very kernels the C07 / C10 / C14 theorems are about
(`Real.rpow`). -/

/-- the cost an `IDevice` holding `d`'s settings computes, with real exponents. -/
noncomputable def idevCostR (d : Dev ℝ) (z p : ℕ → ℝ) : ℝ :=
  idevCost Real.rpow d.n (slot d.ia) (slot d.ib) (slot d.ic) (lbOf d.table) (hbOf d.table) z p

theorem rinv_idevice_params (d : Dev ℝ) (hi : RInv d) :
    accBounds d.n (lbOf d.table) (hbOf d.table) ∧
      ∀ k < d.n, 0 ≤ slot d.ia k ∧ 0 < slot d.ib k ∧ 0 ≤ slot d.ic k := by
  obtain ⟨⟨_, _, ⟨i1, i2, i3⟩, _⟩, _, htab, _, _⟩ := hi
  obtain ⟨a1, a2⟩ := (C11.iParamOk_iff _ _).mp i1
  obtain ⟨b1, b2⟩ := (C11.iBOk_iff _ _).mp i2
  obtain ⟨c1, c2⟩ := (C11.iParamOk_iff _ _).mp i3
  exact ⟨fun k _ => tableOK_lb_le_hb d.table htab k, fun k hk =>
    ⟨slot_of_all d.ia d.n (fun y => 0 ≤ y) a1 a2 k hk, slot_of_all d.ib d.n (fun y => 0 < y) b1 b2 k hk,
      slot_of_all d.ic d.n (fun y => 0 ≤ y) c1 c2 k hk⟩⟩

/-- **reachable `IDevice`, every exponent `≥ 1` ⇒ convex** (real exponents). -/
theorem idevice_real_convex (d : Dev ℝ) (h : Reach d) (hb1 : ∀ k < d.n, 1 ≤ slot d.ib k) (p : ℕ → ℝ) :
    ConvexOnBox d.n (lbOf d.table) (hbOf d.table) (fun z => idevCostR d z p) := by
  obtain ⟨hbd, hp⟩ := rinv_idevice_params d (reach_rinv h)
  exact C07.idevice_convex d.n _ _ _ _ _ p (fun k hk => (hp k hk).1) hb1 (fun k hk => (hp k hk).2.2) hbd

/-- **reachable `IDevice`, in-bounds flow**: the cost kernel is always defined; marginal cost and Hessian kernels
are defined exactly outside the corners of `C10.idevice_deriv_defined_iff` / `C10.idevice_hess_defined_iff`. -/
theorem idevice_real_defined (d : Dev ℝ) (h : Reach d) (s : ℕ → ℝ) (hs : InBox d.n (lbOf d.table) (hbOf d.table) s) :
    (∀ k < d.n, Gen.abc_cost_defined Real.rpow C10.powDef (s k) (slot d.ia k) (slot d.ib k) (slot d.ic k)
        (lbOf d.table k) (hbOf d.table k)) ∧
    ((∀ k < d.n, Gen.abc_deriv_defined Real.rpow C10.powDef id (s k) (slot d.ia k) (slot d.ib k) (slot d.ic k)
        (lbOf d.table k) (hbOf d.table k))
      ↔ ∀ k < d.n, lbOf d.table k = hbOf d.table k ∨ 0 < slot d.ia k ∨ s k < hbOf d.table k ∨ 1 ≤ slot d.ib k) ∧
    ((∀ k < d.n, Gen.abc_hess_defined Real.rpow C10.powDef id (s k) (slot d.ia k) (slot d.ib k) (slot d.ic k)
        (lbOf d.table k) (hbOf d.table k))
      ↔ ∀ k < d.n, lbOf d.table k = hbOf d.table k ∨ slot d.ib k = 1 ∨ 0 < slot d.ia k ∨ s k < hbOf d.table k
          ∨ 2 ≤ slot d.ib k) := by
  obtain ⟨hbd, hp⟩ := rinv_idevice_params d (reach_rinv h)
  exact ⟨C10.idevice_cost_defined d.n _ _ _ _ _ s hbd hp hs,
    C10.idevice_deriv_defined_iff d.n _ _ _ _ _ s hbd hp hs,
    C10.idevice_hess_defined_iff d.n _ _ _ _ _ s hbd hp hs⟩

theorem abcQ_nonneg_box (x xl xh a : ℝ) (hle : xl ≤ xh) (hx : xl ≤ x ∧ x ≤ xh) (ha : 0 ≤ a) : 0 ≤ abcQ x xl xh a := by
  rcases hle.lt_or_eq with hlt | heq
  · rw [← Bridge.abc_q]; exact C10.abc_q_nonneg x xl xh a hlt hx ha
  · unfold abcQ abcS
    rw [heq, sub_self, div_zero]
    simpa using ha

/-- **reachable `IDevice`, every exponent `≥ 1` ⇒ PSD Hessian at every in-bounds flow** (real exponents). -/
theorem idevice_real_hess_psd (d : Dev ℝ) (h : Reach d) (hb1 : ∀ k < d.n, 1 ≤ slot d.ib k) (s : ℕ → ℝ)
    (hs : InBox d.n (lbOf d.table) (hbOf d.table) s) :
    C14.PSD d.n (idevHess Real.rpow id (slot d.ia) (slot d.ib) (slot d.ic) (lbOf d.table) (hbOf d.table) s) := by
  obtain ⟨hbd, hp⟩ := rinv_idevice_params d (reach_rinv h)
  exact C14.idevice_hess_psd d.n _ _ _ _ _ s hb1 (fun k hk => (hp k hk).2.2)
    (fun k hk => abcQ_nonneg_box _ _ _ _ (hbd k hk) (hs k hk) (hp k hk).1)

/-- the accepted real corner: `IDevice(a = 0, b = 1/2, c = 1)` on one slot with bounds `(0, 1)`. -/
noncomputable def exDevICorner : Dev ℝ :=
  { (Dev.default .idevice 1 : Dev ℝ) with
    table := [(some 0, some 1)], ia := .scalar 0, ib := .scalar (1/2), ic := .scalar 1 }

theorem exDevICorner_construct :
    construct (α := ℝ) .idevice 1 (.seq .tuple [.num 0, .num 1]) .pyNone
      [(.a, .scalar 0), (.b, .scalar (1/2)), (.c, .scalar 1)] = .ok exDevICorner := by
  simp [construct, setAll, setField, owns, validateBoundsW, npShape, commonShape, pairPath, normElem, pyLen, entries,
    scalars, scalar?, finish, zipRows, rowAllNone, rowHasNone, rowOrdered, rowPair, pvalSet, asPVal, guardSet,
    iParamOk, iBOk, PVal.lenOk, PVal.all, Dev.default, exDevICorner]
  try norm_num

theorem exDevICorner_reach : Reach exDevICorner := ⟨_, _, _, _, _, _, [], exDevICorner_construct, rfl⟩

/-- **the `IDevice` corner is open**: a device the constructor returns, with exponent `1/2`, whose cost is not convex
over its bounds box (`C07.idevice_not_convex_small_b`), whose marginal cost is undefined at the upper bound
(`0 ** (-1/2)`), and which denotes no `Leaf` (the executable model has integer exponents). -/
theorem idevice_corner_open :
    ∃ d : Dev ℝ, Reach d ∧ d.cls = .idevice ∧ ¬ (∀ k < d.n, 1 ≤ slot d.ib k) ∧
      ¬ ConvexOnBox d.n (lbOf d.table) (hbOf d.table) (fun z => idevCostR d z (fun _ => 0)) ∧
      (∃ s, InBox d.n (lbOf d.table) (hbOf d.table) s ∧
        ¬ ∀ k < d.n, Gen.abc_deriv_defined Real.rpow C10.powDef id (s k) (slot d.ia k) (slot d.ib k) (slot d.ic k)
          (lbOf d.table k) (hbOf d.table k)) ∧
      ∀ x, d.toLeaf? x = none := by
  refine ⟨exDevICorner, exDevICorner_reach, rfl, ?_, ?_, ?_, ?_⟩
  · intro h
    have := h 0 (by simp [exDevICorner, Dev.default])
    norm_num [exDevICorner, slot, C11.PVal.at] at this
  · intro h
    apply C07.idevice_not_convex_small_b
    have hbox : ∀ z : ℕ → ℝ, InBox 1 (fun _ => 0) (fun _ => 1) z →
        InBox exDevICorner.n (lbOf exDevICorner.table) (hbOf exDevICorner.table) z := by
      intro z hz k hk
      have hk0 : k = 0 := by
        have : k < 1 := hk
        omega
      subst hk0
      simpa [exDevICorner, lbOf, hbOf] using hz 0 Nat.zero_lt_one
    have hfun : ∀ z : ℕ → ℝ, idevCostR exDevICorner z (fun _ => 0)
        = idevCost Real.rpow 1 (fun _ => 0) (fun _ => (1/2 : ℝ)) (fun _ => 1) (fun _ => 0) (fun _ => 1) z (fun _ => 0) := by
      intro z
      simp [idevCostR, idevCost, exDevICorner, Dev.default, sumTo, lbOf, hbOf, slot, C11.PVal.at]
    intro x y hx hy θ h0 h1
    have := h x y (hbox x hx) (hbox y hy) θ h0 h1
    simpa only [hfun] using this
  · refine ⟨fun _ => 1, ?_, ?_⟩
    · intro k hk
      have hk0 : k = 0 := by
        have : k < 1 := hk
        omega
      subst hk0
      norm_num [exDevICorner, lbOf, hbOf]
    · rw [(idevice_real_defined exDevICorner exDevICorner_reach (fun _ => 1) (by
        intro k hk
        have hk0 : k = 0 := by
          have : k < 1 := hk
          omega
        subst hk0
        norm_num [exDevICorner, lbOf, hbOf])).2.1]
      intro h
      have := h 0 (by simp [exDevICorner, Dev.default])
      norm_num [exDevICorner, lbOf, hbOf, slot, C11.PVal.at] at this
  · intro x
    have hne : intExps? (PVal.scalar (2⁻¹ : ℝ)) 1 = none := by
      unfold intExps?
      rw [if_neg]
      intro h
      have := h 0 Nat.zero_lt_one
      have hfl : ⌊slot (PVal.scalar (2⁻¹ : ℝ)) 0⌋ = 0 := by
        simp only [slot, C11.PVal.at]
        rw [Int.floor_eq_iff]
        norm_num
      rw [hfl] at this
      norm_num [slot, C11.PVal.at] at this
    simp [Dev.toLeaf?, devKind?, exDevICorner, Dev.default, hne]

/-- for non-negative integer exponents the model's `ipow` is `Real.rpow`. -/
theorem ipow_eq_rpow (q : ℝ) (k : ℤ) (hk : 0 ≤ k) : ipow q k = Real.rpow q (k : ℝ) := by
  rw [ipow_of_nonneg q k hk]
  have e : (k : ℝ) = ((k.toNat : ℕ) : ℝ) := by
    have := Int.toNat_of_nonneg hk
    exact_mod_cast this.symm
  rw [e]
  simp only [Real.rpow_eq_pow]
  exact (Real.rpow_natCast q k.toNat).symm

/-- **the leaf is a faithful abstraction of the real-exponent device**: when a reachable `IDevice` denotes a leaf
(all exponents integers), the leaf's cost *is* the real-exponent cost. -/
theorem idevice_leaf_cost_eq (d : Dev ℝ) (x : Ext) (l : Leaf ℝ) (hi : RInv d) (hc : d.cls = .idevice)
    (hl : d.toLeaf? x = some l) (z p : ℕ → ℝ) : l.cost z p = idevCostR d z p := by
  obtain ⟨_, k, hk, rfl⟩ := toLeaf_some hl
  obtain ⟨_, hp⟩ := rinv_idevice_params d hi
  simp only [devKind?, hc] at hk
  cases hb : intExps? d.ib d.n with
  | none => simp [hb] at hk
  | some b =>
    simp only [hb, Option.map_some, Option.some.injEq] at hk
    subst hk
    show idevCost ipow d.n (slot d.ia) b (slot d.ic) (lbOf d.table) (hbOf d.table) z p = idevCostR d z p
    unfold idevCostR idevCost
    congr 1
    refine sumTo_congr (fun k hk' => ?_)
    have e := intExps_spec hb k hk'
    have hpos : 0 < b k := by
      have := (hp k hk').2.1
      rw [e] at this
      exact_mod_cast this
    unfold abcCost
    rw [ipow_eq_rpow _ _ (le_of_lt hpos), e]

/-- `TDevice` is not a `Cls` of the state machine (it has no setters: `__init__` checks once); its constructor check
gives exactly the `TDevice` clause of `Leaf.Accepted`. -/
theorem tdevice_check_accepted (n : ℕ) (sus eff tInit tOpt tRange : ℝ) (tExt : ℕ → ℝ) (lenT : ℕ) (c : PVal ℝ)
    (h : tdeviceCheck n sus eff tRange lenT c = true) :
    accTParams n ⟨sus, eff, tInit, tOpt, tRange, tExt, slot c⟩ := by
  obtain ⟨h1, h2, h3, _, h5, h6⟩ := (C11.tdeviceCheck_iff n sus eff tRange lenT c).mp h
  exact ⟨h1, h2, h3, slot_of_all c n (fun y => 0 ≤ y) h5 h6⟩

example : accTParams 3 ⟨(9/10 : ℝ), -2, 20, 21, 3, fun _ => 30, slot (.scalar 1)⟩ :=
  tdevice_check_accepted 3 (9/10) (-2) 20 21 3 (fun _ => 30) 3 (.scalar 1) (by
    simp [tdeviceCheck, tSustainmentOk, tEfficiencyOk, tRangeOk, iParamOk, PVal.lenOk, PVal.all]
    norm_num)

/-- non-vacuity of the real-exponent theorems: a constructed `IDevice` with the non-integer exponent `3/2`
(no `Leaf`, but convex, with a PSD Hessian, by the real theorems). -/
noncomputable def exDevI : Dev ℝ :=
  { (Dev.default .idevice 2 : Dev ℝ) with
    table := [(some 0, some 3), (some 0, some 3)], ia := .scalar (1/2), ib := .scalar (3/2), ic := .scalar 4 }

theorem exDevI_reach : Reach exDevI := by
  refine ⟨.idevice, 2, .seq .tuple [.num 0, .num 3], .pyNone,
    [(.a, .scalar (1/2)), (.b, .scalar (3/2)), (.c, .scalar 4)], exDevI, [], ?_, rfl⟩
  simp [construct, setAll, setField, owns, validateBoundsW, npShape, commonShape, pairPath, normElem, pyLen, entries,
    scalars, scalar?, finish, zipRows, rowAllNone, rowHasNone, rowOrdered, rowPair, pvalSet, asPVal, guardSet,
    iParamOk, iBOk, PVal.lenOk, PVal.all, Dev.default, exDevI]
  try norm_num

theorem exDevI_b : ∀ k < exDevI.n, 1 ≤ slot exDevI.ib k := by
  intro k _
  norm_num [exDevI, slot, C11.PVal.at]

example (p : ℕ → ℝ) : ConvexOnBox 2 (lbOf exDevI.table) (hbOf exDevI.table) (fun z => idevCostR exDevI z p) :=
  idevice_real_convex exDevI exDevI_reach exDevI_b p

example : C14.PSD 2 (idevHess Real.rpow id (slot exDevI.ia) (slot exDevI.ib) (slot exDevI.ic)
    (lbOf exDevI.table) (hbOf exDevI.table) (fun _ => 1)) :=
  idevice_real_hess_psd exDevI exDevI_reach exDevI_b (fun _ => 1) (by
    intro k hk
    have hk' : k = 0 ∨ k = 1 := by
      have : k < 2 := hk
      omega
    rcases hk' with rfl | rfl <;> norm_num [exDevI, lbOf, hbOf])

example : (∀ k < 2, Gen.abc_cost_defined Real.rpow C10.powDef ((fun _ => (3 : ℝ)) k) (slot exDevI.ia k) (slot exDevI.ib k)
    (slot exDevI.ic k) (lbOf exDevI.table k) (hbOf exDevI.table k)) :=
  (idevice_real_defined exDevI exDevI_reach (fun _ => 3) (by
    intro k hk
    have hk' : k = 0 ∨ k = 1 := by
      have : k < 2 := hk
      omega
    rcases hk' with rfl | rfl <;> norm_num [exDevI, lbOf, hbOf])).1

/-- non-vacuity of `idevice_leaf_cost_eq`: the default `IDevice` curve (`a = 0, b = 2, c = 1`) denotes a leaf. -/
noncomputable def exDevI0 : Dev ℝ :=
  { (Dev.default .idevice 2 : Dev ℝ) with table := [(some 0, some 3), (some 0, some 3)] }

theorem exDevI0_reach : Reach exDevI0 := by
  refine ⟨.idevice, 2, .seq .tuple [.num 0, .num 3], .pyNone, [], exDevI0, [], ?_, rfl⟩
  simp [construct, setAll, setField, owns, validateBoundsW, npShape, commonShape, pairPath, normElem, pyLen, entries,
    scalars, scalar?, finish, zipRows, rowAllNone, rowHasNone, rowOrdered, rowPair, Dev.default, exDevI0]
  try norm_num

theorem exDevI0_toLeaf : ∃ l, exDevI0.toLeaf? ext0 = some l := by
  have hb : intExps? (PVal.scalar (2 : ℝ)) 2 = some (fun k => ⌊slot (PVal.scalar (2 : ℝ)) k⌋) := by
    unfold intExps?
    rw [if_pos]
    intro k _
    have : ⌊slot (PVal.scalar (2 : ℝ)) k⌋ = 2 := by
      simp only [slot, C11.PVal.at]
      rw [Int.floor_eq_iff]
      norm_num
    rw [this]
    norm_num [slot, C11.PVal.at]
  exact ⟨⟨2, lbOf exDevI0.table, hbOf exDevI0.table, [],
    .idevice (slot (.scalar 0)) (fun k => ⌊slot (PVal.scalar (2 : ℝ)) k⌋) (slot (.scalar 1))⟩,
    by simp [Dev.toLeaf?, devKind?, devCbs, exDevI0, Dev.default, tableNumeric, hb]⟩

example (z p : ℕ → ℝ) : ∃ l, exDevI0.toLeaf? ext0 = some l ∧ l.cost z p = idevCostR exDevI0 z p := by
  obtain ⟨l, hl⟩ := exDevI0_toLeaf
  exact ⟨l, hl, idevice_leaf_cost_eq exDevI0 ext0 l (reach_rinv exDevI0_reach) rfl hl z p⟩

/-- non-vacuity of the rejected-and-caught half of `Reach`: on the constructed `SDevice` (`c1 = 2`) the assignment
`c2 := 5` raises; the caller catches it; the device is unchanged and still reachable. -/
theorem exDevS_reach_caught : (setField exDevS .c2 (.scalar 5)).2 = some .valueError ∧
    Reach (runAll exDevS [(.c2, .scalar 5)]) := by
  refine ⟨?_, ⟨_, _, _, _, _, exDevS, [(.c2, .scalar 5)], exDevS_construct, rfl⟩⟩
  simp [setField, owns, scalarSet, guardSet, sC2Ok, exDevS, Dev.default]
  norm_num

/-! ### `TDevice` (`TDev`, `tdeviceCtor`): no setters, one constructor -/

/-- the leaf a constructed `TDevice` of length `n` denotes. -/
noncomputable def tdevToLeaf? (n : ℕ) (t : TDev ℝ) : Option (Leaf ℝ) :=
  if tableNumeric t.table = true ∧ t.table.length = n then
    some ⟨n, lbOf t.table, hbOf t.table, (t.cbounds.getD []).map cb4ToLeaf,
      .tdevice ⟨t.sustainment, t.efficiency, t.tInit, t.tOptimal, t.tRange, fun k => t.tExternal.getD k 0, slot t.c⟩⟩
  else none

/-- **every `TDevice` the constructor returns denotes a leaf satisfying the full `Leaf.Accepted`.** -/
theorem tdeviceCtor_accepted {n : ℕ} {bv : PyVal ℝ} {cb : CbSpec ℝ} {s e ti topt tr : ℝ} {te : List ℝ} {c : PVal ℝ}
    {t : TDev ℝ} (h : tdeviceCtor n bv cb s e ti topt tr te c = .ok t) (l : Leaf ℝ) (hl : tdevToLeaf? n t = some l) :
    l.Accepted false := by
  unfold tdeviceCtor at h
  cases hc : construct Cls.device n bv cb ([] : List (Field × Val ℝ)) with
  | error e' => simp [hc] at h
  | ok d0 =>
    simp only [hc] at h
    split_ifs at h with hchk
    cases h
    obtain ⟨_, _, hn⟩ := construct_fresh hc (by simp)
    unfold tdevToLeaf? at hl
    simp only at hl
    split_ifs at hl with hnum
    cases hl
    have hdl : d0.toLeaf? ext0 = some ⟨d0.n, lbOf d0.table, hbOf d0.table, devCbs d0, .device⟩ := by
      have hcls : d0.cls = .device := (construct_fresh hc (by simp)).2.1
      simp [Dev.toLeaf?, devKind?, hcls, hnum.1, hnum.2, hn]
    obtain ⟨a1, a2, a3, _⟩ := construct_accepted hc (by simp) ext0 _ hdl
    simp only [hn] at a1 a2 a3
    exact ⟨a1, fun hp => (by cases hp), a3, tdevice_check_accepted n s e ti topt tr _ te.length c hchk⟩

/-- `TDevice` has no open corner: constructed ⇒ `Leaf.ConvexAcc`, convex cost, gradient, PSD, definedness. -/
theorem tdeviceCtor_convexAcc {n : ℕ} {bv : PyVal ℝ} {cb : CbSpec ℝ} {s e ti topt tr : ℝ} {te : List ℝ} {c : PVal ℝ}
    {t : TDev ℝ} (h : tdeviceCtor n bv cb s e ti topt tr te c = .ok t) (l : Leaf ℝ) (hl : tdevToLeaf? n t = some l) :
    l.ConvexAcc ∧ NotOpenCorner l := by
  have hacc := tdeviceCtor_accepted h l hl
  have hnc : NotOpenCorner l := by
    unfold tdevToLeaf? at hl
    split_ifs at hl
    cases hl
    trivial
  exact ⟨accepted_convexAcc l false hacc hnc, hnc⟩

/-- non-vacuity: a constructed 3-slot heater. -/
noncomputable def exTDev : TDev ℝ :=
  { table := [(some 0, some 3), (some 0, some 3), (some 0, some 3)], cbounds := none, sustainment := 9/10,
    efficiency := -2, tInit := 20, tOptimal := 21, tRange := 3, tExternal := [30, 30, 30], c := .scalar 1 }

theorem exTDev_ctor :
    tdeviceCtor (α := ℝ) 3 (.seq .tuple [.num 0, .num 3]) .pyNone (9/10) (-2) 20 21 3 [30, 30, 30] (.scalar 1) = .ok exTDev := by
  simp [tdeviceCtor, tdeviceCheck, tSustainmentOk, tEfficiencyOk, tRangeOk, iParamOk, PVal.lenOk, PVal.all,
    construct, setAll, setField, owns, validateBoundsW, npShape, commonShape, pairPath, normElem, pyLen, entries,
    scalars, scalar?, finish, zipRows, rowAllNone, rowHasNone, rowOrdered, rowPair, Dev.default, exTDev]
  try norm_num

example : ∃ l, tdevToLeaf? 3 exTDev = some l ∧ l.Accepted false ∧ l.ConvexAcc := by
  have hl : tdevToLeaf? 3 exTDev = some ⟨3, lbOf exTDev.table, hbOf exTDev.table, [],
      .tdevice ⟨9/10, -2, 20, 21, 3, fun k => ([30, 30, 30] : List ℝ).getD k 0, slot (.scalar 1)⟩⟩ := by
    simp [tdevToLeaf?, exTDev, tableNumeric]
  exact ⟨_, hl, tdeviceCtor_accepted exTDev_ctor _ hl, (tdeviceCtor_convexAcc exTDev_ctor _ hl).1⟩

end DK.Link

#print axioms DK.Link.accepted_core
#print axioms DK.Link.accepted_iff_core
#print axioms DK.Link.accepted_convexAcc
#print axioms DK.Link.accepted_convexAcc_closed
#print axioms DK.Link.sdevice_convexAcc_iff
#print axioms DK.Link.sdevice_corner_open
#print axioms DK.Link.gdevice_corner_open
#print axioms DK.Link.adevice_corner_open
#print axioms DK.Link.idevice_corner_open
#print axioms DK.Link.accepted_defined
#print axioms DK.Link.accepted_hess_psd
#print axioms DK.Link.exSCorner_hess_not_psd
#print axioms DK.Link.accepted_leaf_summary
#print axioms DK.Link.accepted_leaf_summary_full
#print axioms DK.Link.accepted_first_order_opt
#print axioms DK.Link.validateBoundsW_tableOK
#print axioms DK.Link.step_rinv
#print axioms DK.Link.runAll_rinv
#print axioms DK.Link.reach_of_setAll
#print axioms DK.Link.construct_rinv
#print axioms DK.Link.reach_core
#print axioms DK.Link.reach_convexAcc
#print axioms DK.Link.reach_summary
#print axioms DK.Link.construct_accepted
#print axioms DK.Link.stale_cbound_reachable
#print axioms DK.Link.cdevice2_ranges_stale
#print axioms DK.Link.idevice_real_convex
#print axioms DK.Link.idevice_real_defined
#print axioms DK.Link.idevice_real_hess_psd
#print axioms DK.Link.idevice_leaf_cost_eq
#print axioms DK.Link.tdevice_check_accepted
#print axioms DK.Link.tdeviceCtor_accepted
#print axioms DK.Link.tdeviceCtor_convexAcc
#print axioms DK.Link.exDevS_reach_caught
