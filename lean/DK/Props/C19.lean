import DK.Lemmas.SolveLemmas
/-!
# C19 — `step` stays feasible, never raises cost, and progresses when not optimal

`step` calls SciPy twice (`utils.project`, then the limited minimisation on `[0, 1]`); both calls are
PARAMETERS of the model.  The theorems hold under *oracle specifications* of the two calls:

* `ProjSpec`: an accepted answer to the projection problem is a nearest point of a convex set `F`
  (the device's feasible set: `Feasible d`, convex by `feasible_convex` when the constraints are affine);
* `LineSpec`: an accepted answer to a bounded one-variable problem lies within its bounds and is not
  worse than the start point (`LineMinSpec` for strict progress: it is a minimiser over the bounds).

"Accepted" is the code's own notion: `success`, or status 8 (logged, not raised).  That SLSQP meets
these specifications is runtime behaviour no theorem here can reach (level: proof, partial).
-/
namespace DK.C19
open DK

/-- specification of the projection oracle on a device's projection problems. -/
def ProjSpec (d : SDev ℝ) (F : (ℕ → ℝ) → Prop) (proj : Problem ℝ → Result ℝ) : Prop :=
  ∀ p x0 : ℕ → ℝ,
    (proj (projProblem d.dim p x0 d.flatBounds (d.cons.map (MCon.toFlat d.n)))).accepted = true →
    IsNearest d.dim F p (proj (projProblem d.dim p x0 d.flatBounds (d.cons.map (MCon.toFlat d.n)))).x

/-- specification of the one-variable minimiser: within bounds, not worse than the start. -/
def LineSpec (lineMin : Problem ℝ → Result ℝ) : Prop :=
  ∀ pb : Problem ℝ, (lineMin pb).accepted = true →
    (pb.bounds 0).1 ≤ (lineMin pb).x 0 ∧ (lineMin pb).x 0 ≤ (pb.bounds 0).2 ∧
    pb.fn (fun _ => (lineMin pb).x 0) ≤ pb.fn pb.x0

/-- the stronger specification: at least as good as every point within the bounds. -/
def LineMinSpec (lineMin : Problem ℝ → Result ℝ) : Prop :=
  ∀ pb : Problem ℝ, (lineMin pb).accepted = true →
    (pb.bounds 0).1 ≤ (lineMin pb).x 0 ∧ (lineMin pb).x 0 ≤ (pb.bounds 0).2 ∧
    ∀ τ : ℝ, (pb.bounds 0).1 ≤ τ → τ ≤ (pb.bounds 0).2 → pb.fn (fun _ => (lineMin pb).x 0) ≤ pb.fn (fun _ => τ)

theorem LineMinSpec.toLineSpec {lineMin : Problem ℝ → Result ℝ} (h : LineMinSpec lineMin)
    (hx0 : ∀ pb : Problem ℝ, (lineMin pb).accepted = true →
      (pb.bounds 0).1 ≤ pb.x0 0 ∧ pb.x0 0 ≤ (pb.bounds 0).2 ∧ pb.fn pb.x0 = pb.fn (fun _ => pb.x0 0)) :
    LineSpec lineMin := by
  intro pb ha
  obtain ⟨h1, h2, h3⟩ := h pb ha
  obtain ⟨a, b, c⟩ := hx0 pb ha
  exact ⟨h1, h2, by rw [c]; exact h3 _ a b⟩

/-! ## wrapper logic, for every pair of optimisers -/

/-- the shape of a returned step: both sub-problems were accepted and the result is the point at
parameter `ol.x` on the segment from `s` to the projected gradient step, reshaped. -/
theorem step_ok_form (d : SDev ℝ) (P : Mat ℝ) (s : ℕ → ℝ) (α : ℝ) (proj lineMin : Problem ℝ → Result ℝ)
    (S' : Mat ℝ) (ol : Result ℝ) (h : step d P s α proj lineMin = .ok (S', ol)) :
    ∃ o, o = proj (projProblem d.dim (gradStep d P s α) s d.flatBounds (d.cons.map (MCon.toFlat d.n)))
      ∧ o.accepted = true ∧ ol = lineMin (lineProblem d P s o.x) ∧ ol.accepted = true
      ∧ S' = unflat d.n (stepPoint s o.x (ol.x 0)) := by
  unfold step at h
  simp only at h
  split_ifs at h with h1 h2
  · injection h with h
    injection h with h3 h4
    subst h4
    exact ⟨_, rfl, h1, rfl, h2, h3.symm⟩

/-- `step` raises unless the projection reported success or status 8 … -/
theorem step_raises_on_projection_failure (d : SDev ℝ) (P : Mat ℝ) (s : ℕ → ℝ) (α : ℝ)
    (proj lineMin : Problem ℝ → Result ℝ)
    (hf : (proj (projProblem d.dim (gradStep d P s α) s d.flatBounds (d.cons.map (MCon.toFlat d.n)))).accepted = false) :
    step d P s α proj lineMin
      = .error (proj (projProblem d.dim (gradStep d P s α) s d.flatBounds (d.cons.map (MCon.toFlat d.n)))) := by
  unfold step
  simp [hf]

/-- … and unless the limited minimisation did. -/
theorem step_raises_on_line_failure (d : SDev ℝ) (P : Mat ℝ) (s : ℕ → ℝ) (α : ℝ)
    (proj lineMin : Problem ℝ → Result ℝ)
    (ho : (proj (projProblem d.dim (gradStep d P s α) s d.flatBounds (d.cons.map (MCon.toFlat d.n)))).accepted = true)
    (hf : (lineMin (lineProblem d P s
      (proj (projProblem d.dim (gradStep d P s α) s d.flatBounds (d.cons.map (MCon.toFlat d.n)))).x)).accepted = false) :
    step d P s α proj lineMin = .error (lineMin (lineProblem d P s
      (proj (projProblem d.dim (gradStep d P s α) s d.flatBounds (d.cons.map (MCon.toFlat d.n)))).x)) := by
  unfold step
  simp [ho, hf]

/-- status 8 with `success = false` is accepted (the code only logs it); every other failure is not. -/
theorem accepted_iff (o : Result ℝ) : o.accepted = true ↔ (o.success = true ∨ o.status = 8) := by
  unfold Result.accepted
  simp

/-! ## feasibility and monotonicity of one step -/

/-- the returned flow is a convex combination of two points of the convex set `F`, hence in `F`. -/
theorem step_feasible (d : SDev ℝ) (P : Mat ℝ) (s : ℕ → ℝ) (α : ℝ) (proj lineMin : Problem ℝ → Result ℝ)
    (F : (ℕ → ℝ) → Prop) (hF : ConvexSet F) (hs : F s) (hproj : ProjSpec d F proj) (hline : LineSpec lineMin)
    (S' : Mat ℝ) (ol : Result ℝ) (h : step d P s α proj lineMin = .ok (S', ol)) :
    F (flat d.n S') := by
  obtain ⟨o, ho, hoa, hol, hola, hS⟩ := step_ok_form d P s α proj lineMin S' ol h
  have hq : F o.x := by rw [ho]; rw [ho] at hoa; exact (hproj _ _ hoa).1
  have hl := hline (lineProblem d P s o.x) (by rw [← hol]; exact hola)
  rw [← hol] at hl
  simp only [lineProblem] at hl
  rw [hS, flat_unflat', seg_eq_stepPoint]
  exact hF.seg_mem hs hq hl.1 hl.2.1

/-- the cost of the returned flow is not higher than the cost of the start. -/
theorem step_monotone (d : SDev ℝ) (P : Mat ℝ) (s : ℕ → ℝ) (α : ℝ) (proj lineMin : Problem ℝ → Result ℝ)
    (hline : LineSpec lineMin)
    (S' : Mat ℝ) (ol : Result ℝ) (h : step d P s α proj lineMin = .ok (S', ol)) :
    d.cost S' P ≤ d.cost (unflat d.n s) P := by
  obtain ⟨o, _, _, hol, hola, hS⟩ := step_ok_form d P s α proj lineMin S' ol h
  have hl := (hline (lineProblem d P s o.x) (by rw [← hol]; exact hola)).2.2
  rw [← hol] at hl
  simp only [lineProblem, SDev.flatCost] at hl
  rw [hS]
  have e : stepPoint s o.x 0 = s := by rw [seg_eq_stepPoint, seg_zero]
  rw [e] at hl
  exact hl

/-! ## the descent direction -/

/-- with `z = s − α∇` and `q` a nearest point of the convex `F ∋ s` to `z`:
`∇·(q − s) ≤ −‖q − s‖²/α`. -/
theorem descent_direction (N : ℕ) (F : (ℕ → ℝ) → Prop) (hF : ConvexSet F) (s g q : ℕ → ℝ) (α : ℝ) (hα : 0 < α)
    (hs : F s) (hq : IsNearest N F (fun k => s k - α * g k) q) :
    dotN N g (fun k => q k - s k) ≤ - sqDist N q s / α := by
  have h := projection_inequality hF hq hs
  have e : dotN N (fun k => s k - α * g k - q k) (fun k => s k - q k)
      = sqDist N q s + α * dotN N g (fun k => q k - s k) := by
    unfold dotN sqDist
    rw [← sumTo_mul_left, ← sumTo_add]
    exact sumTo_congr (fun k _ => by ring)
  rw [e] at h
  rw [le_div_iff₀ hα]
  linarith

/-- hence, unless `q = s`, the direction `q − s` is a strict descent direction … -/
theorem descent_strict (N : ℕ) (F : (ℕ → ℝ) → Prop) (hF : ConvexSet F) (s g q : ℕ → ℝ) (α : ℝ) (hα : 0 < α)
    (hs : F s) (hq : IsNearest N F (fun k => s k - α * g k) q) (hne : ∃ k < N, q k ≠ s k) :
    dotN N g (fun k => q k - s k) < 0 := by
  have h := descent_direction N F hF s g q α hα hs hq
  have hpos : 0 < sqDist N q s := by
    rcases eq_or_lt_of_le (sqDist_nonneg N q s) with h0 | h0
    · obtain ⟨k, hk, hk'⟩ := hne
      exact absurd (sqDist_eq_zero h0.symm k hk) hk'
    · exact h0
  have : - sqDist N q s / α < 0 := by
    rw [neg_div]; exact neg_neg_of_pos (div_pos hpos hα)
  linarith

/-- … and if `q = s` then `s` is first-order optimal over `F` (so, by C05(d), optimal for convex cost). -/
theorem fixed_point_first_order (N : ℕ) (F : (ℕ → ℝ) → Prop) (hF : ConvexSet F) (s g q : ℕ → ℝ) (α : ℝ) (hα : 0 < α)
    (hq : IsNearest N F (fun k => s k - α * g k) q) (heq : ∀ k < N, q k = s k) (y : ℕ → ℝ) (hy : F y) :
    0 ≤ dotN N g (fun k => y k - s k) := by
  have h := projection_inequality hF hq hy
  have e : dotN N (fun k => s k - α * g k - q k) (fun k => y k - q k) = - α * dotN N g (fun k => y k - s k) := by
    unfold dotN
    rw [← sumTo_mul_left]
    exact sumTo_congr (fun k hk => by simp only [heq k hk]; ring)
  rw [e] at h
  nlinarith

/-- a cost differentiable at `s` with gradient `g` strictly decreases somewhere on the segment towards `q`. -/
theorem descent_decreases (N : ℕ) (F : (ℕ → ℝ) → Prop) (hF : ConvexSet F) (f : (ℕ → ℝ) → ℝ) (s g q : ℕ → ℝ) (α : ℝ)
    (hα : 0 < α) (hs : F s) (hq : IsNearest N F (fun k => s k - α * g k) q) (hne : ∃ k < N, q k ≠ s k)
    (hg : IsGradAt N f g s) :
    ∃ τ : ℝ, 0 < τ ∧ τ ≤ 1 ∧ f (seg s q τ) < f s := by
  have hD := descent_strict N F hF s g q α hα hs hq hne
  have hd : HasDerivAt (fun τ => f (seg s q τ)) (dotN N g (fun k => q k - s k)) 0 := hg (fun k => q k - s k)
  obtain ⟨τ, h0, h1, hlt⟩ := exists_lt_of_neg_slope hd hD
  rw [seg_zero] at hlt
  exact ⟨τ, h0, h1, hlt⟩

/-- strict progress of the model `step`: with a projection oracle, a line-minimiser oracle and a cost
whose reported `deriv` is its gradient at `s`, if the projected gradient step differs from `s` the
returned flow has strictly lower cost. -/
theorem step_progress (d : SDev ℝ) (P : Mat ℝ) (s : ℕ → ℝ) (α : ℝ) (hα : 0 < α) (proj lineMin : Problem ℝ → Result ℝ)
    (F : (ℕ → ℝ) → Prop) (hF : ConvexSet F) (hs : F s) (hproj : ProjSpec d F proj) (hline : LineMinSpec lineMin)
    (hg : IsGradAt d.dim (d.flatCost P) (d.flatDeriv P s) s)
    (S' : Mat ℝ) (ol : Result ℝ) (h : step d P s α proj lineMin = .ok (S', ol))
    (hne : ∃ k < d.dim,
      (proj (projProblem d.dim (gradStep d P s α) s d.flatBounds (d.cons.map (MCon.toFlat d.n)))).x k ≠ s k) :
    d.cost S' P < d.cost (unflat d.n s) P := by
  obtain ⟨o, ho, hoa, hol, hola, hS⟩ := step_ok_form d P s α proj lineMin S' ol h
  rw [← ho] at hne
  have hq : IsNearest d.dim F (fun k => s k - α * d.flatDeriv P s k) o.x := by
    rw [ho]; rw [ho] at hoa; exact hproj _ _ hoa
  obtain ⟨τ, h0, h1, hlt⟩ := descent_decreases d.dim F hF (d.flatCost P) s _ o.x α hα hs hq hne hg
  have hl := (hline (lineProblem d P s o.x) (by rw [← hol]; exact hola)).2.2 τ
  rw [← hol] at hl
  simp only [lineProblem, SDev.flatCost] at hl
  have := hl h0.le h1
  rw [hS]
  unfold SDev.flatCost at hlt
  simp only [seg_eq_stepPoint] at this hlt ⊢
  linarith

/-! ## contrast: the ascent sign of the original code (`s + stepsize·deriv`) -/

/-- with `z = s + α∇` the same projection inequality gives `∇·(q − s) ≥ ‖q − s‖²/α ≥ 0` … -/
theorem ascent_direction (N : ℕ) (F : (ℕ → ℝ) → Prop) (hF : ConvexSet F) (s g q : ℕ → ℝ) (α : ℝ) (hα : 0 < α)
    (hs : F s) (hq : IsNearest N F (fun k => s k + α * g k) q) :
    sqDist N q s / α ≤ dotN N g (fun k => q k - s k) ∧ 0 ≤ dotN N g (fun k => q k - s k) := by
  have h := projection_inequality hF hq hs
  have e : dotN N (fun k => s k + α * g k - q k) (fun k => s k - q k)
      = sqDist N q s - α * dotN N g (fun k => q k - s k) := by
    unfold dotN sqDist
    rw [← sumTo_mul_left, ← sumTo_sub]
    exact sumTo_congr (fun k _ => by ring)
  rw [e] at h
  have h1 : sqDist N q s / α ≤ dotN N g (fun k => q k - s k) := by
    rw [div_le_iff₀ hα]; linarith
  exact ⟨h1, le_trans (div_nonneg (sqDist_nonneg N q s) hα.le) h1⟩

/-- … so for a convex cost the line function is non-decreasing on `[0, 1]`: the limited minimisation
can only return the value at `0` — the silent no-op of the pre-fix code. -/
theorem ascent_noop (N : ℕ) (F : (ℕ → ℝ) → Prop) (hF : ConvexSet F) (f : (ℕ → ℝ) → ℝ) (hf : ConvexOnSet F f)
    (s g q : ℕ → ℝ) (α : ℝ) (hα : 0 < α) (hs : F s) (hq : IsNearest N F (fun k => s k + α * g k) q)
    (hg : IsGradAt N f g s) :
    (∀ a b : ℝ, 0 ≤ a → a ≤ b → b ≤ 1 → f (seg s q a) ≤ f (seg s q b)) ∧
    (∀ x : ℝ, 0 ≤ x → x ≤ 1 → f s ≤ f (seg s q x)) := by
  have hD := (ascent_direction N F hF s g q α hα hs hq).2
  have hd : HasDerivAt (fun τ => f (seg s q τ)) (dotN N g (fun k => q k - s k)) 0 := hg (fun k => q k - s k)
  have mono : ∀ a b : ℝ, 0 ≤ a → a ≤ b → b ≤ 1 → f (seg s q a) ≤ f (seg s q b) :=
    fun a b ha hab hb => seg_monotone_of_nonneg_slope hF hf hs hq.1 hd hD ha hab hb
  refine ⟨mono, fun x h0 h1 => ?_⟩
  have := mono 0 x le_rfl h0 h1
  rwa [seg_zero] at this

/-! ## repeated steps -/

/-- any number of repeated steps: feasibility is preserved and the cost never increases. -/
theorem steps_monotone (d : SDev ℝ) (P : Mat ℝ) (α : ℝ) (proj lineMin : Problem ℝ → Result ℝ)
    (F : (ℕ → ℝ) → Prop) (hF : ConvexSet F) (hproj : ProjSpec d F proj) (hline : LineSpec lineMin) :
    ∀ (m : ℕ) (s s' : ℕ → ℝ), F s → steps d P α proj lineMin m s = .ok s' →
      F s' ∧ d.flatCost P s' ≤ d.flatCost P s := by
  intro m
  induction m with
  | zero =>
    intro s s' hs h
    simp only [steps] at h
    injection h with h
    rw [← h]
    exact ⟨hs, le_rfl⟩
  | succ m ih =>
    intro s s' hs h
    simp only [steps] at h
    cases hst : step d P s α proj lineMin with
    | error e => rw [hst] at h; simp at h
    | ok r =>
      obtain ⟨S', ol⟩ := r
      rw [hst] at h
      simp only at h
      have hfe := step_feasible d P s α proj lineMin F hF hs hproj hline S' ol hst
      have hmo := step_monotone d P s α proj lineMin hline S' ol hst
      obtain ⟨h1, h2⟩ := ih (flat d.n S') s' hfe h
      refine ⟨h1, le_trans h2 ?_⟩
      obtain ⟨o, _, _, _, _, hS⟩ := step_ok_form d P s α proj lineMin S' ol hst
      unfold SDev.flatCost
      rw [hS, flat_unflat', ← hS]
      exact hmo

/-! ## non-vacuity: a one-slot device, a clamp projection oracle and a line oracle that meet the
specifications, and a step that returns and strictly lowers the cost -/
section Example

/-- one slot, bounds `[0, 1]`, linear cost `s·p`. -/
def exDev : SDev ℝ :=
  { rows := 1, n := 1, cost := fun S P => S 0 0 * P 0 0, deriv := fun _ P _ _ => P 0 0,
    bounds := fun _ _ => (0, 1), cons := [], project := fun S => S }

def exF : (ℕ → ℝ) → Prop := InBox 1 (fun _ => 0) (fun _ => 1)

/-- reads the target point back from the Jacobian `2(s − p)` and clamps it. -/
noncomputable def exProj (pb : Problem ℝ) : Result ℝ :=
  ⟨fun k => clamp 0 1 (match pb.jac with | some j => -(j (fun _ => 0) k) / 2 | none => 0), true, 0⟩

open Classical in
/-- tries the upper end of the interval; refuses (status 4) when that is not an improvement. -/
noncomputable def exLine (pb : Problem ℝ) : Result ℝ :=
  if (pb.bounds 0).1 ≤ (pb.bounds 0).2 ∧ pb.fn (fun _ => (pb.bounds 0).2) ≤ pb.fn pb.x0
  then ⟨fun _ => (pb.bounds 0).2, true, 0⟩ else ⟨pb.x0, false, 4⟩

theorem exF_convex : ConvexSet exF := convexSet_inBox 1 _ _

/-- the clamp is a nearest point of the unit interval. -/
theorem exF_nearest (p : ℕ → ℝ) : IsNearest 1 exF p (fun k => clamp 0 1 (p k)) := by
  refine ⟨fun k _ => clamp_mem (by norm_num), fun y hy => ?_⟩
  have ⟨y0, y1⟩ := hy 0 (by norm_num)
  simp only [sqDist, sumTo, zero_add]
  rcases clamp_cases (p := p 0) (lo := 0) (hi := 1) (by norm_num) with ⟨a, hc⟩ | ⟨_, _, hc⟩ | ⟨a, hc⟩ <;> rw [hc] <;> nlinarith

theorem exProj_spec : ProjSpec exDev exF exProj := by
  intro p x0 _
  have hx : (exProj (projProblem exDev.dim p x0 exDev.flatBounds (exDev.cons.map (MCon.toFlat exDev.n)))).x
      = fun k => clamp 0 1 (p k) := by
    funext k
    simp only [exProj, projProblem]
    congr 1
    ring
  rw [hx]
  exact exF_nearest p

theorem exF_half : exF (fun _ => 1/2) := fun k _ => by norm_num

/-- descent lemma instance: from `s = 1/2` with gradient `1` and step `1`, the projected point is `clamp(−1/2) = 0`. -/
example : dotN 1 (fun _ => 1) (fun k => clamp 0 1 ((fun _ => (1:ℝ)/2) k - 1 * (fun _ => (1:ℝ)) k) - (fun _ => (1:ℝ)/2) k)
    ≤ - sqDist 1 (fun k => clamp 0 1 ((fun _ => (1:ℝ)/2) k - 1 * (fun _ => (1:ℝ)) k)) (fun _ => 1/2) / 1 :=
  descent_direction 1 exF exF_convex (fun _ => 1/2) (fun _ => 1) _ 1 (by norm_num) exF_half (exF_nearest _)

/-- ascent contrast instance: the linear cost `x ↦ x 0` (convex, gradient `1`) cannot decrease along the
segment towards the projection of `s + ∇`. -/
example (x : ℝ) (h0 : 0 ≤ x) (h1 : x ≤ 1) :
    (fun y : ℕ → ℝ => priceTerm 1 y (fun _ => 1)) (fun _ => 1/2)
      ≤ (fun y : ℕ → ℝ => priceTerm 1 y (fun _ => 1)) (seg (fun _ => 1/2) (fun k => clamp 0 1 ((fun _ => (1:ℝ)/2) k + 1 * (fun _ => (1:ℝ)) k)) x) :=
  (ascent_noop 1 exF exF_convex (fun y => priceTerm 1 y (fun _ => 1))
    (by
      intro a b _ _ θ _ _
      simp only [priceTerm, sumTo, mix]
      ring_nf
      exact le_refl _)
    (fun _ => 1/2) (fun _ => 1) _ 1 (by norm_num) exF_half (exF_nearest _) (priceTerm_isGradAt 1 _ _)).2 x h0 h1

theorem exLine_spec : LineSpec exLine := by
  intro pb ha
  unfold exLine at ha ⊢
  split_ifs at ha ⊢ with h
  · exact ⟨h.1, le_rfl, h.2⟩
  · simp [Result.accepted] at ha

example : ∃ S' ol, step exDev (fun _ _ => 1) (fun _ => 1/2) 1 exProj exLine = .ok (S', ol)
    ∧ exF (flat exDev.n S') ∧ exDev.cost S' (fun _ _ => 1) < exDev.cost (unflat exDev.n (fun _ => 1/2)) (fun _ _ => 1) := by
  have hq : (exProj (projProblem exDev.dim (gradStep exDev (fun _ _ => 1) (fun _ => 1/2) 1) (fun _ => 1/2)
      exDev.flatBounds (exDev.cons.map (MCon.toFlat exDev.n)))).x = fun _ => 0 := by
    funext k
    simp only [exProj, projProblem, gradStep, SDev.flatDeriv, flat, exDev]
    have : -(2 * (0 - ((1:ℝ) / 2 - 1 * 1))) / 2 = -1/2 := by norm_num
    rw [this]
    simp only [clamp]
    norm_num
  have hl : exLine (lineProblem exDev (fun _ _ => 1) (fun _ => 1/2) (fun _ => 0)) = ⟨fun _ => 1, true, 0⟩ := by
    unfold exLine
    rw [if_pos]
    · rfl
    · simp only [lineProblem, SDev.flatCost, stepPoint, unflat, flatIdx, exDev]
      norm_num
  have hst : step exDev (fun _ _ => 1) (fun _ => 1/2) 1 exProj exLine
      = .ok (unflat exDev.n (stepPoint (fun _ => 1/2) (fun _ => 0) 1), ⟨fun _ => 1, true, 0⟩) := by
    unfold step
    simp only [hq, hl]
    rfl
  refine ⟨_, _, hst, ?_, ?_⟩
  · exact step_feasible exDev _ _ _ exProj exLine exF exF_convex (fun k _ => by norm_num) exProj_spec exLine_spec _ _ hst
  · simp only [exDev, unflat, stepPoint, flatIdx]
    norm_num

/-! ### `LineMinSpec` is inhabited, and `step_progress` fires: an exact line minimiser on a convex quadratic -/

/-- one slot, bounds `[0, 1]`, cost `s²` (marginal cost `2s`). -/
def exQ : SDev ℝ :=
  { rows := 1, n := 1, cost := fun S _ => S 0 0 * S 0 0, deriv := fun S _ _ _ => 2 * S 0 0,
    bounds := fun _ _ => (0, 1), cons := [], project := fun S => S }

open Classical in
/-- answers an exact minimiser over the interval whenever one exists; refuses (status 4) otherwise. -/
noncomputable def exLineMin (pb : Problem ℝ) : Result ℝ :=
  if h : ∃ x : ℝ, (pb.bounds 0).1 ≤ x ∧ x ≤ (pb.bounds 0).2 ∧
      ∀ τ : ℝ, (pb.bounds 0).1 ≤ τ → τ ≤ (pb.bounds 0).2 → pb.fn (fun _ => x) ≤ pb.fn (fun _ => τ)
  then ⟨fun _ => Classical.choose h, true, 0⟩ else ⟨pb.x0, false, 4⟩

theorem exLineMin_spec : LineMinSpec exLineMin := by
  intro pb ha
  unfold exLineMin at ha ⊢
  split_ifs at ha ⊢ with h
  · exact Classical.choose_spec h
  · simp [Result.accepted] at ha

theorem exQ_projSpec : ProjSpec exQ exF exProj := by
  intro p x0 _
  have hx : (exProj (projProblem exQ.dim p x0 exQ.flatBounds (exQ.cons.map (MCon.toFlat exQ.n)))).x
      = fun k => clamp 0 1 (p k) := by
    funext k
    simp only [exProj, projProblem]
    congr 1
    ring
  rw [hx]
  exact exF_nearest p

theorem exQ_grad (P : Mat ℝ) (s : ℕ → ℝ) : IsGradAt exQ.dim (exQ.flatCost P) (exQ.flatDeriv P s) s := by
  intro d
  have h1 : HasDerivAt (fun τ : ℝ => s 0 + τ * d 0) (d 0) 0 := by
    simpa using ((hasDerivAt_id' (0:ℝ)).mul_const (d 0)).const_add (s 0)
  have h2 := h1.mul h1
  refine (h2.congr_deriv ?_).congr_of_eventuallyEq ?_
  · simp only [exQ, SDev.dim, SDev.flatDeriv, flat, unflat, flatIdx, sumTo]
    ring
  · filter_upwards with τ
    simp only [exQ, SDev.flatCost, unflat, flatIdx, line, Pi.mul_apply]

/-- from `s = 1/2` with step size `1/4` the projected gradient step is `1/4 ≠ s`; the exact line minimiser is
accepted, `step` returns, and `step_progress` gives a strictly lower cost. -/
example : ∃ S' ol, step exQ (fun _ _ => 0) (fun _ => 1/2) (1/4) exProj exLineMin = .ok (S', ol)
    ∧ exQ.cost S' (fun _ _ => 0) < exQ.cost (unflat exQ.n (fun _ => 1/2)) (fun _ _ => 0) := by
  have hq : (exProj (projProblem exQ.dim (gradStep exQ (fun _ _ => 0) (fun _ => 1/2) (1/4)) (fun _ => 1/2)
      exQ.flatBounds (exQ.cons.map (MCon.toFlat exQ.n)))).x = fun _ => 1/4 := by
    funext k
    simp only [exProj, projProblem, gradStep, SDev.flatDeriv, flat, unflat, flatIdx, exQ]
    have : -(2 * (0 - ((1:ℝ) / 2 - 1 / 4 * (2 * (1 / 2))))) / 2 = 1/4 := by norm_num
    rw [this]
    simp only [clamp]
    norm_num
  have hex : ∃ x : ℝ, ((lineProblem exQ (fun _ _ => 0) (fun _ => 1/2) (fun _ => 1/4)).bounds 0).1 ≤ x ∧
      x ≤ ((lineProblem exQ (fun _ _ => 0) (fun _ => 1/2) (fun _ => 1/4)).bounds 0).2 ∧
      ∀ τ : ℝ, ((lineProblem exQ (fun _ _ => 0) (fun _ => 1/2) (fun _ => 1/4)).bounds 0).1 ≤ τ →
        τ ≤ ((lineProblem exQ (fun _ _ => 0) (fun _ => 1/2) (fun _ => 1/4)).bounds 0).2 →
        (lineProblem exQ (fun _ _ => 0) (fun _ => 1/2) (fun _ => 1/4)).fn (fun _ => x)
          ≤ (lineProblem exQ (fun _ _ => 0) (fun _ => 1/2) (fun _ => 1/4)).fn (fun _ => τ) := by
    refine ⟨1, by simp [lineProblem], by simp [lineProblem], fun τ h0 h1 => ?_⟩
    simp only [lineProblem, SDev.flatCost, stepPoint, unflat, exQ] at h0 h1 ⊢
    nlinarith
  have hacc : (exLineMin (lineProblem exQ (fun _ _ => 0) (fun _ => 1/2) (fun _ => 1/4))).accepted = true := by
    unfold exLineMin
    rw [dif_pos hex]
    rfl
  have hst : ∃ S' ol, step exQ (fun _ _ => 0) (fun _ => 1/2) (1/4) exProj exLineMin = .ok (S', ol) := by
    unfold step
    simp only [hq]
    rw [if_pos (by rfl), if_pos hacc]
    exact ⟨_, _, rfl⟩
  obtain ⟨S', ol, h⟩ := hst
  refine ⟨S', ol, h, ?_⟩
  refine step_progress exQ (fun _ _ => 0) (fun _ => 1/2) (1/4) (by norm_num) exProj exLineMin exF exF_convex exF_half
    exQ_projSpec exLineMin_spec (exQ_grad _ _) S' ol h ⟨0, by simp [exQ, SDev.dim], ?_⟩
  rw [hq]
  norm_num

end Example

end DK.C19
