import DK.Props.Defs
import DK.Lemmas.HessCalc
/-!
# C14 — the reported Hessian is the Jacobian of the marginal cost (closed-form classes),
symmetric, independent of price, and positive semidefinite for the convex models

(`fn_hess` / `fn_hess_symm` for the combinator trees are proved in a separate file.)
-/
namespace DK.C14
open DK

def Symm (n : ℕ) (H : ℕ → ℕ → ℝ) : Prop := ∀ i < n, ∀ j < n, H i j = H j i

/-- `vᵀ H v ≥ 0`. -/
def PSD (n : ℕ) (H : ℕ → ℕ → ℝ) : Prop :=
  ∀ v : ℕ → ℝ, 0 ≤ sumTo n (fun i => sumTo n (fun j => v i * H i j * v j))

/-! ## local helpers -/

theorem PSD.zero (n : ℕ) : PSD n (fun _ _ => 0) := by
  intro v
  simp

theorem PSD.add {n : ℕ} {H H' : ℕ → ℕ → ℝ} (h : PSD n H) (h' : PSD n H') :
    PSD n (fun i j => H i j + H' i j) := by
  intro v
  rw [quad_add]
  exact add_nonneg (h v) (h' v)

theorem PSD.diag (n : ℕ) (h : ℕ → ℝ) (hh : ∀ i < n, 0 ≤ h i) :
    PSD n (fun i j => if i = j then h i else 0) :=
  fun v => quad_diag_nonneg n h v hh

theorem symm_diag (n : ℕ) (h : ℕ → ℝ) : Symm n (fun i j => if i = j then h i else 0) := by
  intro i _ j _
  by_cases hij : i = j
  · subst hij; rfl
  · simp [hij, Ne.symm hij]

/-- the slot-wise classes: marginal cost `φ_i (x_i) + p_i` has the diagonal Jacobian `φ_i'`. -/
theorem isHessAt_diag (n : ℕ) (φ : ℕ → ℝ → ℝ) (h : ℕ → ℝ) (s p : ℕ → ℝ)
    (hφ : ∀ i < n, HasDerivAt (φ i) (h i) (s i)) :
    IsHessAt n (fun x i => φ i (x i) + p i) (fun i j => if i = j then h i else 0) s := by
  intro i hi
  exact (isGradAt_slot n i hi (φ i) (h i) s (hφ i hi)).add_const (p i)

/-! ## Device, CDevice: constant marginal cost -/

theorem device_hess (n : ℕ) (s p : ℕ → ℝ) : IsHessAt n (fun _ => deviceDeriv p) (fun _ _ => 0) s := by
  intro i _
  exact IsGradAt.const n (deviceDeriv p i) s

theorem cdevice_hess (n : ℕ) (a : ℝ) (s p : ℕ → ℝ) : IsHessAt n (fun _ => cdevDeriv a p) (fun _ _ => 0) s := by
  intro i _
  exact IsGradAt.const n (cdevDeriv a p i) s

/-! ## IDevice2 -/

theorem idevice2_hess (n : ℕ) (pl ph lb hb s p : ℕ → ℝ) :
    IsHessAt n (fun x => idev2Deriv pl ph lb hb x p) (idev2Hess pl ph lb hb) s :=
  isHessAt_diag n (fun i y => hlqDeriv (pl i) (ph i) (lb i) (hb i) y)
    (fun i => hlqHess (pl i) (ph i) (lb i) (hb i)) s p
    (fun i _ => hlqDeriv_hasDerivAt (pl i) (ph i) (lb i) (hb i) (s i))

theorem idevice2_hess_symm (n : ℕ) (pl ph lb hb : ℕ → ℝ) : Symm n (idev2Hess pl ph lb hb) :=
  symm_diag n (fun i => hlqHess (pl i) (ph i) (lb i) (hb i))

theorem idevice2_hess_psd (n : ℕ) (pl ph lb hb : ℕ → ℝ) (hp : ∀ k < n, pl k ≤ ph k) (hb' : ∀ k < n, lb k ≤ hb k) :
    PSD n (idev2Hess pl ph lb hb) :=
  PSD.diag n (fun i => hlqHess (pl i) (ph i) (lb i) (hb i))
    (fun i hi => hlqHess_nonneg _ _ _ _ (hp i hi) (hb' i hi))

/-- non-vacuity: rising marginal cost on a proper box. -/
example : ∃ pl ph lb hb : ℕ → ℝ, (∀ k < 3, pl k ≤ ph k) ∧ (∀ k < 3, lb k ≤ hb k)
    ∧ idev2Hess pl ph lb hb 1 1 = 2 :=
  ⟨fun _ => 1, fun _ => 3, fun _ => 0, fun _ => 1, fun _ _ => by norm_num, fun _ _ => by norm_num,
    by norm_num [idev2Hess, hlqHess]⟩

/-! ## IDevice -/

/-- real exponents, away from `q = 0`. -/
theorem idevice_hess (n : ℕ) (a b c lb hb s p : ℕ → ℝ)
    (hq : ∀ k < n, lb k = hb k ∨ 0 < abcQ (s k) (lb k) (hb k) (a k)) :
    IsHessAt n (fun x => idevDeriv Real.rpow id a b c lb hb x p) (idevHess Real.rpow id a b c lb hb s) s :=
  isHessAt_diag n (fun i y => abcDeriv Real.rpow id y (a i) (b i) (c i) (lb i) (hb i))
    (fun i => abcHess Real.rpow id (s i) (a i) (b i) (c i) (lb i) (hb i)) s p
    (fun i hi => abcDeriv_rpow_hasDerivAt (s i) (a i) (b i) (c i) (lb i) (hb i) (hq i hi))

/-- non-vacuity: `q = (1 + a)/2 > 0` at the midpoint of the box. -/
example : ∃ a lb hb s : ℕ → ℝ, ∀ k < 3, lb k = hb k ∨ 0 < abcQ (s k) (lb k) (hb k) (a k) :=
  ⟨fun _ => 1 / 2, fun _ => 0, fun _ => 2, fun _ => 1, fun _ _ => Or.inr (by norm_num [abcQ, abcS])⟩

/-- integer exponents `b ≥ 1` (executable model). -/
theorem idevice_hess_int (n : ℕ) (a : ℕ → ℝ) (b : ℕ → ℤ) (c lb hb s p : ℕ → ℝ) (hb1 : ∀ k < n, 1 ≤ b k) :
    IsHessAt n (fun x => idevDeriv ipow intCast' a b c lb hb x p) (idevHess ipow intCast' a b c lb hb s) s :=
  isHessAt_diag n (fun i y => abcDeriv ipow intCast' y (a i) (b i) (c i) (lb i) (hb i))
    (fun i => abcHess ipow intCast' (s i) (a i) (b i) (c i) (lb i) (hb i)) s p
    (fun i hi => abcDeriv_ipow_hasDerivAt (s i) (a i) (b i) (c i) (lb i) (hb i) (hb1 i hi))

example : ∃ b : ℕ → ℤ, ∀ k < 3, 1 ≤ b k := ⟨fun _ => 2, fun _ _ => by norm_num⟩

theorem idevice_hess_symm (n : ℕ) (a b c lb hb s : ℕ → ℝ) : Symm n (idevHess Real.rpow id a b c lb hb s) :=
  symm_diag n (fun i => abcHess Real.rpow id (s i) (a i) (b i) (c i) (lb i) (hb i))

theorem idevice_hess_psd (n : ℕ) (a b c lb hb s : ℕ → ℝ) (hb1 : ∀ k < n, 1 ≤ b k) (hc : ∀ k < n, 0 ≤ c k)
    (hq : ∀ k < n, 0 ≤ abcQ (s k) (lb k) (hb k) (a k)) :
    PSD n (idevHess Real.rpow id a b c lb hb s) :=
  PSD.diag n (fun i => abcHess Real.rpow id (s i) (a i) (b i) (c i) (lb i) (hb i))
    (fun i hi => abcHess_rpow_nonneg _ _ _ _ _ _ (hb1 i hi) (hc i hi) (hq i hi))

example : ∃ a b c lb hb s : ℕ → ℝ, (∀ k < 3, 1 ≤ b k) ∧ (∀ k < 3, 0 ≤ c k)
    ∧ (∀ k < 3, 0 ≤ abcQ (s k) (lb k) (hb k) (a k)) :=
  ⟨fun _ => 1 / 2, fun _ => 2, fun _ => 1, fun _ => 0, fun _ => 2, fun _ => 1,
    fun _ _ => by norm_num, fun _ _ => by norm_num, fun _ _ => by norm_num [abcQ, abcS]⟩

/-! ## GDevice -/

theorem gdevice_hess (n : ℕ) (cs : ℕ → List ℝ) (s p : ℕ → ℝ) :
    IsHessAt n (fun x => gdevDeriv cs x p) (gdevHess cs s) s := by
  intro i hi
  have hφ : HasDerivAt (fun y : ℝ => p i - polyEval (polyDer (cs i)) (- y))
      (polyEval (polyDer (polyDer (cs i))) (- s i)) (s i) := by
    have h1 : HasDerivAt (fun y : ℝ => - y) (-1) (s i) := (hasDerivAt_id' (s i)).neg
    have h2 := HasDerivAt.comp (s i) (polyEval_hasDerivAt (polyDer (cs i)) (- s i)) h1
    have h3 := h2.const_sub (p i)
    refine HasDerivAt.congr_deriv h3 ?_
    ring
  exact isGradAt_slot n i hi (fun y => p i - polyEval (polyDer (cs i)) (- y)) _ s hφ

theorem gdevice_hess_symm (n : ℕ) (cs : ℕ → List ℝ) (s : ℕ → ℝ) : Symm n (gdevHess cs s) :=
  symm_diag n (fun i => polyEval (polyDer (polyDer (cs i))) (- s i))

/-! ## CDevice2 -/

theorem cdev2Slope_multi (n : ℕ) (pl ph : ℝ) (cbs : List (CBound ℝ)) (hne : ∀ c, cbs ≠ [c]) (x : ℕ → ℝ) (i : ℕ) :
    cdev2Slope n pl ph cbs x i
      = (cbs.map (fun c => if c.s ≤ i ∧ i < c.e then hlqDeriv pl ph c.l c.h (sumRange c.s c.e x) else 0)).sum := by
  rcases cbs with _ | ⟨a, _ | ⟨b, t⟩⟩
  · rfl
  · exact absurd rfl (hne a)
  · simp only [cdev2Slope]
    rw [foldl_add_eq_sum, zero_add]

theorem cdev2Hess_multi (pl ph : ℝ) (cbs : List (CBound ℝ)) (hne : ∀ c, cbs ≠ [c]) (i j : ℕ) :
    cdev2Hess pl ph cbs i j
      = (cbs.map (fun c => if c.s ≤ i ∧ i < c.e ∧ c.s ≤ j ∧ j < c.e then hlqHess pl ph c.l c.h else 0)).sum := by
  rcases cbs with _ | ⟨a, _ | ⟨b, t⟩⟩
  · rfl
  · exact absurd rfl (hne a)
  · simp only [cdev2Hess]
    rw [foldl_add_eq_sum, zero_add]

/-- one cumulative range contributes a rank-one block. -/
theorem isGradAt_range_term (n : ℕ) (pl ph : ℝ) (c : CBound ℝ) (hc : c.e ≤ n) (s : ℕ → ℝ) (i : ℕ) :
    IsGradAt n (fun x => if c.s ≤ i ∧ i < c.e then hlqDeriv pl ph c.l c.h (sumRange c.s c.e x) else 0)
      (fun j => if c.s ≤ i ∧ i < c.e ∧ c.s ≤ j ∧ j < c.e then hlqHess pl ph c.l c.h else 0) s := by
  by_cases hi : c.s ≤ i ∧ i < c.e
  · simp only [hi]
    have := isGradAt_sumRange_comp n c.s c.e hc (fun y => hlqDeriv pl ph c.l c.h y) _ s
      (hlqDeriv_hasDerivAt pl ph c.l c.h (sumRange c.s c.e s))
    refine this.congr_grad ?_
    intro j _
    by_cases hj : c.s ≤ j ∧ j < c.e
    · simp [hj.1, hj.2]
    · simp [hj]
  · have h2 : ∀ j, ¬ (c.s ≤ i ∧ i < c.e ∧ c.s ≤ j ∧ j < c.e) := fun j h => hi ⟨h.1, h.2.1⟩
    simp only [hi, h2, if_false]
    exact IsGradAt.const n 0 s

theorem isGradAt_range_sum (n : ℕ) (pl ph : ℝ) (cs : List (CBound ℝ)) (hcb : ∀ c ∈ cs, c.e ≤ n)
    (s : ℕ → ℝ) (i : ℕ) :
    IsGradAt n
      (fun x => (cs.map (fun c => if c.s ≤ i ∧ i < c.e then hlqDeriv pl ph c.l c.h (sumRange c.s c.e x) else 0)).sum)
      (fun j => (cs.map (fun c => if c.s ≤ i ∧ i < c.e ∧ c.s ≤ j ∧ j < c.e then hlqHess pl ph c.l c.h else 0)).sum)
      s := by
  induction cs with
  | nil => simpa using IsGradAt.const n 0 s
  | cons c cs ih =>
    simp only [List.map_cons, List.sum_cons]
    exact (isGradAt_range_term n pl ph c (hcb c (List.mem_cons_self)) s i).add
      (ih (fun c' hc' => hcb c' (List.mem_cons_of_mem _ hc')))

/-- rank-one block per cumulative range (not a diagonal!). -/
theorem cdevice2_hess (n : ℕ) (pl ph : ℝ) (cbs : List (CBound ℝ)) (hcb : ∀ c ∈ cbs, c.e ≤ n) (s p : ℕ → ℝ) :
    IsHessAt n (fun x => cdev2Deriv n pl ph cbs x p) (cdev2Hess pl ph cbs) s := by
  intro i _
  by_cases hs : ∃ c, cbs = [c]
  · obtain ⟨c, rfl⟩ := hs
    simp only [cdev2Deriv, cdev2Slope, cdev2Hess]
    exact (isGradAt_sumTo_comp n (fun y => hlqDeriv pl ph c.l c.h y) _ s
      (hlqDeriv_hasDerivAt pl ph c.l c.h (sumTo n s))).add_const (p i)
  · have hne : ∀ c, cbs ≠ [c] := fun c h => hs ⟨c, h⟩
    simp only [cdev2Deriv, cdev2Slope_multi n pl ph cbs hne, cdev2Hess_multi pl ph cbs hne]
    exact (isGradAt_range_sum n pl ph cbs hcb s i).add_const (p i)

/-- non-vacuity: two overlapping ranges inside a horizon of 4. -/
example : ∃ cbs : List (CBound ℝ), cbs.length = 2 ∧ ∀ c ∈ cbs, c.e ≤ 4 :=
  ⟨[⟨0, 1, 0, 3⟩, ⟨0, 2, 1, 4⟩], rfl, by simp⟩

theorem cdevice2_hess_symm (n : ℕ) (pl ph : ℝ) (cbs : List (CBound ℝ)) : Symm n (cdev2Hess pl ph cbs) := by
  intro i _ j _
  by_cases hs : ∃ c, cbs = [c]
  · obtain ⟨c, rfl⟩ := hs
    rfl
  · have hne : ∀ c, cbs ≠ [c] := fun c h => hs ⟨c, h⟩
    rw [cdev2Hess_multi pl ph cbs hne, cdev2Hess_multi pl ph cbs hne]
    congr 1
    apply List.map_congr_left
    intro c _
    by_cases h : c.s ≤ i ∧ i < c.e ∧ c.s ≤ j ∧ j < c.e
    · have h' : c.s ≤ j ∧ j < c.e ∧ c.s ≤ i ∧ i < c.e := ⟨h.2.2.1, h.2.2.2, h.1, h.2.1⟩
      rw [if_pos h, if_pos h']
    · have h' : ¬ (c.s ≤ j ∧ j < c.e ∧ c.s ≤ i ∧ i < c.e) := fun g => h ⟨g.2.2.1, g.2.2.2, g.1, g.2.1⟩
      rw [if_neg h, if_neg h']

theorem psd_range_term (n : ℕ) (a b : ℕ) (h : ℝ) (hh : 0 ≤ h) :
    PSD n (fun i j => if a ≤ i ∧ i < b ∧ a ≤ j ∧ j < b then h else 0) := by
  have e : (fun i j => if a ≤ i ∧ i < b ∧ a ≤ j ∧ j < b then h else 0)
      = fun i j => h * (if a ≤ i ∧ i < b then (1:ℝ) else 0) * (if a ≤ j ∧ j < b then (1:ℝ) else 0) := by
    funext i j
    by_cases hi : a ≤ i ∧ i < b
    · by_cases hj : a ≤ j ∧ j < b
      · simp [hi.1, hi.2, hj.1, hj.2]
      · simp [hj]
    · have : ¬ (a ≤ i ∧ i < b ∧ a ≤ j ∧ j < b) := fun g => hi ⟨g.1, g.2.1⟩
      simp [hi, this]
  rw [e]
  intro v
  exact quad_rank_one_nonneg n h hh _ v

theorem psd_range_sum (n : ℕ) (pl ph : ℝ) (cs : List (CBound ℝ)) (hp : pl ≤ ph) (hcb : ∀ c ∈ cs, c.l ≤ c.h) :
    PSD n (fun i j =>
      (cs.map (fun c => if c.s ≤ i ∧ i < c.e ∧ c.s ≤ j ∧ j < c.e then hlqHess pl ph c.l c.h else 0)).sum) := by
  induction cs with
  | nil => simpa using PSD.zero n
  | cons c cs ih =>
    simp only [List.map_cons, List.sum_cons]
    exact (psd_range_term n c.s c.e _ (hlqHess_nonneg pl ph c.l c.h hp (hcb c (List.mem_cons_self)))).add
      (ih (fun c' hc' => hcb c' (List.mem_cons_of_mem _ hc')))

-- original statement carried the leftover hypothesis `(hne : cbs.length ≠ 1 ∨ True)`; removed as instructed.
theorem cdevice2_hess_psd (n : ℕ) (pl ph : ℝ) (cbs : List (CBound ℝ)) (hp : pl ≤ ph)
    (hcb : ∀ c ∈ cbs, c.l ≤ c.h ∧ c.e ≤ n) :
    PSD n (cdev2Hess pl ph cbs) := by
  by_cases hs : ∃ c, cbs = [c]
  · obtain ⟨c, rfl⟩ := hs
    have hh : 0 ≤ hlqHess pl ph c.l c.h := hlqHess_nonneg pl ph c.l c.h hp (hcb c (by simp)).1
    intro v
    have := quad_rank_one_nonneg n _ hh (fun _ => 1) v
    simpa [cdev2Hess] using this
  · have hne : ∀ c, cbs ≠ [c] := fun c h => hs ⟨c, h⟩
    have e : cdev2Hess pl ph cbs = fun i j =>
        (cbs.map (fun c => if c.s ≤ i ∧ i < c.e ∧ c.s ≤ j ∧ j < c.e then hlqHess pl ph c.l c.h else 0)).sum := by
      funext i j; exact cdev2Hess_multi pl ph cbs hne i j
    rw [e]
    exact psd_range_sum n pl ph cbs hp (fun c hc => (hcb c hc).1)

/-- non-vacuity: two ranges with proper cumulative bounds and a rising curve. -/
example : ∃ (pl ph : ℝ) (cbs : List (CBound ℝ)), pl ≤ ph ∧ cbs.length = 2 ∧ ∀ c ∈ cbs, c.l ≤ c.h ∧ c.e ≤ 4 :=
  ⟨1, 2, [⟨0, 1, 0, 3⟩, ⟨0, 2, 1, 4⟩], by norm_num, rfl, by simp⟩

end DK.C14

#print axioms DK.C14.device_hess
#print axioms DK.C14.cdevice_hess
#print axioms DK.C14.idevice2_hess
#print axioms DK.C14.idevice2_hess_symm
#print axioms DK.C14.idevice2_hess_psd
#print axioms DK.C14.idevice_hess
#print axioms DK.C14.idevice_hess_int
#print axioms DK.C14.idevice_hess_symm
#print axioms DK.C14.idevice_hess_psd
#print axioms DK.C14.gdevice_hess
#print axioms DK.C14.gdevice_hess_symm
#print axioms DK.C14.cdevice2_hess
#print axioms DK.C14.cdevice2_hess_symm
#print axioms DK.C14.cdevice2_hess_psd
