import DK.Props.Defs
import DK.Lemmas.Storage
/-!
# C01 (storage and thermal): gradients through the state-of-charge / temperature recurrences
-/
namespace DK.C01b
open DK

/-- storage: away from the charge/discharge kink of a lossy device (`efficiency = 1`, or no slot
flow exactly zero). The deep-discharge term `min(·,0)²` is C¹, so it needs no hypothesis.
`0 < q.efficiency` is what the constructor enforces. -/
theorem sdevice_grad (n : ℕ) (q : SParams ℝ) (s p : ℕ → ℝ) (he : 0 < q.efficiency)
    (hk : q.efficiency = 1 ∨ ∀ k < n, s k ≠ 0) :
    IsGradAt n (fun x => sdevCost n q x p) (sdevDeriv n q s p) s :=
  fun d => sdevCost_line_hasDerivAt n q s p d hk

/-- non-vacuity: a lossy battery (efficiency 9/10) over 3 slots, charging, discharging, charging,
deep enough to activate the deep-discharge penalty in slot 1. -/
example : ∃ (q : SParams ℝ) (s : ℕ → ℝ), 0 < q.efficiency ∧ q.efficiency ≠ 1 ∧
    (q.efficiency = 1 ∨ ∀ k < 3, s k ≠ 0) :=
  ⟨{ c1 := 1, c2 := 1/2, c3 := 3, capacity := 10, damageDepth := 1/5, start := 1/2, reserve := 1/2,
     efficiency := 9/10, sustainment := 19/20 },
   fun k => if k = 1 then -4 else 1,
   by norm_num, by norm_num,
   Or.inr (fun k _ => by dsimp only; split_ifs <;> norm_num)⟩

/-- the lossless case of the hypothesis, with a flow that rests in some slots. -/
example : ∃ (q : SParams ℝ) (s : ℕ → ℝ), 0 < q.efficiency ∧ s 0 = 0 ∧
    (q.efficiency = 1 ∨ ∀ k < 3, s k ≠ 0) :=
  ⟨{ c1 := 1, c2 := 1/2, c3 := 3, capacity := 10, damageDepth := 1/5, start := 1/2, reserve := 1/2,
     efficiency := 1, sustainment := 19/20 },
   fun k => if k = 1 then -4 else 0,
   by norm_num, by norm_num, Or.inl rfl⟩

/-- thermal: no hypothesis (temperature is affine in the flow after the r2t repair; the slot cost
is `c·((t_opt − t)/t_range)²`, or 0 when `t_range = 0`). -/
theorem tdevice_grad (n : ℕ) (q : TParams ℝ) (s p : ℕ → ℝ) :
    IsGradAt n (fun x => tdevCost n q x p) (tdevDeriv n q s p) s :=
  fun d => tdevCost_line_hasDerivAt n q s p d

end DK.C01b

#print axioms DK.C01b.sdevice_grad
#print axioms DK.C01b.tdevice_grad
