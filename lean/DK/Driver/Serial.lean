import DK.Driver.Tree
import DK.Model.Serial
import DK.Gen.Classes
/-! JSON decoding of keyword dictionaries and the serialisation operations (C16). -/
namespace DK.Driver
open Lean DK DK.Serial

/-- a value description `{"t": tag, "v": payload}`; child devices are represented by their horizon length. -/
def jVal (j : Json) : Except String (Val R Nat) := do
  let t ← (← fld j "t").getStr?
  let v := (fld? j "v").getD .null
  let strs (x : Json) : Except String (List String) := do
    let a ← x.getArr?
    (a.mapM (fun (y : Json) => y.getStr?)).map Array.toList
  match t with
  | "none" => pure .none
  | "str" => do pure (.str (← v.getStr?))
  | "nat" => do pure (.nat (← jNat v))
  | "int" => do pure (.int (← jInt v))
  | "bool" => do pure (.bool (← v.getBool?))
  | "num" => do pure (.num (← jRat v))
  | "vec" => do pure (.vec (← jList v))
  | "ivec" => do
      let a ← v.getArr?
      pure (.ivec (← a.mapM jInt).toList)
  | "mat" => do
      let a ← v.getArr?
      pure (.mat (← a.mapM jList).toList)
  | "pairNum" => do
      let a ← v.getArr?
      pure (.pairNum (← jRat (a.getD 0 .null)) (← jRat (a.getD 1 .null)))
  | "pairVec" => do
      let a ← v.getArr?
      pure (.pairVec (← jList (a.getD 0 .null)) (← jList (a.getD 1 .null)))
  | "table" => do
      let a ← v.getArr?
      let rows ← a.mapM (fun r => do
        let p ← r.getArr?
        pure ((← jRat (p.getD 0 .null)), (← jRat (p.getD 1 .null))))
      pure (.table rows.toList)
  | "cbs" => do
      let a ← v.getArr?
      pure (.cbs (← a.mapM jCBound).toList)
  | "strs" => do pure (.strs (← strs v))
  | "clip" => do
      let a ← v.getArr?
      pure (.clip (← jOptRat (a.getD 0 .null)) (← jOptRat (a.getD 1 .null)))
  | "fn" => do pure (.fn (← jFn v))
  | "cons" => do
      let a ← v.getArr?
      pure (.cons (← a.mapM jUserCon).toList)
  | "obj" => do pure (.obj (← jNat v))
  | "objs" => do
      let a ← v.getArr?
      pure (.objs (← a.mapM jNat).toList)
  | _ => throw s!"unknown value tag {t}"

def jDict (j : Json) : Except String (Dict R Nat) := do
  let a ← j.getArr?
  let es ← a.mapM (fun e => do
    let p ← e.getArr?
    pure ((← (p.getD 0 .null).getStr?), (← jVal (p.getD 1 .null))))
  pure es.toList

def showErr : Err → String
  | .missing k => s!"TypeError: missing {k}"
  | .unexpected k => s!"TypeError: unexpected {k}"
  | .badValue k => s!"bad value for {k}"
  | .rejected => "rejected"

def sjn (n : Nat) : Json := .str (toString n)

/-- a dumped value as a flat list of numbers, each value prefixed by the number of entries that follow:
numbers as exact rationals, strings as code points, `None` inside a rate clip as absent (flag 0).
Live objects (functions, constraint dicts, child devices) contribute their count only. -/
def valFlat : Val R Nat → List Json
  | .none => [sjn 0]
  | .str s => sjn s.length :: s.toList.map (fun c => sjn c.toNat)
  | .nat k => [sjn 1, sjn k]
  | .int k => [sjn 1, rVal (XRat.ofRat (k : Rat))]
  | .bool b => [sjn 1, sjn (if b then 1 else 0)]
  | .num x => [sjn 1, rVal x]
  | .vec v => sjn v.length :: v.map rVal
  | .ivec v => sjn v.length :: v.map (fun (k : Int) => rVal (XRat.ofRat (k : Rat)))
  | .mat m => sjn (m.map List.length).sum :: (m.flatMap (fun r => r.map rVal))
  | .pairNum a b => [sjn 2, rVal a, rVal b]
  | .pairVec a b => sjn (a.length + b.length) :: ((a ++ b).map rVal)
  | .table rows => sjn (2 * rows.length) :: rows.flatMap (fun r => [rVal r.1, rVal r.2])
  | .cbs l => sjn (4 * l.length) :: l.flatMap (fun c => [rVal c.l, rVal c.h, sjn c.s, sjn c.e])
  | .strs l => sjn (l.map (fun s => s.length + 1)).sum :: l.flatMap (fun s => sjn s.length :: s.toList.map (fun c => sjn c.toNat))
  | .clip a b =>
      let one (x : Option R) : List Json := match x with | some v => [sjn 1, rVal v] | none => [sjn 0, sjn 0]
      sjn 4 :: (one a ++ one b)
  | .fn _ => [sjn 0]
  | .cons l => [sjn 1, sjn l.length]
  | .obj _ => [sjn 0]
  | .objs l => [sjn 1, sjn l.length]

/-- membership vector of `keys` over `univ`, then the number of keys, then `flag`. -/
def keyVector (univ keys : List String) (flags : List Nat) : Json :=
  .arr ((univ.map (fun u => if keys.contains u then (1 : Nat) else 0) ++ [keys.length] ++ flags).map
    (fun (n : Nat) => Json.str (toString n))).toArray

/-- model: construct from the keyword dictionary, dump, rebuild from the dump, dump again.
Returns the first dump's keys and whether the twin exists and dumps the same keys. -/
def modelDump (cls : String) (kw : Dict R Nat) : Except String (Dict R Nat × Bool) :=
  let lift {σ : Type} (r : Except Err σ) : Except String σ := match r with
    | .ok x => .ok x
    | .error e => .error (showErr e)
  let devFamily (sem : DevSem R Nat) : Except String (Dict R Nat × Bool) := do
    let d ← lift (Dev.construct sem (fun _ => true) kw)
    let dump := Dev.toDict sem d
    let again := match Dev.fromDict sem (fun _ => true) dump with
      | .ok d' => (Dev.toDict sem d').keys == dump.keys
      | .error _ => false
    pure (dump, again)
  match cls with
  | "Device" | "PVDevice" | "CDevice" | "IDevice" | "IDevice2" | "GDevice" => devFamily semPlain
  | "CDevice2" => devFamily semCDevice2
  | "SDevice" => devFamily semSDevice
  | "ADevice" => devFamily semADevice
  | "TDevice" => do
      let t ← lift (TDev.construct (fun _ => true) kw)
      let dump := TDev.toDict t
      let again := match TDev.construct (fun _ => true) dump with
        | .ok t' => (TDev.toDict t').keys == dump.keys
        | .error _ => false
      pure (dump, again)
  | "WindowDevice" => do
      let t ← lift (WDev.construct (fun _ => true) kw)
      let dump : Dict R Nat := WDev.toDict t
      let again := match WDev.construct (fun _ => true) dump with
        | .ok t' => (WDev.toDict (δ := Nat) t').keys == dump.keys
        | .error _ => false
      pure (dump, again)
  | "DeviceSet" => do
      let t ← lift (SetDev.construct id (fun _ => true) kw)
      let dump := SetDev.toDict t
      let again := match SetDev.construct id (fun _ => true) dump with
        | .ok t' => (SetDev.toDict t').keys == dump.keys
        | .error _ => false
      pure (dump, again)
  | "SubBalancedDeviceSet" => do
      let t ← lift (SubDev.construct id (fun _ => true) kw)
      let dump := SubDev.toDict t
      let again := match SubDev.construct id (fun _ => true) dump with
        | .ok t' => (SubDev.toDict t').keys == dump.keys
        | .error _ => false
      pure (dump, again)
  | "MFDeviceSet" => do
      let t ← lift (MFDev.construct (fun _ => true) kw)
      let dump : Dict R Nat := MFDev.toDict t
      let again := match MFDev.construct (fun _ => true) dump with
        | .ok t' => (MFDev.toDict (α := R) t').keys == dump.keys
        | .error _ => false
      pure (dump, again)
  | "TwoRatioMFDeviceSet" => do
      let t ← lift (TRDev.construct (fun _ => true) kw)
      let dump := TRDev.toDict t
      let again := match TRDev.construct (fun _ => true) dump with
        | .ok t' => (TRDev.toDict t').keys == dump.keys
        | .error _ => false
      pure (dump, again)
  | _ => throw s!"unknown class {cls}"

def serialOp (op : String) (j : Json) : Except String Json := do
  let cls ← (← fld j "cls").getStr?
  let univ ← match fld? j "universe" with
    | some u => do (← u.getArr?).mapM (fun (x : Json) => x.getStr?)
    | none => pure #[]
  match op with
  | "serial.tablekeys" => do
      -- keys the generated table derives for a construction with the given extra `**kwargs` keys
      let extra ← (← (← fld j "extra").getArr?).mapM (fun (x : Json) => x.getStr?)
      match dumpedFor Gen.classes cls extra.toList with
      | some ks => pure (keyVector univ.toList ks [])
      | none => throw s!"the generated table derives no dump for {cls}"
  | "serial.modelkeys" => do
      let kw ← jDict (← fld j "kw")
      let (dump, again) ← modelDump cls kw
      pure (keyVector univ.toList dump.keys [if again then 1 else 0])
  | "serial.values" => do
      -- the VALUES of the model's dump, flattened key by key in dump order (see `valFlat`)
      let kw ← jDict (← fld j "kw")
      let (dump, _) ← modelDump cls kw
      pure (.arr (dump.flatMap (fun e => valFlat e.2)).toArray)
  | _ => throw s!"unknown op {op}"

end DK.Driver
