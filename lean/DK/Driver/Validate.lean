import DK.Driver.Core
import DK.Model.Validate
/-! JSON decoding and the operations of the validation model (property C11).

Answers are flat lists of number strings of a width fixed by the request, so that the generic
comparison of `vk/common.py` applies: exception types are codes (0 ok, 1 ValueError, 2 TypeError,
3 IndexError, 4 other, 5 outside the modelled fragment), Python `None` is `"undef"` (the harness
sends `nan`). -/
namespace DK.Driver.Validate
open Lean DK DK.Validate

def vErrCode : Err → Nat
  | .valueError => 1 | .typeError => 2 | .indexError => 3 | .other => 4 | .unmodelled => 5

def jN (k : Nat) : Json := .str (toString k)
def jOpt : Option R → Json
  | some x => rVal x
  | none => .str "undef"

partial def jPyVal (j : Json) : Except String (PyVal R) :=
  match j with
  | .null => pure .none
  | .str _ | .num _ => do pure (.num (← jRat j))
  | .obj _ =>
    let go (k : SeqKind) (key : String) : Option (Except String (PyVal R)) :=
      match fld? j key with
      | some (.arr a) => some (do let xs ← a.mapM jPyVal; pure (.seq k xs.toList))
      | _ => none
    match go .list "l" with
    | some r => r
    | none => match go .tuple "t" with
      | some r => r
      | none => match go .ndarray "a" with
        | some r => r
        | none => throw s!"bad PyVal {j.compress}"
  | _ => throw s!"bad PyVal {j.compress}"

def jCbItem (j : Json) : Except String (CbItem R) :=
  match j with
  | .arr a =>
    if a.size = 4 then do
      pure (.four { l := ← jRat a[0]!, h := ← jRat a[1]!, s := ← jInt a[2]!, e := ← jInt a[3]! })
    else pure (.bad (some a.size))
  | _ => pure (.bad none)

def jCbSpec (j : Json) : Except String (CbSpec R) :=
  match j with
  | .null => pure .pyNone
  | .str _ | .num _ => pure .notSeq
  | .obj _ =>
    match fld? j "p", fld? j "i" with
    | some (.arr a), _ =>
      if a.size = 2 then do pure (.pair (← jRat a[0]!) (← jRat a[1]!)) else throw "pair arity"
    | _, some (.arr a) =>
      -- a 2-list of two numbers *is* the 2-tuple form
      if a.size = 2 && (match a[0]!, a[1]! with | .arr _, _ => false | _, .arr _ => false | _, _ => true) then
        do pure (.pair (← jRat a[0]!) (← jRat a[1]!))
      else do pure (.items (← a.mapM jCbItem).toList)
    | _, _ => throw s!"bad cbounds spec {j.compress}"
  | _ => throw s!"bad cbounds spec {j.compress}"

def jOptR (j : Json) : Except String (Option R) :=
  match j with
  | .null => pure none
  | _ => do pure (some (← jRat j))

def jVal (j : Json) : Except String (Val R) :=
  match j with
  | .null => pure .pyNone
  | .str _ | .num _ => do pure (.scalar (← jRat j))
  | .arr a => do pure (.vec (← a.mapM jRat).toList)
  | .obj _ =>
    match fld? j "op", fld? j "nd", fld? j "b", fld? j "cb" with
    | some (.arr a), _, _, _ =>
      if a.size = 2 then do pure (.optPair (← jOptR a[0]!) (← jOptR a[1]!)) else throw "optPair arity"
    | _, some k, _, _ => do pure (.ndim (← jNat k) (match fld? j "rows" with | some r => (jNat r).toOption.getD 0 | none => 0))
    | _, _, some b, _ => do pure (.bounds (← jPyVal b))
    | _, _, _, some c => do pure (.cbounds (← jCbSpec c))
    | _, _, _, _ => throw s!"bad value {j.compress}"
  | _ => throw s!"bad value {j.compress}"

def fieldOfName : String → Except String Field
  | "bounds" => pure .bounds | "cbounds" => pure .cbounds
  | "c1" => pure .c1 | "c2" => pure .c2 | "c3" => pure .c3 | "capacity" => pure .capacity
  | "damage_depth" => pure .damageDepth | "start" => pure .start | "reserve" => pure .reserve
  | "efficiency" => pure .efficiency | "sustainment" => pure .sustainment | "rate_clip" => pure .rateClip
  | "a" => pure .a | "b" => pure .b | "c" => pure .c | "p_l" => pure .pL | "p_h" => pure .pH
  | "cost_coeffs" => pure .costCoeffs
  | s => throw s!"unknown field {s}"

def clsOfName : String → Except String Cls
  | "Device" => pure .device | "CDevice" => pure .cdevice | "CDevice2" => pure .cdevice2
  | "IDevice" => pure .idevice | "IDevice2" => pure .idevice2 | "GDevice" => pure .gdevice
  | "PVDevice" => pure .pvdevice | "SDevice" => pure .sdevice | "ADevice" => pure .adevice
  | s => throw s!"unknown class {s}"

def jAssigns (j : Json) : Except String (List (Field × Val R)) := do
  let a ← j.getArr?
  let xs ← a.mapM (fun p => do
    let q ← p.getArr?
    if q.size ≠ 2 then throw "assignment arity"
    pure ((← fieldOfName (← q[0]!.getStr?)), (← jVal q[1]!)))
  pure xs.toList

/-! ### rendering -/

def padTable (n : Nat) (t : Table R) : List Json :=
  (List.range n).flatMap (fun i => match t[i]? with
    | some (lo, hi) => [jOpt lo, jOpt hi]
    | none => [jN 0, jN 0])

/-- `[isNone, count, 3 × (l, h, s, e)]`. -/
def padCbounds (c : Option (List (CBound4 R))) : List Json :=
  let xs := c.getD []
  [jN (if c.isNone then 1 else 0), jN xs.length] ++
  (List.range 3).flatMap (fun i => match xs[i]? with
    | some b => [rVal b.l, rVal b.h, .str (toString b.s), .str (toString b.e)]
    | none => [jN 0, jN 0, jN 0, jN 0])

def padPVal (n : Nat) : PVal R → List Json
  | .scalar x => jN 0 :: (List.range n).map (fun _ => rVal x)
  | .vec xs => jN 1 :: (List.range n).map (fun i => match xs[i]? with | some x => rVal x | none => jN 0)

/-- the settings a device reports, in a fixed per-class layout (mirrored by `vk/props/c11.py: dump_dev`). -/
def dumpDev (d : Dev R) : List Json :=
  padTable d.n d.table ++ padCbounds d.cbounds ++
  (match d.cls with
   | .sdevice => [rVal d.c1, rVal d.c2, rVal d.c3, rVal d.capacity, rVal d.damageDepth, rVal d.start, rVal d.reserve,
                  rVal d.efficiency, rVal d.sustainment, jOpt d.rateClip.1, jOpt d.rateClip.2]
   | .idevice => padPVal d.n d.ia ++ padPVal d.n d.ib ++ padPVal d.n d.ic
   | .idevice2 | .cdevice2 => padPVal d.n d.pl ++ padPVal d.n d.ph
   | .cdevice => [rVal d.ca, rVal d.cb]
   | .gdevice => [jN ((d.coeffNdim.map (·.1)).getD 0)]
   | _ => []) ++ [jN d.extra.length]

def codeOf : Option Err → Nat
  | none => 0
  | some e => vErrCode e

/-- apply assignments catching every exception: codes per step and the final state. -/
def runTrace (d : Dev R) : List (Field × Val R) → List Nat × Dev R
  | [] => ([], d)
  | (f, v) :: rest =>
    let r := setField d f v
    let t := runTrace r.1 rest
    (codeOf r.2 :: t.1, t.2)

def boundsOne (level : String) (n : Nat) (v : PyVal R) : List Json :=
  match level with
  | "raw" =>
    match validateBoundsW v n with
    | .ok (w, t) => [jN 0, jN w] ++ padTable n t
    | .error e => [jN (vErrCode e), jN 0] ++ padTable n []
  | "gen" =>
    match genBounds v n with
    | .ok t => [jN 0, jN 2] ++ padTable n t
    | .error e => [jN (vErrCode e), jN 0] ++ padTable n []
  | _ =>
    match deviceBounds v n with
    | .ok t => [jN 0, jN 2] ++ padTable n t
    | .error e => [jN (vErrCode e), jN 0] ++ padTable n []

def validateOp (op : String) (j : Json) : Except String Json := do
  match op with
  | "validate.bounds" =>
    let n ← jNat (← fld j "n")
    let level ← (← fld j "level").getStr?
    let vs ← (← fld j "vs").getArr?
    let vals ← vs.mapM jPyVal
    pure (.arr (vals.toList.flatMap (boundsOne level n)).toArray)
  | "validate.shape" =>
    -- np.array(v).shape: [ragged?, ndim, d0, d1, d2, d3]
    let vs ← (← fld j "vs").getArr?
    let vals ← vs.mapM jPyVal
    pure (.arr (vals.toList.flatMap (fun v => match npShape v with
      | none => [jN 1, jN 0, jN 0, jN 0, jN 0, jN 0]
      | some sh => [jN 0, jN sh.length] ++ (List.range 4).map (fun i => jN (sh.getD i 0)))).toArray)
  | "validate.cbounds" =>
    let n ← jNat (← fld j "n")
    let lb ← jVec (← fld j "lb")
    let hb ← jVec (← fld j "hb")
    let specs ← (← fld j "specs").getArr?
    let ss ← specs.mapM jCbSpec
    pure (.arr (ss.toList.flatMap (fun s =>
      let r := setCbounds n lb hb s
      -- on a fresh device (`cbounds is None`): a rejected assignment leaves `None` in place
      match r.2 with
      | none => jN 0 :: padCbounds r.1
      | some e => jN (vErrCode e) :: padCbounds none)).toArray)
  | "validate.ctor" =>
    let cls ← clsOfName (← (← fld j "cls").getStr?)
    let n ← jNat (← fld j "n")
    let b ← jPyVal (← fld j "b")
    let cb ← jCbSpec (← fld j "cb")
    let kw ← jAssigns (← fld j "kw")
    let sets ← match fld? j "sets" with
      | some s => jAssigns s
      | none => pure []
    match construct cls n b cb kw with
    | .error e => pure (.arr #[jN (vErrCode e)])
    | .ok d =>
      let t := runTrace d sets
      pure (.arr ((jN 0 :: t.1.map jN) ++ dumpDev t.2).toArray)
  | "validate.set" =>
    let kind ← (← fld j "kind").getStr?
    match kind with
    | "deviceset" =>
      let lens ← (← (← fld j "lens").getArr?).mapM jNat
      let idok : Option Bool := match fld? j "idok" with
        | some (.bool b) => some b
        | _ => none
      let sb ← match fld? j "sb" with
        | some .null | none => pure none
        | some v => do pure (some (← jPyVal v))
      let nmax ← jNat (← fld j "nmax")
      match deviceSetCtor lens.toList idok sb with
      | .error e => pure (.arr ([jN (vErrCode e), jN 0] ++ padTable nmax []).toArray)
      | .ok none => pure (.arr ([jN 0, jN 1] ++ padTable nmax []).toArray)
      | .ok (some t) => pure (.arr ([jN 0, jN 0] ++ padTable nmax t).toArray)
    | "mf" =>
      let n ← jNat (← fld j "n")
      let ok := mfCheck (← jNat (← fld j "nflows")) n (← jVec (← fld j "lb")) (← jVec (← fld j "hb"))
      pure (.arr #[jN (if ok then 0 else 1)])
    | "tworatio" =>
      let n ← jNat (← fld j "n")
      let nf ← jNat (← fld j "nflows")
      let ok1 := mfCheck nf n (← jVec (← fld j "lb")) (← jVec (← fld j "hb"))
      let rlen ← match fld? j "rlen" with
        | some .null | none => pure none
        | some v => do pure (some (← jNat v))
      let ctok ← (← fld j "ctok").getBool?
      pure (.arr #[jN (if ok1 && twoRatioCheck nf rlen ctok then 0 else 1)])
    | "tdevice" =>
      let n ← jNat (← fld j "n")
      let b ← jPyVal (← fld j "b")
      let cb ← jCbSpec (← fld j "cb")
      let c ← match asPVal (← jVal (← fld j "c")) with
        | some p => pure p
        | none => throw "c must be scalar or vector"
      let te ← jList (← fld j "t_external")
      match tdeviceCtor n b cb (← jRat (← fld j "sustainment")) (← jRat (← fld j "efficiency")) (← jRat (← fld j "t_init"))
          (← jRat (← fld j "t_optimal")) (← jRat (← fld j "t_range")) te c with
      | .error e => pure (.arr #[jN (vErrCode e)])
      | .ok d =>
        -- the settings the device reports (mirrored by vk/props/c11.py: dump_tdevice)
        pure (.arr ((jN 0 :: padTable n d.table) ++ padCbounds d.cbounds ++
          [rVal d.sustainment, rVal d.efficiency, rVal d.tInit, rVal d.tOptimal, rVal d.tRange] ++
          (List.range n).map (fun i => match d.tExternal[i]? with | some x => rVal x | none => jN 0) ++ padPVal n d.c).toArray)
    | _ => throw s!"unknown set kind {kind}"
  | _ => throw s!"unknown op {op}"

end DK.Driver.Validate

namespace DK.Driver
def validateOp := Validate.validateOp
end DK.Driver
