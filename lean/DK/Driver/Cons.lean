import DK.Driver.Tree
/-!
# Driver ops for C03 / C06: constraint lists evaluated at several probe flows

`cons.leaf` : `{"dev": <leaf description>, "probes": [flow, …], "jac": bool}`
`cons.tree` : `{"tree": <tree description>, "n": horizon, "probes": [matrix, …], "jac": bool}`

`cons.charge`: `{"dev": <SDevice description>, "probes": [flow, …]}` → `chargeAt` per probe (the state
                the C03 specification is written in).

Answer of `cons.leaf` / `cons.tree`: one row per exported constraint,
`[isEq, value at probe 1, …, value at probe P]`, or with `"jac": true`
`[isEq, hasJac, values …, Jacobian at probe 1 (flat, n resp. R·n entries), …, at probe P]`,
rows in the order the model's list has them.  The comparison is made insensitive to the order of the
implementation's list (a harmless rewrite) on the Python side: `vk/gen_cons.py: align_rows` pairs every
model row with the nearest unused implementation row of the same length (comparison within the
tolerance, so rounding cannot split ties) — a dropped / duplicated constraint, a changed type, value
or Jacobian still shows as a disagreement.
-/
namespace DK.Driver
open Lean DK

namespace Cons

def b2r (b : Bool) : R := if b then 1 else 0

def rRows (rows : List (List R)) : Json :=
  .arr (rows.map (fun r => Json.arr (r.map rVal).toArray)).toArray

end Cons
open Cons

def consOp (op : String) (j : Json) : Except String Json := do
  let withJac := match fld? j "jac" with | some (.bool true) => true | _ => false
  let pj ← (← fld j "probes").getArr?
  match op with
  | "cons.leaf" => do
      let dj ← fld j "dev"
      let d ← jLeaf dj
      let cs ← jLeafCons dj d
      let probes := (← pj.mapM jVec).toList
      let rows := cs.map (fun c =>
        [b2r c.isEq] ++ (if withJac then [b2r c.jac.isSome] else []) ++ probes.map c.fn ++
          (match withJac, c.jac with
           | true, some jc => probes.flatMap (fun x => (List.range d.n).map (jc x))
           | _, _ => []))
      pure (rRows rows)
  | "cons.tree" => do
      let t ← jTree (← fld j "tree")
      let n ← jNat (← fld j "n")
      let Rr := t.rows
      let probes := (← pj.mapM jMat).toList
      let rows := (t.cons n).map (fun c =>
        [b2r c.isEq] ++ (if withJac then [b2r c.jac.isSome] else []) ++ probes.map c.fn ++
          (match withJac, c.jac with
           | true, some jc => probes.flatMap (fun S => (List.range (Rr * n)).map (fun k => jc S (k / n) (k % n)))
           | _, _ => []))
      pure (rRows rows)
  | "cons.charge" => do
      let d ← jLeaf (← fld j "dev")
      let probes := (← pj.mapM jVec).toList
      match d.kind with
      | .sdevice q => pure (.arr (probes.map (fun x => rVec d.n (chargeAt q x))).toArray)
      | _ => throw "cons.charge: not a storage device"
  | _ => throw s!"unknown op {op}"

end DK.Driver
