import DK.Driver.Leaf
import DK.Model.FnNd
/-! `fnnd.*`: the analytic model of the numerically differentiated preference functions, evaluated exactly.

Only `TemporalVariance` is rational (`{"k":"tvar","c":…}`); `CobbDouglas` / `InformationEntropy` need real
powers / logarithms and have no executable model (theorems `DK.C01nd.cobb_grad` / `entropy_grad` and the
transcription oracles of `vk/props/c01.py`).  All ops take `{"f": description, "n", "s": flow, "p": price}`
and answer for `ADevice(f = TemporalVariance(c))`:

* `fnnd.cost`  → `tvarCost c n s + Σ s·p`;   `fnnd.dcost` (with `"s0"`) → the difference of two costs
* `fnnd.deriv` → the ANALYTIC gradient `tvarGrad c n s k + p k`  (the source returns `nd.Jacobian`)
* `fnnd.hess`  → the ANALYTIC Hessian `tvarHess c n s k l`       (the source returns `nd.Hessian`)

A zero total flow makes every answer `undef` (Python: `ZeroDivisionError` in `np.average`). -/
namespace DK.Driver
open Lean DK

def fnndOp (op : String) (j : Json) : Except String Json := do
  let f ← fld j "f"
  let k ← (← fld f "k").getStr?
  if k ≠ "tvar" then throw s!"fnnd: no executable model for function kind {k}"
  let c ← jRat (← fld f "c")
  let n ← jNat (← fld j "n")
  let s ← jVec (← fld j "s")
  let p ← match fld? j "p" with | some pj => jVec pj | none => pure (fun _ => (0 : R))
  match op with
  | "fnnd.cost" => pure (rVal (adevTvarCost c n s p))
  | "fnnd.dcost" => do
      let s0 ← jVec (← fld j "s0")
      pure (rVal (adevTvarCost c n s p - adevTvarCost c n s0 p))
  | "fnnd.deriv" => pure (rVec n (adevTvarDeriv c n s p))
  | "fnnd.hess" => pure (rMat n n (tvarHess c n s))
  | _ => throw s!"unknown op {op}"

end DK.Driver
