import Lean.Data.Json
import DK.Model.Basic
/-!
# Driver core: the partial rational scalar `XRat` and JSON helpers

The executable model is run at `XRat = Option Rat`: exact rational arithmetic in which a
division by zero (and anything computed from it) is *undefined* instead of Lean's `x/0 = 0`.
The Python side canonicalises exceptions / non-finite floats to the same `"undef"`.
-/
namespace DK.Driver
open Lean

structure XRat where
  v : Option Rat
deriving DecidableEq, Inhabited

namespace XRat
def ofRat (q : Rat) : XRat := ⟨some q⟩
def undef : XRat := ⟨none⟩
def lift2 (f : Rat → Rat → Rat) (a b : XRat) : XRat :=
  ⟨match a.v, b.v with | some x, some y => some (f x y) | _, _ => none⟩
instance : Add XRat := ⟨lift2 (· + ·)⟩
instance : Sub XRat := ⟨lift2 (· - ·)⟩
instance : Mul XRat := ⟨lift2 (· * ·)⟩
instance : Neg XRat := ⟨fun a => ⟨a.v.map (- ·)⟩⟩
instance : Div XRat := ⟨fun a b =>
  ⟨match a.v, b.v with | some x, some y => if y = 0 then none else some (x / y) | _, _ => none⟩⟩
instance {n : Nat} : OfNat XRat n := ⟨ofRat (n : Rat)⟩
def lt (a b : XRat) : Prop := match a.v, b.v with | some x, some y => x < y | _, _ => False
def le (a b : XRat) : Prop := match a.v, b.v with | some x, some y => x ≤ y | _, _ => False
instance : LT XRat := ⟨lt⟩
instance : LE XRat := ⟨le⟩
instance : DecidableLT XRat := fun a b => by
  show Decidable (lt a b); unfold lt
  cases a.v <;> cases b.v <;> infer_instance
instance : DecidableLE XRat := fun a b => by
  show Decidable (le a b); unfold le
  cases a.v <;> cases b.v <;> infer_instance
def render (a : XRat) : String :=
  match a.v with
  | none => "undef"
  | some q => if q.den = 1 then toString q.num else s!"{q.num}/{q.den}"
end XRat

abbrev R := XRat

/-! ## parsing -/
def parseRat (s : String) : Except String Rat :=
  match s.splitOn "/" with
  | [a] => match a.toInt? with
    | some i => pure (i : Rat)
    | none => throw s!"bad number {s}"
  | [a, b] => match a.toInt?, b.toNat? with
    | some i, some d => if d = 0 then throw s!"zero denominator {s}" else pure ((i : Rat) / (d : Rat))
    | _, _ => throw s!"bad number {s}"
  | _ => throw s!"bad number {s}"

def jRat (j : Json) : Except String R :=
  match j with
  | .str s => XRat.ofRat <$> parseRat s
  | .num n => if n.exponent = 0 then pure (XRat.ofRat (n.mantissa : Rat)) else throw "non-integer JSON number"
  | _ => throw s!"expected a number string, got {j.compress}"

def jInt (j : Json) : Except String Int :=
  match j with
  | .str s => match s.toInt? with | some i => pure i | none => throw s!"bad int {s}"
  | .num n => if n.exponent = 0 then pure n.mantissa else throw "non-integer"
  | _ => throw "expected int"

def jNat (j : Json) : Except String Nat := do
  let i ← jInt j
  if i < 0 then throw "negative nat" else pure i.toNat

def fld (j : Json) (k : String) : Except String Json := j.getObjVal? k
def fld? (j : Json) (k : String) : Option Json := (j.getObjVal? k).toOption

def vecOfArr {β : Type} [Inhabited β] (a : Array β) : Nat → β := fun i => a.getD i default

/-- a vector parameter: a JSON list (indexed) or a single scalar (broadcast, as numpy does). -/
def jVec (j : Json) : Except String (Nat → R) :=
  match j with
  | .arr a => do let xs ← a.mapM jRat; pure (fun i => xs.getD i XRat.undef)
  | _ => do let x ← jRat j; pure (fun _ => x)

def jIntVec (j : Json) : Except String (Nat → Int) :=
  match j with
  | .arr a => do let xs ← a.mapM jInt; pure (fun i => xs.getD i 0)
  | _ => do let x ← jInt j; pure (fun _ => x)

def jList (j : Json) : Except String (List R) := do
  let a ← j.getArr?
  (a.mapM jRat).map Array.toList

/-- a matrix: list of rows, or a single row/scalar broadcast over rows (numpy `p*np.ones(shape)`). -/
def jMat (j : Json) : Except String (Nat → Nat → R) :=
  match j with
  | .arr a =>
    if a.size > 0 && (match a[0]! with | .arr _ => true | _ => false) then do
      let rows ← a.mapM jVec
      pure (fun r i => (rows.getD r (fun _ => XRat.undef)) i)
    else do
      let v ← jVec j
      pure (fun _ i => v i)
  | _ => do let x ← jRat j; pure (fun _ _ => x)

/-! ## rendering -/
def rVal (x : R) : Json := .str x.render
def rVec (n : Nat) (f : Nat → R) : Json := .arr ((List.range n).map (fun i => rVal (f i))).toArray
def rMat (r n : Nat) (f : Nat → Nat → R) : Json := .arr ((List.range r).map (fun i => rVec n (f i))).toArray
def ok (j : Json) : String := (Json.mkObj [("ok", j)]).compress
def err (s : String) : String := (Json.mkObj [("err", .str s)]).compress

end DK.Driver
