import DK.Driver.Core
import DK.Model.Leaf
import DK.Gen.Kernels
/-! JSON decoding of leaf devices / preference functions and the leaf-level operations. -/
namespace DK.Driver
open Lean DK

partial def jFn (j : Json) : Except String (Fn R) := do
  let k ← (← fld j "k").getStr?
  match k with
  | "null" => pure .null
  | "add" => do pure (.add (← jFn (← fld j "f")) (← jFn (← fld j "g")))
  | "reflect" => do pure (.reflect (← jFn (← fld j "f")))
  | "poly" => do
      let rows ← (← fld j "cs").getArr?
      let cs ← rows.mapM jList
      let off ← jVec (← fld j "off")
      pure (.poly (fun i => cs.getD i []) off)
  | "hlq" => do pure (.hlq (← jVec (← fld j "pl")) (← jVec (← fld j "ph")) (← jVec (← fld j "xl")) (← jVec (← fld j "xh")))
  | "abc" => do
      pure (.abc (← jVec (← fld j "a")) (← jIntVec (← fld j "b")) (← jVec (← fld j "c"))
        (← jVec (← fld j "xl")) (← jVec (← fld j "xh")))
  | "innerHlq" => do pure (.innerHlq (← jRat (← fld j "pl")) (← jRat (← fld j "ph")) (← jRat (← fld j "xl")) (← jRat (← fld j "xh")))
  | "append" => do pure (.append (← jNat (← fld j "at")) (← jFn (← fld j "f")) (← jFn (← fld j "g")))
  | "demand" => do pure (.demand (← jList (← fld j "cs")))
  | _ => throw s!"unknown fn kind {k}"

def jCBound (j : Json) : Except String (CBound R) := do
  let a ← j.getArr?
  if a.size ≠ 4 then throw "cbound arity"
  pure { l := ← jRat a[0]!, h := ← jRat a[1]!, s := ← jNat a[2]!, e := ← jNat a[3]! }

def jSParams (p : Json) : Except String (SParams R) := do
  pure { c1 := ← jRat (← fld p "c1"), c2 := ← jRat (← fld p "c2"), c3 := ← jRat (← fld p "c3"),
         capacity := ← jRat (← fld p "capacity"), damageDepth := ← jRat (← fld p "damage_depth"),
         start := ← jRat (← fld p "start"), reserve := ← jRat (← fld p "reserve"),
         efficiency := ← jRat (← fld p "efficiency"), sustainment := ← jRat (← fld p "sustainment") }

def jTParams (p : Json) : Except String (TParams R) := do
  pure { sustainment := ← jRat (← fld p "sustainment"), efficiency := ← jRat (← fld p "efficiency"),
         tInit := ← jRat (← fld p "t_init"), tOptimal := ← jRat (← fld p "t_optimal"),
         tRange := ← jRat (← fld p "t_range"), tExternal := ← jVec (← fld p "t_external"),
         c := ← jVec (← fld p "c") }

def jLeaf (j : Json) : Except String (Leaf R) := do
  let cls ← (← fld j "cls").getStr?
  let n ← jNat (← fld j "n")
  let lb ← jVec (← fld j "lb")
  let hb ← jVec (← fld j "hb")
  let cbs ← match fld? j "cbs" with
    | some (.arr a) => (a.mapM jCBound).map Array.toList
    | _ => pure []
  let p := (fld? j "prm").getD (Json.mkObj [])
  let kind : Kind R ← match cls with
    | "Device" | "PVDevice" => pure Kind.device
    | "CDevice" => do pure (Kind.cdevice (← jRat (← fld p "a")) (← jRat (← fld p "b")))
    | "CDevice2" => do pure (Kind.cdevice2 (← jRat (← fld p "p_l")) (← jRat (← fld p "p_h")))
    | "IDevice" => do pure (Kind.idevice (← jVec (← fld p "a")) (← jIntVec (← fld p "b")) (← jVec (← fld p "c")))
    | "IDevice2" => do pure (Kind.idevice2 (← jVec (← fld p "p_l")) (← jVec (← fld p "p_h")))
    | "GDevice" => do
        let cc ← fld p "cost_coeffs"
        let a ← cc.getArr?
        if a.size > 0 && (match a[0]! with | .arr _ => true | _ => false) then
          let rows ← a.mapM jList
          pure (Kind.gdevice (fun i => rows.getD i []))
        else
          let row ← jList cc
          pure (Kind.gdevice (fun _ => row))
    | "SDevice" => do pure (Kind.sdevice (← jSParams p))
    | "TDevice" => do pure (Kind.tdevice (← jTParams p))
    | "ADevice" => do pure (Kind.adevice (← jFn (← fld p "f")))
    | _ => throw s!"unknown class {cls}"
  pure { n := n, lb := lb, hb := hb, cbs := cbs, kind := kind }

def rOpt (x : Option R) : Json := match x with | some v => rVal v | none => .str "numeric"

def leafOp (op : String) (j : Json) : Except String Json := do
  let d ← jLeaf (← fld j "dev")
  let s ← jVec (← fld j "s")
  let p ← match fld? j "p" with | some pj => jVec pj | none => pure (fun _ => (0 : R))
  match op with
  | "leaf.cost" => pure (rVal (d.cost s p))
  | "leaf.dcost" => do
      let s0 ← jVec (← fld j "s0")
      pure (rVal (d.cost s p - d.cost s0 p))
  | "leaf.deriv" => pure (rVec d.n (d.deriv s p))
  | "leaf.hess" => pure (.arr ((List.range d.n).map (fun i => .arr ((List.range d.n).map (fun k => rOpt (d.hess s i k))).toArray)).toArray)
  | _ => throw s!"unknown op {op}"

def fnOp (op : String) (j : Json) : Except String Json := do
  let f ← jFn (← fld j "f")
  let n ← jNat (← fld j "n")
  let x ← jVec (← fld j "x")
  match op with
  | "fn.eval" => pure (rVal (f.eval n x))
  | "fn.deriv" => pure (rVec n (f.deriv n x))
  | "fn.hess" => pure (rMat n n (f.hess n x))
  | _ => throw s!"unknown op {op}"

/-- scalar kernels, both the hand-written model (`m.`) and the T1 translation (`g.`). -/
def kernOp (j : Json) : Except String Json := do
  let f ← (← fld j "f").getStr?
  let a ← (← fld j "args").getArr?
  let r (i : Nat) : Except String R := jRat (a.getD i (.str "0"))
  let z (i : Nat) : Except String Int := jInt (a.getD i (.str "0"))
  match f with
  | "m.hlq_cost" => do pure (rVal (hlqCost (← r 1) (← r 2) (← r 3) (← r 4) (← r 0)))
  | "g.hlq_cost" => do pure (rVal (Gen.hlq_cost (← r 0) (← r 1) (← r 2) (← r 3) (← r 4)))
  | "m.hlq_deriv" => do pure (rVal (hlqDeriv (← r 1) (← r 2) (← r 3) (← r 4) (← r 0)))
  | "g.hlq_deriv" => do pure (rVal (Gen.hlq_deriv (← r 0) (← r 1) (← r 2) (← r 3) (← r 4)))
  | "m.hlq_hess" => do pure (rVal (hlqHess (← r 1) (← r 2) (← r 3) (← r 4)))
  | "g.hlq_hess" => do pure (rVal (Gen.hlq_hess (← r 0) (← r 1) (← r 2) (← r 3) (← r 4)))
  | "m.abc_cost" => do pure (rVal (abcCost ipow (← r 0) (← r 1) (← z 2) (← r 3) (← r 4) (← r 5)))
  | "g.abc_cost" => do pure (rVal (Gen.abc_cost ipow (← r 0) (← r 1) (← z 2) (← r 3) (← r 4) (← r 5)))
  | "m.abc_deriv" => do pure (rVal (abcDeriv ipow intCast' (← r 0) (← r 1) (← z 2) (← r 3) (← r 4) (← r 5)))
  | "g.abc_deriv" => do pure (rVal (Gen.abc_deriv ipow intCast' (← r 0) (← r 1) (← z 2) (← r 3) (← r 4) (← r 5)))
  | "m.abc_hess" => do pure (rVal (abcHess ipow intCast' (← r 0) (← r 1) (← z 2) (← r 3) (← r 4) (← r 5)))
  | "g.abc_hess" => do pure (rVal (Gen.abc_hess ipow intCast' (← r 0) (← r 1) (← z 2) (← r 3) (← r 4) (← r 5)))
  | _ => throw s!"unknown kernel {f}"

end DK.Driver
