import DK.Driver.Leaf
import DK.Model.Loader
/-!
JSON decoding of run dictionaries / builder exports and the `loader.*` operations (C20).

Every answer is a flat-able list whose first entry is a status: `0` then the values, or `-1` then the
code of the exception type the model predicts (1 KeyError, 2 ValueError, 3 TypeError, 4 IndexError,
5 Exception) — the Python side encodes its own outcome the same way, so exception *types* are
compared like values.  `LoadErr.unmodelled` is a protocol error (never an answer).
-/
namespace DK.Driver
open Lean DK DK.Loader

def jRunVal (j : Json) : Except String (RunVal R) :=
  match j with
  | .arr a => do pure (.vec (← a.mapM jRat).toList)
  | _ => do pure (.num (← jRat j))

def jRun (j : Json) : Except String (Run R) := do
  let basis ← jNat (← fld j "basis")
  let rs ← (← fld j "runs").getArr?
  let runs ← rs.mapM (fun r => do
    let p ← r.getArr?
    if p.size ≠ 2 then throw "run entry must be [start, value]"
    pure ((← jNat p[0]!), (← jRunVal p[1]!)))
  pure { basis := basis, runs := runs.toList }

def jOptRun (j : Json) (k : String) : Except String (Option (Run R)) :=
  match fld? j k with
  | some r => some <$> jRun r
  | none => pure none

def jBoundsArg (j : Json) : Except String (BoundsArg R) := do
  let form ← (← fld j "form").getStr?
  match form with
  | "pair" => do pure (.pair (← jRat (← fld j "lo")) (← jRat (← fld j "hi")))
  | "pairvec" => do pure (.pairVec (← jVec (← fld j "lo")) (← jVec (← fld j "hi")))
  | "vector" => do pure (.vector (← jVec (← fld j "v")))
  | _ => throw s!"unknown bounds form {form}"

def jCosts (j : Json) : Except String (Costs R) := do
  let cfbr ← match fld? j "cumulative_flow_bounds_relative" with
    | some (.arr a) =>
      if a.size ≠ 2 then throw "cumulative_flow_bounds_relative must have 2 entries"
      else do pure (some ((← jRat a[0]!), (← jRat a[1]!)))
    | some _ => throw "cumulative_flow_bounds_relative must be a list"
    | none => pure none
  let peak ← match fld? j "peak_flow" with
    | some p => some <$> jList p
    | none => pure none
  pure { flow := ← jOptRun j "flow", cumulativeFlow := (fld? j "cumulative_flow").isSome,
         fbr := ← jOptRun j "flow_bounds_relative", cfbr := cfbr, peak := peak }

def jThermal (j : Json) : Except String (ThermalSpec R) := do
  let known := ["desiredTemperature", "initialTemperature", "thermalSustainment", "efficiencyFactor",
    "externalTemperatureProfile", "temperatureVariationCareFactor"]
  let keys : List String := match j with | .obj kvs => kvs.toList.map (fun kv => kv.1) | _ => []
  let opt (k : String) : Except String (Option R) :=
    match fld? j k with | some v => some <$> jRat v | none => pure none
  let ext ← match fld? j "externalTemperatureProfile" with
    | some v => some <$> jList v
    | none => pure none
  pure { desired := ← opt "desiredTemperature", initial := ← opt "initialTemperature",
         sustainment := ← opt "thermalSustainment", efficiency := ← opt "efficiencyFactor",
         external := ext, care := ← jOptRun j "temperatureVariationCareFactor",
         unknownKey := keys.any (fun k => !(known.contains k)) }

def jDevSpec (j : Json) : Except String (DevSpec R) := do
  let ty ← (← fld j "type").getStr?
  let costs ← match fld? j "costs" with
    | some c => some <$> jCosts c
    | none => pure none
  match ty with
  | "load" => do pure (.load (← jRun (← fld j "bounds")) (← jOptRun j "cumulative_bounds") costs)
  | "supply" => do pure (.supply (← jRun (← fld j "bounds")) (← jOptRun j "cumulative_bounds") costs)
  | "fixed_load" => do pure (.fixedLoad (← jRun (← fld j "bounds")))
  | "storage" => do
      let ps ← match fld? j "parameters" with
        | some (.arr a) => do
            let kv ← a.mapM (fun e => do
              let p ← e.getArr?
              if p.size ≠ 2 then throw "parameter entry must be [key, value]"
              pure ((← p[0]!.getStr?), (← jRat p[1]!)))
            pure (some kv.toList)
        | some _ => throw "storage parameters must be a list of [key, value]"
        | none => pure none
      pure (.storage (← jRun (← fld j "bounds")) ps)
  | "thermal_load" => do
      let ps ← match fld? j "parameters" with
        | some p => some <$> jThermal p
        | none => pure none
      pure (.thermal (← jRun (← fld j "bounds")) ps)
  | _ => pure .unknown

/-! ## rendering -/
def errCode : LoadErr → Except String Nat
  | .keyError => pure 1 | .valueError => pure 2 | .typeError => pure 3 | .indexError => pure 4
  | .exception => pure 5
  | .unmodelled => throw "input outside the modelled domain (LoadErr.unmodelled)"

def jn (n : Int) : Json := .str (toString n)

def answer {β : Type} (r : Except LoadErr β) (render : β → Json) : Except String Json :=
  match r with
  | .ok v => pure (.arr #[jn 0, render v])
  | .error e => do pure (.arr #[jn (-1), jn (← errCode e)])

def rRunVal (v : RunVal R) : Json :=
  match v with
  | .num x => rVal x
  | .vec xs => .arr (xs.map rVal).toArray

def rTable (n : Nat) (b : (Nat → R) × (Nat → R)) : Json :=
  .arr ((List.range n).map (fun t => Json.arr #[rVal (b.1 t), rVal (b.2 t)])).toArray

def rCBounds (cbs : List (CBound R)) : Json :=
  .arr (cbs.map (fun c => Json.arr #[rVal c.l, rVal c.h, jn c.s, jn c.e])).toArray

/-- structural fingerprint of a preference function over a length-`n` vector. -/
def fnPrint : Fn R → Nat → List Json
  | .null, _ => [jn 0]
  | .add f g, n => [jn 1] ++ fnPrint f n ++ fnPrint g n
  | .reflect f, n => [jn 2] ++ fnPrint f n
  | .poly cs off, n => [jn 3] ++ (List.range n).flatMap (fun k => (cs k).map rVal ++ [rVal (off k)])
  | .hlq pl ph xl xh, n => [jn 4] ++ (List.range n).flatMap (fun k => [rVal (pl k), rVal (ph k), rVal (xl k), rVal (xh k)])
  | .abc _ _ _ _ _, _ => [jn 5]
  | .innerHlq pl ph xl xh, _ => [jn 6, rVal pl, rVal ph, rVal xl, rVal xh]
  | .append k f g, n => [jn 7, jn k] ++ fnPrint f k ++ fnPrint g (n - k)
  | .demand cs, _ => [jn 8] ++ ([0, 1, -1, 2, -2, 3] : List Int).map (fun (x : Int) => rVal (polyEval cs (XRat.ofRat (x : Rat))))

/-- fingerprint of a loaded leaf: class code, horizon, bounds, cbounds, parameters. -/
def leafPrint (d : Leaf R) : Json :=
  let head (c : Int) : List Json := [jn c, jn d.n, rVec d.n d.lb, rVec d.n d.hb, jn d.cbs.length, rCBounds d.cbs]
  .arr (match d.kind with
    | .adevice f => head 0 ++ fnPrint f d.n
    | .sdevice q => head 1 ++ [rVal q.c1, rVal q.c2, rVal q.c3, rVal q.capacity, rVal q.damageDepth, rVal q.start,
        rVal q.reserve, rVal q.efficiency, rVal q.sustainment]
    | .tdevice q => head 2 ++ [rVal q.sustainment, rVal q.efficiency, rVal q.tInit, rVal q.tOptimal, rVal q.tRange,
        rVec d.n q.tExternal, rVec d.n q.c]
    | _ => head 9).toArray

def jExport (j : Json) : Except String (Nat × List (DevSpec R)) := do
  let e ← fld j "export"
  let basis ← jNat (← fld e "basis")
  let ds ← (← (← fld e "devices").getArr?).mapM jDevSpec
  pure (basis, ds.toList)

def loaderOp (op : String) (j : Json) : Except String Json := do
  match op with
  | "loader.run_to_array" => do
      let run ← jRun (← fld j "run")
      answer (runToArrayNp run) (fun (_, rows) => .arr ((List.range run.basis).map (fun t => rRunVal (rows t))).toArray)
  | "loader.run_to_cbounds" => do
      let run ← jRun (← fld j "run")
      answer (runToCboundsNp run) rCBounds
  | "loader.care2bounds" => do
      let n ← jNat (← fld j "n")
      let care ← jVec (← fld j "care")
      let b ← jBoundsArg (← fld j "bounds")
      answer (.ok (care2bounds n care b)) (rTable n)
  | "loader.on2bounds" => do
      let l ← jNat (← fld j "l")
      let on ← (← (← fld j "on").getArr?).mapM jNat
      let b ← jBoundsArg (← fld j "bounds")
      answer (on2bounds l on.toList b) (rTable l)
  | "loader.supply_bounds" => do
      let run ← jRun (← fld j "run")
      answer (do let b ← tableBounds run.basis run; supplyBounds run.basis b.1 b.2) (rTable run.basis)
  | "loader.load" => do
      let (basis, ds) ← jExport j
      answer (loadData basis ds) (fun ls => .arr ((jn ls.length) :: ls.map leafPrint).toArray)
  | "loader.dcost" => do
      let (basis, ds) ← jExport j
      let i ← jNat (← fld j "i")
      let s ← jVec (← fld j "s")
      let s0 ← jVec (← fld j "s0")
      answer (loadData basis ds) (fun ls =>
        match ls[i]? with
        | some d => rVal (d.cost s (fun _ => 0) - d.cost s0 (fun _ => 0))
        | none => .str "undef")
  | _ => throw s!"unknown op {op}"

end DK.Driver
