import DK.Driver.Tree
import DK.Model.Solve
/-! JSON operations for `solve` / `step` (C05, C19): the optimiser results are part of the input
(fault enumeration), the assembled optimiser arguments are evaluated at probe points. -/
namespace DK.Driver
open Lean DK

/-- the projection shape of a tree description (bounds of the leaves / wrapped devices). -/
partial def jShape (j : Json) : Except String (PShape R) := do
  let k ← (← fld j "k").getStr?
  match k with
  | "leaf" => do
      let dj ← fld j "dev"
      pure (.leaf (← jVec (← fld dj "lb")) (← jVec (← fld dj "hb")))
  | "mf" => do
      let dj ← fld j "dev"
      let flows ← (← fld j "flows").getArr?
      pure (.mf flows.size (← jVec (← fld dj "lb")) (← jVec (← fld dj "hb")))
  | "node" => do
      let ch ← (← (← fld j "ch").getArr?).mapM jShape
      pure (.node ch.toList)
  | _ => throw s!"unknown tree kind {k}"

def jResult (j : Json) : Except String (Result R) := do
  let x ← jVec (← fld j "x")
  let success ← (← fld j "success").getBool?
  let status ← jNat (← fld j "status")
  pure { x := x, success := success, status := status }

def jSDev (j : Json) : Except String (SDev R) := do
  let tj ← fld j "tree"
  let t ← jTree tj
  let sh ← jShape tj
  let n ← jNat (← fld j "n")
  pure (SDev.ofTree t n sh)

def rNat (k : Nat) : Json := rVal (XRat.ofRat (k : Rat))

def rList (N : Nat) (f : Nat → R) : List Json := (List.range N).map (fun i => rVal (f i))

/-- what one `minimize` call was given, observed at a probe point `y`:
x0, fn y − fn x0, jac y (when supplied), bounds, #constraints, constraint kinds and values at y. -/
def rProblem (pb : Problem R) (y : Nat → R) : List Json :=
  [rNat pb.dim] ++ rList pb.dim pb.x0 ++ [rVal (pb.fn y - pb.fn pb.x0)]
  ++ (match pb.jac with | some j => [rNat 1] ++ rList pb.dim (j y) | none => [rNat 0])
  ++ rList pb.dim (fun k => (pb.bounds k).1) ++ rList pb.dim (fun k => (pb.bounds k).2)
  ++ [rNat pb.cons.length] ++ pb.cons.flatMap (fun c => [rNat (if c.isEq then 1 else 0), rVal (c.fn y)])
  ++ [rNat (if pb.callback then 1 else 0)]
  ++ [match pb.ftol with | some t => rVal t | none => rVal (XRat.ofRat (-1))]
  ++ [match pb.maxiter with | some k => rNat k | none => rVal (XRat.ofRat (-1))]

def solveOp (op : String) (j : Json) : Except String Json := do
  match op with
  | "solve.closed" => do
      -- closed-form optimum of a leaf under a per-slot price: the flow
      let d ← jLeaf (← fld j "dev")
      let p ← jVec (← fld j "p")
      match d.kind with
      | .idevice2 pl ph => pure (rVec d.n (fun k => hlqArgmin (pl k) (ph k) (d.lb k) (d.hb k) (p k)))
      | .device => pure (rVec d.n (fun k => linArgmin (d.lb k) (d.hb k) (p k)))
      | .cdevice a _ => pure (rVec d.n (fun k => linArgmin (d.lb k) (d.hb k) (a + p k)))
      | _ => throw "no closed form for this class"
  | _ => do
  let d ← jSDev j
  let P ← match fld? j "P" with | some pj => jMat pj | none => pure (fun _ _ => (0 : R))
  match op with
  | "solve.wrap" | "solve.args" => do
      let s0? ← match fld? j "s0" with
        | some (.arr a) => do let v ← jVec (.arr a); pure (some v)
        | _ => pure none
      let prox ← match fld? j "prox" with
        | some .null => pure none
        | some pj => some <$> jRat pj
        | none => pure none
      let cb := match fld? j "cb" with | some (.bool b) => b | _ => false
      let tol ← match fld? j "ftol" with
        | some .null | none => pure (XRat.ofRat ((1 : Rat) / 1000000))
        | some tj => jRat tj
      let maxiter ← match fld? j "maxiter" with
        | some .null | none => pure 1000
        | some mj => jNat mj
      if op = "solve.wrap" then
        let r ← jResult (← fld j "res")
        match solve d P s0? prox cb tol maxiter (fun _ => r) with
        | .error (.result _) => pure (.arr #[rNat 0])
        | .error .fixedInfeasible => pure (.arr #[rNat 3])
        | .ok (S, some _) => pure (.arr ([rNat 1, rNat d.rows, rNat d.n] ++ rList d.dim (flat d.n S)).toArray)
        | .ok (S, none) => pure (.arr ([rNat 2, rNat d.rows, rNat d.n] ++ rList d.dim (flat d.n S)).toArray)
      else
        if allFixed d.dim d.flatBounds then pure (.arr #[])
        else
          let y ← jVec (← fld j "probe")
          pure (.arr (rProblem ((solveProblem d P (startPoint d s0?) prox cb).withOpts tol maxiter) y).toArray)
  | "solve.step_wrap" | "solve.step_args" => do
      let s ← jVec (← fld j "s")
      let a ← jRat (← fld j "stepsize")
      let rp ← jResult (← fld j "res_proj")
      let rl ← jResult (← fld j "res_line")
      if op = "solve.step_wrap" then
        match step d P s a (fun _ => rp) (fun _ => rl) with
        | .error _ => pure (.arr #[rNat 0, rNat (if !rp.accepted then 1 else 2)])
        | .ok (S, _) => pure (.arr ([rNat 1, rNat d.rows, rNat d.n] ++ rList d.dim (flat d.n S)).toArray)
      else
        let y ← jVec (← fld j "probe")
        let t ← jRat (← fld j "tprobe")
        let pp := projProblem d.dim (gradStep d P s a) s d.flatBounds (d.cons.map (MCon.toFlat d.n))
        let lp := lineProblem d P s rp.x
        pure (.arr (rProblem pp y ++ rProblem lp (fun _ => t)).toArray)
  | _ => throw s!"unknown op {op}"

end DK.Driver
