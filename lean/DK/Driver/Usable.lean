import DK.Driver.Tree
import DK.Model.Accept
/-!
Driver operations of the usability property C10.

C10 is about *shape* and *definedness* only (finite value vs. undefined), never about the values
themselves, so every operation here answers with the definedness pattern of the model's result:
`1` for a defined entry, `undef` for an entry whose computation divides by zero / takes an undefined
power, `numeric` for an entry the source differentiates numerically.  A value-changing but usable
edit of the library therefore leaves this tie intact (values are tied by C01 / C14 / C15 / C06).

* `usable.accept`     — does the model's acceptance predicate hold for a leaf description (`1` / `0`);
* `usable.leaf.cost | .deriv | .hess` — pattern of a leaf's cost (1 entry), marginal cost (`n`), Hessian (`n·n`);
* `usable.tree.cost | .deriv`         — pattern of a tree's cost (1 entry), marginal cost (`R·n`);
* `usable.leafcons`   — the constraint list of a leaf at a flow, as rows
  `[isEq, hasJac, jac_0 … jac_{n-1}, value]` (pattern entries), sorted lexicographically so that the
  comparison is insensitive to the order in which the code emits its constraints;
* `usable.treecons`   — the same for a device tree (`R·n` Jacobian entries per row).
-/
namespace DK.Driver
open Lean DK

/-- total order on the partial rationals used only to canonicalise a list: `undef` first. -/
def uxle (a b : XRat) : Bool :=
  match a.v, b.v with
  | none, _ => true
  | some _, none => false
  | some x, some y => x ≤ y

def uxeq (a b : XRat) : Bool :=
  match a.v, b.v with
  | none, none => true
  | some x, some y => x == y
  | _, _ => false

/-- lexicographic `≤` on rows. -/
def rowLe : List XRat → List XRat → Bool
  | [], _ => true
  | _ :: _, [] => false
  | a :: as, b :: bs => if uxeq a b then rowLe as bs else uxle a b

def b2r (b : Bool) : R := if b then 1 else 0

def rRows (rows : List (List R)) : Json :=
  .arr ((rows.mergeSort rowLe).map (fun r => Json.arr (r.map rVal).toArray)).toArray

/-- definedness pattern of a partial rational. -/
def defd (x : R) : R := match x.v with | some _ => 1 | none => XRat.undef

def rDefOpt (x : Option R) : Json := match x with | some v => rVal (defd v) | none => .str "numeric"

def usableOp (op : String) (j : Json) : Except String Json := do
  match op with
  | "usable.accept" => do
      let dj ← fld j "dev"
      let d ← jLeaf dj
      let cls ← (← fld dj "cls").getStr?
      let prod := cls == "PVDevice" || cls == "GDevice"
      pure (rVal (b2r (decide (d.Accepted prod))))
  | "usable.leaf.cost" | "usable.leaf.deriv" | "usable.leaf.hess" => do
      let d ← jLeaf (← fld j "dev")
      let s ← jVec (← fld j "s")
      let p ← match fld? j "p" with | some pj => jVec pj | none => pure (fun _ => (0 : R))
      match op with
      | "usable.leaf.cost" => pure (.arr #[rVal (defd (d.cost s p))])
      | "usable.leaf.deriv" => pure (rVec d.n (fun i => defd (d.deriv s p i)))
      | _ => pure (.arr ((List.range (d.n * d.n)).map (fun k => rDefOpt (d.hess s (k / d.n) (k % d.n)))).toArray)
  | "usable.tree.cost" | "usable.tree.deriv" => do
      let t ← jTree (← fld j "tree")
      let n ← jNat (← fld j "n")
      let S ← jMat (← fld j "S")
      let P ← match fld? j "P" with | some pj => jMat pj | none => pure (fun _ _ => (0 : R))
      match op with
      | "usable.tree.cost" => pure (.arr #[rVal (defd (t.cost S P))])
      | _ => pure (rMat t.rows n (fun r i => defd (t.deriv S P r i)))
  | "usable.leafcons" => do
      let dj ← fld j "dev"
      let d ← jLeaf dj
      let cs ← jLeafCons dj d
      let s ← jVec (← fld j "s")
      pure (rRows (cs.map (fun c =>
        [b2r c.isEq, b2r c.jac.isSome] ++
          (match c.jac with | some jc => (List.range d.n).map (fun k => defd (jc s k)) | none => []) ++ [defd (c.fn s)])))
  | "usable.treecons" => do
      let t ← jTree (← fld j "tree")
      let n ← jNat (← fld j "n")
      let S ← jMat (← fld j "S")
      let Rr := t.rows
      pure (rRows ((t.cons n).map (fun c =>
        [b2r c.isEq, b2r c.jac.isSome] ++
          (match c.jac with | some jc => (List.range (Rr * n)).map (fun k => defd (jc S (k / n) (k % n))) | none => [])
          ++ [defd (c.fn S)])))
  | _ => throw s!"unknown op {op}"

end DK.Driver
