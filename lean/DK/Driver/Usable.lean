import DK.Driver.Tree
import DK.Model.Accept
/-!
Driver operations of the usability property C10.

* `usable.accept`   — does the model's acceptance predicate hold for a leaf description (`1` / `0`);
* `usable.leafcons` — the constraint list of a leaf at a flow, as purely numeric rows
  `[isEq, hasJac, jac_0 … jac_{n-1}, value]`, sorted lexicographically (so the comparison is
  insensitive to the order in which the code emits its constraints; the Jacobian comes first because
  its entries are exact on the floating-point side, so rounding noise in a value never decides the order);
* `usable.treecons` — the same for a device tree (`R·n` Jacobian entries per row).
-/
namespace DK.Driver
open Lean DK

/-- total order on the partial rationals used only to canonicalise a list: `undef` first. -/
def uxle (a b : XRat) : Bool :=
  match a.v, b.v with
  | none, _ => true
  | some _, none => false
  | some x, some y => x ≤ y

def uxeq (a b : XRat) : Bool :=
  match a.v, b.v with
  | none, none => true
  | some x, some y => x == y
  | _, _ => false

/-- lexicographic `≤` on rows. -/
def rowLe : List XRat → List XRat → Bool
  | [], _ => true
  | _ :: _, [] => false
  | a :: as, b :: bs => if uxeq a b then rowLe as bs else uxle a b

def b2r (b : Bool) : R := if b then 1 else 0

def rRows (rows : List (List R)) : Json :=
  .arr ((rows.mergeSort rowLe).map (fun r => Json.arr (r.map rVal).toArray)).toArray

def usableOp (op : String) (j : Json) : Except String Json := do
  match op with
  | "usable.accept" => do
      let dj ← fld j "dev"
      let d ← jLeaf dj
      let cls ← (← fld dj "cls").getStr?
      let prod := cls == "PVDevice" || cls == "GDevice"
      pure (rVal (b2r (decide (d.Accepted prod))))
  | "usable.leafcons" => do
      let dj ← fld j "dev"
      let d ← jLeaf dj
      let cs ← jLeafCons dj d
      let s ← jVec (← fld j "s")
      pure (rRows (cs.map (fun c =>
        [b2r c.isEq, b2r c.jac.isSome] ++
          (match c.jac with | some jc => (List.range d.n).map (jc s) | none => []) ++ [c.fn s])))
  | "usable.treecons" => do
      let t ← jTree (← fld j "tree")
      let n ← jNat (← fld j "n")
      let S ← jMat (← fld j "S")
      let Rr := t.rows
      pure (rRows ((t.cons n).map (fun c =>
        [b2r c.isEq, b2r c.jac.isSome] ++
          (match c.jac with | some jc => (List.range (Rr * n)).map (fun k => jc S (k / n) (k % n)) | none => [])
          ++ [c.fn S])))
  | _ => throw s!"unknown op {op}"

end DK.Driver
