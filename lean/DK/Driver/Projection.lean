import DK.Driver.Tree
import DK.Model.Projection
/-! JSON decoding of convex regions and the projection operations (`proj.*`).

Answers are flat lists of numbers whose first entry is a status flag:
`0` = returned normally (then the payload follows), `1` = `ValueError`, `2` = the bare `Exception`
of `dykstra_project` at `maxiter`. -/
namespace DK.Driver
open Lean DK

partial def jVRegion (j : Json) : Except String (VRegion R) := do
  let k ← (← fld j "k").getStr?
  match k with
  | "cube" => do
      let lo ← (← fld j "lo").getArr?
      pure (.cube lo.size (← jVec (← fld j "lo")) (← jVec (← fld j "hi")))
  | "half" => do
      let nr ← (← fld j "nrm").getArr?
      pure (.half nr.size (← jVec (← fld j "nrm")) (← jRat (← fld j "o")) (← jRat (← fld j "sign")))
  | "slice" => do
      let nr ← (← fld j "nrm").getArr?
      pure (.slice nr.size (← jVec (← fld j "nrm")) (← jRat (← fld j "lo")) (← jRat (← fld j "hi")))
  | "inter" => do pure (.inter (← jVRegion (← fld j "a")) (← jVRegion (← fld j "b")))
  | _ => throw s!"unknown vector region {k}"

partial def jMRegion (j : Json) : Except String (MRegion R) := do
  let k ← (← fld j "k").getStr?
  match k with
  | "list" => do
      let rs ← (← (← fld j "rs").getArr?).mapM jVRegion
      pure (.list (← jNat (← fld j "axis")) rs.toList)
  | "minter" => do pure (.inter (← jMRegion (← fld j "a")) (← jMRegion (← fld j "b")))
  | _ => throw s!"unknown matrix region {k}"

def isMatrixRegion (j : Json) : Bool :=
  match fld? j "k" with
  | some (.str "list") | some (.str "minter") => true
  | _ => false

def flag (n : Nat) : Json := .str (toString n)

def rErr (e : PErr) : Json :=
  match e with
  | .valueError => .arr #[flag 1]
  | .maxiter => .arr #[flag 2]

def rVecRes (n : Nat) (x : Except PErr (Nat → R)) : Json :=
  match x with
  | .ok v => .arr (#[flag 0] ++ ((List.range n).map (fun i => rVal (v i))).toArray)
  | .error e => rErr e

def rMatRes (r c : Nat) (x : Except PErr (Mat R)) : Json :=
  match x with
  | .ok V => .arr (#[flag 0, flag r, flag c] ++
      ((List.range (r * c)).map (fun k => rVal (V (k / c) (k % c)))).toArray)
  | .error e => rErr e

def rBoolRes (x : Except PErr Bool) : Json :=
  match x with
  | .ok b => .arr #[flag 0, flag (if b then 1 else 0)]
  | .error e => rErr e

/-- per-block projections of a tree description, keyed by the absolute row offset of the block. -/
partial def jProjTable (j : Json) (off : Nat) : Except String (List (Nat × BlockProj R) × Nat) := do
  let k ← (← fld j "k").getStr?
  match k with
  | "leaf" => do
      let d ← fld j "dev"
      pure ([(off, .device (← jVec (← fld d "lb")) (← jVec (← fld d "hb")))], 1)
  | "mf" => do
      let d ← fld j "dev"
      let flows ← (← fld j "flows").getArr?
      pure ([(off, .mf flows.size (← jVec (← fld d "lb")) (← jVec (← fld d "hb")))], flows.size)
  | "node" => do
      let ch ← (← fld j "ch").getArr?
      let mut acc : List (Nat × BlockProj R) := []
      let mut rows := 0
      for c in ch do
        let (tbl, r) ← jProjTable c (off + rows)
        acc := acc ++ tbl
        rows := rows + r
      pure (acc, rows)
  | _ => throw s!"unknown tree kind {k}"

def tableBp (tbl : List (Nat × BlockProj R)) : Nat → Block R → Mat R → Mat R :=
  fun off _ S => match tbl.lookup off with
    | some bpj => bpj.run S
    | none => S

def projOp (op : String) (j : Json) : Except String Json := do
  let tol ← match fld? j "tol" with | some t => jRat t | none => pure (0 : R)
  let M ← match fld? j "maxiter" with | some t => jNat t | none => pure 1000
  match op with
  | "proj.device" => do
      let d ← fld j "dev"
      let n ← jNat (← fld d "n")
      let s ← jVec (← fld j "s")
      let size ← jNat (← fld j "size")
      match deviceProject n (← jVec (← fld d "lb")) (← jVec (← fld d "hb")) size s with
      | .ok v => pure (rMatRes 1 n (.ok (fun _ => v)))
      | .error e => pure (rErr e)
  | "proj.set" | "proj.mf" => do
      let tj ← fld j "tree"
      let t ← jTree tj
      let n ← jNat (← fld j "n")
      let (tbl, _) ← jProjTable tj 0
      let S ← jMat (← fld j "S")
      let size ← jNat (← fld j "size")
      pure (rMatRes t.rows n (setProject (tableBp tbl) t n size S))
  | _ => do
    let rj ← fld j "r"
    if isMatrixRegion rj then do
      let r ← jMRegion rj
      let sh ← (← (← fld j "shape").getArr?).mapM jNat
      if !r.ctorOk then pure (rErr .valueError)
      else if sh.size ≠ 2 then pure (rErr .valueError)
      else do
        let P ← jMat (← fld j "P")
        match op with
        | "proj.isin" => pure (rBoolRes (r.isIn tol M sh[0]! sh[1]! P))
        | _ => pure (rMatRes sh[0]! sh[1]! (r.project tol M sh[0]! sh[1]! P))
    else do
      let r ← jVRegion rj
      let pa ← (← fld j "p").getArr?
      let p ← jVec (← fld j "p")
      if !r.ctorOk then pure (rErr .valueError)
      else match op with
        | "proj.isin" => pure (rBoolRes (r.isIn tol M pa.size p))
        | _ => pure (rVecRes pa.size (r.project tol M pa.size p))

end DK.Driver
