import DK.Driver.Tree
/-! Set-level operations for C04 / C17: constraint lists as a multiset of (type, value). -/
namespace DK.Driver
open Lean DK

/-- order on (is-equality, value): inequalities first, then by value, undefined values last. -/
def conKeyLe (a b : Bool × R) : Bool :=
  if a.1 != b.1 then !a.1
  else match a.2.v, b.2.v with
    | some x, some y => decide (x ≤ y)
    | some _, none => true
    | none, some _ => false
    | none, none => true

def setsOp (op : String) (j : Json) : Except String Json := do
  let t ← jTree (← fld j "tree")
  let n ← jNat (← fld j "n")
  let S ← jMat (← fld j "S")
  match op with
  | "sets.cons" =>
      -- every constraint of the tree at `S` as [1 | 0 (eq | ineq), value], sorted: a multiset
      let ks := ((t.cons n).map (fun c => (c.isEq, c.fn S))).mergeSort (fun a b => conKeyLe a b)
      pure (.arr (ks.map (fun k => Json.arr #[rVal (if k.1 then 1 else 0), rVal k.2])).toArray)
  | "sets.ncons" => pure (toJson (t.cons n).length)
  | _ => throw s!"unknown op {op}"

end DK.Driver
