import DK.Driver.Core
import DK.Model.History
/-!
JSON decoding of heap worlds / histories (property C12) and the integer encoding of the
observation tokens.  One line `{"op":"hist.run","world":…,"ops":[…],"pre":false}` runs a whole
history and answers one flat list of integers: per operation `-1 <out> -2 <state digest>`.
The Python side (`vk/props/c12.py`, `enc_*`) produces the same encoding from the real objects.
-/
namespace DK.Driver
open Lean DK.History

def jNatList (j : Json) : Except String (List Nat) := do
  let a ← j.getArr?
  (a.mapM jNat).map Array.toList

def jBool (j : Json) : Bool := match j with | .bool b => b | _ => false

def jOwn (j : Json) : Except String Own := do
  let a ← j.getArr?
  pure { tag := ← jNat (a.getD 0 .null), isEq := jBool (a.getD 1 .null), hasJac := jBool (a.getD 2 .null) }

def jOwnList (j : Json) (k : String) : Except String (List Own) :=
  match fld? j k with
  | some (.arr a) => (a.mapM jOwn).map Array.toList
  | _ => pure []

def jNatListD (j : Json) (k : String) : Except String (List Nat) :=
  match fld? j k with
  | some (.arr a) => jNatList (.arr a)
  | _ => pure []

partial def jDev (j : Json) : Except String Dev := do
  let k ← (← fld j "k").getStr?
  let id ← jNat (← fld j "id")
  let refs ← jNatListD j "refs"
  let fixed := match fld? j "fixed" with | some b => jBool b | none => false
  match k with
  | "leaf" => do
      let mat ← match fld? j "mat" with
        | some (.arr a) => do pure (some ((← jNat (a.getD 0 .null)), (← jNat (a.getD 1 .null))))
        | _ => pure none
      pure (.leaf { id := id, own := ← jOwnList j "own", ucons := ← jNatListD j "ucons", polys := ← jNatListD j "polys",
                    mat := mat, fixed := fixed, refs := refs })
  | "mf" => do
      let w ← jDev (← fld j "w")
      pure (.mf id (← jNatListD j "flows") (← jOwnList j "sb") (← jOwnList j "ratio") fixed refs w)
  | "node" => do
      let ch ← (← (← fld j "ch").getArr?).mapM jDev
      pure (.node id (← jOwnList j "own") refs ch.toList)
  | _ => throw s!"unknown dev kind {k}"

def jWorld (j : Json) : Except String World := do
  let root ← jDev (← fld j "root")
  let ud ← (← (← fld j "udicts").getArr?).mapM (fun (x : Json) => do
    let a ← x.getArr?
    pure (jBool (a.getD 0 .null), jBool (a.getD 1 .null)))
  pure { root := root, udicts := ud.toList, npolys := ← jNat (← fld j "npolys"), ncaller := ← jNat (← fld j "ncaller") }

def jHOp (j : Json) : Except String Op := do
  let o ← (← fld j "o").getStr?
  let t ← match fld? j "t" with | some x => jNat x | none => pure 0
  let i ← match fld? j "i" with | some x => jNat x | none => pure 0
  let a ← jNatListD j "a"
  match o with
  | "cost" => pure (.cost t a)
  | "deriv" => pure (.deriv t a)
  | "hess" => pure (.hess t a)
  | "bounds" => pure (.bounds t)
  | "readConstraints" => pure (.readConstraints t)
  | "callFun" => pure (.callFun t i a)
  | "callJac" => pure (.callJac t i a)
  | "project" => pure (.project t a)
  | "map" => pure (.map t a)
  | "toDict" => pure (.toDict t)
  | "leafDevices" => pure (.leafDevices t)
  | "solve" => pure (.solve t a)
  | "step" => pure (.stepTo t a)
  | "uproject" => pure (.uproject t a)
  | "partial" => do
      let fd := match fld? j "fd" with | some b => jBool b | none => false
      let fh := match fld? j "fh" with | some b => jBool b | none => false
      pure (.partialEval t fd fh (← jNat (← fld j "np")) (← jNat (← fld j "nm")) a)
  | "cacheClear" => pure .cacheClear
  | "evict" => pure (.evict i)
  | _ => throw s!"unknown history op {o}"

/-! ## integer encoding of tokens -/
def encE : CExpr → List Int
  | .user k => [10, (k : Int)]
  | .userJac k => [11, (k : Int)]
  | .own t => [12, (t : Int)]
  | .wrapSum e => 13 :: encE e
  | .wrapVec e => 15 :: encE e
  | .wrapRows o r e => [14, (o : Int), (r : Int)] ++ encE e

def encOE : Option CExpr → List Int
  | none => [0]
  | some e => encE e

def encDict (d : Dict) : List Int := [-70, if d.isEq then 1 else 0] ++ encE d.fn ++ encOE d.jac

def encCV : CVal → Int
  | .derivOf _ => 1
  | .hessOf _ => 2
  | .junk => 9

def encOCV : Option CVal → Int
  | none => 0
  | some v => encCV v

def encMV : Option MVal → Int
  | none => 0
  | some (.pure _) => 1
  | some .junk => 9

def encCell : Option Nat → Int
  | none => -9
  | some v => v

def encOut (o : Out) : List Int :=
  [-1, if o.found then 1 else 0, -3] ++ o.polys.map encCV ++ [-4] ++ o.mats.map encMV ++ [-5] ++ o.refs.map encCell
    ++ [-6] ++ o.args.map encCell ++ [-7] ++ o.cons.flatMap encDict ++ [-8] ++ encOE o.closure

def isSust : MKey → Bool
  | .sust _ _ => true
  | .pow _ => false

def encState (σ : State) : List Int :=
  [-2] ++ σ.dicts.flatMap (fun d => encE d.fn ++ encOE d.jac) ++ [-20] ++ σ.dcache.map encOCV ++ [-21] ++ σ.hcache.map encOCV
    ++ [-22, ((σ.lru.filter (fun e => isSust e.1)).length : Int), ((σ.lru.filter (fun e => !isSust e.1)).length : Int),
        (σ.mats.length : Int), -23] ++ σ.caller.map (fun (v : Nat) => (v : Int))
    -- no other mutable state exists in the model: library-level mutable globals / device instance fields unchanged
    ++ [-24, 0, 0]

def historyOp (op : String) (j : Json) : Except String Json := do
  match op with
  | "hist.run" => do
      let W ← jWorld (← fld j "world")
      let ops ← (← (← fld j "ops").getArr?).mapM jHOp
      let pre := match fld? j "pre" with | some b => jBool b | none => false
      let stp := if pre then stepPre W else step W
      let tr := trace stp ops.toList W.init
      let ints := encState W.init ++ tr.flatMap (fun e => encOut e.1 ++ encState e.2)
      pure (.arr (ints.map (fun (i : Int) => Json.str (toString i))).toArray)
  | _ => throw s!"unknown op {op}"

end DK.Driver
