import DK.Driver.Leaf
import DK.Driver.Tree
import DK.Driver.Loader
import DK.Driver.Serial
import DK.Driver.TreeX
import DK.Driver.Sets
import DK.Driver.Usable
import DK.Driver.State
import DK.Driver.Solve
import DK.Driver.Cons
import DK.Driver.History
import DK.Driver.Validate
import DK.Driver.Projection
import DK.Driver.Hess2
import DK.Driver.FnNd
/-! Line driver: one JSON operation per input line, one JSON answer per output line. -/
namespace DK.Driver
open Lean

def handle (line : String) : String :=
  match Json.parse line with
  | .error e => err s!"parse: {e}"
  | .ok j =>
    match (do
      let op ← (← fld j "op").getStr?
      if op = "leaf.cons" then leafConsOp j
      else if op.startsWith "leaf." then leafOp op j
      else if op.startsWith "tree." then treeOp op j
      else if op.startsWith "fnnd." then fnndOp op j
      else if op.startsWith "fn." then fnOp op j
      else if op = "kern" then kernOp j
      else if op.startsWith "loader." then loaderOp op j
      else if op.startsWith "serial." then serialOp op j
      else if op.startsWith "treex." then treexOp op j
      else if op.startsWith "sets." then setsOp op j
      else if op.startsWith "usable." then usableOp op j
      else if op.startsWith "state." then stateOp op j
      else if op.startsWith "solve." then solveOp op j
      else if op.startsWith "cons." then consOp op j
      else if op.startsWith "hist." then historyOp op j
      else if op.startsWith "validate." then validateOp op j
      else if op.startsWith "proj." then projOp op j
      else if op.startsWith "hess2." then hess2Op op j
      else throw s!"unknown op {op}" : Except String Json) with
    | .ok v => ok v
    | .error e => err e

partial def loop (h : IO.FS.Stream) (out : IO.FS.Stream) : IO Unit := do
  let line ← h.getLine
  if line.isEmpty then return ()
  if line.trimAscii.toString.isEmpty then loop h out else
  out.putStrLn (handle line)
  loop h out

def main : IO Unit := do
  let out ← IO.getStdout
  loop (← IO.getStdin) out
  out.flush
end DK.Driver
