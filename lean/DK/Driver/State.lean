import DK.Driver.Tree
import DK.Model.Constraints
/-!
# Driver operations for C09: storage / thermal state

`state.soc`       `{r, s, e}`      → `utils.soc(r, s, e)`              (`DK.soc`)
`state.base_soc`  `{b, s, n}`      → `utils.base_soc(b, s, n)`         (`DK.baseSoc`)
`state.charge_at` `{dev, r}`       → `SDevice.charge_at(r)`            (`DK.chargeAt`)
`state.soc_dot`   `{dev, r}`       → the constraints' inner `soc(r, i)`, `i < n`  (`DK.socDot`)
`state.cons_vals` `{dev, r, sorted?}` → `[c['fun'](r) for c in dev.constraints]` (`Leaf.cons`; ascending when `sorted`)
`state.t_base`    `{dev}`          → `TDevice.t_base`                  (`DK.tBase`)
`state.r2t`       `{dev, r}`       → `TDevice.r2t(r)`                  (`DK.r2t`)
-/
namespace DK.Driver
open Lean DK

def stateOp (op : String) (j : Json) : Except String Json := do
  match op with
  | "state.soc" => do
      let a ← (← fld j "r").getArr?
      let r ← jVec (← fld j "r")
      let s ← jRat (← fld j "s")
      let e ← jRat (← fld j "e")
      pure (rVec a.size (soc s e r))
  | "state.base_soc" => do
      let b ← jRat (← fld j "b")
      let s ← jRat (← fld j "s")
      let n ← jNat (← fld j "n")
      pure (rVec n (baseSoc b s))
  | _ => do
    let dj ← fld j "dev"
    let d ← jLeaf dj
    match op, d.kind with
    | "state.t_base", .tdevice q => pure (rVec d.n (tBase q))
    | "state.r2t", .tdevice q => do
        let r ← jVec (← fld j "r")
        pure (rVec d.n (r2t q r))
    | "state.charge_at", .sdevice q => do
        let r ← jVec (← fld j "r")
        pure (rVec d.n (chargeAt q r))
    | "state.soc_dot", .sdevice q => do
        let r ← jVec (← fld j "r")
        pure (rVec d.n (socDot d.n q r))
    | "state.cons_vals", _ => do
        let r ← jVec (← fld j "r")
        let cs ← jLeafCons dj d
        let vals := cs.map (fun c => c.fn r)
        let sorted := match fld? j "sorted" with | some (.bool true) => true | _ => false
        let vals := if sorted then vals.mergeSort (fun a b => decide (a ≤ b)) else vals
        pure (.arr (vals.map rVal).toArray)
    | _, _ => throw s!"unknown op {op} (or wrong device class)"

end DK.Driver
