import DK.Driver.Tree
import DK.Model.TreeFind
/-!
Numeric-only renderings of tree operations for the C02 / C13 correspondence checks.

The generic comparator of the harness compares (nested) lists of numbers.  Labels are strings and
constraint lists are lists of records, so this file re-renders them as flat lists of numbers:

* `treex.labels` — every label as its character codes followed by `-1`;
* `treex.map`    — for every row: the label's character codes, `-1`, then the `n` entries of the row;
* `treex.find`   — the rows whose label ends with `name` (`Tree.getCandidates`, plain string suffix), in row order;
* `treex.get`    — the first of those rows (what `get(name)` returns), as a list of length ≤ 1;
* `treex.cons`   — the constraint list at a flow `S` with a probe direction `D`, as three sorted
  projections (so that the comparison is insensitive to the order of the list, which the property
  does not fix): `(code, fun S)`, `(code, jac S · D)`, `(code, fun S + jac S · D)` where
  `code = 2·[type = eq] + [has a Jacobian]` and `jac · D = 0` for constraints without a Jacobian.
-/
namespace DK.Driver
open Lean DK

def strCodes (s : String) : List Json := s.toList.map (fun c => toJson c.toNat) ++ [toJson (-1 : Int)]

def xle (a b : Nat × R) : Bool := a.1 < b.1 || (a.1 == b.1 && decide (a.2 ≤ b.2))

def rPairs (l : List (Nat × R)) : List Json := (l.mergeSort xle).flatMap (fun p => [toJson p.1, rVal p.2])

/-- `Σ_{r<R, i<n} J r i · D r i`. -/
def matDot (Rr n : Nat) (J D : Mat R) : R := sumTo Rr (fun r => sumTo n (fun i => J r i * D r i))

def treexOp (op : String) (j : Json) : Except String Json := do
  let t ← jTree (← fld j "tree")
  let n ← jNat (← fld j "n")
  let Rr := t.rows
  match op with
  | "treex.labels" => pure (.arr ((t.labels "").flatMap strCodes).toArray)
  | "treex.map" => do
      let S ← jMat (← fld j "S")
      pure (.arr ((t.mapRows S).flatMap (fun lr => strCodes lr.1 ++ (List.range n).map (fun i => rVal (lr.2 i)))).toArray)
  | "treex.cons" => do
      let S ← jMat (← fld j "S")
      let D ← jMat (← fld j "D")
      let cs := (t.cons n).map (fun c =>
        let code := (if c.isEq then 2 else 0) + (if c.jac.isSome then 1 else 0)
        let v := c.fn S
        let jd : R := match c.jac with | some jc => matDot Rr n (jc S) D | none => 0
        (code, v, jd))
      pure (.arr (rPairs (cs.map (fun x => (x.1, x.2.1))) ++ rPairs (cs.map (fun x => (x.1, x.2.2)))
        ++ rPairs (cs.map (fun x => (x.1, x.2.1 + x.2.2)))).toArray)
  | "treex.find" => do
      let name ← (← fld j "name").getStr?
      pure (.arr ((t.getCandidates name).map (fun kl => toJson kl.1)).toArray)
  | "treex.get" => do
      let name ← (← fld j "name").getStr?
      pure (.arr (match (t.getCandidates name).head? with | some kl => #[toJson kl.1] | none => #[]))
  | _ => throw s!"unknown op {op}"

end DK.Driver
