import DK.Driver.Leaf
import DK.Model.Tree
/-! JSON decoding of device trees and the tree-level operations. -/
namespace DK.Driver
open Lean DK

/-- user constraint of an ADevice, as data: `w·x + c ≥ 0` / `= 0` with Jacobian `w` (or none). -/
def jUserCon (j : Json) : Except String (Con R) := do
  let ty ← (← fld j "type").getStr?
  let w ← jVec (← fld j "w")
  let c ← jRat (← fld j "c")
  let n ← jNat (← fld j "n")
  let hasJac := match fld? j "jac" with | some (.bool false) => false | _ => true
  pure { isEq := ty == "eq", fn := fun x => dot n w x + c, jac := if hasJac then some (fun _ k => w k) else none }

def jOptRat (j : Json) : Except String (Option R) :=
  match j with
  | .null => pure none
  | _ => some <$> jRat j

/-- the constraint list of a leaf description (cbounds, storage, rate clip, user constraints). -/
def jLeafCons (j : Json) (d : Leaf R) : Except String (List (Con R)) := do
  let p := (fld? j "prm").getD (Json.mkObj [])
  let (lo, hi) ← match fld? p "rate_clip" with
    | some (.arr a) => do pure (← jOptRat (a.getD 0 .null), ← jOptRat (a.getD 1 .null))
    | _ => pure (none, none)
  let extra ← match fld? j "ucons" with
    | some (.arr a) => (a.mapM jUserCon).map Array.toList
    | _ => pure []
  pure (d.cons lo hi extra)

partial def jTree (j : Json) : Except String (Tree R) := do
  let k ← (← fld j "k").getStr?
  match k with
  | "leaf" => do
      let dj ← fld j "dev"
      let d ← jLeaf dj
      let cs ← jLeafCons dj d
      pure (.block (Block.ofLeaf (← (← fld j "id").getStr?) d cs))
  | "mf" => do
      let dj ← fld j "dev"
      let d ← jLeaf dj
      let cs ← jLeafCons dj d
      let flows ← (← (← fld j "flows").getArr?).mapM (fun (x : Json) => x.getStr?)
      let ratio ← match fld? j "ratios" with
        | some (.arr a) => do
            let e := match fld? j "ctype" with | some (.str "ineq") => false | _ => true
            pure (some (e, ← jRat (a.getD 0 .null), ← jRat (a.getD 1 .null)))
        | _ => pure none
      pure (.block (Block.ofMF (← (← fld j "id").getStr?) d cs flows.toList ratio))
  | "node" => do
      let id ← (← fld j "id").getStr?
      let ch ← (← (← fld j "ch").getArr?).mapM jTree
      let sb ← match fld? j "sb" with
        | some (.arr a) => do
            let rows ← a.mapM (fun r => do
              let p ← r.getArr?
              pure ((← jRat (p.getD 0 .null)), (← jRat (p.getD 1 .null))))
            pure (some (fun i => rows.getD i (XRat.undef, XRat.undef)))
        | _ => pure none
      let labels ← match fld? j "labels" with
        | some (.arr a) => (a.mapM (fun (x : Json) => x.getStr?)).map Array.toList
        | _ => pure []
      let balEq := match fld? j "ctype" with | some (.str "ineq") => false | _ => true
      let sign ← match fld? j "sign" with | some s => jRat s | none => pure (1 : R)
      let rem := match fld? j "rem" with | some (.bool b) => b | _ => false
      pure (.node id { sbounds := sb, labels := labels, balEq := balEq, sign := sign, applyToRemaining := rem } ch.toList)
  | _ => throw s!"unknown tree kind {k}"

def rCon (Rr n : Nat) (S : Mat R) (c : MCon R) : Json :=
  Json.mkObj [("type", .str (if c.isEq then "eq" else "ineq")), ("val", rVal (c.fn S)),
    ("jac", match c.jac with
      | some j => .arr ((List.range (Rr * n)).map (fun k => rVal (j S (k / n) (k % n)))).toArray
      | none => .null)]

def treeOp (op : String) (j : Json) : Except String Json := do
  let t ← jTree (← fld j "tree")
  let n ← jNat (← fld j "n")
  let Rr := t.rows
  match op with
  | "tree.rows" => pure (toJson Rr)
  | "tree.partition" => match t with
      | .node _ _ cs => pure (.arr ((partitionFrom 0 cs).map (fun p => Json.arr #[toJson p.1, toJson p.2])).toArray)
      | .block _ => pure (.arr #[Json.arr #[toJson 0, toJson 1]])
  | "tree.labels" => pure (.arr ((t.labels "").map Json.str).toArray)
  | "tree.bounds" => pure (.arr ((List.range (Rr * n)).map (fun k =>
        let b := t.bounds (k / n) (k % n); Json.arr #[rVal b.1, rVal b.2])).toArray)
  | _ => do
    let S ← jMat (← fld j "S")
    let P ← match fld? j "P" with | some pj => jMat pj | none => pure (fun _ _ => (0 : R))
    match op with
    | "tree.cost" => pure (rVal (t.cost S P))
    | "tree.dcost" => do
        let S0 ← jMat (← fld j "S0")
        pure (rVal (t.cost S P - t.cost S0 P))
    | "tree.deriv" => pure (rMat Rr n (t.deriv S P))
    | "tree.cons" => pure (.arr ((t.cons n).map (rCon Rr n S)).toArray)
    | "tree.map" => pure (.arr ((t.mapRows S).map (fun lr => Json.arr #[.str lr.1, rVec n lr.2])).toArray)
    | _ => throw s!"unknown op {op}"

/-- constraint list of a single leaf at a flow: type, value, Jacobian. -/
def leafConsOp (j : Json) : Except String Json := do
  let dj ← fld j "dev"
  let d ← jLeaf dj
  let cs ← jLeafCons dj d
  let s ← jVec (← fld j "s")
  pure (.arr (cs.map (fun c => Json.mkObj [("type", .str (if c.isEq then "eq" else "ineq")), ("val", rVal (c.fn s)),
    ("jac", match c.jac with | some jc => rVec d.n (jc s) | none => .null)])).toArray)

end DK.Driver
