import DK.Driver.Leaf
import DK.Model.Hess2
/-! `hess2.*`: the analytic Hessian of a leaf (closed form also where the source differentiates
numerically: storage and thermal devices).

* `hess2.leaf` `{"dev": leaf description, "s": flow}` → the `n × n` matrix `Leaf.hess2`
  (`sdevHess` / `tdevHess` for SDevice / TDevice, the `Leaf.hess` entries for the other classes);
  with `"diag": true` only its diagonal (a length-`n` vector) — what `TDevice.hess`, a documented
  diagonal approximation, claims. -/
namespace DK.Driver
open Lean DK

def hess2Op (op : String) (j : Json) : Except String Json := do
  let d ← jLeaf (← fld j "dev")
  let s ← jVec (← fld j "s")
  let diag := match fld? j "diag" with | some (.bool b) => b | _ => false
  match op with
  | "hess2.leaf" =>
      if diag then
        pure (.arr ((List.range d.n).map (fun i => rOpt (d.hess2 s i i))).toArray)
      else
        pure (.arr ((List.range d.n).map (fun i =>
          .arr ((List.range d.n).map (fun k => rOpt (d.hess2 s i k))).toArray)).toArray)
  | _ => throw s!"unknown op {op}"

end DK.Driver
