import DK.Driver.Main
def main : IO Unit := DK.Driver.main
