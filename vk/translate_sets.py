#!/usr/bin/env python3
"""T1s — translate the SET-LEVEL glue of device_kit (DeviceSet, MFDeviceSet, TwoRatioMFDeviceSet, SubBalancedDeviceSet,
BaseDevice.map, utils.zmm) into Lean.

Same tie as vk/translate_vec.py (T1v), one level up: regenerated on every check run from the current working tree
(DK_REPO, default /repo) into lean/DK/Gen/Sets/<Group>.lean (+ umbrella lean/DK/Gen/Sets.lean);
lean/DK/Lemmas/BridgeSets/<Group>.lean proves every generated unit equal to the model definition of DK/Model/Tree.lean
the tree theorems (C02, C04, C08, C13, C17) are about — for EVERY list of children, by induction over the list.

Denotation (on top of T1v's index functions).  The children of a set are an abstract list `devices : List (Child α)`;
a child is a record of its row count and of its `cost / deriv / hess / project` (functions of a flow / price row block),
its flat `bounds` table and its constraint list — parameters, exactly like the function objects of the GDevice / CDevice2
units of T1v.  The wrapped device of a multi-flow adaptor is a record `Dev α` over vectors.  Python lists / generators /
comprehensions over the children become Lean list terms (`List.map`, `List.zip`, `List.flatMap`, `++`); a constraint
dict `{'type', 'fun', 'jac'}` becomes an `MCon` record (`'eq'` ↦ `isEq := true`; the optional `'jac'` key ↦ `Option`).

Supported on top of the T1v subset (anything else: UNTRANSLATABLE with file:line, never guessed):
  `[e for d, i in zip(A, B)]`, `[e for d in A]`, `for … in zip(A, B) / A / range(a, b): acc += [e]` (nested) as
  `List.flatMap`, `if c: acc += … else: acc += …` on a scalar condition, `if self.x is not None:` on an optional
  attribute (`match`), `x[0] = v` on a list, `r[a:b, :] = M`, `r[:, i] = v`, `v[index_list] = c` (assignment touches the
  extent of the assigned value only), `M[a:b, :]`, `M[:, i]`, `M[r, i]`, `np.roll(x, 1)`, list `.cumsum()`, `np.vstack`,
  `np.concatenate`, `np.repeat(row, k, axis=0)`, `np.tile(v, k)`, `np.stack((a, b), axis=1)`, `(v < 0).any()`,
  `np.array(list of matrices).sum(axis=0)`, `list(...)`, `zip`, `enumerate`, tuples, dict displays of constraints,
  `if 'jac' in constraint: c['jac'] = lambda …` (`Option.map`), `super().constraints`, `self.<property>` of a base
  class that is itself a translated unit, module functions interpreted at the call site (`utils.zmm`: its body is
  partially evaluated with the static `axis` / `keep` / `fn` of each call, so an edit of zmm reaches every caller).
Modelling assumptions (trusted, cross-checked by T2): those of T1v, plus: a flat `(R·n,)` vector and the `(R, n)`
matrix it reshapes to are the same (row, slot)-indexed function (`reshape(shape)`, `reshape(flat_shape)`,
`reshape(i.shape)` are the identity; `np.tile(v, k)` of a length-n vector is the k-row matrix with every row `v`,
flat `np.repeat(v, k)` is `(r, i) ↦ v[(r·n+i) / k]`); `'eq'`/`'ineq'` are the only constraint types; generators
(`yield`) are the lists of what they yield; `MFDeviceSet.shape` is the inherited `DeviceSet.shape` of its conduits.
Outside the subset by nature (T2-only, listed in `T2_ONLY`): `re`, `dict()` de-duplication of qualified ids,
try/except-driven recursion of `leaf_devices`, numdifftools, constructors.

Soundness rules: those of vk/translate_vec.py (keywords, in-place operators, raw flows — here a flow matrix is flat or
(R, n) until `s.reshape(self.shape)` —, late-binding closures, bindings of unit names, pinned attribute definitions), plus:
a list accumulator may be extended (`+=`) but not rebound inside a loop / branch; a constraint Jacobian must be flattened
(`.reshape(flat_shape)` / np.tile); `np.array(list_of_offsets, dtype=int)` is the only dtype accepted on a list of naturals.
The group `LeafCons` translates the WHOLE bodies of `Device.constraints` and `SDevice.constraints` (guards, loops, dict types,
presence of 'jac') into `List (Con α)`, bridged to `deviceCons` / `sdeviceCons`.
"""
import ast, os, sys, hashlib, re

HERE = os.path.dirname(os.path.abspath(__file__))
if __name__ == '__main__' or __package__ in (None, ''):
  sys.path.insert(0, os.path.join(HERE, '..'))
  from vk import translate as T1, translate_vec as TV
else:
  from . import translate as T1, translate_vec as TV

REPO = os.environ.get('DK_REPO', '/repo')
GEN = os.path.join(HERE, '..', 'lean', 'DK', 'Gen')
Unsupported = T1.Unsupported
Val, S, I, N, V, M, lit, idx_add = TV.Val, TV.S, TV.I, TV.N, TV.V, TV.M, TV.lit, TV.idx_add

# ----------------------------------------------------------------------------------------------- configuration
FILES = {'DeviceSet': 'deviceset.py', 'MFDeviceSet': 'mfdeviceset.py', 'TwoRatioMFDeviceSet': 'tworatiomfdeviceset.py',
         'SubBalancedDeviceSet': 'subbalanceddeviceset.py', 'BaseDevice': 'basedevice.py', 'Device': 'device.py', 'SDevice': 'sdevice.py',
         None: 'utils.py'}
BASES = {'DeviceSet': ['BaseDevice'], 'MFDeviceSet': ['DeviceSet', 'BaseDevice'], 'SubBalancedDeviceSet': ['DeviceSet', 'BaseDevice'],
         'TwoRatioMFDeviceSet': ['MFDeviceSet', 'DeviceSet', 'BaseDevice'], 'BaseDevice': [], 'Device': [], 'SDevice': ['Device']}
# class -> ordered {attribute: kind}.  LCH list of children, OTAB optional (n,2) table, DEV wrapped device record,
# LLN list of row-index lists, LN row-index list, B bool, CT constraint type (isEq), S scalar, LSTR list of qualified ids
ATTRS = {
  # leaf classes: the WHOLE constraint list (loop bounds, guards, dict types, presence of 'jac') is translated here
  'Device': {'cbounds': 'LCB'},
  'SDevice': {'cbounds': 'LCB', 'c1': 'S', 'c2': 'S', 'c3': 'S', 'capacity': 'S', 'damage_depth': 'S', 'start': 'S', 'reserve': 'S',
              'efficiency': 'S', 'sustainment': 'S', 'rate_clip[0]': 'OS', 'rate_clip[1]': 'OS', 'lbounds': 'V', 'hbounds': 'V'},
  'BaseDevice': {'leaf_devices()': 'LLEAF', 'shape[0]': 'N'},
  'DeviceSet': {'devices': 'LCH', 'sbounds': 'OTAB'},
  'MFDeviceSet': {'_device': 'DEV', 'devices': 'LCH', 'sbounds': 'OTAB'},
  'TwoRatioMFDeviceSet': {'_device': 'DEV', 'devices': 'LCH', 'sbounds': 'OTAB', 'ratios[0]': 'S', 'ratios[1]': 'S', 'constraint_type': 'CT'},
  'SubBalancedDeviceSet': {'devices': 'LCH', 'sbounds': 'OTAB', 'labelled_sets': 'LLN', 'unlabelled_set': 'LN',
                           'apply_to_remaining': 'B', 'constraint_type': 'CT', 'sign': 'S'},
}
LEAN_TY = {'LCH': 'List (Child α)', 'OTAB': 'Option (Nat → α × α)', 'DEV': 'Dev α', 'LLN': 'List (List Nat)', 'LN': 'List Nat',
           'B': 'Bool', 'CT': 'Bool', 'S': 'α', 'LCB': 'List (CBound α)', 'OS': 'Option α', 'LSTR': 'List String', 'LLEAF': 'List (String × Child α)', 'M': 'Mat α', 'V': 'Nat → α', 'N': 'Nat', 'M1': 'Mat α'}
GROUPS = ['LeafCons', 'Shape', 'Cost', 'Bounds', 'Cons', 'MF', 'MFCons', 'SubBalanced', 'Map']


class U:
  def __init__(self, cls, fn, group, args=None, variant='', sub=None):
    self.cls, self.fn, self.group, self.args, self.variant, self.sub = cls, fn, group, args or {}, variant, sub
    self.flavor = 'vec' if cls in ('Device', 'SDevice') else 'mat'      # constraints over a flow vector / a flow matrix
    self.lean = cls + '_' + fn.strip('_') + ('_' + sub if sub else '') + ('_' + variant if variant else '')
    self.file = FILES[cls]
    self.key = (cls, fn, variant)
    self.mode = 'a'
    self.ok = False; self.params = []; self.ret = None; self.line = 0; self.calls = []


PV = {'': 'M', 'pvec': 'V', 'pscalar': 'S', 'prow': 'M1'}      # price shapes: (R,n) matrix, (n,) vector, scalar, (1,n) row
UNITS = (
  [U('Device', 'constraints', 'LeafCons'), U('SDevice', 'constraints', 'LeafCons')]
  + [U('DeviceSet', 'shapes', 'Shape'), U('DeviceSet', 'shape', 'Shape'), U('DeviceSet', 'partition', 'Shape'), U('DeviceSet', 'slices', 'Shape')]
  + [U('DeviceSet', f, 'Cost', {'s': 'M', 'p': k}, variant=v) for v, k in PV.items() for f in ('costv', 'cost', 'deriv')]
  + [U('DeviceSet', 'hess', 'Cost', {'s': 'M', 'p': 'M'})]
  + [U('DeviceSet', 'bounds', 'Bounds'), U('DeviceSet', 'project', 'Bounds', {'s': 'M'})]
  + [U('DeviceSet', 'constraints', 'Cons')]
  + [U('MFDeviceSet', 'cost', 'MF', {'s': 'M', 'p': 'M'}), U('MFDeviceSet', 'deriv', 'MF', {'s': 'M', 'p': 'M'}),
     U('MFDeviceSet', 'hess', 'MF', {'s': 'M'}), U('MFDeviceSet', 'project', 'MF', {'s': 'M'}),
     U('MFDeviceSet', '__init__', 'MF', {'device': 'DEV'}, sub='bounds')]
  + [U('MFDeviceSet', 'constraints', 'MFCons'), U('TwoRatioMFDeviceSet', 'constraints', 'MFCons')]
  + [U('SubBalancedDeviceSet', 'constraints', 'SubBalanced')]
  + [U('BaseDevice', 'map', 'Map', {'s': 'M'})]
)

T2_ONLY = [
  ('BaseDevice.leaf_devices', 'basedevice.py', 'generator recursion driven by try/except over the iteration protocol (a parameter `leaf_devices : List String` of `map`)'),
  ('BaseDevice.get / find', 'basedevice.py', '`dict()` de-duplication of qualified ids, `str.endswith` / `re.match` on them'),
  ('SubBalancedDeviceSet._labelled_sets', 'subbalanceddeviceset.py', '`re.match`, `set` arithmetic (the row-index lists are parameters of `constraints`)'),
  ('DeviceSet.__init__ / sbounds setter, MFDeviceSet.__init__ (except its bounds rule), TwoRatioMFDeviceSet.__init__', 'deviceset.py, mfdeviceset.py, tworatiomfdeviceset.py', 'constructors: regex id check, np.vectorize(len), object construction'),
  ('DeviceSet.lbounds / hbounds, to_str, to_dict, mapDevices', '…', 'column views of `bounds` / printing / serialisation (C16) / the same body as `map`'),
]


def lname(x):
  x = re.sub(r'\[(\d+)\]', r'_\1', x).replace('()', '').lstrip('_')
  return x + '_' if x in TV.LEAN_RESERVED | {'r', 'id'} else x


# ----------------------------------------------------------------------------------------------- translation of one unit
def LL(parts, et):
  return Val('LL', parts=list(parts), et=et)


def ll_term(v):
  if not v.parts: return '[]'
  return v.parts[0] if len(v.parts) == 1 else '(' + ' ++ '.join(v.parts) + ')'


class SCtx(TV.Ctx):
  """T1v's expression translator + Lean lists, children, constraint records."""

  def __init__(self, tu, unit, cls_node):
    super().__init__(tu, unit, cls_node)
    self.hof_used = set(); self.extra_params = []
    self.nx = 0
    self.unstable = set()        # names the unit's body rebinds (closures over them are late-binding)
    self.lambda_bound = set()    # parameters of the lambdas being evaluated

  def ew(self, f, vals, ek=None):
    # a (1, n) matrix broadcasts along the rows of a full matrix operand
    ms = [v for v in vals if v.kind == 'M']
    full = [v for v in ms if not getattr(v, 'row1', False)]
    if full or any(v.kind == 'C' for v in vals):
      vals = [M((lambda w: lambda i, j: w.elem('0', j))(v), None, v.cols, v.ek) if (v.kind == 'M' and getattr(v, 'row1', False)) else v for v in vals]
    r = super().ew(f, vals, ek)
    if r.kind == 'M':
      if full: r.rows = next((v.rows for v in full if v.rows is not None), None)
      elif ms: r.row1 = True; r.rows = '1'
      if r.cols is None: r.cols = next((v.cols for v in ms if v.cols is not None), None)
    return r

  def fx(self, stem='x'):
    self.nx += 1
    return '%s%d' % (stem, self.nx)

  # ---------------------------------------------------------------- attributes of self (with base classes)
  def mro(self):
    return [self.unit.cls] + BASES[self.unit.cls]

  def attr_val(self, name, kind):
    ln = lname(name)
    if kind == 'LCH': return LL([ln], 'CH')
    if kind == 'LCB': return LL([ln], 'CB')
    if kind == 'OS': return Val('OPT', term=ln, inner='S')
    if kind == 'V': return self.paren_elem(V((lambda a: lambda i: '%s %s' % (a, i))(ln), 'n', 'a', atom=ln))
    if kind == 'OTAB': return Val('OPT', term=ln, inner='TAB')
    if kind == 'DEV': return Val('DEV', term=ln)
    if kind == 'LLN': return LL([ln], 'LN')
    if kind == 'LN': return Val('IDX', term=ln)
    if kind in ('B', 'CT'): return Val('BOOL', term=ln, ct=(kind == 'CT'))
    if kind == 'S': return S(ln)
    if kind == 'N': return N(ln)
    if kind == 'LSTR': return LL([ln], 'STR')
    if kind == 'LLEAF': return LL([ln], ('T', 'STR', 'CH'))      # (qualified id, leaf object)
    raise Unsupported('attribute kind ' + kind)

  def self_attr(self, name):
    if name in self.attr_cache: return self.attr_cache[name]
    table = ATTRS[self.unit.cls]
    if name in table:
      if self.unit.cls != 'BaseDevice': TV.check_pin(self.tu.classes, self.unit.cls, name)
      v = self.attr_val(name, table[name])
    elif name == 'shape' and 'shape[0]' in table:
      v = Val('T', items=[N(lname('shape[0]')), N('n')])
    elif name == 'ratios' and 'ratios[0]' in table:
      v = Val('T', items=[self.attr_val('ratios[0]', 'S'), self.attr_val('ratios[1]', 'S')])
    else:
      u = None
      for c in self.mro():
        u = self.tu.units.get((c, name, self.unit.variant)) or self.tu.units.get((c, name, ''))
        if u is not None: break
      if u is not None: v = self.call_unit_s(u, {})
      elif self.unit.cls in TV.ATTRS:
        # a leaf class: simple properties / attributes assigned once in __init__ (a cached matrix …) as in T1v
        saved, self.enclosing = self.enclosing, None
        try:
          v = TV.Ctx.self_attr_(self, name)
        finally:
          self.enclosing = saved
      else: raise Unsupported('attribute self.%s' % name)
    self.attr_cache[name] = v
    return v

  # ---------------------------------------------------------------- calls of other units
  def call_unit_s(self, u, argvals):
    if u.lean not in self.unit.calls: self.unit.calls.append(u.lean)
    if not u.ok: raise Unsupported('callee %s is untranslatable' % u.lean)
    mine = ATTRS[self.unit.cls]
    parts = [u.lean, 'n']
    for a in ATTRS[u.cls]:
      if a not in mine: raise Unsupported('callee %s needs attribute %s' % (u.lean, a))
      parts.append(lname(a))
    for p_, k in u.params:
      if p_ not in argvals: raise Unsupported('missing argument %s of %s' % (p_, u.lean))
      parts.append(self.arg_s(argvals[p_], k))
    return self.from_ret('(' + ' '.join(parts) + ')', u.ret)

  def arg_s(self, v, kind):
    if kind in ('M', 'M1'):
      if v.kind != 'M': raise Unsupported('matrix argument expected, got ' + v.kind)
      return v.atom if getattr(v, 'atom', None) else self.mat_term(v)
    if kind == 'V': return self.vec_term(v)
    if kind == 'S': return self.sc(v, 'a')
    if kind == 'DEV' and v.kind == 'DEV': return v.term
    raise Unsupported('argument kind ' + kind)

  def from_ret(self, head, ret):
    k = ret[0]
    if k == 'S': return S(head)
    if k == 'N': return N(head)
    if k == 'M': return M(lambda i, j: '(%s %s %s)' % (head, i, j), ret[1], ret[2])
    if k == 'V': return V(lambda i: '(%s %s)' % (head, i), ret[1])
    if k == 'LL':
      r = LL([head], ret[1]); r.unit_result = True      # a translated unit builds a new list on every call
      return r
    if k == 'T2N': return Val('T', items=[N('%s.1' % head), N('%s.2' % head)])
    if k == 'TAB': return Val('TAB', elem=lambda i: '(%s %s)' % (head, i), length=ret[1])
    raise Unsupported('callee result kind ' + k)

  # ---------------------------------------------------------------- expressions
  def ev(self, e, env):
    if isinstance(e, ast.Lambda):
      late = sorted((TV.free_names(e) & self.unstable) - self.lambda_bound)
      if late: raise Unsupported('late-binding closure: `%s` is rebound by the enclosing function and not captured as a default argument' % '`, `'.join(late))
    if isinstance(e, ast.Constant) and isinstance(e.value, str): return Val('STRLIT', term=e.value)
    if isinstance(e, ast.Dict): return self.dict_con(e, env)
    if isinstance(e, ast.IfExp):
      c = self.cond(e.test, env)
      if c is True: return self.ev(e.body, env)
      if c is False: return self.ev(e.orelse, env)
      a, b = self.ev(e.body, env), self.ev(e.orelse, env)
      if a.kind == 'LL' and b.kind == 'LL': return LL(['(if %s then %s else %s)' % (c, ll_term(a), ll_term(b))], a.et if a.parts else b.et)
      return self.ite(c, a, b)
    if isinstance(e, ast.Attribute) and not (isinstance(e.value, ast.Name) and e.value.id in ('self', 'np')):
      b = self.ev(e.value, env)
      if b.kind == 'CH':
        if e.attr == 'shape': return Val('T', items=[N('%s.rows' % b.term), N('n')])
        if e.attr == 'bounds': return Val('TAB', elem=lambda i: '(%s.bounds %s)' % (b.term, i), length='(%s.rows * n)' % b.term)
        if e.attr == 'constraints': return LL(['%s.cons' % b.term], 'MCON')
        if e.attr == 'id': return Val('STR', term='%s.id' % b.term)
        raise Unsupported('child attribute .' + e.attr)
      if b.kind == 'DEV':
        if e.attr in ('lbounds', 'hbounds'): return V((lambda t, a: lambda i: '(%s.%s %s)' % (t, a, i))(b.term, e.attr), 'n')
        if e.attr == 'constraints': return LL(['%s.cons' % b.term], 'VCON')
        if e.attr == 'bounds': return Val('TAB', elem=lambda i: '(%s.lbounds %s, %s.hbounds %s)' % (b.term, i, b.term, i), length='n')
        raise Unsupported('device attribute .' + e.attr)
      if e.attr == 'shape' and b.kind == 'M':
        if b.raw or b.rows is None or b.cols is None: raise Unsupported('shape of a flow that was not reshaped')
        return Val('T', items=[N(b.rows), N(b.cols)])
      if e.attr == 'shape' and b.kind == 'V': return Val('T', items=[N(b.length or '?')])
    if isinstance(e, ast.Tuple):
      return Val('T', items=[self.ev(x, env) for x in e.elts])
    if isinstance(e, ast.List):
      items = [self.ev(x, env) for x in e.elts]
      if items and all(x.kind in ('CON', 'IDX', 'CONV') for x in items):
        et = {'CON': 'MCON', 'CONV': 'MCON', 'IDX': 'LN'}[items[0].kind]
        return LL(['[%s]' % ', '.join(self.elem_term(x) for x in items)], et)
      if not items: return LL([], None)
    if isinstance(e, ast.BinOp) and isinstance(e.op, ast.Add):
      a, b = self.ev(e.left, env), self.ev(e.right, env)
      if a.kind == 'LL' and b.kind == 'LL':
        if a.et == 'N' and b.et == 'N':     # numpy int arrays: elementwise
          return LL(['(List.zipWith (· + ·) %s %s)' % (ll_term(a), ll_term(b))], 'N')
        return LL(a.parts + b.parts, a.et or b.et)
      return self.bop(e.op, a, b)
    return super().ev(e, env)

  def elem_term(self, v):
    """Lean term of a value used as a list element / tuple component."""
    if v.kind == 'CON': return self.con_term(v)
    if v.kind in ('CONV', 'IDX', 'CH', 'STR', 'PR'): return v.term
    if v.kind in 'SIN': return self.sc(v, 'n' if v.kind in 'IN' and v.kind != 'S' else 'a') if v.kind != 'S' else v.term
    if v.kind == 'T': return '(' + ', '.join(self.elem_term(x) for x in v.items) + ')'
    if v.kind == 'V': return self.vec_term(v)
    if v.kind == 'M': return self.mat_term(v)
    raise Unsupported('list element of kind ' + v.kind)

  def et_of(self, v):
    if v.kind == 'CON' or v.kind == 'CONV': return 'MCON'
    if v.kind in 'IN': return 'N'
    if v.kind == 'S': return 'S'
    if v.kind == 'T': return ('T',) + tuple(self.et_of(x) for x in v.items)
    if v.kind == 'CH': return 'CH'
    if v.kind == 'STR': return 'STR'
    if v.kind == 'M': return ('BLK', v.rows)
    if v.kind == 'V': return 'VEC'
    if v.kind == 'PR': return v.et
    raise Unsupported('list element of kind ' + v.kind)

  def bind_elem(self, term, et):
    """a Python value for a Lean variable / projection `term` of element type `et`."""
    if et == 'CH': return Val('CH', term=term)
    if et == 'CB': return Val('CB', term=term)
    if et == 'N': return N(term)
    if et == 'S': return S(term)
    if et == 'STR': return Val('STR', term=term)
    if et == 'MCON': return Val('CONV', term=term, flavor='mat')
    if et == 'VCON': return Val('CONV', term=term, flavor='vec')
    if et == 'LN': return Val('IDX', term=term)
    if isinstance(et, tuple) and et[0] == 'T':
      comps = et[1:]
      items = []
      for k, c in enumerate(comps):
        proj = term + ('.1' if k == 0 else '.2' if len(comps) == 2 else None)
        if len(comps) != 2: raise Unsupported('tuples of %d components' % len(comps))
        items.append(self.bind_elem('%s' % proj, c))
      return Val('T', items=items, term=term, et=et)
    raise Unsupported('iteration over elements of type %r' % (et,))

  def iter_source(self, it, env):
    """the Lean list a `for` / comprehension iterates over: (lean list term, element type)."""
    if isinstance(it, ast.Call) and isinstance(it.func, ast.Name) and it.func.id == 'zip' and len(it.args) == 2 and not it.keywords:
      a, at = self.iter_source(it.args[0], env); b, bt = self.iter_source(it.args[1], env)
      return '(List.zip %s %s)' % (a, b), ('T', at, bt)
    if isinstance(it, ast.Call) and isinstance(it.func, ast.Name) and it.func.id == 'enumerate' and len(it.args) == 1 and not it.keywords:
      a, at = self.iter_source(it.args[0], env)
      return '(List.zip (List.range (List.length %s)) %s)' % (a, a), ('T', 'N', at)
    if isinstance(it, ast.Call) and isinstance(it.func, ast.Name) and it.func.id == 'list' and len(it.args) == 1:
      return self.iter_source(it.args[0], env)
    rg = self.range_args(it, env) if isinstance(it, ast.Call) and isinstance(it.func, ast.Name) and it.func.id == 'range' else None
    if rg is not None:
      lo, hi = rg
      if lo != '0': raise Unsupported('range with a non-zero start as an iteration source')
      return '(List.range %s)' % hi, 'N'
    v = self.ev(it, env)
    if v.kind == 'LL': return ll_term(v), v.et
    raise Unsupported('iteration over a value of kind ' + v.kind)

  def bind_target(self, target, term, et, env):
    env = dict(env)
    if isinstance(target, ast.Name):
      env[target.id] = self.bind_elem(term, et)
      return env
    if isinstance(target, ast.Tuple) and isinstance(et, tuple) and et[0] == 'T' and len(target.elts) == len(et) - 1 == 2:
      for k, t in enumerate(target.elts):
        env = self.bind_target(t, term + ('.1' if k == 0 else '.2'), et[1 + k], env)
      return env
    raise Unsupported('loop / comprehension target')

  def listcomp(self, e, env):
    if len(e.generators) == 1 and not e.generators[0].ifs:
      g = e.generators[0]
      src = None
      if isinstance(g.iter, ast.Call) and isinstance(g.iter.func, ast.Name) and g.iter.func.id in ('zip', 'enumerate') \
         and not (g.iter.func.id == 'enumerate' and self.is_array(g.iter.args[0], env)):
        src, et = self.iter_source(g.iter, env)
      else:
        try:
          v0 = self.ev(g.iter, env)
          if v0.kind == 'LL': src, et = ll_term(v0), v0.et
        except Unsupported:
          src = None
      if src is not None:
        x = self.fx()
        env2 = self.bind_target(g.target, x, et, env)
        v = self.ev(e.elt, env2)
        return LL(['(List.map (fun %s => %s) %s)' % (x, self.elem_term(v), src)], self.et_of(v))
    return super().listcomp(e, env)

  def is_array(self, node, env):
    try:
      return self.ev(node, env).kind in ('V', 'M')
    except Unsupported:
      return False

  def subscript(self, e, env):
    # self.sbounds[i][0] … on the table bound by `match`
    if (isinstance(e.value, ast.Attribute) and isinstance(e.value.value, ast.Name) and e.value.value.id == 'self'
        and isinstance(e.slice, ast.Constant) and '%s[%s]' % (e.value.attr, e.slice.value) in ATTRS.get(self.unit.cls, {})):
      return self.self_attr('%s[%s]' % (e.value.attr, e.slice.value))
    b = self.ev(e.value, env)
    sl = e.slice
    if b.kind == 'CONV':
      if isinstance(sl, ast.Constant) and sl.value == 'type': return Val('BOOL', term='%s.isEq' % b.term, ct=True)
      if isinstance(sl, ast.Constant) and sl.value == 'fun': return Val('FN', term='%s.fn' % b.term, sig=b.flavor + '2s')
      if isinstance(sl, ast.Constant) and sl.value == 'jac':
        j = env.get('__jac__' + b.term)
        if j is None: raise Unsupported("constraint['jac'] read outside `if 'jac' in constraint`")
        return j
      raise Unsupported('constraint key')
    if b.kind == 'T' and getattr(b, 'term', None) is None:
      ix = self.ev(sl, env)
      if ix.kind == 'I' and 0 <= ix.term < len(b.items): return b.items[ix.term]
      raise Unsupported('tuple index')
    if b.kind == 'T':
      ix = self.ev(sl, env)
      if ix.kind == 'I' and 0 <= ix.term < len(b.items): return b.items[ix.term]
      raise Unsupported('tuple index')
    if b.kind == 'TAB':
      ix = self.ev(sl, env)
      if ix.kind not in 'IN': raise Unsupported('table index')
      it = self.sc(ix, 'n')
      return Val('T', items=[S('%s.1' % b.elem(it)), S('%s.2' % b.elem(it))])
    if b.kind == 'LL' and isinstance(sl, ast.Tuple) and len(sl.elts) == 2 and isinstance(sl.elts[0], ast.Slice) and sl.elts[0].lower is None \
       and sl.elts[0].upper is None and isinstance(b.et, tuple) and b.et[0] == 'T' and len(b.et) == 3:
      ix = self.ev(sl.elts[1], env)      # shapes[:, 0]: a column of a list of pairs
      if ix.kind == 'I' and ix.term in (0, 1):
        return LL(['(List.map %s %s)' % ('Prod.fst' if ix.term == 0 else 'Prod.snd', ll_term(b))], b.et[1 + ix.term])
      raise Unsupported('column of a list of pairs')
    if b.kind == 'M' and b.raw: raise Unsupported('index / slice of a flow that was not reshaped to self.shape')
    if b.kind == 'M' and isinstance(sl, ast.Tuple) and len(sl.elts) == 2:
      r_, c_ = sl.elts
      full = lambda x: isinstance(x, ast.Slice) and x.lower is None and x.upper is None and x.step is None
      if isinstance(r_, ast.Slice) and full(c_):            # M[a:b, :]
        if r_.step is not None or r_.lower is None or r_.upper is None: raise Unsupported('row slice form')
        a, hi = self.ev(r_.lower, env), self.ev(r_.upper, env)
        if a.kind not in 'IN' or hi.kind not in 'IN': raise Unsupported('row slice bounds')
        at, ht = self.sc(a, 'n'), self.sc(hi, 'n')
        me = b.elem
        rows = '(%s - %s)' % (ht, at)
        m = re.fullmatch(r'\((.+) \+ (.+)\)', ht)
        if m and m.group(1) == at: rows = m.group(2)
        if getattr(b, 'row1', False): rows = '(min %s 1 - %s)' % (ht, at)      # numpy clips the slice to the one row there is
        return M(lambda i, j: me(idx_add2(at, i), j), rows, b.cols, b.ek)
      if full(r_):                                           # M[:, i] / M[:, keep]
        ix = self.ev(c_, env)
        if ix.kind in 'IN':
          it = self.sc(ix, 'n'); me = b.elem
          return V(lambda r: me(r, it), b.rows, b.ek)
        raise Unsupported('column index of kind ' + ix.kind)
      ra = self.ev(r_, env)
      if ra.kind == 'RANGE' and full(c_):                  # M[range(a, b), :]
        me = b.elem; at = ra.lo
        rows = '(%s - %s)' % (ra.hi, ra.lo)
        m = re.fullmatch(r'\((.+) \+ (.+)\)', ra.hi)
        if m and m.group(1) == at: rows = m.group(2)
        return M(lambda i, j: me(idx_add2(at, i), j), rows, b.cols, b.ek)
      ca = self.ev(c_, env)                                # M[r, i]
      if ra.kind in 'IN' and ca.kind in 'IN': return S(b.elem(self.sc(ra, 'n'), self.sc(ca, 'n')), b.ek)
      raise Unsupported('matrix index form')
    return super().subscript(e, env)

  # ---------------------------------------------------------------- conditions
  def cond(self, e, env):
    if isinstance(e, ast.Compare) and len(e.ops) == 1 and isinstance(e.ops[0], (ast.IsNot, ast.Is)) \
       and isinstance(e.comparators[0], ast.Constant) and e.comparators[0].value is None:
      v = self.ev(e.left, env)
      if v.kind == 'OPT': return ('opt', v, isinstance(e.ops[0], ast.IsNot))
      return isinstance(e.ops[0], ast.IsNot)          # a bound value is not None
    if isinstance(e, ast.Compare) and len(e.ops) == 1 and isinstance(e.ops[0], ast.In) and isinstance(e.left, ast.Constant) and e.left.value == 'jac':
      v = self.ev(e.comparators[0], env)
      if v.kind == 'CONV': return ('jac', v)
      raise Unsupported("'jac' in a value of kind " + v.kind)
    if isinstance(e, (ast.Name, ast.Attribute, ast.Subscript)):
      v = self.ev(e, env)
      if v.kind in ('F', 'FN'): return True                # `if fn` on a supplied callable
      if v.kind == 'BOOL': return '%s = true' % v.term
      if v.kind == 'LL': return '%s.isEmpty = false' % ll_term(v)      # truth value of a list
      if v.kind == 'OPT' and v.inner == 'S': return ('optnz', v)          # truth value of `None | number`: not None and not 0
      raise Unsupported('truth value of kind ' + v.kind)
    if isinstance(e, ast.Call) and isinstance(e.func, ast.Attribute) and e.func.attr == 'any' and not e.args:
      v = self.ev(e.func.value, env)
      if v.kind == 'PV' and v.length is not None:
        k = self.fx('k')
        return '(List.range %s).any (fun %s => decide (%s)) = true' % (v.length, k, v.elem(k))
      raise Unsupported('.any() of kind ' + v.kind)
    if isinstance(e, ast.Compare) and len(e.ops) == 1:
      a, b = self.ev(e.left, env), self.ev(e.comparators[0], env)
      if a.kind == 'V' and b.kind in 'IS':
        sym = {ast.Lt: '<', ast.Gt: '>', ast.LtE: '≤', ast.GtE: '≥'}.get(type(e.ops[0]))
        if sym: raise Unsupported('vector comparison as a condition (use .any())')
    return super().cond(e, env)

  # ---------------------------------------------------------------- calls
  def call(self, e, env):
    f = e.func
    if isinstance(f, ast.Name):
      if f.id == 'len' and len(e.args) == 1 and isinstance(e.args[0], ast.Name) and e.args[0].id in env \
         and isinstance(env[e.args[0].id], Val) and env[e.args[0].id].kind == 'DEV':
        return N('n')
      if f.id == 'list' and len(e.args) == 1 and not e.keywords:
        a = e.args[0]
        if isinstance(a, ast.Call) and isinstance(a.func, ast.Name) and a.func.id == 'zip':
          src, et = self.iter_source(a, env)
          return LL([src], et)
        return self.ev(a, env)
      if f.id == 'range' and len(e.args) == 2 and not e.keywords:
        lo, hi = self.ev(e.args[0], env), self.ev(e.args[1], env)
        return Val('RANGE', lo=self.sc(lo, 'n'), hi=self.sc(hi, 'n'))
      if f.id == 'super' or f.id == 'zmm' and False: pass
      if f.id in self.tu.shadow.get(self.unit.file, ()) and f.id not in env:
        raise Unsupported('`%s` is redefined / imported from elsewhere in %s' % (f.id, self.unit.file))
      if (None, f.id) in self.tu.tainted and f.id not in env:
        raise Unsupported('the `def` is not what the name denotes: ' + self.tu.tainted[(None, f.id)])
      fn = self.tu.funcs.get(f.id) if (None, f.id, None) not in self.tu.units else None
      if fn is not None and f.id not in env:
        # a module function of utils.py interpreted at the call site (partial evaluation with this call's arguments)
        tag = 'utils_' + f.id
        if tag not in self.unit.calls: self.unit.calls.append(tag)
        return self.apply(Val('F', node=fn, env={}), e, env)
    if (isinstance(f, ast.Attribute) and f.attr == 'fget' and isinstance(f.value, ast.Attribute) and isinstance(f.value.value, ast.Name)
        and f.value.value.id in BASES.get(self.unit.cls, []) and len(e.args) == 1 and isinstance(e.args[0], ast.Name) and e.args[0].id == 'self' and not e.keywords):
      u = self.tu.units.get((f.value.value.id, f.value.attr, ''))      # Base.prop.fget(self): the base class's property
      if u is None: raise Unsupported('%s.%s is not a translated unit' % (f.value.value.id, f.value.attr))
      return self.call_unit_s(u, {})
    if isinstance(f, ast.Attribute):
      # super().constraints is an Attribute, not a call; child / device methods:
      if not (isinstance(f.value, ast.Name) and f.value.id in ('self', 'np')):
        b = self.ev(f.value, env)
        if b.kind == 'CH': return self.child_call(b, f.attr, e, env)
        if b.kind == 'DEV': return self.dev_call(b, f.attr, e, env)
        if b.kind == 'LL' and f.attr == 'cumsum' and not e.args and not e.keywords and b.et == 'N': return LL(['(cumsum %s)' % ll_term(b)], 'N')
        if b.kind == 'LL' and f.attr == 'sum' and isinstance(b.et, tuple) and b.et[0] == 'T' and len(b.et) == 3:
          ax = [k for k in e.keywords if k.arg == 'axis']
          if len(ax) == 1 and self.ev(ax[0].value, env).kind == 'I' and self.ev(ax[0].value, env).term == 0 and b.et[1:] == ('N', 'N'):
            t = ll_term(b)
            return Val('T', items=[N('(lsum (List.map Prod.fst %s))' % t), N('(lsum (List.map Prod.snd %s))' % t)])
          raise Unsupported('sum of a list of pairs')
        if b.kind == 'LL' and f.attr == 'sum' and isinstance(b.et, tuple) and b.et[0] == 'BLK':
          ax = [k for k in e.keywords if k.arg == 'axis']
          if len(ax) == 1 and self.ev(ax[0].value, env).kind == 'I' and self.ev(ax[0].value, env).term == 0:
            t = ll_term(b)
            return M(lambda i, j: '(msum %s %s %s)' % (t, i, j), 'n', 'n')
          raise Unsupported('sum of a list of matrices over this axis')
        if b.kind == 'LL' and f.attr == 'sum' and not e.args and not e.keywords and b.et == 'S':
          return S('(lsum %s)' % ll_term(b))
        if b.kind == 'M' and f.attr == 'reshape': return self.reshape_m(b, e, env)
        if b.kind == 'V' and f.attr == 'reshape':
          args = [self.ev(a, env) for a in e.args]
          dims = args[0].items if len(args) == 1 and args[0].kind == 'T' else args
          if len(dims) == 2 and dims[0].kind == 'I' and dims[0].term == 1 and dims[1].kind == 'N':
            be = b.elem
            return M(lambda i, j: be(j), '1', b.length, b.ek, row1=True)       # a (1, n) row
          if len(dims) == 1 and dims[0].kind == 'N' and not b.raw and b.length is not None and TV.norm_len(dims[0].term) != TV.norm_len(b.length):
            # `fn(i).reshape(i.shape)` in utils.zmm for a *constructed* column (np.ones(k), np.array([r0, -r1])): the column
            # has the extent the caller built it with (numpy raises unless that equals the column it replaces)
            r = V(b.elem, b.length, b.ek); r.made = b.made
            return r
        if b.kind == 'FN' or b.kind == 'F': pass
        if b.kind == 'PV': pass
        return self.method(b, f.attr, e, env)
      if isinstance(f.value, ast.Name) and f.value.id == 'self':
        for c in self.mro():
          u = self.tu.units.get((c, f.attr, self.unit.variant)) or self.tu.units.get((c, f.attr, ''))
          if u is not None:
            names = [p_ for p_, k in u.params]
            return self.call_unit_s(u, self.kw(e, names, env))
        if f.attr == 'leaf_devices' and 'leaf_devices()' in ATTRS[self.unit.cls]: return self.attr_val('leaf_devices()', 'LLEAF')
        if self.unit.cls in TV.ATTRS and not e.args and not e.keywords:
          # a parameterless helper method of a leaf class (`self.base()`): its body is interpreted at the call
          m_ = self.find_method(f.attr)
          key = (self.unit.cls, f.attr)
          if m_ is not None and key not in self.tu.tainted and (self.unit.cls, '*') not in self.tu.tainted:
            tag = '%s_%s' % key
            if tag not in self.unit.calls: self.unit.calls.append(tag)
            saved, self.enclosing = self.enclosing, None
            try:
              return self.run(m_.body, {})
            finally:
              self.enclosing = saved
    return super().call(e, env)

  def apply(self, fv, e, env):
    if fv.kind == 'FN':
      if e.keywords or len(e.args) != 1: raise Unsupported('call of a constraint function')
      x = self.ev(e.args[0], env)
      if fv.sig == 'mat2s': return S('(%s %s)' % (fv.term, self.arg_s(x, 'M')))
      if fv.sig == 'vec2s': return S('(%s %s)' % (fv.term, self.vec_term(x)))
      if fv.sig == 'mat2m':
        xt = self.arg_s(x, 'M')
        return M(lambda i, j: '(%s %s %s %s)' % (fv.term, xt, i, j), x.rows, x.cols)
      if fv.sig == 'vec2v':
        xt = self.vec_term(x)
        return V(lambda i: '(%s %s %s)' % (fv.term, xt, i), x.length)
      raise Unsupported('function signature ' + fv.sig)
    return super().apply(fv, e, env)

  def child_call(self, ch, meth, e, env):
    args = [self.ev(a, env) for a in e.args]
    if e.keywords: raise Unsupported('keyword arguments of a child method')
    t = ch.term
    def blk(v):      # a block is handed over with its row extent
      if v.kind != 'M': raise Unsupported('matrix argument expected, got ' + v.kind)
      if v.rows is None: raise Unsupported('block of unknown row count handed to a child')
      return '%s %s' % (v.rows if re.fullmatch(r'[\w.]+', v.rows) else '(%s)' % v.rows.strip('()') if False else v.rows, self.arg_s(v, 'M'))
    if meth in ('cost', 'deriv', 'hess') and len(args) == 2:
      a, b = blk(args[0]), blk(args[1])
      if meth == 'cost': return S('(%s.cost %s %s)' % (t, a, b))
      if meth == 'deriv': return M(lambda i, j: '(%s.deriv %s %s %s %s)' % (t, a, b, i, j), '%s.rows' % t, 'n')
      return M(lambda i, j: '(%s.hess %s %s %s %s)' % (t, a, b, i, j), 'n', 'n')
    if meth == 'project' and len(args) == 1:
      a = blk(args[0])
      return M(lambda i, j: '(%s.project %s %s %s)' % (t, a, i, j), '%s.rows' % t, 'n')
    raise Unsupported('child method ' + meth)

  def dev_call(self, dv, meth, e, env):
    args = [self.ev(a, env) for a in e.args]
    if e.keywords: raise Unsupported('keyword arguments of a device method')
    t = dv.term
    def price(v):
      if v.kind == 'I' and v.term == 0: return '(fun _ => (0 : α))'
      return self.vec_term(v)
    if meth in ('cost', 'deriv', 'hess') and len(args) == 2:
      a, b = self.vec_term(args[0]), price(args[1])
      if meth == 'cost': return S('(%s.cost %s %s)' % (t, a, b))
      if meth == 'deriv': return V(lambda i: '(%s.deriv %s %s %s)' % (t, a, b, i), 'n')
      return M(lambda i, j: '(%s.hess %s %s %s %s)' % (t, a, b, i, j), 'n', 'n')
    if meth == 'project' and len(args) == 1:
      a = self.vec_term(args[0])
      return M(lambda i, j: '(%s.project %s %s)' % (t, a, j), '1', 'n', row1=True)      # Device.project returns its (1, n) shape
    raise Unsupported('device method ' + meth)

  def reshape_m(self, b, e, env):
    if e.keywords: raise Unsupported('keyword %s= of .reshape() is not modelled (order= changes which entry goes where)' % e.keywords[0].arg)
    args = [self.ev(a, env) for a in e.args]
    dims = args[0].items if len(args) == 1 and args[0].kind == 'T' else args
    if len(dims) == 2 and all(d.kind in 'IN' for d in dims):
      return M(b.elem, self.sc(dims[0], 'n'), self.sc(dims[1], 'n'), b.ek, atom=getattr(b, 'atom', None))      # no longer raw
    if len(dims) == 1 and dims[0].kind == 'N':
      if getattr(b, 'row1', False) or b.rows in ('1', '(1 : Nat)'):          # a (1, n) row back to a vector / a row matrix flattened
        be = b.elem
        return V(lambda i: be('0', i), b.cols, b.ek)
      r = M(b.elem, b.rows, b.cols, b.ek); r.flat = True        # (R, n) -> flat (R·n,): the same (row, slot)-indexed function,
      return r                                                 # remembered as flat (a constraint Jacobian must be)
    raise Unsupported('reshape of a matrix to this shape')

  def method(self, b, m, e, env):
    if b.kind == 'M' and b.raw and m != 'reshape': raise Unsupported('.%s() of a flow that was not reshaped to self.shape' % m)
    if b.kind == 'M' and m == 'sum' and not e.args and not e.keywords and (b.rows is None or b.cols is None):
      raise Unsupported('sum of a matrix of unknown shape')
    return super().method(b, m, e, env)

  SETS_KW = {'array': ('dtype',), 'repeat': ('axis',), 'stack': ('axis',)}

  def numpy(self, fn, e, env):
    if fn in ('array', 'vstack', 'concatenate', 'roll', 'repeat', 'tile', 'stack'):
      args = [self.ev(a, env) for a in e.args]
      if fn == 'array' and not (len(args) == 1 and args[0].kind in ('LL', 'L')): return super().numpy(fn, e, env)
      def natlist(v):
        return v.kind == 'LL' and (v.et == 'N' or (isinstance(v.et, tuple) and v.et[0] == 'T' and all(x == 'N' for x in v.et[1:])))
      for k in e.keywords:
        if k.arg is None or k.arg not in self.SETS_KW.get(fn, ()): raise Unsupported('keyword %s= of np.%s is not modelled' % (k.arg, fn))
        if k.arg == 'dtype':
          # float for values; `int` (int64) only for a list of row counts / offsets, which are naturals anyway
          ok = (isinstance(k.value, ast.Name) and k.value.id == 'int') if natlist(args[0]) else TV.is_float_dtype(k.value)      # (float offsets cannot index)
          if not ok: raise Unsupported('np.array with this dtype is not the same list of numbers')
      kws = {k.arg: (self.ev(k.value, env) if k.arg != 'dtype' else None) for k in e.keywords}
      if fn == 'array' and len(args) == 1 and args[0].kind == 'LL' and set(kws) <= {'dtype'}: return args[0]
      if fn == 'array' and len(args) == 1 and args[0].kind == 'L' and not kws:      # np.array([r0, -r1])
        return self.concat(args[0].pieces)
      if fn == 'vstack' and len(args) == 1 and args[0].kind == 'LL' and isinstance(args[0].et, tuple) and args[0].et[0] == 'BLK':
        t = ll_term(args[0])
        return M(lambda i, j: '(vstack %s %s %s)' % (t, i, j), None, 'n')
      if fn == 'concatenate' and len(args) == 1 and args[0].kind == 'LL' and args[0].et == 'TABLE':
        t = ll_term(args[0])
        return Val('TAB', elem=lambda i: '(concatT %s %s)' % (t, i), length=None)
      if fn == 'roll' and len(args) == 2 and args[0].kind == 'LL' and args[0].et == 'N' and args[1].kind == 'I' and args[1].term == 1:
        return LL(['(roll1 %s)' % ll_term(args[0])], 'N')
      if fn == 'repeat' and len(args) == 2 and args[0].kind == 'M' and getattr(args[0], 'row1', False) and 'axis' in kws \
         and kws['axis'].kind == 'I' and kws['axis'].term == 0 and args[1].kind in 'IN':
        me = args[0].elem
        return M(lambda i, j: me('0', j), self.sc(args[1], 'n'), args[0].cols)
      if fn == 'repeat' and len(args) == 2 and args[0].kind == 'M' and 'axis' in kws and kws['axis'].kind == 'I' and kws['axis'].term == 0 \
         and args[1].kind in 'IN' and getattr(args[0], 'rows', None) == '1':
        me = args[0].elem
        return M(lambda i, j: me('0', j), self.sc(args[1], 'n'), args[0].cols)
      if fn == 'repeat' and len(args) == 2 and args[0].kind == 'V' and args[1].kind in 'IN' and 'axis' in kws and kws['axis'].kind == 'I' and kws['axis'].term == 0 \
         and getattr(args[0], 'div', None):
        pass
      if fn == 'repeat' and len(args) == 2 and args[0].kind == 'V' and args[1].kind in 'IN' and (not kws or (set(kws) == {'axis'} and kws['axis'].kind == 'I' and kws['axis'].term == 0)):
        # flat repeat of a length-n vector k times, viewed as the (k, n) matrix it is reshaped to
        ve = args[0].elem; k = self.sc(args[1], 'n'); nn = args[0].length
        return M(lambda i, j: ve('((%s * %s + %s) / %s)' % (i, nn, j, k)), k, nn, flat=True)
      if fn == 'tile' and len(args) == 2 and args[0].kind == 'V' and args[1].kind in 'IN' and not kws:
        ve = args[0].elem
        return M(lambda i, j: ve(j), self.sc(args[1], 'n'), args[0].length, flat=True)
      if fn == 'stack' and len(args) == 1 and args[0].kind == 'T' and len(args[0].items) == 2 and 'axis' in kws and kws['axis'].term == 1:
        a, b = args[0].items
        if a.kind == 'V' and b.kind == 'V':
          return Val('TAB', elem=lambda i: '(%s, %s)' % (a.elem(i), b.elem(i)), length=a.length)
      raise Unsupported('np.%s form' % fn)
    return super().numpy(fn, e, env)

  # ---------------------------------------------------------------- constraint dicts
  def reify(self, fv, env, want):
    """a lambda value as a Lean function term of signature `want` ('mat2s' / 'mat2m')."""
    if fv.kind != 'F' or not isinstance(fv.node, ast.Lambda): raise Unsupported('constraint function that is not a lambda')
    node = fv.node
    names = [a.arg for a in node.args.args]
    ndef = len(node.args.defaults)
    if len(names) - ndef != 1: raise Unsupported('constraint lambda with %d free parameters' % (len(names) - ndef))
    sv = self.fx('s')
    env2 = dict(fv.env)
    if self.unit.flavor == 'vec':
      env2[names[0]] = self.paren_elem(V((lambda a: lambda i: '%s %s' % (a, i))(sv), 'n', 'a', atom=sv))
      env2[names[0]].raw = True                  # SciPy / callers hand the flow as (n,) or (1, n)
    else:
      env2[names[0]] = M((lambda a: lambda i, j: '(%s %s %s)' % (a, i, j))(sv), None, None, atom=sv)
      env2[names[0]].raw = True                  # flat (R·n,) or (R, n) until `reshape(shape)`
    for k_, nm in enumerate(names[1:]):
      env2[nm] = ('lazy', node.args.defaults[k_], fv.env)
    saved = self.lambda_bound
    self.lambda_bound = saved | set(names)
    try:
      body = self.ev(node.body, env2)
    finally:
      self.lambda_bound = saved
    if want == 'mat2s':
      return '(fun %s => %s)' % (sv, self.sc(body, 'a'))
    if self.unit.flavor == 'vec':
      if body.kind != 'V': raise Unsupported('Jacobian of kind ' + body.kind)
      i_ = self.fx('i')
      return '(fun %s %s => %s)' % (sv, i_, body.elem(i_))
    if body.kind != 'M': raise Unsupported('Jacobian of kind ' + body.kind)
    if not getattr(body, 'flat', False): raise Unsupported('a constraint Jacobian that is not flattened to (R·n,) (`.reshape(flat_shape)` / np.tile)')
    r_, i_ = self.fx('r'), self.fx('i')
    return '(fun %s %s %s => %s)' % (sv, r_, i_, body.elem(r_, i_))

  def dict_con(self, e, env):
    keys = [k.value if isinstance(k, ast.Constant) else None for k in e.keys]
    if not set(keys) <= {'type', 'fun', 'jac'} or 'type' not in keys or 'fun' not in keys: raise Unsupported('dict display that is not a constraint')
    d = dict(zip(keys, e.values))
    t = self.ev(d['type'], env)
    if t.kind == 'STRLIT' and t.term in ('eq', 'ineq'): iseq = 'true' if t.term == 'eq' else 'false'
    elif t.kind == 'BOOL' and t.ct: iseq = t.term
    else: raise Unsupported('constraint type')
    fn = self.reify(self.ev(d['fun'], env), env, 'mat2s')
    jac = 'none'
    if 'jac' in d: jac = '(some %s)' % self.reify(self.ev(d['jac'], env), env, 'mat2m')
    return Val('CON', iseq=iseq, fn=fn, jac=jac, term=None)

  def con_term(self, c):
    return '({ isEq := %s, fn := %s, jac := %s } : %s α)' % (c.iseq, c.fn, c.jac, 'Con' if self.unit.flavor == 'vec' else 'MCon')

  # ---------------------------------------------------------------- statements
  def exec(self, stmts, env):
    """straight-line + loops that only append to list accumulators. returns (env, return value or None)."""
    env = dict(env)
    for s in stmts:
      if isinstance(s, ast.Expr) and isinstance(s.value, ast.Constant): continue
      if isinstance(s, ast.Return):
        if s.value is None: raise Unsupported('bare return')
        return env, self.ev(s.value, env)
      if isinstance(s, ast.Raise):
        raise Unsupported('raise on a reachable path')
      if isinstance(s, ast.Expr) and isinstance(s.value, ast.Yield):
        v = self.ev(s.value.value, env)
        acc = env.get('__yield__', LL([], None))
        env['__yield__'] = LL(acc.parts + ['[%s]' % self.elem_term(v)], self.et_of(v))
        continue
      if isinstance(s, ast.FunctionDef):
        late = sorted(TV.free_names(s) & self.unstable)
        if late: raise Unsupported('late-binding closure `%s`: `%s` is rebound by the enclosing function' % (s.name, '`, `'.join(late)))
        env[s.name] = Val('F', node=s, env=env); continue
      if isinstance(s, ast.Assign) and len(s.targets) == 1:
        t = s.targets[0]
        if isinstance(t, ast.Name):
          if '__base__' in env and t.id in env['__base__']:
            raise Unsupported('the list `%s` is rebound inside a loop / branch (that discards what was accumulated; only `+=` appends)' % t.id)
          if isinstance(s.value, ast.Attribute) and isinstance(s.value.value, ast.Call) and isinstance(s.value.value.func, ast.Name) \
             and s.value.value.func.id == 'super' and not s.value.value.args:
            env[t.id] = self.super_attr(s.value.attr); self.fresh_names.add(t.id); continue
          v = self.ev(s.value, env)
          unit_result = getattr(v, 'unit_result', False)
          if v.kind == 'LL': v = LL(v.parts, v.et)
          # a list is extended in place only if it was built here: a display / comprehension / the (new) list a translated
          # `constraints` property returns; an array only if it is a new array (T1v rule)
          newlist = v.kind == 'LL' and (isinstance(s.value, (ast.List, ast.ListComp)) or unit_result)
          (self.fresh_names.add if (newlist or TV.fresh_expr(s.value)) else self.fresh_names.discard)(t.id)
          env[t.id] = v; continue
        if isinstance(t, ast.Tuple) and all(isinstance(x, ast.Name) for x in t.elts):
          v = self.ev(s.value, env)
          if v.kind == 'CB' and len(t.elts) == 4:        # l, h, s, e = cbound
            v = Val('T', items=[S('%s.l' % v.term), S('%s.h' % v.term), N('%s.s' % v.term), N('%s.e' % v.term)])
          if v.kind != 'T' or len(v.items) != len(t.elts): raise Unsupported('tuple assignment')
          for x, it in zip(t.elts, v.items): env[x.id] = it
          continue
        if isinstance(t, ast.Subscript) and isinstance(t.value, ast.Name) and t.value.id in env:
          env[t.value.id] = self.assign_item(env[t.value.id], t.slice, self.ev(s.value, env) if not isinstance(s.value, ast.Lambda) else Val('F', node=s.value, env=env), env)
          continue
        raise Unsupported('assignment form')
      if isinstance(s, ast.AugAssign) and isinstance(s.op, ast.Add) and isinstance(s.target, ast.Name) and s.target.id in env:
        self.check_inplace(s.target.id)
        a = env[s.target.id]; b = self.ev(s.value, env)
        if a.kind == 'LL' and b.kind == 'LL':
          env[s.target.id] = LL(a.parts + b.parts, a.et or b.et); continue
        env[s.target.id] = self.bop(s.op, a, b); continue
      if isinstance(s, ast.If):
        r = self.exec_if(s, env)
        if isinstance(r, tuple): return r
        env = r; continue
      if isinstance(s, ast.For) and not s.orelse:
        env = self.exec_for(s, env); continue
      raise Unsupported(type(s).__name__ + ' statement')
    return env, None

  def super_attr(self, name):
    for c in BASES[self.unit.cls]:
      u = self.tu.units.get((c, name, ''))
      if u is not None: return self.call_unit_s(u, {})
    raise Unsupported('super().%s' % name)

  def accs(self, env):
    return {k: v for k, v in env.items() if isinstance(v, Val) and v.kind == 'LL'}

  def delta_env(self, env):
    """the same environment with every list accumulator emptied (to read off what a block appends)."""
    env2 = dict(env)
    for k, v in self.accs(env).items(): env2[k] = LL([], v.et)
    env2['__base__'] = {k: v for k, v in self.accs(env).items()}
    return env2

  def deltas(self, before, after):
    """accumulators a block changed: {name: (lean list term, element type)}; anything else it rebinds must be local."""
    out = {}
    for k, v in before.items():
      if isinstance(v, Val) and v.kind == 'LL':
        w = after.get(k)
        if w is None or w.kind != 'LL': raise Unsupported('list %s rebound inside a block' % k)
        if w.parts: out[k] = (ll_term(w), w.et)
    return out

  def exec_if(self, s, env):
    c = self.cond(s.test, env)
    if c is True:
      r = self.exec(s.body, env); return r if r[1] is not None else r[0]
    if c is False:
      if not s.orelse: return env
      r = self.exec(s.orelse, env); return r if r[1] is not None else r[0]
    if isinstance(c, tuple) and c[0] == 'jac':
      cv = c[1]
      if len(s.body) != 1 or s.orelse: raise Unsupported("`if 'jac' in constraint` body")
      a = s.body[0]
      if not (isinstance(a, ast.Assign) and len(a.targets) == 1 and isinstance(a.targets[0], ast.Subscript) and isinstance(a.targets[0].value, ast.Name)
              and isinstance(a.targets[0].slice, ast.Constant) and a.targets[0].slice.value == 'jac' and isinstance(a.value, ast.Lambda)):
        raise Unsupported("`if 'jac' in constraint` body")
      tgt = a.targets[0].value.id
      con = env.get(tgt)
      if con is None or con.kind != 'CON' or con.jac != 'none': raise Unsupported('jac set on something that is not a fresh constraint dict')
      f = self.fx('f')
      env2 = dict(env); env2['__jac__' + cv.term] = Val('FN', term=f, sig=cv.flavor + '2' + cv.flavor[0])
      fn = self.reify(Val('F', node=a.value, env=env2), env2, 'mat2m')
      env = dict(env)
      env[tgt] = Val('CON', iseq=con.iseq, fn=con.fn, jac='(Option.map (fun %s => %s) %s.jac)' % (f, fn, cv.term), term=None)
      return env
    # dynamic condition: both branches may only append to accumulators
    if isinstance(c, tuple) and c[0] == 'optnz':
      ov = c[1]
      if s.orelse: raise Unsupported('else branch of a truth test on an optional number')
      cv = self.fx('c')
      name = [k for k, v in ATTRS[self.unit.cls].items() if lname(k) == ov.term][0]
      saved = dict(self.attr_cache)
      self.attr_cache[name] = S(cv)
      try:
        e1, r1 = self.exec(s.body, self.delta_env(env))
      finally:
        self.attr_cache = saved
      if r1 is not None: raise Unsupported('return inside a dynamic branch')
      d1 = self.deltas(env, e1)
      env = dict(env)
      for k in sorted(d1):
        base = env[k]
        env[k] = LL(base.parts + ['(match %s with | some %s => (if %s ≠ (0 : α) then %s else []) | none => [])' % (ov.term, cv, cv, d1[k][0])], base.et or d1[k][1])
      return env
    if isinstance(c, tuple) and c[0] == 'opt':
      ov, positive = c[1], c[2]
      sb = self.fx('sb')
      some_env = self.delta_env(env)
      # inside the `some` branch the optional attribute is the bound table
      name = [k for k, v in ATTRS[self.unit.cls].items() if lname(k) == ov.term][0]
      saved = dict(self.attr_cache)
      self.attr_cache[name] = Val('TAB', elem=(lambda t: lambda i: '(%s %s)' % (t, i))(sb), length='n')
      try:
        body, other = (s.body, s.orelse) if positive else (s.orelse, s.body)
        e1, r1 = self.exec(body, some_env) if body else (some_env, None)
      finally:
        self.attr_cache = saved
      e2, r2 = self.exec(other, self.delta_env(env)) if other else (self.delta_env(env), None)
      if r1 is not None or r2 is not None: raise Unsupported('return inside a dynamic branch')
      d1, d2 = self.deltas(env, e1), self.deltas(env, e2)
      env = dict(env)
      for k in sorted(set(d1) | set(d2)):
        a = d1.get(k, ('[]', None)); b = d2.get(k, ('[]', None))
        base = env[k]
        env[k] = LL(base.parts + ['(match %s with | some %s => %s | none => %s)' % (ov.term, sb, a[0], b[0])], base.et or a[1] or b[1])
      return env
    if not isinstance(c, str): raise Unsupported('condition')
    e1, r1 = self.exec(s.body, self.delta_env(env))
    e2, r2 = self.exec(s.orelse, self.delta_env(env)) if s.orelse else (self.delta_env(env), None)
    if r1 is not None or r2 is not None: raise Unsupported('return inside a dynamic branch')
    d1, d2 = self.deltas(env, e1), self.deltas(env, e2)
    env = dict(env)
    changed = set(d1) | set(d2)
    for k in sorted(changed):
      a = d1.get(k, ('[]', None)); b = d2.get(k, ('[]', None))
      base = env[k]
      env[k] = LL(base.parts + ['(if %s then %s else %s)' % (c, a[0], b[0])], base.et or a[1] or b[1])
    # locals assigned in both branches to non-list values (e.g. `bounds = …`) are merged pointwise
    for k in sorted((set(e1) & set(e2)) - set(env) - {'__base__'}):
      a, b = e1[k], e2[k]
      if isinstance(a, Val) and isinstance(b, Val) and a.kind == 'TAB' and b.kind == 'TAB':
        env[k] = Val('TAB', elem=(lambda a, b: lambda i: '(if %s then %s else %s)' % (c, a.elem(i), b.elem(i)))(a, b), length=a.length)
    return env

  def exec_for(self, s, env):
    src, et = self.iter_source(s.iter, env)
    x = self.fx()
    body_env = self.bind_target(s.target, x, et, self.delta_env(env))
    e1, r1 = self.exec(s.body, body_env)
    if r1 is not None: raise Unsupported('return inside a loop')
    d = self.deltas(env, e1)
    if '__yield__' in e1 and e1['__yield__'].parts and '__yield__' not in env:
      d['__yield__'] = (ll_term(e1['__yield__']), e1['__yield__'].et)
    env = dict(env)
    for k, (t, et_) in sorted(d.items()):
      base = env.get(k, LL([], None))
      env[k] = LL(base.parts + ['(List.flatMap (fun %s => %s) %s)' % (x, t, src)], base.et or et_)
    return env

  def assign_item(self, tgt, sl, val, env):
    if tgt.kind == 'LL' and tgt.et == 'N' and isinstance(sl, ast.Constant) and sl.value == 0 and val.kind in 'IN':
      return LL(['(setHead %s %s)' % (ll_term(tgt), self.sc(val, 'n'))], 'N')            # offset[0] = 0
    if tgt.kind == 'M' and isinstance(sl, ast.Tuple) and len(sl.elts) == 2:
      r_, c_ = sl.elts
      full = lambda x: isinstance(x, ast.Slice) and x.lower is None and x.upper is None and x.step is None
      old = tgt.elem
      if full(c_):                                     # r[keep, :] = block     (keep a range)
        k = self.ev(r_, env)
        if k.kind != 'RANGE' or val.kind != 'M': raise Unsupported('row-block assignment form')
        ve = val.elem
        return M(lambda i, j: '(if %s ≤ %s ∧ %s < %s then %s else %s)' % (k.lo, i, i, k.hi, ve('(%s - %s)' % (i, k.lo), j), old(i, j)), tgt.rows, tgt.cols)
      if full(r_):                                     # r[:, i] = vector
        k = self.ev(c_, env)
        if k.kind not in 'IN' or val.kind != 'V' or val.length is None: raise Unsupported('column assignment form')
        kt = self.sc(k, 'n'); ve = val.elem; ln = val.length
        return M(lambda i, j: '(if %s = %s ∧ %s < %s then %s else %s)' % (j, kt, i, ln, ve(i), old(i, j)), tgt.rows, tgt.cols)
    if tgt.kind == 'V' and not isinstance(sl, (ast.Tuple, ast.Slice)):
      k = self.ev(sl, env)
      if k.kind == 'IDX' and val.kind in 'IS':           # col_jac[labelled_set] = 1
        old = tgt.elem; vt = self.sc(val, 'a')
        return V(lambda i: '(if %s.contains %s then %s else %s)' % (k.term, i, vt, old(i)), tgt.length)
    raise Unsupported('item assignment form')

  def run(self, stmts, env):
    env2, r = self.exec(stmts, env)
    if r is None:
      if '__yield__' in env2: return env2['__yield__']
      raise Unsupported('fall-through without return')
    return r


def idx_add2(a, i):
  if a in ('0', 0): return i
  return a if i in ('0', 0) else '(%s + %s)' % (a, i)


# a vector comparison `v < 0` is a vector of propositions (only `.any()` consumes it)
_orig_ev = SCtx.ev
def _ev(self, e, env):
  if isinstance(e, ast.Compare) and len(e.ops) == 1 and type(e.ops[0]) in (ast.Lt, ast.Gt, ast.LtE, ast.GtE):
    try:
      a, b = _orig_ev(self, e.left, env), _orig_ev(self, e.comparators[0], env)
    except Unsupported:
      raise
    if a.kind == 'V' and b.kind in 'IS':
      sym = {ast.Lt: '<', ast.Gt: '>', ast.LtE: '≤', ast.GtE: '≥'}[type(e.ops[0])]
      bt = self.sc(b, 'a')
      return Val('PV', elem=lambda i: '%s %s %s' % (a.elem(i), sym, bt), length=a.length)
  return _orig_ev(self, e, env)
SCtx.ev = _ev


# ----------------------------------------------------------------------------------------------- driver
HEADER = """-- GENERATED by vk/translate_sets.py from {src} — do not edit.
-- source sha256: {sha}
{imports}set_option linter.unusedVariables false
namespace DK.Gen
section
variable {{α : Type}} [Add α] [Sub α] [Mul α] [Div α] [Neg α] [OfNat α 0] [OfNat α 1] [OfNat α 2]
  [LT α] [LE α] [DecidableEq α] [DecidableLT α] [DecidableLE α]
"""

PRELUDE = """-- GENERATED by vk/translate_sets.py (fixed text) — do not edit.
import DK.Model.Tree
/-!
Record types of the abstract children and list primitives used by the translated set-level bodies.
`DK.Model.Tree` is imported for the *types* `Mat`, `MCon`, `Con` only: no model function occurs in generated code.
-/
set_option linter.unusedVariables false
namespace DK.Gen
section
variable {α : Type} [Add α] [Sub α] [Mul α] [Div α] [Neg α] [OfNat α 0] [OfNat α 1] [OfNat α 2]
  [LT α] [LE α] [DecidableEq α] [DecidableLT α] [DecidableLE α]

/-- a child of a set as the set's code sees it: its row count (`d.shape[0]`) and its methods / properties.
A flow / price block is handed over with its row extent (`rows, block`): `d.cost(s[a:b, :], p[a:b, :])` is
`d.cost (b - a) (rows a… of s) (b - a) (rows a… of p)`, so that a mis-sized slice is a different term. -/
structure Child (α : Type) where
  id : String
  rows : Nat
  cost : Nat → Mat α → Nat → Mat α → α
  deriv : Nat → Mat α → Nat → Mat α → Nat → Nat → α
  hess : Nat → Mat α → Nat → Mat α → Nat → Nat → α
  project : Nat → Mat α → Nat → Nat → α
  bounds : Nat → α × α
  cons : List (MCon α)

/-- the atomic device a multi-flow adaptor wraps (`self._device`), over flow vectors. -/
structure Dev (α : Type) where
  cost : (Nat → α) → (Nat → α) → α
  deriv : (Nat → α) → (Nat → α) → Nat → α
  hess : (Nat → α) → (Nat → α) → Nat → Nat → α
  project : (Nat → α) → Nat → α
  lbounds : Nat → α
  hbounds : Nat → α
  cons : List (Con α)

/-- `np.array(list).sum()` -/
def lsum {β : Type} [Add β] [OfNat β 0] (l : List β) : β := l.foldl (· + ·) 0
/-- running totals from `acc` -/
def cumsumFrom (acc : Nat) : List Nat → List Nat
  | [] => []
  | a :: l => (acc + a) :: cumsumFrom (acc + a) l
/-- numpy `x.cumsum()` on an int array -/
def cumsum (l : List Nat) : List Nat := cumsumFrom 0 l
/-- `np.roll(x, 1)`: the last element moves to the front -/
def roll1 (l : List Nat) : List Nat :=
  match l.getLast? with
  | none => []
  | some x => x :: l.dropLast
/-- `x[0] = v` -/
def setHead (l : List Nat) (v : Nat) : List Nat :=
  match l with
  | [] => []
  | _ :: t => v :: t
/-- `np.vstack(blocks)`: block `k` has `rows_k` rows -/
def vstack : List (Nat × Mat α) → Mat α
  | [] => fun _ _ => 0
  | (k, B) :: l => fun r j => if r < k then B r j else vstack l (r - k) j
/-- `np.concatenate(tables)`: table `k` has `len_k` entries -/
def concatT : List (Nat × (Nat → α × α)) → Nat → α × α
  | [] => fun _ => (0, 0)
  | (k, B) :: l => fun i => if i < k then B i else concatT l (i - k)
/-- `np.array(list of matrices).sum(axis=0)` -/
def msum (l : List (Nat × Mat α)) : Mat α := fun i j => lsum (l.map (fun B => B.2 i j))
end
end DK.Gen
"""


class TU:
  def __init__(self, repo):
    self.repo = repo
    self.src = {}; self.classes = {}; self.funcs = {}
    for fn in sorted(set(FILES.values())):
      p = os.path.join(repo, 'device_kit', fn)
      self.src[fn] = open(p).read()
      tree = ast.parse(self.src[fn])
      for node in tree.body:
        if isinstance(node, ast.ClassDef): self.classes[node.name] = node
        if isinstance(node, ast.FunctionDef) and fn == 'utils.py': self.funcs[node.name] = node
    self.units = {}
    self.kernels = {}
    self.tainted, self.shadow = TV.scan_bindings(os.path.join(repo, 'device_kit'), set(self.classes) | set(TV.FILES) - {None})
    # the T1v units (utils.sustainment_matrix …) a leaf-level constraint list may call: translated by T1v, called here
    self.tv = TV.TU(repo)
    for u in TV.UNITS:
      self.tv.units[u.key] = u
      u.ok = False; u.calls = []
      try:
        self.tv.translate(u)
      except Unsupported:
        pass
    self.units.update({k: u for k, u in self.tv.units.items() if k[0] is None})

  def locate(self, u):
    c = self.classes.get(u.cls)
    if c is None: return None
    cands = [f for f in c.body if isinstance(f, ast.FunctionDef) and f.name == u.fn
             and not any(isinstance(d, ast.Attribute) and d.attr == 'setter' for d in f.decorator_list)]
    return cands[0] if len(cands) == 1 else None

  def translate(self, u):
    node = self.locate(u)
    if node is None: raise Unsupported('unit not found (or not unique)')
    u.line = node.lineno
    for key in ((u.cls, u.fn), (u.cls, '*')):
      if key in self.tainted: raise Unsupported('the `def` is not what the name denotes: ' + self.tainted[key])
    ctx = SCtx(self, u, self.classes[u.cls])
    ctx.unstable = TV.unstable_names(node)
    names = [a.arg for a in node.args.args][1:]
    ndef = len(node.args.defaults)
    env = {}; params = []
    if u.sub is None:
      for k_, nm in enumerate(names):
        has_default = k_ >= len(names) - ndef
        kind = u.args.get(nm)
        if kind is None:
          if has_default: continue
          raise Unsupported('parameter %s has no declared kind' % nm)
        if has_default and nm == 'p' and u.fn == 'hess' and u.cls == 'MFDeviceSet': continue
        params.append((nm, kind))
    else:
      params = list(u.args.items())
    for nm, kind in params:
      ln = lname(nm)
      if kind == 'M':
        env[nm] = M((lambda a: lambda i, j: '(%s %s %s)' % (a, i, j))(ln), None, None, atom=ln)
        env[nm].raw = (nm == 's')      # the flow as passed in: flat or (R, n) until `s.reshape(self.shape)`
      elif kind == 'M1': env[nm] = M((lambda a: lambda i, j: '(%s %s %s)' % (a, i, j))(ln), '1', 'n', atom=ln, row1=True)
      elif kind == 'V': env[nm] = ctx.paren_elem(V((lambda a: lambda i: '%s %s' % (a, i))(ln), 'n', 'a', atom=ln))
      elif kind == 'S': env[nm] = S(ln)
      elif kind == 'DEV': env[nm] = Val('DEV', term=ln)
      else: raise Unsupported('parameter kind ' + kind)
    if u.sub == 'bounds':
      # the rule that picks the conduit bounds in MFDeviceSet.__init__: the `if … else` that binds `bounds`
      stmts = [s for s in node.body if isinstance(s, ast.If) and any(isinstance(x, ast.Assign) and isinstance(x.targets[0], ast.Name) and x.targets[0].id == 'bounds' for x in s.body)]
      if len(stmts) != 1: raise Unsupported('the conduit bounds rule is not a single if/else')
      env2 = ctx.exec_if(stmts[0], env)
      if isinstance(env2, tuple) or 'bounds' not in env2: raise Unsupported('conduit bounds rule form')
      res = env2['bounds']
    else:
      res = ctx.run(node.body, env)
    # ---- result
    if res.kind == 'M1': raise Unsupported('row result')
    if res.kind == 'S': rty, body, ret = 'α', res.term, ('S',)
    elif res.kind == 'N': rty, body, ret = 'Nat', res.term, ('N',)
    elif res.kind == 'M':
      rty, body, ret = 'Mat α', 'fun r_ i_ => ' + res.elem('r_', 'i_'), ('M', res.rows, res.cols)
    elif res.kind == 'V': rty, body, ret = 'Nat → α', 'fun i_ => ' + res.elem('i_'), ('V', res.length)
    elif res.kind == 'TAB': rty, body, ret = 'Nat → α × α', 'fun i_ => ' + res.elem('i_'), ('TAB', res.length)
    elif res.kind == 'T' and len(res.items) == 2 and all(x.kind in 'IN' for x in res.items):
      rty, body, ret = 'Nat × Nat', '(%s, %s)' % tuple(ctx.sc(x, 'n') for x in res.items), ('T2N',)
    elif res.kind == 'LL':
      et = 'VCONL' if (res.et == 'MCON' and u.flavor == 'vec') else res.et
      rty, body, ret = 'List (%s)' % self.et_lean(et), ll_term(res), ('LL', res.et)
    else: raise Unsupported('result of kind ' + res.kind)
    binders = ['(n : Nat)'] + ['(%s : %s)' % (lname(a), LEAN_TY[k]) for a, k in ATTRS[u.cls].items()] \
              + ['(%s : %s)' % (lname(nm), LEAN_TY[k]) for nm, k in params]
    if u.sub is not None: binders = ['(n : Nat)'] + ['(%s : %s)' % (lname(nm), LEAN_TY[k]) for nm, k in params]
    u.params = params if u.sub is None else []; u.ret = ret; u.ok = True
    return 'def %s %s : %s :=\n  %s\n' % (u.lean, ' '.join(binders), rty, body)

  def et_lean(self, et):
    if et == 'N': return 'Nat'
    if et == 'S': return 'α'
    if et == 'CH': return 'Child α'
    if et == 'MCON': return 'MCon α'
    if et == 'VCONL': return 'Con α'
    if et == 'STR': return 'String'
    if et == 'VEC': return '(Nat → α)'
    if et == 'TABLE': return 'Nat × (Nat → α × α)'
    if isinstance(et, tuple) and et[0] == 'T': return ' × '.join('(%s)' % self.et_lean(x) if isinstance(x, tuple) else self.et_lean(x) for x in et[1:])
    if isinstance(et, tuple) and et[0] == 'BLK': return 'Nat × Mat α'
    raise Unsupported('list element type %r' % (et,))


# elements of lists of row blocks / tables carry their extent: (rows, block)
_orig_elem_term = SCtx.elem_term
def _elem_term(self, v):
  if v.kind == 'M':
    if v.rows is None: raise Unsupported('block of unknown row count in a list')
    return '(%s, %s)' % (v.rows, self.mat_term(v)) if not getattr(v, 'bare', False) else self.mat_term(v)
  if v.kind == 'TAB':
    if v.length is None: raise Unsupported('table of unknown length in a list')
    k = self.fx('k')
    return '(%s, fun %s => %s)' % (v.length, k, v.elem(k))
  return _orig_elem_term(self, v)
SCtx.elem_term = _elem_term
_orig_et_of = SCtx.et_of
def _et_of(self, v):
  if v.kind == 'TAB': return 'TABLE'
  return _orig_et_of(self, v)
SCtx.et_of = _et_of


def translate_all(repo):
  tu = TU(repo)
  body = {g: [] for g in GROUPS}
  files = {g: set() for g in GROUPS}
  units, fallback = [], []
  for u in UNITS:
    tu.units[u.key] = u
    u.ok = False; u.calls = []
    files[u.group].add(u.file)
    qual = u.cls + '.' + u.fn + ('::' + u.sub if u.sub else '') + (' [price: %s]' % u.variant if u.variant else '')
    try:
      text = tu.translate(u)
    except Unsupported as ex:
      where = '%s:%d' % (u.file, u.line) if u.line else u.file
      body[u.group].append('-- UNTRANSLATABLE %s (%s): %s\n' % (qual, where, ex))
      fallback.append((u.lean, where, str(ex)))
      continue
    where = '%s:%d' % (u.file, u.line)
    body[u.group].append('/-- `%s` (%s) -/' % (qual, where))
    body[u.group].append(text)
    units.append((u.lean, where))
  by_lean = {u.lean: u for u in UNITS}
  tvl = {u.lean: u for u in TV.UNITS}
  texts = {}
  for g in GROUPS:
    callee = {c for u in UNITS if u.group == g for c in u.calls}
    deps = sorted({by_lean[c].group for c in callee if c in by_lean} - {g}, key=GROUPS.index)
    vdeps = sorted({tvl[c].group for c in callee if c in tvl}, key=TV.GROUPS.index)
    fs = sorted(files[g] | {by_lean[c].file for c in callee if c in by_lean} | {tvl[c].file for c in callee if c in tvl} | ({'utils.py'} if any(c.startswith('utils_') for c in callee) else set()))
    sha = hashlib.sha256(''.join(fn + '\n' + tu.src[fn] for fn in fs).encode()).hexdigest()[:16]
    imports = 'import DK.Gen.Sets.Prelude\n' + ''.join('import DK.Gen.Vec.%s\n' % d for d in vdeps) + ''.join('import DK.Gen.Sets.%s\n' % d for d in deps)
    texts[g] = '\n'.join([HEADER.format(src=', '.join('device_kit/' + f for f in fs), sha=sha, imports=imports)] + body[g] + ['end', 'end DK.Gen', ''])
  calls = {u.lean: [c for c in u.calls] for u in UNITS}
  return texts, units, fallback, calls


UMBRELLA = """-- GENERATED by vk/translate_sets.py — do not edit.
-- every generated set-level module (one per source group)
import DK.Gen.Sets.Prelude
"""

# bridge lemmas (DK.BridgeSets.<name>) -> the units they are about, where the lemma is not named after exactly one unit
LEMMA_UNITS = {
  'DeviceSet_constraints_node': ['DeviceSet_constraints'],
  'SubBalancedDeviceSet_constraints_node': ['SubBalancedDeviceSet_constraints'],
  'MFDeviceSet_constraints_ofMF': ['MFDeviceSet_constraints'],
  'BaseDevice_map_tree': ['BaseDevice_map'],
}


def bridge_modules():
  """lemma -> module table of the set-level bridge, read off the Lean sources."""
  d = os.path.join(HERE, '..', 'lean', 'DK', 'Lemmas', 'BridgeSets')
  out = {}
  if os.path.isdir(d):
    for fn in sorted(os.listdir(d)):
      if fn.endswith('.lean'):
        for m in re.finditer(r'^theorem\s+(\S+)', open(os.path.join(d, fn)).read(), re.M):
          out['DK.BridgeSets.' + m.group(1)] = 'DK.Lemmas.BridgeSets.' + fn[:-5]
  return out


def lemmas_of_units(units_):
  us = set(units_)
  out = {'DK.BridgeSets.' + u for u in us}
  out |= {'DK.BridgeSets.' + l for l, xs in LEMMA_UNITS.items() if us & set(xs)}
  # the price-shape variants of a unit are audited under their own names and under the plain name
  return out


def regenerate(repo=None):
  repo = repo or REPO
  texts, units, fallback, calls = translate_all(repo)
  changed = T1.write_if_changed(os.path.join(GEN, 'Sets', 'Prelude.lean'), PRELUDE)
  for g in GROUPS:
    changed = T1.write_if_changed(os.path.join(GEN, 'Sets', g + '.lean'), texts[g]) or changed
  changed = T1.write_if_changed(os.path.join(GEN, 'Sets.lean'), UMBRELLA + ''.join('import DK.Gen.Sets.%s\n' % g for g in GROUPS)) or changed
  affected = {}
  for n, w, why in fallback:
    affected[n] = sorted(lemmas_of_units(TV.callers_closure(calls, n)))
  return {'changed': changed, 't1_units': ['sets.%s @ %s' % (n, w) for n, w in units],
          't1_fallback_units': ['sets.%s @ %s: %s' % (n, w, why) for n, w, why in fallback],
          't1_sets_fallback_lemmas': affected,
          't1_sets_calls': {u: cs for u, cs in calls.items() if cs},
          't1_sets_t2_only': ['%s (%s): %s' % x for x in T2_ONLY]}


if __name__ == '__main__':
  import json
  print(json.dumps(regenerate(sys.argv[1] if len(sys.argv) > 1 else None), indent=1))
