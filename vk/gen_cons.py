"""Generators and canonicalisation shared by C03 (feasible set) and C06 (constraint Jacobians).

Description-first: a case is a leaf / tree description (exact dyadic rationals as strings) plus probe
flows; `build.py` constructs the real objects from it, the same description goes to the Lean driver
(`cons.leaf`, `cons.tree`, `cons.charge` in lean/DK/Driver/Cons.lean)."""
import math
from fractions import Fraction
from .common import F, fs, pf, dy
from . import gen, build

BIG = 10**18
ATOMIC = ['Device', 'PVDevice', 'CDevice', 'CDevice2', 'IDevice', 'IDevice2', 'GDevice', 'SDevice', 'TDevice', 'ADevice']


def np():
  import numpy
  return numpy


# ---------------------------------------------------------------- canonical rows (must mirror Driver/Cons.lean)
def key_of(v):
  """floor(v*1e6 + 1/2); non-finite sorts last (as the model's undefined)."""
  if not math.isfinite(v):
    return BIG
  return math.floor(v*1e6 + 0.5)


def scalar(v):
  a = np().asarray(v, dtype=float).reshape(-1)
  if a.size != 1:
    raise ValueError('constraint function returned %d values' % a.size)
  return float(a[0])


def type_code(c):
  return {'ineq': 0.0, 'eq': 1.0}.get(c.get('type'), 2.0)


def canon_rows(cons, probes, with_jac):
  """rows [isEq, (hasJac,) values at the probes (, flat Jacobians at the probes)], sorted like the driver; flattened."""
  rows = []
  for c in cons:
    row = [type_code(c)]
    if with_jac:
      row.append(1.0 if 'jac' in c else 0.0)
    for x in probes:
      row.append(scalar(c['fun'](x)))
    if with_jac and 'jac' in c:
      for x in probes:
        row += [float(u) for u in np().asarray(c['jac'](x), dtype=float).reshape(-1)]
    rows.append(row)
  rows.sort(key=lambda r: [key_of(v) for v in r])
  return [v for r in rows for v in r]


# ---------------------------------------------------------------- cumulative-bound forms
def feasible_limits(rng, lb, hb, a, b):
  """limits (l, h) for range [a, b) that pass the constructor's feasibility checks, l < h."""
  lo, hi = sum(lb[a:b], F(0)), sum(hb[a:b], F(0))
  w = hi - lo
  l = lo + w*Fraction(rng.randint(-2, 4), 8)
  h = max(l, lo) + (w if w > 0 else 1)*Fraction(rng.randint(1, 6), 8)
  if h <= l:
    h = l + 1
  return l, h


def gen_cbound_form(rng, n, lb, hb, form=None):
  """(rows, python form tag, form name).  Forms named by the property's quantifier:
  2-tuple, one 4-tuple (whole horizon or a sub-range), several contiguous, several overlapping."""
  forms = ['2tuple', 'one4', 'one4sub'] + (['contig', 'contig', 'overlap', 'overlap', 'nested'] if n >= 2 else [])
  form = form or rng.choice(forms)
  if form in ('2tuple', 'one4'):
    ranges = [(0, n)]
  elif form == 'one4sub':
    a = rng.randrange(0, n); ranges = [(a, rng.randint(a + 1, n))]
  elif form == 'contig':
    cuts = sorted(rng.sample(range(1, n), min(n - 1, rng.randint(1, 3))))
    pts = [0] + cuts + [n]
    ranges = list(zip(pts[:-1], pts[1:]))
  elif form == 'overlap':
    ranges = []
    for _ in range(rng.randint(2, 3)):
      a = rng.randrange(0, n); ranges.append((a, rng.randint(a + 1, n)))
  else:  # nested: the whole horizon plus a sub-range with its own limits
    a = rng.randrange(0, n); ranges = [(0, n), (a, rng.randint(a + 1, n))]
    if rng.random() < 0.5:
      ranges.reverse()
  rows = []
  for (a, b) in ranges:
    l, h = feasible_limits(rng, lb, hb, a, b)
    rows.append([l, h, a, b])
  return rows, ('2tuple' if form == '2tuple' else '4tuples'), form


RATE_CLIPS = [None, ['1', None], [None, '1'], ['3/2', '2'], ['1', '1'], [None, '5/4'], ['2', None]]


def gen_cons_leaf(rng, tier, cls=None, n=None):
  """a leaf description exercising the constraint list of its class."""
  cls = cls or rng.choice(ATOMIC + ['SDevice', 'SDevice', 'ADevice', 'Device'])
  d = gen.gen_leaf(rng, tier, [cls], n=n)
  n = d['n']
  lb = [F(x) for x in d['lb']]; hb = [F(x) for x in d['hb']]
  tag = {'cls': cls, 'cform': 'none'}
  if cls == 'CDevice2':
    # RangesFunction wants contiguous ranges that cover the horizon; gen_leaf has produced such a list (or the default)
    tag['cform'] = 'default' if d['_py'].get('cform') is None else ('contig' if len(d['cbs']) > 1 else d['_py']['cform'])
  elif rng.random() < (0.85 if cls != 'SDevice' else 0.4):
    rows, pyform, form = gen_cbound_form(rng, n, lb, hb)
    d['cbs'] = [[fs(r[0]), fs(r[1]), r[2], r[3]] for r in rows]
    d['_py']['cform'] = pyform
    tag['cform'] = form
  else:
    d['cbs'] = []; d['_py']['cform'] = None
  if cls == 'SDevice':
    rc = rng.choice(RATE_CLIPS)
    if rc is not None:
      d['prm']['rate_clip'] = list(rc)
    tag['rate_clip'] = rc is not None
    tag['lossy'] = d['prm']['efficiency'] != '1'
    tag['leaky'] = d['prm']['sustainment'] != '1'
  if cls == 'ADevice' and rng.random() < 0.8:
    d['ucons'] = gen.gen_ucons(rng, n, lb, hb)
    tag['ucons'] = len(d['ucons'])
  return d, tag


# ---------------------------------------------------------------- the documented semantics, coded independently
def eff(e, x):
  return e if x > 0 else (1.0/e if x < 0 else 1.0)


def soc_loop(prm, x):
  """state of charge after every slot by the documented first-order recurrence."""
  cap, start = pf(prm['capacity']), pf(prm['start'])
  e, s = pf(prm['efficiency']), pf(prm['sustainment'])
  c = start*cap
  out = []
  for xi in x:
    c = s*c + xi*eff(e, xi)
    out.append(c)
  return out


def spec_slacks(d, x):
  """[(name, slack)] of every documented hard constraint of the description `d` at the flow `x` (floats);
  the flow is feasible iff every slack is >= 0.  Equalities contribute -|value|."""
  n = d['n']
  lb = [pf(v) for v in d['lb']]; hb = [pf(v) for v in d['hb']]
  out = []
  for k in range(n):
    out.append(('lb[%d]' % k, x[k] - lb[k])); out.append(('hb[%d]' % k, hb[k] - x[k]))
  for ci, (l, h, a, b) in enumerate(d.get('cbs') or []):
    t = 0.0
    for k in range(int(a), min(int(b), n)):
      t += x[k]
    out.append(('cbound%d[%d:%d]>=%s' % (ci, a, b, l), t - pf(l))); out.append(('cbound%d[%d:%d]<=%s' % (ci, a, b, h), pf(h) - t))
  if d['cls'] == 'SDevice':
    p = d['prm']; cap = pf(p['capacity'])
    c = soc_loop(p, x)
    for i in range(n):
      out.append(('soc[%d]>=0' % i, c[i])); out.append(('soc[%d]<=capacity' % i, cap - c[i]))
    out.append(('soc[last]>=reserve*capacity', c[n - 1] - pf(p['reserve'])*cap))
    rc = p.get('rate_clip') or [None, None]
    if rc[0] is not None:
      for i in range(n):
        out.append(('rate_clip_lo[%d]' % i, x[i] - pf(rc[0])*lb[i]*(c[i]/cap)))
    if rc[1] is not None:
      for i in range(n):
        out.append(('rate_clip_hi[%d]' % i, pf(rc[1])*hb[i]*(1 - c[i]/cap) - x[i]))
  for ui, u in enumerate(d.get('ucons') or []):
    v = sum(pf(w)*xk for w, xk in zip(u['w'], x)) + pf(u['c'])
    out.append(('user%d(%s)' % (ui, u['type']), v if u['type'] == 'ineq' else -abs(v)))
  return out


# ---------------------------------------------------------------- probe flows
def gen_probes(rng, d, count=7):
  """probe flows (protocol strings): interior, box vertices, exactly on a cumulative bound, just inside /
  outside it, outside the box; for storage also flows that over/under-fill."""
  n = d['n']
  lb = [F(x) for x in d['lb']]; hb = [F(x) for x in d['hb']]
  P = []
  P.append(gen.gen_flow(rng, lb, hb, 'interior'))
  P.append(gen.gen_flow(rng, lb, hb, 'mixed'))
  P.append(gen.gen_flow(rng, lb, hb, rng.choice(['lower', 'upper'])))
  for cb in (d.get('cbs') or []):
    l, h, a, b = F(cb[0]), F(cb[1]), int(cb[2]), min(int(cb[3]), n)
    if b <= a:
      continue
    x = gen.gen_flow(rng, lb, hb, 'interior')
    k = rng.randrange(a, b)
    target = rng.choice([l, h])
    x[k] += target - sum(x[a:b], F(0))          # exactly on the limit
    P.append(list(x))
    y = list(x); y[k] += rng.choice([-1, 1])*Fraction(1, 64)   # just inside / outside
    P.append(y)
  if d['cls'] == 'SDevice':
    cap = F(d['prm']['capacity'])
    x = gen.gen_flow(rng, lb, hb, 'interior')
    k = rng.randrange(n)
    x[k] += rng.choice([-1, 1])*cap              # far over / under
    P.append(x)
    P.append([rng.choice([a, b, F(0)]) for a, b in zip(lb, hb)])
  x = gen.gen_flow(rng, lb, hb, 'mixed')
  k = rng.randrange(n)
  x[k] = (hb[k] + Fraction(1, 4)) if rng.random() < 0.5 else (lb[k] - Fraction(1, 4))   # outside the box
  P.append(x)
  rng.shuffle(P)
  P = P[:max(count, 3)]
  return [[fs(v) for v in x] for x in P]


def nudge_off_zero(x, lb, hb):
  """move entries that are exactly 0 to a nearby non-zero in-box value (lossy storage has a kink at 0)."""
  out = []
  for v, a, b in zip(x, lb, hb):
    if v == 0:
      v = Fraction(1, 8) if b >= Fraction(1, 8) else (-Fraction(1, 8) if a <= -Fraction(1, 8) else v)
    out.append(v)
  return out
