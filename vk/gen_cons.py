"""Generators and canonicalisation shared by C03 (feasible set) and C06 (constraint Jacobians).

Description-first: a case is a leaf / tree description (exact dyadic rationals as strings) plus probe
flows; `build.py` constructs the real objects from it, the same description goes to the Lean driver
(`cons.leaf`, `cons.tree`, `cons.charge` in lean/DK/Driver/Cons.lean)."""
import math
from fractions import Fraction
from .common import F, fs, pf, dy
from . import gen, build

import os
BIG = 10**18
# input families that exhibit a defect of the UNCHANGED tree are off until the defect is fixed or listed in known_findings.txt
# (then flip the default here); `VERIF_FAMILIES=uint_ratios,user_fun_shape,cbound_oor` switches them on for one run
KNOWN_DEFECT_FAMILIES = {'uint_ratios': True, 'user_fun_shape': True}    # both defects are repaired in /repo (3b8c601, 0f214fb): the families run on every seed


def family(name):
  return KNOWN_DEFECT_FAMILIES.get(name, False) or name in os.environ.get('VERIF_FAMILIES', '').split(',')


ATOMIC = ['Device', 'PVDevice', 'CDevice', 'CDevice2', 'IDevice', 'IDevice2', 'GDevice', 'SDevice', 'TDevice', 'ADevice']


def np():
  import numpy
  return numpy


# ---------------------------------------------------------------- rows of the implementation, aligned to the model's
def scalar(v):
  a = np().asarray(v, dtype=float).reshape(-1)
  if a.size != 1:
    raise ValueError('constraint function returned %d values' % a.size)
  return float(a[0])


def type_code(c):
  return {'ineq': 0.0, 'eq': 1.0}.get(c.get('type'), 2.0)


def impl_rows(cons, probes, with_jac):
  """one row per exported SCALAR constraint, in list order: [isEq, (hasJac,) values at the probes (, flat Jacobians at the probes)].
  A vector-valued `fun` (one slack per component, legal for scipy) counts as that many scalar constraints.  Every `fun` and every
  `jac` of the whole list is called at every probe BEFORE any result is converted or copied, so a Jacobian that is returned
  through a shared buffer, or memoised at the first flow, shows."""
  n_ = np()
  raw = []
  for c in cons:
    vals = [c['fun'](x) for x in probes]
    jacs = [c['jac'](x) for x in probes] if (with_jac and 'jac' in c) else None
    raw.append((c, vals, jacs))
  rows = []
  for c, vals, jacs in raw:
    vals = [n_.array(v, dtype=float).reshape(-1) for v in vals]
    k = vals[0].size if vals else 1
    if k == 0 or any(v.size != k for v in vals):
      raise ValueError('constraint function returned %s values' % [v.size for v in vals])
    J = [n_.array(j, dtype=float).reshape(k, -1) for j in jacs] if jacs is not None else None
    for comp in range(k):
      row = [type_code(c)]
      if with_jac:
        row.append(1.0 if jacs is not None else 0.0)
      row += [float(v[comp]) for v in vals]
      if J is not None:
        for j in J:
          row += [float(u) for u in j[comp]]
      rows.append(row)
  return rows


def align_rows(mrows, irows):
  """order-insensitive comparison without a discontinuous sort key: every model row (in the model's order) takes the
  NEAREST unused implementation row of the same length (distance = largest relative entry difference; an undefined model
  entry matches a non-finite implementation entry).  Rows are never rounded, so values that agree within the tolerance can
  not be ordered differently on the two sides.  Unmatched implementation rows fill the unmatched positions / go last, so
  that a dropped, added or changed constraint still shows as a size or value disagreement.  Returns the flattened rows."""
  n_ = np()
  if mrows is None:
    return [v for r in irows for v in r]
  used = [False]*len(irows)
  by_len = {}
  for k, r in enumerate(irows):
    by_len.setdefault(len(r), []).append(k)
  arrs = {L: n_.array([irows[k] for k in ks], dtype=float).reshape(len(ks), L) for L, ks in by_len.items()}
  out = [None]*len(mrows)
  for mi, m in enumerate(mrows):
    L = len(m)
    ks = by_len.get(L)
    if not ks:
      continue
    M = n_.array([float('nan') if v is None else v for v in m], dtype=float)
    I = arrs[L]
    with n_.errstate(all='ignore'):
      d = n_.abs(I - M)/n_.maximum(1.0, n_.maximum(n_.abs(M), n_.abs(I)))
    mnan = n_.isnan(M)[None, :]
    inf_ = ~n_.isfinite(I)
    d = n_.where(mnan, n_.where(inf_, 0.0, n_.inf), n_.where(inf_, n_.inf, d))
    dist = d.max(axis=1) if L else n_.zeros(len(ks))
    best, bd = None, None
    for j, k in enumerate(ks):
      if not used[k] and (best is None or dist[j] < bd):
        best, bd = k, dist[j]
    if best is not None:
      used[best] = True
      out[mi] = irows[best]
  left = [irows[k] for k in range(len(irows)) if not used[k]]
  res = []
  for r in out:
    if r is None and left:
      r = left.pop(0)
    if r is not None:
      res.append(r)
  res += left
  return [v for r in res for v in r]


# ---------------------------------------------------------------- the model's rows (needed before the implementation's can be aligned)
_MODEL = {}


def _strip(x):
  if isinstance(x, dict):
    return {k: _strip(v) for k, v in x.items() if not k.startswith('_')}
  if isinstance(x, list):
    return [_strip(v) for v in x]
  return x


def _lkey(line):
  import json
  return json.dumps(_strip(line), sort_keys=True)


def prefetch(lines):
  """run the Lean model once for all the given `cons.leaf` / `cons.tree` lines and remember its rows."""
  from . import common as C
  need, seen = [], set()
  for l in lines:
    k = _lkey(l)
    if k not in _MODEL and k not in seen:
      seen.add(k); need.append((k, _strip(l)))
  if not need:
    return
  answers = C.run_model([l for _, l in need])
  for (k, _), ans in zip(need, answers):
    if 'ok' in ans:
      _MODEL[k] = [[None if v == 'undef' else pf(v) for v in row] for row in ans['ok']]
    else:
      _MODEL[k] = None


def model_rows(line):
  k = _lkey(line)
  if k not in _MODEL:
    prefetch([line])
  return _MODEL[k]


# ---------------------------------------------------------------- cumulative-bound forms
def feasible_limits(rng, lb, hb, a, b):
  """limits (l, h) for range [a, b) that pass the constructor's feasibility checks, l < h."""
  lo, hi = sum(lb[a:b], F(0)), sum(hb[a:b], F(0))
  w = hi - lo
  l = lo + w*Fraction(rng.randint(-2, 4), 8)
  h = max(l, lo) + (w if w > 0 else 1)*Fraction(rng.randint(1, 6), 8)
  if h <= l:
    h = l + 1
  return l, h


def gen_cbound_form(rng, n, lb, hb, form=None):
  """(rows, python form tag, form name).  Forms named by the property's quantifier:
  2-tuple, one 4-tuple (whole horizon or a sub-range), several contiguous, several overlapping."""
  forms = ['2tuple', 'one4', 'one4sub'] + (['contig', 'contig', 'overlap', 'overlap', 'nested'] if n >= 2 else [])
  form = form or rng.choice(forms)
  if form in ('2tuple', 'one4'):
    ranges = [(0, n)]
  elif form == 'one4sub':
    a = rng.randrange(0, n); ranges = [(a, rng.randint(a + 1, n))]
  elif form == 'contig':
    cuts = sorted(rng.sample(range(1, n), min(n - 1, rng.randint(1, 3))))
    pts = [0] + cuts + [n]
    ranges = list(zip(pts[:-1], pts[1:]))
  elif form == 'overlap':
    ranges = []
    for _ in range(rng.randint(2, 3)):
      a = rng.randrange(0, n); ranges.append((a, rng.randint(a + 1, n)))
  else:  # nested: the whole horizon plus a sub-range with its own limits
    a = rng.randrange(0, n); ranges = [(0, n), (a, rng.randint(a + 1, n))]
    if rng.random() < 0.5:
      ranges.reverse()
  rows = []
  for (a, b) in ranges:
    l, h = feasible_limits(rng, lb, hb, a, b)
    rows.append([l, h, a, b])
  return rows, ('2tuple' if form == '2tuple' else '4tuples'), form


# (description pair, python form): the description always carries the pair the setter stores; the python form says how the
# constructor receives it: absent, the keyword `rate_clip=None`, a scalar k (stored as (k, k)) or a pair (entries may be None)
RATE_CLIPS = [(None, 'absent'), (None, 'absent'), ([None, None], 'none_kw'), ([None, None], 'pair'),
              (['1', None], 'pair'), ([None, '1'], 'pair'), ([None, '5/4'], 'pair'), (['2', None], 'pair'), ([None, '3'], 'pair'),
              (['3/2', '2'], 'pair'), (['3', '5/4'], 'pair'), (['1', '2'], 'pair'), (['1', '1'], 'pair'),
              (['2', '2'], 'scalar'), (['1', '1'], 'scalar'), (['3/2', '3/2'], 'scalar'),
              (['3', '5/4'], 'list'), (['1', '2'], 'list'), ([None, '2'], 'list'), (['3/2', None], 'list'),
              (['3', '3/2'], 'ndarray'), (['5/4', '2'], 'ndarray')]


def gen_cons_leaf(rng, tier, cls=None, n=None):
  """a leaf description exercising the constraint list of its class."""
  cls = cls or rng.choice(ATOMIC + ['SDevice', 'SDevice', 'ADevice', 'Device', 'WindowDevice'])
  if cls == 'WindowDevice':
    # not modelled (its cost is not convex): an ORACLE-ONLY family.  It inherits ADevice's constraint handling and takes cbounds,
    # so the membership / finite-difference oracles speak about it; a subclass override is invisible to the T1 translation
    d = gen.gen_leaf(rng, tier, ['Device'], n=n)
    d['cls'] = 'WindowDevice'
    d['prm'] = {'w': fs(dy(rng, 1, 6)), 'c': fs(dy(rng, 0, 2))}
  else:
    d = gen.gen_leaf(rng, tier, [cls], n=n)
  n = d['n']
  lb = [F(x) for x in d['lb']]; hb = [F(x) for x in d['hb']]
  tag = {'cls': cls, 'cform': 'none'}
  if cls == 'CDevice2':
    # RangesFunction wants contiguous ranges that cover the horizon; gen_leaf has produced such a list (or the default)
    tag['cform'] = 'default' if d['_py'].get('cform') is None else ('contig' if len(d['cbs']) > 1 else d['_py']['cform'])
  elif rng.random() < (0.85 if cls != 'SDevice' else 0.4):
    rows, pyform, form = gen_cbound_form(rng, n, lb, hb)
    d['cbs'] = [[fs(r[0]), fs(r[1]), r[2], r[3]] for r in rows]
    d['_py']['cform'] = pyform
    tag['cform'] = form
    if rng.random() < 0.3:
      # a limit off the dyadic grid (k/10^7), moved outwards so that the constructor's feasibility checks still pass
      r = rng.randrange(len(rows)); k = Fraction(rng.choice([3, 4, 7, 12]), 10**7)
      if rng.random() < 0.5:
        d['cbs'][r][0] = fs(F(d['cbs'][r][0]) - k)
      else:
        d['cbs'][r][1] = fs(F(d['cbs'][r][1]) + k)
      tag['climit'] = 'decimal'
  else:
    d['cbs'] = []; d['_py']['cform'] = None
  if d['cbs'] and cls != 'CDevice2':
    # how the caller writes the rows down: tuples, LISTS (what the builder loader emits), integer ndarrays; in a list or a tuple
    d['_py']['crows'] = rng.choice(['tuple', 'tuple', 'list', 'list', 'ndarray'])
    d['_py']['ccont'] = rng.choice(['list', 'list', 'tuple'])
    tag['crows'] = d['_py']['crows']
  if cls == 'SDevice':
    rc, rcform = rng.choice(RATE_CLIPS)
    if rc is not None:
      d['prm']['rate_clip'] = list(rc)
    d['_py']['rcform'] = rcform
    tag['rate_clip'] = rcform + ':' + ('-' if rc is None else '/'.join('on' if v is not None else 'off' for v in rc))
    if rng.random() < 0.12:
      # the exported list must describe the device as it is NOW: build with another value, read .constraints, then use the setter
      prm = rng.choice(['reserve', 'start', 'efficiency', 'sustainment', 'capacity'])
      cur = F(d['prm'][prm])
      alt = {'reserve': min(F(1), cur + Fraction(1, 2)), 'start': (cur + Fraction(1, 2)) % 1, 'efficiency': Fraction(1, 2) if cur != Fraction(1, 2) else F(1),
             'sustainment': Fraction(3, 4) if cur != Fraction(3, 4) else F(1), 'capacity': cur + 2}[prm]
      d['_py']['reread'] = [prm, fs(alt)]
      tag['reread'] = prm
    tag['lossy'] = d['prm']['efficiency'] != '1'
    tag['leaky'] = d['prm']['sustainment'] != '1'
  if cls == 'ADevice' and rng.random() < 0.8:
    d['ucons'] = gen_ucons(rng, n, lb, hb)
    tag['ucons'] = len(d['ucons'])
  if cls in ('Device', 'PVDevice', 'ADevice', 'SDevice', 'GDevice') and rng.random() < 0.12:
    # the exported list must describe the cumulative bounds the device reports NOW: build with OTHER cumulative bounds (a
    # whole-horizon pair when the case has none, none when the case has some), read .constraints, then assign the case's own
    # through the public setter (None included)
    lo, hi = sum((F(x) for x in lb), F(0)), sum((F(x) for x in hb), F(0))
    if d['cbs']:
      d['_py']['cb_reread'] = 'none'; tag['cb_reread'] = 'none->some'
    elif lo < hi:
      d['_py']['cb_reread'] = [fs(lo + (hi - lo)/4), fs(hi - (hi - lo)/4)]; tag['cb_reread'] = 'some->none'      # tighter than the box: box vertices violate it
  return d, tag


def gen_ucons(rng, n, lb, hb, quad=False):
  """user constraints of an ADevice as data.  The Lean driver reads `type, w, c, n, jac` (w.x + c >= 0 / == 0); the
  private hints say how the Python side writes them: `_extra` adds a harmless extra key to the dict (scipy's `args`), entries
  sharing a `_vg` number are ONE vector-valued constraint (one slack per slot: w_k x_k + c_k, no jac), `_noflat` indexes the flow
  it is given without flattening it.  `quad` appends a quadratic constraint r - sum (x - q)^2 >= 0 with its own Jacobian
  -2 (x - q) (flow-dependent; the model has no such constraint, so the case is oracle-only)."""
  out = gen.gen_ucons(rng, n, lb, hb)
  for u in out:
    if rng.random() < 0.3:
      u['_extra'] = True
  if rng.random() < 0.3 and 2 <= n <= 8:
    ty = rng.choice(['ineq', 'ineq', 'eq'])
    for k in range(n):
      wk = dy(rng, -2, 2)
      w = [F(0)]*n; w[k] = wk
      out.append({'type': ty, 'w': [fs(x) for x in w], 'c': fs(-wk*(lb[k] + hb[k])/2 + dy(rng, 0, 1)), 'n': n, 'jac': False, '_vg': 1})
  if family('user_fun_shape') and rng.random() < 0.3:
    k = rng.randrange(n); wk = dy(rng, 1, 2)
    w = [F(0)]*n; w[k] = wk
    out.append({'type': 'ineq', 'w': [fs(x) for x in w], 'c': fs(-wk*(lb[k] + hb[k])/2 + dy(rng, 0, 1)), 'n': n, 'jac': False, '_noflat': k})
  if quad:
    q = [(a + b)/2 + dy(rng, -1, 1) for a, b in zip(lb, hb)]
    out.append({'type': 'ineq', 'quad': True, 'q': [fs(x) for x in q], 'r': fs(dy(rng, 1, 8) + sum(((b - a)/2)**2 for a, b in zip(lb, hb))), 'n': n, 'jac': True})
  return out


def has_quad(d):
  return any(u.get('quad') for u in (d.get('ucons') or []))


def build_ucons(ucons):
  """the Python constraint dicts of a user-constraint description (see gen_ucons)."""
  n_ = np()
  out, groups = [], {}
  for u in ucons:
    if u.get('quad'):
      q = n_.array([pf(x) for x in u['q']]); r = pf(u['r'])
      out.append({'type': u['type'], 'fun': (lambda x, q=q, r=r: float(r - ((n_.asarray(x, dtype=float).reshape(-1) - q)**2).sum())),
                  'jac': (lambda x, q=q: -2.0*(n_.asarray(x, dtype=float).reshape(-1) - q))})
      continue
    w = n_.array([pf(x) for x in u['w']]); c = pf(u['c'])
    if u.get('_vg') is not None:
      g = groups.get(u['_vg'])
      if g is None:
        g = groups[u['_vg']] = {'W': n_.zeros(len(w)), 'C': [], 'K': []}
        out.append({'type': u['type'], 'fun': (lambda x, g=g: n_.asarray(x, dtype=float).reshape(-1)[g['K']]*g['W'][g['K']] + n_.array(g['C']))})
      k = int(n_.flatnonzero(w)[0]) if n_.flatnonzero(w).size else len(g['K'])
      g['W'][k] = w[k]; g['K'].append(k); g['C'].append(c)
      continue
    if u.get('_noflat') is not None:
      k = u['_noflat']
      con = {'type': u['type'], 'fun': (lambda x, k=k, wk=w[k], c=c: x[k]*wk + c)}      # written for the device's flow VECTOR
    else:
      con = {'type': u['type'], 'fun': (lambda x, w=w, c=c: float(n_.array(x).reshape(-1).dot(w) + c))}
    if u.get('jac', True):
      con['jac'] = (lambda x, w=w: w.copy())
    if u.get('_extra'):
      con['args'] = ()
    out.append(con)
  return out


# ---------------------------------------------------------------- building
def py_cbounds(d):
  """`build.py_cbounds` plus the container forms a caller may use (`_py.crows`: rows as tuples / lists / integer ndarrays when every
  entry is whole; `_py.ccont`: the rows in a list or a tuple; the 2-tuple form also as a 2-list)."""
  n_ = np()
  base = _orig_py_cbounds(d)
  py = d.get('_py', {})
  rows, cont = py.get('crows', 'tuple'), py.get('ccont', 'list')
  if base is None or rows == 'tuple' and cont == 'list':
    return base
  if isinstance(base, tuple):          # the (low, high) form
    return list(base) if rows == 'list' else base
  def row(r):
    if rows == 'list':
      return list(r)
    if rows == 'ndarray' and all(float(v).is_integer() for v in r):
      return n_.array([int(v) for v in r], dtype=int)
    return tuple(r)
  out = [row(r) for r in base]
  return tuple(out) if cont == 'tuple' else out


_orig_py_cbounds = build.py_cbounds


def _build_leaf(d, id):
  """build.build_leaf with this module's cumulative-bound forms (build_leaf looks `py_cbounds` up in its module at call time)."""
  build.py_cbounds = py_cbounds
  try:
    return build.build_leaf(d, id)
  finally:
    build.py_cbounds = _orig_py_cbounds


def build_dev(d, id='dev'):
  """`build.build_block_device` plus the Python-side forms only this generator uses: cumulative-bound rows as lists / arrays,
  `rate_clip` handed over as a scalar / the keyword None / a list / an ndarray, the richer user-constraint alphabet, the
  (unmodelled) WindowDevice, and a storage device one of whose parameters was set through its setter AFTER a first read of
  `.constraints` (the exported list must describe the device as it is now)."""
  py = d.get('_py', {})
  if py.get('cb_reread') and d['cls'] != 'WindowDevice':
    alt = py['cb_reread']
    d2 = dict(d); d2['_py'] = {k: v for k, v in py.items() if k not in ('cb_reread', 'crows', 'ccont', 'cform')}
    d2['cbs'] = [] if alt == 'none' else [[alt[0], alt[1], 0, d['n']]]
    d2['_py']['cform'] = None if alt == 'none' else 'one4'
    dev = build_dev(d2, id)
    _ = dev.constraints
    dev.cbounds = py_cbounds(d)
    return dev
  from .common import repo
  dk = repo()
  if d['cls'] == 'WindowDevice':
    return dk.WindowDevice(id, d['n'], build.py_bounds(d), pf(d['prm']['w']), cbounds=py_cbounds(d), c=pf(d['prm']['c']))
  if d['cls'] == 'ADevice' and 'ucons' in d:
    d = dict(d); d['_constraints'] = build_ucons(d['ucons'])
    return _build_leaf(d, id)
  if d['cls'] != 'SDevice' or (py.get('rcform') in (None, 'pair', 'absent') and not py.get('reread')):
    return _build_leaf(d, id)
  p = dict(d['prm'])
  rr = py.get('reread')
  if rr:
    p[rr[0]] = rr[1]
  kw = {k: pf(v) for k, v in p.items() if k != 'rate_clip'}
  form = py.get('rcform')
  if form == 'none_kw':
    kw['rate_clip'] = None
  elif form == 'scalar':
    kw['rate_clip'] = pf(p['rate_clip'][0])
  elif 'rate_clip' in p:
    pair = [None if x is None else pf(x) for x in p['rate_clip']]
    kw['rate_clip'] = list(pair) if form == 'list' else np().array(pair, dtype=float) if (form == 'ndarray' and None not in pair) else tuple(pair)
  dev = dk.SDevice(id, d['n'], build.py_bounds(d), py_cbounds(d), **kw)
  if rr:
    _ = dev.constraints
    setattr(dev, rr[0], pf(d['prm'][rr[0]]))
  return dev


def build_tree(t, owned=None):
  """`build.build_tree` plus (a) the forms a caller may hand the two-ratio vector over in (`_rform`, see gen_sets.set_ratios:
  list / tuple / float ndarray / integer list / integer ndarray; ratios of either sign) and (b) a record, in `owned`, of every array the CALLER still owns after
  construction (ratios, aggregate bounds), so that the oracle can check the library did not write into them."""
  n_ = np()
  from .common import repo
  dk = repo()
  owned = owned if owned is not None else []
  if t['k'] == 'leaf':
    return build_dev(t['dev'], t['id'])
  if t['k'] == 'mf':
    dev = build_dev(t['dev'], t['id'])
    if t.get('ratios'):
      from . import gen_sets
      r = gen_sets.py_ratios(t) if '_rform' in t else [pf(x) for x in t['ratios']]
      if t.get('_rform') == 'uint-ndarray':
        r = n_.array([int(F(x)) for x in t['ratios']], dtype=n_.uint8)
      if isinstance(r, n_.ndarray):
        owned.append(('ratios of ' + t['id'], r))
      return dk.TwoRatioMFDeviceSet(dev, list(t['flows']), r, t.get('ctype', 'eq'))
    return dk.MFDeviceSet(dev, list(t['flows']))
  kids = [build_tree(c, owned) for c in t['ch']]
  sb = None
  if t.get('sb') is not None:
    sb = n_.array([[pf(a), pf(b)] for a, b in t['sb']])
    owned.append(('sbounds of ' + t['id'], sb))
  if t.get('sub'):
    return dk.SubBalancedDeviceSet(t['id'], kids, sb, labels=list(t.get('labels', [])), constraint_type=t.get('ctype', 'eq'),
                                   sign=pf(t.get('sign', '1')), apply_to_remaining=bool(t.get('rem', False)))
  return dk.DeviceSet(t['id'], kids, sb)


def int_flow(rng, lb, hb, avoid_zero=()):
  """an all-integer flow (Python ints): inside the bounds wherever a slot's bounds contain an integer, else the rounded
  midpoint; entries listed in `avoid_zero` take a non-zero integer when the bounds allow one."""
  out = []
  for k, (a, b) in enumerate(zip(lb, hb)):
    lo, hi = math.ceil(a), math.floor(b)
    if lo > hi:
      out.append(int(round((a + b)/2)))
      continue
    cand = list(range(lo, hi + 1))
    if k in avoid_zero:
      cand = [c for c in cand if c != 0] or cand
    out.append(rng.choice(cand))
  return out


# ---------------------------------------------------------------- the documented semantics, coded independently
def eff(e, x):
  return e if x > 0 else (1.0/e if x < 0 else 1.0)


def soc_loop(prm, x):
  """state of charge after every slot by the documented first-order recurrence."""
  cap, start = pf(prm['capacity']), pf(prm['start'])
  e, s = pf(prm['efficiency']), pf(prm['sustainment'])
  c = start*cap
  out = []
  for xi in x:
    c = s*c + xi*eff(e, xi)
    out.append(c)
  return out


def spec_slacks(d, x):
  """[(name, slack)] of every documented hard constraint of the description `d` at the flow `x` (floats);
  the flow is feasible iff every slack is >= 0.  Equalities contribute -|value|."""
  n = d['n']
  lb = [pf(v) for v in d['lb']]; hb = [pf(v) for v in d['hb']]
  out = []
  for k in range(n):
    out.append(('lb[%d]' % k, x[k] - lb[k])); out.append(('hb[%d]' % k, hb[k] - x[k]))
  for ci, (l, h, a, b) in enumerate(d.get('cbs') or []):
    t = 0.0
    for k in range(int(a), min(int(b), n)):
      t += x[k]
    out.append(('cbound%d[%d:%d]>=%s' % (ci, a, b, l), t - pf(l))); out.append(('cbound%d[%d:%d]<=%s' % (ci, a, b, h), pf(h) - t))
  if d['cls'] == 'SDevice':
    p = d['prm']; cap = pf(p['capacity'])
    c = soc_loop(p, x)
    for i in range(n):
      out.append(('soc[%d]>=0' % i, c[i])); out.append(('soc[%d]<=capacity' % i, cap - c[i]))
    out.append(('soc[last]>=reserve*capacity', c[n - 1] - pf(p['reserve'])*cap))
    rc = p.get('rate_clip') or [None, None]
    if rc[0] is not None:
      for i in range(n):
        out.append(('rate_clip_lo[%d]' % i, x[i] - pf(rc[0])*lb[i]*(c[i]/cap)))
    if rc[1] is not None:
      for i in range(n):
        out.append(('rate_clip_hi[%d]' % i, pf(rc[1])*hb[i]*(1 - c[i]/cap) - x[i]))
  for ui, u in enumerate(d.get('ucons') or []):
    if u.get('quad'):
      out.append(('user%d(quadratic)' % ui, pf(u['r']) - sum((xk - pf(q))**2 for q, xk in zip(u['q'], x))))
      continue
    v = sum(pf(w)*xk for w, xk in zip(u['w'], x)) + pf(u['c'])
    out.append(('user%d(%s)' % (ui, u['type']), v if u['type'] == 'ineq' else -abs(v)))
  return out


# ---------------------------------------------------------------- probe flows
def gen_probes(rng, d, count=7):
  """probe flows (protocol strings): interior, box vertices, exactly on a cumulative bound, just inside /
  outside it, outside the box; for storage also flows that over/under-fill."""
  n = d['n']
  lb = [F(x) for x in d['lb']]; hb = [F(x) for x in d['hb']]
  P = []
  P.append(gen.gen_flow(rng, lb, hb, 'interior'))
  P.append(gen.gen_flow(rng, lb, hb, 'mixed'))
  P.append(gen.gen_flow(rng, lb, hb, rng.choice(['lower', 'upper'])))
  for cb in (d.get('cbs') or []):
    l, h, a, b = F(cb[0]), F(cb[1]), int(cb[2]), min(int(cb[3]), n)
    if b <= a:
      continue
    x = gen.gen_flow(rng, lb, hb, 'interior')
    k = rng.randrange(a, b)
    target = rng.choice([l, h])
    x[k] += target - sum(x[a:b], F(0))          # exactly on the limit
    P.append(list(x))
    y = list(x); y[k] += rng.choice([-1, 1])*Fraction(1, 64)   # just inside / outside
    P.append(y)
  if d['cls'] == 'SDevice':
    cap = F(d['prm']['capacity'])
    x = gen.gen_flow(rng, lb, hb, 'interior')
    k = rng.randrange(n)
    x[k] += rng.choice([-1, 1])*cap              # far over / under
    P.append(x)
    P.append([rng.choice([a, b, F(0)]) for a, b in zip(lb, hb)])
  x = gen.gen_flow(rng, lb, hb, 'mixed')
  k = rng.randrange(n)
  x[k] = (hb[k] + Fraction(1, 4)) if rng.random() < 0.5 else (lb[k] - Fraction(1, 4))   # outside the box
  P.append(x)
  rng.shuffle(P)
  P = P[:max(count, 3)]
  return [[fs(v) for v in x] for x in P]


def nudge_off_zero(x, lb, hb):
  """move entries that are exactly 0 to a nearby non-zero in-box value (lossy storage has a kink at 0)."""
  out = []
  for v, a, b in zip(x, lb, hb):
    if v == 0:
      v = Fraction(1, 8) if b >= Fraction(1, 8) else (-Fraction(1, 8) if a <= -Fraction(1, 8) else v)
    out.append(v)
  return out
