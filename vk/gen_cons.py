"""Generators and canonicalisation shared by C03 (feasible set) and C06 (constraint Jacobians).

Description-first: a case is a leaf / tree description (exact dyadic rationals as strings) plus probe
flows; `build.py` constructs the real objects from it, the same description goes to the Lean driver
(`cons.leaf`, `cons.tree`, `cons.charge` in lean/DK/Driver/Cons.lean)."""
import math
from fractions import Fraction
from .common import F, fs, pf, dy
from . import gen, build

BIG = 10**18
ATOMIC = ['Device', 'PVDevice', 'CDevice', 'CDevice2', 'IDevice', 'IDevice2', 'GDevice', 'SDevice', 'TDevice', 'ADevice']


def np():
  import numpy
  return numpy


# ---------------------------------------------------------------- rows of the implementation, aligned to the model's
def scalar(v):
  a = np().asarray(v, dtype=float).reshape(-1)
  if a.size != 1:
    raise ValueError('constraint function returned %d values' % a.size)
  return float(a[0])


def type_code(c):
  return {'ineq': 0.0, 'eq': 1.0}.get(c.get('type'), 2.0)


def impl_rows(cons, probes, with_jac):
  """one row per exported constraint, in list order: [isEq, (hasJac,) values at the probes (, flat Jacobians at the probes)]."""
  rows = []
  for c in cons:
    row = [type_code(c)]
    if with_jac:
      row.append(1.0 if 'jac' in c else 0.0)
    for x in probes:
      row.append(scalar(c['fun'](x)))
    if with_jac and 'jac' in c:
      for x in probes:
        row += [float(u) for u in np().asarray(c['jac'](x), dtype=float).reshape(-1)]
    rows.append(row)
  return rows


def align_rows(mrows, irows):
  """order-insensitive comparison without a discontinuous sort key: every model row (in the model's order) takes the
  NEAREST unused implementation row of the same length (distance = largest relative entry difference; an undefined model
  entry matches a non-finite implementation entry).  Rows are never rounded, so values that agree within the tolerance can
  not be ordered differently on the two sides.  Unmatched implementation rows fill the unmatched positions / go last, so
  that a dropped, added or changed constraint still shows as a size or value disagreement.  Returns the flattened rows."""
  n_ = np()
  if mrows is None:
    return [v for r in irows for v in r]
  used = [False]*len(irows)
  by_len = {}
  for k, r in enumerate(irows):
    by_len.setdefault(len(r), []).append(k)
  arrs = {L: n_.array([irows[k] for k in ks], dtype=float).reshape(len(ks), L) for L, ks in by_len.items()}
  out = [None]*len(mrows)
  for mi, m in enumerate(mrows):
    L = len(m)
    ks = by_len.get(L)
    if not ks:
      continue
    M = n_.array([float('nan') if v is None else v for v in m], dtype=float)
    I = arrs[L]
    with n_.errstate(all='ignore'):
      d = n_.abs(I - M)/n_.maximum(1.0, n_.maximum(n_.abs(M), n_.abs(I)))
    mnan = n_.isnan(M)[None, :]
    inf_ = ~n_.isfinite(I)
    d = n_.where(mnan, n_.where(inf_, 0.0, n_.inf), n_.where(inf_, n_.inf, d))
    dist = d.max(axis=1) if L else n_.zeros(len(ks))
    best, bd = None, None
    for j, k in enumerate(ks):
      if not used[k] and (best is None or dist[j] < bd):
        best, bd = k, dist[j]
    if best is not None:
      used[best] = True
      out[mi] = irows[best]
  left = [irows[k] for k in range(len(irows)) if not used[k]]
  res = []
  for r in out:
    if r is None and left:
      r = left.pop(0)
    if r is not None:
      res.append(r)
  res += left
  return [v for r in res for v in r]


# ---------------------------------------------------------------- the model's rows (needed before the implementation's can be aligned)
_MODEL = {}


def _strip(x):
  if isinstance(x, dict):
    return {k: _strip(v) for k, v in x.items() if not k.startswith('_')}
  if isinstance(x, list):
    return [_strip(v) for v in x]
  return x


def _lkey(line):
  import json
  return json.dumps(_strip(line), sort_keys=True)


def prefetch(lines):
  """run the Lean model once for all the given `cons.leaf` / `cons.tree` lines and remember its rows."""
  from . import common as C
  need, seen = [], set()
  for l in lines:
    k = _lkey(l)
    if k not in _MODEL and k not in seen:
      seen.add(k); need.append((k, _strip(l)))
  if not need:
    return
  answers = C.run_model([l for _, l in need])
  for (k, _), ans in zip(need, answers):
    if 'ok' in ans:
      _MODEL[k] = [[None if v == 'undef' else pf(v) for v in row] for row in ans['ok']]
    else:
      _MODEL[k] = None


def model_rows(line):
  k = _lkey(line)
  if k not in _MODEL:
    prefetch([line])
  return _MODEL[k]


# ---------------------------------------------------------------- cumulative-bound forms
def feasible_limits(rng, lb, hb, a, b):
  """limits (l, h) for range [a, b) that pass the constructor's feasibility checks, l < h."""
  lo, hi = sum(lb[a:b], F(0)), sum(hb[a:b], F(0))
  w = hi - lo
  l = lo + w*Fraction(rng.randint(-2, 4), 8)
  h = max(l, lo) + (w if w > 0 else 1)*Fraction(rng.randint(1, 6), 8)
  if h <= l:
    h = l + 1
  return l, h


def gen_cbound_form(rng, n, lb, hb, form=None):
  """(rows, python form tag, form name).  Forms named by the property's quantifier:
  2-tuple, one 4-tuple (whole horizon or a sub-range), several contiguous, several overlapping."""
  forms = ['2tuple', 'one4', 'one4sub'] + (['contig', 'contig', 'overlap', 'overlap', 'nested'] if n >= 2 else [])
  form = form or rng.choice(forms)
  if form in ('2tuple', 'one4'):
    ranges = [(0, n)]
  elif form == 'one4sub':
    a = rng.randrange(0, n); ranges = [(a, rng.randint(a + 1, n))]
  elif form == 'contig':
    cuts = sorted(rng.sample(range(1, n), min(n - 1, rng.randint(1, 3))))
    pts = [0] + cuts + [n]
    ranges = list(zip(pts[:-1], pts[1:]))
  elif form == 'overlap':
    ranges = []
    for _ in range(rng.randint(2, 3)):
      a = rng.randrange(0, n); ranges.append((a, rng.randint(a + 1, n)))
  else:  # nested: the whole horizon plus a sub-range with its own limits
    a = rng.randrange(0, n); ranges = [(0, n), (a, rng.randint(a + 1, n))]
    if rng.random() < 0.5:
      ranges.reverse()
  rows = []
  for (a, b) in ranges:
    l, h = feasible_limits(rng, lb, hb, a, b)
    rows.append([l, h, a, b])
  return rows, ('2tuple' if form == '2tuple' else '4tuples'), form


# (description pair, python form): the description always carries the pair the setter stores; the python form says how the
# constructor receives it: absent, the keyword `rate_clip=None`, a scalar k (stored as (k, k)) or a pair (entries may be None)
RATE_CLIPS = [(None, 'absent'), (None, 'absent'), ([None, None], 'none_kw'), ([None, None], 'pair'),
              (['1', None], 'pair'), ([None, '1'], 'pair'), ([None, '5/4'], 'pair'), (['2', None], 'pair'), ([None, '3'], 'pair'),
              (['3/2', '2'], 'pair'), (['3', '5/4'], 'pair'), (['1', '2'], 'pair'), (['1', '1'], 'pair'),
              (['2', '2'], 'scalar'), (['1', '1'], 'scalar'), (['3/2', '3/2'], 'scalar')]


def gen_cons_leaf(rng, tier, cls=None, n=None):
  """a leaf description exercising the constraint list of its class."""
  cls = cls or rng.choice(ATOMIC + ['SDevice', 'SDevice', 'ADevice', 'Device'])
  d = gen.gen_leaf(rng, tier, [cls], n=n)
  n = d['n']
  lb = [F(x) for x in d['lb']]; hb = [F(x) for x in d['hb']]
  tag = {'cls': cls, 'cform': 'none'}
  if cls == 'CDevice2':
    # RangesFunction wants contiguous ranges that cover the horizon; gen_leaf has produced such a list (or the default)
    tag['cform'] = 'default' if d['_py'].get('cform') is None else ('contig' if len(d['cbs']) > 1 else d['_py']['cform'])
  elif rng.random() < (0.85 if cls != 'SDevice' else 0.4):
    rows, pyform, form = gen_cbound_form(rng, n, lb, hb)
    d['cbs'] = [[fs(r[0]), fs(r[1]), r[2], r[3]] for r in rows]
    d['_py']['cform'] = pyform
    tag['cform'] = form
  else:
    d['cbs'] = []; d['_py']['cform'] = None
  if cls == 'SDevice':
    rc, rcform = rng.choice(RATE_CLIPS)
    if rc is not None:
      d['prm']['rate_clip'] = list(rc)
    d['_py']['rcform'] = rcform
    tag['rate_clip'] = rcform + ':' + ('-' if rc is None else '/'.join('on' if v is not None else 'off' for v in rc))
    if rng.random() < 0.12:
      # the exported list must describe the device as it is NOW: build with another value, read .constraints, then use the setter
      prm = rng.choice(['reserve', 'start', 'efficiency', 'sustainment', 'capacity'])
      cur = F(d['prm'][prm])
      alt = {'reserve': min(F(1), cur + Fraction(1, 2)), 'start': (cur + Fraction(1, 2)) % 1, 'efficiency': Fraction(1, 2) if cur != Fraction(1, 2) else F(1),
             'sustainment': Fraction(3, 4) if cur != Fraction(3, 4) else F(1), 'capacity': cur + 2}[prm]
      d['_py']['reread'] = [prm, fs(alt)]
      tag['reread'] = prm
    tag['lossy'] = d['prm']['efficiency'] != '1'
    tag['leaky'] = d['prm']['sustainment'] != '1'
  if cls == 'ADevice' and rng.random() < 0.8:
    d['ucons'] = gen.gen_ucons(rng, n, lb, hb)
    tag['ucons'] = len(d['ucons'])
  return d, tag


# ---------------------------------------------------------------- building
def build_dev(d, id='dev'):
  """`build.build_block_device` plus the Python-side forms only this generator uses: `rate_clip` handed over as a scalar /
  as the keyword None, and a storage device one of whose parameters was set through its setter AFTER a first read of
  `.constraints` (the exported list must describe the device as it is now)."""
  py = d.get('_py', {})
  if d['cls'] != 'SDevice' or (py.get('rcform') in (None, 'pair', 'absent') and not py.get('reread')):
    return build.build_block_device(d, id)
  from .common import repo
  dk = repo()
  p = dict(d['prm'])
  rr = py.get('reread')
  if rr:
    p[rr[0]] = rr[1]
  kw = {k: pf(v) for k, v in p.items() if k != 'rate_clip'}
  form = py.get('rcform')
  if form == 'none_kw':
    kw['rate_clip'] = None
  elif form == 'scalar':
    kw['rate_clip'] = pf(p['rate_clip'][0])
  elif 'rate_clip' in p:
    kw['rate_clip'] = tuple(None if x is None else pf(x) for x in p['rate_clip'])
  dev = dk.SDevice(id, d['n'], build.py_bounds(d), build.py_cbounds(d), **kw)
  if rr:
    _ = dev.constraints
    setattr(dev, rr[0], pf(d['prm'][rr[0]]))
  return dev


RATIO_FORMS = ['list', 'tuple', 'intarray', 'floatarray', 'floatarray']


def build_tree(t, owned=None):
  """`build.build_tree` plus (a) the forms a caller may hand the two-ratio vector over in (`_py.rform`: list / tuple / integer
  ndarray when integer-valued / float64 ndarray) and (b) a record, in `owned`, of every array the CALLER still owns after
  construction (ratios, aggregate bounds), so that the oracle can check the library did not write into them."""
  n_ = np()
  from .common import repo
  dk = repo()
  owned = owned if owned is not None else []
  if t['k'] == 'leaf':
    return build_dev(t['dev'], t['id'])
  if t['k'] == 'mf':
    dev = build_dev(t['dev'], t['id'])
    if t.get('ratios'):
      vals = [pf(x) for x in t['ratios']]
      form = t.get('_py', {}).get('rform', 'list')
      if form == 'intarray' and not all(float(v).is_integer() for v in vals):
        form = 'floatarray'
      if form == 'tuple':
        r = tuple(vals)
      elif form == 'intarray':
        r = n_.array([int(v) for v in vals], dtype=int); owned.append(('ratios of ' + t['id'], r))
      elif form == 'floatarray':
        r = n_.array(vals, dtype=float); owned.append(('ratios of ' + t['id'], r))
      else:
        r = list(vals)
      return dk.TwoRatioMFDeviceSet(dev, list(t['flows']), r, t.get('ctype', 'eq'))
    return dk.MFDeviceSet(dev, list(t['flows']))
  kids = [build_tree(c, owned) for c in t['ch']]
  sb = None
  if t.get('sb') is not None:
    sb = n_.array([[pf(a), pf(b)] for a, b in t['sb']])
    owned.append(('sbounds of ' + t['id'], sb))
  if t.get('sub'):
    return dk.SubBalancedDeviceSet(t['id'], kids, sb, labels=list(t.get('labels', [])), constraint_type=t.get('ctype', 'eq'),
                                   sign=pf(t.get('sign', '1')), apply_to_remaining=bool(t.get('rem', False)))
  return dk.DeviceSet(t['id'], kids, sb)


def int_flow(rng, lb, hb, avoid_zero=()):
  """an all-integer flow (Python ints): inside the bounds wherever a slot's bounds contain an integer, else the rounded
  midpoint; entries listed in `avoid_zero` take a non-zero integer when the bounds allow one."""
  out = []
  for k, (a, b) in enumerate(zip(lb, hb)):
    lo, hi = math.ceil(a), math.floor(b)
    if lo > hi:
      out.append(int(round((a + b)/2)))
      continue
    cand = list(range(lo, hi + 1))
    if k in avoid_zero:
      cand = [c for c in cand if c != 0] or cand
    out.append(rng.choice(cand))
  return out


# ---------------------------------------------------------------- the documented semantics, coded independently
def eff(e, x):
  return e if x > 0 else (1.0/e if x < 0 else 1.0)


def soc_loop(prm, x):
  """state of charge after every slot by the documented first-order recurrence."""
  cap, start = pf(prm['capacity']), pf(prm['start'])
  e, s = pf(prm['efficiency']), pf(prm['sustainment'])
  c = start*cap
  out = []
  for xi in x:
    c = s*c + xi*eff(e, xi)
    out.append(c)
  return out


def spec_slacks(d, x):
  """[(name, slack)] of every documented hard constraint of the description `d` at the flow `x` (floats);
  the flow is feasible iff every slack is >= 0.  Equalities contribute -|value|."""
  n = d['n']
  lb = [pf(v) for v in d['lb']]; hb = [pf(v) for v in d['hb']]
  out = []
  for k in range(n):
    out.append(('lb[%d]' % k, x[k] - lb[k])); out.append(('hb[%d]' % k, hb[k] - x[k]))
  for ci, (l, h, a, b) in enumerate(d.get('cbs') or []):
    t = 0.0
    for k in range(int(a), min(int(b), n)):
      t += x[k]
    out.append(('cbound%d[%d:%d]>=%s' % (ci, a, b, l), t - pf(l))); out.append(('cbound%d[%d:%d]<=%s' % (ci, a, b, h), pf(h) - t))
  if d['cls'] == 'SDevice':
    p = d['prm']; cap = pf(p['capacity'])
    c = soc_loop(p, x)
    for i in range(n):
      out.append(('soc[%d]>=0' % i, c[i])); out.append(('soc[%d]<=capacity' % i, cap - c[i]))
    out.append(('soc[last]>=reserve*capacity', c[n - 1] - pf(p['reserve'])*cap))
    rc = p.get('rate_clip') or [None, None]
    if rc[0] is not None:
      for i in range(n):
        out.append(('rate_clip_lo[%d]' % i, x[i] - pf(rc[0])*lb[i]*(c[i]/cap)))
    if rc[1] is not None:
      for i in range(n):
        out.append(('rate_clip_hi[%d]' % i, pf(rc[1])*hb[i]*(1 - c[i]/cap) - x[i]))
  for ui, u in enumerate(d.get('ucons') or []):
    v = sum(pf(w)*xk for w, xk in zip(u['w'], x)) + pf(u['c'])
    out.append(('user%d(%s)' % (ui, u['type']), v if u['type'] == 'ineq' else -abs(v)))
  return out


# ---------------------------------------------------------------- probe flows
def gen_probes(rng, d, count=7):
  """probe flows (protocol strings): interior, box vertices, exactly on a cumulative bound, just inside /
  outside it, outside the box; for storage also flows that over/under-fill."""
  n = d['n']
  lb = [F(x) for x in d['lb']]; hb = [F(x) for x in d['hb']]
  P = []
  P.append(gen.gen_flow(rng, lb, hb, 'interior'))
  P.append(gen.gen_flow(rng, lb, hb, 'mixed'))
  P.append(gen.gen_flow(rng, lb, hb, rng.choice(['lower', 'upper'])))
  for cb in (d.get('cbs') or []):
    l, h, a, b = F(cb[0]), F(cb[1]), int(cb[2]), min(int(cb[3]), n)
    if b <= a:
      continue
    x = gen.gen_flow(rng, lb, hb, 'interior')
    k = rng.randrange(a, b)
    target = rng.choice([l, h])
    x[k] += target - sum(x[a:b], F(0))          # exactly on the limit
    P.append(list(x))
    y = list(x); y[k] += rng.choice([-1, 1])*Fraction(1, 64)   # just inside / outside
    P.append(y)
  if d['cls'] == 'SDevice':
    cap = F(d['prm']['capacity'])
    x = gen.gen_flow(rng, lb, hb, 'interior')
    k = rng.randrange(n)
    x[k] += rng.choice([-1, 1])*cap              # far over / under
    P.append(x)
    P.append([rng.choice([a, b, F(0)]) for a, b in zip(lb, hb)])
  x = gen.gen_flow(rng, lb, hb, 'mixed')
  k = rng.randrange(n)
  x[k] = (hb[k] + Fraction(1, 4)) if rng.random() < 0.5 else (lb[k] - Fraction(1, 4))   # outside the box
  P.append(x)
  rng.shuffle(P)
  P = P[:max(count, 3)]
  return [[fs(v) for v in x] for x in P]


def nudge_off_zero(x, lb, hb):
  """move entries that are exactly 0 to a nearby non-zero in-box value (lossy storage has a kink at 0)."""
  out = []
  for v, a, b in zip(x, lb, hb):
    if v == 0:
      v = Fraction(1, 8) if b >= Fraction(1, 8) else (-Fraction(1, 8) if a <= -Fraction(1, 8) else v)
    out.append(v)
  return out
