#!/usr/bin/env python3
"""T1 — translate the scalar straight-line Python of device_kit into Lean.

Regenerated on every check run from the *current* working tree of the
repository (DK_REPO, default /repo).  Output: lean/DK/Gen/Kernels.lean
(scalar kernels of functions.py + their definedness side-conditions) and
lean/DK/Gen/Validators.lean (scalar parameter validators).  DK/Lemmas/Bridge.lean
proves each generated definition equal to the hand-written model definition, so
a change of the Python source either keeps the bridge provable (algebraically
equivalent rewrite) or breaks a proof obligation.

Supported subset (anything else makes the unit UNTRANSLATABLE, which also breaks
the bridge and is reported in the evidence):
  statements : docstring, `x = e` (fresh name), `if c: <block ending in return/raise>`, `return e`, `raise`
  expressions: names, int literals, + - * / **, unary minus, `e1 if c else e2`,
               Cls.static(args) for sibling kernels, np.poly1d([..])(t) (Horner)
  conditions : comparisons (chained allowed), and / or / not
"""
import ast, os, sys, hashlib

REPO = os.environ.get('DK_REPO', '/repo')
HERE = os.path.dirname(os.path.abspath(__file__))
GEN = os.path.join(HERE, '..', 'lean', 'DK', 'Gen')

KERNELS = {'ABCCost': ['s', 'q', '_cost', '_deriv', '_hess'], 'HLQuadraticCost': ['_cost', '_deriv', '_hess']}
PREFIX = {'ABCCost': 'abc', 'HLQuadraticCost': 'hlq'}


class Unsupported(Exception):
  pass


def exponent_names(fn):
  """names used inside a non-literal exponent: they get the exponent type ε."""
  names = set()
  for n in ast.walk(fn):
    if isinstance(n, ast.BinOp) and isinstance(n.op, ast.Pow):
      r = n.right
      if not (isinstance(r, ast.Constant) and isinstance(r.value, int)):
        for m in ast.walk(r):
          if isinstance(m, ast.Name):
            names.add(m.id)
  return names


class Tr:
  def __init__(self, exps, siblings):
    self.exps = exps          # names typed ε
    self.siblings = siblings  # (cls, meth) -> (leanname, argkinds, uses_pow, uses_cast)
    self.uses_pow = False
    self.uses_cast = False

  # ---- expressions: returns (lean_text, [side conditions as lean Props])
  def expr(self, e, expmode=False):
    T = 'ε' if expmode else 'α'
    if isinstance(e, ast.Constant) and isinstance(e.value, int) and not isinstance(e.value, bool):
      return (f"({e.value} : {T})" if e.value >= 0 else f"(-({-e.value} : {T}))"), []
    if isinstance(e, ast.Constant):
      raise Unsupported(f'literal {e.value!r}')
    if isinstance(e, ast.Name):
      if e.id in self.exps and not expmode:
        self.uses_cast = True
        return f"(cast {e.id})", []
      if expmode and e.id not in self.exps:
        raise Unsupported(f'scalar name {e.id} inside an exponent')
      return e.id, []
    if isinstance(e, ast.UnaryOp) and isinstance(e.op, ast.USub):
      t, c = self.expr(e.operand, expmode)
      return f"(-{t})", c
    if isinstance(e, ast.IfExp):
      ct, cc = self.cond(e.test)
      a, ca = self.expr(e.body, expmode)
      b, cb = self.expr(e.orelse, expmode)
      conds = cc + [f"(({ct}) → {x})" for x in ca] + [f"(¬ ({ct}) → {x})" for x in cb]
      return f"(if {ct} then {a} else {b})", conds
    if isinstance(e, ast.BinOp):
      if isinstance(e.op, ast.Pow):
        l, cl = self.expr(e.left, expmode)
        if isinstance(e.right, ast.Constant) and isinstance(e.right.value, int) and 0 <= e.right.value <= 4:
          k = e.right.value
          return ("(1 : α)" if k == 0 else "(" + " * ".join([l]*k) + ")"), cl
        if expmode:
          raise Unsupported('nested power')
        r, cr = self.expr(e.right, True)
        self.uses_pow = True
        return f"(pow {l} {r})", cl + cr + [f"powDef {l} {r}"]
      l, cl = self.expr(e.left, expmode)
      r, cr = self.expr(e.right, expmode)
      if isinstance(e.op, ast.Add): return f"({l} + {r})", cl + cr
      if isinstance(e.op, ast.Sub): return f"({l} - {r})", cl + cr
      if isinstance(e.op, ast.Mult): return f"({l} * {r})", cl + cr
      if isinstance(e.op, ast.Div):
        if expmode: raise Unsupported('division inside an exponent')
        return f"({l} / {r})", cl + cr + [f"{r} ≠ 0"]
      raise Unsupported(f'operator {type(e.op).__name__}')
    if isinstance(e, ast.Call):
      f = e.func
      if isinstance(f, ast.Attribute) and isinstance(f.value, ast.Name) and (f.value.id, f.attr) in self.siblings:
        name, kinds, upow, ucast = self.siblings[(f.value.id, f.attr)]
        if len(kinds) != len(e.args): raise Unsupported('arity of sibling call')
        args, conds = [], []
        for a, k in zip(e.args, kinds):
          t, c = self.expr(a, k == 'ε'); args.append(t); conds += c
        pre = ''
        if upow: pre += ' pow'; self.uses_pow = True
        if ucast: pre += ' cast'; self.uses_cast = True
        dpre = (' pow powDef' if upow else '') + (' cast' if ucast else '')
        conds.append(f"{name}_defined{dpre} {' '.join(args)}")
        return f"({name}{pre} {' '.join(args)})", conds
      if (isinstance(f, ast.Call) and isinstance(f.func, ast.Attribute) and f.func.attr == 'poly1d'
          and len(f.args) == 1 and isinstance(f.args[0], ast.List) and len(e.args) == 1):
        cs, conds = [], []
        for c in f.args[0].elts:
          t, cc = self.expr(c); cs.append(t); conds += cc
        t, ct = self.expr(e.args[0]); conds += ct
        acc = cs[0]
        for c in cs[1:]:
          acc = f"({acc} * {t} + {c})"
        return acc, conds
      raise Unsupported('call ' + ast.dump(f)[:60])
    raise Unsupported(ast.dump(e)[:80])

  def cond(self, e):
    if isinstance(e, ast.Compare):
      ops = {ast.Eq: '=', ast.NotEq: '≠', ast.Lt: '<', ast.LtE: '≤', ast.Gt: '>', ast.GtE: '≥'}
      parts, conds = [], []
      left = e.left
      for op, right in zip(e.ops, e.comparators):
        if type(op) not in ops: raise Unsupported('comparison ' + type(op).__name__)
        l, cl = self.expr(left); r, cr = self.expr(right); conds += cl + cr
        parts.append(f"{l} {ops[type(op)]} {r}")
        left = right
      return (' ∧ '.join(parts) if len(parts) > 1 else parts[0]), conds
    if isinstance(e, ast.BoolOp):
      sub = [self.cond(v) for v in e.values]
      j = ' ∧ ' if isinstance(e.op, ast.And) else ' ∨ '
      return j.join(f"({t})" for t, _ in sub), [c for _, cs in sub for c in cs]
    if isinstance(e, ast.UnaryOp) and isinstance(e.op, ast.Not):
      t, c = self.cond(e.operand)
      return f"¬ ({t})", c
    raise Unsupported('condition ' + ast.dump(e)[:60])

  # ---- function bodies: returns (value_text, defined_text)
  def body(self, stmts, bound, ind):
    pad = '  ' * ind
    if not stmts: raise Unsupported('fall-through without return')
    s, rest = stmts[0], stmts[1:]
    if isinstance(s, ast.Expr) and isinstance(s.value, ast.Constant) and isinstance(s.value.value, str):
      return self.body(rest, bound, ind)
    if isinstance(s, ast.Return):
      if s.value is None: raise Unsupported('bare return')
      t, c = self.expr(s.value)
      return pad + t, pad + (' ∧ '.join(f"({x})" for x in c) if c else 'True')
    if isinstance(s, ast.Assign) and len(s.targets) == 1 and isinstance(s.targets[0], ast.Name):
      x = s.targets[0].id
      if x in bound: raise Unsupported(f're-assignment of {x}')
      t, c = self.expr(s.value)
      v, d = self.body(rest, bound | {x}, ind)
      cpre = (' ∧ '.join(f"({k})" for k in c) + ' ∧\n' + pad) if c else ''
      return f"{pad}let {x} := {t}\n{v}", f"{pad}{cpre}(let {x} := {t}\n{d})"
    if isinstance(s, ast.If) and not s.orelse:
      ct, cc = self.cond(s.test)
      tv, td = self.body(s.body, bound, ind + 1)
      ev, ed = self.body(rest, bound, ind + 1)
      cpre = (' ∧ '.join(f"({k})" for k in cc) + ' ∧ ') if cc else ''
      return (f"{pad}if {ct} then\n{tv}\n{pad}else\n{ev}",
              f"{pad}{cpre}(({ct}) →\n{td}) ∧ (¬ ({ct}) →\n{ed})")
    raise Unsupported(type(s).__name__ + ' statement')


HEADER = """-- GENERATED by vk/translate.py from {src} — do not edit.
-- source sha256: {sha}
import DK.Model.Basic
set_option linter.unusedVariables false
namespace DK.Gen
section
variable {{α : Type}} [Add α] [Sub α] [Mul α] [Div α] [Neg α] [OfNat α 0] [OfNat α 1] [OfNat α 2]
  [LT α] [LE α] [DecidableEq α] [DecidableLT α] [DecidableLE α]
variable {{ε : Type}} [Sub ε] [OfNat ε 1] [OfNat ε 2]
"""


def translate_kernels(src_path, info=None):
  src = open(src_path).read()
  tree = ast.parse(src)
  out = [HEADER.format(src='device_kit/functions.py', sha=hashlib.sha256(src.encode()).hexdigest()[:16])]
  units, fallback = [], []
  siblings = {}
  if os.path.join(HERE, '..') not in sys.path: sys.path.insert(0, os.path.join(HERE, '..'))
  _tv = __import__('vk.translate_vec', fromlist=['scan_bindings'])      # (lazy: translate_vec imports this module)
  tainted, _ = _tv.scan_bindings(os.path.dirname(src_path), set(KERNELS))      # rebinding / decorators / duplicate defs of a kernel
  for node in tree.body:
    if isinstance(node, ast.ClassDef) and node.name in KERNELS:
      fns = {f.name: f for f in node.body if isinstance(f, ast.FunctionDef)}
      for m in KERNELS[node.name]:
        lname = f"{PREFIX[node.name]}_{m.lstrip('_')}"
        where = f"functions.py:{fns[m].lineno}" if m in fns else 'functions.py'
        if m not in fns:
          out.append(f"-- UNTRANSLATABLE {node.name}.{m}: method not found\n"); fallback.append((lname, where, 'missing')); continue
        if (node.name, m) in tainted or (node.name, '*') in tainted:
          why = 'the `def` is not what the name denotes: ' + tainted.get((node.name, m), tainted.get((node.name, '*')))
          out.append(f"-- UNTRANSLATABLE {node.name}.{m} ({where}): {why}\n"); fallback.append((lname, where, why)); continue
        f = fns[m]
        args = [a.arg for a in f.args.args]
        exps = exponent_names(f)
        # a parameter passed to a sibling's exponent parameter is an exponent too
        for c in ast.walk(f):
          if isinstance(c, ast.Call) and isinstance(c.func, ast.Attribute) and isinstance(c.func.value, ast.Name) \
             and (c.func.value.id, c.func.attr) in siblings:
            kinds = siblings[(c.func.value.id, c.func.attr)][1]
            for a, k in zip(c.args, kinds):
              if k == 'ε' and isinstance(a, ast.Name): exps.add(a.id)
        tr = Tr(exps, siblings)
        try:
          val, dfn = tr.body(f.body, set(args), 1)
        except Unsupported as u:
          out.append(f"-- UNTRANSLATABLE {node.name}.{m} ({where}): {u}\n"); fallback.append((lname, where, str(u))); continue
        kinds = ['ε' if a in exps else 'α' for a in args]
        binders = ' '.join(f"({a} : {k})" for a, k in zip(args, kinds))
        pre = ('(pow : α → ε → α) ' if tr.uses_pow else '') + ('(cast : ε → α) ' if tr.uses_cast else '')
        dpre = ('(pow : α → ε → α) (powDef : α → ε → Prop) ' if tr.uses_pow else '') + ('(cast : ε → α) ' if tr.uses_cast else '')
        out.append(f"/-- `{node.name}.{m}` ({where}) -/")
        out.append(f"def {lname} {pre}{binders} : α :=\n{val}\n")
        out.append(f"/-- every `/` has a non-zero divisor and every general power is defined, on the path that reaches it -/")
        out.append(f"def {lname}_defined {dpre}{binders} : Prop :=\n{dfn}\n")
        siblings[(node.name, m)] = (lname, kinds, tr.uses_pow, tr.uses_cast)
        units.append((lname, where))
  out += ["end", "end DK.Gen", ""]
  if info is not None:
    info['siblings'] = dict(siblings)      # (class, method) -> (lean name, kinds, uses_pow, uses_cast), for vk/translate_vec.py
  return '\n'.join(out), units, fallback


def write_if_changed(path, text):
  os.makedirs(os.path.dirname(path), exist_ok=True)
  old = open(path).read() if os.path.exists(path) else None
  if old != text:
    tmp = path + '.tmp%d' % os.getpid()
    open(tmp, 'w').write(text)
    os.replace(tmp, path)
    return True
  return False


def regenerate(repo=None):
  repo = repo or REPO
  text, units, fallback = translate_kernels(os.path.join(repo, 'device_kit', 'functions.py'))
  changed = write_if_changed(os.path.join(GEN, 'Kernels.lean'), text)
  return {'changed': changed, 't1_units': [f"{n} @ {w}" for n, w in units],
          't1_fallback_units': [f"{n} @ {w}: {why}" for n, w, why in fallback]}


def regenerate_all(repo=None):
  """every generated Lean file: scalar kernels, class table, validators, vector method bodies (vk/translate_vec.py), set-level glue (vk/translate_sets.py), loader helpers (vk/translate_loaders.py)."""
  out = regenerate(repo)
  for modname in ('translate_classes', 'translate_validators', 'translate_vec', 'translate_sets', 'translate_loaders'):
    try:
      mod = __import__('vk.' + modname, fromlist=['regenerate'])
    except ImportError:
      continue
    extra = mod.regenerate(repo or REPO)
    out['changed'] = out['changed'] or extra.get('changed', False)
    out['t1_units'] += extra.get('t1_units', [])
    out['t1_fallback_units'] += extra.get('t1_fallback_units', [])
    for k, v in extra.items():
      if k not in ('changed', 't1_units', 't1_fallback_units'):
        out[k] = v
  return out


if __name__ == '__main__':
  import json
  sys.path.insert(0, os.path.join(HERE, '..'))
  print(json.dumps(regenerate_all(sys.argv[1] if len(sys.argv) > 1 else None), indent=1))
