#!/usr/bin/env python3
"""T1l — translate the LOADER helpers of device_kit (loaders/builder_loader.py: run_to_array, run_to_cbounds_array,
load_cbounds, the `bounds` rule of every load_<kind>_device incl. the supply negate-and-swap and the fixed-load test, the
`parameter_map` dict literals and the storage renaming comprehension; utils.py: care2bounds, on2bounds) into Lean.

Same tie as vk/translate_vec.py / vk/translate_sets.py: regenerated on every check run from the current working tree
(DK_REPO, default /repo) into lean/DK/Gen/Loaders/<Group>.lean (+ fixed Prelude, umbrella lean/DK/Gen/Loaders.lean);
lean/DK/Lemmas/BridgeLoaders/<Group>.lean proves every generated unit equal to the model definition of
DK/Model/Loader.lean the C20 theorems are about (`runToArray`, `runToCbounds`, `loadCbounds`, `tableBounds`, `supplyPair`,
the fixed-load test of `loadDevice`, `storageParams`, `care2bounds`, `on2bounds`) — for EVERY run dictionary with distinct
keys in any key order, every basis, every mask / on-list.

Denotation.  A JSON object whose keys are canonical non-negative decimal integers is an association list
`List (Nat × V)` in insertion order; a key is denoted by the number it spells, so `int(k)` is the identity on the
denotation, `sorted(keys, key=int)` is `sortedInt` (stable, by number) and `sorted(keys)` is `sortedStr` (stable, by the
decimal STRING) — never the other.  A key is not an index: `a[k:e]` without `int(k)` is rejected.  Whatever can raise
(`d[k]`, `l[i]`, a call of another unit, `raise`) is a bind of `Except LoadErr`, in Python's evaluation order; a `for`
loop is a `List.foldlM` of its body over the thing iterated (`enumerate(l)`, `range(a, b, step)`, a list), the state
being the ONE name the body rebinds; `a[s:e] = row` is `setSlice` on an index function of known length (slices clip);
numpy arrays are index functions (`Nat → α`, `Nat → α × α` for a (len, 2) table, `Nat → List α`), Python ints used as
lengths / indices are `Nat` with truncated subtraction.  A unit is translated once per FORM of its argument (run values:
scalars / pairs / lists; helper `bounds`: 2-tuple of scalars / 2-tuple of vectors / one vector): `hasattr(x, '__len__')`,
`len(pair)`, `len(bounds) == 2` are evaluated for that form, `len(vector) == 2` stays the dynamic test `n = 2`.

Soundness rules (anything else: `-- UNTRANSLATABLE` with file:line, a broken obligation, never guessed): only the
listed calls with the listed keywords (`sorted(key=int)`, `np.stack(axis=1)`, `np.flip(axis=0|1)`, `enumerate(start)`);
item assignment / `del` / `.append` / `+=` only on objects built in the unit (`np.zeros`, a list display, a deepcopy, the
result of a call) — an in-place edit of an argument is rejected; no lambdas / nested defs (late binding); exactly one
loop-carried name; a unit name, a builtin it uses or `np` / `deepcopy` rebound anywhere at module level (second def,
assignment, import, decorator, star-import that defines it) taints every unit of that file; `logger.*(...)` statements
are skipped (trusted to have no effect on the result).
Trusted configuration: the FORM tables below (which dictionary entries exist and of what kind), `len(care) = len(bounds
vector) = n`, rows assigned into an array have the array's row shape (homogeneous runs: the numpy broadcasting of odd
shapes is `runToArrayNp`'s business, T2 only), the reading of `device_kit.<Class>(id, basis, bounds, …)`'s third argument
as the device's bounds.
"""
import ast, os, sys, hashlib, re

HERE = os.path.dirname(os.path.abspath(__file__))
if __name__ == '__main__' or __package__ in (None, ''):
  sys.path.insert(0, os.path.join(HERE, '..'))
  from vk import translate as T1
else:
  from . import translate as T1

REPO = os.environ.get('DK_REPO', '/repo')
GEN = os.path.join(HERE, '..', 'lean', 'DK', 'Gen')
Unsupported = T1.Unsupported

LOADER = 'loaders/builder_loader.py'
UTILS = 'utils.py'
GROUPS = ['Runs', 'Devices', 'Helpers']
GROUP_FILES = {'Runs': [LOADER], 'Devices': [LOADER], 'Helpers': [UTILS]}
GROUP_IMPORTS = {'Runs': [], 'Devices': ['Runs'], 'Helpers': []}

# kinds of values a run dictionary carries
VK_TY = {'S': 'α', 'P': 'α × α', 'L': 'List α'}
VK_WORD = {'S': 'scalars', 'P': 'pairs', 'L': 'lists'}
FORM_OF_VK = {'S': 'scalar', 'P': 'pair', 'L': 'vec'}
# entries of an exported device dictionary the translated slices may read: name -> (kind, value kind, optional?)
DEVICE_FIELDS = {'bounds': ('RUN', 'P', False), 'cumulative_bounds': ('RUN', 'P', True), 'parameters': ('SDICT', 'S', False)}
BUILTINS_USED = {'sorted', 'int', 'len', 'enumerate', 'hasattr', 'range', 'list', 'np', 'deepcopy', 'zip'}
EXC = {'Exception': 'exception', 'KeyError': 'keyError', 'ValueError': 'valueError', 'TypeError': 'typeError', 'IndexError': 'indexError'}
LEAN_RESERVED = {'at', 'from', 'fun', 'end', 'in', 'do', 'then', 'else', 'if', 'let', 'have', 'show', 'by', 'open', 'def', 'section', 'where',
                 'with', 'match', 'for', 'mut', 'return', 'Type', 't', 'pure', 'throw', 'some', 'none', 'α'}


class U:
  def __init__(self, fn, group, file=LOADER, form='', sub=None, params=None, helper=None):
    self.fn, self.group, self.file, self.form, self.sub, self.params, self.helper = fn, group, file, form, sub, params or {}, helper
    self.lean = fn + ('_' + sub if sub else '') + ('_' + form if form else '')
    self.qual = fn + ('::' + sub if sub else '') + (' [%s]' % self.form_words() if form else '')
    self.ok = False; self.line = 0; self.calls = []; self.ret = None

  def form_words(self):
    if self.helper: return {'pair': 'bounds: 2-tuple of scalars', 'pairvec': 'bounds: 2-tuple of vectors', 'vector': 'bounds: one vector'}[self.form]
    return {'scalar': 'values: scalars', 'pair': 'values: pairs', 'vec': 'values: lists'}[self.form]


KINDS = ['load', 'fixed_load', 'storage', 'supply', 'thermal_load']
UNITS = (
  [U('run_to_array', 'Runs', form=f, params={'run': ('RUN', k)}) for f, k in (('scalar', 'S'), ('pair', 'P'), ('vec', 'L'))]
  + [U('run_to_cbounds_array', 'Runs', params={'run': ('RUN', 'P')}), U('load_cbounds', 'Runs', params={'d': ('DEVD',)})]
  + [U('load_%s_device' % k, 'Devices', sub='bounds', params={'d': ('DEVD',), 'basis': ('N',)}) for k in KINDS]
  + [U('load_storage_device', 'Devices', sub='parameter_map'), U('load_thermal_load_device', 'Devices', sub='parameter_map'),
     U('load_storage_device', 'Devices', sub='params', params={'d': ('DEVD',), 'basis': ('N',)})]
  + [U('care2bounds', 'Helpers', file=UTILS, form=f, helper='care', params={'device': ('HELPD', f)}) for f in ('pair', 'pairvec', 'vector')]
  + [U('on2bounds', 'Helpers', file=UTILS, form=f, helper='on', params={'device': ('HELPD', f), 'l': ('N',)}) for f in ('pair', 'pairvec', 'vector')]
)

T2_ONLY = [
  ('load_data', LOADER, '`globals()` dispatch on the device type, DeviceSet construction (the `name` quirk is the model\'s `loadData`)'),
  ('load_cost_function, _reshape_offset_quad_coeffs', LOADER, 'builds Poly2DOffset / X2D / RangesFunction / DemandFunction / SumFunction objects (Python objects <-> `Fn`: T2 fingerprints + loader.dcost)'),
  ('load_*_device beyond the `bounds` slice', LOADER, 'device ids, `params` keyword plumbing, `rate_clip` tuple item assignment (storage with clipping: open finding), ReflectedFunction wrapping, device constructors (validators are C11)'),
  ('load_thermal_load_device: t_range', LOADER, '`params[\'t_range\'] = run_to_array(…)` hands an ARRAY to a scalar validator (open finding: thermal cannot load for basis >= 2)'),
  ('run_to_array on runs of mixed shapes', LOADER, 'numpy broadcasting of a list into a scalar slice etc. (`runToArrayNp`, `npCheck` / `npAt`): T2 only'),
  ('load_file, main', LOADER, 'file / argv handling'),
]


def lname(x):
  if x in LEAN_RESERVED or re.fullmatch(r'(x|it)\d+', x): return x + '_'
  return x


# ----------------------------------------------------------------------------------------------- bindings around the units
def top_names(tree):
  """names a module binds at top level (what `from m import *` brings, unless `__all__`)."""
  out = set()
  for node in tree.body:
    if isinstance(node, (ast.FunctionDef, ast.ClassDef, ast.AsyncFunctionDef)): out.add(node.name)
    elif isinstance(node, ast.Assign):
      for t in node.targets:
        out |= {z.id for z in ast.walk(t) if isinstance(z, ast.Name)}
    elif isinstance(node, (ast.AugAssign, ast.AnnAssign)) and isinstance(node.target, ast.Name): out.add(node.target.id)
    elif isinstance(node, ast.Import): out |= {(a.asname or a.name).split('.')[0] for a in node.names}
    elif isinstance(node, ast.ImportFrom): out |= {a.asname or a.name for a in node.names if a.name != '*'}
  return {n for n in out if not n.startswith('_')}


def scan_module(repo, relfile, watched):
  """what, apart from its one `def`, binds a watched name (a unit, a builtin / module a unit relies on) in this module?
  -> {name: reason}.  `np` and `deepcopy` must be bound exactly by `import numpy as np` / `from copy import deepcopy`."""
  path = os.path.join(repo, 'device_kit', relfile)
  tree = ast.parse(open(path).read())
  fn = os.path.basename(relfile)
  taint = {}
  def hit(name, why):
    taint.setdefault(name, '%s:%s' % (fn, why))
  seen = {}
  for node in ast.walk(tree):
    if isinstance(node, ast.Global):
      for n_ in node.names:
        if n_ in watched: hit(n_, '%d `global %s`' % (node.lineno, n_))
  for node in tree.body:
    if isinstance(node, (ast.FunctionDef, ast.AsyncFunctionDef, ast.ClassDef)):
      if node.name in watched:
        if node.name in seen or node.name in BUILTINS_USED: hit(node.name, '%d defines `%s` (again)' % (node.lineno, node.name))
        seen[node.name] = node
        if getattr(node, 'decorator_list', None): hit(node.name, '%d decorator on `%s`' % (node.lineno, node.name))
      continue
    if isinstance(node, ast.Import):
      for a in node.names:
        nm = (a.asname or a.name).split('.')[0]
        if nm in watched and not (nm == 'np' and a.name == 'numpy'): hit(nm, '%d `import` binds `%s`' % (node.lineno, nm))
      continue
    if isinstance(node, ast.ImportFrom):
      for a in node.names:
        if a.name == '*':
          mod = (node.module or '')
          cand = os.path.join(repo, *mod.split('.')) + '.py'
          if mod.startswith('device_kit') and os.path.exists(cand):
            try:
              names = top_names(ast.parse(open(cand).read()))
            except SyntaxError:
              names = set(watched)
            for nm in sorted((names & watched) - {'np'}): hit(nm, '%d `from %s import *` binds `%s`' % (node.lineno, mod, nm))
          else:
            for nm in sorted(watched): hit(nm, '%d star import of `%s` (cannot be read)' % (node.lineno, mod))
        else:
          nm = a.asname or a.name
          if nm in watched and not (nm == 'deepcopy' and node.module == 'copy' and a.name == 'deepcopy'):
            hit(nm, '%d `from %s import` binds `%s`' % (node.lineno, node.module, nm))
      continue
    # any other top-level statement (assignments, loops, with, try, if … incl. the __main__ guard): names it stores
    for z in ast.walk(node):
      if isinstance(z, ast.Name) and isinstance(z.ctx, (ast.Store, ast.Del)) and z.id in watched:
        hit(z.id, '%d rebinds `%s` at module level' % (z.lineno, z.id))
      if isinstance(z, (ast.FunctionDef, ast.ClassDef)) and z.name in watched:
        hit(z.name, '%d defines `%s` in a nested statement' % (z.lineno, z.name))
      if isinstance(z, ast.Call) and isinstance(z.func, ast.Name) and z.func.id in ('setattr', 'exec', 'eval'):
        for nm in sorted(watched): hit(nm, '%d `%s(...)` at module level' % (z.lineno, z.func.id))
  for node in ast.walk(tree):      # globals()[...] = … / vars()[...] = … anywhere
    if isinstance(node, (ast.Assign, ast.AugAssign, ast.Delete)):
      tg = node.targets if isinstance(node, (ast.Assign, ast.Delete)) else [node.target]
      for t in tg:
        if isinstance(t, ast.Subscript) and isinstance(t.value, ast.Call) and isinstance(t.value.func, ast.Name) and t.value.func.id in ('globals', 'vars', 'locals'):
          for nm in sorted(watched): hit(nm, '%d stores into `%s()`' % (node.lineno, t.value.func.id))
  return taint, {n_: d for n_, d in seen.items() if isinstance(d, ast.FunctionDef)}, tree


# ----------------------------------------------------------------------------------------------- values
class Val:
  """kind: I static int, B static bool, STR static str, NONE, N nat term, KEY dict key (denoted by its number), S scalar,
  STRV string term, P pair term, L list-of-scalars term, T tuple (items), LIST (term, et), ARR index function (elem, length,
  row 'S'|'P'|'L'), PV predicate vector, DICT (term, vk), SDICT (term), RUN (basis, runs, vk), DEVD / HELPD dictionaries."""
  def __init__(self, kind, **kw):
    self.kind = kind; self.fresh = False
    self.__dict__.update(kw)


def I(k): return Val('I', term=k)
def N(t): return Val('N', term=t)
def S(t): return Val('S', term=t)


def ty_of_et(et):
  if et == 'N' or et == 'KEY': return 'Nat'
  if et == 'S': return 'α'
  if et == 'STRV': return 'String'
  if et in VK_TY: return VK_TY[et]
  if isinstance(et, tuple) and et[0] == 'T':
    return ' × '.join(('(%s)' % ty_of_et(x)) if (isinstance(x, tuple) or x in ('P',)) else ty_of_et(x) for x in et[1:])
  raise Unsupported('element type %r' % (et,))


def is_ident(t):
  return re.fullmatch(r"[A-Za-z_][\w']*(\.\d)*|\d+", t) is not None


def par(t):
  return t if (is_ident(t) or (t.startswith('(') and t.endswith(')') and balanced(t[1:-1]))) else '(%s)' % t


def balanced(t):
  d = 0
  for c in t:
    if c == '(': d += 1
    elif c == ')':
      d -= 1
      if d < 0: return False
  return d == 0


class Ctx:
  def __init__(self, tu, unit):
    self.tu, self.unit = tu, unit
    self.out = []; self.ind = 1; self.tmp = 0; self.it = 0
    self.binders = []; self.binder_names = set()
    self.patch = {}       # name of an empty list display -> index of its `let` line (typed at the first append)

  # ---------------------------------------------------------------- emission
  def emit(self, line): self.out.append('  ' * self.ind + line)

  def fx(self):
    self.tmp += 1
    return 'x%d' % self.tmp

  def bind(self, op, val):
    """`let x ← op` for a fallible operation; `val(term)` builds the value."""
    x = self.fx()
    self.emit('let %s ← %s' % (x, op))
    return val(x)

  def binder(self, name, ty):
    if name not in self.binder_names:
      self.binder_names.add(name); self.binders.append('(%s : %s)' % (name, ty))
    return name

  def sub(self, f):
    """run `f` emitting into a fresh line list: (lines, result)."""
    saved, self.out = self.out, []
    try:
      r = f()
      return self.out, r
    finally:
      self.out = saved

  # ---------------------------------------------------------------- coercions
  def nat(self, v, what='index'):
    if v.kind == 'I':
      if v.term < 0: raise Unsupported('negative %s %d' % (what, v.term))
      return str(v.term)
    if v.kind == 'N': return v.term
    if v.kind == 'KEY': raise Unsupported('a dictionary key (a str) used as %s without int()' % what)
    raise Unsupported('%s of kind %s' % (what, v.kind))

  def sc(self, v):
    if v.kind == 'I': return '(%d : α)' % v.term if v.term >= 0 else '(-(%d : α))' % -v.term
    if v.kind == 'S': return v.term
    raise Unsupported('scalar expected, got kind ' + v.kind)

  def lean_type(self, v):
    if v.kind == 'N' or v.kind == 'KEY': return 'Nat'
    if v.kind == 'S': return 'α'
    if v.kind in ('P', 'L'): return VK_TY[v.kind]
    if v.kind == 'ARR': return 'Nat → ' + VK_TY[v.row]
    if v.kind == 'LIST':
      if v.et is None: raise Unsupported('a list whose element type is not known yet')
      return 'List (%s)' % ty_of_et(v.et)
    raise Unsupported('no Lean type for kind ' + v.kind)

  def et_of(self, v):
    if v.kind in ('N', 'I'): return 'N'
    if v.kind in ('S', 'KEY', 'STRV', 'P', 'L'): return v.kind
    if v.kind == 'T': return ('T',) + tuple(self.et_of(x) for x in v.items)
    raise Unsupported('list element of kind ' + v.kind)

  def elem_term(self, v):
    if v.kind == 'I': return str(self.nat(v, 'list element'))
    if v.kind in ('N', 'S', 'KEY', 'STRV', 'P', 'L'): return v.term
    if v.kind == 'T': return '(' + ', '.join(self.elem_term(x) for x in v.items) + ')'
    raise Unsupported('list element of kind ' + v.kind)

  def from_et(self, term, et):
    if et == 'N': return N(term)
    if et in ('S', 'KEY', 'STRV', 'P', 'L'): return Val(et, term=term)
    if isinstance(et, tuple) and et[0] == 'T':
      if len(et) != 3: raise Unsupported('iteration over tuples of %d components' % (len(et) - 1))
      return Val('T', items=[self.from_et(term + '.1', et[1]), self.from_et(term + '.2', et[2])], term=term, et=et)
    raise Unsupported('element type %r' % (et,))

  def arr(self, elem, length, row, **kw):
    return Val('ARR', elem=elem, length=length, row=row, **kw)

  def arr_term(self, v):
    if getattr(v, 'atom', None): return v.atom
    return 'fun t => ' + v.elem('t')

  def materialise(self, name, v):
    """bind a value computed by an assignment to a Lean `let` (shadowing any earlier binding of the name)."""
    ln = lname(name)
    if v.kind in ('N', 'S', 'KEY', 'STRV', 'P', 'L'):
      if v.term != ln: self.emit('let %s := %s' % (ln, v.term))
      return Val(v.kind, term=ln)
    if v.kind == 'SDICT' and is_ident(v.term) and v.term != ln:
      self.emit('let %s := %s' % (ln, v.term))
      r = Val('SDICT', term=ln, vk=v.vk); r.fresh = v.fresh
      return r
    if v.kind == 'LIST':
      if v.et is None:
        self.patch[ln] = (len(self.out), self.ind)
        self.emit('let %s : List (?) := %s' % (ln, v.term))
      elif v.term != ln: self.emit('let %s : %s := %s' % (ln, self.lean_type(v), v.term))
      r = Val('LIST', term=ln, et=v.et); r.fresh = v.fresh
      return r
    if v.kind == 'ARR':
      if getattr(v, 'atom', None) != ln: self.emit('let %s : %s := %s' % (ln, self.lean_type(v), self.arr_term(v)))
      r = self.arr((lambda a: lambda i: '(%s %s)' % (a, i))(ln), v.length, v.row, atom=ln); r.fresh = v.fresh
      return r
    return v      # static / structured values (tuples, dictionaries, runs) live in the environment only

  def assign(self, name, v):
    """`name = <value of the last emitted bind>` renames that bind instead of adding a `let`."""
    ln = lname(name)
    last = self.out[-1].strip() if self.out else ''
    t = getattr(v, 'atom', None) if v.kind == 'ARR' else getattr(v, 'term', None)
    if isinstance(t, str) and re.fullmatch(r'x\d+', t) and last.startswith('let %s ← ' % t) and v.kind in ('N', 'S', 'KEY', 'STRV', 'P', 'L', 'LIST', 'ARR', 'SDICT'):
      self.out[-1] = self.out[-1].replace('let %s ← ' % t, 'let %s ← ' % ln, 1)
      self.tmp -= 1
      if v.kind == 'ARR':
        r = self.arr((lambda a: lambda i: '(%s %s)' % (a, i))(ln), v.length, v.row, atom=ln); r.fresh = v.fresh
        return r
      r = Val(v.kind, **{k: x for k, x in v.__dict__.items() if k != 'kind'}); r.term = ln
      return r
    return self.materialise(name, v)

  # ---------------------------------------------------------------- expressions
  def ev(self, e, env):
    if isinstance(e, (ast.Lambda, ast.FunctionDef)): raise Unsupported('closure (lambda / nested def) in a loader unit')
    if isinstance(e, ast.Constant):
      if isinstance(e.value, bool): return Val('B', term=e.value)
      if isinstance(e.value, int): return I(e.value)
      if isinstance(e.value, str): return Val('STR', term=e.value)
      if e.value is None: return Val('NONE')
      raise Unsupported('literal %r' % (e.value,))
    if isinstance(e, ast.Name):
      if e.id in env: return env[e.id]
      raise Unsupported('name `%s`' % e.id)
    if isinstance(e, ast.Tuple): return Val('T', items=[self.ev(x, env) for x in e.elts])
    if isinstance(e, ast.List):
      items = [self.ev(x, env) for x in e.elts]
      if not items:
        r = Val('LIST', term='[]', et=None); r.fresh = True
        return r
      kinds = {self.et_of(x) if x.kind != 'I' else 'N' for x in items}
      if len(kinds) == 1 and all(x.kind in ('N', 'I', 'S', 'KEY', 'P', 'T') for x in items):
        r = Val('LIST', term='[%s]' % ', '.join(self.elem_term(x) for x in items), et=kinds.pop()); r.fresh = True
        return r
      return Val('T', items=items, display=True)      # a short heterogeneous display [l, h, s, e]: a record, as a tuple
    if isinstance(e, ast.Dict): return self.dict_display(e, env)
    if isinstance(e, ast.DictComp): return self.dictcomp(e, env)
    if isinstance(e, ast.IfExp): return self.ifexp(e, env)
    if isinstance(e, ast.UnaryOp) and isinstance(e.op, ast.USub):
      v = self.ev(e.operand, env)
      if v.kind == 'I': return I(-v.term)
      if v.kind == 'S': return S('(-%s)' % par(v.term))
      if v.kind == 'ARR': return self.map_arr(v, lambda x: '(-%s)' % par(x))
      raise Unsupported('unary minus of kind ' + v.kind)
    if isinstance(e, ast.BinOp): return self.bop(e.op, self.ev(e.left, env), self.ev(e.right, env))
    if isinstance(e, ast.Compare): return self.compare(e, env)
    if isinstance(e, ast.Subscript): return self.subscript(e, env)
    if isinstance(e, ast.Call): return self.call(e, env)
    if isinstance(e, ast.Attribute):
      b = self.ev(e.value, env)
      if e.attr == 'T': raise Unsupported('transpose')
      raise Unsupported('attribute .%s of kind %s' % (e.attr, b.kind))
    raise Unsupported(type(e).__name__ + ' expression')

  def map_arr(self, v, f):
    ve = v.elem
    if v.row == 'S': r = self.arr(lambda i: f(ve(i)), v.length, 'S')
    elif v.row == 'P': r = self.arr(lambda i: '(%s, %s)' % (f('%s.1' % par(ve(i))), f('%s.2' % par(ve(i)))), v.length, 'P')
    else: raise Unsupported('arithmetic on rows that are lists')
    r.fresh = True
    return r

  def bop(self, op, a, b):
    sym = {ast.Add: '+', ast.Sub: '-', ast.Mult: '*'}.get(type(op))
    if sym is None: raise Unsupported('operator ' + type(op).__name__)
    if a.kind == 'I' and b.kind == 'I': return I({'+': a.term + b.term, '-': a.term - b.term, '*': a.term * b.term}[sym])
    if a.kind in ('I', 'N') and b.kind in ('I', 'N'):
      return N('(%s %s %s)' % (self.nat(a, 'operand'), sym, self.nat(b, 'operand')))
    if a.kind == 'LIST' and b.kind == 'LIST' and sym == '+':
      et = a.et or b.et
      if a.et and b.et and a.et != b.et: raise Unsupported('concatenation of lists of different element types')
      r = Val('LIST', term='(%s ++ %s)' % (a.term, b.term), et=et); r.fresh = True
      return r
    if a.kind == 'LIST' and b.kind == 'T' and getattr(b, 'display', False) and sym == '+': raise Unsupported('list + record display')
    if a.kind in ('I', 'S') and b.kind in ('I', 'S'):
      return S('(%s %s %s)' % (self.sc(a), sym, self.sc(b)))
    if 'ARR' in (a.kind, b.kind):
      arrs = [x for x in (a, b) if x.kind == 'ARR']
      if any(x.kind not in ('ARR', 'I', 'S') for x in (a, b)): raise Unsupported('array %s %s' % (sym, (a if a.kind != 'ARR' else b).kind))
      if len(arrs) == 2:
        if arrs[0].length != arrs[1].length: raise Unsupported('arrays of lengths `%s` and `%s` combined' % (arrs[0].length, arrs[1].length))
        if arrs[0].row != 'S' or arrs[1].row != 'S': raise Unsupported('elementwise operation on tables')
        ea, eb = a.elem, b.elem
        r = self.arr(lambda i: '(%s %s %s)' % (ea(i), sym, eb(i)), a.length, 'S'); r.fresh = True
        return r
      if a.kind == 'ARR':
        k = self.sc(b)
        return self.map_arr(a, lambda x: '(%s %s %s)' % (x, sym, k))
      k = self.sc(a)
      return self.map_arr(b, lambda x: '(%s %s %s)' % (k, sym, x))
    raise Unsupported('%s %s %s' % (a.kind, sym, b.kind))

  def ifexp(self, e, env):
    c = self.cond(e.test, env)
    if c is True: return self.ev(e.body, env)
    if c is False: return self.ev(e.orelse, env)
    la, a = self.sub(lambda: self.ev(e.body, env))
    lb, b = self.sub(lambda: self.ev(e.orelse, env))
    ka = 'N' if a.kind in ('I', 'N') else a.kind
    kb = 'N' if b.kind in ('I', 'N') else b.kind
    if ka != kb or ka not in ('N', 'S', 'KEY', 'P', 'L'): raise Unsupported('conditional expression over kinds %s / %s' % (a.kind, b.kind))
    ta = self.nat(a, 'value') if ka == 'N' else a.term
    tb = self.nat(b, 'value') if kb == 'N' else b.term
    if not la and not lb: return Val(ka, term='(if %s then %s else %s)' % (c, ta, tb))
    def branch(lines, t):
      ls = [l.strip() for l in lines]
      if not ls: return 'pure %s' % par(t)
      if len(ls) == 1 and ls[0].startswith('let %s ← ' % t): return ls[0][len('let %s ← ' % t):]
      return '(do %s; pure %s)' % ('; '.join(ls), par(t))
    return self.bind('(if %s then %s else %s)' % (c, branch(la, ta), branch(lb, tb)), lambda x: Val(ka, term=x))

  # ---------------------------------------------------------------- conditions: True / False / a Lean Prop text
  def cond(self, e, env):
    if isinstance(e, ast.BoolOp):
      cs = []
      for k, v in enumerate(e.values):
        lines, c = self.sub(lambda v=v: self.cond(v, env))
        if lines and k > 0: raise Unsupported('an operand of and / or that can raise (short-circuit evaluation is not modelled)')
        self.out.extend(lines)
        cs.append(c)
      if isinstance(e.op, ast.And):
        if any(c is False for c in cs): return False
        cs = [c for c in cs if c is not True]
        return True if not cs else cs[0] if len(cs) == 1 else ' ∧ '.join('(%s)' % c for c in cs)
      if any(c is True for c in cs): return True
      cs = [c for c in cs if c is not False]
      return False if not cs else cs[0] if len(cs) == 1 else ' ∨ '.join('(%s)' % c for c in cs)
    if isinstance(e, ast.UnaryOp) and isinstance(e.op, ast.Not):
      c = self.cond(e.operand, env)
      return (not c) if isinstance(c, bool) else '¬ (%s)' % c
    if isinstance(e, ast.Compare) and len(e.ops) == 1 and isinstance(e.ops[0], (ast.In, ast.NotIn)):
      neg = isinstance(e.ops[0], ast.NotIn)
      k = self.ev(e.left, env); d = self.ev(e.comparators[0], env)
      if k.kind == 'STR' and d.kind == 'DEVD':
        f = d.fields.get(k.term)
        if f is None: raise Unsupported("`'%s' in d`: entry not in the form table" % k.term)
        if f[0] == 'absent': return neg
        if f[0] == 'present': return not neg
        return ('opt', d, k.term, neg)
      raise Unsupported('membership test %s in %s' % (k.kind, d.kind))
    v = self.ev(e, env)
    if v.kind == 'B': return v.term
    if v.kind == 'PROP': return v.term
    if v.kind == 'BOOLT': return v.term
    if v.kind == 'I': return v.term != 0
    if v.kind == 'NONE': return False
    if v.kind == 'PV': raise Unsupported('truth value of a boolean vector (use .all() / .any())')
    raise Unsupported('truth value of kind ' + v.kind)

  def compare(self, e, env):
    if len(e.ops) != 1: raise Unsupported('chained comparison')
    a, b = self.ev(e.left, env), self.ev(e.comparators[0], env)
    ops = {ast.Eq: '=', ast.NotEq: '≠', ast.Lt: '<', ast.LtE: '≤', ast.Gt: '>', ast.GtE: '≥'}
    sym = ops.get(type(e.ops[0]))
    if sym is None: raise Unsupported('comparison ' + type(e.ops[0]).__name__)
    if a.kind == 'I' and b.kind == 'I':
      return Val('B', term={'=': a.term == b.term, '≠': a.term != b.term, '<': a.term < b.term, '≤': a.term <= b.term, '>': a.term > b.term, '≥': a.term >= b.term}[sym])
    if a.kind in ('I', 'N') and b.kind in ('I', 'N'):
      return Val('PROP', term='%s %s %s' % (self.nat(a, 'operand'), sym, self.nat(b, 'operand')))
    if a.kind in ('I', 'S') and b.kind in ('I', 'S'):
      return Val('PROP', term='%s %s %s' % (self.sc(a), sym, self.sc(b)))
    if 'ARR' in (a.kind, b.kind) and all(x.kind in ('ARR', 'I', 'S') for x in (a, b)):
      arrs = [x for x in (a, b) if x.kind == 'ARR']
      if any(x.row != 'S' for x in arrs): raise Unsupported('comparison of tables')
      if len(arrs) == 2 and arrs[0].length != arrs[1].length: raise Unsupported('arrays of different lengths compared')
      fa = a.elem if a.kind == 'ARR' else (lambda i, t=self.sc(a): t)
      fb = b.elem if b.kind == 'ARR' else (lambda i, t=self.sc(b): t)
      return Val('PV', elem=lambda i: '%s %s %s' % (fa(i), sym, fb(i)), length=arrs[0].length)
    raise Unsupported('comparison %s %s %s' % (a.kind, sym, b.kind))

  # ---------------------------------------------------------------- subscripts
  def subscript(self, e, env):
    b = self.ev(e.value, env)
    sl = e.slice
    if b.kind == 'RUN':
      k = self.ev(sl, env)
      if k.kind == 'STR' and k.term == 'basis': return N(b.basis)
      if k.kind == 'STR' and k.term == 'runs': return Val('DICT', term=b.runs, vk=b.vk)
      raise Unsupported('entry of a run dictionary other than basis / runs')
    if b.kind == 'DICT':
      k = self.ev(sl, env)
      if k.kind == 'STR':
        if not re.fullmatch(r'0|[1-9]\d*', k.term): raise Unsupported('dictionary key %r is not a canonical decimal integer' % k.term)
        kt = k.term
      elif k.kind == 'KEY': kt = k.term
      elif k.kind in ('N', 'I'): raise Unsupported('an int used as the key of a JSON object (its keys are str)')
      else: raise Unsupported('dictionary key of kind ' + k.kind)
      return self.bind('dictGet %s %s' % (par(b.term), par(kt)), lambda x: Val(b.vk, term=x))
    if b.kind == 'SDICT':
      k = self.ev(sl, env)
      if k.kind == 'STRV': kt = k.term
      elif k.kind == 'STR': kt = '"%s"' % k.term
      else: raise Unsupported('key of kind %s into a str-keyed dictionary' % k.kind)
      return self.bind('strGet %s %s' % (par(b.term), par(kt)), lambda x: Val(b.vk, term=x))
    if b.kind in ('DEVD', 'HELPD'):
      k = self.ev(sl, env)
      if k.kind != 'STR': raise Unsupported('dynamic key into a device dictionary')
      f = b.fields.get(k.term)
      if f is None: raise Unsupported("device entry '%s' is not in the form table" % k.term)
      if f[0] == 'absent': raise Unsupported("device entry '%s' read where it is absent (KeyError)" % k.term)
      if f[0] == 'opt': raise Unsupported("optional device entry '%s' read outside `if '%s' in d`" % (k.term, k.term))
      return f[1]
    if b.kind == 'T':
      k = self.ev(sl, env)
      if k.kind == 'I' and -len(b.items) <= k.term < len(b.items): return b.items[k.term]
      raise Unsupported('tuple index')
    if b.kind == 'P':
      k = self.ev(sl, env)
      if k.kind == 'I' and k.term in (0, 1): return S('%s.%d' % (par(b.term), k.term + 1))
      raise Unsupported('index into a pair')
    if b.kind == 'LIST':
      k = self.ev(sl, env)
      if b.et is None: raise Unsupported('index into an empty list')
      it = self.nat(k, 'list index')
      return self.bind('listGet %s %s' % (par(b.term), par(it)), lambda x: self.from_et(x, b.et))
    if b.kind == 'ARR':
      full = lambda x: isinstance(x, ast.Slice) and x.lower is None and x.upper is None and x.step is None
      be = b.elem
      if isinstance(sl, ast.Tuple) and len(sl.elts) == 2 and full(sl.elts[0]) and b.row == 'P':
        c = sl.elts[1]
        if isinstance(c, ast.Slice):
          st = self.ev(c.step, env) if c.step is not None else None
          if c.lower is None and c.upper is None and st is not None and st.kind == 'I' and st.term == -1:
            r = self.arr(lambda i: '(%s.2, %s.1)' % (par(be(i)), par(be(i))), b.length, 'P'); r.fresh = False
            return r
          raise Unsupported('column slice form')
        k = self.ev(c, env)
        if k.kind == 'I' and k.term in (0, 1, -1, -2):
          j = k.term % 2
          return self.arr(lambda i: '%s.%d' % (par(be(i)), j + 1), b.length, 'S')      # a view of the column
        raise Unsupported('column index of a (len, 2) table')
      if b.row == 'S' and not isinstance(sl, (ast.Slice, ast.Tuple)):
        k = self.ev(sl, env)
        if k.kind == 'I' and k.term >= 0: return S(be(str(k.term)))      # guarded by the caller's `len(...) == 2`
        raise Unsupported('dynamic index into a vector')
      raise Unsupported('index / slice form of an array')
    raise Unsupported('subscript of kind ' + b.kind)

  # ---------------------------------------------------------------- calls
  def nokw(self, e, allowed=()):
    for k in e.keywords:
      if k.arg is None or k.arg not in allowed: raise Unsupported('keyword %s= of %s is not modelled' % (k.arg, ast.unparse(e.func)))
    return {k.arg: k.value for k in e.keywords}

  def call(self, e, env):
    f = e.func
    if isinstance(f, ast.Name):
      if f.id in env: raise Unsupported('call of the local `%s`' % f.id)
      if f.id in self.tu.taint.get(self.unit.file, {}): raise Unsupported('`%s` is not what its name denotes: %s' % (f.id, self.tu.taint[self.unit.file][f.id]))
      if f.id == 'int':
        self.nokw(e)
        if len(e.args) != 1: raise Unsupported('int() with a base')
        v = self.ev(e.args[0], env)
        if v.kind == 'KEY': return N(v.term)
        if v.kind in ('N', 'I'): return v
        raise Unsupported('int() of kind ' + v.kind)
      if f.id == 'len':
        self.nokw(e)
        v = self.ev(e.args[0], env)
        if v.kind in ('LIST', 'DICT', 'L', 'SDICT'): return N('(List.length %s)' % v.term)
        if v.kind == 'T': return I(len(v.items))
        if v.kind == 'P': return I(2)
        if v.kind == 'ARR': return N(v.length)
        raise Unsupported('len() of kind ' + v.kind)
      if f.id == 'hasattr':
        self.nokw(e)
        v = self.ev(e.args[0], env); a = self.ev(e.args[1], env)
        if a.kind == 'STR' and a.term == '__len__' and v.kind in ('S', 'N', 'I', 'P', 'L', 'LIST', 'T'):
          return Val('B', term=v.kind not in ('S', 'N', 'I'))
        raise Unsupported('hasattr form')
      if f.id == 'sorted':
        kw = self.nokw(e, ('key',))
        if len(e.args) != 1: raise Unsupported('sorted() arity')
        v = self.ev(e.args[0], env)
        if v.kind == 'DICT': v = Val('LIST', term='(dictKeys %s)' % v.term, et='KEY')
        if v.kind != 'LIST' or v.et != 'KEY': raise Unsupported('sorted() of kind %s' % v.kind)
        if 'key' in kw:
          if not (isinstance(kw['key'], ast.Name) and kw['key'].id == 'int'): raise Unsupported('sorted(key=%s)' % ast.unparse(kw['key']))
          r = Val('LIST', term='(sortedInt %s)' % v.term, et='KEY')
        else:
          r = Val('LIST', term='(sortedStr %s)' % v.term, et='KEY')
        r.fresh = True
        return r
      if f.id == 'list':
        self.nokw(e)
        v = self.ev(e.args[0], env)
        if v.kind == 'DICT': v = Val('LIST', term='(dictKeys %s)' % v.term, et='KEY')
        if v.kind == 'LIST':
          r = Val('LIST', term=v.term, et=v.et); r.fresh = True
          return r
        raise Unsupported('list() of kind ' + v.kind)
      if f.id in ('enumerate', 'range', 'zip'): raise Unsupported('%s() outside a `for`' % f.id)
      if f.id == 'deepcopy':
        self.nokw(e)
        v = self.ev(e.args[0], env)
        if v.kind in ('DEVD', 'HELPD'):
          r = Val(v.kind, fields=dict(v.fields)); r.fresh = True
          return r
        raise Unsupported('deepcopy of kind ' + v.kind)
      u = self.tu.by_fn.get(f.id)
      if u is not None: return self.call_unit(f.id, e, env)
      raise Unsupported('call of `%s`' % f.id)
    if isinstance(f, ast.Attribute):
      if isinstance(f.value, ast.Name) and f.value.id == 'np' and 'np' not in env:
        if 'np' in self.tu.taint.get(self.unit.file, {}): raise Unsupported('`np` is not numpy here: ' + self.tu.taint[self.unit.file]['np'])
        return self.numpy(f.attr, e, env)
      if isinstance(f.value, ast.Name) and f.value.id == 'copy' and f.attr == 'deepcopy' and 'copy' not in env:
        raise Unsupported('copy.deepcopy (the module imports `deepcopy` by name)')
      b = self.ev(f.value, env)
      if b.kind == 'DICT' and f.attr == 'keys' and not e.args and not e.keywords:
        return Val('LIST', term='(dictKeys %s)' % b.term, et='KEY')
      if b.kind == 'DICT' and f.attr == 'items' and not e.args and not e.keywords:
        return Val('LIST', term=b.term, et=('T', 'KEY', b.vk))
      if b.kind == 'SDICT' and f.attr == 'items' and not e.args and not e.keywords:
        return Val('LIST', term=b.term, et=('T', 'STRV', b.vk))
      if b.kind == 'PV' and f.attr in ('all', 'any') and not e.args and not e.keywords:
        return Val('BOOLT', term='%s %s (fun t => decide (%s))' % ({'all': 'allSlots', 'any': 'anySlots'}[f.attr], par(b.length), b.elem('t')))
      raise Unsupported('method .%s of kind %s' % (f.attr, b.kind))
    raise Unsupported('call form')

  def call_unit(self, name, e, env):
    self.nokw(e)
    args = [self.ev(a, env) for a in e.args]
    if name == 'run_to_array' and len(args) == 1 and args[0].kind == 'RUN':
      r = args[0]
      u = self.tu.by_lean['run_to_array_' + FORM_OF_VK[r.vk]]
      self.callee(u)
      v = self.bind('%s %s %s' % (u.lean, par(r.basis), par(r.runs)),
                    lambda x: self.arr((lambda a: lambda i: '(%s %s)' % (a, i))(x), r.basis, r.vk, atom=x))
      v.fresh = True
      return v
    if name == 'run_to_cbounds_array' and len(args) == 1 and args[0].kind == 'RUN' and args[0].vk == 'P':
      r = args[0]
      u = self.tu.by_lean['run_to_cbounds_array']
      self.callee(u)
      v = self.bind('%s %s %s' % (u.lean, par(r.basis), par(r.runs)), lambda x: Val('LIST', term=x, et=u.ret))
      v.fresh = True
      return v
    raise Unsupported('call of the unit `%s` in this form' % name)

  def callee(self, u):
    if u.lean not in self.unit.calls: self.unit.calls.append(u.lean)
    if not u.ok: raise Unsupported('callee %s is untranslatable' % u.lean)

  def numpy(self, fn, e, env):
    if fn in ('zeros', 'ones'):
      self.nokw(e)
      if len(e.args) != 1: raise Unsupported('np.%s arity' % fn)
      sh = self.ev(e.args[0], env)
      dims = sh.items if sh.kind == 'T' else [sh]
      z = '(%d : α)' % (0 if fn == 'zeros' else 1)
      n_ = self.nat(dims[0], 'array length')
      if len(dims) == 1: r = self.arr(lambda i: z, n_, 'S')
      elif len(dims) == 2 and dims[1].kind == 'I' and dims[1].term == 2: r = self.arr(lambda i: '(%s, %s)' % (z, z), n_, 'P')
      elif len(dims) == 2 and dims[1].kind == 'N': r = self.arr(lambda i, k=dims[1].term: 'List.replicate %s %s' % (par(k), z), n_, 'L')
      else: raise Unsupported('np.%s of this shape' % fn)
      r.fresh = True; r.const = True
      return r
    if fn == 'stack':
      kw = self.nokw(e, ('axis',))
      if len(e.args) != 1: raise Unsupported('np.stack arity')
      t = self.ev(e.args[0], env)
      ax = self.ev(kw['axis'], env) if 'axis' in kw else None
      if ax is None or ax.kind != 'I' or ax.term not in (1, -1): raise Unsupported('np.stack without axis=1 is not a (len, 2) table')
      if t.kind != 'T' or len(t.items) != 2 or any(x.kind != 'ARR' or x.row != 'S' for x in t.items): raise Unsupported('np.stack of something other than two vectors')
      a, b = t.items
      if a.length != b.length: raise Unsupported('np.stack of vectors of lengths `%s` and `%s`' % (a.length, b.length))
      ea, eb = a.elem, b.elem
      r = self.arr(lambda i: '(%s, %s)' % (ea(i), eb(i)), a.length, 'P'); r.fresh = True
      return r
    if fn == 'flip':
      kw = self.nokw(e, ('axis',))
      if len(e.args) != 1: raise Unsupported('np.flip arity')
      a = self.ev(e.args[0], env)
      if a.kind != 'ARR' or a.row != 'P': raise Unsupported('np.flip of something other than a (len, 2) table')
      ax = self.ev(kw['axis'], env) if 'axis' in kw else None
      if ax is not None and (ax.kind != 'I' or ax.term not in (0, 1, -1, -2)): raise Unsupported('np.flip axis')
      ae = a.elem; L = a.length
      rows = ax is None or ax.term in (0, -2)
      cols = ax is None or ax.term in (1, -1)
      def el(i):
        x = ae('(%s - 1 - %s)' % (L, i)) if rows else ae(i)
        return '(%s.2, %s.1)' % (par(x), par(x)) if cols else x
      return self.arr(el, L, 'P')      # a view
    if fn in ('array', 'copy'):
      self.nokw(e)
      a = self.ev(e.args[0], env)
      if len(e.args) == 1 and a.kind == 'ARR':
        r = self.arr(a.elem, a.length, a.row, atom=getattr(a, 'atom', None)); r.fresh = True
        return r
      raise Unsupported('np.%s of kind %s' % (fn, a.kind))
    if fn in ('all', 'any'):
      self.nokw(e)
      a = self.ev(e.args[0], env)
      if len(e.args) == 1 and a.kind == 'PV':
        return Val('BOOLT', term='%s %s (fun t => decide (%s))' % ({'all': 'allSlots', 'any': 'anySlots'}[fn], par(a.length), a.elem('t')))
      raise Unsupported('np.%s of kind %s' % (fn, a.kind))
    raise Unsupported('np.%s' % fn)

  # ---------------------------------------------------------------- dictionaries
  def dict_display(self, e, env):
    pairs = []
    for k, v in zip(e.keys, e.values):
      if not (isinstance(k, ast.Constant) and isinstance(k.value, str) and isinstance(v, ast.Constant) and isinstance(v.value, str)):
        raise Unsupported('dict display that is not a str -> str table')
      pairs.append((k.value, v.value))
    if len({k for k, _ in pairs}) != len(pairs): raise Unsupported('dict display with a repeated key')
    return Val('STABLE', pairs=pairs)

  def dictcomp(self, e, env):
    if len(e.generators) != 1 or e.generators[0].ifs or e.generators[0].is_async: raise Unsupported('dict comprehension form')
    g = e.generators[0]
    src = self.ev(g.iter, env)
    if src.kind != 'LIST' or not isinstance(src.et, tuple): raise Unsupported('dict comprehension over kind ' + src.kind)
    self.it += 1
    it = 'it%d' % self.it
    env2 = self.bind_target(g.target, it, src.et, env)
    def body():
      k = self.ev(e.key, env2); v = self.ev(e.value, env2)
      if k.kind != 'STRV' or v.kind != 'S': raise Unsupported('dict comprehension building %s: %s' % (k.kind, v.kind))
      return k, v
    self.ind += 1
    try:
      lines, (k, v) = self.sub(body)
    finally:
      self.ind -= 1
    pad = '  ' * (self.ind + 1)
    op = 'List.mapM (fun (%s : %s) => do\n%s%spure (%s, %s)) %s' % (it, ty_of_et(src.et), ''.join(l + '\n' for l in lines), pad, k.term, v.term, par(src.term))
    r = self.bind(op, lambda x: Val('SDICT', term=x, vk='S'))
    r.fresh = True
    return r

  def bind_target(self, target, term, et, env):
    env = dict(env)
    if isinstance(target, ast.Name):
      env[target.id] = self.from_et(term, et)
      return env
    if isinstance(target, ast.Tuple) and isinstance(et, tuple) and et[0] == 'T' and len(target.elts) == len(et) - 1 == 2:
      for k, t in enumerate(target.elts):
        env = self.bind_target(t, term + ('.1' if k == 0 else '.2'), et[1 + k], env)
      return env
    raise Unsupported('loop / comprehension target')

  # ---------------------------------------------------------------- statements
  MUTABLE = ('ARR', 'LIST', 'DEVD', 'HELPD', 'SDICT')

  def need_fresh(self, name, v, what):
    if not getattr(v, 'fresh', False):
      raise Unsupported('%s of `%s`, which was not built in this unit (an in-place edit of an argument / shared object)' % (what, name))

  def is_logger(self, s):
    return (isinstance(s, ast.Expr) and isinstance(s.value, ast.Call) and isinstance(s.value.func, ast.Attribute)
            and isinstance(s.value.func.value, ast.Name) and s.value.func.value.id == 'logger')

  def simple(self, s, env):
    """one straight-line statement; mutates env.  False if `s` is not of that sort."""
    if isinstance(s, ast.Expr) and isinstance(s.value, ast.Constant): return True
    if self.is_logger(s): return True
    if isinstance(s, ast.Assign) and len(s.targets) == 1:
      t = s.targets[0]
      if isinstance(t, ast.Name):
        v = self.ev(s.value, env)
        if v.kind == 'STABLE':
          u = self.tu.by_lean.get(self.unit.fn + '_' + t.id)
          if u is None: raise Unsupported('a dict display bound to `%s` (no table unit of that name)' % t.id)
          self.callee(u)
          if u.pairs != v.pairs: raise Unsupported('two different displays bound to `%s`' % t.id)
          env[t.id] = Val('SDICT', term=u.lean, vk='STRV'); return True
        if isinstance(s.value, ast.Name) and v.kind in self.MUTABLE:
          v.fresh = False      # two names for one object: no in-place edit through either
        env[t.id] = self.assign(t.id, v)
        return True
      if isinstance(t, (ast.Tuple, ast.List)) and all(isinstance(x, ast.Name) for x in t.elts):
        v = self.ev(s.value, env)
        if v.kind == 'P' and len(t.elts) == 2: items = [S('%s.1' % par(v.term)), S('%s.2' % par(v.term))]
        elif v.kind == 'T' and len(v.items) == len(t.elts): items = v.items
        else: raise Unsupported('unpacking %s into %d names' % (v.kind, len(t.elts)))
        for x, it in zip(t.elts, items): env[x.id] = self.materialise(x.id, it)
        return True
      if isinstance(t, ast.Subscript) and isinstance(t.value, ast.Name) and t.value.id in env:
        self.assign_item(t.value.id, t.slice, s.value, env); return True
      raise Unsupported('assignment form')
    if isinstance(s, ast.AugAssign) and isinstance(s.target, ast.Name) and s.target.id in env:
      a = env[s.target.id]
      if a.kind in self.MUTABLE: self.need_fresh(s.target.id, a, 'in-place `%s=`' % {ast.Add: '+', ast.Sub: '-', ast.Mult: '*'}.get(type(s.op), '?'))
      b = self.ev(s.value, env)
      if a.kind == 'LIST' and b.kind == 'T' and getattr(b, 'display', False): raise Unsupported('list += record display')
      v = self.bop(s.op, a, b)
      if a.kind == 'LIST':
        v.term = '(%s ++ %s)' % (a.term, b.term)
      v.fresh = True
      env[s.target.id] = self.materialise(s.target.id, v)
      self.resolve_patch(s.target.id, env[s.target.id])
      return True
    if isinstance(s, ast.Expr) and isinstance(s.value, ast.Call) and isinstance(s.value.func, ast.Attribute) and s.value.func.attr == 'append' \
       and isinstance(s.value.func.value, ast.Name) and s.value.func.value.id in env:
      nm = s.value.func.value.id
      a = env[nm]
      if a.kind != 'LIST': raise Unsupported('.append on kind ' + a.kind)
      self.need_fresh(nm, a, '.append')
      if len(s.value.args) != 1 or s.value.keywords: raise Unsupported('.append arity')
      x = self.ev(s.value.args[0], env)
      et = self.et_of(x)
      if a.et is not None and a.et != et: raise Unsupported('appending %r to a list of %r' % (et, a.et))
      v = Val('LIST', term='(%s ++ [%s])' % (a.term, self.elem_term(x)), et=et); v.fresh = True
      env[nm] = self.materialise(nm, v)
      self.resolve_patch(nm, env[nm])
      return True
    if isinstance(s, ast.Delete) and len(s.targets) == 1 and isinstance(s.targets[0], ast.Subscript) and isinstance(s.targets[0].value, ast.Name) \
       and s.targets[0].value.id in env:
      nm = s.targets[0].value.id
      d = env[nm]
      if d.kind not in ('DEVD', 'HELPD'): raise Unsupported('del on kind ' + d.kind)
      self.need_fresh(nm, d, '`del`')
      k = self.ev(s.targets[0].slice, env)
      if k.kind != 'STR' or k.term not in d.fields or d.fields[k.term][0] != 'present': raise Unsupported('del of an entry that may be absent')
      d.fields = dict(d.fields); d.fields[k.term] = ('absent',)
      return True
    return False

  def resolve_patch(self, name, v):
    ln = lname(name)
    if ln in self.patch and v.kind == 'LIST' and v.et is not None:
      idx, ind = self.patch[ln]
      if idx < len(self.out) and 'List (?)' in self.out[idx]:
        self.out[idx] = self.out[idx].replace('List (?)', 'List (%s)' % ty_of_et(v.et)); del self.patch[ln]

  def assign_item(self, name, sl, value, env):
    a = env[name]
    if a.kind in ('DEVD', 'HELPD'):
      self.need_fresh(name, a, 'item assignment')
      k = self.ev(sl, env)
      if k.kind != 'STR': raise Unsupported('dynamic key assigned in a device dictionary')
      v = self.ev(value, env)
      a.fields = dict(a.fields); a.fields[k.term] = ('present', v)
      return
    if a.kind != 'ARR': raise Unsupported('item assignment on kind ' + a.kind)
    self.need_fresh(name, a, 'slice assignment')
    if not isinstance(sl, ast.Slice) or sl.step is not None: raise Unsupported('only `a[s:e] = row` is modelled')
    # Python evaluates the right-hand side first, then the slice bounds
    v = self.ev(value, env)
    lo = self.nat(self.ev(sl.lower, env), 'slice start') if sl.lower is not None else '0'
    hi = self.nat(self.ev(sl.upper, env), 'slice end') if sl.upper is not None else a.length
    if a.row == 'S' and v.kind in ('S', 'I'): row = self.sc(v)
    elif a.row == v.kind and v.kind in ('P', 'L'): row = v.term
    else: raise Unsupported('assigning a %s into rows of kind %s (numpy broadcasting of other shapes is not modelled)' % (v.kind, a.row))
    t = 'setSlice %s %s %s %s %s' % (par(a.length), par(self.arr_term(a)) if not getattr(a, 'atom', None) else a.atom, par(lo), par(hi), par(row))
    ln = lname(name)
    self.emit('let %s : %s := %s' % (ln, self.lean_type(a), t))
    r = self.arr((lambda x: lambda i: '(%s %s)' % (x, i))(ln), a.length, a.row, atom=ln); r.fresh = True
    env[name] = r

  def falls_through(self, stmts):
    if not stmts: return True
    s = stmts[-1]
    if isinstance(s, (ast.Return, ast.Raise)): return False
    if isinstance(s, ast.If) and s.orelse: return self.falls_through(s.body) or self.falls_through(s.orelse)
    return True

  def ret(self, v):
    if v.kind in ('DEVD', 'HELPD'):
      f = v.fields.get('bounds')
      if f is None or f[0] != 'present': raise Unsupported("the returned dictionary has no 'bounds' entry")
      v = f[1]
    if v.kind == 'ARR': term, ty, rk = self.arr_term(v), 'Nat → ' + VK_TY[v.row], ('ARR', v.row)
    elif v.kind == 'LIST': term, ty, rk = v.term, self.lean_type(v), ('LIST', v.et)
    elif v.kind == 'SDICT': term, ty, rk = v.term, 'List (String × α)', ('SDICT',)
    elif v.kind in ('N', 'I'): term, ty, rk = self.nat(v, 'result'), 'Nat', ('N',)
    elif v.kind == 'S': term, ty, rk = v.term, 'α', ('S',)
    elif v.kind == 'NONE' and self.optional: self.emit('pure none'); return
    else: raise Unsupported('result of kind ' + v.kind)
    if self.rty not in (None, ty): raise Unsupported('returns of different types (%s / %s)' % (self.rty, ty))
    self.rty, self.rkind = ty, rk
    self.emit('pure (some %s)' % par(term) if self.optional else 'pure %s' % par(term))

  def block(self, stmts, env):
    env = {k: (Val(v.kind, **{a: b for a, b in v.__dict__.items() if a != 'kind'}) if v.kind in ('DEVD', 'HELPD') else v) for k, v in env.items()}
    for idx, s in enumerate(stmts):
      rest = stmts[idx + 1:]
      if isinstance(s, ast.Return):
        if s.value is None:
          if not self.optional: raise Unsupported('bare return')
          self.emit('pure none'); return
        self.ret(self.ev(s.value, env)); return
      if isinstance(s, ast.Raise):
        self.emit('throw LoadErr.%s' % self.exc(s)); return
      if isinstance(s, ast.If):
        c = self.cond(s.test, env)
        if c is True: self.block(s.body + rest, env); return
        if c is False: self.block(s.orelse + rest, env); return
        if isinstance(c, tuple) and c[0] == 'opt':
          _, d, key, neg = c
          dn = [k for k, v in env.items() if v is d][0]
          fld = d.fields[key]
          var = fld[1]
          self.emit('match %s with' % var)
          for present in (True, False):
            self.emit('| some %s => do' % var if present else '| none => do')
            d2 = Val(d.kind, fields=dict(d.fields)); d2.fresh = d.fresh
            d2.fields[key] = ('present', Val('RUN', basis=var + '.1', runs=var + '.2', vk=fld[2])) if present else ('absent',)
            env2 = dict(env); env2[dn] = d2
            taken = s.body if (present != neg) else s.orelse
            self.ind += 1
            try:
              self.block(taken + rest, env2)
            finally:
              self.ind -= 1
          return
        if len(s.body) == 1 and isinstance(s.body[0], ast.Raise) and not s.orelse:
          self.emit('if %s then throw LoadErr.%s' % (c, self.exc(s.body[0])))
          continue
        self.emit('if %s then do' % c)
        self.ind += 1
        try:
          self.block(s.body + rest, env)
        finally:
          self.ind -= 1
        self.emit('else do')
        self.ind += 1
        try:
          self.block(s.orelse + rest, env)
        finally:
          self.ind -= 1
        return
      if isinstance(s, ast.For):
        self.loop(s, env); continue
      if isinstance(s, (ast.While, ast.With, ast.Try, ast.FunctionDef, ast.ClassDef, ast.Global, ast.Nonlocal, ast.Import, ast.ImportFrom)):
        raise Unsupported(type(s).__name__ + ' statement')
      if self.simple(s, env): continue
      raise Unsupported(type(s).__name__ + ' statement (%s)' % ast.unparse(s)[:60])
    if not self.optional: raise Unsupported('fall-through without return')
    self.emit('pure none')

  def exc(self, s):
    x = s.exc
    if isinstance(x, ast.Call): x = x.func
    if isinstance(x, ast.Name) and x.id in EXC and s.cause is None: return EXC[x.id]
    raise Unsupported('raise of ' + (ast.unparse(s.exc) if s.exc is not None else 're-raise'))

  def stored_names(self, stmts):
    out = []
    for s in stmts:
      for z in ast.walk(s):
        nm = None
        if isinstance(z, ast.Name) and isinstance(z.ctx, (ast.Store, ast.Del)): nm = z.id
        if isinstance(z, (ast.Subscript, ast.Attribute)) and isinstance(z.ctx, (ast.Store, ast.Del)) and isinstance(z.value, ast.Name): nm = z.value.id
        if isinstance(z, ast.Call) and isinstance(z.func, ast.Attribute) and isinstance(z.func.value, ast.Name) \
           and z.func.attr in ('append', 'extend', 'insert', 'pop', 'remove', 'sort', 'reverse', 'clear', 'update', 'setdefault', 'fill', 'put', 'resize', 'popitem'):
          nm = z.func.value.id
        if nm is not None and nm not in out: out.append(nm)
    return out

  def loop(self, s, env):
    if s.orelse: raise Unsupported('for … else')
    for z in ast.walk(s):
      if isinstance(z, (ast.Break, ast.Continue, ast.Return, ast.Raise, ast.For, ast.While, ast.If, ast.Yield)) and z is not s:
        raise Unsupported('%s inside a loop body' % type(z).__name__)
    # ---- the iterated list
    it = s.iter
    if isinstance(it, ast.Call) and isinstance(it.func, ast.Name) and it.func.id in ('enumerate', 'range') and it.func.id not in env:
      if it.func.id in self.tu.taint.get(self.unit.file, {}): raise Unsupported('`%s` is rebound in this module' % it.func.id)
      if it.func.id == 'enumerate':
        kw = self.nokw(it, ('start',))
        if not 1 <= len(it.args) <= 2 or (len(it.args) == 2 and 'start' in kw): raise Unsupported('enumerate arity')
        src = self.ev(it.args[0], env)
        if src.kind == 'DICT': src = Val('LIST', term='(dictKeys %s)' % src.term, et='KEY')
        if src.kind != 'LIST' or src.et is None: raise Unsupported('enumerate over kind ' + src.kind)
        st = it.args[1] if len(it.args) == 2 else kw.get('start')
        if st is None: term = '(enumerate %s)' % src.term
        else: term = '(enumerateFrom %s %s)' % (par(self.nat(self.ev(st, env), 'enumerate start')), src.term)
        et = ('T', 'N', src.et)
      else:
        self.nokw(it)
        args = [self.ev(a, env) for a in it.args]
        if len(args) == 1: term = '(List.range %s)' % par(self.nat(args[0], 'range bound'))
        elif len(args) in (2, 3):
          step = args[2] if len(args) == 3 else I(1)
          if step.kind != 'I' or step.term <= 0: raise Unsupported('range with a step that is not a positive literal')
          term = '(pyRange %s %s %d)' % (par(self.nat(args[0], 'range bound')), par(self.nat(args[1], 'range bound')), step.term)
        else: raise Unsupported('range arity')
        et = 'N'
    else:
      src = self.ev(it, env)
      if src.kind == 'DICT': src = Val('LIST', term='(dictKeys %s)' % src.term, et='KEY')
      if src.kind != 'LIST' or src.et is None: raise Unsupported('iteration over kind ' + src.kind)
      term, et = src.term, src.et
    # ---- the loop-carried name
    targets = [z.id for z in ast.walk(s.target) if isinstance(z, ast.Name)]
    stored = self.stored_names(s.body)
    if set(stored) & set(targets): raise Unsupported('the loop body rebinds its own loop variable')
    carried = [nm for nm in stored if nm in env]
    if len(carried) != 1: raise Unsupported('a loop carrying %d names (%s): exactly one is modelled' % (len(carried), ', '.join(carried)))
    st = carried[0]
    init = env[st]
    if init.kind not in ('ARR', 'LIST', 'N', 'S'): raise Unsupported('loop-carried value of kind ' + init.kind)
    if init.kind in self.MUTABLE: self.need_fresh(st, init, 'in-place update in a loop')
    ln = lname(st)
    init_term = ln if (getattr(init, 'atom', None) == ln or getattr(init, 'term', None) == ln) else None
    if init_term is None:
      env[st] = init = self.materialise(st, init); init_term = ln
    if isinstance(s.target, ast.Name) and et in ('N', 'KEY', 'S', 'STRV'):
      itv = lname(s.target.id)
    else:
      self.it += 1; itv = 'it%d' % self.it
    env2 = self.bind_target(s.target, itv, et, env)
    inner = Val(init.kind, **{a: b for a, b in init.__dict__.items() if a != 'kind'}); inner.fresh = True
    env2[st] = inner
    def body():
      for b in s.body:
        if not self.simple(b, env2): raise Unsupported(type(b).__name__ + ' statement inside a loop body')
      return env2[st]
    self.ind += 1
    try:
      lines, fin = self.sub(body)
    finally:
      self.ind -= 1
    if fin.kind != init.kind or (fin.kind == 'ARR' and (fin.row, fin.length) != (init.row, init.length)):
      raise Unsupported('the loop changes the kind / shape of `%s`' % st)
    if fin.kind == 'LIST':
      if init.et not in (None, fin.et): raise Unsupported('the loop changes the element type of `%s`' % st)
      if init.et is None and fin.et is not None: self.resolve_patch(st, fin)
    ty = self.lean_type(fin)
    pad = '  ' * (self.ind + 1)
    m = re.fullmatch(r'\s*let %s : .*? := (.*)' % re.escape(ln), lines[-1]) if lines else None
    if m and not m.group(1).startswith('fun '):
      lines = lines[:-1] + [pad + 'pure (%s)' % m.group(1)]
    else:
      lines = lines + [pad + 'pure %s' % ln]
    self.emit('let %s ← List.foldlM (fun (%s : %s) (%s : %s) => do\n%s) %s %s' % (ln, ln, ty, itv, ty_of_et(et), '\n'.join(lines), init_term, term))
    out = Val(fin.kind, **{a: b for a, b in fin.__dict__.items() if a != 'kind'}); out.fresh = True
    if fin.kind == 'ARR': out = self.arr((lambda x: lambda i: '(%s %s)' % (x, i))(ln), fin.length, fin.row, atom=ln); out.fresh = True
    else: out.term = ln
    env[st] = out


# ----------------------------------------------------------------------------------------------- units
HEADER = """-- GENERATED by vk/translate_loaders.py from {src} — do not edit.
-- source sha256: {sha}
{imports}set_option linter.unusedVariables false
namespace DK.Gen
open DK DK.Loader
section
variable {{α : Type}} [Add α] [Sub α] [Mul α] [Div α] [Neg α] [OfNat α 0] [OfNat α 1] [OfNat α 2]
  [LT α] [LE α] [DecidableEq α] [DecidableLT α] [DecidableLE α]
"""


class TU:
  def __init__(self, repo):
    self.repo = repo
    self.src = {}; self.funcs = {}; self.taint = {}
    self.by_fn = {}; self.by_lean = {}
    for u in UNITS:
      self.by_fn.setdefault(u.fn, []).append(u); self.by_lean[u.lean] = u
    for f in (LOADER, UTILS):
      self.src[f] = open(os.path.join(repo, 'device_kit', f)).read()
      watched = {u.fn for u in UNITS if u.file == f} | BUILTINS_USED
      self.taint[f], self.funcs[f], _ = scan_module(repo, f, watched)

  def node(self, u):
    return self.funcs[u.file].get(u.fn)

  def check_taint(self, u):
    t = self.taint[u.file]
    if u.fn in t: raise Unsupported('the `def` is not what the name denotes: ' + t[u.fn])

  def translate(self, u):
    node = self.node(u)
    if node is None: raise Unsupported('function not found')
    u.line = node.lineno
    self.check_taint(u)
    a = node.args
    if a.vararg or a.kwarg or a.kwonlyargs or a.defaults or a.posonlyargs: raise Unsupported('signature with defaults / *args / **kwargs')
    names = [x.arg for x in a.args]
    if names != list(u.params) and u.sub != 'parameter_map': raise Unsupported('signature (%s) is not the declared (%s)' % (', '.join(names), ', '.join(u.params)))
    if u.sub == 'parameter_map': return self.table(u, node)
    ctx = Ctx(self, u)
    env = {}
    for nm, decl in u.params.items():
      ln = lname(nm)
      if decl[0] == 'N': env[nm] = N(ctx.binder(ln, 'Nat'))
      elif decl[0] == 'RUN':
        env[nm] = Val('RUN', basis=ctx.binder(ln + '_basis', 'Nat'), runs=ctx.binder(ln + '_runs', 'List (Nat × %s)' % par_ty(VK_TY[decl[1]])), vk=decl[1])
      elif decl[0] == 'DEVD':
        fields = {}
        for k, (kind, vk, opt) in DEVICE_FIELDS.items():
          fields[k] = ('lazy', kind, vk, opt, ln + '_' + k)
        env[nm] = Val('DEVD', fields=fields)
      elif decl[0] == 'HELPD':
        form = decl[1]
        L = 'n' if u.helper == 'care' else 'l'
        if u.helper == 'care': ctx.binder('n', 'Nat')
        fields = {}
        mk = lambda a: ctx.arr((lambda x: lambda i: '(%s %s)' % (x, i))(a), L, 'S', atom=a)
        if u.helper == 'care': fields['care'] = ('present', mk(ctx.binder(ln + '_care', 'Nat → α')))
        else: fields['on'] = ('present', Val('LIST', term=ctx.binder(ln + '_on', 'List Nat'), et='N'))
        if form == 'pair': b = Val('T', items=[S(ctx.binder(ln + '_bounds_%d' % k, 'α')) for k in (0, 1)])
        elif form == 'pairvec': b = Val('T', items=[mk(ctx.binder(ln + '_bounds_%d' % k, 'Nat → α')) for k in (0, 1)])
        else: b = mk(ctx.binder(ln + '_bounds', 'Nat → α'))
        fields['bounds'] = ('present', b)
        env[nm] = Val('HELPD', fields=fields)
    if u.helper == 'on':      # declared order: l, then the dictionary entries
      ctx.binders = [b for b in ctx.binders if b.startswith('(l :')] + [b for b in ctx.binders if not b.startswith('(l :')]
    self.resolve_lazy(ctx, env)
    body = list(node.body)
    if u.sub == 'bounds': body = self.slice_bounds(u, node, set(names))
    elif u.sub == 'params': body = self.slice_params(u, node)
    ctx.optional = ctx.falls_through(body)
    ctx.rty = None; ctx.rkind = None
    ctx.block(body, env)
    if ctx.patch: raise Unsupported('an empty list display whose element type is never fixed (`%s`)' % ', '.join(ctx.patch))
    if ctx.rty is None: raise Unsupported('no value is ever returned')
    rty = 'Option (%s)' % ctx.rty if ctx.optional else ctx.rty
    u.ret = ctx.rkind[1] if ctx.rkind[0] == 'LIST' else ctx.rkind
    u.ok = True
    used = [b for b in ctx.binders if self.binder_used(b, ctx.out) or not b.startswith('(d_')]
    return 'def %s %s : Except LoadErr (%s) := do\n%s\n' % (u.lean, ' '.join(used), rty, '\n'.join(ctx.out))

  def binder_used(self, b, lines):
    nm = b[1:].split(' :')[0]
    return any(re.search(r'(?<![\w.])%s(?![\w])' % re.escape(nm), l) for l in lines)

  def resolve_lazy(self, ctx, env):
    """entries of an exported device: binders in the declared order; only those the body mentions are kept."""
    for nm, v in env.items():
      if v.kind != 'DEVD': continue
      for k, f in list(v.fields.items()):
        if f[0] != 'lazy': continue
        _, kind, vk, opt, base = f
        if kind == 'RUN' and not opt:
          v.fields[k] = ('present', Val('RUN', basis=ctx.binder(base + '_basis', 'Nat'), runs=ctx.binder(base + '_runs', 'List (Nat × %s)' % par_ty(VK_TY[vk])), vk=vk))
        elif kind == 'RUN':
          v.fields[k] = ('opt', ctx.binder(base, 'Option (Nat × List (Nat × %s))' % par_ty(VK_TY[vk])), vk)
        elif kind == 'SDICT':
          v.fields[k] = ('present', Val('SDICT', term=ctx.binder(base, 'List (String × α)'), vk='S'))

  # ---- sub-units
  def table(self, u, node):
    cands = [s for s in node.body if isinstance(s, ast.Assign) and len(s.targets) == 1 and isinstance(s.targets[0], ast.Name) and s.targets[0].id == u.sub]
    stores = [z for z in ast.walk(node) if (isinstance(z, ast.Name) and z.id == u.sub and isinstance(z.ctx, (ast.Store, ast.Del)))
              or (isinstance(z, (ast.Subscript, ast.Attribute)) and isinstance(z.ctx, (ast.Store, ast.Del)) and isinstance(z.value, ast.Name) and z.value.id == u.sub)
              or (isinstance(z, ast.Call) and isinstance(z.func, ast.Attribute) and isinstance(z.func.value, ast.Name) and z.func.value.id == u.sub
                  and z.func.attr in ('update', 'pop', 'setdefault', 'clear', 'popitem'))]
    if len(cands) != 1 or len(stores) != 1: raise Unsupported('`%s` is not bound exactly once, by one top-level dict display, and never edited' % u.sub)
    if not isinstance(cands[0].value, ast.Dict): raise Unsupported('`%s` is not a dict display' % u.sub)
    v = Ctx(self, u).dict_display(cands[0].value, {})
    u.pairs = v.pairs; u.ok = True; u.ret = ('TABLE',)
    esc = lambda x: '"' + x.replace('\\', '\\\\').replace('"', '\\"') + '"'
    return 'def %s : List (String × String) :=\n  [%s]\n' % (u.lean, ', '.join('(%s, %s)' % (esc(k), esc(w)) for k, w in v.pairs))

  def slice_bounds(self, u, node, params):
    """the backward slice of the statements that compute the third argument of `device_kit.<Class>(id, basis, bounds, …)`."""
    body = [s for s in node.body if not (isinstance(s, ast.Expr) and isinstance(s.value, ast.Constant))]
    if not body or not isinstance(body[-1], ast.Return): raise Unsupported('the loader does not end in `return device_kit.<Class>(…)`')
    c = body[-1].value
    if not (isinstance(c, ast.Call) and isinstance(c.func, ast.Attribute) and isinstance(c.func.value, ast.Name) and c.func.value.id == 'device_kit'
            and len(c.args) >= 3 and isinstance(c.args[1], ast.Name) and c.args[1].id == 'basis' and isinstance(c.args[2], ast.Name)
            and not any(k.arg in ('bounds', 'length') for k in c.keywords if k.arg)):
      raise Unsupported('the loader does not end in `return device_kit.<Class>(id, basis, <name>, …)`')
    if any(isinstance(a, ast.Starred) for a in c.args): raise Unsupported('starred positional arguments of the device constructor')
    target = c.args[2].id
    needed = {target}
    keep = []
    ctx0 = Ctx(self, u)
    for s in reversed(body[:-1]):
      if ctx0.is_logger(s): continue
      stored = set(ctx0.stored_names([s]))
      reads = {z.id for z in ast.walk(s) if isinstance(z, ast.Name) and isinstance(z.ctx, ast.Load)}
      guard = isinstance(s, ast.If) and not s.orelse and all(isinstance(b, ast.Raise) for b in s.body)
      if stored & needed:
        keep.append(s); needed |= reads - params
      elif guard and reads & needed:
        keep.append(s); needed |= {z.id for z in ast.walk(s.test) if isinstance(z, ast.Name)} - params
      elif isinstance(s, ast.Expr) and reads & needed:
        keep.append(s)      # an expression statement that mentions the bounds (a call that may edit them): not skipped
      elif isinstance(s, (ast.Return, ast.Raise)):
        keep.append(s)
    keep.reverse()
    return keep + [ast.Return(value=ast.Name(id=target, ctx=ast.Load()))]

  def slice_params(self, u, node):
    tab = [s for s in node.body if isinstance(s, ast.Assign) and len(s.targets) == 1 and isinstance(s.targets[0], ast.Name) and s.targets[0].id == 'parameter_map']
    firsts = [s for s in node.body if isinstance(s, ast.Assign) and len(s.targets) == 1 and isinstance(s.targets[0], ast.Name) and s.targets[0].id == 'params']
    if len(tab) != 1 or not firsts: raise Unsupported('no `parameter_map = {…}` / `params = …` statements')
    if node.body.index(tab[0]) > node.body.index(firsts[0]): raise Unsupported('`params` is bound before `parameter_map`')
    return [tab[0], firsts[0], ast.Return(value=ast.Name(id='params', ctx=ast.Load()))]


def par_ty(t):
  return '(%s)' % t if ' ' in t else t


def translate_all(repo):
  tu = TU(repo)
  body = {g: [] for g in GROUPS}
  units, fallback = [], []
  for u in UNITS:
    u.ok = False; u.calls = []; u.line = 0; u.ret = None; u.pairs = None
    try:
      text = tu.translate(u)
    except Unsupported as ex:
      where = '%s:%d' % (u.file, u.line) if u.line else u.file
      body[u.group].append('-- UNTRANSLATABLE %s (%s): %s\n' % (u.qual, where, ex))
      fallback.append((u.lean, where, str(ex)))
      continue
    where = '%s:%d' % (u.file, u.line)
    body[u.group].append('/-- `%s` (%s) -/' % (u.qual, where))
    body[u.group].append(text)
    units.append((u.lean, where))
  texts = {}
  for g in GROUPS:
    fs = GROUP_FILES[g]
    sha = hashlib.sha256(''.join(f + '\n' + tu.src[f] for f in fs).encode()).hexdigest()[:16]
    imports = 'import DK.Gen.Loaders.Prelude\n' + ''.join('import DK.Gen.Loaders.%s\n' % d for d in GROUP_IMPORTS[g])
    texts[g] = '\n'.join([HEADER.format(src=', '.join('device_kit/' + f for f in fs), sha=sha, imports=imports)] + body[g] + ['end', 'end DK.Gen', ''])
  calls = {u.lean: list(u.calls) for u in UNITS}
  return texts, units, fallback, calls


UMBRELLA = """-- GENERATED by vk/translate_loaders.py — do not edit.
-- every generated loader module (one per source group)
import DK.Gen.Loaders.Prelude
"""

PRELUDE = """-- GENERATED by vk/translate_loaders.py (fixed text) — do not edit.
import DK.Model.Loader
/-!
# Prelude of the loader translation (T1l): what the Python forms of `builder_loader.py` / `utils.care2bounds,
on2bounds` denote.

A JSON object whose keys are canonical non-negative decimal integers is an association list in insertion order,
a key being denoted by the number it spells (`int(k)` is then the identity, `sorted(keys, key=int)` the stable sort by
that number, `sorted(keys)` the stable sort by the decimal *string*).  Everything that can raise runs in
`Except LoadErr` (`d[k]` ↦ `KeyError`, `l[i]` ↦ `IndexError`), in Python's evaluation order.
-/
namespace DK.Gen
open DK DK.Loader
section
variable {V β : Type}

/-- `d.keys()` / iteration over a dict: the keys in insertion order. -/
def dictKeys (d : List (Nat × V)) : List Nat := d.map Prod.fst

/-- `d[k]` (`KeyError` when absent). -/
def dictGet (d : List (Nat × V)) (k : Nat) : Except LoadErr V :=
  match d.find? (fun r => r.1 == k) with
  | some r => .ok r.2
  | none => .error .keyError

/-- `m[k]` on a dict literal with string keys (`KeyError` when absent). -/
def strGet (m : List (String × β)) (k : String) : Except LoadErr β :=
  match m.find? (fun r => r.1 == k) with
  | some r => .ok r.2
  | none => .error .keyError

/-- `l[i]` for `i ≥ 0` (`IndexError` beyond the end). -/
def listGet (l : List β) (i : Nat) : Except LoadErr β :=
  match l[i]? with
  | some x => .ok x
  | none => .error .indexError

/-- stable insertion of a key, before the first key that is not smaller w.r.t. `le`. -/
def insertKey (le : Nat → Nat → Bool) (k : Nat) : List Nat → List Nat
  | [] => [k]
  | x :: xs => if le k x then k :: x :: xs else x :: insertKey le k xs

/-- `sorted(keys, key=int)`: stable sort by the number the key spells. -/
def sortedInt : List Nat → List Nat
  | [] => []
  | k :: ks => insertKey (fun a b => decide (a ≤ b)) k (sortedInt ks)

/-- `sorted(keys)` on the decimal strings themselves (`'10' < '2'`). -/
def sortedStr : List Nat → List Nat
  | [] => []
  | k :: ks => insertKey (fun a b => decide (toString a ≤ toString b)) k (sortedStr ks)

/-- `enumerate(l)`. -/
def enumerate (l : List β) : List (Nat × β) := List.zip (List.range l.length) l

/-- `enumerate(l, start)`. -/
def enumerateFrom (start : Nat) (l : List β) : List (Nat × β) := List.zip (List.range' start l.length) l

/-- `range(lo, hi, step)` for a positive literal step. -/
def pyRange (lo hi step : Nat) : List Nat :=
  (List.range ((hi - lo + step - 1) / step)).map (fun k => lo + k * step)

/-- `a[s:e] = v` on an array of `len` rows, `v` one row (slices clip at the array length). -/
def setSlice (len : Nat) (a : Nat → V) (s e : Nat) (v : V) : Nat → V :=
  fun t => if s ≤ t ∧ t < e ∧ t < len then v else a t

/-- `(p).all()` / `np.all(p)` of a boolean vector of length `len`. -/
def allSlots (len : Nat) (p : Nat → Bool) : Bool := (List.range len).all p

/-- `(p).any()` / `np.any(p)`. -/
def anySlots (len : Nat) (p : Nat → Bool) : Bool := (List.range len).any p

end
end DK.Gen
"""

# bridge lemmas (DK.BridgeLoaders.<name>) that are about a unit without being named after it
LEMMA_UNITS = {
  'load_storage_device_parameter_map_keys': ['load_storage_device_parameter_map'],
  'storageSet_strGet': ['load_storage_device_parameter_map'],
}


def bridge_modules():
  """lemma -> module table of the loader bridge, read off the Lean sources."""
  d = os.path.join(HERE, '..', 'lean', 'DK', 'Lemmas', 'BridgeLoaders')
  out = {}
  if os.path.isdir(d):
    for fn in sorted(os.listdir(d)):
      if fn.endswith('.lean'):
        for m in re.finditer(r'^theorem\s+(\S+)', open(os.path.join(d, fn)).read(), re.M):
          out['DK.BridgeLoaders.' + m.group(1)] = 'DK.Lemmas.BridgeLoaders.' + fn[:-5]
  return out


def callers_closure(calls, name):
  out = {name}
  grew = True
  while grew:
    grew = False
    for u, cs in calls.items():
      if u not in out and out & set(cs):
        out.add(u); grew = True
  return out


def lemmas_of_units(units_):
  us = set(units_)
  out = {'DK.BridgeLoaders.' + u for u in us}
  out |= {'DK.BridgeLoaders.' + l for l, xs in LEMMA_UNITS.items() if us & set(xs)}
  return out


# the call graph of the clean tree (a unit that is untranslatable records no calls of its own)
STATIC_CALLS = {
  'load_cbounds': ['run_to_cbounds_array'],
  'load_storage_device_params': ['load_storage_device_parameter_map'],
}
STATIC_CALLS.update({'load_%s_device_bounds' % k: ['run_to_array_pair'] for k in KINDS})


def regenerate(repo=None):
  repo = repo or REPO
  texts, units, fallback, calls = translate_all(repo)
  changed = T1.write_if_changed(os.path.join(GEN, 'Loaders', 'Prelude.lean'), PRELUDE)
  for g in GROUPS:
    changed = T1.write_if_changed(os.path.join(GEN, 'Loaders', g + '.lean'), texts[g]) or changed
  changed = T1.write_if_changed(os.path.join(GEN, 'Loaders.lean'), UMBRELLA + ''.join('import DK.Gen.Loaders.%s\n' % g for g in GROUPS)) or changed
  graph = {u: sorted(set(cs) | set(STATIC_CALLS.get(u, []))) for u, cs in calls.items()}
  affected = {}
  for n, w, why in fallback:
    affected[n] = sorted(lemmas_of_units(callers_closure(graph, n)))
  return {'changed': changed, 't1_units': ['load.%s @ %s' % (n, w) for n, w in units],
          't1_fallback_units': ['load.%s @ %s: %s' % (n, w, why) for n, w, why in fallback],
          't1_load_fallback_lemmas': affected,
          't1_load_calls': {u: cs for u, cs in calls.items() if cs},
          't1_load_t2_only': ['%s (%s): %s' % x for x in T2_ONLY]}


if __name__ == '__main__':
  import json
  print(json.dumps(regenerate(sys.argv[1] if len(sys.argv) > 1 else None), indent=1))
