#!/usr/bin/env python3
"""T1 for property C11 — translate the *scalar* parameter validators of device_kit into Lean.

Same approach (and the same expression/condition translator, `translate.Tr`) as vk/translate.py, applied to
property setters instead of kernels.  Regenerated on every C11 check run from DK_REPO; output
lean/DK/Gen/Validators.lean.  DK/Lemmas/ValidateBridge.lean proves each generated definition equal to the
hand-written model validator of DK/Model/Validate.lean, so loosening / tightening / dropping a validator in
the Python source breaks a proof obligation.

Translatable unit = a setter (or the constructor checks of TDevice) of the shape

    def x(self, x):
      if <cond over x, self.<other>, numerals>: raise ValueError(...)      # one or more
      self._x = x                                                          # stores what was supplied
      <further assignments to self._…>                                     # derived caches, ignored

emitted as  `def <cls>_<x>_ok (x self_<other> … : α) : Bool := if <cond> then false else … else true`.
Anything else (numpy-valued checks of IDevice/IDevice2/CDevice2, `rate_clip`'s try/except, `len(...)` checks,
set-level checks) is *untranslatable* here and is tied to the model by T2 only — listed in the evidence.
"""
import ast, os, sys, hashlib
from .translate import Tr, Unsupported, write_if_changed

REPO = os.environ.get('DK_REPO', '/repo')
HERE = os.path.dirname(os.path.abspath(__file__))
GEN = os.path.join(HERE, '..', 'lean', 'DK', 'Gen')

# (file, class, [setter names])
SETTERS = [
  ('sdevice.py', 'SDevice', ['c1', 'c2', 'c3', 'capacity', 'start', 'reserve', 'damage_depth', 'efficiency', 'sustainment']),
  ('cdevice.py', 'CDevice', ['a']),
]
# (file, class, function, [names each of whose `if … raise` guards is one unit])
CTOR_CHECKS = [('tdevice.py', 'TDevice', '__init__', ['sustainment', 'efficiency', 't_range'])]
# units known to be outside the subset: (name, where, why) — tied by T2 only
T2_ONLY = [
  ('SDevice.rate_clip', 'sdevice.py', 'try/except TypeError normalisation'),
  ('IDevice._validate_param / IDevice.b', 'idevice.py', 'numpy ndim / .all()'),
  ('IDevice2._validate_param / p_l / p_h', 'idevice2.py', 'numpy ndim / .all() with broadcasting'),
  ('CDevice2._validate_param / p_l / p_h', 'cdevice2.py', 'numpy ndim / .all() with broadcasting'),
  ('GDevice.bounds / PVDevice.bounds (hbounds <= 0)', 'gdevice.py, pvdevice.py', 'numpy .all()'),
  ('GDevice.cost_coeffs', 'gdevice.py', 'np.array(...).ndim'),
  ('TDevice.__init__ len(t_external) / c', 'tdevice.py', 'len(), IDevice._validate_param'),
  ('BaseDevice.validate_bounds', 'basedevice.py', 'numpy shape inference (modelled by PyVal / npShape)'),
  ('Device.cbounds', 'device.py', 'closure + slices (modelled by setCbounds)'),
  ('DeviceSet / MFDeviceSet / TwoRatioMFDeviceSet constructors', 'deviceset.py, mfdeviceset.py, tworatiomfdeviceset.py', 'list / regex / numpy checks'),
]


class VTr(Tr):
  """`Tr` + `self.<name>` (a parameter `self_<name>`) + float literals with an integer value."""
  def __init__(self):
    super().__init__(set(), {})
    self.selfs = []

  def expr(self, e, expmode=False):
    if isinstance(e, ast.Attribute) and isinstance(e.value, ast.Name) and e.value.id == 'self':
      n = 'self_' + e.attr.lstrip('_')
      if n not in self.selfs:
        self.selfs.append(n)
      return n, []
    if isinstance(e, ast.Constant) and isinstance(e.value, float) and e.value == int(e.value):
      return super().expr(ast.Constant(value=int(e.value)), expmode)
    return super().expr(e, expmode)


def is_raise_guard(s):
  return (isinstance(s, ast.If) and not s.orelse and len(s.body) == 1 and isinstance(s.body[0], ast.Raise)
          and isinstance(s.body[0].exc, ast.Call) and getattr(s.body[0].exc.func, 'id', None) == 'ValueError')


def names_in(e):
  return {n.id for n in ast.walk(e) if isinstance(n, ast.Name)}


# statements a setter is known to contain after its guards besides the single store of the validated field (reviewed text):
# the refresh of a cache derived from the field.  Anything else — a second store (`self._start = …` in the `reserve`
# setter), a missing refresh, a call — makes the setter UNTRANSLATABLE: it then does more (or less) than "accept iff the
# guards pass and keep the value", which is all the generated `…_ok` predicate says.
EXTRA_AFTER_STORE = {('SDevice', 'sustainment'): ['self._sustainment_matrix = sustainment_matrix(sustainment, len(self))']}


def translate_setter(fn, cls):
  """-> (lean def text, params) or raises Unsupported."""
  args = [a.arg for a in fn.args.args]
  if len(args) != 2 or args[0] != 'self':
    raise Unsupported('setter signature')
  x = args[1]
  tr = VTr()
  conds, stored, phase, extra = [], False, 'guards', []
  for s in fn.body:
    if isinstance(s, ast.Expr) and isinstance(s.value, ast.Constant) and isinstance(s.value.value, str):
      continue
    if phase == 'guards' and is_raise_guard(s):
      c, side = tr.cond(s.test)
      if side:
        raise Unsupported('division / power inside a validator condition')
      conds.append(c)
      continue
    phase = 'store'
    if not (isinstance(s, ast.Assign) and len(s.targets) == 1 and isinstance(s.targets[0], ast.Attribute)
            and isinstance(s.targets[0].value, ast.Name) and s.targets[0].value.id == 'self' and s.targets[0].attr.startswith('_')):
      raise Unsupported(type(s).__name__ + ' after the guards')
    if s.targets[0].attr == '_' + fn.name:
      if stored: raise Unsupported('stores the field twice')
      if not (isinstance(s.value, ast.Name) and s.value.id == x):
        raise Unsupported('stores something other than the supplied value')
      stored = True
    else:
      extra.append(ast.unparse(s))
  if extra != EXTRA_AFTER_STORE.get((cls, fn.name), []):
    raise Unsupported('statements besides the guards and the store of the field differ from the reviewed ones: %s (reviewed: %s)'
                      % (extra, EXTRA_AFTER_STORE.get((cls, fn.name), [])))
  if not conds:
    raise Unsupported('no guard')
  if not stored:
    raise Unsupported('does not store the supplied value')
  return conds, [x] + tr.selfs


def lean_def(name, params, conds, doc):
  body = ''.join(f"if {c} then false else " for c in conds) + 'true'
  return f"/-- {doc} -/\ndef {name} ({' '.join(params)} : α) : Bool :=\n  {body}\n"


HEADER = """-- GENERATED by vk/translate_validators.py from {src} — do not edit.
-- source sha256: {sha}
import DK.Model.Basic
set_option linter.unusedVariables false
namespace DK.Gen
section
variable {{α : Type}} [Add α] [Sub α] [Mul α] [Div α] [Neg α] [OfNat α 0] [OfNat α 1] [OfNat α 2]
  [LT α] [LE α] [DecidableEq α] [DecidableLT α] [DecidableLE α]
"""


def translate_validators(repo):
  out, units, fallback, shas, srcs = [], [], [], [], []
  from . import translate_vec as TV
  tainted, _ = TV.scan_bindings(os.path.join(repo, 'device_kit'), {c for _, c, _ in SETTERS} | {c for _, c, _, _ in CTOR_CHECKS})
  for fname, cls, names in SETTERS:
    path = os.path.join(repo, 'device_kit', fname)
    src = open(path).read(); shas.append(src); srcs.append('device_kit/' + fname)
    tree = ast.parse(src)
    cdef = next((n for n in tree.body if isinstance(n, ast.ClassDef) and n.name == cls), None)
    for nm in names:
      lname = f"{cls.lower()}_{nm}_ok"
      fn = None
      if cdef is not None:
        for f in cdef.body:
          if isinstance(f, ast.FunctionDef) and f.name == nm and any(
              isinstance(d, ast.Attribute) and d.attr == 'setter' for d in f.decorator_list):
            fn = f
      where = f"{fname}:{fn.lineno}" if fn else fname
      if fn is None:
        out.append(f"-- UNTRANSLATABLE {cls}.{nm}: setter not found\n"); fallback.append((lname, where, 'missing')); continue
      if (cls, nm) in tainted or (cls, '*') in tainted:
        why = 'the `def` is not what the name denotes: ' + tainted.get((cls, nm), tainted.get((cls, '*')))
        out.append(f"-- UNTRANSLATABLE {cls}.{nm} ({where}): {why}\n"); fallback.append((lname, where, why)); continue
      try:
        conds, params = translate_setter(fn, cls)
      except Unsupported as u:
        out.append(f"-- UNTRANSLATABLE {cls}.{nm} ({where}): {u}\n"); fallback.append((lname, where, str(u))); continue
      out.append(lean_def(lname, params, conds, f"`{cls}.{nm}` setter ({where}): accepted?"))
      units.append((lname, where))
  for fname, cls, func, names in CTOR_CHECKS:
    path = os.path.join(repo, 'device_kit', fname)
    src = open(path).read(); shas.append(src); srcs.append('device_kit/' + fname)
    tree = ast.parse(src)
    cdef = next((n for n in tree.body if isinstance(n, ast.ClassDef) and n.name == cls), None)
    fn = next((f for f in (cdef.body if cdef else []) if isinstance(f, ast.FunctionDef) and f.name == func), None)
    for nm in names:
      lname = f"{cls.lower()}_{nm}_ok"
      where = f"{fname}:{fn.lineno}" if fn else fname
      guards = [s for s in (fn.body if fn else []) if is_raise_guard(s) and names_in(s.test) == {nm}]
      if not guards:
        out.append(f"-- UNTRANSLATABLE {cls}.{func} check on {nm}: no guard found\n"); fallback.append((lname, where, 'no guard')); continue
      try:
        tr = VTr(); conds = []
        for g in guards:
          c, side = tr.cond(g.test)
          if side: raise Unsupported('division / power inside a validator condition')
          conds.append(c)
      except Unsupported as u:
        out.append(f"-- UNTRANSLATABLE {cls}.{func} check on {nm}: {u}\n"); fallback.append((lname, where, str(u))); continue
      out.append(lean_def(lname, [nm] + tr.selfs, conds, f"`{cls}.{func}` guard(s) on `{nm}` ({fname}:{guards[0].lineno}): accepted?"))
      units.append((lname, f"{fname}:{guards[0].lineno}"))
  sha = hashlib.sha256('\n'.join(shas).encode()).hexdigest()[:16]
  text = HEADER.format(src=', '.join(srcs), sha=sha) + '\n' + '\n'.join(out) + '\nend\nend DK.Gen\n'
  return text, units, fallback


def regenerate(repo=None):
  repo = repo or REPO
  text, units, fallback = translate_validators(repo)
  changed = write_if_changed(os.path.join(GEN, 'Validators.lean'), text)
  return {'changed': changed, 't1_units': [f"{n} @ {w}" for n, w in units],
          't1_fallback_units': [f"{n} @ {w}: {why}" for n, w, why in fallback],
          't2_only_units': [f"{n} @ {w}: {why}" for n, w, why in T2_ONLY]}


if __name__ == '__main__':
  import json
  print(json.dumps(regenerate(sys.argv[1] if len(sys.argv) > 1 else None), indent=1))
