"""Build the real device_kit objects from a description (see gen.py)."""
import os
from fractions import Fraction
from .common import repo, pf, F


def _np():
  import numpy as np
  return np


def fv(v):
  """scalar-or-vector protocol value -> float / np.array (integer-typed for about a third of the integer-valued ones)."""
  np = _np()
  if isinstance(v, list):
    f = [pf(x) for x in v]
    return np.array(f, dtype=int) if _intlike(f) else np.array(f)
  x = pf(v)
  return int(x) if _intlike([x]) else x


def build_fn(f):
  np = _np()
  repo()
  from device_kit import functions as Fm
  k = f['k']
  if k == 'null':
    return Fm.NullFunction()
  if k == 'add':
    parts = []
    def collect(g):
      if g['k'] == 'add' and not g.get('_nofold'):
        collect(g['f']); collect(g['g'])
      else:
        parts.append(build_fn(g))
    collect(f)
    return Fm.SumFunction(parts)
  if k == 'reflect':
    return Fm.ReflectedFunction(build_fn(f['f']))
  if k == 'poly':
    cs = [[pf(x) for x in row] for row in f['cs']]
    if f.get('_offset'):
      off = fv(f['off'])
      return Fm.Poly2DOffset(np.concatenate((np.array(cs), np.array(off).reshape(len(cs), 1)), axis=1))
    return Fm.Poly2D(cs)
  if k == 'hlq':
    if f.get('_x2d'):
      n = len(f['xl'])
      g = lambda key, i: pf(f[key][i]) if isinstance(f[key], list) else pf(f[key])
      return Fm.X2D([Fm.HLQuadraticCost(g('pl', i), g('ph', i), g('xl', i), g('xh', i)) for i in range(n)])
    return Fm.HLQuadraticCost(fv(f['pl']), fv(f['ph']), fv(f['xl']), fv(f['xh']))
  if k == 'abc':
    return Fm.ABCCost(fv(f['a']), fv(f['b']), fv(f['c']), fv(f['xl']), fv(f['xh']))
  if k == 'innerHlq':
    return Fm.InnerSumFunction(Fm.HLQuadraticCost(pf(f['pl']), pf(f['ph']), pf(f['xl']), pf(f['xh'])))
  if k == 'append':
    ranges = []
    def collect(g, start, n_total):
      # right-nested appends fold into one RangesFunction
      if g['k'] == 'append' and not g.get('_nofold'):
        ranges.append(((start, start + g['at']), build_fn(g['f'])))
        collect(g['g'], start + g['at'], n_total)
      else:
        ranges.append(((start, n_total), build_fn(g)))
    collect(f, 0, f['_n'])
    return Fm.RangesFunction(ranges)
  if k == 'demand':
    return Fm.DemandFunction(np.poly1d([pf(x) for x in f['cs']]))
  raise ValueError('unknown fn kind ' + k)


def annotate_fn(f, n):
  """record the vector length each `append` node acts on (needed to build RangesFunction)."""
  f['_n'] = n
  if f['k'] == 'append':
    annotate_fn(f['f'], f['at']); annotate_fn(f['g'], n - f['at'])
  else:
    for x in ('f', 'g'):
      if x in f:
        annotate_fn(f[x], n)
  return f


def py_bounds(d):
  np = _np()
  lb = [pf(x) for x in d['lb']]; hb = [pf(x) for x in d['hb']]
  form = d.get('_py', {}).get('bform', 'pair')
  if form == 'scalar':
    return (lb[0], hb[0])
  if form == 'table':
    return np.stack((np.array(lb), np.array(hb)), axis=1)
  return (np.array(lb), np.array(hb))


def py_cbounds(d):
  form = d.get('_py', {}).get('cform')
  if not d.get('cbs') or form is None:
    return None
  cbs = [(pf(c[0]), pf(c[1]), int(c[2]), int(c[3])) for c in d['cbs']]
  if form == '2tuple':
    return (cbs[0][0], cbs[0][1])
  return cbs


def build_leaf(d, id=None):
  np = _np()
  dk = repo()
  cls = d['cls']; n = d['n']; p = d.get('prm', {})
  id = id or d.get('id') or cls.lower()
  b, cb = py_bounds(d), py_cbounds(d)
  if cls == 'Device':
    return dk.Device(id, n, b, cb)
  if cls == 'PVDevice':
    return dk.PVDevice(id, n, b, cb)
  if cls == 'CDevice':
    return dk.CDevice(id, n, b, cb, a=pf(p['a']), b=pf(p['b']))
  if cls == 'CDevice2':
    return dk.CDevice2(id, n, b, cb, p_l=pf(p['p_l']), p_h=pf(p['p_h']))
  if cls == 'IDevice':
    return dk.IDevice(id, n, b, cb, a=fv(p['a']), b=fv(p['b']), c=fv(p['c']))
  if cls == 'IDevice2':
    return dk.IDevice2(id, n, b, cb, p_l=fv(p['p_l']), p_h=fv(p['p_h']))
  if cls == 'GDevice':
    cc = p['cost_coeffs']
    cc = [[pf(x) for x in row] for row in cc] if isinstance(cc[0], list) else [pf(x) for x in cc]
    return dk.GDevice(id, n, b, cb, cost_coeffs=cc)
  if cls == 'SDevice':
    kw = {k: pf(v) for k, v in p.items() if k != 'rate_clip'}
    if 'rate_clip' in p:
      kw['rate_clip'] = tuple(None if x is None else pf(x) for x in p['rate_clip'])
    return dk.SDevice(id, n, b, cb, **kw)
  if cls == 'TDevice':
    return dk.TDevice(id, n, b, pf(p['sustainment']), pf(p['efficiency']), pf(p['t_init']), pf(p['t_optimal']), pf(p['t_range']),
                      np.array([pf(x) for x in p['t_external']]), c=fv(p['c']), cbounds=cb)
  if cls == 'ADevice':
    kw = {}
    if 'f' in p:
      kw['f'] = build_fn(annotate_fn(p['f'], n))
    if '_constraints' in d:
      kw['constraints'] = d['_constraints']
    return dk.ADevice(id, n, b, cb, **kw)
  raise ValueError('unknown class ' + cls)


def _intlike(vals):
  """deterministic pseudo-random choice (no rng: the same description always builds the same objects):
  about one third of all-integer-valued inputs are handed to the library as INTEGER-typed data
  (numpy int arrays / Python ints), as callers do all the time (`bounds=(0, 2)`, `np.arange(n)`)."""
  import zlib
  if os.environ.get('VERIF_NO_INT_INPUTS'):
    return False
  flat = []
  def walk(u):
    if isinstance(u, list):
      for w in u: walk(w)
    else:
      flat.append(u)
  walk(vals)
  return bool(flat) and all(float(x).is_integer() for x in flat) and zlib.crc32(repr(flat).encode()) % 3 == 0


def arr(v, shape=None):
  np = _np()
  f = jf(v)
  a = np.array(f, dtype=int) if _intlike(f) else np.array(f, dtype=float)
  return a.reshape(shape) if shape is not None else a


def jf(v):
  if isinstance(v, list):
    return [jf(u) for u in v]
  return pf(v)


def price(p):
  """protocol price -> float / array (integer-typed for about a third of the integer-valued prices)."""
  np = _np()
  if isinstance(p, list):
    f = jf(p)
    return np.array(f, dtype=int) if _intlike(f) else np.array(f, dtype=float)
  x = pf(p)
  return int(x) if _intlike([x]) else x


def build_ucons(ucons):
  np = _np()
  out = []
  for u in ucons:
    w = np.array([pf(x) for x in u['w']]); c = pf(u['c'])
    con = {'type': u['type'], 'fun': (lambda x, w=w, c=c: float(np.array(x).reshape(-1).dot(w) + c))}
    if u.get('jac', True):
      con['jac'] = (lambda x, w=w: w.copy())
    out.append(con)
  return out


def build_block_device(d, id):
  if d['cls'] == 'ADevice' and 'ucons' in d:
    d = dict(d); d['_constraints'] = build_ucons(d['ucons'])
  return build_leaf(d, id)


def build_tree(t):
  np = _np()
  dk = repo()
  if t['k'] == 'leaf':
    return build_block_device(t['dev'], t['id'])
  if t['k'] == 'mf':
    dev = build_block_device(t['dev'], t['id'])
    if t.get('ratios'):
      return dk.TwoRatioMFDeviceSet(dev, list(t['flows']), [pf(x) for x in t['ratios']], t.get('ctype', 'eq'))
    return dk.MFDeviceSet(dev, list(t['flows']))
  kids = [build_tree(c) for c in t['ch']]
  sb = None
  if t.get('sb') is not None:
    sb = np.array([[pf(a), pf(b)] for a, b in t['sb']])
  if t.get('sub'):
    return dk.SubBalancedDeviceSet(t['id'], kids, sb, labels=list(t.get('labels', [])), constraint_type=t.get('ctype', 'eq'),
                                   sign=pf(t.get('sign', '1')), apply_to_remaining=bool(t.get('rem', False)))
  return dk.DeviceSet(t['id'], kids, sb)
