"""Description-first case generators.  A *description* is the JSON object the Lean driver
decodes (numbers are exact rationals as strings); build.py constructs the real Python
objects from the same description.  All random choices come from the one rng passed in."""
from fractions import Fraction
from .common import F, fs, dy

LEAF_CLASSES = ['Device', 'PVDevice', 'CDevice', 'CDevice2', 'IDevice', 'IDevice2', 'GDevice', 'SDevice', 'TDevice', 'ADevice']


def pick_n(rng, tier, nmax=None):
  if tier == 'thorough':
    return rng.choice([1, 2, 3, 4, 5, 6, 7, 8, 9, 12, 16, 24, 25, 31, 48, 60] if nmax is None else list(range(1, nmax + 1)))
  if nmax is None and rng.random() < 0.05:
    return rng.choice([12, 16, 24, 25, 31, 48])      # the horizon is not bounded by anything small (nor is it always 24)
  return rng.choice([1, 2, 2, 3, 3, 4, 5, 6, 8] if nmax is None else list(range(1, nmax + 1)))


NO_DEC = bool(__import__('os').environ.get('VERIF_NO_DECIMALS'))
P_DEC = 0.25      # share of prices / interior flows / cost parameters drawn as NON-dyadic decimals (k/1000): the model computes
                  # them exactly, the implementation in binary floating point (error ~1e-16 << the 1e-9 comparison tolerance);
                  # dyadics with <= 3 fractional bits are exact even in float16, so they cannot see a precision-reducing edit


def dec(rng, lo, hi):
  """a decimal rational k/1000 in [lo, hi] (falls back to lo when the interval holds none)."""
  a, b = __import__('math').ceil(F(lo)*1000), __import__('math').floor(F(hi)*1000)
  return Fraction(rng.randint(a, b), 1000) if a <= b else F(lo)


def nudge(rng):
  """a small positive non-dyadic offset k/1000 < 1/8."""
  return Fraction(rng.choice([1, 3, 7, 13, 37, 41, 73, 99, 101, 123]), 1000)


def gen_bounds(rng, n, lo=-4, hi=4, sign=None, zero_width=0.2):
  """per-slot (lb, hb) with some zero-width slots. sign: None two-way, '+' consumer, '-' producer."""
  lb, hb = [], []
  same = rng.random() < 0.35
  base = None
  for _ in range(n):
    if same and base is not None:
      a, b = base
    else:
      if sign == '+':
        a = dy(rng, 0, hi - 1); b = dy(rng, a, hi)
      elif sign == '-':
        b = dy(rng, lo + 1, 0); a = dy(rng, lo, b)
      else:
        a = dy(rng, lo, hi - 1); b = dy(rng, a, hi)
      if b == a and rng.random() < 0.7:
        b = a + Fraction(rng.randint(1, 8), 4) if sign != '-' else a
        if sign == '-':
          a = b - Fraction(rng.randint(1, 8), 4)
      base = (a, b)
    if rng.random() < zero_width and not same:
      b = a
    lb.append(a); hb.append(b)
  if same and rng.random() < 0.3 and n > 1:
    k = rng.randrange(n); hb[k] = lb[k]
  return lb, hb


def gen_flow(rng, lb, hb, mode=None):
  """an in-bounds flow: interior, on bounds, or mixed."""
  mode = mode or rng.choice(['interior', 'interior', 'mixed', 'lower', 'upper'])
  deci = (not NO_DEC) and rng.random() < P_DEC
  s = []
  for a, b in zip(lb, hb):
    if mode == 'lower':
      t = Fraction(0)
    elif mode == 'upper':
      t = Fraction(1)
    elif mode == 'interior':
      t = Fraction(rng.randint(1, 7), 8)
    else:
      t = Fraction(rng.randint(0, 8), 8)
    if deci and 0 < t < 1:
      t = Fraction(rng.randint(1, 999), 1000)
    s.append(a + t*(b - a))
  return s


def gen_price(rng, n):
  """scalar or per-slot price of any sign."""
  d_ = dec if ((not NO_DEC) and rng.random() < P_DEC) else (lambda r, a, b: dy(r, a, b, 3))
  if rng.random() < 0.4:
    return fs(d_(rng, -3, 3))
  return [fs(d_(rng, -3, 3)) for _ in range(n)]


def svec(rng, n, f, p_vec=0.5):
  """scalar-or-vector parameter."""
  if rng.random() < p_vec:
    return [fs(f()) for _ in range(n)]
  return fs(f())


def gen_cbounds(rng, n, lb, hb, multi_ok=True):
  """feasible cumulative bounds; returns (cbs rows as Fractions, python form tag)."""
  r = rng.random()
  if r < 0.35 or n == 1 or not multi_ok:
    ranges = [(0, n)]
    form = rng.choice(['2tuple', '4tuples'])
  elif r < 0.8:
    cuts = sorted(rng.sample(range(1, n), min(n - 1, rng.randint(1, 2))))
    pts = [0] + cuts + [n]
    ranges = list(zip(pts[:-1], pts[1:]))
    form = '4tuples'
  else:
    a = rng.randrange(0, n); b = rng.randint(a + 1, n)
    ranges = [(a, b)]
    if rng.random() < 0.5:
      c = rng.randrange(0, n); d = rng.randint(c + 1, n); ranges.append((c, d))
    form = '4tuples'
  cbs = []
  for (a, b) in ranges:
    lo, hi = sum(lb[a:b], F(0)), sum(hb[a:b], F(0))
    w = hi - lo
    l = lo + w*Fraction(rng.randint(-2, 3), 8)
    h = max(l, lo) + (w if w > 0 else 1)*Fraction(rng.randint(1, 6), 8)
    if h <= l:
      h = l + 1
    cbs.append([l, h, a, b])
  return cbs, form


def gen_fn(rng, n, lb, hb, depth=0):
  """a preference function over n slots (deep embedding of functions.py)."""
  kinds = ['poly', 'polyoff', 'hlq', 'abc', 'innerHlq', 'demand', 'null']
  if depth < 2:
    kinds += ['add', 'add', 'reflect'] + (['append', 'append'] if n >= 2 else [])
  if depth == 0:      # wide combinators: 5-6 summands in ONE SumFunction, 4-6 ranges in ONE RangesFunction (build_fn folds the chains)
    kinds += ['addN'] + (['appendN'] if n >= 4 else [])
  k = rng.choice(kinds)
  L = lambda v: [fs(x) for x in v]
  if k == 'addN':
    parts = [gen_fn(rng, n, lb, hb, 2) for _ in range(rng.randint(5, 6))]
    f = parts[-1]
    for g in reversed(parts[:-1]):
      f = {'k': 'add', 'f': g, 'g': f}
    return f
  if k == 'appendN':
    cuts = sorted(rng.sample(range(1, n), min(n - 1, rng.randint(3, 5))))
    def chain(start, cs):
      if not cs:
        return gen_fn(rng, n - start, lb[start:], hb[start:], 2)
      at = cs[0] - start
      return {'k': 'append', 'at': at, 'f': gen_fn(rng, at, lb[start:cs[0]], hb[start:cs[0]], 2), 'g': chain(cs[0], cs[1:])}
    return chain(0, cuts)
  if k == 'null':
    return {'k': 'null'}
  if k == 'add':
    return {'k': 'add', 'f': gen_fn(rng, n, lb, hb, depth + 1), 'g': gen_fn(rng, n, lb, hb, depth + 1)}
  if k == 'reflect':
    return {'k': 'reflect', 'f': gen_fn(rng, n, [-x for x in hb], [-x for x in lb], depth + 1)}
  if k == 'append':
    at = rng.randint(1, n - 1)
    return {'k': 'append', 'at': at, 'f': gen_fn(rng, at, lb[:at], hb[:at], depth + 1),
            'g': gen_fn(rng, n - at, lb[at:], hb[at:], depth + 1)}
  if k in ('poly', 'polyoff'):
    deg = rng.choice([0, 1, 2, 3, 3, 4, 5])      # nothing bounds the degree of a polynomial curve
    cs = [[fs(dy(rng, 0 if j == 0 else -2, 2)) for j in range(deg + 1)] for _ in range(n)]
    if k == 'polyoff':
      cs = [[fs(dy(rng, 0, 2)), fs(dy(rng, -2, 2)), fs(dy(rng, -2, 2))] for _ in range(n)]
      return {'k': 'poly', 'cs': cs, 'off': L([dy(rng, -2, 2) for _ in range(n)]), '_offset': True}
    return {'k': 'poly', 'cs': cs, 'off': '0'}
  if k == 'hlq':
    pl = [dy(rng, -3, 0) for _ in range(n)]
    ph = [dy(rng, p, 0) for p in pl]
    return {'k': 'hlq', 'pl': L(pl), 'ph': L(ph), 'xl': L(lb), 'xh': L(hb)}
  if k == 'abc':
    return {'k': 'abc', 'a': svec(rng, n, lambda: dy(rng, 0, 1)), 'b': str(rng.choice([1, 2, 2, 3, 4])) if rng.random() < 0.6 else [str(rng.choice([1, 2, 3, 4])) for _ in range(n)],
            'c': svec(rng, n, lambda: dy(rng, 0, 2)), 'xl': L(lb), 'xh': L(hb)}
  if k == 'innerHlq':
    pl = dy(rng, -3, 0); ph = dy(rng, pl, 0)
    lo, hi = sum(lb, F(0)), sum(hb, F(0))
    if rng.random() < 0.15:
      hi = lo
    return {'k': 'innerHlq', 'pl': fs(pl), 'ph': fs(ph), 'xl': fs(lo), 'xh': fs(hi)}
  if k == 'demand':
    hi_ = [[], [], [dy(rng, -1, 1)], [dy(rng, 0, 1), dy(rng, -1, 1)]][rng.randint(0, 3)]      # inner curve: up to a quartic, signed coefficients
    return {'k': 'demand', 'cs': L(hi_ + [dy(rng, 0, 2), dy(rng, -2, 2), dy(rng, -2, 2)]) if hi_ else L([dy(rng, 0, 2), dy(rng, -2, 2), dy(rng, -2, 2)][rng.randint(0, 2):])}
  raise AssertionError(k)


def fn_has(f, kind):
  if f['k'] == kind:
    return True
  return any(fn_has(f[x], kind) for x in ('f', 'g') if x in f)


def gen_leaf(rng, tier='quick', classes=None, n=None, with_cbounds=None):
  cls = rng.choice(classes or LEAF_CLASSES)
  n = n or pick_n(rng, tier)
  L = lambda v: [fs(x) for x in v]
  sign = {'PVDevice': '-', 'GDevice': '-', 'CDevice': '+', 'CDevice2': '+', 'IDevice': '+', 'IDevice2': '+', 'TDevice': '+'}.get(cls)
  if cls in ('Device', 'ADevice'):
    sign = rng.choice([None, '+', '-'])
  zw = 0.0 if cls in ('SDevice', 'TDevice') else 0.2
  lb, hb = gen_bounds(rng, n, sign=sign, zero_width=zw)
  if cls == 'SDevice':
    m = dy(rng, 1, 4); lb, hb = [-m]*n, [m]*n
    if rng.random() < 0.5:
      lb = [-dy(rng, 0, 4) for _ in range(n)]; hb = [dy(rng, 0, 4) for _ in range(n)]
  if cls == 'CDevice2' and sum(lb, F(0)) == sum(hb, F(0)):
    hb[0] = hb[0] + 1   # the defaulted cumulative bound needs low < high
  d = {'cls': cls, 'n': n, 'lb': L(lb), 'hb': L(hb), 'cbs': [], 'prm': {}, '_py': {}}
  py = d['_py']
  # a pair of two length-2 vectors is read as a (2,2) table (documented precedence): never use it at n == 2
  py['bform'] = rng.choice((['pair'] if n != 2 else []) + ['table'] + (['scalar'] if len(set(lb)) == 1 and len(set(hb)) == 1 else []))
  want_cb = with_cbounds if with_cbounds is not None else (rng.random() < 0.4)
  if cls == 'CDevice2':
    want_cb = rng.random() < 0.75
  if want_cb and cls not in ('TDevice',):
    cbs, form = gen_cbounds(rng, n, lb, hb, multi_ok=True)
    if cls == 'CDevice2' and len(cbs) > 1 and not all(cbs[i][3] == cbs[i + 1][2] for i in range(len(cbs) - 1)):
      cbs = cbs[:1]   # RangesFunction needs contiguous ranges
    if cls == 'CDevice2' and len(cbs) > 1 and (cbs[0][2] != 0 or cbs[-1][3] != n):
      cbs = cbs[:1]
    d['cbs'] = [[fs(c[0]), fs(c[1]), c[2], c[3]] for c in cbs]
    py['cform'] = form if len(cbs) == 1 and cbs[0][2] == 0 and cbs[0][3] == n else '4tuples'
  elif cls == 'CDevice2':
    lo, hi = sum(lb, F(0)), sum(hb, F(0))
    d['cbs'] = [[fs(lo), fs(hi), 0, n]]
    py['cform'] = None
  else:
    py['cform'] = None
  p = d['prm']
  if cls == 'CDevice':
    p['a'] = fs(dy(rng, -3, 0)); p['b'] = fs(dy(rng, -2, 2))
  elif cls == 'CDevice2':
    pl = dy(rng, -3, 0); ph = dy(rng, pl, 0) if rng.random() > 0.15 else pl
    p['p_l'] = fs(pl); p['p_h'] = fs(ph)
  elif cls == 'IDevice':
    p['a'] = svec(rng, n, lambda: dy(rng, 0, 1) if rng.random() < 0.8 else dy(rng, 0, 2))
    p['b'] = str(rng.choice([1, 2, 2, 3, 4])) if rng.random() < 0.6 else [str(rng.choice([1, 2, 3, 4])) for _ in range(n)]
    p['c'] = svec(rng, n, lambda: dy(rng, 0, 2))
  elif cls == 'IDevice2':
    if rng.random() < 0.5:
      pl = dy(rng, -3, 0); ph = dy(rng, pl, 0) if rng.random() > 0.15 else pl
      p['p_l'] = fs(pl); p['p_h'] = fs(ph)
    else:
      pls = [dy(rng, -3, 0) for _ in range(n)]
      p['p_l'] = L(pls); p['p_h'] = L([dy(rng, x, 0) for x in pls])
  elif cls == 'GDevice':
    def coeffs():
      deg = rng.randint(1, 3)
      c = [dy(rng, 0, 2) for _ in range(deg + 1)]
      if deg == 3:
        c[0] = dy(rng, 0, 1)
      return L(c)
    if rng.random() < 0.5:
      p['cost_coeffs'] = coeffs()
    else:
      deg = rng.randint(1, 3)
      p['cost_coeffs'] = [L([dy(rng, 0, 2) for _ in range(deg + 1)]) for _ in range(n)]
  elif cls == 'SDevice':
    c1 = dy(rng, 0, 2); c2 = dy(rng, 0, c1) if c1 > 0 else F(0)
    if c1 > 0 and c2 == c1 and rng.random() < 0.5:
      c2 = c1/2
    cap = dy(rng, 1, 12)
    p.update({'c1': fs(c1), 'c2': fs(c2) if rng.random() < 0.7 else '0', 'c3': fs(dy(rng, 0, 2)) if rng.random() < 0.7 else '0',
              'capacity': fs(cap), 'damage_depth': fs(dy(rng, 0, 1)), 'start': fs(dy(rng, 0, 1)),
              'reserve': fs(dy(rng, 0, 1)) if rng.random() < 0.5 else '0',
              'efficiency': rng.choice(['1', '1', '1/2', '3/4', '7/8']), 'sustainment': rng.choice(['1', '1', '1/2', '3/4', '7/8'])})
  elif cls == 'TDevice':
    p.update({'sustainment': rng.choice(['1', '1/2', '3/4', '7/8', '0', '1/4']), 'efficiency': fs(rng.choice([1, -1])*dy(rng, Fraction(1, 4), 3)),
              't_init': fs(dy(rng, -5, 25)), 't_optimal': fs(dy(rng, 15, 25)), 't_range': fs(dy(rng, 0, 6)) if rng.random() < 0.9 else '0',
              't_external': L([dy(rng, -8, 30, 1) for _ in range(n)]), 'c': svec(rng, n, lambda: dy(rng, 0, 3), 0.4)})
  elif cls == 'ADevice':
    p['f'] = gen_fn(rng, n, lb, hb)
  if (not NO_DEC) and rng.random() < P_DEC:
    decimalize(rng, d)
  return d


def decimalize(rng, d):
  """move some cost parameters of a leaf description off the dyadic grid by a small decimal offset, in the direction that
  keeps every acceptance condition (a <= 0, p_l <= p_h <= 0, c2 <= c1, coefficients >= 0, ...)."""
  p = d['prm']; cls = d['cls']
  def sh(k, sign):
    v = p.get(k)
    if v is None:
      return
    if isinstance(v, list):
      if v and isinstance(v[0], list):
        p[k] = [[fs(F(x) + sign*nudge(rng)) if F(x) != 0 else x for x in row] for row in v]
      else:
        p[k] = [fs(F(x) + sign*nudge(rng)) if F(x) != 0 else x for x in v]
    elif F(v) != 0:
      p[k] = fs(F(v) + sign*nudge(rng))
  if cls == 'CDevice':
    sh('a', -1); sh('b', +1)
  elif cls in ('CDevice2', 'IDevice2'):
    if isinstance(p.get('p_l'), list) == isinstance(p.get('p_h'), list):
      same = p.get('p_l') == p.get('p_h')
      sh('p_l', -1)
      if same and rng.random() < 0.5:
        p['p_h'] = p['p_l']          # keep the equal-slopes corner
  elif cls == 'IDevice':
    sh('c', +1)
  elif cls == 'GDevice':
    sh('cost_coeffs', +1)
  elif cls == 'SDevice':
    sh('c1', +1); sh('c3', +1)
  elif cls == 'TDevice':
    sh('c', +1); sh('t_init', +1)


def leaf_flow(rng, d, mode=None):
  lb = [F(x) for x in d['lb']]; hb = [F(x) for x in d['hb']]
  return [fs(x) for x in gen_flow(rng, lb, hb, mode)]


# ---------------------------------------------------------------- trees
def gen_ucons(rng, n, lb, hb):
  """user constraints of an ADevice as data: w.x + c >= 0 / == 0."""
  out = []
  for _ in range(rng.randint(1, 2)):
    w = [dy(rng, -2, 2) for _ in range(n)]
    mid = sum((wi*(a + b)/2 for wi, a, b in zip(w, lb, hb)), F(0))
    out.append({'type': rng.choice(['ineq', 'ineq', 'eq']), 'w': [fs(x) for x in w], 'c': fs(-mid + dy(rng, 0, 2)), 'n': n,
                'jac': rng.random() < 0.8})
  return out


def gen_tree(rng, tier='quick', n=None, depth=None, want_mf=None):
  n = n or pick_n(rng, tier, 6 if tier == 'quick' else 10)
  depth = depth if depth is not None else rng.choice([1, 2, 2, 3])
  counter = [0]
  def fresh(prefix):
    counter[0] += 1
    return '%s%d' % (prefix, counter[0])
  def leaf():
    cls = rng.choice(['Device', 'CDevice', 'CDevice2', 'IDevice', 'IDevice2', 'GDevice', 'PVDevice', 'SDevice', 'TDevice', 'ADevice'])
    d = gen_leaf(rng, tier, [cls], n=n)
    if cls == 'ADevice' and rng.random() < 0.5:
      d['ucons'] = gen_ucons(rng, n, [F(x) for x in d['lb']], [F(x) for x in d['hb']])
    return {'k': 'leaf', 'id': fresh(rng.choice(['a', 'b', 'e', 'h'])), 'dev': d}
  def mf():
    cls = rng.choice(['Device', 'CDevice', 'CDevice2', 'IDevice', 'IDevice2', 'GDevice', 'PVDevice', 'ADevice'])
    d = gen_leaf(rng, tier, [cls], n=n)
    lb = [F(x) for x in d['lb']]; hb = [F(x) for x in d['hb']]
    if any(x < 0 for x in lb) and any(x > 0 for x in hb):   # make it one-directional
      d = gen_leaf(rng, tier, ['IDevice2'], n=n)
    if d['cls'] == 'ADevice' and rng.random() < 0.5:
      d['ucons'] = gen_ucons(rng, n, [F(x) for x in d['lb']], [F(x) for x in d['hb']])
    k = rng.choice([1, 2, 2, 3])
    flows = ['e', 'h', 'g'][:k]
    t = {'k': 'mf', 'id': fresh('m'), 'dev': d, 'flows': flows, 'ratios': None}
    if k == 2 and rng.random() < 0.4:
      t['ratios'] = [fs(dy(rng, 1, 3)), fs(dy(rng, 1, 3))]
      t['ctype'] = rng.choice(['eq', 'ineq'])
    return t
  def node(dep, root=False):
    kids = []
    for _ in range(rng.randint(1 if not root else 2, 3)):
      r = rng.random()
      if dep > 1 and r < 0.4:
        kids.append(node(dep - 1))
      elif r < 0.6 and (want_mf is not False):
        kids.append(mf())
      else:
        kids.append(leaf())
    t = {'k': 'node', 'id': fresh('s') if not root else 'root', 'sb': None, 'ch': kids, 'sub': False}
    r = rng.random()
    if r < 0.6:
      sb = []
      base = (dy(rng, -6, 0), dy(rng, 0, 8))
      for i in range(n):
        q = rng.random()
        if q < 0.25:
          v = dy(rng, -2, 4); sb.append([fs(v), fs(v)])
        elif q < 0.6:
          sb.append([fs(base[0]), fs(base[1])])
        else:
          a = dy(rng, -6, 2); sb.append([fs(a), fs(a + dy(rng, 0, 6))])
      t['sb'] = sb
    if rng.random() < 0.35:
      t['sub'] = True
      t['labels'] = rng.sample(['e', 'h', 'g', '1', '2'], rng.randint(1, 2))
      t['ctype'] = rng.choice(['eq', 'ineq'])
      t['sign'] = rng.choice(['1', '-1', '1'])
      t['rem'] = rng.random() < 0.4
    return t
  t = node(depth, root=True)
  if want_mf and not tree_has(t, 'mf'):
    t['ch'].append(mf())
  return t, n


def tree_has(t, kind):
  if t['k'] == kind:
    return True
  return any(tree_has(c, kind) for c in t.get('ch', []))


def tree_rows(t):
  if t['k'] == 'leaf': return 1
  if t['k'] == 'mf': return len(t['flows'])
  return sum(tree_rows(c) for c in t['ch'])


def tree_depth(t):
  return 1 + max([tree_depth(c) for c in t.get('ch', [])] or [0]) if t['k'] == 'node' else 0


def tree_leaves(t):
  """(description, number of rows) of every block, in row order."""
  if t['k'] in ('leaf', 'mf'):
    return [t]
  out = []
  for c in t['ch']:
    out += tree_leaves(c)
  return out


def tree_box(t, n):
  """row-major (lb, hb) of the flat bounds the tree should report (from the leaf descriptions)."""
  lb, hb = [], []
  for b in tree_leaves(t):
    d = b['dev']
    l = [F(x) for x in d['lb']]; h = [F(x) for x in d['hb']]
    if b['k'] == 'leaf':
      lb += l; hb += h
    else:
      neg = any(x < 0 for x in l)
      for _ in b['flows']:
        lb += (l if neg else [F(0)]*n); hb += ([F(0)]*n if neg else h)
  return lb, hb


def tree_flow(rng, t, n, mode=None):
  lb, hb = tree_box(t, n)
  flat = gen_flow(rng, lb, hb, mode)
  R = tree_rows(t)
  return [[fs(x) for x in flat[r*n:(r + 1)*n]] for r in range(R)]


def gen_price_mat(rng, R, n):
  q = rng.random()
  d_ = dec if ((not NO_DEC) and rng.random() < P_DEC) else (lambda r, a, b: dy(r, a, b, 3))
  if q < 0.3:
    return fs(d_(rng, -3, 3))
  if q < 0.6:
    return [fs(d_(rng, -3, 3)) for _ in range(n)]
  return [[fs(d_(rng, -3, 3)) for _ in range(n)] for _ in range(R)]
