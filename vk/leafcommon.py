"""Helpers shared by the leaf-level properties (C01, C07, C08, C10, C14, C15)."""
import math
from fractions import Fraction
from . import common as C, gen, build


def np():
  import numpy
  return numpy


def leaf_case(rng, tier, classes=None, flow_mode=None, **kw):
  d = gen.gen_leaf(rng, tier, classes, **kw)
  s = gen.leaf_flow(rng, d, flow_mode)
  p = gen.gen_price(rng, d['n'])
  return {'dev': d, 's': s, 'p': p, '_shape': rng.choice(['flat', 'flat', 'row'])}


def make_ints(rng, case):
  """turn the flow of a leaf case into an all-integer in-bounds flow handed over as INTEGER-typed data (`_ints`), when every
  slot's bounds contain an integer; otherwise leave the case as it is.  Callers pass integer arrays all the time
  (`np.zeros(n, dtype=int)`, `device.lbounds` of integer bounds)."""
  d = case['dev']; s = []
  for lo, hi in zip(d['lb'], d['hb']):
    a = math.ceil(Fraction(lo)); b = math.floor(Fraction(hi))
    if a > b:
      return case
    s.append(rng.randint(a, b))
  case['s'] = [str(x) for x in s]; case['_ints'] = 'array'
  return case


def flow_arr(case, s=None):
  if case.get('_ints') and s is None:
    ints = [int(Fraction(x)) for x in case['s']]
    if case['_ints'] == 'list' and case.get('_shape') != 'row':
      return ints
    a = np().array(ints, dtype=int)
    return a.reshape(1, -1) if case.get('_shape') == 'row' else a
  a = build.arr(s if s is not None else case['s'])
  return a.reshape(1, -1) if case.get('_shape') == 'row' else a


def fd_grad(f, x, h=1e-5):
  """central differences at two step sizes; entries where they disagree (a kink or a
  curvature jump inside the stencil) are returned as nan and skipped by the callers."""
  n_ = np()
  x = n_.array(x, dtype=float).reshape(-1)
  g = n_.zeros(x.size)
  for i in range(x.size):
    e = n_.zeros(x.size); e[i] = 1
    a = (f(x + h*e) - f(x - h*e))/(2*h)
    b = (f(x + 8*h*e) - f(x - 8*h*e))/(16*h)
    g[i] = a if abs(a - b) <= 2e-6*max(1, abs(a)) else float('nan')
  return g


def kink_free(case, h=1e-4):
  """False when a finite-difference stencil of width h could straddle a kink of the cost."""
  d = case['dev']; s = [C.pf(x) for x in case['s']]
  if d['cls'] == 'SDevice' and d['prm'].get('efficiency', '1') != '1':
    if any(abs(x) < 10*h for x in s):
      return False
  if d['cls'] == 'ADevice' and gen.fn_has(d['prm']['f'], 'demand'):
    # unique arg-max needed on every sub-vector a demand function sees: approximate by all entries distinct
    if len(set(s)) < len(s) or len(set(-x for x in s)) < len(s):
      return False
    srt = sorted(s)
    if any(b - a < 10*h for a, b in zip(srt, srt[1:])):
      return False
  return True


def has_curve(d):
  """some non-zero preference parameter (the cost is not just s*p)."""
  p = d['prm']; cls = d['cls']
  nz = lambda v: any(Fraction(x) != 0 for x in (v if isinstance(v, list) else [v]))
  if cls in ('Device', 'PVDevice'):
    return False
  if cls == 'CDevice': return nz(p['a'])
  if cls in ('CDevice2', 'IDevice2'): return nz(p['p_l']) or nz(p['p_h'])
  if cls == 'IDevice': return nz(p['c'])
  if cls == 'GDevice': return True
  if cls == 'SDevice': return nz(p['c1']) or nz(p['c2']) or nz(p['c3'])
  if cls == 'TDevice': return nz(p['c']) and nz(p['t_range'])
  if cls == 'ADevice': return p['f']['k'] != 'null'
  return True


def interior_slot(case):
  d = case['dev']
  for a, b, x in zip(d['lb'], d['hb'], case['s']):
    if Fraction(a) < Fraction(x) < Fraction(b):
      return True
  return False
