"""Generators, builders and independent helpers shared by C05 (solve) and C19 (step).

Description-first: a *model description* is {'tree': <tree description of gen.py>, 'n': n}; a single
leaf is the tree {'k': 'leaf', ...} (the real object is then the bare leaf device, shape (1, n)).
Nothing here consults the Lean model: feasibility, the polytope and the closed forms are computed from
the implementation's public interface / the documented formulas."""
import math
from fractions import Fraction
from . import common as C, gen, build
from .common import F, fs, dy


def np():
  import numpy
  return numpy


# ------------------------------------------------------------------ generators
CONVEX_LEAVES = ['Device', 'PVDevice', 'CDevice', 'CDevice2', 'IDevice', 'IDevice2', 'GDevice', 'SDevice', 'TDevice', 'ADevice']


def convex_fn(rng, n, lb, hb, depth=0):
  """a convex preference function (sub-grammar of gen.gen_fn)."""
  L = lambda v: [fs(x) for x in v]
  k = rng.choice(['hlq', 'innerHlq', 'null', 'quad'] + (['add'] if depth < 1 else []))
  if k == 'null':
    return {'k': 'null'}
  if k == 'add':
    return {'k': 'add', 'f': convex_fn(rng, n, lb, hb, depth + 1), 'g': convex_fn(rng, n, lb, hb, depth + 1)}
  if k == 'hlq':
    pl = [dy(rng, -3, 0) for _ in range(n)]
    return {'k': 'hlq', 'pl': L(pl), 'ph': L([dy(rng, p, 0) for p in pl]), 'xl': L(lb), 'xh': L(hb)}
  if k == 'innerHlq':
    pl = dy(rng, -3, 0); ph = dy(rng, pl, 0)
    return {'k': 'innerHlq', 'pl': fs(pl), 'ph': fs(ph), 'xl': fs(sum(lb, F(0))), 'xh': fs(sum(hb, F(0)) + (1 if sum(lb, F(0)) == sum(hb, F(0)) else 0))}
  # convex quadratic per slot: a x^2 + b x, a >= 0
  return {'k': 'poly', 'cs': [[fs(dy(rng, 0, 2)), fs(dy(rng, -2, 2)), '0'] for _ in range(n)], 'off': '0'}


def convex_leaf(rng, tier, n, classes=None, with_cbounds=None):
  """a leaf of a shipped class with parameters in the convex range and a convex feasible set."""
  d = gen.gen_leaf(rng, tier, classes or CONVEX_LEAVES, n=n, with_cbounds=with_cbounds)
  p = d['prm']
  if d['cls'] == 'SDevice':
    p['efficiency'] = '1'            # efficiency < 1 makes `soc <= capacity` a non-convex set
  if d['cls'] == 'ADevice':
    p['f'] = convex_fn(rng, n, [F(x) for x in d['lb']], [F(x) for x in d['hb']])
  if d['cls'] == 'IDevice':
    p['a'] = gen.svec(rng, n, lambda: dy(rng, 0, 1))
  if d['cls'] == 'GDevice':
    # convex on the generated range: non-negative coefficients of degree <= 2 (cubics can have negative curvature nowhere on q >= 0 either,
    # but keep the scale moderate)
    cc = p['cost_coeffs']
    rows = cc if isinstance(cc[0], list) else [cc]
    for r in rows:
      while len(r) > 3:
        r.pop(0)
  return d


def all_leaves(t):
  return gen.tree_leaves(t)


def solve_tree(rng, tier, n=None, depth=None, classes=None, mf=None, tight=0.7):
  """a device tree for solving: convex leaves, aggregate bounds placed relative to the children's box
  (so they are often active and mostly feasible), label balancing, MF adaptors."""
  n = n or rng.randint(1, 6 if tier == 'quick' else 8)
  t, n = gen.gen_tree(rng, tier, n=n, depth=depth if depth is not None else rng.choice([1, 1, 2]), want_mf=mf)
  def fix(t):
    if t['k'] in ('leaf', 'mf'):
      cls = t['dev']['cls']
      keep_u = t['dev'].get('ucons')
      if t['k'] == 'mf':
        d = convex_leaf(rng, tier, n, [cls if cls in CONVEX_LEAVES and cls not in ('SDevice', 'TDevice') else 'IDevice2'])
        lb = [F(x) for x in d['lb']]; hb = [F(x) for x in d['hb']]
        if any(x < 0 for x in lb) and any(x > 0 for x in hb):
          d = convex_leaf(rng, tier, n, ['IDevice2'])
      else:
        d = convex_leaf(rng, tier, n, [rng.choice(classes)] if classes else [cls])
      if keep_u and d['cls'] == 'ADevice':
        d['ucons'] = gen.gen_ucons(rng, n, [F(x) for x in d['lb']], [F(x) for x in d['hb']])
      t['dev'] = d
      return
    for c in t['ch']:
      fix(c)
    if rng.random() < tight:
      lb, hb = gen.tree_box(t, n)
      R = gen.tree_rows(t)
      sb = []
      for i in range(n):
        lo = sum((lb[r*n + i] for r in range(R)), F(0)); hi = sum((hb[r*n + i] for r in range(R)), F(0))
        w = hi - lo
        a = Fraction(rng.randint(0, 6), 8); b = Fraction(rng.randint(int(a*8), 8), 8)
        if rng.random() < 0.2:
          b = a
        sb.append([fs(lo + a*w), fs(lo + b*w)])
      t['sb'] = sb
    if t.get('sub') and rng.random() < 0.5:
      t['sub'] = False
      for key in ('labels', 'ctype', 'sign', 'rem'):
        t.pop(key, None)
  fix(t)
  return t, n


def leaf_tree(d, id='x'):
  return {'k': 'leaf', 'id': id, 'dev': d}


def infeasible_model(rng, tier):
  """a model with no feasible flow that every constructor nevertheless accepts: contradictory aggregate
  bounds, or two cumulative bounds that cannot hold together."""
  n = rng.randint(2, 5)
  kind = rng.choice(['sbounds-high', 'sbounds-low', 'cbounds', 'sbounds-vs-cbounds'])
  if kind == 'cbounds':
    cls = rng.choice(['Device', 'IDevice2', 'CDevice', 'IDevice'])
    d = convex_leaf(rng, tier, n, [cls], with_cbounds=False)
    lb = [F(0)]*n; hb = [F(1)]*n
    d['lb'] = [fs(x) for x in lb]; d['hb'] = [fs(x) for x in hb]; d['_py']['bform'] = 'table'
    if cls == 'IDevice2' and isinstance(d['prm']['p_l'], list):
      pass
    # whole-horizon sum >= n - 1/2, first n-1 slots sum <= n - 2  =>  last slot >= 3/2 > 1
    d['cbs'] = [[fs(F(n) - Fraction(1, 2)), fs(F(n)), 0, n], [fs(F(-1)), fs(F(n) - 2), 0, n - 1]]
    d['_py']['cform'] = '4tuples'
    return {'tree': leaf_tree(d), 'n': n, 'why': kind}
  kids = []
  for i in range(rng.randint(2, 3)):
    cls = rng.choice(['IDevice2', 'CDevice', 'Device', 'IDevice', 'GDevice'])
    d = convex_leaf(rng, tier, n, [cls], with_cbounds=False)
    kids.append({'k': 'leaf', 'id': 'd%d' % i, 'dev': d})
  t = {'k': 'node', 'id': 'root', 'sb': None, 'ch': kids, 'sub': False}
  lb, hb = gen.tree_box(t, n)
  R = len(kids)
  sb = []
  bad = rng.randrange(n)
  for i in range(n):
    lo = sum((lb[r*n + i] for r in range(R)), F(0)); hi = sum((hb[r*n + i] for r in range(R)), F(0))
    if i != bad:
      sb.append([fs(lo), fs(hi)])
    elif kind == 'sbounds-low':
      sb.append([fs(lo - 3), fs(lo - 1)])
    else:
      sb.append([fs(hi + 1), fs(hi + 3)])
  if kind == 'sbounds-vs-cbounds':
    # aggregate lower bound on every slot at the top of the box, while child 0 must stay below its top in total
    d0 = kids[0]['dev']
    l0 = [F(x) for x in d0['lb']]; h0 = [F(x) for x in d0['hb']]
    if sum(h0, F(0)) - sum(l0, F(0)) >= 1 and d0['cls'] != 'CDevice2':
      sb = []
      for i in range(n):
        hi = sum((hb[r*n + i] for r in range(R)), F(0))
        sb.append([fs(hi), fs(hi + 1)])
      d0['cbs'] = [[fs(sum(l0, F(0)) - 1), fs(sum(h0, F(0)) - Fraction(1, 2)), 0, n]]
      d0['_py']['cform'] = '4tuples'
  t['sb'] = sb
  return {'tree': t, 'n': n, 'why': kind}


# ------------------------------------------------------------------ building
def build_model(m):
  t = m['tree']
  if t['k'] == 'leaf':
    return build.build_block_device(t['dev'], t.get('id', 'x'))
  return build.build_tree(t)


def model_rows(m):
  return gen.tree_rows(m['tree'])


def model_box(m):
  lb, hb = gen.tree_box(m['tree'], m['n'])
  return [float(x) for x in lb], [float(x) for x in hb]


def price_arg(p):
  """protocol price (scalar / vector / matrix) -> what the caller passes as `p`."""
  return build.price(p)


def gen_price(rng, R, n):
  return gen.gen_price_mat(rng, R, n)


def is_convex_cost(m):
  """every leaf is in the sub-family whose cost the generators keep convex (all of them, by construction)."""
  return True


# ------------------------------------------------------------------ the feasible polytope, from the implementation's constraint *functions*
def scalar(v):
  """a constraint value: python scalar or size-1 array."""
  a = np().asarray(v, dtype=float)
  if a.size != 1:
    raise ValueError('constraint function returned an array of shape %s' % (a.shape,))
  return float(a.reshape(-1)[0])


def polytope(dev, N, rng_seed=0):
  """(A_ub, b_ub, A_eq, b_eq, affine) with A_ub x <= b_ub, A_eq x = b_eq, read off the device's
  scipy constraint functions by evaluating them at 0 and at the unit vectors (exact for affine
  functions); `affine` is False when a constraint function fails an affinity probe."""
  n_ = np()
  cons = dev.constraints
  A_ub, b_ub, A_eq, b_eq = [], [], [], []
  affine = True
  r = n_.random.RandomState(rng_seed)
  z = n_.zeros(N)
  probe1 = r.uniform(-1, 1, N); probe2 = r.uniform(-2, 2, N)
  for c in cons:
    f = c['fun']
    c0 = scalar(f(z.copy()))
    row = n_.array([scalar(f(e)) - c0 for e in n_.eye(N)])
    for pr in (probe1, probe2):
      if abs(scalar(f(pr.copy())) - (c0 + row.dot(pr))) > 1e-7*max(1.0, abs(c0) + n_.abs(row).sum()):
        affine = False
    if c['type'] == 'eq':
      A_eq.append(row); b_eq.append(-c0)
    else:
      A_ub.append(-row); b_ub.append(c0)        # row.x + c0 >= 0
  return A_ub, b_ub, A_eq, b_eq, affine


def lp(cvec, dev, N, poly=None, box=None):
  """minimise cvec.x over bounds + polytope; returns the scipy result (status 0 optimal, 2 infeasible).
  `box` = (lb, hb): the DOCUMENTED per-variable bounds (from the description) instead of the device's own table."""
  from scipy.optimize import linprog
  n_ = np()
  A_ub, b_ub, A_eq, b_eq, _ = poly or polytope(dev, N)
  b = n_.array(dev.bounds, dtype=float) if box is None else n_.stack((n_.array(box[0], dtype=float), n_.array(box[1], dtype=float)), axis=1)
  return linprog(cvec, A_ub=n_.array(A_ub) if A_ub else None, b_ub=n_.array(b_ub) if b_ub else None,
                 A_eq=n_.array(A_eq) if A_eq else None, b_eq=n_.array(b_eq) if b_eq else None,
                 bounds=list(zip(b[:, 0], b[:, 1])), method='highs')


def feasibility(dev, N, poly=None, box=None):
  """'feasible' (with a witness), 'infeasible', or 'unknown'."""
  n_ = np()
  poly = poly or polytope(dev, N)
  if not poly[4]:
    return 'unknown', None
  b = n_.array(dev.bounds, dtype=float) if box is None else n_.stack((n_.array(box[0], dtype=float), n_.array(box[1], dtype=float)), axis=1)
  if (b[:, 0] > b[:, 1]).any():
    return 'infeasible', None
  r = lp(n_.zeros(N), dev, N, poly, box)
  if r.status == 0:
    return 'feasible', r.x
  if r.status == 2:
    return 'infeasible', None
  return 'unknown', None


def described_violation(m, x):
  """largest violation of the DOCUMENTED limits read from the description alone (not from the implementation's
  constraint closures): per-slot bounds of every leaf row, cumulative bounds `l <= sum x[s:e] <= h` of every leaf,
  per-slot aggregate bounds `lo <= column sum <= hi` of every set.  (MF adaptors: only the conduit-sum bounds.)"""
  n_ = np()
  n = m['n']
  X = n_.array(x, dtype=float).reshape(-1, n)
  worst, what = 0.0, None
  def upd(v, w):
    nonlocal worst, what
    if v > worst:
      worst, what = v, w
  def walk(t, off):
    if t['k'] == 'leaf':
      d = t['dev']
      lb = n_.array([C.pf(v) for v in d['lb']]); hb = n_.array([C.pf(v) for v in d['hb']])
      upd(float(n_.max(n_.maximum(lb - X[off], X[off] - hb))), 'bounds of leaf %s' % t['id'])
      for (l, h, a, b) in d.get('cbs') or []:
        tot = float(X[off, int(a):int(b)].sum())
        upd(max(C.pf(l) - tot, tot - C.pf(h)), 'cumulative bound %s of leaf %s' % ((l, h, a, b), t['id']))
      return 1
    if t['k'] == 'mf':
      k = len(t['flows']); d = t['dev']
      lb = n_.array([C.pf(v) for v in d['lb']]); hb = n_.array([C.pf(v) for v in d['hb']])
      tot = X[off:off + k].sum(axis=0)
      upd(float(n_.max(n_.maximum(lb - tot, tot - hb))), 'conduit-sum bounds of %s' % t['id'])
      clo, chi = (lb, 0*hb) if (lb < 0).any() else (0*lb, hb)          # documented conduit box: (lower, 0) for a producer, (0, upper) otherwise
      for r in range(k):
        upd(float(n_.max(n_.maximum(clo - X[off + r], X[off + r] - chi))), 'conduit bounds of %s row %d' % (t['id'], r))
      return k
    r = 0
    for c in t['ch']:
      r += walk(c, off + r)
    if t.get('sb') is not None:
      tot = X[off:off + r].sum(axis=0)
      for i, (lo, hi) in enumerate(t['sb']):
        upd(max(C.pf(lo) - float(tot[i]), float(tot[i]) - C.pf(hi)), 'aggregate bound of set %s at slot %d' % (t['id'], i))
    return r
  walk(m['tree'], 0)
  return worst, what


def violation(dev, x, m=None, box=None):
  """largest violation of the bounds and of every constraint function of the device at flat x
  (and, when the description is given, of the documented limits read from it).  `box`: judge the per-variable
  bounds against this documented (lb, hb) instead of the device's own table."""
  if m is not None:
    a = violation(dev, x, None, box)
    b = described_violation(m, x)
    return a if a[0] >= b[0] else (b[0], b[1] + ' (documented limit; the device\'s own constraint function does not report it)')
  n_ = np()
  x = n_.array(x, dtype=float).reshape(-1)
  b = n_.array(dev.bounds, dtype=float) if box is None else n_.stack((n_.array(box[0], dtype=float), n_.array(box[1], dtype=float)), axis=1)
  worst, what = 0.0, None
  v = float(n_.max(n_.maximum(b[:, 0] - x, x - b[:, 1]))) if x.size else 0.0
  if v > worst:
    worst, what = v, 'bounds'
  for k, c in enumerate(dev.constraints):
    val = scalar(c['fun'](x.copy()))
    v = abs(val) if c['type'] == 'eq' else max(0.0, -val)
    if v > worst:
      worst, what = v, 'constraint %d (%s)' % (k, c['type'])
  return worst, what


# ------------------------------------------------------------------ closed forms, coded from the documented formulas
def closed_form(d, p):
  """optimal flow of a leaf WITHOUT cumulative bounds under per-slot prices p (floats), or None."""
  n = d['n']
  lb = [C.pf(x) for x in d['lb']]; hb = [C.pf(x) for x in d['hb']]
  if d.get('cbs'):
    return None
  cls = d['cls']; prm = d['prm']
  vec = lambda v: [C.pf(x) for x in v] if isinstance(v, list) else [C.pf(v)]*n
  if cls in ('Device', 'PVDevice'):
    return [lb[k] if p[k] > 0 else hb[k] for k in range(n)]
  if cls == 'CDevice':
    a = C.pf(prm['a'])
    return [lb[k] if a + p[k] > 0 else hb[k] for k in range(n)]
  if cls == 'IDevice2':
    pl, ph = vec(prm['p_l']), vec(prm['p_h'])
    out = []
    for k in range(n):
      if lb[k] == hb[k]:
        out.append(lb[k])
      elif pl[k] == ph[k]:
        out.append(lb[k] if pl[k] + p[k] > 0 else hb[k])
      else:
        # marginal cost p_l + (p_h - p_l) (x - lb)/(hb - lb) + p = 0
        x = lb[k] + (hb[k] - lb[k])*(-p[k] - pl[k])/(ph[k] - pl[k])
        out.append(min(hb[k], max(lb[k], x)))
    return out
  return None


# ------------------------------------------------------------------ shared by the C05 / C19 harnesses
SLSQP_STATUSES = list(range(10))     # exit modes 0..9 of SLSQP (0 success, 1..9 failures)
SLSQP_MESSAGES = {
  0: 'Optimization terminated successfully', 1: 'Function evaluation required (g & c)', 2: 'More equality constraints than independent variables',
  3: 'More than 3*n iterations in LSQ subproblem', 4: 'Inequality constraints incompatible', 5: 'Singular matrix E in LSQ subproblem',
  6: 'Singular matrix C in LSQ subproblem', 7: 'Rank-deficient equality constraint subproblem HFTI', 8: 'Positive directional derivative for linesearch',
  9: 'Iteration limit reached'}


LIGHT = ['Device', 'PVDevice', 'CDevice', 'IDevice', 'IDevice2', 'GDevice']    # classes whose exact-rational model stays cheap at long horizons


def random_model(rng, tier, kind=None, nmax=None, n=None, classes=None):
  """a leaf (40 %) or a tree description; every leaf convex."""
  nmax = nmax or (6 if tier == 'quick' else 8)
  kind = kind or ('leaf' if rng.random() < 0.4 else 'tree')
  if kind == 'leaf':
    n = n or rng.randint(1, nmax)
    return {'tree': leaf_tree(convex_leaf(rng, tier, n, classes)), 'n': n}
  t, n = solve_tree(rng, tier, n=n or rng.randint(1, nmax), mf=(True if kind == 'mf' else None) if classes is None else False, classes=classes,
                    depth=None if classes is None else 1)
  return {'tree': t, 'n': n}


def dyadic_flow(rng, m, mode=None, spread=None):
  """an in-box flat flow of the model as protocol strings; `spread`: each entry additionally moved by a dyadic in
  [-spread, spread] (a start point that need not respect the box)."""
  S = gen.tree_flow(rng, m['tree'], m['n'], mode)
  flat = [x for row in S for x in row]
  if spread:
    flat = [fs(F(x) + dy(rng, -spread, spread, 3)) for x in flat]
  return flat


def flow_arg(flat, m, shape, order='C'):
  """protocol flat flow (row-major) -> ndarray, flat or device-shaped; order 'F': the same matrix held in Fortran
  (column-major) memory order, as `frame.values.T` is."""
  a = build.arr(flat)
  if shape != 'dev':
    return a
  a = a.reshape(model_rows(m), m['n'])
  return np().asfortranarray(a) if order == 'F' else a


def fake_result(res):
  from scipy.optimize import OptimizeResult
  n_ = np()
  return OptimizeResult(x=n_.array([C.pf(v) for v in res['x']], dtype=float), success=bool(res['success']), status=int(res['status']),
                        message=res.get('message', ''), fun=0.0, nit=1, nfev=1, njev=1)


def observe_problem(fun, x0, kw, y):
  """what a stubbed `minimize` call was given, evaluated at probe y (mirrors the driver's rProblem)."""
  n_ = np()
  if kw.get('method') != 'SLSQP':
    raise ValueError('method is %r' % (kw.get('method'),))
  x0 = n_.atleast_1d(n_.array(x0, dtype=float))
  if x0.ndim != 1:
    raise ValueError('x0 has shape %s' % (x0.shape,))
  N = x0.size
  y = n_.array(y, dtype=float)
  out = [float(N)] + list(x0) + [float(fun(y.copy())) - float(fun(x0.copy()))]
  jac = kw.get('jac')
  if jac is not None:
    j = n_.array(jac(y.copy()), dtype=float)
    if j.shape != (N,):
      raise ValueError('jac returns shape %s for %d variables' % (j.shape, N))
    out += [1.0] + list(j)
  else:
    out += [0.0]
  b = n_.array(kw.get('bounds', []), dtype=float).reshape(-1, 2)
  if b.shape[0] != N:
    raise ValueError('bounds table has %d rows for %d variables' % (b.shape[0], N))
  out += list(b[:, 0]) + list(b[:, 1])
  cons = kw.get('constraints', ()) or ()
  out += [float(len(cons))]
  for c in cons:
    out += [1.0 if c['type'] == 'eq' else 0.0, scalar(c['fun'](y.copy()))]
  out += [1.0 if kw.get('callback') is not None else 0.0]
  opts = kw.get('options') or {}
  if opts.get('disp', False):
    raise ValueError('options[disp] is %r' % (opts.get('disp'),))
  out += [float(opts.get('ftol', -1)), float(opts.get('maxiter', -1))]      # -1: not passed (SciPy's default)
  return out


def licq(dev, N, poly, x, tol=1e-7):
  """are the gradients of the constraints / bounds active at x linearly independent?"""
  n_ = np()
  A_ub, b_ub, A_eq, b_eq, _ = poly
  rows = [n_.array(r) for r in A_eq]
  for r, b in zip(A_ub, b_ub):
    if abs(n_.dot(r, x) - b) <= tol:
      rows.append(n_.array(r))
  bd = n_.array(dev.bounds, dtype=float)
  for k in range(N):
    if abs(x[k] - bd[k, 0]) <= tol or abs(x[k] - bd[k, 1]) <= tol:
      e = n_.zeros(N); e[k] = 1; rows.append(e)
  if not rows:
    return True, 0
  M = n_.array(rows)
  return bool(n_.linalg.matrix_rank(M, tol=1e-9) == len(rows)), len(rows)


def parallel_active_pair(dev, N, poly, x, tol=1e-7):
  """do two of the constraint / bound gradients active at x point the same way (a structurally duplicated limit: an
  equality next to a coincident inequality or next to the bound of a zero-width slot)?"""
  n_ = np()
  A_ub, b_ub, A_eq, b_eq, _ = poly
  rows = [n_.array(r, dtype=float) for r in A_eq]
  for r, b in zip(A_ub, b_ub):
    if abs(n_.dot(r, x) - b) <= tol:
      rows.append(n_.array(r, dtype=float))
  bd = n_.array(dev.bounds, dtype=float)
  for k in range(N):
    if abs(x[k] - bd[k, 0]) <= tol or abs(x[k] - bd[k, 1]) <= tol:
      e = n_.zeros(N); e[k] = 1; rows.append(e)
  rows = [r/n_.linalg.norm(r) for r in rows if n_.linalg.norm(r) > 0]
  for i in range(len(rows)):
    for j in range(i + 1, len(rows)):
      if abs(abs(float(rows[i].dot(rows[j]))) - 1.0) <= 1e-9:
        return True
  return False


def better_point(f, g, dev, N, x, starts, tol=1e-8, box=None, m=None):
  """search for a feasible point with lower objective than x (independent re-solves from other starts,
  tight tolerance). Returns (best value, best point) — (f(x), None) when nothing better was found."""
  from scipy.optimize import minimize
  best, xb = f(x), None
  for st in starts:
    try:
      bnds = dev.bounds if box is None else list(zip(box[0], box[1]))
      o = minimize(f, st, jac=g, method='SLSQP', bounds=bnds, constraints=dev.constraints, options={'ftol': 1e-10, 'maxiter': 1000})
    except Exception:
      continue
    if violation(dev, o.x, m, box)[0] <= tol and f(o.x) < best:
      best, xb = f(o.x), o.x
  return best, xb


def n_box_ok(x, box, tol):
  n_ = np()
  return bool((n_.array(x) >= n_.array(box[0]) - tol).all() and (n_.array(x) <= n_.array(box[1]) + tol).all())


def feasible_start(dev, N, poly, seed, k=4):
  """a random feasible flow: a random convex combination of LP vertices of the feasible polytope."""
  n_ = np()
  r = n_.random.RandomState(seed)
  pts = []
  for _ in range(k):
    res = lp(r.uniform(-1, 1, N), dev, N, poly)
    if res.status != 0:
      return None
    pts.append(res.x)
  w = r.dirichlet(n_.ones(k))
  return sum(wi*pi for wi, pi in zip(w, pts))


def solve_module():
  """the module device_kit/solve.py (the package attribute `device_kit.solve` is the function)."""
  import importlib
  C.repo()
  return importlib.import_module('device_kit.solve')


def utils_module():
  import importlib
  C.repo()
  return importlib.import_module('device_kit.utils')


def quiet():
  """step logs accepted status-8 results with logger.warn: keep the check's output clean."""
  import logging
  logging.getLogger('device_kit.solve').setLevel(logging.ERROR)


# ------------------------------------------------------------------ histories: call, re-rate a leaf through its public setters, call again
EDITABLE = ['Device', 'CDevice', 'GDevice', 'PVDevice']      # cost does not read the bounds (classes whose cost closure captures the
                                                             # bounds at construction are a separate, listed finding of C11/C15/C16)


def history_model(rng, tier, nmax=4):
  """a set (flat or nested) with an editable leaf 'a' and the edit applied to it between two calls:
  -> (model description, edit).  The edit tightens / moves a's box and optionally gives it a cumulative bound."""
  import copy
  n = rng.randint(1, nmax)
  if rng.random() < 0.3:
    return sdevice_history(rng, tier, n)
  a = convex_leaf(rng, tier, n, [rng.choice(EDITABLE)], with_cbounds=False)
  a['_py']['bform'] = 'table'
  lb = [F(x) for x in a['lb']]; hb = [F(x) for x in a['hb']]
  for k in range(n):                      # make sure there is room to re-rate
    if hb[k] - lb[k] < 1:
      if a['cls'] in ('GDevice', 'PVDevice'):
        lb[k] = hb[k] - 2
      else:
        hb[k] = lb[k] + 2
  a['lb'] = [fs(x) for x in lb]; a['hb'] = [fs(x) for x in hb]
  others = [{'k': 'leaf', 'id': 'o%d' % i, 'dev': convex_leaf(rng, tier, n, None)} for i in range(rng.randint(1, 2))]
  la = {'k': 'leaf', 'id': 'a', 'dev': a}
  if rng.random() < 0.5:
    inner = {'k': 'node', 'id': 'inner', 'sb': None, 'sub': False, 'ch': [la] + others[:1]}
    kids = [inner] + others[1:] + [{'k': 'leaf', 'id': 'g', 'dev': convex_leaf(rng, tier, n, ['Device', 'GDevice', 'IDevice2'])}]
  else:
    kids = [la] + others
  rng.shuffle(kids)
  t = {'k': 'node', 'id': 'site', 'sb': None, 'sub': False, 'ch': kids}
  if rng.random() < 0.6:
    blb, bhb = gen.tree_box(t, n)
    R = gen.tree_rows(t)
    sb = []
    for i in range(n):
      lo = sum((blb[r*n + i] for r in range(R)), F(0)); hi = sum((bhb[r*n + i] for r in range(R)), F(0))
      sb.append([fs(lo + (hi - lo)*Fraction(rng.randint(0, 2), 8)), fs(lo + (hi - lo)*Fraction(rng.randint(6, 8), 8))])
    t['sb'] = sb
  # the edit: a strictly different box inside the old one
  nlb, nhb = [], []
  for k in range(n):
    w = hb[k] - lb[k]
    x = Fraction(rng.randint(0, 5), 8); y = Fraction(rng.randint(int(x*8) + 1, 7), 8)
    if rng.random() < 0.5:
      x = Fraction(0)
    nlb.append(lb[k] + w*x); nhb.append(lb[k] + w*y)
  edit = {'leaf': 'a', 'lb': [fs(v) for v in nlb], 'hb': [fs(v) for v in nhb]}
  if rng.random() < 0.3:
    cbs, _ = gen.gen_cbounds(rng, n, nlb, nhb, multi_ok=False)
    edit['cbs'] = [[fs(c[0]), fs(c[1]), c[2], c[3]] for c in cbs]
  if a['cls'] == 'CDevice' and rng.random() < 0.5:
    edit['a'] = fs(dy(rng, -3, 0))
  return {'tree': t, 'n': n}, edit


def sdevice_history(rng, tier, n):
  """a storage leaf 'a' next to a two-way leaf; between the two calls its `reserve` / `start` / `capacity` / `c3` are changed through
  the public setters (the storage constraints are functions of them)."""
  n = max(n, 2)
  a = convex_leaf(rng, tier, n, ['SDevice'], with_cbounds=False)
  rate = dy(rng, 1, 3)
  a['lb'] = [fs(-rate)]*n; a['hb'] = [fs(rate)]*n; a['_py']['bform'] = 'table'
  a['prm'].update({'capacity': fs(dy(rng, 4, 10)), 'start': fs(dy(rng, Fraction(1, 4), Fraction(3, 4))), 'reserve': '0', 'efficiency': '1',
                   'sustainment': '1', 'damage_depth': '0'})
  o = convex_leaf(rng, tier, n, [rng.choice(['Device', 'IDevice2', 'CDevice'])], with_cbounds=False)
  t = {'k': 'node', 'id': 'site', 'sb': None, 'sub': False, 'ch': [{'k': 'leaf', 'id': 'a', 'dev': a}, {'k': 'leaf', 'id': 'o', 'dev': o}]}
  prm = {}
  k = rng.choice(['reserve', 'reserve', 'start', 'capacity', 'c3'])
  if k == 'reserve':
    prm['reserve'] = fs(dy(rng, Fraction(1, 2), 1))        # the end-of-window charge must now stay high
  elif k == 'start':
    prm['start'] = fs(dy(rng, 0, 1))
  elif k == 'capacity':
    prm['capacity'] = fs(dy(rng, 1, 3))
  else:
    prm['c3'] = fs(dy(rng, 0, 2)); prm['damage_depth'] = '1/2'
  edit = {'leaf': 'a', 'lb': list(a['lb']), 'hb': list(a['hb']), 'prm': prm}
  return {'tree': t, 'n': n}, edit


def edited_model(m, edit):
  """the description with the FINAL parameters of the edited leaf (what a fresh twin is built from)."""
  import copy
  m2 = copy.deepcopy(m)
  def walk(t):
    if t['k'] == 'leaf':
      if t['id'] == edit['leaf']:
        d = t['dev']
        d['lb'] = list(edit['lb']); d['hb'] = list(edit['hb']); d['_py']['bform'] = 'table'
        if 'cbs' in edit:
          d['cbs'] = [list(c) for c in edit['cbs']]; d['_py']['cform'] = '4tuples'
        if 'a' in edit:
          d['prm']['a'] = edit['a']
        for k_, v_ in (edit.get('prm') or {}).items():
          d['prm'][k_] = v_
      return
    for c in t.get('ch', []):
      walk(c)
  walk(m2['tree'])
  return m2


def find_leaf(dev, id):
  if getattr(dev, 'id', None) == id and not hasattr(dev, 'devices'):
    return dev
  for d in getattr(dev, 'devices', []) or []:
    r = find_leaf(d, id)
    if r is not None:
      return r
  return None


def apply_edit(dev, edit):
  """re-rate the leaf through its PUBLIC setters (validated `bounds`, `cbounds`, `a`)."""
  n_ = np()
  leaf = find_leaf(dev, edit['leaf'])
  if leaf is None:
    raise ValueError('leaf %s not found' % edit['leaf'])
  leaf.bounds = n_.stack((n_.array([C.pf(v) for v in edit['lb']]), n_.array([C.pf(v) for v in edit['hb']])), axis=1)
  if 'cbs' in edit:
    leaf.cbounds = [(C.pf(c[0]), C.pf(c[1]), int(c[2]), int(c[3])) for c in edit['cbs']]
  if 'a' in edit:
    leaf.a = C.pf(edit['a'])
  for k_, v_ in (edit.get('prm') or {}).items():
    setattr(leaf, k_, C.pf(v_))


def touch(dev):
  """what any earlier use of the tree reads."""
  dev.bounds; dev.lbounds; dev.hbounds; dev.constraints; dev.shape


# ------------------------------------------------------------------ producers with zero-capacity slots under an MF adaptor
def mf_producer_model(rng, tier):
  """site = [MFDeviceSet / TwoRatioMFDeviceSet around a PV-like producer (bounds (-cap_t, 0), some cap_t == 0), a load];
  documented conduit bounds are (-cap_t, 0) per conduit."""
  n = rng.randint(2, 5)
  caps = [dy(rng, Fraction(1, 2), 3) for _ in range(n)]
  zero = rng.sample(range(n), rng.randint(1, n - 1))
  for k in zero:
    caps[k] = F(0)
  cls = rng.choice(['PVDevice', 'GDevice', 'Device'])
  d = convex_leaf(rng, tier, n, [cls], with_cbounds=False)
  d['lb'] = [fs(-c) for c in caps]; d['hb'] = ['0']*n; d['_py']['bform'] = 'table'; d['cbs'] = []; d['_py']['cform'] = None
  k = rng.choice([1, 2, 2, 3])
  mf = {'k': 'mf', 'id': 'pv', 'dev': d, 'flows': ['e', 'h', 'g'][:k], 'ratios': None}
  if k == 2 and rng.random() < 0.4:
    mf['ratios'] = [fs(dy(rng, 1, 3)), fs(dy(rng, 1, 3))]; mf['ctype'] = rng.choice(['eq', 'ineq'])
  load = convex_leaf(rng, tier, n, [rng.choice(['IDevice2', 'Device', 'CDevice'])], with_cbounds=False)
  t = {'k': 'node', 'id': 'site', 'sb': None, 'sub': False, 'ch': [mf, {'k': 'leaf', 'id': 'load', 'dev': load}]}
  if rng.random() < 0.5:
    blb, bhb = gen.tree_box(t, n); R = gen.tree_rows(t)
    t['sb'] = [[fs(sum((blb[r*n + i] for r in range(R)), F(0))), fs(sum((bhb[r*n + i] for r in range(R)), F(0)))] for i in range(n)]
  return {'tree': t, 'n': n}


# ------------------------------------------------------------------ integer-typed flows
def int_model(rng, tier):
  """leaves with INTEGER bounds (given as Python ints / an int table, as users write them), single row or two rows, and an
  integer-valued feasible flow (zeros where allowed, else the lower bounds): -> (model, flow as protocol strings, per-slot price)."""
  n = rng.randint(1, 5)
  def leaf(id):
    cls = rng.choice(['Device', 'IDevice2', 'CDevice', 'IDevice'])
    d = convex_leaf(rng, tier, n, [cls], with_cbounds=False)
    lo = rng.choice([0, 0, 1]); hi = lo + rng.choice([2, 3, 4])
    d['lb'] = [str(lo)]*n; d['hb'] = [str(hi)]*n; d['_py']['bform'] = rng.choice(['scalar', 'table']); d['_py']['int_bounds'] = True
    if cls == 'IDevice2':
      d['prm'] = {'p_l': '-2', 'p_h': '-1'}
    if cls == 'CDevice':
      d['prm'] = {'a': '-1/2', 'b': '0'}
    if cls == 'IDevice':
      d['prm'] = {'a': '0', 'b': '2', 'c': '1'}
    return {'k': 'leaf', 'id': id, 'dev': d}, [lo]*n
  if rng.random() < 0.5:
    l, s = leaf('a')
    m = {'tree': l, 'n': n}
  else:
    l1, s1 = leaf('a'); l2, s2 = leaf('b')
    m = {'tree': {'k': 'node', 'id': 'site', 'sb': None, 'sub': False, 'ch': [l1, l2]}, 'n': n}
    s = s1 + s2
  # a price under which consuming more is clearly worth it but |stepsize * gradient| stays below 1 for stepsize <= 1
  price = [fs(-dy(rng, Fraction(1, 4), Fraction(3, 4), 3)) for _ in range(n)]
  return m, [str(v) for v in s], price


def int_flow_arg(flat, m, shape, as_list=False):
  """an integer-dtype array (or a plain nested list of Python ints) of the given shape."""
  n_ = np()
  a = n_.array([int(Fraction(v)) for v in flat], dtype=int)
  if shape == 'dev':
    a = a.reshape(model_rows(m), m['n'])
  return a.tolist() if as_list else a
