"""Pre-screen for a memory-corruption defect of SciPy's SLSQP (observed with SciPy 1.18.1).

`scipy.optimize.minimize(method='SLSQP')` under-allocates its work space when the number of equality
constraints exceeds the number of variables it works on by more than one (terms `(n + 1 - meq)` of the
work-space formula turn negative); with enough excess (observed: meq >= n_eff + 12 with many inequality
constraints, meq >= 2 n_eff + 14 with none) the C code overruns the heap and the INTERPRETER ABORTS
("double free or corruption", SIGABRT / SIGSEGV) instead of returning status 2.  The number of variables
SLSQP works on, n_eff, is the number of FREE variables when some variable is fixed by its bounds and some
derivative has to be taken by finite differences (the objective or a constraint has no callable `jac`:
`_minimize.py` then removes the fixed variables), else the total number of variables.

A check must never die on the unchanged tree, so models in (a conservative superset of) that family are not
handed to the real optimiser: unsafe  <=>  meq > n_eff, i.e. from the first over-determined count on (where
SLSQP could only answer status 2 anyway), >= 11 equality constraints below the smallest excess at which an
abort was observed.  Pure-SciPy repro: 10 variables, 5 of them fixed, 31 equality constraints without `jac`.
"""


def problem_shape(bounds, constraints, objective_has_jac=True):
  import numpy as np
  b = np.asarray(bounds, dtype=float).reshape(-1, 2)
  n_all = int(b.shape[0])
  n_free = int((b[:, 0] != b[:, 1]).sum())
  cons = list(constraints or ())
  meq = sum(1 for c in cons if c.get('type') == 'eq')
  nojac = any(not callable(c.get('jac', None)) for c in cons)
  removes = n_free < n_all and (nojac or not objective_has_jac)
  return {'n_all': n_all, 'n_free': n_free, 'meq': meq, 'mineq': len(cons) - meq, 'nojac': nojac,
          'n_eff': n_free if removes else n_all}


def safe_problem(bounds, constraints, objective_has_jac=True):
  s = problem_shape(bounds, constraints, objective_has_jac)
  if s['n_free'] == 0:
    return True            # SciPy answers all-fixed problems without calling SLSQP
  return s['meq'] <= s['n_eff']


def safe_to_solve(device):
  """may `solve(device, ...)`, `step(device, ...)`, `utils.project(.., device.bounds, device.constraints)` be run
  for real?  (All three hand SciPy the device's bounds and constraints with an analytic objective gradient; the
  one-variable limited minimisation of `step` has no constraints and no fixed variable.)"""
  return safe_problem(device.bounds, device.constraints, objective_has_jac=True)
