"""Generators and exact reference semantics for set-level coupling constraints (C04) and the
multi-flow adaptor (C17).

Description-first (see gen.py): the tree description is what both the Lean driver and build.py read.
The *reference semantics* below (`clauses`) is written from the property text over exact Fractions and
never looks at the model or at the implementation's constraint list."""
from fractions import Fraction
from .common import F, fs, dy
from . import gen

MF_CLASSES = ['Device', 'CDevice', 'CDevice2', 'IDevice', 'IDevice2', 'GDevice', 'PVDevice', 'ADevice', 'TDevice']
FLOW_NAMES = ['e', 'h', 'g', 'w', 'c', 's', 'b']


def one_directional(d):
  lb = [F(x) for x in d['lb']]; hb = [F(x) for x in d['hb']]
  return not (any(x < 0 for x in lb) and any(x > 0 for x in hb))


def gen_wrapped(rng, tier, n, classes=None, p_cons=0.6):
  """a one-directional atomic device description, often with cumulative bounds / user constraints."""
  for _ in range(40):
    cls = rng.choice(classes or MF_CLASSES)
    d = gen.gen_leaf(rng, tier, [cls], n=n, with_cbounds=(rng.random() < p_cons))
    if cls == 'SDevice':
      # a charge-only or discharge-only store
      lb = [F(x) for x in d['lb']]; hb = [F(x) for x in d['hb']]
      if rng.random() < 0.5:
        d['lb'] = [fs(0)]*n; d['hb'] = [fs(max(x, F(0))) for x in hb]
      else:
        d['hb'] = [fs(0)]*n; d['lb'] = [fs(min(x, F(0))) for x in lb]
      d['cbs'] = []; d['_py']['cform'] = None
      d['_py']['bform'] = 'table'
    if one_directional(d):
      break
  else:
    d = gen.gen_leaf(rng, tier, ['IDevice2'], n=n)
  if d['cls'] == 'ADevice' and rng.random() < p_cons:
    d['ucons'] = gen.gen_ucons(rng, n, [F(x) for x in d['lb']], [F(x) for x in d['hb']])
  return d


SPECIAL_FLOWS = ['e', 'h[2]', 'g(1)', 'w+x', 'E', 'cH', 's_e']
ID_TAILS = ['e', 'h', 'g', '', '', '', '_e', '-h', '(1)', '[2]', '+x', '(a)b', 'E', 'aE', 'H', '_E']
FIXED_LABELS = ['e', 'h', 'g', 'zz', '.e', '_e', '.h', '(1)', '[2]', '+x', 'x', '1)', ']', '.', 'e(1)', '2]', 'E', 'H', 'aE', 'ae', '.E', '_E']
RATIOS = [F(-2), F(-1), F(1), F(2), Fraction(5, 2), Fraction(1, 3)]
RATIO_FORMS = ['list', 'tuple', 'ndarray', 'int-list', 'int-ndarray']


def gen_mf(rng, tier, n, ident, kmax=4, classes=None, p_ratio=0.35, special=False):
  d = gen_wrapped(rng, tier, n, classes)
  k = rng.choice([1, 2, 2, 3, 4] + list(range(5, kmax + 1))) if kmax >= 4 else rng.randint(1, kmax)
  names = SPECIAL_FLOWS if (special and rng.random() < 0.25) else FLOW_NAMES
  t = {'k': 'mf', 'id': ident, 'dev': d, 'flows': names[:k], 'ratios': None}
  if k == 2 and rng.random() < p_ratio:
    set_ratios(rng, t)
  return t


def set_ratios(rng, t):
  """ratios of either sign (the constructor accepts any pair), some not dyadic, in every sequence form the
  constructor accepts (`_rform`: how the Python side passes them; integer-typed only when both are whole)."""
  r = [rng.choice(RATIOS) if rng.random() < 0.7 else dy(rng, 1, 3) for _ in range(2)]
  t['ratios'] = [fs(r[0]), fs(r[1])]
  t['ctype'] = rng.choice(['eq', 'ineq'])
  whole = all(x.denominator == 1 for x in r)
  t['_rform'] = rng.choice(RATIO_FORMS if whole else RATIO_FORMS[:3])
  return t


def py_ratios(t):
  """the ratios as the Python constructor receives them."""
  import numpy as np
  from .common import pf
  form = t.get('_rform', 'list')
  if form.startswith('int'):
    vals = [int(F(x)) for x in t['ratios']]
    return np.array(vals, dtype=np.int64) if form == 'int-ndarray' else vals
  vals = [pf(x) for x in t['ratios']]
  return tuple(vals) if form == 'tuple' else np.array(vals) if form == 'ndarray' else vals


def label_pool(rng, ids):
  """candidate labels for a set whose rows have the qualified ids `ids`: plain suffixes, suffixes that
  cross the separator (`m3.e`, `.e`, `s2.a1`), whole paths, characters that are special in regular
  expressions, labels matching nothing."""
  pool = list(FIXED_LABELS)
  for q in rng.sample(ids, min(len(ids), 4)):
    parts = q.split('.')
    pool += [parts[-1], '.' + parts[-1], '.'.join(parts[-2:]), q, q[1:]]
    tails = [q[-j:] for j in rng.sample(range(1, len(q) + 1), min(len(q), 3))]
    pool += tails + [x.swapcase() for x in tails[:2]] + [parts[-1].upper(), parts[-1].lower()]
  return sorted(set(x for x in pool if x))


def nested_pair(rng, ids):
  """two labels, one a proper suffix of the other (`heat` / `wasteheat`), both matching some row."""
  q = rng.choice(ids)
  if len(q) < 2:
    return []
  j2 = rng.randint(2, min(len(q), 6)); j1 = rng.randint(1, j2 - 1)
  pair = [q[-j1:], q[-j2:]]
  rng.shuffle(pair)
  return pair


def gen_set_tree(rng, tier='quick', n=None, depth=None, dup=False):
  """a random device tree whose sets exercise every kind of own constraint.  Aggregate bounds are
  left as a *mode* (`_sbmode`); `craft` fixes their values around a base matrix.
  `dup`: give two sibling blocks of one (sub-balanced) set the same id (DeviceSet accepts that)."""
  n = n or gen.pick_n(rng, tier, 6 if tier == 'quick' else 10)
  depth = depth if depth is not None else rng.choice([1, 2, 2, 3])
  counter = [0]
  state = {'dup': dup}
  def fresh(prefix, tails=None):
    counter[0] += 1
    return '%s%d%s' % (prefix, counter[0], rng.choice(tails) if tails else '')
  def leaf(ident=None):
    cls = rng.choice(['Device', 'Device', 'CDevice', 'CDevice2', 'IDevice', 'IDevice2', 'GDevice', 'PVDevice', 'SDevice', 'TDevice', 'ADevice'])
    d = gen.gen_leaf(rng, tier, [cls], n=n)
    if cls == 'ADevice' and rng.random() < 0.5:
      d['ucons'] = gen.gen_ucons(rng, n, [F(x) for x in d['lb']], [F(x) for x in d['hb']])
    return {'k': 'leaf', 'id': ident or fresh(rng.choice(['a', 'b', 'e', 'h', 'g', 'x', 'A', 'E']), ID_TAILS), 'dev': d}
  def node(dep, root=False):
    kids = []
    for _ in range(rng.randint(1 if not root else 2, 4 if root else 3)):
      r = rng.random()
      if dep > 1 and r < 0.35:
        kids.append(node(dep - 1))
      elif r < 0.55:
        kids.append(gen_mf(rng, tier, n, fresh(rng.choice(['m', 'm', 'x'])), kmax=rng.choice([3, 3, 3, 5]), special=True))
      else:
        kids.append(leaf())
      # a sibling that differs from a nested row only in the separator: `x3_e` next to `x3.e`
      last = kids[-1]
      if last['k'] != 'leaf' and rng.random() < 0.35:
        sub = rng.choice(fqids(last)).split('.')
        kids.append(leaf(sub[0] + rng.choice(['_', '-', '']) + sub[-1]))
    t = {'k': 'node', 'id': 'root' if root else fresh(rng.choice(['s', 's', 'e', 'h', 'S', 'E'])), 'sb': None, 'ch': kids, 'sub': False,
         '_sbmode': rng.choice([None, 'ineq', 'ineq', 'eq', 'mixed', 'mixed', 'mixed'])}
    force = False
    same = [k for k in ('leaf', 'mf') if sum(c['k'] == k for c in kids) >= 2]
    if state['dup'] and same:
      kind = rng.choice(same)
      a, b = rng.sample([c for c in kids if c['k'] == kind], 2)
      b['id'] = a['id']
      state['dup'] = False; force = True; t['_dup'] = True
    if force or rng.random() < 0.5:
      t['sub'] = True
      ids = fqids(t)
      labels = nested_pair(rng, ids) if rng.random() < 0.35 else []
      pool = [x for x in label_pool(rng, ids) if x not in labels]
      want = max(len(labels), rng.randint(1, 3))
      labels += rng.sample(pool, min(len(pool), want - len(labels)))
      twice = [x for x in ids if ids.count(x) > 1]
      if force and twice and rng.random() < 0.7:   # make the duplicate matter: a label of a row at or after it
        q = rng.choice(ids[ids.index(twice[0]):])
        labels[0] = q.split('.')[-1]
      t['labels'] = labels
      t['ctype'] = rng.choice(['eq', 'eq', 'ineq'])
      t['sign'] = rng.choice(['1', '1', '-1', '-1', '2', '-1/2'])
      t['rem'] = rng.random() < 0.45
      if not force and rng.random() < 0.12:        # no label at all: everything is "the rest"
        t['labels'] = []; t['rem'] = rng.random() < 0.85
    return t
  return node(depth, root=True), n


def has_duplicate_ids(t):
  q = fqids(t)
  return len(set(q)) != len(q)


# ---------------------------------------------------------------- structure helpers
def fqids(t, pre=''):
  """qualified ids of the rows under `t`, relative to `t` itself (what `t.leaf_devices()` documents)."""
  if t['k'] == 'leaf':
    return [pre + t['id']]
  if t['k'] == 'mf':
    return [pre + t['id'] + '.' + f for f in t['flows']]
  out = []
  for c in t['ch']:
    out += fqids(c, pre + t['id'] + '.')
  return out


def sets_of(t, off=0):
  """every set (plain / sub-balanced node, adaptor) under `t` with its absolute row offset, post-order."""
  out = []
  if t['k'] == 'node':
    o = off
    for c in t['ch']:
      out += sets_of(c, o)
      o += gen.tree_rows(c)
    out.append((off, t))
  elif t['k'] == 'mf':
    out.append((off, t))
  return out


def skeleton(t, n):
  """the same tree with every atomic leaf replaced by a constraint-free `Device` (adaptors kept):
  its whole constraint list is then exactly the own constraints of all its sets."""
  if t['k'] == 'leaf':
    d = t['dev']
    return {'k': 'leaf', 'id': t['id'], 'dev': {'cls': 'Device', 'n': n, 'lb': d['lb'], 'hb': d['hb'], 'cbs': [], 'prm': {},
                                               '_py': {'bform': 'table', 'cform': None}}}
  if t['k'] == 'mf':
    return t
  s = dict(t); s['ch'] = [skeleton(c, n) for c in t['ch']]
  return s


# ---------------------------------------------------------------- reference semantics (exact)
def colsum(rows, n):
  return [sum((r[i] for r in rows), F(0)) for i in range(n)]


def holds(ctype, v):
  return v == 0 if ctype == 'eq' else v >= 0


def dev_clauses(d, x, n, name):
  """documented feasible set of a wrapped device's *constraints* at the flow `x` (cumulative bounds and
  the data-described user constraints) and its per-slot bounds."""
  out = []
  lb = [F(v) for v in d['lb']]; hb = [F(v) for v in d['hb']]
  for i in range(n):
    out.append(('%s: wrapped bounds slot %d' % (name, i), lb[i] <= x[i] <= hb[i]))
  for (l, h, a, b) in d.get('cbs', []):
    tot = sum(x[int(a):int(b)], F(0))
    out.append(('%s: wrapped cumulative bound [%s,%s) ' % (name, a, b), F(l) <= tot <= F(h)))
  for u in d.get('ucons', []):
    v = sum((F(w)*xi for w, xi in zip(u['w'], x)), F(0)) + F(u['c'])
    out.append(('%s: wrapped user constraint' % name, holds(u['type'], v)))
  return out


def own_clauses(t, rows, n):
  """the documented limits one set adds itself, on the rows under it."""
  out = []
  name = '%s(%s)' % (t['k'], t['id'])
  if t['k'] == 'mf':
    cs = colsum(rows, n)
    out += dev_clauses(t['dev'], cs, n, name)
    if t.get('ratios'):
      r0, r1 = F(t['ratios'][0]), F(t['ratios'][1])
      for i in range(n):
        out.append(('%s: ratio slot %d' % (name, i), holds(t.get('ctype', 'eq'), rows[0][i]*r0 - rows[1][i]*r1)))
    return out
  if t.get('sb') is not None:
    cs = colsum(rows, n)
    for i in range(n):
      lo, hi = F(t['sb'][i][0]), F(t['sb'][i][1])
      out.append(('%s: aggregate bounds slot %d' % (name, i), (cs[i] == lo) if lo == hi else (lo <= cs[i] <= hi)))
  if t.get('sub'):
    ids = fqids(t)
    sign = F(t.get('sign', '1'))
    groups = [('label %s' % l, [k for k, q in enumerate(ids) if q.endswith(l)]) for l in t.get('labels', [])]
    if t.get('rem'):
      groups.append(('unlabelled rest', [k for k, q in enumerate(ids) if not any(q.endswith(l) for l in t.get('labels', []))]))
    for gname, idx in groups:
      for i in range(n):
        tot = sum((rows[k][i] for k in idx), F(0))
        out.append(('%s: %s slot %d' % (name, gname, i), holds(t.get('ctype', 'eq'), sign*tot)))
  return out


def clauses(t, rows, n):
  """all clauses of all sets under `t` (every nesting depth)."""
  out = []
  for off, s in sets_of(t):
    out += own_clauses(s, rows[off:off + gen.tree_rows(s)], n)
  return out


# ---------------------------------------------------------------- crafting probes
def wrapped_flow(rng, d, n, tries=12):
  """an in-box flow of the wrapped device, preferring one that meets its cumulative bounds / user constraints."""
  best = None
  for _ in range(tries):
    x = gen.gen_flow(rng, [F(v) for v in d['lb']], [F(v) for v in d['hb']], rng.choice(['interior', 'mixed', 'lower', 'upper']))
    bad = sum(1 for _, ok in dev_clauses(d, x, n, '') if not ok)
    if best is None or bad < best[0]:
      best = (bad, x)
    if bad == 0:
      break
  return best[1]


def split(rng, x, k):
  """conduit rows that sum to `x` with the same direction (dyadic weights)."""
  w = [rng.randint(0, 4) for _ in range(k)]
  if sum(w) == 0 or rng.random() < 0.3:
    w = [1]*k
  den = sum(w)
  if den & (den - 1):            # keep everything dyadic: pad the weights to a power of two
    p = 1
    while p < den: p *= 2
    w[0] += p - den; den = p
  return [[xi*Fraction(wj, den) for xi in x] for wj in w]


def craft(rng, t, n):
  """choose a base matrix that meets as many own constraints as possible, then fix the aggregate
  bounds of every node around it.  Mutates `t['sb']`; returns the matrix (rows of Fractions)."""
  R = gen.tree_rows(t)
  lb, hb = gen.tree_box(t, n)
  flat = gen.gen_flow(rng, lb, hb, rng.choice(['interior', 'mixed', 'mixed']))
  S = [list(flat[r*n:(r + 1)*n]) for r in range(R)]
  mfrows = set()
  allsets = sets_of(t)
  for off, s in allsets:
    if s['k'] != 'mf':
      continue
    k = len(s['flows'])
    mfrows.update(range(off, off + k))
    x = wrapped_flow(rng, s['dev'], n)
    if s.get('ratios'):
      r0, r1 = F(s['ratios'][0]), F(s['ratios'][1])
      den = (r0 + r1) if r0 + r1 != 0 else F(1)
      v = [Fraction(round(xi/den*8), 8) for xi in x]
      S[off] = [vi*r1 for vi in v]; S[off + 1] = [vi*r0 for vi in v]
      if s.get('ctype') == 'ineq' and rng.random() < 0.5:
        S[off] = [a + abs(dy(rng, 0, 1)) for a in S[off]]
    else:
      for j, row in enumerate(split(rng, x, k)):
        S[off + j] = row
  locked = set()
  for off, s in allsets:
    if s['k'] != 'node' or not s.get('sub'):
      continue
    ids = fqids(s)
    sign = F(s.get('sign', '1'))
    groups = [[k for k, q in enumerate(ids) if q.endswith(l)] for l in s.get('labels', [])]
    if s.get('rem'):
      groups.append([k for k, q in enumerate(ids) if not any(q.endswith(l) for l in s.get('labels', []))])
    for idx in groups:
      rows = [off + k for k in idx]
      free = [r for r in rows if r not in locked]
      pref = [r for r in free if r not in mfrows] or free
      if pref and rng.random() < 0.92:
        a = rng.choice(pref)
        for i in range(n):
          others = sum((S[r][i] for r in rows if r != a), F(0))
          target = F(0)
          if s.get('ctype') == 'ineq' and rng.random() < 0.6:
            target = dy(rng, 0, 2)*(1 if sign > 0 else -1)
          S[a][i] = target - others
      locked.update(rows)
  for off, s in allsets:
    if s['k'] != 'node':
      continue
    mode = s.get('_sbmode')
    if mode is None:
      s['sb'] = None
      continue
    cs = colsum(S[off:off + gen.tree_rows(s)], n)
    sb = []
    for i in range(n):
      m = mode if mode != 'mixed' else rng.choice(['eq', 'ineq', 'ineq'])
      if m == 'eq':
        sb.append([fs(cs[i]), fs(cs[i])])
      else:
        # the last two bands are narrow (width 2^-20, 2^-19) but NOT degenerate: low < high is an inequality band, however close the limits are
        a, b = rng.choice([(0, 1), (1, 0), (Fraction(1, 4), 3), (2, 2), (3, Fraction(1, 4)), (0, Fraction(1, 4)), (Fraction(1, 2), 0),
                           (Fraction(1, 2**21), Fraction(1, 2**21)), (Fraction(1, 2**20), Fraction(1, 2**20))])
        sb.append([fs(cs[i] - a), fs(cs[i] + b)])
    s['sb'] = sb
  return S


def probes(rng, t, n, S, count=7):
  """the base matrix, single/double-entry perturbations of it (so that exactly a few limits move),
  an in-box random flow, an arbitrary matrix and an all-integer matrix."""
  R = len(S)
  out = [S]
  for _ in range(count - 3):
    P = [list(r) for r in S]
    for _ in range(rng.choice([1, 1, 1, 2])):
      r, i = rng.randrange(R), rng.randrange(n)
      P[r][i] = P[r][i] + rng.choice([-1, 1])*rng.choice([Fraction(1, 4), Fraction(1, 2), 1, 2, 8])
    out.append(P)
  Pb = [list(r) for r in S]                    # a whole-row move: every slot of one row
  r = rng.randrange(R); dlt = rng.choice([-1, 1])*rng.choice([Fraction(1, 4), 1, 4])
  Pb[r] = [v + dlt for v in Pb[r]]
  out.append(Pb)
  lb, hb = gen.tree_box(t, n)
  flat = gen.gen_flow(rng, lb, hb)
  out.append([list(flat[r*n:(r + 1)*n]) for r in range(R)])
  out.append([[dy(rng, -6, 6) for _ in range(n)] for _ in range(R)])
  out.append([[F(round(v)) for v in r] for r in S])          # all-integer entries (passed with an integer dtype by the oracle)
  return [[[fs(v) for v in row] for row in P] for P in out]


def strip_modes(t):
  t.pop('_sbmode', None)
  for c in t.get('ch', []):
    strip_modes(c)
  return t
