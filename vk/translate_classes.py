"""Tie T1 for C16: structural table of every shipped device / set class, extracted from the CURRENT
source of DK_REPO and emitted as lean/DK/Gen/Classes.lean (`DK.Gen.classes : List DK.Serial.ClassInfo`).

Per class (every `BaseDevice` subclass exported by `device_kit`, plus `BaseDevice` itself so the
base-class chain is closed):

* from the AST of the class body: own `__init__` parameters (which have defaults, the `**` name) and,
  in source order, the statements that matter for serialisation (`super().__init__(…)`,
  `self._keys = [...]`, `self._keys += list(meta.keys())`, `self._keys.remove(..)`, the `setattr` loop);
  own `to_dict` as a list of steps (`{k: getattr(self, k) for k in self._keys}`, `super().to_dict()`,
  dict literal, `.update({...})`, `d[k] = …`, `del d[k]`) — every dumped value must be the PLAIN attribute read
  `self.k` / `self._k` (anything computed from it, `np.round(self.bounds, 3)`, `self.id.lower()`, is `.unknown`); the one
  accepted replacement of a dumped value is ADevice's `if 'constraints' in d: d['constraints'] = self._constraints`;
  own `@property` / `@x.setter` names; own `from_dict`, which must be the classmethod `return cls(**d)` — any filtering,
  sorting, capping or editing of the dictionary is `.other "<file:line: source>"` and fails `from_dict_is_ctor`;
* from the imported class: `inspect.signature(cls)`, the MRO, `inspect.isabstract`, and the run-time
  property/setter sets (cross-checked against the AST here; the signature cross-check is a Lean theorem).

Anything that touches `_keys`, `super().__init__` or `to_dict` in a form not understood becomes an
`.unknown "<file:line: source>"` step: the symbolic replay in DK/Model/Serial.lean then yields no dump
and the table theorems of DK/Props/C16.lean fail — the extractor never guesses.
"""
import ast, inspect, json, os, sys
from abc import ABC

HERE = os.path.dirname(os.path.abspath(__file__))
GEN = os.path.join(os.path.dirname(HERE), 'lean', 'DK', 'Gen')
SHIPPED = ['Device', 'CDevice', 'CDevice2', 'IDevice', 'IDevice2', 'GDevice', 'PVDevice', 'SDevice', 'TDevice', 'ADevice',
           'WindowDevice', 'DeviceSet', 'SubBalancedDeviceSet', 'MFDeviceSet', 'TwoRatioMFDeviceSet']


# ---------------------------------------------------------------- AST helpers
def _src(node, fn):
  return '%s:%d: %s' % (os.path.basename(fn), getattr(node, 'lineno', 0), ast.unparse(node).split('\n')[0][:70])


def _is_self_keys(e):
  return isinstance(e, ast.Attribute) and e.attr == '_keys' and isinstance(e.value, ast.Name) and e.value.id == 'self'


def _str_list(e):
  """['a', 'b'] / ('a',) -> list of str, else None."""
  if isinstance(e, (ast.List, ast.Tuple)) and all(isinstance(x, ast.Constant) and isinstance(x.value, str) for x in e.elts):
    return [x.value for x in e.elts]
  return None


def _is_super_call(e, meth):
  """super().<meth>(…)"""
  return (isinstance(e, ast.Call) and isinstance(e.func, ast.Attribute) and e.func.attr == meth
          and isinstance(e.func.value, ast.Call) and isinstance(e.func.value.func, ast.Name) and e.func.value.func.id == 'super'
          and not e.func.value.args)


def _mentions(node, pred):
  return any(pred(n) for n in ast.walk(node))


def _mentions_keys(node):
  return _mentions(node, lambda n: isinstance(n, ast.Attribute) and n.attr == '_keys')


def _mentions_super_init(node):
  return _mentions(node, lambda n: isinstance(n, ast.Attribute) and n.attr == '__init__')


def init_info(fdef, fn):
  a = fdef.args
  problems = []
  if a.vararg or a.kwonlyargs or a.posonlyargs:
    problems.append('unsupported parameter kinds in ' + _src(fdef, fn))
  names = [x.arg for x in a.args][1:]
  nd = len(a.defaults)
  params = [(n, i >= len(names) - nd) for i, n in enumerate(names)]
  varkw = a.kwarg.arg if a.kwarg else None
  ops = [('unknown', p) for p in problems]
  for st in fdef.body:
    op = None
    # super().__init__(…)
    if isinstance(st, ast.Expr) and _is_super_call(st.value, '__init__'):
      c = st.value
      if any(isinstance(x, ast.Starred) for x in c.args):
        op = ('unknown', _src(st, fn))
      else:
        pos = [x.id if isinstance(x, ast.Name) else '' for x in c.args]
        kw, star, bad = [], False, False
        for k in c.keywords:
          if k.arg is None:
            if isinstance(k.value, ast.Name) and k.value.id == varkw and not star:
              star = True
            else:
              bad = True
          else:
            kw.append(k.arg)
        op = ('unknown', _src(st, fn)) if bad else ('callSuper', pos, kw, star)
    # self._keys = [...]
    elif isinstance(st, ast.Assign) and len(st.targets) == 1 and _is_self_keys(st.targets[0]):
      l = _str_list(st.value)
      op = ('setKeys', l) if l is not None else ('unknown', _src(st, fn))
    # self._keys += …
    elif isinstance(st, ast.AugAssign) and _is_self_keys(st.target) and isinstance(st.op, ast.Add):
      v = st.value
      l = _str_list(v)
      if l is not None:
        op = ('addKeys', l)
      elif (isinstance(v, ast.Call) and isinstance(v.func, ast.Name) and v.func.id == 'list' and len(v.args) == 1
            and isinstance(v.args[0], ast.Call) and isinstance(v.args[0].func, ast.Attribute) and v.args[0].func.attr == 'keys'
            and isinstance(v.args[0].func.value, ast.Name) and v.args[0].func.value.id == varkw and not v.args[0].args):
        op = ('addVarkwKeys',)
      else:
        op = ('unknown', _src(st, fn))
    # self._keys.remove('k') / .append('k') / .extend([...])
    elif (isinstance(st, ast.Expr) and isinstance(st.value, ast.Call) and isinstance(st.value.func, ast.Attribute)
          and _is_self_keys(st.value.func.value)):
      m, args = st.value.func.attr, st.value.args
      if m in ('remove', 'append') and len(args) == 1 and isinstance(args[0], ast.Constant) and isinstance(args[0].value, str):
        op = ('removeKey', args[0].value) if m == 'remove' else ('addKeys', [args[0].value])
      elif m == 'extend' and len(args) == 1 and _str_list(args[0]) is not None:
        op = ('addKeys', _str_list(args[0]))
      else:
        op = ('unknown', _src(st, fn))
    # for k, v in meta.items(): setattr(self, k, v)
    elif (isinstance(st, ast.For) and isinstance(st.iter, ast.Call) and isinstance(st.iter.func, ast.Attribute)
          and st.iter.func.attr == 'items' and isinstance(st.iter.func.value, ast.Name) and st.iter.func.value.id == varkw
          and isinstance(st.target, ast.Tuple) and len(st.target.elts) == 2 and all(isinstance(x, ast.Name) for x in st.target.elts)
          and len(st.body) == 1 and not st.orelse and isinstance(st.body[0], ast.Expr) and isinstance(st.body[0].value, ast.Call)
          and isinstance(st.body[0].value.func, ast.Name) and st.body[0].value.func.id == 'setattr'
          and [ast.unparse(x) for x in st.body[0].value.args] == ['self', st.target.elts[0].id, st.target.elts[1].id]):
      op = ('setattrVarkw',)
    elif _mentions_keys(st) or _mentions_super_init(st) or (varkw and _mentions(st, lambda n: isinstance(n, ast.Name) and n.id == varkw)):
      # anything else that touches `_keys`, another `__init__`, or the ** dict
      op = ('unknown', _src(st, fn))
    if op:
      ops.append(op)
  return {'params': params, 'varkw': varkw, 'ops': ops}


def _plain_read(k, v):
  """the dumped value of key `k` is the plain attribute read `self.k` / `self._k` — nothing computed from it
  (`np.round(self.bounds, 3)`, `self.id.lower()`, arithmetic … change the VALUE and are outside the understood subset)."""
  return (isinstance(v, ast.Attribute) and isinstance(v.value, ast.Name) and v.value.id == 'self' and v.attr in (k, '_' + k))


def _dict_keys(e):
  if (isinstance(e, ast.Dict) and all(isinstance(k, ast.Constant) and isinstance(k.value, str) for k in e.keys)
      and all(_plain_read(k.value, v) for k, v in zip(e.keys, e.values))):
    return [k.value for k in e.keys]
  return None


def _is_keys_comp(e):
  """{k: getattr(self, k) for k in self._keys}"""
  return (isinstance(e, ast.DictComp) and len(e.generators) == 1 and not e.generators[0].ifs
          and _is_self_keys(e.generators[0].iter) and isinstance(e.generators[0].target, ast.Name)
          and isinstance(e.key, ast.Name) and e.key.id == e.generators[0].target.id
          and ast.unparse(e.value) == 'getattr(self, %s)' % e.key.id)


def dump_info(fdef, fn, cls_name=''):
  """`to_dict` body -> steps over ONE dict variable (or a directly returned expression)."""
  ops, var, returned = [], None, False

  def start(e):
    if _is_keys_comp(e): return ('fromKeys',)
    if _is_super_call(e, 'to_dict') and not e.args and not e.keywords: return ('fromSuper',)
    ks = _dict_keys(e)
    if ks is not None: return ('literal', ks)
    return None

  for st in fdef.body:
    if isinstance(st, ast.Expr) and isinstance(st.value, ast.Constant) and isinstance(st.value.value, str):
      continue   # doc-string
    if returned:
      ops.append(('unknown', _src(st, fn))); continue
    if isinstance(st, ast.Assign) and len(st.targets) == 1 and isinstance(st.targets[0], ast.Name) and var is None and start(st.value):
      var = st.targets[0].id; ops.append(start(st.value)); continue
    if isinstance(st, ast.Return):
      returned = True
      if var is not None and isinstance(st.value, ast.Name) and st.value.id == var:
        continue
      if var is None and st.value is not None and start(st.value):
        ops.append(start(st.value)); continue
      ops.append(('unknown', _src(st, fn))); continue
    if var is not None:
      # d.update({...})
      if (isinstance(st, ast.Expr) and isinstance(st.value, ast.Call) and isinstance(st.value.func, ast.Attribute)
          and isinstance(st.value.func.value, ast.Name) and st.value.func.value.id == var):
        m, args = st.value.func.attr, st.value.args
        if m == 'update' and len(args) == 1 and not st.value.keywords and _dict_keys(args[0]) is not None:
          ops.append(('update', _dict_keys(args[0]))); continue
        if m == 'update' and not args and all(k.arg and _plain_read(k.arg, k.value) for k in st.value.keywords):
          ops.append(('update', [k.arg for k in st.value.keywords])); continue
        if m == 'pop' and len(args) >= 1 and isinstance(args[0], ast.Constant) and isinstance(args[0].value, str):
          ops.append(('remove', [args[0].value])); continue
      # d['k'] = …
      if (isinstance(st, ast.Assign) and len(st.targets) == 1 and isinstance(st.targets[0], ast.Subscript)
          and isinstance(st.targets[0].value, ast.Name) and st.targets[0].value.id == var
          and isinstance(st.targets[0].slice, ast.Constant) and isinstance(st.targets[0].slice.value, str)
          and _plain_read(st.targets[0].slice.value, st.value)):
        ops.append(('update', [st.targets[0].slice.value])); continue
      # if 'constraints' in d: d['constraints'] = self._constraints   — the ONE known site where a dumped value is
      # replaced (ADevice: the getter returns cbound closures + user list, the dump must carry the stored user list).
      # Any other replacement of a dumped value is `.unknown`.
      if (cls_name == 'ADevice' and isinstance(st, ast.If) and not st.orelse and isinstance(st.test, ast.Compare) and len(st.test.ops) == 1
          and isinstance(st.test.ops[0], ast.In) and isinstance(st.test.left, ast.Constant) and isinstance(st.test.left.value, str)
          and isinstance(st.test.comparators[0], ast.Name) and st.test.comparators[0].id == var
          and all(isinstance(b, ast.Assign) and len(b.targets) == 1 and isinstance(b.targets[0], ast.Subscript)
                  and isinstance(b.targets[0].value, ast.Name) and b.targets[0].value.id == var
                  and isinstance(b.targets[0].slice, ast.Constant) and b.targets[0].slice.value == st.test.left.value
                  and ast.unparse(b.value) == 'self._constraints' for b in st.body)
          and st.test.left.value == 'constraints' and len(st.body) == 1):
        ops.append(('overwrite', [st.test.left.value])); continue
      # del d['k']
      if (isinstance(st, ast.Delete) and all(isinstance(t, ast.Subscript) and isinstance(t.value, ast.Name) and t.value.id == var
                                             and isinstance(t.slice, ast.Constant) and isinstance(t.slice.value, str) for t in st.targets)):
        ops.append(('remove', [t.slice.value for t in st.targets])); continue
    ops.append(('unknown', _src(st, fn)))
  if not returned:
    ops.append(('unknown', '%s:%d: to_dict does not return' % (os.path.basename(fn), fdef.lineno)))
  return ops


def _is_abstract_stub(fdef):
  return any(ast.unparse(d) in ('abstractmethod', 'abc.abstractmethod') for d in fdef.decorator_list)


def from_dict_info(fdef, decs, fn):
  """`from_dict` must be the classmethod `return cls(**d)` and nothing else (a doc-string apart): any filtering,
  sorting, renaming, capping or copying-and-editing of the dictionary is outside the understood subset."""
  a = fdef.args
  names = [x.arg for x in a.args]
  body = [st for st in fdef.body if not (isinstance(st, ast.Expr) and isinstance(st.value, ast.Constant) and isinstance(st.value.value, str))]
  ok = ('classmethod' in decs and len(decs) == 1 and len(names) == 2 and not (a.vararg or a.kwarg or a.kwonlyargs or a.posonlyargs or a.defaults)
        and len(body) == 1 and isinstance(body[0], ast.Return) and isinstance(body[0].value, ast.Call)
        and isinstance(body[0].value.func, ast.Name) and body[0].value.func.id == names[0] and not body[0].value.args
        and len(body[0].value.keywords) == 1 and body[0].value.keywords[0].arg is None
        and isinstance(body[0].value.keywords[0].value, ast.Name) and body[0].value.keywords[0].value.id == names[1])
  if ok:
    return ('ctorOfDict',)
  bad = next((st for st in body if not (isinstance(st, ast.Return) and ast.unparse(st) == 'return %s(**%s)' % tuple((names + ['?', '?'])[:2]))), fdef)
  return ('other', _src(bad, fn))


def class_ast(cdef, fn):
  init = dump = fromd = None
  props, setters = [], []
  for st in cdef.body:
    if not isinstance(st, ast.FunctionDef):
      continue
    decs = [ast.unparse(d) for d in st.decorator_list]
    if st.name == '__init__':
      init = init_info(st, fn)
    elif st.name == 'to_dict' and not _is_abstract_stub(st):
      dump = dump_info(st, fn, cdef.name)
    elif st.name == 'from_dict':
      fromd = from_dict_info(st, decs, fn)
    if 'property' in decs and st.name not in props:
      props.append(st.name)
    for d in decs:
      if d.endswith('.setter') and d[:-7] == st.name and st.name not in setters:
        setters.append(st.name)
  return {'init': init, 'dump': dump, 'from_dict': fromd, 'props': props, 'setters': setters,
          'ast_bases': [ast.unparse(b).split('.')[-1] for b in cdef.bases]}


# ---------------------------------------------------------------- extraction
def extract(repo):
  """-> (list of class records, list of extraction problems)."""
  if repo not in sys.path:
    sys.path.insert(0, repo)
  import warnings
  warnings.simplefilter('ignore')
  import device_kit
  got = os.path.realpath(device_kit.__file__)
  assert got.startswith(os.path.realpath(repo) + os.sep), 'device_kit imported from %s, not %s' % (got, repo)
  Base = device_kit.BaseDevice
  found = {}
  for k, v in vars(device_kit).items():
    if inspect.isclass(v) and issubclass(v, Base) and (v.__module__ or '').startswith('device_kit'):
      found[v.__name__] = v
  # classes reachable only as bases
  for v in list(found.values()):
    for b in v.__mro__:
      if inspect.isclass(b) and issubclass(b, Base):
        found.setdefault(b.__name__, b)
  order = sorted(found.values(), key=lambda c: (len(c.__mro__), c.__name__))
  problems, recs, parsed = [], [], {}
  for cls in order:
    fn = inspect.getsourcefile(cls)
    if fn not in parsed:
      parsed[fn] = ast.parse(open(fn).read())
    cdefs = [n for n in ast.walk(parsed[fn]) if isinstance(n, ast.ClassDef) and n.name == cls.__name__]
    where = '%s' % os.path.relpath(fn, repo)
    if len(cdefs) != 1:
      problems.append('%s: %d class definitions named %s' % (where, len(cdefs), cls.__name__)); continue
    a = class_ast(cdefs[0], fn)
    mro = [b for b in cls.__mro__[1:] if b not in (object, ABC)]
    if [b.__name__ for b in cls.__bases__ if b not in (object,)] != a['ast_bases']:
      problems.append('%s: AST bases %s != run-time bases %s' % (cls.__name__, a['ast_bases'], [b.__name__ for b in cls.__bases__]))
    if len([b for b in cls.__bases__ if b not in (object, ABC)]) > 1:
      problems.append('%s: multiple inheritance is outside the modelled subset' % cls.__name__)
    # run-time properties / setters of the class's own dict
    rt_props = sorted(k for k, v in vars(cls).items() if isinstance(v, property))
    rt_setters = sorted(k for k, v in vars(cls).items() if isinstance(v, property) and v.fset is not None)
    if rt_props != sorted(a['props']) or rt_setters != sorted(a['setters']):
      problems.append('%s: AST properties/setters %s/%s != run-time %s/%s' % (cls.__name__, sorted(a['props']), sorted(a['setters']), rt_props, rt_setters))
    if ('__init__' in vars(cls)) != (a['init'] is not None):
      problems.append('%s: own __init__ seen by AST=%s, at run time=%s' % (cls.__name__, a['init'] is not None, '__init__' in vars(cls)))
    has_td = 'to_dict' in vars(cls) and not getattr(vars(cls)['to_dict'], '__isabstractmethod__', False)
    if has_td != (a['dump'] is not None):
      problems.append('%s: own to_dict seen by AST=%s, at run time=%s' % (cls.__name__, a['dump'] is not None, has_td))
    if ('from_dict' in vars(cls)) != (a['from_dict'] is not None):
      problems.append('%s: own from_dict seen by AST=%s, at run time=%s' % (cls.__name__, a['from_dict'] is not None, 'from_dict' in vars(cls)))
    # run-time signature
    sig_params, sig_varkw, sig_bad = [], None, None
    try:
      for p in inspect.signature(cls).parameters.values():
        if p.kind == p.VAR_KEYWORD:
          sig_varkw = p.name
        elif p.kind == p.POSITIONAL_OR_KEYWORD:
          sig_params.append((p.name, p.default is not p.empty))
        else:
          sig_bad = p.name
    except (TypeError, ValueError) as e:
      sig_bad = str(e)
    if sig_bad:
      problems.append('%s: signature has an unsupported parameter (%s)' % (cls.__name__, sig_bad))
      sig_params.append(('<unsupported>', False))
    recs.append({'name': cls.__name__, 'where': where + ':%d' % cdefs[0].lineno, 'bases': [b.__name__ for b in mro],
                 'abstract': bool(inspect.isabstract(cls)), 'init': a['init'], 'dump': a['dump'], 'from_dict': a['from_dict'], 'props': a['props'],
                 'setters': a['setters'], 'sig_params': sig_params, 'sig_varkw': sig_varkw})
  for n in SHIPPED:
    if n not in found:
      problems.append('shipped class %s is not exported by device_kit' % n)
  return recs, problems


# ---------------------------------------------------------------- emission
def ls(s):
  return json.dumps(s, ensure_ascii=True).replace('\\u00a7', '§')


def lstrs(l):
  return '[' + ', '.join(ls(x) for x in l) + ']'


def lopt(s):
  return 'none' if s is None else '(some %s)' % ls(s)


def lparams(ps):
  return '[' + ', '.join('⟨%s, %s⟩' % (ls(n), 'true' if d else 'false') for n, d in ps) + ']'


def linit_op(op):
  k = op[0]
  if k == 'callSuper': return '.callSuper %s %s %s' % (lstrs(op[1]), lstrs(op[2]), 'true' if op[3] else 'false')
  if k in ('setKeys', 'addKeys'): return '.%s %s' % (k, lstrs(op[1]))
  if k == 'removeKey': return '.removeKey %s' % ls(op[1])
  if k in ('addVarkwKeys', 'setattrVarkw'): return '.' + k
  return '.unknown %s' % ls(op[1])


def ldump_op(op):
  k = op[0]
  if k in ('fromKeys', 'fromSuper'): return '.' + k
  if k in ('literal', 'update', 'remove', 'overwrite'): return '.%s %s' % (k, lstrs(op[1]))
  return '.unknown %s' % ls(op[1])


def emit(recs, problems):
  out = ['import DK.Model.Serial',
         '/-! GENERATED by vk/translate_classes.py from the current source of device_kit — do not edit.',
         'Structural table of every shipped device / set class (tie T1 for C16). -/',
         'namespace DK.Gen', 'open DK.Serial', '']
  for p in problems:
    out.append('-- EXTRACTION PROBLEM: ' + p.replace('\n', ' '))
  names = []
  for r in recs:
    nm = 'cls_' + r['name']
    names.append(nm)
    out.append('/-- `%s` (%s) -/' % (r['name'], r['where']))
    out.append('def %s : ClassInfo :=' % nm)
    out.append('  { name := %s, bases := %s, abstract := %s,' % (ls(r['name']), lstrs(r['bases']), 'true' if r['abstract'] else 'false'))
    if r['init'] is None:
      out.append('    init := none,')
    else:
      i = r['init']
      out.append('    init := some {')
      out.append('      params := %s,' % lparams(i['params']))
      out.append('      varkw := %s,' % lopt(i['varkw']))
      out.append('      ops := [' + (',\n              '.join(linit_op(o) for o in i['ops'])) + '] },')
    if r['dump'] is None:
      out.append('    dump := none,')
    else:
      out.append('    dump := some [' + (',\n                  '.join(ldump_op(o) for o in r['dump'])) + '],')
    fd = r.get('from_dict')
    out.append('    fromDict := %s,' % ('none' if fd is None else '(some .ctorOfDict)' if fd[0] == 'ctorOfDict' else '(some (.other %s))' % ls(fd[1])))
    out.append('    props := %s,' % lstrs(r['props']))
    out.append('    setters := %s,' % lstrs(r['setters']))
    out.append('    sigParams := %s, sigVarkw := %s }' % (lparams(r['sig_params']), lopt(r['sig_varkw'])))
    out.append('')
  out.append('def classes : Table := [' + ', '.join(names) + ']')
  out.append('')
  out.append('/-- problems the extractor met (must be empty: `DK.C16.extraction_clean`). -/')
  out.append('def extractionProblems : List String := ' + lstrs(problems))
  out += ['', 'end DK.Gen', '']
  return '\n'.join(out)


# ---------------------------------------------------------------- the same checks in Python (diagnosis only)
def diagnose(recs):
  """Human-readable reasons why the table theorems would fail; mirrors DK/Model/Serial.lean. Used for the
  evidence / replay text only — the verdict is Lean's."""
  by = {r['name']: r for r in recs}
  msgs = []

  def mro(r): return [r] + [by[b] for b in r['bases'] if b in by]

  def first(chain, key):
    for i, c in enumerate(chain):
      if c[key] is not None:
        return c[key], chain[i + 1:]
    return None, []

  def settable(r, k):
    for c in mro(r):
      if k in c['props']:
        return k in c['setters']
    return True

  def run_init(r, chain, npos, kws, st):
    ii, rest = first(chain, 'init')
    if ii is None:
      if npos or kws: st['ok'] = False; st['why'].append('object.__init__ receives arguments')
      return
    named = [n for n, _ in ii['params']]
    extra = [k for k in kws if k not in named]
    if npos > len(named): st['ok'] = False; st['why'].append('too many positional arguments')
    for i, (n, d) in enumerate(ii['params']):
      if not d and i >= npos and n not in kws:
        st['ok'] = False; st['why'].append('required argument %r not supplied' % n)
    if extra and not ii['varkw']:
      st['ok'] = False; st['why'].append('unexpected keyword argument(s) %s' % extra)
    for op in ii['ops']:
      k = op[0]
      if k == 'callSuper': run_init(r, rest, len(op[1]), op[2] + (extra if op[3] else []), st)
      elif k == 'setKeys': st['keys'] = list(op[1])
      elif k == 'addKeys': st['keys'] = None if st['keys'] is None else st['keys'] + op[1]
      elif k == 'addVarkwKeys': st['keys'] = None if st['keys'] is None else st['keys'] + extra
      elif k == 'removeKey':
        if st['keys'] is None or op[1] not in st['keys']: st['ok'] = False; st['why'].append('_keys.remove(%r) fails' % op[1])
        else: st['keys'].remove(op[1])
      elif k == 'setattrVarkw':
        st['attrs'] += extra
        for e in extra:
          if not settable(r, e): st['ok'] = False; st['why'].append('%r is a read-only property' % e)
      else: st['ok'] = False; st['why'].append('not understood: ' + op[1])

  def run_dump(chain, keys):
    ops, rest = first(chain, 'dump')
    if ops is None or any(o[0] == 'unknown' for o in ops):
      return None
    cur = None
    for o in ops:
      if o[0] == 'fromKeys': cur = None if keys is None else list(keys)
      elif o[0] == 'fromSuper': cur = run_dump(rest, keys)
      elif o[0] == 'literal': cur = list(o[1])
      elif o[0] == 'update': cur = None if cur is None else cur + [k for k in o[1] if k not in cur]
      elif o[0] == 'remove': cur = None if cur is None else [k for k in cur if k not in o[1]]
    return cur

  def dumped(r, kws):
    st = {'keys': None, 'attrs': [], 'ok': True, 'why': []}
    run_init(r, mro(r), 0, kws, st)
    if not st['ok']:
      return None, st
    return run_dump(mro(r), st['keys']), st

  for r in recs:
    if r['abstract']:
      continue
    ii, _ = first(mro(r), 'init')
    params = ii['params'] if ii else []
    varkw = ii['varkw'] if ii else None
    if params != r['sig_params'] or varkw != r['sig_varkw']:
      msgs.append('%s: AST constructor %s/**%s differs from inspect.signature %s/**%s' % (r['name'], params, varkw, r['sig_params'], r['sig_varkw']))
    allk = [n for n, _ in params]; req = [n for n, d in params if not d]
    calls = [req, allk] + ([allk + ['§kw']] if varkw else [])
    for kws in calls:
      d, st = dumped(r, kws)
      if d is None:
        msgs.append('%s: call with %s: %s' % (r['name'], kws, '; '.join(st['why']) or 'to_dict is not understood')); continue
      for k in d:
        if not (k in allk or (varkw and settable(r, k))):
          msgs.append('%s: to_dict dumps %r, which the constructor %s does not accept' % (r['name'], k, allk + (['**' + varkw] if varkw else [])))
      for k in allk:
        if k not in d:
          msgs.append('%s: constructor argument %r%s is not dumped by to_dict (keys %s)' % (r['name'], k, ' (required)' if k in req else '', d))
      for k in kws:
        if k not in d and k not in allk:
          msgs.append('%s: a key passed through **%s is not dumped (keys %s)' % (r['name'], varkw, d))
      d2, st2 = dumped(r, d)
      if d2 is None:
        msgs.append('%s: %s(**dump) with keys %s does not bind: %s' % (r['name'], r['name'], d, '; '.join(st2['why'])))
      elif d2 != d:
        msgs.append('%s: the twin dumps %s, the original %s' % (r['name'], d2, d))
    if varkw:
      _, st = dumped(r, allk + ['§kw'])
      if '§kw' not in st['attrs']:
        msgs.append('%s: a key passed through **%s is never assigned on the instance' % (r['name'], varkw))
  for r in recs:
    if not r['abstract']:
      fd = next((c['from_dict'] for c in mro(r) if c.get('from_dict') is not None), None)
      if fd is None or fd[0] != 'ctorOfDict':
        msgs.append('%s: from_dict is not `return cls(**d)`%s' % (r['name'], '' if fd is None else ' (' + fd[1] + ')'))
  seen = []
  for m in msgs:
    if m not in seen:
      seen.append(m)
  return seen


# ---------------------------------------------------------------- entry
def write_if_changed(path, text):
  os.makedirs(os.path.dirname(path), exist_ok=True)
  old = open(path).read() if os.path.exists(path) else None
  if old != text:
    tmp = path + '.tmp%d' % os.getpid()
    open(tmp, 'w').write(text)
    os.replace(tmp, path)
    return True
  return False


_cache = {}


def extract_isolated(repo):
  """run `extract` in a fresh interpreter: `device_kit` may already be imported in this process from ANOTHER
  checkout (check.py regenerates from /repo after a run against a scratch DK_REPO), and the extraction must
  describe exactly the checkout it is asked about."""
  import subprocess
  r = subprocess.run([sys.executable, os.path.abspath(__file__), '--extract', repo], capture_output=True, text=True, timeout=300)
  if r.returncode != 0:
    raise AssertionError('class-table extraction from %s failed: %s' % (repo, (r.stderr or r.stdout)[-1500:]))
  d = json.loads(r.stdout)
  recs = d['records']
  for rec in recs:     # JSON turned the tuples into lists
    rec['sig_params'] = [tuple(x) for x in rec['sig_params']]
    if rec['init'] is not None:
      rec['init']['params'] = [tuple(x) for x in rec['init']['params']]
      rec['init']['ops'] = [tuple(x) for x in rec['init']['ops']]
    if rec['dump'] is not None:
      rec['dump'] = [tuple(x) for x in rec['dump']]
    if rec.get('from_dict') is not None:
      rec['from_dict'] = tuple(rec['from_dict'])
  return recs, d['problems']


def not_understood(recs):
  """`.unknown` steps, as text: these make the table theorems fail (the unit is outside the understood subset)."""
  out = []
  for r in recs:
    for o in ((r['init'] or {}).get('ops') or []):
      if o[0] == 'unknown': out.append('%s.__init__ @ %s' % (r['name'], o[1]))
    for o in (r['dump'] or []):
      if o[0] == 'unknown': out.append('%s.to_dict @ %s' % (r['name'], o[1]))
    if r.get('from_dict') is not None and r['from_dict'][0] == 'other':
      out.append('%s.from_dict @ %s' % (r['name'], r['from_dict'][1]))
  return out


def regenerate(repo=None):
  """T1 for the class table: extract from `repo` (default DK_REPO), write lean/DK/Gen/Classes.lean only if its
  text changed. Returns {'changed', 't1_units', 't1_fallback_units', …} (interface of vk.translate.regenerate_all);
  the result is cached per checkout path and source mtimes, so a check run extracts once."""
  if repo is None:
    from .common import REPO
    repo = REPO
  repo = os.path.realpath(repo)
  pkg = os.path.join(repo, 'device_kit')
  stamp = tuple(sorted((f, os.stat(os.path.join(pkg, f)).st_mtime_ns) for f in os.listdir(pkg) if f.endswith('.py')))
  hit = _cache.get(repo)
  if hit is None or hit[0] != stamp:
    recs, problems = extract_isolated(repo)
    hit = (stamp, recs, problems)
    _cache[repo] = hit
  _, recs, problems = hit
  changed = write_if_changed(os.path.join(GEN, 'Classes.lean'), emit(recs, problems))
  return {'changed': changed, 't1_units': ['%s @ %s' % (r['name'], r['where']) for r in recs],
          't1_fallback_units': list(problems) + not_understood(recs),
          'classes': [r['name'] for r in recs], 'problems': problems, 'diagnosis': diagnose(recs), 'records': recs}


if __name__ == '__main__':
  if len(sys.argv) == 3 and sys.argv[1] == '--extract':
    recs, problems = extract(sys.argv[2])
    print(json.dumps({'records': recs, 'problems': problems}))
  else:
    sys.path.insert(0, os.path.dirname(HERE))
    from vk import translate_classes as _tc     # so that relative imports work when run as a script
    r = _tc.regenerate(sys.argv[1] if len(sys.argv) > 1 else None)
    print(json.dumps({k: v for k, v in r.items() if k != 'records'}, indent=1))
