"""setup helper: import the repository once (compiles .pyc, warms numpy/scipy) and check the Lean driver answers."""
from . import common as C
C.repo()
out = C.run_model([{'op': 'kern', 'f': 'm.hlq_cost', 'args': ['1/2', '-2', '-1', '0', '2']}])
assert out == [{'ok': '49/16'}], out
print('warmup ok')
