"""C12 (statelessness over histories): description-first generation of worlds + histories, the
heap-world description sent to the Lean model (`DK/Model/History.lean`), and a builder of the real
objects that keeps a handle (and a snapshot) on every array / list the "caller" passes in.

A *case* is {'tree': T, 'n': n, 'ops': [...]}.  `T` is a gen.gen_tree-style description
(leaf / mf / node) whose devices carry integer ids (`hid`; an adaptor also has `whid` for the wrapped
device and `fhids` for its conduit devices).  `Walk(T, n, build=False)` derives, from the description
alone, the model's world (own-constraint lists, user dict cells, Poly2D objects, lru keys, caller
cells); `Walk(..., build=True)` runs the *same* walk and additionally constructs the real objects.
"""
import copy, os
from fractions import Fraction
from . import common as C, gen, build
from .common import F, fs, dy, pf

TAGS = {'device': 0, 'sdevice': 1, 'deviceset': 2, 'subbalanceddeviceset': 3, 'tworatiomfdeviceset': 4}


def _np():
  import numpy as np
  return np


# ---------------------------------------------------------------- snapshots of caller data
def snap(x):
  np = _np()
  if isinstance(x, np.ndarray):
    return x.copy()
  if isinstance(x, list):
    return [snap(v) for v in x]
  if isinstance(x, tuple):
    return tuple(snap(v) for v in x)
  if isinstance(x, dict):
    return {k: snap(v) for k, v in x.items()}
  return x          # numbers, strings, None, callables, device objects: by identity / value


def same(x, s):
  np = _np()
  if isinstance(s, np.ndarray):
    return isinstance(x, np.ndarray) and x.shape == s.shape and x.dtype == s.dtype and bool(np.array_equal(x, s, equal_nan=(s.dtype.kind == 'f')))
  if isinstance(s, (list, tuple)):
    return type(x) is type(s) and len(x) == len(s) and all(same(a, b) for a, b in zip(x, s))
  if isinstance(s, dict):
    return isinstance(x, dict) and list(x.keys()) == list(s.keys()) and all(same(x[k], s[k]) for k in s)
  if callable(s) or hasattr(s, 'to_dict'):
    return x is s
  if isinstance(s, float) and s != s:
    return isinstance(x, float) and x != x
  return type(x) is type(s) and x == s


# ---------------------------------------------------------------- description helpers
def fn_polys(f):
  """number of Poly2D / Poly2DOffset objects of a function description, in evaluation order."""
  if f['k'] == 'poly':
    return 1
  return sum(fn_polys(f[x]) for x in ('f', 'g') if x in f)


def live_polys(f):
  """the Poly2D / Poly2DOffset objects reachable from a live function, same order as fn_polys."""
  C.repo()
  from device_kit import functions as Fm
  if isinstance(f, (Fm.Poly2D, Fm.Poly2DOffset)):
    return [f]
  out = []
  if isinstance(f, (Fm.SumFunction, Fm.RangesFunction, Fm.X2D)):
    for g in f.functions:
      out += live_polys(g)
  elif isinstance(f, Fm.ReflectedFunction):
    out += live_polys(f.function)
  elif isinstance(f, Fm.InnerSumFunction):
    out += live_polys(f.outer_function)
  return out


def own_cb(d):
  return [[TAGS['device'], False, True]]*(2*len(d.get('cbs') or []))


def own_leaf(d):
  n = d['n']
  own = own_cb(d)
  if d['cls'] == 'SDevice':
    rc = d['prm'].get('rate_clip') or [None, None]
    own = own + [[TAGS['sdevice'], False, True]]*(2*n)
    if rc[0]:
      own = own + [[TAGS['sdevice'], False, False]]*n
    if rc[1]:
      own = own + [[TAGS['sdevice'], False, False]]*n
    own = own + [[TAGS['sdevice'], False, True]]
  return own


def own_sbounds(pairs):
  out = []
  for lo, hi in pairs:
    if F(lo) == F(hi):
      out.append([TAGS['deviceset'], True, True])
    else:
      out += [[TAGS['deviceset'], False, True]]*2
  return out


def leaf_fixed(d):
  return all(F(a) == F(b) for a, b in zip(d['lb'], d['hb']))


def mf_neg(d):
  return any(F(x) < 0 for x in d['lb'])


def flow_box(d):
  n = d['n']
  if mf_neg(d):
    return [F(x) for x in d['lb']], [F(0)]*n
  return [F(0)]*n, [F(x) for x in d['hb']]


class Walk:
  """one walk over the description: the model world, and (build=True) the real objects."""

  def __init__(self, T, n, build_objects=False, hook=None):
    """`hook(hid)` is called right after device `hid` has been constructed (its parents do not exist yet)."""
    self.n = n
    self.build = build_objects
    self.hook = hook
    self.cells = []          # [name, obj, snapshot, owner class]   (obj None when not building)
    self.udicts = []         # [isEq, hasJac] per user dict cell
    self.udict_objs = []     # live dict objects
    self.reg = {}            # id(callable) -> token of the caller's original closures
    self.keep = []           # keep the registered callables alive (ids must stay unique)
    self.ulists = {}         # id(user constraint list) -> the dict objects it held when it was passed in
    self.polys = []          # live poly objects (index = model id)
    self.npolys = 0
    self.live = {}           # hid -> live object
    self.desc = {}           # hid -> ('leaf'|'mf'|'node'|'flow', description, extra)
    self.scodes = {}         # sustainment string -> code
    self.mats = []           # (hid, (code, n), sustainment string)
    self.root = self.dev(T)
    self.nctor = len(self.cells)

  # -- cells
  def cell(self, name, thunk, owner):
    obj = thunk() if self.build else None
    self.cells.append([name, obj, snap(obj), owner])
    return len(self.cells) - 1, obj

  def scode(self, s):
    if F(s) == 1:
      return 0
    return self.scodes.setdefault(fs(F(s)), len(self.scodes) + 1)

  # -- leaves
  def leaf_args(self, d, owner):
    """constructor arguments of a leaf in the forms chosen by the description; registers the cells."""
    np = _np()
    py = d.get('_py', {})
    lst = bool(py.get('blist'))
    lb = [pf(x) for x in d['lb']]; hb = [pf(x) for x in d['hb']]
    form = py.get('bform', 'pair')
    def mk_bounds():
      if form == 'scalar':
        return [lb[0], hb[0]] if lst else (lb[0], hb[0])
      if form == 'table':
        return [[a, b] for a, b in zip(lb, hb)] if lst else np.stack((np.array(lb), np.array(hb)), axis=1)
      return [list(lb), list(hb)] if lst else (np.array(lb), np.array(hb))
    refs = []
    _, b = self.cell('bounds', mk_bounds, owner)
    cb = None
    cform = py.get('cform')
    if d.get('cbs') and cform is not None:
      def mk_cb():
        cbs = [(pf(c[0]), pf(c[1]), int(c[2]), int(c[3])) for c in d['cbs']]
        if cform == '2tuple':
          return [cbs[0][0], cbs[0][1]] if lst else (cbs[0][0], cbs[0][1])
        return [list(c) for c in cbs] if lst else list(cbs)
      _, cb = self.cell('cbounds', mk_cb, owner)
    kw = {}
    p = d.get('prm', {})
    def vec(key, byref):
      v = p[key]
      if isinstance(v, list):
        cid, obj = self.cell(key, lambda: ([pf(x) for x in v] if lst else np.array([pf(x) for x in v])), owner)
        if byref:
          refs.append(cid)
        return obj
      return pf(v) if self.build else None
    return b, cb, kw, refs, vec

  def leaf(self, t, hid, d, id_):
    np = _np()
    cls = d['cls']; n = d['n']; p = d.get('prm', {})
    b, cb, kw, refs, vec = self.leaf_args(d, cls)
    info = {'k': 'leaf', 'id': hid, 'own': own_leaf(d), 'ucons': [], 'polys': [], 'mat': None, 'fixed': leaf_fixed(d), 'refs': refs}
    obj = None
    dk = C.repo() if self.build else None
    if cls in ('Device', 'PVDevice'):
      if self.build:
        obj = getattr(dk, cls)(id_, n, b, cb)
    elif cls == 'CDevice':
      if self.build:
        obj = dk.CDevice(id_, n, b, cb, a=pf(p['a']), b=pf(p['b']))
    elif cls == 'CDevice2':
      pl = vec('p_l', False); ph = vec('p_h', False)
      if self.build:
        obj = dk.CDevice2(id_, n, b, cb, p_l=pl, p_h=ph)
    elif cls == 'IDevice':
      a_ = vec('a', True); b_ = vec('b', True); c_ = vec('c', True)
      if self.build:
        obj = dk.IDevice(id_, n, b, cb, a=a_, b=b_, c=c_)
    elif cls == 'IDevice2':
      pl = vec('p_l', False); ph = vec('p_h', False)
      if self.build:
        obj = dk.IDevice2(id_, n, b, cb, p_l=pl, p_h=ph)
    elif cls == 'GDevice':
      cc = p['cost_coeffs']
      cid, ccv = self.cell('cost_coeffs', lambda: ([[pf(x) for x in row] for row in cc] if isinstance(cc[0], list) else [pf(x) for x in cc]), cls)
      refs.append(cid)
      if self.build:
        obj = dk.GDevice(id_, n, b, cb, cost_coeffs=ccv)
    elif cls == 'SDevice':
      info['mat'] = [self.scode(p.get('sustainment', '1')), n]
      if self.build:
        kws = {k: pf(v) for k, v in p.items() if k != 'rate_clip'}
        if 'rate_clip' in p:
          kws['rate_clip'] = tuple(None if x is None else pf(x) for x in p['rate_clip'])
        obj = dk.SDevice(id_, n, b, cb, **kws)
    elif cls == 'TDevice':
      info['mat'] = [self.scode(p['sustainment']), n]
      cid, te = self.cell('t_external', lambda: np.array([pf(x) for x in p['t_external']]), cls)
      refs.append(cid)
      c_ = vec('c', True)
      if self.build:
        obj = dk.TDevice(id_, n, b, pf(p['sustainment']), pf(p['efficiency']), pf(p['t_init']), pf(p['t_optimal']), pf(p['t_range']), te, c=c_, cbounds=cb)
    elif cls == 'ADevice':
      k = fn_polys(p['f']) if 'f' in p else 0
      info['polys'] = list(range(self.npolys, self.npolys + k))
      self.npolys += k
      akw = {}
      if self.build and 'f' in p:
        akw['f'] = build.build_fn(build.annotate_fn(copy.deepcopy(p['f']), n))
        lp = live_polys(akw['f'])
        assert len(lp) == k, 'poly objects: description %d, live %d' % (k, len(lp))
        self.polys += lp
      if 'ucons' in d:
        first = len(self.udicts)
        for u in d['ucons']:
          self.udicts.append([u['type'] == 'eq', bool(u.get('jac', True))])
        info['ucons'] = list(range(first, len(self.udicts)))
        def mk_ucons():
          lst_ = build.build_ucons(d['ucons'])
          for j, con in enumerate(lst_):
            self.reg[id(con['fun'])] = [10, first + j]; self.keep.append(con['fun'])
            if 'jac' in con:
              self.reg[id(con['jac'])] = [11, first + j]; self.keep.append(con['jac'])
            self.udict_objs.append(con)
          self.ulists[id(lst_)] = list(lst_)
          return lst_
        _, ul = self.cell('constraints', mk_ucons, cls)
        akw['constraints'] = ul
      if self.build:
        obj = dk.ADevice(id_, n, b, cb, **akw)
    else:
      raise ValueError('unknown class ' + cls)
    if info['mat'] is not None:
      self.mats.append((hid, tuple(info['mat']), p.get('sustainment', '1')))
    self.live[hid] = obj
    self.desc[hid] = ('leaf', d, None)
    if self.hook:
      self.hook(self, hid)
    return info

  # -- recursion
  def dev(self, t):
    np = _np()
    n = self.n
    dk = C.repo() if self.build else None
    if t['k'] == 'leaf':
      return self.leaf(t, t['hid'], t['dev'], t['id'])
    if t['k'] == 'mf':
      d = t['dev']
      w = self.leaf(t, t['whid'], d, t['id'])
      refs = []
      cid, flows = self.cell('flows', lambda: list(t['flows']), 'MFDeviceSet'); refs.append(cid)
      ratio = []
      ratios = None
      if t.get('ratios'):
        cid, ratios = self.cell('ratios', lambda: [pf(x) for x in t['ratios']], 'TwoRatioMFDeviceSet'); refs.append(cid)
        ratio = [[TAGS['tworatiomfdeviceset'], t.get('ctype', 'eq') == 'eq', True]]*n
      fixed = (not mf_neg(d)) and all(F(x) == 0 for x in d['hb'])
      info = {'k': 'mf', 'id': t['hid'], 'flows': list(t['fhids']), 'sb': own_sbounds(zip(d['lb'], d['hb'])), 'ratio': ratio,
              'fixed': fixed, 'refs': refs, 'w': w}
      obj = None
      if self.build:
        wrapped = self.live[t['whid']]
        obj = dk.TwoRatioMFDeviceSet(wrapped, flows, ratios, t.get('ctype', 'eq')) if t.get('ratios') else dk.MFDeviceSet(wrapped, flows)
        for fh, fd in zip(t['fhids'], obj.devices):
          self.live[fh] = fd
      for fh in t['fhids']:
        self.desc[fh] = ('flow', d, None)
      self.live[t['hid']] = obj
      self.desc[t['hid']] = ('mf', t, None)
      if self.hook:
        for fh in t['fhids']:
          self.hook(self, fh)
        self.hook(self, t["hid"])
      return info
    # node
    ch = [self.dev(c) for c in t['ch']]
    refs = []
    kids = [self.live[c['hid']] for c in t['ch']] if self.build else None
    cid, kids = self.cell('devices', lambda: kids, 'DeviceSet'); refs.append(cid)
    sb = None
    own = []
    if t.get('sb') is not None:
      _, sb = self.cell('sbounds', lambda: np.array([[pf(a), pf(b)] for a, b in t['sb']]), 'DeviceSet')
      own += own_sbounds(t['sb'])
    obj = None
    if t.get('sub'):
      cid, labels = self.cell('labels', lambda: list(t.get('labels', [])), 'SubBalancedDeviceSet'); refs.append(cid)
      nsets = len(t.get('labels', [])) + (1 if t.get('rem') else 0)
      own += [[TAGS['subbalanceddeviceset'], t.get('ctype', 'eq') == 'eq', False]]*(nsets*n)
      if self.build:
        obj = dk.SubBalancedDeviceSet(t['id'], kids, sb, labels=labels, constraint_type=t.get('ctype', 'eq'),
                                      sign=pf(t.get('sign', '1')), apply_to_remaining=bool(t.get('rem', False)))
    elif self.build:
      obj = dk.DeviceSet(t['id'], kids, sb)
    self.live[t['hid']] = obj
    self.desc[t['hid']] = ('node', t, None)
    if self.hook:
      self.hook(self, t["hid"])
    return {'k': 'node', 'id': t['hid'], 'own': own, 'refs': refs, 'ch': ch}

  def world(self, ncaller):
    return {'root': self.root, 'udicts': self.udicts, 'npolys': self.npolys, 'ncaller': ncaller}


# ---------------------------------------------------------------- mirrors of the model's traversals on the world JSON
def w_find(dev, t):
  if dev['k'] == 'leaf':
    return dev if dev['id'] == t else None
  if dev['k'] == 'mf':
    if dev['id'] == t:
      return dev
    if t in dev['flows']:
      return {'k': 'leaf', 'id': t, 'own': [], 'ucons': [], 'polys': [], 'mat': None, 'fixed': False, 'refs': []}
    return w_find(dev['w'], t)
  if dev['id'] == t:
    return dev
  for c in dev['ch']:
    r = w_find(c, t)
    if r is not None:
      return r
  return None


def w_leaves(dev):
  if dev['k'] == 'leaf':
    return [dev]
  if dev['k'] == 'mf':
    return w_leaves(dev['w'])
  out = []
  for c in dev['ch']:
    out += w_leaves(c)
  return out


def w_refs(dev):
  if dev['k'] == 'leaf':
    return list(dev['refs'])
  if dev['k'] == 'mf':
    return list(dev['refs']) + w_refs(dev['w'])
  out = list(dev['refs'])
  for c in dev['ch']:
    out += w_refs(c)
  return out


def w_fixed(dev):
  if dev['k'] in ('leaf', 'mf'):
    return bool(dev['fixed'])
  return all(w_fixed(c) for c in dev['ch'])


def w_ncons(dev):
  if dev['k'] == 'leaf':
    return len(dev['own']) + len(dev['ucons'])
  if dev['k'] == 'mf':
    return len(dev['sb']) + w_ncons(dev['w']) + len(dev['ratio'])
  return sum(w_ncons(c) for c in dev['ch']) + len(dev['own'])


def w_rows(dev):
  if dev['k'] == 'leaf':
    return 1
  if dev['k'] == 'mf':
    return len(dev['flows'])
  return sum(w_rows(c) for c in dev['ch'])


def w_ids(dev):
  """(hid, role) of every addressable device."""
  if dev['k'] == 'leaf':
    return [(dev['id'], 'leaf')]
  if dev['k'] == 'mf':
    return [(dev['id'], 'mf')] + [(f, 'flow') for f in dev['flows']] + [(dev['w']['id'], 'wrapped')]
  out = [(dev['id'], 'node')]
  for c in dev['ch']:
    out += w_ids(c)
  return out


# ---------------------------------------------------------------- generation
def assign_ids(t, counter):
  t['hid'] = counter[0]; counter[0] += 1
  if t['k'] == 'mf':
    t['fhids'] = []
    for _ in t['flows']:
      t['fhids'].append(counter[0]); counter[0] += 1
    t['whid'] = counter[0]; counter[0] += 1
  for c in t.get('ch', []):
    assign_ids(c, counter)


def each_dev(t):
  if t['k'] in ('leaf', 'mf'):
    yield t
  for c in t.get('ch', []):
    yield from each_dev(c)


def adevice_poly(rng, n, sign='+', ucons=True):
  """an ADevice whose f certainly contains Poly2D / Poly2DOffset objects, with user constraints."""
  d = gen.gen_leaf(rng, 'quick', ['ADevice'], n=n)
  for _ in range(20):
    lb = [F(x) for x in d['lb']]; hb = [F(x) for x in d['hb']]
    if fn_polys(d['prm']['f']) > 0 and not (any(x < 0 for x in lb) and any(x > 0 for x in hb)):
      break
    d = gen.gen_leaf(rng, 'quick', ['ADevice'], n=n)
  else:
    d = gen.gen_leaf(rng, 'quick', ['ADevice'], n=n)
    lb, hb = gen.gen_bounds(rng, n, sign='+')
    d['lb'] = [fs(x) for x in lb]; d['hb'] = [fs(x) for x in hb]; d['cbs'] = []; d['_py']['cform'] = None
    d['_py']['bform'] = 'table'
    d['prm']['f'] = {'k': 'add', 'f': {'k': 'poly', 'cs': [[fs(dy(rng, 0, 2)), fs(dy(rng, -2, 2)), '0'] for _ in range(n)], 'off': '0'},
                     'g': {'k': 'poly', 'cs': [[fs(dy(rng, 0, 2)), fs(dy(rng, -2, 2)), fs(dy(rng, -2, 2))] for _ in range(n)],
                           'off': [fs(dy(rng, -2, 2)) for _ in range(n)], '_offset': True}}
  if ucons:
    d['ucons'] = gen.gen_ucons(rng, n, [F(x) for x in d['lb']], [F(x) for x in d['hb']])
  return d


def cubic_adevice(rng, n):
  """an ADevice whose f is a sum of a cubic Poly2D and a Poly2DOffset (second derivative not constant)."""
  d = gen.gen_leaf(rng, 'quick', ['ADevice'], n=n)
  lb, hb = gen.gen_bounds(rng, n, sign='+')
  d['lb'] = [fs(x) for x in lb]; d['hb'] = [fs(x) for x in hb]; d['cbs'] = []; d['_py']['cform'] = None; d['_py']['bform'] = 'table'
  d['prm']['f'] = {'k': 'add', 'f': {'k': 'poly', 'cs': [[fs(dy(rng, 1, 8, 2)/4), fs(dy(rng, 0, 2)), fs(dy(rng, -2, 2)), '0'] for _ in range(n)], 'off': '0'},
                   'g': {'k': 'poly', 'cs': [[fs(dy(rng, 0, 2)), fs(dy(rng, -2, 2)), fs(dy(rng, -2, 2))] for _ in range(n)],
                         'off': [fs(dy(rng, -2, 2)) for _ in range(n)], '_offset': True}}
  d['ucons'] = gen.gen_ucons(rng, n, lb, hb)
  return d


def gen_world(rng, tier, force_cls=None):
  n = rng.choice([1, 2, 3, 3, 4, 5] if tier == 'quick' else [1, 2, 3, 4, 5, 6, 7, 8])
  kind = rng.choice(['tree']*6 + ['leaf']*2 + ['mf']*2)
  if force_cls is not None:
    n = rng.choice([2, 3, 4])
    kind = 'forced'
    if force_cls == 'ADevice':
      d = cubic_adevice(rng, n)
    elif force_cls == 'ADevice0':            # no f given: the class-level default NullFunction instance
      d = gen.gen_leaf(rng, tier, ['ADevice'], n=n); d['prm'].pop('f', None)
    else:
      d = gen.gen_leaf(rng, tier, [force_cls], n=n)
      if force_cls == 'GDevice' and not isinstance(d['prm']['cost_coeffs'][0], list):
        d['prm']['cost_coeffs'] = [[fs(dy(rng, 1, 4)/4), fs(dy(rng, 0, 2)), fs(dy(rng, 0, 2)), '0'] for _ in range(n)]   # per-slot cubics
    T = {'k': 'leaf', 'id': 'd1', 'dev': d}
  elif kind == 'tree':
    T, n = gen.gen_tree(rng, tier, n=n, depth=rng.choice([1, 1, 2, 2, 3]), want_mf=True if rng.random() < 0.6 else None)
    if rng.random() < 0.6:
      # an adaptor over an ADevice with user constraints and cached polynomials (the anchor of the property)
      k = rng.choice([1, 2, 2, 3])
      m = {'k': 'mf', 'id': 'mx', 'dev': adevice_poly(rng, n), 'flows': ['e', 'h', 'g'][:k], 'ratios': None}
      if k == 2 and rng.random() < 0.4:
        m['ratios'] = [fs(dy(rng, 1, 3)), fs(dy(rng, 1, 3))]; m['ctype'] = rng.choice(['eq', 'ineq'])
      T['ch'].insert(rng.randint(0, len(T['ch'])), m)
    if rng.random() < 0.3:
      T['ch'].append({'k': 'leaf', 'id': 'ax', 'dev': adevice_poly(rng, n, ucons=rng.random() < 0.7)})
  elif kind == 'leaf':
    cls = rng.choice(gen.LEAF_CLASSES)
    d = adevice_poly(rng, n) if (cls == 'ADevice' and rng.random() < 0.7) else gen.gen_leaf(rng, tier, [cls], n=n)
    if cls == 'ADevice' and 'ucons' not in d and rng.random() < 0.5:
      d['ucons'] = gen.gen_ucons(rng, n, [F(x) for x in d['lb']], [F(x) for x in d['hb']])
    T = {'k': 'leaf', 'id': 'd1', 'dev': d}
  else:
    if rng.random() < 0.7:
      d = adevice_poly(rng, n)
    else:
      cls = rng.choice(['Device', 'CDevice', 'CDevice2', 'IDevice', 'IDevice2', 'GDevice', 'PVDevice'])
      d = gen.gen_leaf(rng, tier, [cls], n=n)
      lb = [F(x) for x in d['lb']]; hb = [F(x) for x in d['hb']]
      if any(x < 0 for x in lb) and any(x > 0 for x in hb):
        d = gen.gen_leaf(rng, tier, ['IDevice2'], n=n)
    k = rng.choice([1, 2, 2, 3])
    T = {'k': 'mf', 'id': 'm1', 'dev': d, 'flows': ['e', 'h', 'g'][:k], 'ratios': None}
    if k == 2 and rng.random() < 0.4:
      T['ratios'] = [fs(dy(rng, 1, 3)), fs(dy(rng, 1, 3))]; T['ctype'] = rng.choice(['eq', 'ineq'])
  for b in each_dev(T):
    b['dev'].setdefault('_py', {})['blist'] = rng.random() < 0.6
    if force_cls is None and b['dev']['cls'] == 'ADevice' and b['id'] not in ('mx', 'ax') and rng.random() < 0.2:
      b['dev']['prm'].pop('f', None)        # default f: one NullFunction instance shared by every such ADevice
    if b['dev']['n'] == 2 and b['dev']['_py'].get('bform') == 'pair':
      b['dev']['_py']['bform'] = 'table'
  assign_ids(T, [0])
  return T, n


def target_box(walk, hid, n):
  """(rows, lb, hb) of the flow box of device `hid`, from the descriptions."""
  kind, d, _ = walk.desc[hid]
  if kind == 'leaf':
    return 1, [F(x) for x in d['lb']], [F(x) for x in d['hb']]
  if kind == 'flow':
    lb, hb = flow_box(d)
    return 1, lb, hb
  lb, hb = gen.tree_box(d, n)
  return gen.tree_rows(d), lb, hb


OPS = (['cost']*10 + ['deriv']*12 + ['hess']*3 + ['bounds']*5 + ['readConstraints']*14 + ['callFun']*10 + ['callJac']*8 +
       ['project']*6 + ['map']*4 + ['toDict']*5 + ['leafDevices']*5 + ['solve']*6 + ['step']*3 + ['uproject']*3 + ['cacheClear']*3)
EARLY_OPS = ['leafDevices', 'leafDevices', 'map', 'toDict', 'bounds', 'readConstraints', 'project']
S_POS = {'cost': 0, 'deriv': 0, 'hess': 0, 'project': 0, 'map': 0, 'callFun': 0, 'callJac': 0, 'step': 1}   # position of the flow buffer
MUTABLE_RESULT = ('deriv', 'hess', 'bounds', 'readConstraints', 'project', 'map', 'toDict', 'leafDevices', 'solve', 'step', 'uproject', 'callJac')


def w_parents(dev, parent=None, out=None):
  out = {} if out is None else out
  out[dev['id']] = parent
  if dev['k'] == 'mf':
    for f in dev['flows']:
      out[f] = dev['id']
    w_parents(dev['w'], dev['id'], out)
  elif dev['k'] == 'node':
    for c in dev['ch']:
      w_parents(c, dev['id'], out)
  return out


def buf_shape(op):
  return 'flat' if op['o'] in ('callFun', 'callJac') else op.get('shape', 'mat')


def perturb(rng, flat, lb, hb):
  """C12 says nothing about feasibility of the arguments of read-only calls: push some entries out of the box and
  make some of them noise-sized (1e-12)."""
  out = list(flat)
  for i in rng.sample(range(len(out)), max(1, len(out)//3)):
    q = rng.random()
    if q < 0.35:
      out[i] = hb[i] + dy(rng, Fraction(1, 4), 2)
    elif q < 0.7:
      out[i] = lb[i] - dy(rng, Fraction(1, 4), 2)
    else:
      out[i] = Fraction(rng.choice([1, -1, 3]), 10**12)
  return out


def gen_ops(rng, tier, walk, world, n, count, nearly=0, directed=False):
  """the history (`count` draws; a draw may add a child-then-parent pair) and `nearly` operations executed on a
  device right after IT is constructed, i.e. before its parents exist."""
  ids = w_ids(world['root'])
  parents = w_parents(world['root'])
  weights = {'node': 4, 'mf': 5, 'wrapped': 5, 'leaf': 3, 'flow': 1}
  pool = []
  for hid, role in ids:
    pool += [hid]*weights[role]
  pool += [ids[0][0]]*max(3, len(pool)//3)
  ops = []
  cell = [walk.nctor]
  def price(rows):
    q = rng.random()
    if q < 0.35:
      return fs(dy(rng, -3, 3, 3))
    if q < 0.7 or rows == 1:
      return [fs(dy(rng, -3, 3, 3)) for _ in range(n)]
    return [[fs(dy(rng, -3, 3, 3)) for _ in range(n)] for _ in range(rows)]
  def mk_op(o, t, history, force_buf=False, shape=None, **fixed):
    dev = w_find(world['root'], t)
    rows, lb, hb = target_box(walk, t, n)
    # evaluations get interior flows (on a bound some shipped cost curves raise 0**negative — C10's subject, and a
    # raise in the middle of a tree evaluation is a partial evaluation the model does not describe)
    flat = gen.gen_flow(rng, lb, hb, 'interior' if o in ('cost', 'deriv', 'hess', 'solve', 'step') else None)
    if o in S_POS or o in ('solve', 'uproject'):
      if rng.random() < 0.3:
        flat = perturb(rng, flat, lb, hb)           # out-of-box / noise-sized entries: reads still must not write
    S = [[fs(x) for x in flat[r*n:(r + 1)*n]] for r in range(rows)]
    op = {'o': o, 't': t, 'rows': rows}
    if o in ('cost', 'deriv'):
      op.update({'s': S, 'p': price(rows), 'shape': shape or rng.choice(['mat', 'mat', 'flat'])}); k = 2
    elif o in ('hess', 'project', 'map'):
      op.update({'s': S, 'shape': 'mat' if o == 'map' else (shape or rng.choice(['mat', 'flat']))}); k = 1
    elif o in ('callFun', 'callJac'):
      nc = w_ncons(dev)
      op.update({'s': S, 'i': (rng.randrange(nc) if nc and rng.random() < 0.95 else nc)}); k = 1
    elif o == 'solve':
      # None = the documented defaults; an explicit dict must not leak into later default calls
      opts = None if rng.random() < 0.45 else {'maxiter': rng.choice([3, 15, 40]), 'ftol': rng.choice([1e-6, 1e-2, 1e-1])}
      # zero price: wherever a row has no cost of its own the minimiser is not unique and the start decides
      op.update({'p': '0' if rng.random() < 0.35 else price(rows), 's0': S if rng.random() < 0.5 else None, 'opts': opts,
                 'prox': fs(dy(rng, Fraction(1, 2), 4)) if rng.random() < 0.3 else None, 'cb': rng.random() < 0.2}); k = 3
      op.update(fixed)
    elif o == 'step':
      op.update({'p': price(rows), 's': S, 'stepsize': fs(dy(rng, 0, 2)), 'opts': None if rng.random() < 0.5 else {'maxiter': 20}}); k = 3
    elif o == 'uproject':
      x0 = gen.gen_flow(rng, lb, hb, 'interior')
      opts = None if rng.random() < 0.5 else {'maxiter': rng.choice([1, 30]), 'ftol': rng.choice([1e-9, 1e-2])}
      op.update({'s': S, 'x0': [fs(x) for x in x0], 'opts': opts}); k = 3
    else:
      k = 0
    if o in MUTABLE_RESULT and rng.random() < 0.3:
      op['mut'] = True          # the caller scribbles over what it was handed back
    a = list(range(cell[0], cell[0] + k)); cell[0] += k
    # re-use of one caller-owned buffer: the caller writes this op's flow INTO the array an earlier call on the same
    # device was given (in place) and passes that same ndarray again
    if history and o in S_POS and (force_buf or rng.random() < 0.45):
      for j in range(len(ops) - 1, -1, -1):
        q = ops[j]
        if q.get('t') == t and q['o'] in S_POS and buf_shape(q) == buf_shape(op):
          root = q.get('buf', j)
          op['buf'] = root
          ops[root]['isbuf'] = True      # a buffer the caller keeps writing flows into is a float array
          shared = ops[root]['a'][S_POS[ops[root]['o']]]
          a = list(range(a[0], a[0] + k - 1)); cell[0] -= 1
          a.insert(S_POS[o], shared)
          break
    op['a'] = a
    return op
  if directed:
    # every run re-uses one caller-owned buffer on every leaf class: write A, call, write B in place, call
    t = ids[0][0]
    for o in ('cost', 'deriv', 'hess', 'map', 'project', 'callFun', 'callJac', 'cost'):
      if o in ('callFun', 'callJac') and not w_ncons(w_find(world['root'], t)):
        continue
      ops.append(mk_op(o, t, True, shape='mat'))
      ops.append(mk_op(o, t, True, force_buf=True, shape='mat'))
  while len(ops) < count:
    o = rng.choice(OPS)
    if o == 'cacheClear':
      ops.append({'o': o}); continue
    t = rng.choice(pool)
    ops.append(mk_op(o, t, True))
    if o == 'solve' and ops[-1].get('prox') and rng.random() < 0.7:
      # a proximal solve, then a plain one at the same price without a start point
      ops.append(mk_op('solve', t, True, p=ops[-1]['p'], s0=None, prox=None, opts=None))
    if parents.get(t) is not None and len(ops) < count and rng.random() < 0.25:      # child first, then its parent / adaptor
      ops.append(mk_op(o, parents[t], True))
  early = []
  nonroot = [hid for hid, _ in ids[1:]]
  for _ in range(nearly if nonroot else 0):
    early.append(mk_op(rng.choice(EARLY_OPS), rng.choice(nonroot), False))
  return ops, early, cell[0]


DIRECTED_CLASSES = gen.LEAF_CLASSES + ['ADevice0']


def gen_case(rng, tier, force_cls=None):
  """`force_cls`: a single leaf of that class with the directed same-buffer pairs in front of the random history."""
  T, n = gen_world(rng, tier, force_cls)
  walk = Walk(T, n, False)
  world = walk.world(0)
  count = rng.randint(3, 12) if tier == 'quick' else rng.randint(5, 60)
  if force_cls is not None:
    count = 16 + rng.randint(0, 4)
  ops, early, ncell = gen_ops(rng, tier, walk, world, n, count, rng.choice([0, 0, 1, 2, 3]) if force_cls is None else 0, directed=force_cls is not None)
  return {'tree': T, 'n': n, 'ops': ops, 'early': early, 'ncaller': ncell}
