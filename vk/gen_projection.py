"""Description-first generators for C18 (convex regions, points, device-level projection).

A region description is the JSON object the Lean driver decodes (`lean/DK/Driver/Projection.lean`):
  {"k":"cube","lo":[..],"hi":[..]} | {"k":"half","nrm":[..],"o":q,"sign":q} |
  {"k":"slice","nrm":[..],"lo":q,"hi":q} | {"k":"inter","a":R,"b":R} |
  {"k":"list","axis":0|1,"rs":[R..]} | {"k":"minter","a":L,"b":L}
All numbers are dyadic rationals (protocol strings).  Regions are generated *around a reference
point* so that the point's relation to the region (inside / on the boundary / outside) is chosen,
not left to chance, while every offset stays dyadic (offset := normal.point + delta)."""
from fractions import Fraction
from .common import F, fs, dy

# integer vectors with an integer Euclidean norm (the code divides by sqrt(normal.normal))
PYTHAG = [(3, 4), (4, 3), (5, 12), (6, 8), (8, 15), (1, 2, 2), (2, 3, 6), (1, 4, 8), (2, 2, 1), (4, 4, 7), (1, 1, 1, 1), (2, 4, 5, 6)]
MODES = ['inside', 'boundary', 'outside', 'outside', 'random', 'near']
NEAR_BITS = [12, 20, 27]     # a `near` point is 2^-k inside or outside a face / plane of the region


def L(v):
  return [fs(x) for x in v]


def fdot(a, b):
  return sum((x*y for x, y in zip(a, b)), F(0))


def gen_point(rng, n, bits=2, span=6, integer=False):
  if integer:
    return [F(rng.randint(-span, span)) for _ in range(n)]
  return [dy(rng, -span, span, bits) for _ in range(n)]


def gen_normal(rng, n):
  """non-zero dyadic normal; ~35 % have a rational Euclidean norm."""
  if rng.random() < 0.35:
    cands = [t for t in PYTHAG if len(t) <= n]
    if n == 1 or not cands:
      v = [F(0)]*n
      v[rng.randrange(n)] = dy(rng, 1, 4)*rng.choice([1, -1])
      return v
    t = list(rng.choice(cands)) + [0]*n
    t = t[:n]
    rng.shuffle(t)
    sc = rng.choice([F(1), F(1), Fraction(1, 2), F(2), Fraction(1, 4)])
    return [F(x)*sc*rng.choice([1, -1]) for x in t]
  while True:
    v = [dy(rng, -3, 3) if rng.random() < 0.8 else F(0) for _ in range(n)]
    if any(x != 0 for x in v):
      return v


def gen_cube(rng, p, mode, degenerate=None):
  """a box placed relative to the point p (list of Fractions)."""
  n = len(p)
  if degenerate is None:
    degenerate = rng.random() < 0.2
  lo, hi = [], []
  for i in range(n):
    w = dy(rng, Fraction(1, 4), 4)
    if mode == 'inside':
      a = p[i] - w*Fraction(rng.randint(1, 7), 8); b = a + w
    elif mode == 'boundary':
      r = rng.random()
      if r < 0.4: a = p[i]; b = a + w
      elif r < 0.8: b = p[i]; a = b - w
      else: a = p[i] - w/2; b = a + w
    elif mode == 'outside':
      r = rng.random()
      if r < 0.4: a = p[i] + dy(rng, Fraction(1, 4), 3); b = a + w
      elif r < 0.8: b = p[i] - dy(rng, Fraction(1, 4), 3); a = b - w
      else: a = p[i] - w/2; b = a + w
    elif mode == 'near':
      a = p[i] - w*Fraction(rng.randint(1, 7), 8); b = a + w
    else:
      a = dy(rng, -4, 3); b = a + w
    lo.append(a); hi.append(b)
  if mode == 'near':
    k = rng.randrange(n); e = Fraction(1, 2**rng.choice(NEAR_BITS))*rng.choice([1, 1, -1])   # +: just outside, -: just inside
    if rng.random() < 0.5:
      lo[k] = p[k] + e; hi[k] = max(hi[k], lo[k] + Fraction(1, 4))
    else:
      hi[k] = p[k] - e; lo[k] = min(lo[k], hi[k] - Fraction(1, 4))
    degenerate = False
  if mode == 'outside' and all(l <= x <= h for l, x, h in zip(lo, p, hi)):
    k = rng.randrange(n); lo[k] = p[k] + 1; hi[k] = lo[k] + 1
  if degenerate:
    ks = [k for k in range(n) if rng.random() < 0.4] or [rng.randrange(n)]
    for k in ks:
      if mode in ('inside', 'boundary'):
        lo[k] = hi[k] = p[k]
      else:
        hi[k] = lo[k]
  return {'k': 'cube', 'lo': L(lo), 'hi': L(hi)}


def gen_half(rng, p, mode, sign=None):
  n = len(p)
  nrm = gen_normal(rng, n)
  sign = sign if sign is not None else rng.choice([F(1), F(-1), F(1), F(-1), F(2), Fraction(-1, 2)])
  sg = 1 if sign > 0 else -1
  d = fdot(nrm, p)
  delta = dy(rng, Fraction(1, 4), 4)
  if mode == 'inside': o = d - sg*delta            # sg*(d - o) = delta > 0
  elif mode == 'boundary': o = d
  elif mode == 'outside': o = d + sg*delta
  elif mode == 'near': o = d + sg*Fraction(1, 2**rng.choice(NEAR_BITS))*rng.choice([1, 1, -1])
  else: o = dy(rng, -6, 6)
  return {'k': 'half', 'nrm': L(nrm), 'o': fs(o), 'sign': fs(sign)}


def gen_slice(rng, p, mode):
  n = len(p)
  nrm = gen_normal(rng, n)
  d = fdot(nrm, p)
  w = F(0) if rng.random() < 0.2 else dy(rng, Fraction(1, 4), 4)
  delta = dy(rng, Fraction(1, 4), 4)
  if mode == 'inside':
    lo = d - w*Fraction(rng.randint(1, 7), 8)
  elif mode == 'boundary':
    lo = d if rng.random() < 0.5 else d - w
  elif mode == 'outside':
    lo = d + delta if rng.random() < 0.5 else d - w - delta
  elif mode == 'near':
    e = Fraction(1, 2**rng.choice(NEAR_BITS))*rng.choice([1, 1, -1])
    if w == 0:
      e = abs(e)
    lo = d + e if rng.random() < 0.5 else d - w - e
  else:
    lo = dy(rng, -6, 5)
  return {'k': 'slice', 'nrm': L(nrm), 'lo': fs(lo), 'hi': fs(lo + w)}


def gen_vregion(rng, p, mode, kinds=('cube', 'half', 'slice')):
  k = rng.choice(kinds)
  if k == 'cube': return gen_cube(rng, p, mode)
  if k == 'half': return gen_half(rng, p, mode)
  if k == 'inter': return gen_inter_around(rng, p, mode)
  return gen_slice(rng, p, mode)


def gen_inter_around(rng, p, mode):
  """an intersection of two simple regions with a common member z; z = p for inside / boundary modes."""
  z = list(p) if mode in ('inside', 'boundary') else [x + dy(rng, -2, 2) for x in p]
  sub = 'boundary' if mode == 'boundary' else 'inside'
  return {'k': 'inter', 'a': gen_vregion(rng, z, sub), 'b': gen_vregion(rng, z, rng.choice(['inside', sub]))}


def gen_wedge(rng, n):
  """a narrow wedge of two half-spaces (normals nearly opposite) and a point above its apex: Dykstra's
  alternating iterates crawl towards the apex and do not converge within the shipped maxiter, so the
  implementation has to raise; returning the current iterate silently would be a non-member."""
  i, j = rng.sample(range(n), 2)
  eps = Fraction(1, rng.choice([32, 64]))
  z = gen_point(rng, n, bits=1, span=2)
  def half(sg):
    nrm = [F(0)]*n; nrm[i] = F(sg); nrm[j] = eps
    return {'k': 'half', 'nrm': L(nrm), 'o': fs(fdot(nrm, z)), 'sign': '-1'}
  p = list(z); p[j] = z[j] + dy(rng, 1, 4); p[i] = z[i] + dy(rng, -1, 1)
  r = {'k': 'inter', 'a': half(1), 'b': half(-1)}
  if rng.random() < 0.5:
    r = {'k': 'inter', 'a': r['b'], 'b': r['a']}
  return r, p, z


def gen_inter(rng, n, depth=0):
  """an intersection of two regions and a point; usually non-empty (a common member z exists)."""
  z = gen_point(rng, n, bits=1, span=3)
  common = rng.random() < 0.85
  def part():
    if depth == 0 and rng.random() < 0.2:
      return {'k': 'inter', 'a': gen_vregion(rng, z, 'inside' if common else 'random'), 'b': gen_vregion(rng, z, 'inside' if common else 'random')}
    return gen_vregion(rng, z, rng.choice(['inside', 'inside', 'boundary']) if common else 'random')
  r = {'k': 'inter', 'a': part(), 'b': part()}
  mode = rng.choice(['member', 'near', 'far', 'far'])
  if mode == 'member': p = list(z)
  elif mode == 'near': p = [x + dy(rng, -1, 1) for x in z]
  else: p = gen_point(rng, n)
  return r, p, z if common else None


def gen_list(rng, tier, kinds=('cube', 'cube', 'half', 'half', 'slice', 'slice', 'inter')):
  """a List region, a matrix point of matching shape, per line modes."""
  axis = rng.choice([0, 1])
  r = rng.randint(1, 3 if tier == 'quick' else 4)
  l = rng.randint(1, 4 if tier == 'quick' else 6)
  lines = [gen_point(rng, l) for _ in range(r)]
  rs = [gen_vregion(rng, ln, rng.choice(MODES), kinds) for ln in lines]
  if axis == 0:
    P = [list(ln) for ln in lines]
  else:
    P = [[lines[c][k] for c in range(r)] for k in range(l)]
  return {'k': 'list', 'axis': axis, 'rs': rs}, P


# ---------------------------------------------------------------- exact semantics of a description
def vlen(r):
  if r['k'] == 'cube': return len(r['lo'])
  if r['k'] in ('half', 'slice'): return len(r['nrm'])
  return vlen(r['a'])


def ctor_ok(r):
  """what the constructors accept (documented: sign != 0, low <= high, equal dimensionality)."""
  k = r['k']
  if k == 'cube': return True
  if k == 'half': return F(r['sign']) != 0
  if k == 'slice': return F(r['lo']) <= F(r['hi'])
  if k == 'inter': return ctor_ok(r['a']) and ctor_ok(r['b']) and vlen(r['a']) == vlen(r['b'])
  if k == 'list': return r['axis'] in (0, 1) and all(ctor_ok(x) for x in r['rs'])
  if k == 'minter': return ctor_ok(r['a']) and ctor_ok(r['b']) and mshape(r['a'])[0]*mshape(r['a'])[1] == mshape(r['b'])[0]*mshape(r['b'])[1]
  raise ValueError(k)


def mshape(r):
  if r['k'] == 'minter': return mshape(r['a'])
  l = vlen(r['rs'][0]); n = len(r['rs'])
  return (n, l) if r['axis'] == 0 else (l, n)


def violation(r, p):
  """exact: 0 when the Fraction vector p is a member of the vector region, else a positive measure
  of how far outside it is (max coordinate excess for boxes, |offset gap|/|normal|_1-ish for planes)."""
  k = r['k']
  if k == 'cube':
    v = F(0)
    for a, b, x in zip(r['lo'], r['hi'], p):
      v = max(v, F(a) - x, x - F(b))
    return v
  if k == 'half':
    d = fdot([F(x) for x in r['nrm']], p); o = F(r['o'])
    g = (o - d) if F(r['sign']) > 0 else (d - o)
    return max(F(0), g)/sum((abs(F(x)) for x in r['nrm']), F(0))
  if k == 'slice':
    d = fdot([F(x) for x in r['nrm']], p)
    return max(F(0), F(r['lo']) - d, d - F(r['hi']))/sum((abs(F(x)) for x in r['nrm']), F(0))
  if k == 'inter':
    return max(violation(r['a'], p), violation(r['b'], p))
  raise ValueError(k)


def has_degenerate(r):
  k = r['k']
  if k == 'cube': return any(F(a) == F(b) for a, b in zip(r['lo'], r['hi']))
  if k == 'slice': return F(r['lo']) == F(r['hi'])
  if k in ('inter', 'minter'): return has_degenerate(r['a']) or has_degenerate(r['b'])
  if k == 'list': return any(has_degenerate(x) for x in r['rs'])
  return False


# ---------------------------------------------------------------- how the caller passes the arguments
FORMS = ['list', 'list', 'tuple', 'ndarray', 'ndarray', 'ndarray', 'intarray']


def assign_forms(rng, r, groups=None, top=True):
  """annotate every simple region with `_form` (list / tuple / float ndarray / integer ndarray) and give regions with
  the SAME normal the same caller-owned object (`_share`) half of the time.  Private keys: the model never sees them."""
  groups = groups if groups is not None else {}
  k = r['k']
  if k in ('inter', 'minter'):
    assign_forms(rng, r['a'], groups, False); assign_forms(rng, r['b'], groups, False)
  elif k == 'list':
    for x in r['rs']:
      assign_forms(rng, x, groups, False)
  else:
    r['_form'] = rng.choice(FORMS)
    if k in ('half', 'slice'):
      key = ','.join(r['nrm'])
      if key in groups:
        share, form = groups[key]
        if share:
          r['_share'] = share; r['_form'] = form
      else:
        share = ('n%d' % len(groups)) if rng.random() < 0.5 else None
        groups[key] = (share, r['_form'])
        if share:
          r['_share'] = share
  return r


def gen_hand_slab(rng, p, mode):
  """a slab written as the intersection of two half-spaces WITH THE SAME NORMAL (the caller naturally reuses one array)."""
  s = gen_slice(rng, p, mode)
  lo_first = rng.random() < 0.5
  a = {'k': 'half', 'nrm': list(s['nrm']), 'o': s['lo'], 'sign': '1'}
  b = {'k': 'half', 'nrm': list(s['nrm']), 'o': s['hi'], 'sign': '-1'}
  return {'k': 'inter', 'a': a if lo_first else b, 'b': b if lo_first else a}


def displacement(r, p):
  """exact: the largest coordinate of (nearest member - p) in absolute value, for the simple classes.  This is the
  quantity `ConvexRegion.is_in` compares with `ConvexRegion.tol`."""
  k = r['k']
  if k == 'cube':
    return violation(r, p)
  nrm = [F(x) for x in r['nrm']]
  d = fdot(nrm, p); nn = fdot(nrm, nrm)
  if k == 'half':
    o = F(r['o'])
    gap = max(F(0), (o - d) if F(r['sign']) > 0 else (d - o))
  elif k == 'slice':
    gap = max(F(0), F(r['lo']) - d, d - F(r['hi']))
  else:
    raise ValueError(k)
  return gap*max(abs(x) for x in nrm)/nn
