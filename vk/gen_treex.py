"""Shared by C02 and C13: tree case generation (on top of gen.gen_tree), numeric encodings that
mirror lean/DK/Driver/TreeX.lean, and an independent walk over an implementation tree
(own recursion over `.devices`, offsets from the blocks' own shapes)."""
import json
from fractions import Fraction
from . import common as C, gen, build
from .common import F, fs, dy


def np():
  import numpy
  return numpy


# ---------------------------------------------------------------- descriptions
def asymmetric(t):
  """some node has two children with different row counts."""
  if t['k'] != 'node':
    return False
  if len({gen.tree_rows(c) for c in t['ch']}) > 1:
    return True
  return any(asymmetric(c) for c in t['ch'])


def multirow_children(t):
  """number of children (anywhere) that own more than one row."""
  if t['k'] != 'node':
    return 0
  return sum((gen.tree_rows(c) > 1) + multirow_children(c) for c in t['ch'])


def subnodes(t, off=0, top=True):
  """(description, row offset) of every nested internal node / adaptor / leaf, in row order."""
  out = []
  if not top:
    out.append((t, off))
  if t['k'] == 'node':
    for c in t['ch']:
      out += subnodes(c, off, False)
      off += gen.tree_rows(c)
  return out


def gen_shape_tree(rng, tier, want_mf=None, max_rows=None):
  """a random rooted ordered tree; most of the time nested (depth >= 2), with children of
  different row counts and at least one multi-row child."""
  max_rows = max_rows or (12 if tier == 'quick' else 20)
  want_rich = rng.random() < 0.85
  best = None
  for _ in range(12):
    depth = rng.choice([1, 2, 2, 3, 3] if tier == 'quick' else [1, 2, 2, 3, 3, 4, 4])
    t, n = gen.gen_tree(rng, tier, None, depth, want_mf)
    if gen.tree_rows(t) > max_rows:
      continue
    best = (t, n)
    if not want_rich or (gen.tree_depth(t) >= 2 and asymmetric(t)):
      break
  if best is None:
    best = gen.gen_tree(rng, tier, None, 1, want_mf)
  return best


def gen_prices(rng, R, n):
  """scalar / per-slot vector / full matrix with pairwise different rows (the common case)."""
  q = rng.random()
  if q < 0.2:
    return fs(dy(rng, -3, 3, 3))
  if q < 0.42:
    return [fs(dy(rng, -3, 3, 3)) for _ in range(n)]
  rows, seen = [], set()
  for r in range(R):
    for _ in range(20):
      row = tuple(dy(rng, -3, 3, 3) for _ in range(n))
      if row not in seen:
        break
    else:
      row = tuple(Fraction(4 + r) for _ in range(n))
    seen.add(row); rows.append([fs(x) for x in row])
  return rows


def price_form(P):
  return 'scalar' if not isinstance(P, list) else ('matrix' if P and isinstance(P[0], list) else 'vector')


def price_rows(P, off, k):
  """the price a child at rows [off, off+k) sees, in the same form."""
  return P[off:off + k] if price_form(P) == 'matrix' else P


def perm_flow(R, n):
  """permutation-detecting flow: row r holds r+1 (+ a slot-dependent sixteenth so slots differ too)."""
  return [[fs(Fraction(r + 1) + Fraction(i, 16)) for i in range(n)] for r in range(R)]


def gen_dir(rng, R, n):
  return [[fs(dy(rng, -2, 2, 2)) for _ in range(n)] for _ in range(R)]


def distinct_rows(S):
  rows = [tuple(r) for r in S]
  return len(set(rows)) == len(rows)


def shaped(v, shape):
  a = build.arr(v)
  return a.reshape(-1) if shape == 'flat' else a


# ---------------------------------------------------------------- reporting / comparison helpers
def short(t, lim=700):
  s = json.dumps(C_strip(t), separators=(',', ':'))
  return s if len(s) <= lim else s[:lim] + '...'


def C_strip(x):
  from .check import strip_private
  return strip_private(x)


def scalar(v):
  a = np().array(v, dtype=float).reshape(-1)
  return float(a[0]) if a.size == 1 else float('nan')


def close(a, b, scale=1.0, tol=1e-9):
  n_ = np()
  a = n_.array(a, dtype=float); b = n_.array(b, dtype=float)
  if a.shape != b.shape:
    return False
  fin = n_.isfinite(a) & n_.isfinite(b)
  if (n_.isfinite(a) != n_.isfinite(b)).any():
    return False
  return bool((n_.abs(a - b)[fin] <= tol*n_.maximum(scale, n_.maximum(n_.abs(a), n_.abs(b)))[fin]).all())


# ---------------------------------------------------------------- numeric encodings (TreeX.lean)
def str_codes(s):
  return [ord(c) for c in s] + [-1]


def enc_labels(labels):
  out = []
  for l in labels:
    out += str_codes(l)
  return out


def enc_map(pairs):
  out = []
  for l, row in pairs:
    out += str_codes(l) + [float(x) for x in np().array(row, dtype=float).reshape(-1)]
  return out


def enc_cons(cons, S, D):
  """three sorted projections of a constraint list at S with probe direction D (see TreeX.lean)."""
  n_ = np()
  Dv = n_.array(D, dtype=float).reshape(-1)
  rows = []
  for c in cons:
    code = (2 if c['type'] == 'eq' else 0) + (1 if 'jac' in c else 0)
    fv = n_.array(c['fun'](S), dtype=float).reshape(-1)
    v = float(fv[0]) if fv.size == 1 else float('nan')
    jd = float(n_.array(c['jac'](S), dtype=float).reshape(-1).dot(Dv)) if 'jac' in c else 0.0
    rows.append((code, v, jd))
  out = []
  for key in (lambda x: (x[0], x[1]), lambda x: (x[0], x[2]), lambda x: (x[0], x[1] + x[2])):
    for p in sorted(key(x) for x in rows):
      out += [p[0], p[1]]
  return out


# ---------------------------------------------------------------- walking the implementation
def is_composite(d):
  """an internal node the set 'looks into': a DeviceSet that is not a multi-flow adaptor."""
  dk = C.repo()
  return isinstance(d, dk.DeviceSet) and not isinstance(d, dk.MFDeviceSet)


def is_adaptor(d):
  return isinstance(d, C.repo().MFDeviceSet)


def impl_blocks(dev, off=0, path=None):
  """[(row offset, rows, block object, [ids root..block])] by own recursion over `.devices`.
  A block is an atomic device (1 row) or an adaptor (one row per conduit); offsets are summed
  from the blocks' own shapes -- `partition` is not consulted."""
  path = (path or []) + [dev.id]
  if not is_composite(dev):
    return [(off, int(dev.shape[0]), dev, path)]
  out = []
  for c in dev.devices:
    sub = impl_blocks(c, off, path)
    out += sub
    off = sub[-1][0] + sub[-1][1] if sub else off
  return out


def impl_nodes(dev, off=0):
  """[(row offset, rows, node object)] for every internal (non-adaptor) node."""
  if not is_composite(dev):
    return []
  out = [(off, sum(b[1] for b in impl_blocks(dev)), dev)]
  for c in dev.devices:
    out += impl_nodes(c, off)
    off += sum(b[1] for b in impl_blocks(c))
  return out


def impl_labels(dev):
  """expected labels by own recursion: dot-joined ids from the root; an adaptor contributes
  `<path>.<flow>` per conduit."""
  out = []
  for off, k, blk, path in impl_blocks(dev):
    if is_adaptor(blk):
      out += ['.'.join(path + [str(f)]) for f in blk.to_dict()['flows']]
    else:
      out.append('.'.join(path))
  return out


def full_prices(P, R, n):
  """own broadcasting of a scalar / per-slot vector / matrix price to (R, n)."""
  n_ = np()
  P = n_.array(P, dtype=float)
  out = n_.zeros((R, n))
  if P.ndim == 0:
    out[:, :] = float(P)
  elif P.ndim == 1:
    for r in range(R):
      out[r, :] = P
  else:
    out[:, :] = P
  return out


# ---------------------------------------------------------------- input forms (same logical input, another form)
FLOW_FORMS = ['C', 'F', 'T', 'strided', 'flat', 'flat-strided']
MAT_FORMS = ['C', 'F', 'T', 'strided']


def relayout(a, form):
  """the same logical array in another memory layout / shape convention:
  C / F(ortran) order, T = transpose view of a (n, R) table, strided = view into a larger array,
  flat / flat-strided = row-major vector (contiguous / every second element of a longer buffer),
  row = a per-slot vector as a (1, n) array."""
  n_ = np()
  a = n_.asarray(a)
  if form == 'C':
    return n_.ascontiguousarray(a)
  if form == 'F':
    return n_.asfortranarray(a)
  if form == 'T':
    return n_.ascontiguousarray(a.T).T
  if form == 'strided':
    if a.ndim == 1:
      big = n_.full(2*a.size + 1, -7, dtype=a.dtype); big[1::2] = a
      return big[1::2]
    big = n_.full((2*a.shape[0] + 1, 2*a.shape[1] + 1), -7, dtype=a.dtype); big[1::2, 1::2] = a
    return big[1::2, 1::2]
  if form == 'flat':
    return a.reshape(-1).copy()
  if form == 'flat-strided':
    big = n_.full(2*a.size, -7, dtype=a.dtype); big[::2] = a.reshape(-1)
    return big[::2]
  if form == 'row':
    return a.reshape(1, -1).copy()
  raise ValueError(form)


def price_variants(P, R, n):
  """[(name, value)] of the same price in other forms: scalar as python / numpy scalar / 0-d array; per-slot vector
  as (n,), (1, n), strided; matrix in C / F / transpose-view / strided layout; integer-typed when integer-valued."""
  n_ = np()
  a = n_.asarray(P)
  out = []
  if a.ndim == 0:
    out = [('python float', float(a)), ('numpy 0-d array', n_.array(float(a))), ('numpy scalar', n_.float64(a))]
    if float(a).is_integer():
      out.append(('python int', int(a)))
  elif a.ndim == 1:
    af = a.astype(float)
    out = [('(n,) vector', af.copy()), ('(1, n) row', af.reshape(1, -1).copy()), ('strided (n,) vector', relayout(af, 'strided'))]
    if (af == n_.round(af)).all():
      out += [('integer-typed (n,) vector', af.astype(int)), ('integer-typed (1, n) row', af.astype(int).reshape(1, -1))]
  else:
    af = a.astype(float)
    out = [('(R, n) matrix, %s layout' % f, relayout(af, f)) for f in MAT_FORMS]
    if (af == n_.round(af)).all():
      out.append(('integer-typed (R, n) matrix', af.astype(int)))
  return out


def flow_variants(S):
  """[(name, array)] of the same logical (R, n) flow matrix in every form of FLOW_FORMS (+ integer-typed if integer-valued)."""
  n_ = np()
  Sf = n_.asarray(S).astype(float)
  out = [('%s layout' % f, relayout(Sf, f)) for f in FLOW_FORMS]
  if (Sf == n_.round(Sf)).all():
    out += [('integer-typed C layout', Sf.astype(int)), ('integer-typed F layout', n_.asfortranarray(Sf.astype(int)))]
  return out


# ---------------------------------------------------------------- leaves without a Lean model (oracle-only trees)
def window_leaf(rng, id, n):
  """a WindowDevice description (no model: trees containing one are oracle-only). Strictly positive lower bounds:
  the total flow of its row is never zero (that is the listed corner `window_zero_sum_flow` of another property)."""
  lb = [dy(rng, Fraction(1, 4), 2) for _ in range(n)]
  hb = [a + dy(rng, Fraction(1, 4), 3) for a in lb]
  return {'k': 'leaf', 'id': id, 'dev': {'cls': 'WindowDevice', 'n': n, 'lb': [fs(x) for x in lb], 'hb': [fs(x) for x in hb], 'cbs': [],
                                           'prm': {'w': fs(dy(rng, 0, max(1, n), 1)), 'c': fs(dy(rng, Fraction(1, 4), 3))}, '_py': {'bform': 'table', 'cform': None}}}


def raw_ucons_leaf(rng, id, n):
  """an ADevice whose user constraint is written for the device's flow VECTOR and does not flatten its argument:
  `x[0]*w + c >= 0` (first slot) or `x[s:e].sum()*w + c >= 0` (a slot range)."""
  lb = [Fraction(0)]*n; hb = [dy(rng, 1, 3) for _ in range(n)]
  s = rng.randrange(0, n); e = rng.randint(s + 1, n)
  u = {'type': rng.choice(['ineq', 'ineq', 'eq']), 'raw': rng.choice(['first', 'range']), 's': s, 'e': e,
       'w': fs(dy(rng, Fraction(1, 2), 2)), 'c': fs(-dy(rng, 0, 1)), 'n': n, 'jac': rng.random() < 0.7}
  return {'k': 'leaf', 'id': id, 'dev': {'cls': 'ADevice', 'n': n, 'lb': [fs(x) for x in lb], 'hb': [fs(x) for x in hb], 'cbs': [],
                                           'prm': {'f': {'k': 'null'}}, 'raw_ucons': [u], '_py': {'bform': 'table', 'cform': None}}}


def build_raw_ucons(us):
  n_ = np()
  out = []
  for u in us:
    w = C.pf(u['w']); c = C.pf(u['c']); s, e, n = u['s'], u['e'], u['n']
    if u['raw'] == 'first':
      con = {'type': u['type'], 'fun': (lambda x, w=w, c=c: x[0]*w + c)}
      jv = n_.array([w] + [0.0]*(n - 1))
    else:
      con = {'type': u['type'], 'fun': (lambda x, w=w, c=c, s=s, e=e: x[s:e].sum()*w + c)}
      jv = n_.array([w if s <= i < e else 0.0 for i in range(n)])
    if u.get('jac', True):
      con['jac'] = (lambda x, jv=jv: jv.copy())
    out.append(con)
  return out


def build_tree_x(t):
  """build.build_tree, plus the oracle-only leaves above."""
  n_ = np()
  dk = C.repo()
  if t['k'] == 'leaf' and t['dev']['cls'] == 'WindowDevice':
    d = t['dev']
    return dk.WindowDevice(t['id'], d['n'], build.py_bounds(d), C.pf(d['prm']['w']), c=C.pf(d['prm']['c']))
  if t['k'] == 'leaf' and t['dev'].get('raw_ucons'):
    d = dict(t['dev']); d['_constraints'] = build_raw_ucons(d['raw_ucons'])
    return build.build_leaf(d, t['id'])
  if t['k'] != 'node':
    return build.build_tree(t)
  kids = [build_tree_x(c) for c in t['ch']]
  sb = n_.array([[C.pf(a), C.pf(b)] for a, b in t['sb']]) if t.get('sb') is not None else None
  if t.get('sub'):
    return dk.SubBalancedDeviceSet(t['id'], kids, sb, labels=list(t.get('labels', [])), constraint_type=t.get('ctype', 'eq'),
                                   sign=C.pf(t.get('sign', '1')), apply_to_remaining=bool(t.get('rem', False)))
  return dk.DeviceSet(t['id'], kids, sb)
