#!/usr/bin/env python3
"""Regression tests of the T1 translators:  /venv/bin/python -m vk.test_translators [--repo /repo] [--bridge] [filter…]

A translator is sound only if two pieces of Python with different numpy / Python semantics never yield the same Lean.
Every case below is a textual edit of a real translated unit of device_kit (applied to a scratch copy of the package);
the translators (vk/translate.py, translate_validators.py, translate_vec.py, translate_sets.py, translate_loaders.py) are run in-process on the
pristine and on the edited copy and the generated Lean (comments stripped) is compared:

  expect 'differs'        the edit changes what the code computes (or what it does to its caller): the generated Lean
                          must change, or the unit must become UNTRANSLATABLE (named in the fallback list with file:line)
  expect 'untranslatable' as above, and specifically UNTRANSLATABLE (forms the denotation cannot express faithfully)
  expect 'same'           a rewrite with the same semantics that the translators are meant to see through

`--bridge` additionally regenerates lean/DK/Gen from the edited copy for every 'differs' case whose Lean changed without
a fallback unit and checks that the bridge modules no longer build (slow: one `lake build` per such case); the
generated files are restored from the real repository at the end.
Exit status 0 iff every case has the expected outcome.
"""
import os, sys, shutil, tempfile, argparse, json, subprocess

HERE = os.path.dirname(os.path.abspath(__file__))
sys.path.insert(0, os.path.join(HERE, '..'))
from vk import translate as T1, translate_validators as TVal, translate_vec as TV, translate_sets as TS, translate_loaders as TL

C = []
def case(label, f, old, new, expect='differs'): C.append((label, f, old, new, expect))

# ---- value-level controls (the denotation itself)
case('ctl x**2 vs x*2', 'sdevice.py', "cost1 = (self.c1*r**2)", "cost1 = (self.c1*r*2)")
case('ctl minimum vs maximum', 'sdevice.py', "return self.c3*np.minimum((self.charge_at(r)", "return self.c3*np.maximum((self.charge_at(r)")
case('ctl r[1:] <-> r[:-1]', 'sdevice.py', "(np.hstack((r[1:], [0])) + np.hstack(([0], r[:-1])))", "(np.hstack((r[:-1], [0])) + np.hstack(([0], r[1:])))")
case('ctl sum(axis=0) vs sum(axis=1)', 'tdevice.py', "dt.reshape(len(self),1)).sum(axis=0)", "dt.reshape(len(self),1)).sum(axis=1)")
case('ctl tril vs triu', 'utils.py', "return np.tril(s**power_matrix(l))", "return np.triu(s**power_matrix(l))")
case('ctl sign(r) vs sign(-r)', 'utils.py', "((r*(e**np.sign(r)))*sm)", "((r*(e**np.sign(-r)))*sm)")
case('ctl -1* vs 1*', 'sdevice.py', "cost2_deriv = self.c2*-1*(", "cost2_deriv = self.c2*1*(")
case('ctl TDevice deriv * vs / efficiency', 'tdevice.py', ".sum(axis=0)*self.efficiency + p", ".sum(axis=0)/self.efficiency + p")
case('ctl GDevice -s vs s', 'gdevice.py', "return s*p + self._cost_fn(-s)", "return s*p + self._cost_fn(s)")
case('ctl sets tile vs repeat', 'mfdeviceset.py', "np.tile(np.array(f(s.reshape(shape).sum(axis=0))).reshape(shape[1]), shape[0])", "np.repeat(np.array(f(s.reshape(shape).sum(axis=0))).reshape(shape[1]), shape[0])")
case('ctl sets eq vs ineq', 'deviceset.py', "          constraints += [{\n            'type': 'eq',", "          constraints += [{\n            'type': 'ineq',")
case('ctl validator c1 < 0 vs <= 0', 'sdevice.py', "    if c1 < 0:", "    if c1 <= 0:")
case('ctl kernel or vs and', 'functions.py', "if x_l == x_h or b == 1:", "if x_l == x_h and b == 1:")
# ---- 1. keyword arguments
case('kw np.array dtype float vs int', 'utils.py', "r = np.array(r, dtype=float)", "r = np.array(r, dtype=int)", 'untranslatable')
case('kw np.array dtype float vs float16', 'utils.py', "r = np.array(r, dtype=float)", "r = np.array(r, dtype=np.float16)", 'untranslatable')
case('kw np.array dtype float vs np.float64', 'utils.py', "r = np.array(r, dtype=float)", "r = np.array(r, dtype=np.float64)", 'same')
case('kw np.zeros dtype=int', 'sdevice.py', "d = np.zeros(len(r))", "d = np.zeros(len(r), dtype=int)", 'untranslatable')
case('kw np.ones dtype=float32', 'cdevice.py', "return np.ones(len(self))*self.a + p", "return np.ones(len(self), dtype=np.float32)*self.a + p", 'untranslatable')
case('kw np.hstack dtype=', 'sdevice.py', "np.hstack((r[1:], [0]))", "np.hstack((r[1:], [0]), dtype=np.float16)", 'untranslatable')
case('kw np.arange dtype=int8', 'utils.py', "np.arange(1, l+1)", "np.arange(1, l+1, dtype=np.int8)", 'untranslatable')
case('kw np.minimum out=', 'sdevice.py', "c = self.c3*2*np.minimum((self.charge_at(r) - self.capacity*self.damage_depth), 0)", "c = self.c3*2*np.minimum((self.charge_at(r) - self.capacity*self.damage_depth), 0, out=r)", 'untranslatable')
case('kw np.sign out=', 'sdevice.py', "(float(self.efficiency)**np.sign(r))", "(float(self.efficiency)**np.sign(r, out=r))", 'untranslatable')
case('kw vectorize otypes=[int]', 'functions.py', "self._cost_fn = lambda x: np.vectorize(ABCCost._cost, otypes=[float])(", "self._cost_fn = lambda x: np.vectorize(ABCCost._cost, otypes=[int])(", 'untranslatable')
case('kw vectorize without otypes', 'functions.py', "self._deriv_fn = lambda x: np.vectorize(HLQuadraticCost._deriv, otypes=[float])(", "self._deriv_fn = lambda x: np.vectorize(HLQuadraticCost._deriv)(", 'untranslatable')
case('kw sets reshape order=F', 'deviceset.py', "    ''' Get deriv. Result is a (len(devices), len(self)) 2D vector. '''\n    s = s.reshape(self.shape)", "    ''' Get deriv. Result is a (len(devices), len(self)) 2D vector. '''\n    s = s.reshape(self.shape, order='F')", 'untranslatable')
case('kw sets zmm zeros dtype=int', 'utils.py', "  r = np.zeros(x.shape)\n  if axis == 0:", "  r = np.zeros(x.shape, dtype=int)\n  if axis == 0:", 'untranslatable')
case('kw sets partition dtype=int8', 'deviceset.py', "return np.array(list(zip(offset, self.shapes[:,0])), dtype=int)", "return np.array(list(zip(offset, self.shapes[:,0])), dtype=np.int8)", 'untranslatable')
case('kw sets partition dtype=float (offsets used as indices)', 'deviceset.py', "return np.array(list(zip(offset, self.shapes[:,0])), dtype=int)", "return np.array(list(zip(offset, self.shapes[:,0])), dtype=float)", 'untranslatable')
case('kw sets costv list dtype=int', 'deviceset.py', "for d, i in zip(self.devices, self.partition)]\n    )\n\n  def deriv", "for d, i in zip(self.devices, self.partition)], dtype=int\n    )\n\n  def deriv", 'untranslatable')
case('kw sets vstack dtype=', 'deviceset.py', "p[i[0]:i[0]+i[1], :]) for d, i in zip(self.devices, self.partition)]\n    )\n\n  def hess", "p[i[0]:i[0]+i[1], :]) for d, i in zip(self.devices, self.partition)], dtype=np.float16\n    )\n\n  def hess", 'untranslatable')
case('kw sets concatenate dtype=', 'deviceset.py', "return np.concatenate([d.bounds for d in self.devices])", "return np.concatenate([d.bounds for d in self.devices], dtype=np.float16)", 'untranslatable')
case('kw sets stack dtype=', 'mfdeviceset.py', "bounds = np.stack((np.zeros(len(device)), device.hbounds), axis=1)", "bounds = np.stack((np.zeros(len(device)), device.hbounds), axis=1, dtype=np.float16)", 'untranslatable')
# ---- 2. in-place operators on parameters / attributes / shared results
case('inplace s *= p', 'device.py', "    return (s*p).sum()\n\n  def deriv", "    s *= p\n    return s.sum()\n\n  def deriv", 'untranslatable')
case('inplace p += …; return p', 'sdevice.py', "    return self.charge_costs_deriv(s) + p\n", "    p += self.charge_costs_deriv(s)\n    return p\n", 'untranslatable')
case('inplace t = self.t_base; t += …', 'tdevice.py', "    return self.t_base + self.efficiency*soc(r.reshape(len(self)), s=self.sustainment, e=1)", "    t = self.t_base\n    t += self.efficiency*soc(r.reshape(len(self)), s=self.sustainment, e=1)\n    return t", 'untranslatable')
case('inplace sm *= … on a cached helper result', 'utils.py', "  return ((r*(e**np.sign(r)))*sm).cumsum(axis=1).diagonal()", "  sm *= (r*(e**np.sign(r)))\n  return sm.cumsum(axis=1).diagonal()", 'untranslatable')
case('inplace on a reshape view', 'gdevice.py', "    return p - self._cost_d1_fn(-s.reshape(len(self)))", "    s = s.reshape(len(self))\n    s *= -1\n    return p - self._cost_d1_fn(s)", 'untranslatable')
case('inplace into a fresh local stays supported', 'sdevice.py', "    d = np.zeros(len(r))\n", "    d = np.zeros(len(r))\n    d += 0\n", 'differs')      # (changes the term, still translated)
# ---- 3. shape-sensitive forms
case('shape len(self) vs len(s)', 'idevice.py', "return self._cost_fn(s)/len(self) + s*p", "return self._cost_fn(s)/len(s) + s*p", 'untranslatable')
case('shape x.reshape(n)[s:e] vs x[s:e]', 'device.py', "'fun': lambda x, l=l, s=s, e=e: x.reshape(len(self))[s:e].sum() - l,", "'fun': lambda x, l=l, s=s, e=e: x[s:e].sum() - l,", 'untranslatable')
case('shape reshape vs flatten', 'sdevice.py', "    r = r.reshape((len(self),))\n    cost1 = (self.c1*r**2)", "    r = r.flatten()\n    cost1 = (self.c1*r**2)", 'untranslatable')
case('shape reshape dropped', 'sdevice.py', "    r = r.reshape((len(self),))\n    cost1 = (self.c1*r**2)", "    cost1 = (self.c1*r**2)", 'untranslatable')
case('shape reshape((n,)) vs reshape(n)', 'sdevice.py', "    r = r.reshape((len(self),))\n    cost1 = (self.c1*r**2)", "    r = r.reshape(len(self))\n    cost1 = (self.c1*r**2)", 'same')
case('shape (s*p).sum() vs s.dot(p)', 'cdevice.py', "(self.a*s.sum() + self.b) + (s*p).sum()", "(self.a*s.sum() + self.b) + s.dot(p)", 'untranslatable')
case('shape soc(r, len(r)-1) on the raw flow', 'sdevice.py', "'fun': lambda r: soc(r, len(self)-1) - reserve,", "'fun': lambda r: soc(r, len(r)-1) - reserve,", 'untranslatable')
case('shape sets map without reshape', 'basedevice.py', "    s = s.reshape(self.shape)\n    for i, d in enumerate(self.leaf_devices()):\n      yield (d[0], s[i:i+1,:]", "    for i, d in enumerate(self.leaf_devices()):\n      yield (d[0], s[i:i+1,:]", 'untranslatable')
case('shape sets jac not flattened', 'deviceset.py', "fn=lambda r: -1*np.ones(shape[0])).reshape(flat_shape)", "fn=lambda r: -1*np.ones(shape[0]))", 'untranslatable')
case('shape float(eff) dropped before ** sign', 'sdevice.py', "(float(self.efficiency)**np.sign(r))", "(self.efficiency**np.sign(r))", 'untranslatable')
# ---- 4. closures
case('closure vec lambda r, i=i vs lambda r', 'sdevice.py', "'fun': lambda r, i=i: soc(r, i),", "'fun': lambda r: soc(r, i),", 'untranslatable')
case('closure vec jac e=e dropped', 'device.py', "'jac': lambda x, s=s, e=e: np.hstack((np.zeros(s), np.ones(e - s), np.zeros(len(self) - e)))", "'jac': lambda x, s=s: np.hstack((np.zeros(s), np.ones(e - s), np.zeros(len(self) - e)))", 'untranslatable')
case('closure sets i=i dropped', 'deviceset.py', "'fun': lambda s, i=i, f=constraint['fun']: f(", "'fun': lambda s, f=constraint['fun']: f(", 'untranslatable')
case('closure sets j=col_jac dropped', 'subbalanceddeviceset.py', "'fun': lambda s, i=i, j=col_jac: self.sign*(s.reshape(shape)[:, i]*j).sum(),", "'fun': lambda s, i=i: self.sign*(s.reshape(shape)[:, i]*col_jac).sum(),", 'untranslatable')
case("closure sets f=constraint['fun'] dropped", 'mfdeviceset.py', "'fun': lambda s, f=constraint['fun']: f(s.reshape(shape).sum(axis=0)),", "'fun': lambda s: constraint['fun'](s.reshape(shape).sum(axis=0)),", 'untranslatable')
case('closure sets tworatio i=i dropped', 'tworatiomfdeviceset.py', "'fun': lambda s, i=i, r=self.ratios:", "'fun': lambda s, r=self.ratios:", 'untranslatable')
# ---- 5. accumulators
case('accumulator sets += vs = in a loop', 'deviceset.py', "        constraints += [c]\n", "        constraints = [c]\n", 'untranslatable')
case('accumulator MF += vs = in a loop', 'mfdeviceset.py', "      constraints += [c]\n", "      constraints = [c]\n", 'untranslatable')
case('accumulator SDevice reserve += vs = (top level: drops the earlier constraints)', 'sdevice.py', "    # At least reserve left at end of window.\n    constraints += [", "    # At least reserve left at end of window.\n    constraints = [", 'differs')
# ---- 6. enclosing statements of Device.constraints / SDevice.constraints
case('enclosing loop range shortened', 'sdevice.py', "    # Discrete integral always within [0,capacity]\n    for i in range(0, len(self)):", "    # Discrete integral always within [0,capacity]\n    for i in range(0, len(self)-1):")
case('enclosing loop min(len(self), 24)', 'sdevice.py', "    # Discrete integral always within [0,capacity]\n    for i in range(0, len(self)):", "    # Discrete integral always within [0,capacity]\n    for i in range(0, min(len(self), 24)):")
case('enclosing dict type ineq -> eq', 'sdevice.py', "        # SoC >=0\n        {\n          'type': 'ineq',", "        # SoC >=0\n        {\n          'type': 'eq',")
case('enclosing reserve type ineq -> eq', 'sdevice.py', "      {\n        'type': 'ineq',\n        'fun': lambda r: soc(r, len(self)-1) - reserve,", "      {\n        'type': 'eq',\n        'fun': lambda r: soc(r, len(self)-1) - reserve,")
case('enclosing if rate_clip[0] extra conjunct', 'sdevice.py', "    if self.rate_clip[0]:", "    if self.rate_clip[1] and self.rate_clip[0]:")
case('enclosing if rate_clip[0] -> [1]', 'sdevice.py', "    if self.rate_clip[0]:", "    if self.rate_clip[1]:")
case('enclosing jac added to a clip constraint', 'sdevice.py', "            # 'jac': lambda r, mask=mask: (self.rate_clip[0]*self.lbounds[i]/self.capacity)*((e**np.sign(r))*mask)", "            'jac': lambda r, mask=mask, i=i: (self.rate_clip[0]*self.lbounds[i]/self.capacity)*((e**np.sign(r))*mask)")
case('enclosing cbounds[:8]', 'device.py', "      for cbound in self.cbounds:", "      for cbound in self.cbounds[:8]:")
case('enclosing if self.cbounds and len(self) <= 24', 'device.py', "    if self.cbounds:\n      for cbound", "    if self.cbounds and len(self) <= 24:\n      for cbound")
case('enclosing unpack l,h,s,e vs h,l,s,e', 'device.py', "l, h, s, e = cbound", "h, l, s, e = cbound")
# ---- 7. validators
case('validator extra store in the reserve setter', 'sdevice.py', "    self._reserve = reserve\n", "    self._reserve = reserve\n    self._start = max(self._start, reserve)\n", 'untranslatable')
case('validator setter drops the cache refresh', 'sdevice.py', "    self._sustainment = sustainment\n    self._sustainment_matrix = sustainment_matrix(sustainment, len(self))\n", "    self._sustainment = sustainment\n", 'untranslatable')
case('validator stores abs(c3)', 'sdevice.py', "    self._c3 = c3", "    self._c3 = abs(c3)", 'untranslatable')
# ---- 8. what else binds the name of a unit
case('binding module-level monkeypatch', 'cdevice.py', "    self._b = b\n", "    self._b = b\n\nCDevice.deriv = Device.deriv\n", 'untranslatable')
case('binding class-body override', 'cdevice.py', "  @property\n  def a(self):", "  cost = Device.cost\n\n  @property\n  def a(self):", 'untranslatable')
case('binding decorator lru_cache on SDevice.base', 'sdevice.py', "  def base(self):", "  @functools.lru_cache()\n  def base(self):", 'untranslatable')
case('binding decorator lru_cache on base_soc', 'utils.py', "def base_soc(b, s, l):", "@functools.lru_cache()\ndef base_soc(b, s, l):", 'untranslatable')
case('binding local def soc shadows utils.soc', 'sdevice.py', "\n\nclass SDevice(Device):", "\n\ndef soc(r, s, e):\n  return np.array(r)*0\n\n\nclass SDevice(Device):", 'untranslatable')
case('binding ABCCost.__init__ reassigns a field', 'functions.py', "    [self.a, self.b, self.c, self.x_l, self.x_h] = a, b, c, x_l, x_h\n    self._cost_fn = lambda x: np.vectorize(ABCCost._cost", "    [self.a, self.b, self.c, self.x_l, self.x_h] = a, b, c, x_l, x_h\n    self.a = np.minimum(a, 1)\n    self._cost_fn = lambda x: np.vectorize(ABCCost._cost", 'untranslatable')
case('binding lbounds property body', 'device.py', "  def lbounds(self):\n    return np.array(self.bounds[:, 0])", "  def lbounds(self):\n    return np.array(self.bounds[:, 1])", 'untranslatable')
case('binding Poly2D coeffs dtype=int', 'functions.py', "    self.coeffs = np.array(coeffs)\n", "    self.coeffs = np.array(coeffs, dtype=int)\n", 'untranslatable')
# ---- 9. lengths of constructed vectors
case('length sets ones(shape[0]) vs ones(shape[1]) in a dot', 'deviceset.py', "'fun': lambda s, i=i: self.sbounds[i][1] - s.reshape(shape)[:, i].dot(np.ones(shape[0])),", "'fun': lambda s, i=i: self.sbounds[i][1] - s.reshape(shape)[:, i].dot(np.ones(shape[1])),", 'untranslatable')
# ---- harmless
case('harmless comment / blank line', 'sdevice.py', "    cost1 = (self.c1*r**2)\n", "    # first term\n    cost1 = (self.c1*r**2)\n\n", 'same')
case('harmless docstring edit', 'utils.py', "''' Apply decay to scalar b over times l, at rate 1-s '''", "''' decay '''", 'same')

# ---- 10. loader helpers (T1l: vk/translate_loaders.py)
LD = 'loaders/builder_loader.py'
case('load ctl sorted(key=int) vs sorted() on the key strings', LD, "points = sorted(run['runs'].keys(), key=int)\n  for i,v in enumerate(points):\n    e = int", "points = sorted(run['runs'].keys())\n  for i,v in enumerate(points):\n    e = int")
case('load ctl fill a[int(v):e] vs a[int(v):e+1]', LD, "_array[int(v):e] = run['runs'][v]", "_array[int(v):e+1] = run['runs'][v]")
case('load ctl points[i+1] vs points[i]', LD, "e = int(points[i+1]) if i < len(points) - 1 else run['basis']\n    _array.append", "e = int(points[i]) if i < len(points) - 1 else run['basis']\n    _array.append")
case('load ctl last run to basis vs basis-1', LD, "else run['basis']\n    _array[int(v):e]", "else run['basis'] - 1\n    _array[int(v):e]")
case('load ctl on end inclusive vs exclusive', 'utils.py', "on_vector[on[i]:on[i+1]+1] = 1", "on_vector[on[i]:on[i+1]] = 1")
case('load ctl range step 2 vs 1', 'utils.py', "for i in range(0, len(on), 2):", "for i in range(0, len(on), 1):")
case('load ctl supply columns swapped vs not', LD, "np.stack((bounds[:,1], bounds[:,0]), axis=1)", "np.stack((bounds[:,0], bounds[:,1]), axis=1)")
case('load ctl .all() vs .any()', LD, "(bounds[:,0] != bounds[:,1]).all()", "(bounds[:,0] != bounds[:,1]).any()")
case('load ctl np.flip axis=1 vs no axis', LD, "bounds = np.stack((bounds[:,1], bounds[:,0]), axis=1)", "bounds = np.flip(bounds)")
case('load ctl parameter_map key renamed', LD, "'reserveRatio': 'reserve'", "'reserveFraction': 'reserve'")
case('load ctl template key 0 vs 1', LD, "item_template = run['runs']['0']", "item_template = run['runs']['1']")
case('load kw sorted reverse=True', LD, "points = sorted(run['runs'].keys(), key=int)\n  for i,v in enumerate(points):\n    [l, h]", "points = sorted(run['runs'].keys(), key=int, reverse=True)\n  for i,v in enumerate(points):\n    [l, h]", 'untranslatable')
case('load kw sorted key=str', LD, "points = sorted(run['runs'].keys(), key=int)\n  for i,v in enumerate(points):\n    [l, h]", "points = sorted(run['runs'].keys(), key=str)\n  for i,v in enumerate(points):\n    [l, h]", 'untranslatable')
case('load kw np.zeros dtype=int', LD, "_array = np.zeros(shape)", "_array = np.zeros(shape, dtype=int)", 'untranslatable')
case('load kw np.stack axis=0', LD, "np.stack((bounds[:,1], bounds[:,0]), axis=1)", "np.stack((bounds[:,1], bounds[:,0]), axis=0)", 'untranslatable')
case('load kw np.stack out=', LD, "np.stack((bounds[:,1], bounds[:,0]), axis=1)", "np.stack((bounds[:,1], bounds[:,0]), axis=1, out=bounds)", 'untranslatable')
case('load key (str) used as an index', LD, "_array[int(v):e] = run['runs'][v]", "_array[v:e] = run['runs'][v]", 'untranslatable')
case('load int used as a JSON key', LD, "_array[int(v):e] = run['runs'][v]", "_array[int(v):e] = run['runs'][int(v)]", 'untranslatable')
case('load inplace: care2bounds without deepcopy', 'utils.py', "  device = deepcopy(device)\n  care = device['care']", "  care = device['care']", 'untranslatable')
case('load inplace: run dictionary edited', LD, "  _array = np.zeros(shape)\n", "  _array = np.zeros(shape)\n  run['runs']['0'] = item_template\n", 'untranslatable')
case('load inplace: alias of the array', LD, "  _array = np.zeros(shape)\n", "  _array = np.zeros(shape)\n  alias = _array\n", 'untranslatable')
case('load inplace: points.sort() in the loop', LD, "    e = int(points[i+1]) if i < len(points) - 1 else run['basis']\n    _array[int(v):e]", "    points.sort()\n    e = int(points[i+1]) if i < len(points) - 1 else run['basis']\n    _array[int(v):e]", 'untranslatable')
case('load closure in the loop', LD, "    e = int(points[i+1]) if i < len(points) - 1 else run['basis']\n    _array[int(v):e]", "    nxt = lambda: int(points[i+1])\n    e = nxt() if i < len(points) - 1 else run['basis']\n    _array[int(v):e]", 'untranslatable')
case('load binding: module-level rebinding of run_to_array', LD, "if __name__ == '__main__':", "run_to_array = lambda run: np.zeros(run['basis'])\n\nif __name__ == '__main__':", 'untranslatable')
case('load binding: second def of run_to_cbounds_array', LD, "if __name__ == '__main__':", "def run_to_cbounds_array(run):\n  return []\n\nif __name__ == '__main__':", 'untranslatable')
case('load binding: module defines its own sorted', LD, "logger = logging.getLogger()\n", "logger = logging.getLogger()\n\ndef sorted(x, key=None):\n  return list(x)\n", 'untranslatable')
case('load binding: decorator on care2bounds', 'utils.py', "def care2bounds(device):", "@functools.lru_cache()\ndef care2bounds(device):", 'untranslatable')
case('load binding: star-imported module defines enumerate', 'functions.py', "import numpy as np\n", "import numpy as np\nenumerate = lambda x: zip(range(1, 1 + len(x)), x)\n", 'untranslatable')
case('load slice: bounds edited through a call', LD, "  bounds = np.stack((bounds[:,1], bounds[:,0]), axis=1)\n", "  bounds = np.stack((bounds[:,1], bounds[:,0]), axis=1)\n  np.negative(bounds, out=bounds)\n", 'untranslatable')
case('load slice: constructor gets another name', LD, "  return device_kit.ADevice(device_id, basis, bounds)\n", "  other = 0*bounds\n  return device_kit.ADevice(device_id, basis, other)\n")
case('load harmless: sorted(run[\'runs\'], key=int)', LD, "points = sorted(run['runs'].keys(), key=int)\n  for i,v in enumerate(points):\n    e = int", "points = sorted(run['runs'], key=int)\n  for i,v in enumerate(points):\n    e = int", 'same')
case('load harmless: .append vs +=', LD, "_array.append([l,h,int(v),e])", "_array += [[l,h,int(v),e]]", 'same')
case('load harmless: np.all(...)', LD, "(bounds[:,0] != bounds[:,1]).all()", "np.all(bounds[:,0] != bounds[:,1])", 'same')
case('load harmless: comment', LD, "  item_template = run['runs']['0']\n", "  # the template decides the shape\n  item_template = run['runs']['0']\n", 'same')


def strip(text):
  return '\n'.join(l for l in text.split('\n') if l.strip() and not l.lstrip().startswith('--') and not l.startswith('/--'))


def outcome(root):
  """({name: stripped Lean}, [fallback units]) of all five translators on the package copy under `root`."""
  texts, fb = {}, []
  t, u, f = T1.translate_kernels(os.path.join(root, 'device_kit', 'functions.py')); texts['Kernels'] = strip(t); fb += ['%s: %s' % (n, why) for n, w, why in f]
  t, u, f = TVal.translate_validators(root); texts['Validators'] = strip(t); fb += ['%s: %s' % (n, why) for n, w, why in f]
  tx, u, f, _ = TV.translate_all(root); texts.update({'Vec/' + g: strip(x) for g, x in tx.items()}); fb += ['vec.%s @ %s: %s' % x for x in f]
  tx, u, f, _ = TS.translate_all(root); texts.update({'Sets/' + g: strip(x) for g, x in tx.items()}); fb += ['sets.%s @ %s: %s' % x for x in f]
  tx, u, f, _ = TL.translate_all(root); texts.update({'Loaders/' + g: strip(x) for g, x in tx.items()}); fb += ['load.%s @ %s: %s' % x for x in f]
  return texts, fb


def main():
  ap = argparse.ArgumentParser()
  ap.add_argument('--repo', default=os.environ.get('DK_REPO', '/repo'))
  ap.add_argument('--bridge', action='store_true')
  ap.add_argument('filter', nargs='*')
  a = ap.parse_args()
  tmp = tempfile.mkdtemp(prefix='t1test_')
  bad = []
  try:
    pk = os.path.join(tmp, 'device_kit')
    shutil.copytree(os.path.join(a.repo, 'device_kit'), pk, ignore=shutil.ignore_patterns('__pycache__'))
    base, fb0 = outcome(tmp)
    if fb0:
      print('FAIL pristine tree has untranslatable units:', fb0); bad.append('pristine')
    for label, f, old, new, expect in C:
      if a.filter and not any(x in label for x in a.filter): continue
      p = os.path.join(pk, f)
      src = open(p).read()
      if src.count(old) < 1:
        print('FAIL %-62s the text to edit is not in %s (update the test)' % (label, f)); bad.append(label); continue
      open(p, 'w').write(src.replace(old, new, 1))
      try:
        try:
          texts, fb = outcome(tmp)
        except Exception as ex:
          print('FAIL %-62s translator crashed: %s: %s' % (label, type(ex).__name__, ex)); bad.append(label); continue
        changed = sorted(k for k in texts if texts[k] != base.get(k))
        got = 'untranslatable' if fb else ('differs' if changed else 'same')
        ok = (got == expect) or (expect == 'differs' and got == 'untranslatable')
        extra = ''
        if ok and a.bridge and got == 'differs':
          extra = bridge_fails(tmp)
          ok = extra.startswith('bridge fails')
        print('%s %-62s expect=%-14s got=%-14s %s %s' % ('ok  ' if ok else 'FAIL', label, expect, got, ','.join(changed)[:50], (fb[0][:110] if fb else extra)))
        if not ok: bad.append(label)
      finally:
        open(p, 'w').write(src)
  finally:
    shutil.rmtree(tmp, ignore_errors=True)
    if a.bridge:
      T1.regenerate_all(a.repo)
  print('%d cases, %d failed%s' % (len([c for c in C if not a.filter or any(x in c[0] for x in a.filter)]), len(bad), (': ' + '; '.join(bad)) if bad else ''))
  sys.exit(1 if bad else 0)


def bridge_fails(root):
  T1.regenerate_all(root)
  r = subprocess.run(['lake', 'build', 'DK.Lemmas.Bridge', 'DK.Lemmas.ValidateBridge', 'DK.Lemmas.BridgeVec', 'DK.Lemmas.BridgeSets', 'DK.Lemmas.BridgeLoaders'],
                     cwd=os.path.join(HERE, '..', 'lean'), capture_output=True, text=True)
  return 'bridge fails' if r.returncode != 0 else 'BRIDGE STILL BUILDS'


if __name__ == '__main__':
  main()
