"""Generic check runner:  python -m vk.check CNN --tier quick|thorough [--replay file]

Decision procedure (DESIGN.md §2.5):
  regenerate Gen (T1) -> lake build of the property's cone -> axiom audit -> T2 correspondence
  (corpus, then random) -> property oracle on the implementation.
  all green                         -> evidence, exit 0
  failure listed in known_findings  -> KNOWN-FINDING line, continue
  anything red                      -> failing-input search with the property's own oracle;
                                       VIOLATION with the input as replay, or
                                       VIOLATION ... no-failing-input-found naming what no longer checks
  tool failure                      -> exit 2
"""
import sys, os, json, time, random, argparse, importlib, traceback
from . import common as C
from . import translate
from . import translate_vec
from . import translate_sets
from . import translate_loaders

# per-group bridge families: (lemma prefix, umbrella module, lemma -> module table, unit prefix in t1_fallback_units,
#                           key of the `untranslatable unit -> lemmas about it / its callers` table)
BRIDGE_FAMILIES = [
  ('DK.BridgeVec.', 'DK.Lemmas.BridgeVec', translate_vec.bridge_modules, 'vec.', 't1_vec_fallback_lemmas'),
  ('DK.BridgeSets.', 'DK.Lemmas.BridgeSets', translate_sets.bridge_modules, 'sets.', 't1_sets_fallback_lemmas'),
  ('DK.BridgeLoaders.', 'DK.Lemmas.BridgeLoaders', translate_loaders.bridge_modules, 'load.', 't1_load_fallback_lemmas'),
]


class Op:
  """one operation sent to both sides."""
  def __init__(self, line, impl, tol=1e-9, what=''):
    self.line, self.impl, self.tol, self.what = line, impl, tol, what


class Prop:
  id = None
  lean_module = None      # module holding the property theorems
  theorems = []           # fully qualified names = proof obligations
  bridge = []             # bridge lemmas (T1) this property depends on
  uses_t1 = False
  rule = ''
  sizes = {'quick': 300, 'thorough': 6000}

  def cases(self, rng, tier, count): raise NotImplementedError
  def ops(self, case): return []
  def oracle(self, case): return []            # list of {'key': {...}, 'detail': str}
  def nontrivial(self, case): return True
  def canon(self, case): return json.dumps(case, sort_keys=True, default=str)
  def corpus(self): return []
  def extra_evidence(self): return {}


def load_prop(pid):
  mod = importlib.import_module('vk.props.' + pid.lower())
  return mod.PROP


def strip_private(x):
  if isinstance(x, dict):
    return {k: strip_private(v) for k, v in x.items() if not k.startswith('_')}
  if isinstance(x, list):
    return [strip_private(v) for v in x]
  return x


def run(pid, tier, seed, replay=None):
  t0 = time.time()
  prop = load_prop(pid)
  rng = random.Random(seed * 1000003 + int(pid[1:]))
  known = C.load_known(pid)
  red = []          # things that no longer check: (kind, name, detail)
  info = {}

  # ---- T1
  if prop.uses_t1:
    t1 = translate.regenerate_all(C.REPO)
    info.update({'t1_units': t1['t1_units'], 't1_fallback_units': t1['t1_fallback_units']})
    for k in ('t1_vec_t2_only', 't1_sets_t2_only', 't1_load_t2_only'):
      if t1.get(k):
        info[k] = t1[k]      # vector / set-level units read but outside the T1v / T1s subset: tied by T2 only
    elsewhere = []
    for u in t1['t1_fallback_units']:
      fam = [f for f in BRIDGE_FAMILIES if u.startswith(f[3])]
      if fam:
        # a vector / set-level unit concerns this property only through the bridge lemmas the property audits (blast
        # radius: the unit and the units that call it); otherwise it is recorded in the evidence and belongs to other checks
        lemmas = t1.get(fam[0][4], {}).get(u.split(' @')[0][len(fam[0][3]):], [])
        if not set(lemmas) & set(prop.bridge):
          elsewhere.append(u)
          continue
      red.append(('t1-untranslatable', u, 'source unit is outside the translatable subset'))
    if elsewhere:
      info['t1_fallback_units_not_audited_here'] = elsewhere

  # ---- proofs
  ok_model, log_model = C.lake_build(['DK.Driver.Main'])
  if not ok_model:
    errs = C.build_errors(log_model)
    if prop.uses_t1 and (any('Gen/' in e or 'Gen.' in e for e in errs) or any(r[0] == 't1-untranslatable' for r in red)):
      red.append(('t1-gen-does-not-compile', 'DK.Gen', '; '.join(errs[:3])))
    else:
      print('TOOL FAILURE: model driver does not build\n' + log_model[-3000:])
      return 2
  # proof obligations: {module: [theorem names]}; `theorems` may be a plain list (all in lean_module)
  groups = dict(prop.theorems) if isinstance(prop.theorems, dict) else {prop.lean_module: list(prop.theorems)}
  tables = {f[0]: (f[2]() if any(b.startswith(f[0]) for b in prop.bridge) else {}) for f in BRIDGE_FAMILIES}
  for b in prop.bridge:
    # every bridge lemma is built and audited from the module that proves it: scalar kernels in DK.Lemmas.Bridge, vector
    # bodies in DK.Lemmas.BridgeVec.<Group>, set-level glue in DK.Lemmas.BridgeSets.<Group> (tables read off the Lean
    # sources), so that a broken unit of another source group does not stop this property's own obligations from compiling
    fam = [f for f in BRIDGE_FAMILIES if b.startswith(f[0])]
    bmod = tables[fam[0][0]].get(b, fam[0][1]) if fam else 'DK.Lemmas.Bridge'
    groups[bmod] = list(groups.get(bmod, [])) + [b]
  modules = sorted(set(list(groups) + ([prop.lean_module] if prop.lean_module else [])))
  obligations = [t for m in groups for t in groups[m]]
  discharged = 0
  ok_proofs, log_proofs = C.lake_build(modules)
  axioms = {}
  if ok_proofs:
    vec_groups = [m for m in groups if m.startswith(('DK.Lemmas.BridgeVec', 'DK.Lemmas.BridgeSets', 'DK.Lemmas.BridgeLoaders'))]
    for m in groups:
      if m not in vec_groups:
        ax, raw = C.audit_axioms(m, groups[m])
        axioms.update(ax)
    if vec_groups:      # the (already built) per-group bridge modules are audited together, in one Lean process
      ax, raw = C.audit_axioms(vec_groups, [t for m in vec_groups for t in groups[m]])
      axioms.update(ax)
    for t in obligations:
      if t not in axioms:
        red.append(('theorem-missing', t, 'not found by #print axioms'))
      elif not set(axioms[t]) <= C.ALLOWED_AXIOMS:
        red.append(('axiom-audit', t, 'depends on ' + ', '.join(sorted(set(axioms[t]) - C.ALLOWED_AXIOMS))))
      else:
        discharged += 1
  else:
    errs = C.build_errors(log_proofs)
    if not errs:
      print('TOOL FAILURE: lake build failed without a Lean error\n' + log_proofs[-3000:])
      return 2
    for e in errs[:6]:
      red.append(('proof-obligation', e.split(':')[0] + ':' + e.split(':')[1], e))
  if ok_proofs and tier == 'thorough' and not os.environ.get('VERIF_NO_LEANCHECKER'):
    # independent re-check of the compiled modules by Lean's leanchecker
    with C.LeanLock():
      r = C.sh(['lake', 'env', 'leanchecker'] + modules, cwd=C.LEAN, timeout=3000)
    info['leanchecker'] = {'modules': modules, 'exit': r.returncode, 'tail': ((r.stdout or '') + (r.stderr or ''))[-300:]}
    if r.returncode != 0:
      red.append(('leanchecker', ' '.join(modules), ((r.stdout or '') + (r.stderr or ''))[-300:]))
  forb = C.grep_forbidden()
  for f in forb:
    red.append(('forbidden-construct', f, 'sorry/admit/axiom/native_decide in the Lean sources'))

  # ---- cases
  count = int(os.environ.get('VERIF_CASES', prop.sizes[tier]))
  cases = list(prop.corpus())
  if replay:
    cases = [json.load(open(replay))['case']]
  else:
    cases += prop.cases(rng, tier, count)

  # ---- T2 correspondence
  disagreements = []
  n_ops = 0
  if ok_model:
    all_ops = []
    for ci, case in enumerate(cases):
      try:
        for op in prop.ops(case):
          all_ops.append((ci, op))
      except Exception as e:
        disagreements.append({'case': case, 'what': 'harness', 'why': 'building the case raised %s: %s' % (type(e).__name__, str(e)[:200])})
    lines = [strip_private(op.line) for _, op in all_ops]
    try:
      answers = C.run_model(lines)
    except Exception as e:
      print('TOOL FAILURE: ' + str(e)[-2000:])
      return 2
    for (ci, op), ans in zip(all_ops, answers):
      n_ops += 1
      got = C.canon_impl(op.impl)
      okk, why = C.agree(ans, got, op.tol)
      if not okk:
        disagreements.append({'case': cases[ci], 'what': op.what or op.line.get('op'), 'why': why, 'model': ans, 'impl': got})
  if disagreements:
    red.append(('correspondence', 'T2:' + str(disagreements[0]['what']), disagreements[0]['why']))

  # ---- oracle on the implementation
  failures = []
  def run_oracle(cs):
    for case in cs:
      try:
        for f in prop.oracle(case):
          f['case'] = case
          failures.append(f)
      except Exception as e:
        failures.append({'key': {'kind': 'oracle-raised', 'exc': type(e).__name__}, 'detail': traceback.format_exc()[-600:], 'case': case})
  def classify(fs):
    hits, unlisted = {}, []
    for f in fs:
      hit = None
      for m, text in known:
        if C.matches(m, f['key']):
          hit = text; break
      if hit:
        hits.setdefault(hit, f)
      else:
        unlisted.append(f)
    return hits, unlisted
  ordered = [d['case'] for d in disagreements] + cases
  run_oracle(ordered)
  known_hits, new = classify(failures)
  if red and not new and not replay:
    # something no longer checks but no UNLISTED failing input yet (known findings do not count): widen the search
    extra = prop.cases(random.Random(seed * 7919 + 13), tier, count * 4)
    run_oracle(extra)
    info['widened_search_cases'] = len(extra)
    known_hits, new = classify(failures)
  for text in known_hits:
    print('KNOWN-FINDING: property=%s %s' % (pid, text))

  # ---- evidence
  distinct = set()
  for c in cases:
    if prop.nontrivial(c):
      distinct.add(prop.canon(strip_private(c)))
  ev = {
    'property_id': pid, 'tier': tier, 'seed': seed, 'level': 'proof',
    'coverage': {
      'obligations': max(1, len(obligations)), 'discharged': discharged,
      'checker_cmd': 'cd lean && lake build %s && lake env lean <#print axioms of every listed theorem>' % ' '.join(modules),
      'trusted_base': C.TRUSTED_BASE,
      'theorems': obligations, 'axioms': axioms,
      'evaluations': len(cases), 'distinct_nontrivial': len(distinct), 'rule': prop.rule,
      'samples': [strip_private(c) for c in cases[:3]],
      'traces_validated_against_impl': n_ops, 'correspondence_disagreements': len(disagreements),
      'oracle_failures': len(failures), 'known_findings_reproduced': len(known_hits),
      'not_checking': [list(r) for r in red],
    },
    'assumptions': getattr(prop, 'assumptions', []),
    'wall_s': round(time.time() - t0, 2), 'violations': len(new) + (1 if (red and not new) else 0),
  }
  ev['coverage'].update(info)
  ev['coverage'].update(prop.extra_evidence())
  if not replay:
    C.write_evidence(pid, ev)

  # ---- decision
  if new:
    f = new[0]
    path = C.write_replay(pid, {'property': pid, 'kind': 'property_failure', 'seed': seed, 'case': strip_private_keep(f['case']),
                                'key': f['key'], 'detail': f['detail'], 'not_checking': [list(r) for r in red][:5]})
    print('VIOLATION property=%s replay=%s' % (pid, path))
    print('  ' + str(f['detail'])[:400])
    return 1
  if red:
    path = C.write_replay(pid, {'property': pid, 'kind': 'proof_obligation_or_correspondence', 'seed': seed,
                                'not_checking': [list(r) for r in red],
                                'case': strip_private_keep(disagreements[0]['case']) if disagreements else None,
                                'disagreement': {k: v for k, v in disagreements[0].items() if k != 'case'} if disagreements else None})
    print('VIOLATION property=%s replay=%s no-failing-input-found' % (pid, path))
    for r in red[:4]:
      print('  no longer checks: %s %s — %s' % r)
    return 1
  print('OK property=%s tier=%s seed=%d obligations=%d/%d cases=%d ops=%d distinct_nontrivial=%d wall=%.1fs' % (
    pid, tier, seed, discharged, len(obligations), len(cases), n_ops, len(distinct), time.time() - t0))
  return 0


def strip_private_keep(x):
  """replay files keep the python-side construction hints (`_py`, …) so they replay exactly."""
  try:
    json.dumps(x)
    return x
  except TypeError:
    return strip_private(x)


def main():
  ap = argparse.ArgumentParser()
  ap.add_argument('pid')
  ap.add_argument('--tier', default=os.environ.get('VERIF_TIER', 'quick'))
  ap.add_argument('--replay')
  a = ap.parse_args()
  seed = int(os.environ.get('VERIF_SEED', '0'))
  try:
    try:
      rc = run(a.pid.upper(), a.tier, seed, a.replay)
    finally:
      # a run against a scratch copy (DK_REPO) must not leave generated Lean files describing that copy
      if os.path.realpath(C.REPO) != os.path.realpath('/repo') and os.path.isdir('/repo/device_kit'):
        try:
          translate.regenerate_all('/repo')
        except Exception as e:
          print('warning: could not regenerate the generated Lean files from /repo: %s' % e)
  except AssertionError as e:
    print('TOOL FAILURE: ' + str(e)); rc = 2
  except Exception:
    traceback.print_exc(); rc = 2
  sys.exit(rc)


if __name__ == '__main__':
  main()
