"""Shared machinery of the checks: repo import, exact numbers, Lean driver, comparison,
evidence / replay writers, known findings, proof build + axiom audit."""
import os, sys, json, time, random, subprocess, math, re, fcntl, warnings, hashlib
from fractions import Fraction

HERE = os.path.dirname(os.path.abspath(__file__))
VERIF = os.path.dirname(HERE)
LEAN = os.path.join(VERIF, 'lean')
REPO = os.environ.get('DK_REPO', '/repo')
ALLOWED_AXIOMS = {'propext', 'Classical.choice', 'Quot.sound'}
TRUSTED_BASE = [
  'Lean 4.33 kernel; axioms propext, Classical.choice, Quot.sound only (audited per theorem by #print axioms)',
  'Mathlib v4.33 definitions used in statements (HasDerivAt, ConvexOn, Real.rpow, Finset.sum)',
  'vk/translate.py (T1: Python AST -> Lean for the scalar kernels) and DK/Lemmas/Bridge.lean',
  'vk/translate_vec.py (T1v: Python AST -> Lean index functions for the whitelisted vector method bodies; numpy broadcasting / shape inference as the translator models it) and DK/Lemmas/BridgeVec.lean',
  'vk/translate_sets.py (T1s: Python AST -> Lean list terms over abstract child records for the set-level glue of DeviceSet / MFDeviceSet / TwoRatioMFDeviceSet / SubBalancedDeviceSet / BaseDevice.map; flat <-> (row, slot) reshapes as the identity) and DK/Lemmas/BridgeSets/*.lean',
  'vk/translate_loaders.py (T1l: Python AST -> Lean `Except LoadErr` programs for run_to_array / run_to_cbounds_array / load_cbounds / the bounds slice of every load_<kind>_device / parameter_map tables / care2bounds / on2bounds; a JSON object with canonical decimal keys as an association list, `for` as List.foldlM, numpy arrays as index functions) and DK/Lemmas/BridgeLoaders/*.lean',
  'vk correspondence harness (T2): same JSON description drives the real classes and the Lean model at exact rationals',
  'IEEE-754 rounding, numpy broadcasting/reshape, SciPy SLSQP and numdifftools are modelled or parameters, not verified',
]

_repo_mod = None


def repo():
  """import device_kit from DK_REPO (in-process) and make sure it is that copy."""
  global _repo_mod
  if _repo_mod is None:
    warnings.simplefilter('ignore')
    if REPO not in sys.path:
      sys.path.insert(0, REPO)
    import device_kit
    got = os.path.realpath(device_kit.__file__)
    assert got.startswith(os.path.realpath(REPO) + os.sep), 'device_kit imported from %s, not %s' % (got, REPO)
    import numpy
    numpy.seterr(all='ignore')
    _repo_mod = device_kit
  return _repo_mod


# ---------------------------------------------------------------- exact numbers
def F(x):
  return x if isinstance(x, Fraction) else Fraction(x)


def fs(x):
  """Fraction -> protocol string."""
  x = F(x)
  return str(x.numerator) if x.denominator == 1 else '%d/%d' % (x.numerator, x.denominator)


def pf(s):
  """protocol string -> float."""
  return float(Fraction(s))


def jmap(f, v):
  """map over nested lists of protocol strings."""
  if isinstance(v, list):
    return [jmap(f, u) for u in v]
  return f(v)


def dy(rng, lo, hi, bits=2):
  """a dyadic rational k/2^bits in [lo, hi]."""
  q = 1 << bits
  a, b = math.ceil(F(lo)*q), math.floor(F(hi)*q)
  if b < a:
    return F(lo)
  return Fraction(rng.randint(a, b), q)


# ---------------------------------------------------------------- lean
class LeanLock:
  def __enter__(self):
    self.f = open(os.path.join(LEAN, '.lock'), 'w')
    fcntl.flock(self.f, fcntl.LOCK_EX)
    return self

  def __exit__(self, *a):
    fcntl.flock(self.f, fcntl.LOCK_UN)
    self.f.close()


def sh(cmd, cwd=None, timeout=3600, inp=None):
  return subprocess.run(cmd, shell=isinstance(cmd, str), cwd=cwd, capture_output=True, text=True, timeout=timeout, input=inp)


def lake_build(targets, timeout=3000):
  """build the given modules; returns (ok, log)."""
  with LeanLock():
    r = sh(['lake', 'build'] + list(targets), cwd=LEAN, timeout=timeout)
  log = (r.stdout or '') + (r.stderr or '')
  return r.returncode == 0, log


def build_errors(log):
  """names of theorems / files with errors, best effort, from a lake log."""
  errs = re.findall(r'^error: (\S+?):(\d+):(\d+): (.*)$', log, re.M)
  return ['%s:%s: %s' % (f, l, m[:120]) for f, l, c, m in errs]


def audit_axioms(module, theorems):
  """#print axioms for each theorem (visible from `module`, a name or a list of names); returns {theorem: [axioms]} or raises on tool failure."""
  mods = [module] if isinstance(module, str) else list(module)      # several modules: one Lean process for all of them
  src = ''.join('import %s\n' % m for m in mods) + ''.join('#print axioms %s\n' % t for t in theorems)
  path = os.path.join(LEAN, '.audit_%d.lean' % os.getpid())
  open(path, 'w').write(src)
  try:
    with LeanLock():
      r = sh(['lake', 'env', 'lean', path], cwd=LEAN, timeout=1200)
  finally:
    os.unlink(path)
  out = (r.stdout or '') + (r.stderr or '')
  res = {}
  for m in re.finditer(r"'([^']+)' depends on axioms: \[([^\]]*)\]", out, re.S):
    res[m.group(1)] = [a.strip() for a in m.group(2).replace('\n', ' ').split(',') if a.strip()]
  for m in re.finditer(r"'([^']+)' does not depend on any axioms", out):
    res[m.group(1)] = []
  return res, out


def grep_forbidden():
  """sorry / admit / own axioms / native_decide … outside comments, over lean/DK."""
  bad = []
  pat = re.compile(r'\b(sorry|admit|native_decide|bv_decide|implemented_by|unsafe)\b|^\s*axiom\s|maxHeartbeats\s+0\b')
  for root, _, files in os.walk(os.path.join(LEAN, 'DK')):
    for fn in files:
      if not fn.endswith('.lean'):
        continue
      txt = open(os.path.join(root, fn)).read()
      txt = re.sub(r'/-.*?-/', lambda m: '\n' * m.group(0).count('\n'), txt, flags=re.S)
      for k, line in enumerate(txt.split('\n')):
        line = line.split('--')[0]
        if pat.search(line):
          bad.append('%s:%d: %s' % (os.path.relpath(os.path.join(root, fn), LEAN), k + 1, line.strip()[:80]))
  return bad


def run_model(lines, timeout=3600):
  """send JSON lines to the Lean driver; returns parsed answers (same length)."""
  if not lines:
    return []
  inp = '\n'.join(json.dumps(l) if not isinstance(l, str) else l for l in lines) + '\n'
  with LeanLock():
    r = sh(['lake', 'env', 'lean', '--run', 'Main.lean'], cwd=LEAN, timeout=timeout, inp=inp)
  if r.returncode != 0:
    raise RuntimeError('lean driver failed: ' + (r.stderr or r.stdout)[-2000:])
  out = [json.loads(l) for l in r.stdout.split('\n') if l.strip()]
  if len(out) != len(lines):
    raise RuntimeError('lean driver answered %d of %d lines: %s' % (len(out), len(lines), (r.stderr or '')[-500:]))
  return out


# ---------------------------------------------------------------- comparison
def canon_impl(thunk):
  """run the implementation; canonicalise to {'ok': nested floats} / {'err': kind}."""
  import numpy as np
  try:
    v = thunk()
  except ValueError:
    return {'err': 'ValueError'}
  except TypeError:
    return {'err': 'TypeError'}
  except ZeroDivisionError:
    return {'err': 'undef'}
  except Exception as e:
    return {'err': 'other:' + type(e).__name__}
  try:
    a = np.array(v, dtype=float)
  except Exception:
    return {'err': 'nonnumeric'}
  return {'ok': a.tolist(), 'shape': list(a.shape)}


def flat(v):
  if isinstance(v, list):
    out = []
    for u in v:
      out += flat(u)
    return out
  return [v]


def model_floats(v):
  """model answer (nested protocol strings) -> flat list of float / None(undef) / 'numeric'."""
  out = []
  for u in flat(v):
    if u == 'undef':
      out.append(None)
    elif u == 'numeric':
      out.append('numeric')
    else:
      out.append(pf(u))
  return out


def agree(model_ans, impl_ans, tol=1e-9, numeric_tol=None):
  """True / (False, why). Undefined in the model must be non-finite or an arithmetic error in the implementation."""
  if 'err' in model_ans:
    return False, 'model error: ' + str(model_ans['err'])
  mv = model_floats(model_ans['ok'])
  if 'err' in impl_ans:
    if impl_ans['err'] == 'undef' and any(x is None for x in mv):
      return True, ''
    return False, 'implementation raised %s, model gives a value' % impl_ans['err']
  iv = flat(impl_ans['ok'])
  if len(mv) != len(iv):
    return False, 'sizes differ: model %d, implementation %d (shape %s)' % (len(mv), len(iv), impl_ans.get('shape'))
  for k, (a, b) in enumerate(zip(mv, iv)):
    if a == 'numeric':
      continue
    if a is None:
      if math.isfinite(b):
        return False, 'entry %d: model undefined, implementation %r' % (k, b)
      continue
    if not math.isfinite(b):
      return False, 'entry %d: model %r, implementation %r' % (k, a, b)
    if abs(a - b) > tol*max(1.0, abs(a), abs(b)):
      return False, 'entry %d: model %.12g, implementation %.12g' % (k, a, b)
  return True, ''


# ---------------------------------------------------------------- findings / replay / evidence
def load_known(pid):
  """known_findings.txt -> list of (match dict, text) for open entries of this property."""
  out = []
  p = os.path.join(VERIF, 'known_findings.txt')
  if not os.path.exists(p):
    return out
  for line in open(p):
    line = line.strip()
    m = re.match(r'open: property=(\S+) match=(\{.*?\}) (.*)$', line)
    if m and m.group(1) == pid:
      out.append((json.loads(m.group(2)), m.group(3)))
  return out


def matches(match, key):
  """every field of `match` must equal the field of the canonical failure key (lists = any-of)."""
  for k, v in match.items():
    kv = key.get(k)
    if isinstance(v, list):
      if kv not in v:
        return False
    elif kv != v:
      return False
  return True


def write_replay(pid, obj):
  d = os.environ.get('VERIF_REPLAY_DIR') or os.path.join(VERIF, 'replays')
  os.makedirs(d, exist_ok=True)
  h = hashlib.sha1(json.dumps(obj, sort_keys=True, default=str).encode()).hexdigest()[:10]
  path = os.path.join(d, '%s-%s.json' % (pid, h))
  json.dump(obj, open(path, 'w'), indent=1, default=str)
  return os.path.relpath(path, VERIF) if path.startswith(VERIF) else path


def write_evidence(pid, ev):
  d = os.environ.get('VERIF_EVIDENCE_DIR') or os.path.join(VERIF, 'evidence')
  os.makedirs(d, exist_ok=True)
  tmp = os.path.join(d, '.%s.%d.tmp' % (pid, os.getpid()))
  json.dump(ev, open(tmp, 'w'), indent=1, default=str)
  os.replace(tmp, os.path.join(d, '%s.json' % pid))
