#!/usr/bin/env python3
"""T1v — translate VECTOR method bodies of device_kit (numpy expressions over the flow vector) into Lean.

Regenerated on every check run from the *current* working tree of the repository (DK_REPO, default /repo).
Output: lean/DK/Gen/Vec/<Group>.lean, one module per source group (`group_of`; the import graph of the groups is the call
graph of the units) + the umbrella lean/DK/Gen/Vec.lean.  DK/Lemmas/BridgeVec/<Group>.lean proves each generated
definition equal (pointwise, for every horizon `n` and every input) to the hand-written model definition the property
theorems are about, so a change of the Python source either keeps the bridge provable (algebraically equivalent
rewrite) or breaks a proof obligation — of that group and of the groups that call it only (`bridge_module`,
`t1_vec_fallback_lemmas`: vk/check.py audits each lemma from the module that proves it and turns a property red for an
untranslatable unit only if the property's `bridge` list has a lemma about that unit or about a unit that calls it).

Denotation.  A numpy value of shape (n,) is an index function `Nat → α` (read at indices `< n`), of shape (n,m) a
function `Nat → Nat → α`, a Python int / `len(...)` a `Nat`; scalars broadcast.  The translator carries, for every
sub-expression, its kind (scalar / vector / column / matrix / nat / static int / python list / function object / lambda),
its per-index Lean text and, where known, its length as a Lean `Nat` term.

Supported subset (anything else makes the unit UNTRANSLATABLE — a comment in Vec.lean, a record with file:line in the
return value, and a failing bridge lemma; nothing is guessed):
  statements : docstring; `x = e` (straight line; `r = r.reshape(len(self))` is the identity); `x += e`;
               `if c: return e` / `if c: raise` (c static or a scalar comparison); `return e`;
               `d = …; for i in range(a, b): d += e(i)`  (accumulation -> `d + sumTo/sumRange`)
  expressions: names, int literals, + - * / (broadcast), unary minus, `** k` (literal k <= 4), `e ** np.sign(y)`,
               `s ** <nat-valued>` (npow), x.sum([axis]), x.dot(y), x.cumsum([axis=1]), x.diagonal(), x.transpose(),
               x.reshape(len(self)) / (-1) / (n,1), x[i], x[a:b], M[i], len(self) / len(x) / len(x.shape), float(x),
               np.ones / zeros / array / hstack / minimum / maximum / abs / sign / tril / triu / arange / diag /
               atleast_1d, `np.vectorize(K, otypes=[float])(args…)` for a scalar kernel K already translated by
               vk/translate.py, list displays and `[e(i) for i in range(a, b)]`, `[row.f() for row in M]`, list `+`,
               `self.x` (declared parameter, simple property, or attribute assigned once in `__init__`),
               `self.m(…)` / `f(…)` / `obj(…)` / `obj.m(…)` for units translated earlier (called, not inlined),
               lambdas bound in `__init__`, nested `def`s and dict-valued lambdas of a `constraints` property.
Modelling assumptions of this translator (trusted, cross-checked by T2): numpy shape inference and broadcasting,
`reshape` of a flow to `(len(self),)` is the identity, Python ints used as lengths/indices are `Nat` (truncated `-`),
`np.ones` in an exponent matrix (`power_matrix`) is the natural number 1 and `s ** k` for such k is `npow s k`,
`e ** np.sign(y)` is `e`, `1` or `1/e`.

Soundness rules (a form the denotation cannot express faithfully is UNTRANSLATABLE, never read as the benign form;
regression tests: vk/test_translators.py):
  * keywords: only the modelled ones (`axis=` of sum / cumsum, `dtype=float|np.float64` of array / ones / zeros,
    `otypes=[float]` — required — of np.vectorize); `dtype=int|float16|…`, `out=`, `order=`, … reject the unit;
  * in-place operators (`+=` …) only on a local name bound to a NEW array (np.zeros(…), an arithmetic result); on a
    parameter, a `self.` attribute, an alias / view / reshape of one, or the result of another function they mutate
    caller / shared (lru-cached) state and are rejected;
  * a flow / price parameter is (n,) or (1, n) as passed in ("raw"): elementwise arithmetic, `.sum()`, `.size`,
    `.cumsum()` and `reshape(len(self))`, `reshape((len(self),))`, `reshape(-1)` are denoted; `len(x)`, `x[i]`, `x[a:b]`,
    `.shape`, hstack, np.diag, `.dot(x)` of a raw value, `.flatten()/.ravel()/np.squeeze` are rejected; a unit declared
    `V1` takes a one-dimensional vector (its callers must hand it one); `x.dot(y)` needs y to be a known vector of the same
    length; a vector built with an explicit length (ones / zeros / arange) must have the length of what it is combined
    with; `e ** np.sign(y)` needs e or y to be known float (`float(e)`, `np.array(y, dtype=float)`);
  * a lambda / nested def that reads a name its enclosing function rebinds (loop variable, name assigned twice or in a
    loop) without capturing it as a default argument is late-binding and rejected;
  * what binds the name of a unit besides its `def` (module-level / class-body rebinding, setattr, duplicate defs,
    decorators other than the reviewed ones, a local definition or foreign import shadowing a helper) rejects it;
  * every attribute read as a parameter (`self.c1`, `self.lbounds`, the fields of HLQuadraticCost …) or derived in
    `__init__` (`_sustainment_matrix`, `_cost_fn`, `t_base`) must be DEFINED exactly as reviewed: the statements that
    assign it anywhere in the class, its class-body default and its property are pinned verbatim in vk/t1_pins.json
    (`python vk/translate_vec.py --pins /repo` rewrites the file after a review).
"""
import ast, os, sys, hashlib, re

HERE = os.path.dirname(os.path.abspath(__file__))
if __name__ == '__main__' or __package__ in (None, ''):
  sys.path.insert(0, os.path.join(HERE, '..'))
  from vk import translate as T1
else:
  from . import translate as T1

REPO = os.environ.get('DK_REPO', '/repo')
GEN = os.path.join(HERE, '..', 'lean', 'DK', 'Gen')
Unsupported = T1.Unsupported

# ----------------------------------------------------------------------------------------------- configuration
# class -> ordered {attribute: kind}.  Kinds: S scalar, V vector (a scalar parameter is the constant vector),
# VE vector of exponents (type ε), N nat.  Every method of the class takes all of them, in this order.
ATTRS = {
  'Device': {},
  'CDevice': {'a': 'S', 'b': 'S'},
  'SDevice': {'c1': 'S', 'c2': 'S', 'c3': 'S', 'capacity': 'S', 'damage_depth': 'S', 'start': 'S', 'reserve': 'S',
              'efficiency': 'S', 'sustainment': 'S', 'rate_clip[0]': 'S', 'rate_clip[1]': 'S', 'lbounds': 'V', 'hbounds': 'V'},
  'IDevice2': {'p_l': 'V', 'p_h': 'V', 'lbounds': 'V', 'hbounds': 'V'},
  'IDevice': {'a': 'V', 'b': 'VE', 'c': 'V', 'lbounds': 'V', 'hbounds': 'V'},
  'TDevice': {'sustainment': 'S', 'efficiency': 'S', 't_init': 'S', 't_optimal': 'S', 't_range': 'S', 't_external': 'V', 'c': 'V'},
  'HLQuadraticCost': {'p_l': 'V', 'p_h': 'V', 'x_l': 'V', 'x_h': 'V'},
  'ABCCost': {'a': 'V', 'b': 'VE', 'c': 'V', 'x_l': 'V', 'x_h': 'V'},
  'ReflectedFunction': {'function': 'O'},
  'InnerSumFunction': {'outer_function': 'O1'},
  'NullFunction': {},
  # the function objects these two classes build in a setter / in `__init__` are parameters (their construction is T2-only)
  'GDevice': {'_cost_fn': 'OV', '_cost_d1_fn': 'OV', '_cost_d2_fn': 'OV'},
  'CDevice2': {'_cost_fn': 'O'},
  # VL: one coefficient list (highest degree first) per slot
  'Poly2D': {'coeffs': 'VL'},
  'Poly2DOffset': {'coeffs': 'VL', 'offsets': 'V'},
}
# attributes that are opaque parameters although their property computes something (documented per-slot bounds)
OPAQUE = {'lbounds', 'hbounds'}
DEFAULT_ARG = {'s': 'V', 'r': 'V', 'p': 'V', 'x': 'V', 't': 'V'}
FILES = {'Device': 'device.py', 'CDevice': 'cdevice.py', 'SDevice': 'sdevice.py', 'IDevice2': 'idevice2.py', 'IDevice': 'idevice.py',
         'TDevice': 'tdevice.py', 'HLQuadraticCost': 'functions.py', 'ABCCost': 'functions.py', 'ReflectedFunction': 'functions.py',
         'InnerSumFunction': 'functions.py', 'NullFunction': 'functions.py', 'GDevice': 'gdevice.py', 'CDevice2': 'cdevice2.py', 'Poly2D': 'functions.py', 'Poly2DOffset': 'functions.py',
         None: 'utils.py'}


def group_of(cls, fn, sub):
  """source group of a unit = the generated module it goes to.  Groups follow the call graph (a group imports the groups
  its units call), so a changed / untranslatable unit can only break its own group and the groups that call it."""
  if cls is None: return 'Utils'
  if cls == 'Device': return 'DeviceCons' if sub else 'Device'
  if cls == 'SDevice':
    if sub: return 'SDeviceCons'
    return 'SDevice' if fn in ('base', 'charge_at', 'charge_at_lossless') else 'SDeviceCost'
  if cls == 'TDevice': return 'TDevice' if fn in ('_make_t_base', 'r2t') else 'TDeviceCost'
  if cls in ('HLQuadraticCost', 'ABCCost'): return 'Kernels'
  if cls in ('IDevice', 'IDevice2'): return 'IDevice'
  if cls in ('NullFunction', 'ReflectedFunction', 'InnerSumFunction', 'Poly2D', 'Poly2DOffset'): return 'Fn'
  return cls       # CDevice, GDevice, CDevice2


GROUPS = ['Utils', 'Device', 'CDevice', 'SDevice', 'SDeviceCost', 'SDeviceCons', 'DeviceCons', 'Kernels', 'IDevice', 'TDevice',
          'TDeviceCost', 'Fn', 'GDevice', 'CDevice2']

# bridge lemmas (DK.BridgeVec.<name>) that are not named after exactly one unit: lemma -> the units it is about.
# Every other audited lemma `DK.BridgeVec.<unit>` is about the unit of that name.
LEMMA_UNITS = {
  'Device_constraints': ['Device_constraints_fun0', 'Device_constraints_jac0', 'Device_constraints_fun1', 'Device_constraints_jac1'],
  'SDevice_constraints_socCons': ['SDevice_constraints_fun0', 'SDevice_constraints_jac0', 'SDevice_constraints_fun1', 'SDevice_constraints_jac1'],
  'ABCCost_fn': ['ABCCost_call', 'ABCCost_deriv', 'ABCCost_hess'],
  'TDevice_t_base': ['TDevice_make_t_base'],
}


class U:
  """one whitelisted unit: (class or None for utils.py, function name, optional sub-address inside the function)."""
  def __init__(self, cls, fn, args=None, sub=None, mode='a', lean=None):
    self.cls, self.fn, self.args, self.sub, self.mode = cls, fn, args or {}, sub, mode
    base = (cls or 'utils') + '_' + {'__call__': 'call'}.get(fn, fn.lstrip('_'))
    self.lean = lean or (base + ('_' + sub if sub else ''))
    self.file = FILES[cls]
    self.key = (cls, fn, sub)
    self.group = group_of(cls, fn, sub)      # Lean module DK.Gen.Vec.<group> / DK.Lemmas.BridgeVec.<group>
    self.calls = []                          # lean names of the translated units this one calls (filled by the translation)
    # filled by the translation
    self.ok = False; self.params = []; self.ret = None; self.uses_pow = False; self.uses_cast = False; self.line = 0; self.has_n = False
    self.retlen = None


UNITS = [
  # utils.py
  U(None, 'power_matrix', {'l': 'N'}, mode='n'),
  U(None, 'sustainment_matrix', {'s': 'S', 'l': 'N'}),
  U(None, 'base_soc', {'b': 'S', 's': 'S', 'l': 'N'}),
  U(None, 'soc', {'r': 'V1', 's': 'S', 'e': 'S'}),      # V1: one-dimensional (the function itself raises on any other shape)
  # Device / CDevice
  U('Device', 'cost'), U('Device', 'deriv'), U('Device', 'hess'),
  U('CDevice', 'cost'), U('CDevice', 'deriv'), U('CDevice', 'hess'),
  # storage
  # charge_at / deep_damage_at(_deriv) hand `r` to utils.soc, which accepts a (len(self),) vector only: V1.  A caller that
  # hands them a flow it did not reshape (dropped `r = r.reshape((len(self),))`) is untranslatable.
  U('SDevice', 'base'), U('SDevice', 'charge_at', {'r': 'V1'}), U('SDevice', 'charge_at_lossless'),
  U('SDevice', 'deep_damage_at', {'r': 'V1'}),
  # `r` is one-dimensional by contract: the helper is reached through charge_costs_deriv after `r.reshape((len(self),))`,
  # and for any other shape its own `charge_at -> utils.soc` raises (shape guard), so it has no value to denote there
  U('SDevice', 'deep_damage_at_deriv', {'r': 'V1'}), U('SDevice', 'flip_cost_at'),
  U('SDevice', 'charge_costs'), U('SDevice', 'charge_costs_deriv'),
  U('SDevice', 'costv'), U('SDevice', 'cost'), U('SDevice', 'deriv'),
  # function classes over the scalar kernels
  U('HLQuadraticCost', '__call__'), U('HLQuadraticCost', 'deriv'), U('HLQuadraticCost', 'hess'),
  U('ABCCost', '__call__'), U('ABCCost', 'deriv'), U('ABCCost', 'hess'),
  U('IDevice2', 'costv'), U('IDevice2', 'cost'), U('IDevice2', 'deriv'), U('IDevice2', 'hess'),
  U('IDevice', 'costv'), U('IDevice', 'cost'), U('IDevice', 'deriv'), U('IDevice', 'hess'),
  # thermal
  U('TDevice', '_make_t_base', {'t_external': 'V1', 'sustainment': 'S', 't_init': 'S'}),
  U('TDevice', 'r2t'), U('TDevice', 'costv_t'), U('TDevice', 'deriv_t'),
  U('TDevice', 'costv'), U('TDevice', 'cost'), U('TDevice', 'deriv'),
  # combinators of functions.py (higher order: the wrapped function object is a parameter)
  U('NullFunction', '__call__'), U('NullFunction', 'deriv'), U('NullFunction', 'hess'),
  U('ReflectedFunction', '__call__'), U('ReflectedFunction', 'deriv'), U('ReflectedFunction', 'hess'),
  U('InnerSumFunction', '__call__'),
  # functions.py documents its input as a vector (N,) and uses len(x) as N (so the unit is about vectors)
  U('InnerSumFunction', 'deriv', {'x': 'V1'}), U('InnerSumFunction', 'hess', {'x': 'V1'}),
  U('Poly2D', 'vector'), U('Poly2D', '__call__'), U('Poly2DOffset', 'vector'), U('Poly2DOffset', '__call__'),
  # wrappers around a function object built elsewhere (setter / __init__): sign conventions and price terms
  U('GDevice', 'costv'), U('GDevice', 'cost'), U('GDevice', 'deriv'), U('GDevice', 'hess'),
  U('CDevice2', 'cost'), U('CDevice2', 'deriv'), U('CDevice2', 'hess'),
  # constraint closures
  U('Device', 'constraints', {'l': 'S', 'h': 'S', 's': 'N', 'e': 'N', 'x': 'V'}, sub='fun0'),
  U('Device', 'constraints', {'l': 'S', 'h': 'S', 's': 'N', 'e': 'N', 'x': 'V'}, sub='jac0'),
  U('Device', 'constraints', {'l': 'S', 'h': 'S', 's': 'N', 'e': 'N', 'x': 'V'}, sub='fun1'),
  U('Device', 'constraints', {'l': 'S', 'h': 'S', 's': 'N', 'e': 'N', 'x': 'V'}, sub='jac1'),
  U('SDevice', 'constraints', {'r': 'V', 'i': 'N'}, sub='soc'),
  U('SDevice', 'constraints', {'r': 'V', 'i': 'N'}, sub='fun0'), U('SDevice', 'constraints', {'r': 'V', 'i': 'N'}, sub='jac0'),
  U('SDevice', 'constraints', {'r': 'V', 'i': 'N'}, sub='fun1'), U('SDevice', 'constraints', {'r': 'V', 'i': 'N'}, sub='jac1'),
  U('SDevice', 'constraints', {'r': 'V', 'i': 'N'}, sub='fun2'), U('SDevice', 'constraints', {'r': 'V', 'i': 'N'}, sub='fun3'),
  U('SDevice', 'constraints', {'r': 'V', 'i': 'N'}, sub='fun4'), U('SDevice', 'constraints', {'r': 'V', 'i': 'N'}, sub='jac4'),
]

# read and reported, but known to be outside the subset at the time of writing: tied to the model by T2 only.
# (name, where, why).  They are NOT fallback units (a fallback unit is a whitelisted unit that stopped translating).
T2_ONLY = [
  ('GDevice.cost_coeffs (construction of _cost_fn/_cost_d1_fn/_cost_d2_fn)', 'gdevice.py', 'bound in a property setter under a data-dependent branch (np.poly1d / lambda over Poly2D); the wrappers costv/cost/deriv/hess ARE translated with the callables as parameters'),
  ('CDevice2.__init__ (construction of _cost_fn)', 'cdevice2.py', 'bound under a branch from a comprehension over `self.cbounds` (RangesFunction of objects); the wrappers cost/deriv/hess ARE translated with the function object as a parameter'),
  ('Poly2D.deriv/hess, Poly2DOffset.deriv/hess', 'functions.py', 'lazily cached derivative objects built with np.polyadd / poly1d.deriv / np.concatenate (vector and __call__ ARE translated)'),
  ('SumFunction / RangesFunction / X2D', 'functions.py', 'Python list of function objects (model: binary `add` / `append` folds), `reduce`, slice assignment'),
  ('SDevice.hess / TDevice.hess', 'sdevice.py, tdevice.py', 'numdifftools'),
  ('DemandFunction', 'functions.py', 'np.argmax + item assignment'),
]

LEAN_RESERVED = {'at', 'from', 'fun', 'end', 'in', 'do', 'then', 'else', 'if', 'let', 'have', 'show', 'by', 'n', 'pow', 'cast', 'i', 'j',
                 'open', 'def', 'section', 'where', 'with', 'match', 'for', 'mut', 'return', 'Type'}


def lname(x):
  x = re.sub(r'\[(\d+)\]', r'_\1', x).lstrip('_')
  return x + '_' if (x in LEAN_RESERVED or re.fullmatch(r'k\d+', x)) else x


# ----------------------------------------------------------------------------------------------- values
def is_float_dtype(node):
  """`dtype=float` / `np.float64` / `np.double`: the only dtypes the real-number denotation stands for."""
  if isinstance(node, ast.Name) and node.id == 'float': return True
  return isinstance(node, ast.Attribute) and isinstance(node.value, ast.Name) and node.value.id == 'np' and node.attr in ('float64', 'double')


# numpy constructors whose result is a NEW array (an in-place operator on it cannot reach caller / shared state)
NP_FRESH = {'zeros', 'ones', 'array', 'arange', 'hstack', 'vstack', 'concatenate', 'minimum', 'maximum', 'abs', 'sign', 'tril', 'triu',
            'stack', 'tile', 'repeat'}


def fresh_expr(node):
  """does this expression build a new object (so that `x += …` on the name bound to it is local)?"""
  if isinstance(node, (ast.BinOp, ast.UnaryOp, ast.ListComp, ast.List, ast.Tuple, ast.Constant, ast.Dict)): return True
  if isinstance(node, ast.Call) and isinstance(node.func, ast.Attribute) and isinstance(node.func.value, ast.Name) \
     and node.func.value.id == 'np' and node.func.attr in NP_FRESH:
    return not any(k.arg in ('out', 'copy') for k in node.keywords)
  return False


def free_names(node):
  """names a lambda / nested def reads from its enclosing scope (not its parameters, not its own locals)."""
  args = node.args
  bound = {a.arg for a in args.args + args.kwonlyargs + ([args.vararg] if args.vararg else []) + ([args.kwarg] if args.kwarg else [])}
  body = node.body if isinstance(node.body, list) else [node.body]
  if not isinstance(node, ast.Lambda):
    for x in body:
      for y in ast.walk(x):
        if isinstance(y, (ast.Assign, ast.AugAssign, ast.For)):
          for t in (y.targets if isinstance(y, ast.Assign) else [y.target]):
            for z in ast.walk(t):
              if isinstance(z, ast.Name): bound.add(z.id)
  free = set()
  def walk(x, bound):
    if isinstance(x, (ast.Lambda, ast.FunctionDef)):
      inner = bound | {a.arg for a in x.args.args}
      for d in x.args.defaults: walk(d, bound)           # defaults are evaluated in the enclosing scope
      for y in (x.body if isinstance(x.body, list) else [x.body]): walk(y, inner)
      return
    if isinstance(x, ast.comprehension): pass
    if isinstance(x, (ast.ListComp, ast.GeneratorExp, ast.SetComp, ast.DictComp)):
      inner = set(bound)
      for g in x.generators:
        walk(g.iter, inner)
        for z in ast.walk(g.target):
          if isinstance(z, ast.Name): inner.add(z.id)
        for c in g.ifs: walk(c, inner)
      for y in ([x.elt] if hasattr(x, 'elt') else [x.key, x.value]): walk(y, inner)
      return
    if isinstance(x, ast.Name):
      if isinstance(x.ctx, ast.Load) and x.id not in bound: free.add(x.id)
      return
    for y in ast.iter_child_nodes(x): walk(y, bound)
  for x in body: walk(x, bound)
  return free


def unstable_names(fn):
  """names of a function body that do not have one fixed value for the closures created in it: bound more than once,
  or bound inside a loop (loop targets, assignments in loop bodies, tuple-unpacked loop items)."""
  count = {}; inloop = set()
  def targets(t):
    return [z.id for z in ast.walk(t) if isinstance(z, ast.Name)]
  def visit(stmts, loop):
    for s in stmts:
      if isinstance(s, (ast.FunctionDef, ast.Lambda)):
        if isinstance(s, ast.FunctionDef):
          count[s.name] = count.get(s.name, 0) + 1
          if loop: inloop.add(s.name)
        continue
      names = []
      if isinstance(s, ast.Assign):
        for t in s.targets: names += targets(t)
      elif isinstance(s, (ast.AugAssign, ast.AnnAssign)): names += targets(s.target)
      elif isinstance(s, ast.For): names += targets(s.target)
      elif isinstance(s, ast.With):
        for it in s.items:
          if it.optional_vars is not None: names += targets(it.optional_vars)
      for n_ in names:
        count[n_] = count.get(n_, 0) + 1
        if loop or isinstance(s, ast.For): inloop.add(n_)
      for fld in ('body', 'orelse', 'finalbody'):
        sub = getattr(s, fld, None)
        if isinstance(sub, list) and sub and isinstance(sub[0], ast.stmt):
          visit(sub, loop or isinstance(s, (ast.For, ast.While)))
      for h in getattr(s, 'handlers', []): visit(h.body, loop)
  visit(fn.body, False)
  return {n_ for n_, c in count.items() if c > 1} | inloop


# ----------------------------------------------------------------------------------------------- bindings around the units
HELPERS = ('soc', 'base_soc', 'sustainment_matrix', 'power_matrix', 'zmm')
# decorators a translated function / method is allowed to carry (anything else changes what the name denotes)
OK_DECORATORS = {('utils.py', None, 'sustainment_matrix'): ['functools.lru_cache()'], ('utils.py', None, 'power_matrix'): ['functools.lru_cache()']}


def scan_bindings(pkg_dir, class_names):
  """what, apart from its `def`, binds the name of a translated function / method?  Returns
    tainted : {(class or None, name): reason}   module-level / class-body rebinding, duplicate defs, setattr, decorators
    shadow  : {file: {helper names redefined or imported from elsewhere in that file}}
  A unit whose name is tainted, or that calls a shadowed helper, is untranslatable: its `def` is not what runs."""
  tainted, shadow = {}, {}
  def taint(key, why):
    tainted.setdefault(key, why)
  for fn in sorted(os.listdir(pkg_dir)):
    if not fn.endswith('.py'): continue
    try:
      tree = ast.parse(open(os.path.join(pkg_dir, fn)).read())
    except SyntaxError:
      continue
    seen_top = {}
    for node in tree.body:
      tgts = []
      if isinstance(node, ast.Assign): tgts = node.targets
      elif isinstance(node, (ast.AugAssign, ast.AnnAssign)): tgts = [node.target]
      for t in tgts:
        for z in ast.walk(t):
          if isinstance(z, ast.Attribute) and isinstance(z.value, ast.Name) and z.value.id in class_names:
            taint((z.value.id, z.attr), '%s:%d rebinds %s.%s at module level' % (fn, node.lineno, z.value.id, z.attr))
          if isinstance(z, ast.Name) and (z.id in class_names or (z.id in HELPERS)):
            if z.id in HELPERS and fn != 'utils.py': shadow.setdefault(fn, set()).add(z.id)
            else: taint((None, z.id) if z.id in HELPERS else (z.id, '*'), '%s:%d rebinds %s at module level' % (fn, node.lineno, z.id))
      if isinstance(node, ast.Expr) and isinstance(node.value, ast.Call) and isinstance(node.value.func, ast.Name) and node.value.func.id == 'setattr' \
         and node.value.args and isinstance(node.value.args[0], ast.Name) and node.value.args[0].id in class_names:
        a1 = node.value.args[1] if len(node.value.args) > 1 else None
        taint((node.value.args[0].id, a1.value if isinstance(a1, ast.Constant) else '*'), '%s:%d setattr on %s' % (fn, node.lineno, node.value.args[0].id))
      if isinstance(node, (ast.FunctionDef, ast.ClassDef)):
        if node.name in HELPERS and fn != 'utils.py': shadow.setdefault(fn, set()).add(node.name)
        if node.name in seen_top: taint((None, node.name) if isinstance(node, ast.FunctionDef) else (node.name, '*'), '%s:%d defines %s twice' % (fn, node.lineno, node.name))
        seen_top[node.name] = node
        if isinstance(node, ast.FunctionDef) and fn == 'utils.py':
          decs = [ast.unparse(d) for d in node.decorator_list]
          if decs != OK_DECORATORS.get((fn, None, node.name), []):
            taint((None, node.name), '%s:%d decorators %s on %s' % (fn, node.lineno, decs, node.name))
      if isinstance(node, ast.ImportFrom):
        for al in node.names:
          nm = al.asname or al.name
          if nm in HELPERS and not (node.module or '').endswith('utils'): shadow.setdefault(fn, set()).add(nm)
          if al.asname in HELPERS and al.name != al.asname: shadow.setdefault(fn, set()).add(al.asname)
      if isinstance(node, ast.ClassDef) and node.name in class_names:
        seen = {}
        for b in node.body:
          if isinstance(b, ast.FunctionDef):
            decs = [ast.unparse(d) for d in b.decorator_list]
            plain = [d for d in decs if d not in ('property', 'staticmethod', 'classmethod', 'abstractmethod') and not d.endswith('.setter')]
            if plain: taint((node.name, b.name), '%s:%d decorator %s on %s.%s' % (fn, b.lineno, plain[0], node.name, b.name))
            kind = 'setter' if any(d.endswith('.setter') for d in decs) else 'def'
            if (b.name, kind) in seen: taint((node.name, b.name), '%s:%d %s.%s is defined twice' % (fn, b.lineno, node.name, b.name))
            seen[(b.name, kind)] = b
          tg = b.targets if isinstance(b, ast.Assign) else [b.target] if isinstance(b, (ast.AugAssign, ast.AnnAssign)) else []
          for t in tg:
            for z in ast.walk(t):
              if isinstance(z, ast.Name) and not z.id.startswith('_'):
                taint((node.name, z.id), '%s:%d class body of %s rebinds `%s`' % (fn, b.lineno, node.name, z.id))
        for b in node.body:      # a class-body assignment that follows / precedes a def of the same name
          if isinstance(b, ast.FunctionDef) and (node.name, b.name) in tainted: pass
  return tainted, shadow


def attr_slice(classes, cls, attr):
  """every statement that defines `self.<attr>` / `self._<attr>` in `cls` (and in its parsed base classes): assignments in
  any method, class-body defaults, the property of that name.  Compared verbatim with the reviewed pins (vk/t1_pins.json)."""
  names = {attr, '_' + attr.lstrip('_'), attr.lstrip('_')}
  out = []
  todo, done = [cls], set()
  while todo:
    c = todo.pop(0)
    if c in done or c not in classes: continue
    done.add(c)
    node = classes[c]
    for b in node.bases:
      if isinstance(b, ast.Name): todo.append(b.id)
    for b in node.body:
      if isinstance(b, (ast.Assign, ast.AnnAssign)):
        for t in (b.targets if isinstance(b, ast.Assign) else [b.target]):
          if any(isinstance(z, ast.Name) and z.id in names for z in ast.walk(t)): out.append('%s: %s' % (c, ast.unparse(b)))
      if isinstance(b, ast.FunctionDef):
        if b.name in names and any(ast.unparse(d) == 'property' for d in b.decorator_list) \
           and not any(ast.unparse(d) == 'abstractmethod' for d in b.decorator_list):
          out.append('%s: %s' % (c, ast.unparse(b)))
        for st in ast.walk(b):
          tg = st.targets if isinstance(st, ast.Assign) else [st.target] if isinstance(st, (ast.AugAssign, ast.AnnAssign)) else []
          for t in tg:
            if any(isinstance(z, ast.Attribute) and isinstance(z.value, ast.Name) and z.value.id == 'self' and z.attr in names for z in ast.walk(t)):
              out.append('%s.%s: %s' % (c, b.name, ast.unparse(st)))
              # every EARLIER statement of the same function that (re)binds a name the stored value is computed from is part
              # of the definition too: `t_external = np.clip(t_external, ...)` one line above `self._t_external = t_external`
              # must not leave the pinned text unchanged
              rhs = {z.id for z in ast.walk(getattr(st, 'value', None) or ast.Constant(0)) if isinstance(z, ast.Name)}
              for e in ast.walk(b):
                if e is st or getattr(e, 'lineno', 10**9) >= st.lineno: continue
                et = e.targets if isinstance(e, ast.Assign) else [e.target] if isinstance(e, (ast.AugAssign, ast.AnnAssign, ast.For, ast.NamedExpr)) else \
                     [i.optional_vars for i in e.items if i.optional_vars is not None] if isinstance(e, ast.With) else []
                if any(isinstance(z, ast.Name) and isinstance(z.ctx, ast.Store) and z.id in rhs for x in et for z in ast.walk(x)):
                  out.append('%s.%s: (earlier binding) %s' % (c, b.name, ast.unparse(e).split('\n')[0]))
              break
  return out


PINS_FILE = os.path.join(HERE, 't1_pins.json')
_pins = None


def pins():
  global _pins
  if _pins is None:
    import json
    _pins = json.load(open(PINS_FILE)) if os.path.exists(PINS_FILE) else {}
  return _pins


RECORD = None      # when a dict: check_pin records the current definitions instead of comparing (`--pins`)


def check_pin(classes, cls, attr):
  """the definition of a declared / derived attribute must be the reviewed one."""
  base = re.sub(r'\[\d+\]$', '', attr).replace('()', '')
  got = attr_slice(classes, cls, base)
  if RECORD is not None:
    RECORD.setdefault(cls, {})[base] = got
    return
  want = pins().get(cls, {}).get(base)
  if want is None: raise Unsupported('no reviewed definition (vk/t1_pins.json) of %s.%s' % (cls, base))
  if got != want:
    diff = [x for x in got if x not in want] + ['(missing) ' + x for x in want if x not in got]
    raise Unsupported('%s.%s is not defined as reviewed (vk/t1_pins.json): %s' % (cls, base, '; '.join(diff)[:200]))


class Val:
  def __init__(self, kind, **kw):
    self.kind = kind               # S scalar, I static int, N nat, B static bool, V vector, C column, M matrix,
    self.ek = 'a'                  # L python list (pieces), T tuple, F lambda/closure, O object, K kernel, P prop
    self.term = None; self.elem = None; self.length = None; self.rows = None; self.cols = None
    self.zero = False; self.atom = None; self.sign_of = None; self.slice = None
    self.raw = False               # a flow parameter as passed in: (n,) or (1, n) — only shape-agnostic operations are denoted
    self.isfloat = False           # known to be float-typed: float(x), np.array(x, dtype=float) and what is computed from them
    self.made = False              # built by np.ones / zeros / arange: its length is checked against what it is combined with
    self.__dict__.update(kw)


def S(term, ek='a', **kw): return Val('S', term=term, ek=ek, **kw)
def I(k): return Val('I', term=k)
def N(term): return Val('N', term=term, ek='n')
def V(elem, length, ek='a', **kw): return Val('V', elem=elem, length=length, ek=ek, **kw)
def M(elem, rows, cols, ek='a', **kw): return Val('M', elem=elem, rows=rows, cols=cols, ek=ek, **kw)
def C(elem, rows, ek='a'): return Val('C', elem=elem, rows=rows, ek=ek)

TY = {'a': 'α', 'n': 'Nat', 'e': 'ε'}


def norm_len(t):
  t = re.sub(r'\s+', '', t)
  while t.startswith('(') and t.endswith(')') and paren_ok(t[1:-1]): t = t[1:-1]
  return re.sub(r'\((\d+):Nat\)', r'\1', t)


def paren_ok(t):
  d = 0
  for c in t:
    if c == '(': d += 1
    if c == ')':
      d -= 1
      if d < 0: return False
  return d == 0


def lit(k, ek):
  if ek == 'n':
    if k < 0: raise Unsupported('negative literal %d where a natural number is required' % k)
    return '(%d : Nat)' % k
  if ek == 'e':
    if k in (1, 2): return '(%d : ε)' % k
    raise Unsupported('exponent literal %d' % k)
  if k < 0: return '(-%s)' % lit(-k, ek)
  return '(%d : α)' % k if k <= 2 else "(natCast' %d : α)" % k


def idx_add(i, a):
  return i if a in ('0', 0) else '(%s + %s)' % (i, a)


def idx_sub(i, a):
  return i if a in ('0', 0) else '(%s - %s)' % (i, a)


class Ctx:
  """translation of one unit."""
  def __init__(self, tu, unit, cls_node):
    self.tu, self.unit, self.cls_node = tu, unit, cls_node
    self.k = 0
    self.uses_pow = self.uses_cast = False
    self.mode = unit.mode
    self.attr_cache = {}
    self.enclosing = None     # lazy environment of an enclosing function (nested units)
    self.fresh_names = set()  # local names bound to a newly built array (in-place operators on them are local)

  def fresh(self):
    self.k += 1
    return 'k%d' % self.k

  # ---------------------------------------------------------------- coercions
  def sc(self, v, ek):
    """scalar Lean text of a scalar-like value in element kind `ek`."""
    if v.kind == 'I': return lit(v.term, ek)
    if v.kind == 'N':
      if ek == 'n': return v.term
      if ek == 'a': return "(natCast' %s : α)" % v.term
      raise Unsupported('a length used as an exponent')
    if v.kind == 'S':
      if v.ek == ek: return v.term
      if v.ek == 'n' and ek == 'a': return "(natCast' %s : α)" % v.term
      raise Unsupported('scalar of kind %s used as %s' % (v.ek, ek))
    raise Unsupported('scalar expected, got kind ' + v.kind)

  def conv(self, text, frm, to):
    if frm == to: return text
    if frm == 'n' and to == 'a': return "(natCast' %s : α)" % text
    raise Unsupported('element kind %s used as %s' % (frm, to))

  def at(self, v, ek, i, j=None):
    """element text of `v` broadcast into a vector (index i) or matrix (i, j) context."""
    if v.kind in 'ISN': return self.sc(v, ek)
    if v.kind == 'V': return self.conv(v.elem(j if j is not None else i), v.ek, ek)
    if v.kind == 'C': return self.conv(v.elem(i), v.ek, ek)
    if v.kind == 'M':
      if j is None: raise Unsupported('matrix in a vector context')
      return self.conv(v.elem(i, j), v.ek, ek)
    raise Unsupported('numeric value expected, got kind ' + v.kind)

  def ew(self, f, vals, ek=None):
    """elementwise combination with numpy broadcasting."""
    for v in vals:
      if v.kind not in 'ISNVCM': raise Unsupported('numeric value expected, got kind ' + v.kind)
    if ek is None:
      eks = [v.ek for v in vals if v.kind not in 'I']
      ek = 'n' if eks and all(e == 'n' for e in eks) and self.mode == 'n' else ('n' if eks and all(e == 'n' for e in eks) and all(v.kind in 'IN' for v in vals) else 'a')
      if not eks: ek = 'n' if self.mode == 'n' else 'a'
    kinds = {v.kind for v in vals}
    def pick(attr, cands):
      xs = [getattr(v, attr) for v in vals if v.kind in cands and getattr(v, attr) is not None]
      return ('n' if 'n' in xs else xs[0]) if xs else None
    if 'M' in kinds or ('C' in kinds and 'V' in kinds):
      rows = pick('rows', 'MC'); cols = pick('cols', 'M') or pick('length', 'V')
      return M(lambda i, j: f(*[self.at(v, ek, i, j) for v in vals]), rows, cols, ek)
    if 'C' in kinds:
      return C(lambda i: f(*[self.at(v, ek, i) for v in vals]), pick('rows', 'C'), ek)
    if 'V' in kinds:
      self.check_made(vals)
      r = V(lambda i: f(*[self.at(v, ek, i) for v in vals]), pick('length', 'V'), ek)
      r.raw = any(v.kind == 'V' and v.raw for v in vals)
      r.isfloat = any(v.isfloat for v in vals)
      return r
    r = S(f(*[self.sc(v, ek) for v in vals]), ek)
    r.isfloat = any(v.isfloat for v in vals)
    return r

  def check_made(self, vals):
    """a vector built with an explicit length (np.ones(k), np.zeros(k), np.arange) combined with another vector of known
    length must have that length (numpy would broadcast a length-1 / raise otherwise)."""
    vs = [v for v in vals if v.kind == 'V' and v.length is not None]
    for a in vs:
      if a.made:
        for b in vs:
          if b is not a and norm_len(a.length) != norm_len(b.length):
            raise Unsupported('a vector built with length %s is combined with a vector of length %s' % (a.length, b.length))

  def bop(self, op, a, b):
    sym = {ast.Add: '+', ast.Sub: '-', ast.Mult: '*', ast.Div: '/'}.get(type(op))
    if sym is None: raise Unsupported('operator ' + type(op).__name__)
    if a.kind == 'L' or b.kind == 'L':
      if sym == '+' and a.kind == 'L' and b.kind == 'L': return Val('L', pieces=a.pieces + b.pieces)
      raise Unsupported('arithmetic on a Python list')
    if a.kind == 'I' and b.kind == 'I' and sym != '/':
      return I({'+': a.term + b.term, '-': a.term - b.term, '*': a.term * b.term}[sym])
    if a.kind in 'IN' and b.kind in 'IN':
      if sym == '/': raise Unsupported('division of lengths')
      return N('(%s %s %s)' % (self.sc(a, 'n'), sym, self.sc(b, 'n')))
    if sym == '/' and self.mode == 'n': raise Unsupported('division in a natural-number unit')
    return self.ew(lambda x, y: '(%s %s %s)' % (x, sym, y), [a, b])

  def pw(self, a, b):
    if b.kind == 'I':
      k = b.term
      if not 0 <= k <= 4: raise Unsupported('literal exponent %d' % k)
      if k == 0: return self.ew(lambda x: lit(1, 'a'), [a])
      return self.ew(lambda x: '(' + ' * '.join([x] * k) + ')', [a])
    if b.sign_of is not None:
      # `e ** np.sign(y)` has a negative exponent where y < 0: numpy raises for an integer base with an integer exponent
      # array, so either the base or y must be known to be float-typed (float(e), np.array(y, dtype=float))
      if not (a.isfloat or b.sign_of.isfloat or b.isfloat):
        raise Unsupported('`e ** np.sign(y)` where neither e nor y is known to be float-typed (integer data would raise)')
      return self.ew(lambda x, y: '(sgnPow %s %s)' % (x, y), [a, b.sign_of], 'a')
    if b.ek == 'n' and b.kind in 'NSVCM':
      if a.ek != 'a': raise Unsupported('power of a non-scalar base kind')
      # base in α, exponent in Nat: combine by hand (two element kinds)
      def f(i=None, j=None):
        x = self.at(a, 'a', i, j) if a.kind not in 'ISN' else self.sc(a, 'a')
        y = self.at(b, 'n', i, j) if b.kind not in 'ISN' else self.sc(b, 'n')
        return '(npow %s %s)' % (x, y)
      shapes = {a.kind, b.kind}
      if 'M' in shapes: return M(lambda i, j: f(i, j), b.rows if b.kind == 'M' else a.rows, b.cols if b.kind == 'M' else a.cols)
      if 'C' in shapes: raise Unsupported('column power')
      if 'V' in shapes: return V(lambda i: f(i), b.length if b.kind == 'V' else a.length)
      return S(f())
    raise Unsupported('general power (only literal, sign and natural exponents are in the subset)')

  # ---------------------------------------------------------------- terms for call arguments
  def vec_term(self, v, ek='a'):
    if v.kind == 'V':
      if v.atom and v.ek == ek: return v.atom
      k = self.fresh()
      return '(fun %s => %s)' % (k, self.conv(v.elem(k), v.ek, ek))
    if v.kind in 'ISN':
      return '(fun _ => %s)' % self.sc(v, ek)
    raise Unsupported('vector argument expected, got kind ' + v.kind)

  def mat_term(self, v):
    if v.kind != 'M': raise Unsupported('matrix argument expected')
    a, b = self.fresh(), self.fresh()
    return '(fun %s %s => %s)' % (a, b, v.elem(a, b))

  def arg_term(self, v, kind):
    if kind == 'S': return self.sc(v, 'a')
    if kind == 'N': return self.sc(v, 'n')
    if kind == 'V': return self.vec_term(v, 'a')
    if kind == 'V1':
      if v.kind == 'V' and v.raw: raise Unsupported('a flow that was not reshaped is handed to a unit that takes a (len(self),) vector')
      return self.vec_term(v, 'a')
    if kind == 'VE':
      if v.kind == 'V' and v.ek == 'e': return self.vec_term(v, 'e')
      if v.kind == 'I': return '(fun _ => %s)' % lit(v.term, 'e')
      raise Unsupported('exponent vector expected')
    raise Unsupported('argument kind ' + kind)

  # ---------------------------------------------------------------- sums
  def vsum(self, v):
    if v.kind in 'IS': return v if v.kind == 'S' else S(lit(v.term, 'a'))
    if v.kind == 'L': v = self.concat(v.pieces)
    if v.kind != 'V': raise Unsupported('.sum() of kind ' + v.kind)
    if v.length is None: raise Unsupported('.sum() of a vector of unknown length')
    def term():
      k = self.fresh()
      if v.slice:
        base, a, stop = v.slice
        return '(sumRange %s %s (fun %s => %s))' % (a, stop, k, self.conv(base(k), v.ek, v.ek))
      return '(sumTo %s (fun %s => %s))' % (v.length, k, v.elem(k))
    return S(term(), v.ek)

  def concat(self, pieces):
    """np.hstack / list concatenation: piece p covers indices [off_p, off_p + len_p); the last piece takes the rest."""
    flat = []
    def add(p):
      if p.kind == 'L':
        for q in p.pieces: add(q)
      elif p.kind in 'ISN': flat.append(V(None, '1', 'a', const=p))
      elif p.kind == 'V':
        if p.raw: raise Unsupported('concatenation of a flow that was not reshaped to (len(self),)')
        flat.append(p)
      else: raise Unsupported('hstack piece of kind ' + p.kind)
    for p in pieces: add(p)
    if not flat: raise Unsupported('empty concatenation')
    for p in flat[:-1]:
      if p.length is None: raise Unsupported('hstack piece of unknown length')
    ek = 'a'
    def el(p, i):
      c = getattr(p, 'const', None)
      return self.sc(c, ek) if c is not None else self.conv(p.elem(i), p.ek, ek)
    def elem(i):
      seq = []; cur = i
      for q, p in enumerate(flat):
        seq.append((cur, p))
        if q < len(flat) - 1: cur = idx_sub(cur, p.length)
      text = el(seq[-1][1], seq[-1][0])
      for cur_i, p in reversed(seq[:-1]):
        text = '(if %s < %s then %s else %s)' % (cur_i, p.length, el(p, cur_i), text)
      return text
    lens = [p.length for p in flat]
    total = None if any(l is None for l in lens) else (lens[0] if len(lens) == 1 else '(' + ' + '.join(lens) + ')')
    return V(elem, total, ek)

  # ---------------------------------------------------------------- conditions
  def cond(self, e, env):
    """returns a static bool or a Lean Prop text."""
    if isinstance(e, ast.Compare) and len(e.ops) == 1:
      a, b = self.ev(e.left, env), self.ev(e.comparators[0], env)
      op = e.ops[0]
      if a.kind == 'I' and b.kind == 'I':
        f = {ast.Eq: lambda x, y: x == y, ast.NotEq: lambda x, y: x != y, ast.Lt: lambda x, y: x < y, ast.LtE: lambda x, y: x <= y,
             ast.Gt: lambda x, y: x > y, ast.GtE: lambda x, y: x >= y}.get(type(op))
        if f is None: raise Unsupported('comparison')
        return f(a.term, b.term)
      sym = {ast.Eq: '=', ast.NotEq: '≠', ast.Lt: '<', ast.LtE: '≤', ast.Gt: '>', ast.GtE: '≥'}.get(type(op))
      if sym is None: raise Unsupported('comparison ' + type(op).__name__)
      if a.kind not in 'ISN' or b.kind not in 'ISN': raise Unsupported('comparison of non-scalars')
      ek = 'n' if all(v.kind in 'IN' or v.ek == 'n' for v in (a, b)) else 'a'
      return '%s %s %s' % (self.sc(a, ek), sym, self.sc(b, ek))
    raise Unsupported('condition ' + ast.dump(e)[:60])

  # ---------------------------------------------------------------- self.<attr>
  def find_method(self, name, prop=False):
    for f in self.cls_node.body:
      if isinstance(f, ast.FunctionDef) and f.name == name:
        is_prop = any(isinstance(d, ast.Name) and d.id == 'property' for d in f.decorator_list)
        if is_prop == prop: return f
    return None

  def init_assign(self, name):
    init = self.find_method('__init__')
    hits = []
    if init:
      for s in ast.walk(init):
        if isinstance(s, ast.Assign) and len(s.targets) == 1:
          t = s.targets[0]
          if isinstance(t, ast.Attribute) and isinstance(t.value, ast.Name) and t.value.id == 'self' and t.attr == name:
            hits.append(s.value)
    return hits

  def self_attr(self, name):
    if name in self.attr_cache: return self.attr_cache[name]
    saved, self.enclosing = self.enclosing, None      # class-level code does not see the locals of the enclosing function
    try:
      return self.self_attr_(name)
    finally:
      self.enclosing = saved

  def self_attr_(self, name):
    cls = self.unit.cls
    table = ATTRS.get(cls, {})
    if name in table:
      kind = table[name]
      if kind not in ('O', 'O1', 'OV'): check_pin(self.tu.classes, cls, name)
      if name not in OPAQUE and '[' not in name:
        p = self.find_method(name, prop=True)
        if p is not None:
          body = [s for s in p.body if not (isinstance(s, ast.Expr) and isinstance(s.value, ast.Constant))]
          ok = (len(body) == 1 and isinstance(body[0], ast.Return) and isinstance(body[0].value, ast.Attribute)
                and isinstance(body[0].value.value, ast.Name) and body[0].value.value.id == 'self' and body[0].value.attr == '_' + name)
          if not ok: raise Unsupported('property %s.%s is not a plain field' % (cls, name))
      ln = lname(name)
      if kind == 'S': v = S(ln)
      elif kind == 'V': v = V((lambda a: lambda i: '%s %s' % (a, i) if re.fullmatch(r'\w+', i) else '%s %s' % (a, i))(ln), 'n', 'a', atom=ln)
      elif kind == 'VE': v = V((lambda a: lambda i: '%s %s' % (a, i))(ln), 'n', 'e', atom=ln)
      elif kind == 'N': v = N(ln)
      elif kind == 'VL': v = Val('VL', elem=(lambda a: lambda i: '(%s %s)' % (a, i))(ln), length='n')
      elif kind in ('O', 'O1', 'OV'): v = Val('O', cls=None, hof=ln, arity=kind)
      else: raise Unsupported('attribute kind ' + kind)
      v = self.paren_elem(v)
      self.attr_cache[name] = v
      return v
    p = self.find_method(name, prop=True)
    if p is not None:
      body = [s for s in p.body if not (isinstance(s, ast.Expr) and isinstance(s.value, ast.Constant))]
      if len(body) >= 1 and isinstance(body[0], ast.Return) and body[0].value is not None:
        v = self.ev(body[0].value, {})
        self.attr_cache[name] = v
        return v
      raise Unsupported('property %s.%s is not a single return' % (cls, name))
    hits = self.init_assign(name)
    if len(hits) == 1:
      check_pin(self.tu.classes, cls, name)      # e.g. a cache that a setter must refresh: every assignment is reviewed
      v = self.ev(hits[0], {'__init__': True})
      self.attr_cache[name] = v
      return v
    raise Unsupported('attribute self.%s (%d assignments in __init__)' % (name, len(hits)))

  def paren_elem(self, v):
    if v.kind == 'V':
      f = v.elem
      v.elem = lambda i: '(%s)' % f(i)
    return v

  # ---------------------------------------------------------------- expressions
  def ev(self, e, env):
    if isinstance(e, ast.Constant):
      if isinstance(e.value, bool) or e.value is None: raise Unsupported('literal %r' % (e.value,))
      if isinstance(e.value, int): return I(e.value)
      if isinstance(e.value, float) and e.value.is_integer(): return I(int(e.value))
      raise Unsupported('literal %r' % (e.value,))
    if isinstance(e, ast.Name):
      if e.id in env:
        v = env[e.id]
        if isinstance(v, tuple) and v[0] == 'lazy':
          v = self.ev(v[1], v[2]); env[e.id] = v
        return v
      if self.enclosing is not None and e.id in self.enclosing:
        return self.enclosing_value(e.id)
      if e.id == 'self': return Val('SELF')
      if e.id == 'np': return Val('NP')
      raise Unsupported('free name ' + e.id)
    if isinstance(e, ast.Attribute):
      if isinstance(e.value, ast.Name) and e.value.id == 'self' and 'self' not in env:
        return self.self_attr(e.attr)
      b = self.ev(e.value, env)
      if e.attr == 'size' and b.kind == 'V' and b.length is not None: return N(b.length)
      if e.attr == 'shape' and b.kind == 'V' and b.raw: raise Unsupported('shape of a flow that was not reshaped')
      if e.attr == 'shape' and b.kind == 'V': return Val('T', items=[N(b.length or '?')])
      if e.attr == 'shape' and b.kind == 'M': return Val('T', items=[N(b.rows or '?'), N(b.cols or '?')])
      raise Unsupported('attribute .' + e.attr)
    if isinstance(e, ast.UnaryOp) and isinstance(e.op, ast.USub):
      a = self.ev(e.operand, env)
      if a.kind == 'I': return I(-a.term)
      if a.kind == 'N': raise Unsupported('negated length')
      return self.ew(lambda x: '(-%s)' % x, [a])
    if isinstance(e, ast.BinOp):
      if isinstance(e.op, ast.Pow):
        return self.pw(self.ev(e.left, env), self.ev(e.right, env))
      return self.bop(e.op, self.ev(e.left, env), self.ev(e.right, env))
    if isinstance(e, (ast.Tuple, ast.List)):
      items = [self.ev(x, env) for x in e.elts]
      if isinstance(e, ast.List): return Val('L', pieces=items, items=items)
      return Val('T', items=items)
    if isinstance(e, ast.Subscript):
      return self.subscript(e, env)
    if isinstance(e, ast.ListComp):
      return self.listcomp(e, env)
    if isinstance(e, ast.Lambda):
      return Val('F', node=e, env=env)
    if isinstance(e, ast.Call):
      return self.call(e, env)
    raise Unsupported(type(e).__name__ + ' expression')

  def subscript(self, e, env):
    # self.rate_clip[0] as a declared attribute
    if (isinstance(e.value, ast.Attribute) and isinstance(e.value.value, ast.Name) and e.value.value.id == 'self'
        and isinstance(e.slice, ast.Constant) and '%s[%s]' % (e.value.attr, e.slice.value) in ATTRS.get(self.unit.cls, {})):
      return self.self_attr('%s[%s]' % (e.value.attr, e.slice.value))
    b = self.ev(e.value, env)
    sl = e.slice
    if b.kind == 'V' and b.raw: raise Unsupported('index / slice of a flow that was not reshaped to (len(self),)')
    if isinstance(sl, ast.Slice):
      if b.kind != 'V' or sl.step is not None: raise Unsupported('slice of kind ' + b.kind)
      if b.length is None: raise Unsupported('slice of a vector of unknown length')
      lo = self.ev(sl.lower, env) if sl.lower is not None else I(0)
      if lo.kind == 'I' and lo.term < 0: raise Unsupported('negative slice start')
      a = self.sc(lo, 'n') if lo.kind == 'N' else str(lo.term)
      if sl.upper is None:
        stop = b.length
      else:
        up = self.ev(sl.upper, env)
        if up.kind == 'I' and up.term < 0: stop = '(%s - %d)' % (b.length, -up.term)
        elif up.kind == 'I': stop = '(min %d %s)' % (up.term, b.length)
        elif up.kind == 'N': stop = '(min %s %s)' % (up.term, b.length)
        else: raise Unsupported('slice bound')
      base = b.elem
      return V(lambda i: base(idx_add(i, a)), stop if a == '0' else '(%s - %s)' % (stop, a), b.ek, slice=(base, a, stop))
    ix = self.ev(sl, env)
    if b.kind in 'TL':
      if ix.kind == 'I' and 0 <= ix.term < len(b.items): return b.items[ix.term]
      raise Unsupported('tuple index')
    if ix.kind not in 'IN': raise Unsupported('index of kind ' + ix.kind)
    it = self.sc(ix, 'n') if ix.kind == 'N' else (str(ix.term) if ix.term >= 0 else None)
    if it is None: raise Unsupported('negative index')
    if b.kind == 'V': return S(b.elem(it), b.ek)
    if b.kind == 'LP': return b.elem(it)
    if b.kind == 'M':
      me = b.elem
      return V(lambda j: me(it, j), b.cols, b.ek)
    raise Unsupported('index into kind ' + b.kind)

  def range_args(self, it, env):
    if not (isinstance(it, ast.Call) and isinstance(it.func, ast.Name) and it.func.id == 'range' and 1 <= len(it.args) <= 2 and not it.keywords):
      return None
    xs = [self.ev(a, env) for a in it.args]
    for x in xs:
      if x.kind not in 'IN': raise Unsupported('range bound of kind ' + x.kind)
    lo, hi = (I(0), xs[0]) if len(xs) == 1 else xs
    return (str(lo.term) if lo.kind == 'I' else lo.term), (str(hi.term) if hi.kind == 'I' else hi.term)

  def listcomp(self, e, env):
    if len(e.generators) != 1 or e.generators[0].ifs: raise Unsupported('comprehension form')
    g = e.generators[0]
    if (isinstance(g.target, ast.Tuple) and len(g.target.elts) == 2 and all(isinstance(t, ast.Name) for t in g.target.elts)
        and isinstance(g.iter, ast.Call) and isinstance(g.iter.func, ast.Name) and g.iter.func.id == 'enumerate'
        and len(g.iter.args) == 1 and not g.iter.keywords):
      # [e(k, v) for k, v in enumerate(x)]: k the index, v the element
      src = self.ev(g.iter.args[0], env)
      if src.kind != 'V' or src.length is None: raise Unsupported('enumerate of kind ' + src.kind)
      kv, vv = g.target.elts[0].id, g.target.elts[1].id
      def elem2(k):
        env2 = dict(env); env2[kv] = N(k); env2[vv] = S(src.elem(k), src.ek)
        v = self.ev(e.elt, env2)
        if v.kind not in 'ISN': raise Unsupported('comprehension element of kind ' + v.kind)
        return self.sc(v, 'a')
      elem2('k0')
      return Val('L', pieces=[V(elem2, src.length, 'a')], items=None)
    if not isinstance(g.target, ast.Name): raise Unsupported('comprehension form')
    var = g.target.id
    rg = self.range_args(g.iter, env)
    if rg is not None:
      lo, hi = rg
      def elem(k):
        env2 = dict(env); env2[var] = N(idx_add(k, lo) if lo != '0' else k)
        v = self.ev(e.elt, env2)
        if v.kind not in 'ISN': raise Unsupported('comprehension element of kind ' + v.kind)
        return self.sc(v, 'a')
      elem('k0')   # surface Unsupported now
      piece = V(elem, hi if lo == '0' else '(%s - %s)' % (hi, lo), 'a')
      return Val('L', pieces=[piece], items=None)
    src = self.ev(g.iter, env)
    if src.kind == 'VL':     # iterate over the per-slot coefficient lists: a list of objects (np.poly1d)
      def obj(k):
        env2 = dict(env); env2[var] = Val('CL', term=src.elem(k))
        v = self.ev(e.elt, env2)
        if v.kind != 'P': raise Unsupported('comprehension over coefficient lists must build np.poly1d objects')
        return v
      obj('k0')
      return Val('LP', elem=obj, length=src.length, items=None)
    if src.kind == 'M':      # iterate over the rows of a matrix
      me = src.elem
      def rowval(i):
        env2 = dict(env); env2[var] = V(lambda j: me(i, j), src.cols, src.ek)
        v = self.ev(e.elt, env2)
        if v.kind != 'V': raise Unsupported('row comprehension element of kind ' + v.kind)
        return v
      probe = rowval('k0')
      return Val('LM', elem=lambda i, j: rowval(i).elem(j), rows=src.rows, cols=probe.length, ek=probe.ek)
    raise Unsupported('comprehension source')

  # ---------------------------------------------------------------- calls
  def kw(self, e, names, env, required=None):
    """bind positional + keyword arguments of a call to `names`."""
    vals = {}
    if len(e.args) > len(names): raise Unsupported('too many arguments')
    for n_, a in zip(names, e.args): vals[n_] = self.ev(a, env)
    for k in e.keywords:
      if k.arg is None or k.arg not in names or k.arg in vals: raise Unsupported('keyword argument ' + str(k.arg))
      vals[k.arg] = self.ev(k.value, env)
    return vals

  def call(self, e, env):
    f = e.func
    if isinstance(f, ast.Name):
      if f.id == 'len' and len(e.args) == 1:
        a = e.args[0]
        if isinstance(a, ast.Name) and a.id == 'self' and 'self' not in env: return N('n')
        v = self.ev(a, env)
        if v.kind == 'V':
          if v.raw: raise Unsupported('len() of a flow that was not reshaped to (len(self),) (a (1, n) row has length 1)')
          if v.length is None: raise Unsupported('len of a vector of unknown length')
          return N(v.length)
        if v.kind in 'TL' and v.items is not None: return I(len(v.items))
        if v.kind == 'M': return N(v.rows)
        raise Unsupported('len of kind ' + v.kind)
      if f.id == 'float' and len(e.args) == 1 and not e.keywords:
        v = self.ev(e.args[0], env)
        if v.kind not in 'SIN': raise Unsupported('float() of kind ' + v.kind)
        r = S(self.sc(v, 'a')); r.isfloat = True
        return r
      if f.id in env or (self.enclosing is not None and f.id in self.enclosing):
        return self.apply(self.ev(f, env), e, env)
      if f.id in self.tu.shadow.get(self.unit.file, ()):
        raise Unsupported('`%s` is redefined / imported from elsewhere in %s: the call does not reach utils.%s' % (f.id, self.unit.file, f.id))
      u = self.tu.units.get((None, f.id, None))
      if u is not None and self.unit.cls is not None or (u is not None and u is not self.unit):
        return self.call_unit(u, e, env, None)
      if f.id in ATTRS and f.id in self.tu.classes:
        return self.construct(f.id, e, env)
      raise Unsupported('call of ' + f.id)
    if isinstance(f, ast.Attribute):
      if isinstance(f.value, ast.Name) and f.value.id == 'np' and 'np' not in env:
        return self.numpy(f.attr, e, env)
      if isinstance(f.value, ast.Name) and f.value.id == 'self' and 'self' not in env:
        u = self.tu.units.get((self.unit.cls, f.attr, None))
        if u is not None: return self.call_unit(u, e, env, 'self')
        return self.apply(self.self_attr(f.attr), e, env)
      b = self.ev(f.value, env)
      if b.kind == 'O': return self.obj_call(b, f.attr, e, env)
      return self.method(b, f.attr, e, env)
    if isinstance(f, (ast.Call, ast.Subscript)):
      return self.apply(self.ev(f, env), e, env)
    raise Unsupported('call form')

  def apply(self, fv, e, env):
    """call of a value: lambda / nested def, function object, vectorised kernel."""
    if fv.kind == 'F':
      node = fv.node
      names = [a.arg for a in node.args.args]
      vals = self.kw(e, names, env)
      env2 = dict(fv.env)
      ndef = len(node.args.defaults)
      for k_, n_ in enumerate(names):
        if n_ in vals: env2[n_] = vals[n_]
        elif k_ >= len(names) - ndef: env2[n_] = ('lazy', node.args.defaults[k_ - (len(names) - ndef)], fv.env)
        else: raise Unsupported('missing argument ' + n_)
      if isinstance(node, ast.Lambda): return self.ev(node.body, env2)
      return self.run(node.body, env2)
    if fv.kind == 'U':     # a nested unit translated earlier
      return self.call_unit(fv.unit, e, env, 'self')
    if fv.kind == 'O': return self.obj_call(fv, '__call__', e, env)
    if fv.kind == 'K': return self.kernel(fv, e, env)
    if fv.kind == 'P':     # np.poly1d(c)(v) on a scalar: Horner evaluation
      if e.keywords or len(e.args) != 1: raise Unsupported('poly1d call form')
      x = self.ev(e.args[0], env)
      if x.kind not in 'ISN': raise Unsupported('poly1d applied to kind ' + x.kind)
      return S('(polyEval %s %s)' % (fv.term, self.sc(x, 'a')))
    raise Unsupported('call of a value of kind ' + fv.kind)

  def kernel(self, kv, e, env):
    name, kinds, upow, ucast = kv.info
    if e.keywords or len(e.args) != len(kinds): raise Unsupported('arity of a vectorised kernel call')
    vals = [self.ev(a, env) for a in e.args]
    eks = ['e' if k == 'ε' else 'a' for k in kinds]
    for v, k in zip(vals, eks):
      if k == 'e' and not (v.kind == 'I' or v.ek == 'e'): raise Unsupported('exponent argument of the wrong kind')
      if k == 'a' and v.ek == 'e': raise Unsupported('exponent passed as a scalar')
    pre = ''
    if upow: pre += ' pow'; self.uses_pow = True
    if ucast: pre += ' cast'; self.uses_cast = True
    def one(i=None):
      parts = []
      for v, k in zip(vals, eks):
        if v.kind in 'ISN': parts.append(self.sc(v, k))
        elif v.kind == 'V': parts.append('(%s)' % v.elem(i) if not v.elem(i).startswith('(') else v.elem(i))
        else: raise Unsupported('kernel argument of kind ' + v.kind)
      return '(%s%s %s)' % (name, pre, ' '.join(parts))
    vs = [v for v in vals if v.kind == 'V']
    if not vs: return S(one())
    ls = [v.length for v in vs if v.length is not None]
    r = V(lambda i: one(i), ('n' if 'n' in ls else ls[0]) if ls else None)
    r.raw = any(v.raw for v in vs)
    return r

  def construct(self, cls, e, env):
    """`Cls(args)` for a function class: bind the constructor arguments to the declared fields."""
    node = self.tu.classes[cls]
    init = next((f for f in node.body if isinstance(f, ast.FunctionDef) and f.name == '__init__'), None)
    if init is None: raise Unsupported('no constructor in ' + cls)
    names = [a.arg for a in init.args.args][1:]
    vals = self.kw(e, names, env)
    field_of = {}
    for s in init.body:
      if isinstance(s, ast.Assign) and len(s.targets) == 1:
        t, v = s.targets[0], s.value
        pairs = []
        if isinstance(t, (ast.List, ast.Tuple)) and isinstance(v, (ast.List, ast.Tuple)) and len(t.elts) == len(v.elts): pairs = list(zip(t.elts, v.elts))
        elif isinstance(t, ast.Attribute): pairs = [(t, v)]
        for tt, vv in pairs:
          if isinstance(tt, ast.Attribute) and isinstance(tt.value, ast.Name) and tt.value.id == 'self' and isinstance(vv, ast.Name) and vv.id in names:
            field_of[tt.attr] = vv.id
    fields = {}
    for a in ATTRS[cls]:
      check_pin(self.tu.classes, cls, a)
      if a not in field_of or field_of[a] not in vals: raise Unsupported('constructor of %s does not bind field %s' % (cls, a))
      fields[a] = vals[field_of[a]]
    return Val('O', cls=cls, fields=fields, hof=None)

  def obj_call(self, obj, meth, e, env):
    if obj.hof is not None:
      # a function object that is a parameter of the unit (higher-order): call / deriv / hess are parameters
      if e.keywords or len(e.args) != 1: raise Unsupported('call of a function-object parameter')
      x = self.ev(e.args[0], env)
      if obj.arity == 'OV':      # an elementwise vector -> vector callable (np.poly1d / a lambda over Poly2D)
        if meth != '__call__' or x.kind != 'V' or x.length is None: raise Unsupported('vector callable applied to kind ' + x.kind)
        xt = self.vec_term(x); L = x.length
        return V(lambda i: '(%s %s %s %s)' % (obj.hof, L, xt, i), L)
      tag = {'__call__': 'call', 'deriv': 'deriv', 'hess': 'hess'}.get(meth)
      if tag is None: raise Unsupported('method %s of a function object' % meth)
      fn = '%s_%s' % (obj.hof, tag)
      self.hof_used.add((obj.hof, tag, obj.arity))
      if obj.arity == 'O1':     # scalar -> scalar function object (outer function of InnerSumFunction)
        if x.kind not in 'ISN': raise Unsupported('scalar function object applied to kind ' + x.kind)
        return S('(%s %s)' % (fn, self.sc(x, 'a')))
      if x.kind != 'V' or x.length is None: raise Unsupported('function object applied to kind ' + x.kind)
      xt = self.vec_term(x); L = x.length
      if tag == 'call': return S('(%s %s %s)' % (fn, L, xt))
      if tag == 'deriv': return V(lambda i: '(%s %s %s %s)' % (fn, L, xt, i), L)
      return M(lambda i, j: '(%s %s %s %s %s)' % (fn, L, xt, i, j), L, L)
    u = self.tu.units.get((obj.cls, meth, None))
    if u is None: raise Unsupported('%s.%s is not a translated unit' % (obj.cls, meth))
    return self.call_unit(u, e, env, obj)

  def call_unit(self, u, e, env, recv):
    if u.lean not in self.unit.calls: self.unit.calls.append(u.lean)
    if not u.ok: raise Unsupported('callee %s is untranslatable' % u.lean)
    names = [p for p, k in u.params]
    vals = self.kw(e, names, env)
    for p, k in u.params:
      if p not in vals: raise Unsupported('missing argument %s of %s' % (p, u.lean))
    parts = [u.lean]
    if u.uses_pow: parts.append('pow'); self.uses_pow = True
    if u.uses_cast: parts.append('cast'); self.uses_cast = True
    narg = None
    if u.has_n:
      if recv == 'self': narg = 'n'
      else:
        ls = [vals[p].length for p, k in u.params if k in ('V', 'V1') and vals[p].kind == 'V' and vals[p].length is not None]
        narg = ls[0] if ls else 'n'
      parts.append(narg)
    if u.cls is not None:
      for a, k in ATTRS[u.cls].items():
        if recv == 'self':
          if u.cls != self.unit.cls: raise Unsupported('cross-class self call')
          ln = lname(a)
          parts.append(ln if k not in ('O', 'O1') else '%s_call %s_deriv %s_hess' % (ln, ln, ln))
        elif k in ('O', 'O1', 'OV'): raise Unsupported('higher-order callee')
        else:
          parts.append(self.arg_term(recv.fields[a], k))
    for p, k in u.params:
      parts.append(self.arg_term(vals[p], k))
    head = ' '.join(parts)
    rl = u.retlen
    if rl == 'n': rl = narg
    elif rl is not None:
      hit = [p for p, k in u.params if k == 'N' and lname(p) == rl]
      rl = self.sc(vals[hit[0]], 'n') if hit else None
    k_, ek = u.ret
    if k_ == 'S': return S('(%s)' % head, ek)
    if k_ == 'V': return V(lambda i: '(%s %s)' % (head, i), rl, ek)
    if k_ == 'M': return M(lambda i, j: '(%s %s %s)' % (head, i, j), rl, rl, ek)
    raise Unsupported('callee result kind')

  NP_KW = {'array': ('dtype',), 'ones': ('dtype',), 'zeros': ('dtype',)}

  def check_np_kw(self, fn, e, table=None):
    """a keyword the denotation does not model makes the unit untranslatable (dtype: only float / np.float64)."""
    table = self.NP_KW if table is None else table
    for k in e.keywords:
      if k.arg is None or k.arg not in table.get(fn, ()):
        raise Unsupported('keyword %s= of np.%s is not modelled' % (k.arg, fn))
      if k.arg == 'dtype' and not is_float_dtype(k.value):
        raise Unsupported('np.%s with a dtype other than float / np.float64' % fn)

  def numpy(self, fn, e, env):
    self.check_np_kw(fn, e)
    args = [self.ev(a, env) for a in e.args]
    kws = {k.arg: k.value for k in e.keywords}
    def zero_one(k):
      if len(args) != 1: raise Unsupported('np.%s arity' % fn)
      a = args[0]
      ek = 'n' if self.mode == 'n' else 'a'
      t = lit(k, ek)
      if a.kind in 'IN': return V(lambda i: t, self.sc(a, 'n') if a.kind == 'N' else str(a.term), ek, zero=(k == 0), made=True)
      if a.kind == 'T' and len(a.items) == 1 and a.items[0].kind in 'IN': return V(lambda i: t, self.sc(a.items[0], 'n'), ek, zero=(k == 0), made=True)
      if a.kind == 'T' and len(a.items) == 2 and all(x.kind in 'IN' for x in a.items):
        return M(lambda i, j: t, self.sc(a.items[0], 'n'), self.sc(a.items[1], 'n'), ek, zero=(k == 0))
      raise Unsupported('np.%s shape' % fn)
    if fn == 'ones': return zero_one(1)
    if fn == 'zeros': return zero_one(0)
    if fn == 'array':
      if len(args) != 1 or set(kws) - {'dtype'}: raise Unsupported('np.array form')
      a = args[0]
      if a.kind == 'L': return self.concat(a.pieces)
      if a.kind == 'LM': return M(a.elem, a.rows, a.cols, a.ek)
      if a.kind in 'SVM':
        if 'dtype' in kws:
          import copy
          a = copy.copy(a); a.isfloat = True
        return a
      if a.kind in 'IN': return S(self.sc(a, 'a'))
      raise Unsupported('np.array of kind ' + a.kind)
    if fn == 'atleast_1d' and len(args) == 1 and args[0].kind == 'V': return args[0]
    if fn == 'poly1d' and len(args) == 1 and not kws and args[0].kind == 'CL': return Val('P', term=args[0].term)
    if fn == 'hstack':
      if len(args) != 1 or args[0].kind not in 'TL': raise Unsupported('np.hstack form')
      return self.concat(args[0].items if args[0].items is not None else args[0].pieces)
    if fn in ('minimum', 'maximum') and len(args) == 2:
      return self.ew(lambda x, y: '(%s %s %s)' % (fn, x, y), args, 'a')
    if fn == 'abs' and len(args) == 1: return self.ew(lambda x: '(vabs %s)' % x, args, 'a')
    if fn == 'sign' and len(args) == 1:
      r = self.ew(lambda x: '(sign %s)' % x, args, 'a'); r.sign_of = args[0]; return r
    if fn in ('tril', 'triu') and 1 <= len(args) <= 2 and args[0].kind == 'M':
      k = args[1].term if len(args) == 2 and args[1].kind == 'I' else (0 if len(args) == 1 else None)
      if k is None or k < 0: raise Unsupported('np.%s offset' % fn)
      m = args[0]; z = lit(0, m.ek)
      if fn == 'tril': return M(lambda i, j: '(if %s ≤ %s then %s else %s)' % (j, idx_add(i, str(k)), m.elem(i, j), z), m.rows, m.cols, m.ek)
      return M(lambda i, j: '(if %s ≤ %s then %s else %s)' % (idx_add(i, str(k)), j, m.elem(i, j), z), m.rows, m.cols, m.ek)
    if fn == 'arange' and 1 <= len(args) <= 2 and all(a.kind in 'IN' for a in args):
      lo, hi = (I(0), args[0]) if len(args) == 1 else args
      a, b = self.sc(lo, 'n') if lo.kind == 'N' else str(lo.term), self.sc(hi, 'n') if hi.kind == 'N' else str(hi.term)
      return V(lambda i: idx_add(i, a), b if a == '0' else '(%s - %s)' % (b, a), 'n', made=True)
    if fn == 'diag' and len(args) == 1:
      a = args[0]
      if a.kind == 'V':
        if a.raw: raise Unsupported('np.diag of a flow that was not reshaped to (len(self),)')
        return M(lambda i, j: '(if %s = %s then %s else %s)' % (i, j, a.elem(i), lit(0, a.ek)), a.length, a.length, a.ek)
      if a.kind == 'M': return V(lambda i: a.elem(i, i), a.rows, a.ek)
      raise Unsupported('np.diag of kind ' + a.kind)
    raise Unsupported('np.' + fn)

  def ev_vectorize(self, e):
    a = e.args[0]
    if isinstance(a, ast.Attribute) and isinstance(a.value, ast.Name) and (a.value.id, a.attr) in self.tu.kernels:
      return Val('K', info=self.tu.kernels[(a.value.id, a.attr)])
    raise Unsupported('np.vectorize of something that is not a translated scalar kernel')

  def method(self, b, m, e, env):
    for k in e.keywords:
      if k.arg is None or k.arg not in {'sum': ('axis',), 'cumsum': ('axis',)}.get(m, ()):
        raise Unsupported('keyword %s= of .%s() is not modelled' % (k.arg, m))
    args = [self.ev(a, env) for a in e.args]
    kws = {k.arg: self.ev(k.value, env) for k in e.keywords}
    if m == 'sum':
      axis = kws.get('axis', args[0] if args else None)
      if set(kws) - {'axis'} or len(args) > 1: raise Unsupported('.sum form')
      if b.kind == 'M':
        if axis is None:
          def t():
            k1, k2 = self.fresh(), self.fresh()
            return '(sumTo %s (fun %s => sumTo %s (fun %s => %s)))' % (b.rows, k1, b.cols, k2, b.elem(k1, k2))
          if b.rows is None or b.cols is None: raise Unsupported('sum of a matrix of unknown shape')
          return S(t(), b.ek)
        if axis.kind != 'I' or axis.term not in (0, 1): raise Unsupported('.sum axis')
        if axis.term == 0:
          if b.rows is None: raise Unsupported('sum over an unknown number of rows')
          def el(j):
            k = self.fresh(); return '(sumTo %s (fun %s => %s))' % (b.rows, k, b.elem(k, j))
          return V(el, b.cols, b.ek)
        if b.cols is None: raise Unsupported('sum over an unknown number of columns')
        def el1(i):
          k = self.fresh(); return '(sumTo %s (fun %s => %s))' % (b.cols, k, b.elem(i, k))
        return V(el1, b.rows, b.ek)
      if axis is not None: raise Unsupported('.sum(axis) of kind ' + b.kind)
      return self.vsum(b)
    if m == 'dot' and len(args) == 1 and not kws:
      if b.kind == 'V' and args[0].kind == 'V':
        # x.dot(y) is Σ x_k y_k only if y is a vector (for a scalar y it is the elementwise product): y must be a known
        # (n,) vector — an attribute / matrix row / constructed vector, not a flow or price parameter as passed in
        if args[0].raw: raise Unsupported('.dot() with an argument that is not known to be a vector (a scalar price makes it a product)')
        if b.length is not None and args[0].length is not None and norm_len(b.length) != norm_len(args[0].length):
          raise Unsupported('.dot() of vectors of lengths %s and %s' % (b.length, args[0].length))
        r = self.vsum(self.ew(lambda x, y: '(%s * %s)' % (x, y), [b, args[0]]))
        return r
      raise Unsupported('.dot of kinds %s, %s' % (b.kind, args[0].kind))
    if m == 'cumsum':
      if b.kind == 'V' and not args and not kws:
        def el(i):
          k = self.fresh(); return '(sumTo (%s + 1) (fun %s => %s))' % (i, k, b.elem(k))
        return V(el, b.length, b.ek)      # numpy flattens when no axis is given: (n,) for a (1, n) row too
      axis = kws.get('axis', args[0] if args else None)
      if b.kind == 'M' and axis is not None and axis.kind == 'I' and axis.term == 1:
        def el2(i, j):
          k = self.fresh(); return '(sumTo (%s + 1) (fun %s => %s))' % (j, k, b.elem(i, k))
        return M(el2, b.rows, b.cols, b.ek)
      raise Unsupported('.cumsum form')
    if m == 'diagonal' and b.kind == 'M' and not args and not kws:
      return V(lambda i: b.elem(i, i), b.rows, b.ek)
    if m == 'transpose' and b.kind == 'M' and not args and not kws:
      return M(lambda i, j: b.elem(j, i), b.cols, b.rows, b.ek)
    if m == 'reshape' and not kws:
      if b.kind != 'V': raise Unsupported('reshape of kind ' + b.kind)
      dims = args[0].items if len(args) == 1 and args[0].kind == 'T' else args
      def is_len(d): return (d.kind == 'N' and (b.length is None or d.term == b.length)) or (d.kind == 'I' and d.term == -1)
      if len(dims) == 1 and is_len(dims[0]):
        # reshape(len(self)) / reshape((len(self),)) / reshape(-1): the same entries as a (n,) vector
        r = V(b.elem, b.length if b.length is not None else (dims[0].term if dims[0].kind == 'N' else None), b.ek, atom=b.atom)
        r.zero, r.sign_of, r.made, r.isfloat = b.zero, b.sign_of, b.made, b.isfloat
        return r
      if len(dims) == 2 and is_len(dims[0]) and dims[1].kind == 'I' and dims[1].term == 1:
        return C(b.elem, b.length, b.ek)
      raise Unsupported('reshape to an unsupported shape')
    raise Unsupported('method .%s on kind %s' % (m, b.kind))

  # ---------------------------------------------------------------- statements
  def ite(self, c, a, b):
    if a.kind == 'I' and b.kind == 'I' and a.term == b.term: return a
    if a.kind == 'I' and b.kind == 'I': a = S(lit(a.term, 'a'))
    return self.ew(lambda x, y: '(if %s then %s else %s)' % (c, x, y), [a, b])

  def run(self, stmts, env):
    if not stmts: raise Unsupported('fall-through without return')
    s, rest = stmts[0], stmts[1:]
    if isinstance(s, ast.Expr) and isinstance(s.value, ast.Constant) and isinstance(s.value.value, str):
      return self.run(rest, env)
    if isinstance(s, ast.Return):
      if s.value is None: raise Unsupported('bare return')
      return self.ev(s.value, env)
    if isinstance(s, ast.Assign) and len(s.targets) == 1 and isinstance(s.targets[0], ast.Name):
      env = dict(env); env[s.targets[0].id] = self.ev(s.value, env)
      (self.fresh_names.add if fresh_expr(s.value) else self.fresh_names.discard)(s.targets[0].id)
      return self.run(rest, env)
    if isinstance(s, ast.AugAssign) and isinstance(s.target, ast.Name) and s.target.id in env:
      self.check_inplace(s.target.id)
      env = dict(env); env[s.target.id] = self.bop(s.op, self.ev(s.target, env), self.ev(s.value, env))
      return self.run(rest, env)
    if isinstance(s, ast.If) and not s.orelse:
      g = self.shape_guard(s, env)
      if g is not None:
        env = dict(env); env[g[0]] = g[1]
        return self.run(rest, env)
      c = self.cond(s.test, env)
      last = s.body[-1]
      if isinstance(last, ast.Raise):
        if c is False: return self.run(rest, env)
        raise Unsupported('a guard that raises (only statically false shape guards are in the subset)')
      if c is True: return self.run(s.body, env)
      if c is False: return self.run(rest, env)
      return self.ite(c, self.run(s.body, env), self.run(rest, env))
    if isinstance(s, ast.For) and not s.orelse and isinstance(s.target, ast.Name):
      rg = self.range_args(s.iter, env)
      if rg is None or len(s.body) != 1 or not (isinstance(s.body[0], ast.AugAssign) and isinstance(s.body[0].op, ast.Add)
                                                and isinstance(s.body[0].target, ast.Name) and s.body[0].target.id in env):
        raise Unsupported('loop form (only `for i in range(a, b): acc += e` is in the subset)')
      lo, hi = rg
      acc = s.body[0].target.id; d0 = self.ev(s.body[0].target, env)
      self.check_inplace(acc)
      var = s.target.id
      def summand(k):
        env2 = dict(env); env2[var] = N(k)
        return self.ev(s.body[0].value, env2)
      probe = summand('k0')
      if acc in [n_.id for n_ in ast.walk(s.body[0].value) if isinstance(n_, ast.Name)]: raise Unsupported('accumulator read in its own summand')
      def total(i=None, j=None):
        k = self.fresh()
        body = self.at(summand(k), 'a', i, j) if probe.kind not in 'ISN' else self.sc(summand(k), 'a')
        return '(sumTo %s (fun %s => %s))' % (hi, k, body) if lo == '0' else '(sumRange %s %s (fun %s => %s))' % (lo, hi, k, body)
      if probe.kind == 'V' or (probe.kind in 'ISN' and d0.kind == 'V'): sumv = V(lambda i: total(i), probe.length if probe.kind == 'V' else d0.length)
      elif probe.kind in 'ISN': sumv = S(total())
      elif probe.kind == 'M': sumv = M(lambda i, j: total(i, j), probe.rows, probe.cols)
      else: raise Unsupported('summand of kind ' + probe.kind)
      env = dict(env)
      env[acc] = sumv if d0.zero else self.bop(ast.Add(), d0, sumv)
      if d0.zero and sumv.kind == 'V' and sumv.length is None: sumv.length = d0.length
      return self.run(rest, env)
    raise Unsupported(type(s).__name__ + ' statement')

  def check_inplace(self, name):
    """`x += e` (and -=, *=, /=) mutates the object `x` is bound to: only a local name bound to a newly built array may
    be updated in place; a parameter, a `self.` attribute, an alias / view / reshape of one, or the result of another
    function (possibly cached and shared) may not — reading the statement as a rebinding would be wrong for the caller."""
    if name not in self.fresh_names:
      raise Unsupported('in-place operator on `%s`, which is (an alias, view or reshape of) a parameter, an attribute or a shared result' % name)

  def shape_guard(self, s, env):
    """`if len(x.shape) != 1: raise …`: afterwards `x` is known to be one-dimensional."""
    t = s.test
    if not (isinstance(s.body[-1], ast.Raise) and isinstance(t, ast.Compare) and len(t.ops) == 1 and isinstance(t.ops[0], ast.NotEq)
            and isinstance(t.comparators[0], ast.Constant) and t.comparators[0].value == 1 and isinstance(t.left, ast.Call)
            and isinstance(t.left.func, ast.Name) and t.left.func.id == 'len' and len(t.left.args) == 1
            and isinstance(t.left.args[0], ast.Attribute) and t.left.args[0].attr == 'shape' and isinstance(t.left.args[0].value, ast.Name)):
      return None
    nm = t.left.args[0].value.id
    v = env.get(nm)
    if not isinstance(v, Val) or v.kind != 'V' or not v.raw: return None
    r = V(v.elem, v.length, v.ek, atom=v.atom); r.isfloat = v.isfloat
    return nm, r

  # ---------------------------------------------------------------- enclosing function (nested units)
  def enclosing_value(self, name):
    v = self.enclosing[name]
    if isinstance(v, Val): return v
    if v[0] == 'free':
      kind = self.unit.args.get(name)
      if kind not in ('S', 'N'): raise Unsupported('free enclosing name ' + name)
      # a loop variable / unpacked component of the enclosing function captured through a default: a parameter
      val = S(lname(name)) if kind == 'S' else N(lname(name))
      self.extra_params.append((name, kind))
      self.enclosing[name] = val
      return val
    self.enclosing[name] = ('free',)         # guard against cycles
    val = self.ev(v[1], {})
    self.enclosing[name] = val
    return val


# numpy's vectorize is a call whose function is itself a call: intercept it in `call`
_orig_call = Ctx.call
def _call(self, e, env):
  f = e.func
  if isinstance(f, ast.Attribute) and isinstance(f.value, ast.Name) and f.value.id == 'np' and f.attr == 'vectorize':
    # the output dtype must be pinned to float: without `otypes` numpy takes it from the first slot's result
    ok = (len(e.args) == 1 and len(e.keywords) == 1 and e.keywords[0].arg == 'otypes' and isinstance(e.keywords[0].value, ast.List)
          and len(e.keywords[0].value.elts) == 1 and is_float_dtype(e.keywords[0].value.elts[0]))
    if not ok: raise Unsupported('np.vectorize without otypes=[float] (the output dtype is then not float64 by construction)')
    return self.ev_vectorize(e)
  return _orig_call(self, e, env)
Ctx.call = _call


# ----------------------------------------------------------------------------------------------- driver
HEADER = """-- GENERATED by vk/translate_vec.py from {src} — do not edit.
-- source sha256: {sha}
{imports}set_option linter.unusedVariables false
namespace DK.Gen
section
variable {{α : Type}} [Add α] [Sub α] [Mul α] [Div α] [Neg α] [OfNat α 0] [OfNat α 1] [OfNat α 2]
  [LT α] [LE α] [DecidableEq α] [DecidableLT α] [DecidableLE α]
variable {{ε : Type}} [Sub ε] [OfNat ε 1] [OfNat ε 2]
"""

PRELUDE = """-- GENERATED by vk/translate_vec.py (fixed text) — do not edit.
import DK.Model.Basic
import DK.Gen.Kernels
set_option linter.unusedVariables false
namespace DK.Gen
section
variable {α : Type} [Add α] [Sub α] [Mul α] [Div α] [Neg α] [OfNat α 0] [OfNat α 1] [OfNat α 2]
  [LT α] [LE α] [DecidableEq α] [DecidableLT α] [DecidableLE α]

/-! numpy primitives used by the translated bodies (fixed text of the translator) -/
/-- `np.minimum(a, b)` -/
def minimum (a b : α) : α := if b < a then b else a
/-- `np.maximum(a, b)` -/
def maximum (a b : α) : α := if a < b then b else a
/-- `np.abs(x)` -/
def vabs (x : α) : α := if x < (0 : α) then -x else x
/-- `np.sign(x)` -/
def sign (x : α) : α := if (0 : α) < x then 1 else if x < (0 : α) then -(1 : α) else 0
/-- `e ** np.sign(y)`: the exponent is `1`, `-1` or `0` -/
def sgnPow (e y : α) : α := if (0 : α) < y then e else if y < (0 : α) then (1 : α) / e else 1
end
end DK.Gen
"""


class TU:
  def __init__(self, repo):
    self.repo = repo
    self.src = {}; self.tree = {}; self.classes = {}; self.funcs = {}
    for fn in sorted(set(FILES.values())):
      p = os.path.join(repo, 'device_kit', fn)
      self.src[fn] = open(p).read()
      self.tree[fn] = ast.parse(self.src[fn])
      for node in self.tree[fn].body:
        if isinstance(node, ast.ClassDef): self.classes[node.name] = node
        if isinstance(node, ast.FunctionDef) and fn == 'utils.py': self.funcs[node.name] = node
    self.units = {}
    self.tainted, self.shadow = scan_bindings(os.path.join(repo, 'device_kit'), set(self.classes))
    # scalar kernels of vk/translate.py: (class, method) -> (lean name, kinds, uses_pow, uses_cast)
    info = {}
    T1.translate_kernels(os.path.join(repo, 'device_kit', 'functions.py'), info)
    self.kernels = info.get('siblings', {})

  def locate(self, u):
    """the AST node of the unit, its parameter names, and the enclosing function (for sub-units)."""
    if u.cls is None:
      node = self.funcs.get(u.fn)
      return node, None
    cnode = self.classes.get(u.cls)
    if cnode is None: return None, None
    cands = [f for f in cnode.body if isinstance(f, ast.FunctionDef) and f.name == u.fn
             and not any(isinstance(d, ast.Attribute) and d.attr == 'setter' for d in f.decorator_list)]
    if len(cands) != 1: return None, None
    f = cands[0]
    if u.sub is None: return f, None
    if u.sub == 'soc' or not re.fullmatch(r'(fun|jac)\d+', u.sub):
      inner = [s for s in f.body if isinstance(s, ast.FunctionDef) and s.name == u.sub]
      return (inner[0] if len(inner) == 1 else None), f
    key, k = u.sub[:3], int(u.sub[3:])
    dicts = [d for d in ast.walk(f) if isinstance(d, ast.Dict)]
    dicts.sort(key=lambda d: (d.lineno, d.col_offset))
    if k >= len(dicts): return None, f
    for kk, vv in zip(dicts[k].keys, dicts[k].values):
      if isinstance(kk, ast.Constant) and kk.value == key and isinstance(vv, ast.Lambda): return vv, f
    return None, f

  def enclosing_env(self, f, upto):
    """simple `name = expr` assignments of the enclosing function (lazily translated); loop variables are free."""
    env = {}
    for s in ast.walk(f):
      if s is upto: continue
      if isinstance(s, ast.Assign) and len(s.targets) == 1 and isinstance(s.targets[0], ast.Name):
        nm = s.targets[0].id
        if nm in env and ast.dump(env[nm][1]) != ast.dump(s.value): env[nm] = ('free',)      # assigned in two different ways
        elif nm not in env: env[nm] = ('lazy', s.value)
      if isinstance(s, ast.For) and isinstance(s.target, ast.Name): env[s.target.id] = ('free',)
      if isinstance(s, ast.FunctionDef) and s is not f: env[s.name] = ('free',)      # nested defs shadow module functions
      if isinstance(s, ast.AugAssign) and isinstance(s.target, ast.Name): env[s.target.id] = ('free',)
    return env

  def translate(self, u):
    node, encl = self.locate(u)
    if node is None: raise Unsupported('unit not found (or not unique)')
    u.line = node.lineno
    for key in ((u.cls, u.fn), (u.cls, '*')):
      if key in self.tainted: raise Unsupported('the `def` is not what the name denotes: ' + self.tainted[key])
    ctx = Ctx(self, u, self.classes.get(u.cls))
    ctx.hof_used = set(); ctx.extra_params = []
    names = [a.arg for a in node.args.args]
    if u.cls is not None and encl is None:
      if not names or names[0] != 'self': raise Unsupported('method without self')
      names = names[1:]
    ndef = len(node.args.defaults)
    env = {}
    params = []
    if encl is not None:
      ctx.enclosing = self.enclosing_env(encl, node)
      # earlier nested units of the same enclosing function are callable by their local name
      for (c_, f_, s_), uu in self.units.items():
        if c_ == u.cls and f_ == u.fn and s_ is not None and uu.ok and uu is not u and not re.fullmatch(r'(fun|jac)\d+', s_):
          ctx.enclosing[s_] = Val('U', unit=uu)
    for k_, nm in enumerate(names):
      has_default = k_ >= len(names) - ndef
      dflt = node.args.defaults[k_ - (len(names) - ndef)] if has_default else None
      kind = u.args.get(nm, DEFAULT_ARG.get(nm))
      if encl is not None and has_default and nm not in u.args:
        # a default that captures an enclosing local (`mask=mask`): inline the captured value
        env[nm] = ('lazy', dflt, {}); continue
      if encl is not None and has_default and not (isinstance(dflt, ast.Name) and dflt.id == nm):
        raise Unsupported('closure default %s is not a plain capture' % nm)
      if encl is None and has_default and nm == 'p': continue      # `hess(self, s, p=0)`: the price does not enter
      if kind is None: raise Unsupported('parameter %s has no declared kind' % nm)
      params.append((nm, kind))
    if encl is not None:
      # a closure reads its free variables when it is CALLED: a free name that the enclosing function binds more than once
      # or inside a loop (loop variable, `mask`, `cbound` …) has, by then, its LAST value — unless it was bound as a default
      # argument (`i=i`).  Such late-binding closures are not denoted.
      late = sorted(free_names(node) & unstable_names(encl))
      if late: raise Unsupported('late-binding closure: `%s` is rebound by the enclosing function and not captured as a default argument' % '`, `'.join(late))
    for nm, kind in params:
      ln = lname(nm)
      if kind == 'S': env[nm] = S(ln)
      elif kind == 'N': env[nm] = N(ln)
      elif kind in ('V', 'V1'):
        env[nm] = ctx.paren_elem(V((lambda a: lambda i: '%s %s' % (a, i))(ln), 'n', 'a', atom=ln))
        env[nm].raw = (kind == 'V')      # a flow / price as passed in may be (n,) or (1, n) until it is reshaped
      else: raise Unsupported('parameter kind ' + kind)
    if encl is not None:
      for nm, kind in params:
        if nm in ctx.enclosing: ctx.enclosing[nm] = env[nm]
    if isinstance(node, ast.Lambda): res = ctx.ev(node.body, env)
    else: res = ctx.run(node.body, env)
    params = params + ctx.extra_params
    u.has_n = u.cls is not None or any(k in ('V', 'V1') for _, k in params)
    ek_default = 'n' if u.mode == 'n' else 'a'
    if res.kind == 'I': res = S(lit(res.term, ek_default), ek_default)
    if res.kind == 'N': res = S(res.term, 'n')
    if res.kind == 'L': res = ctx.concat(res.pieces)
    if res.kind not in 'SVM': raise Unsupported('result of kind ' + res.kind)
    ty = TY[res.ek]
    if res.kind == 'S': rty, body = ty, res.term
    elif res.kind == 'V': rty, body = 'Nat → ' + ty, 'fun i => ' + res.elem('i')
    else: rty, body = 'Nat → Nat → ' + ty, 'fun i j => ' + res.elem('i', 'j')
    binders = []
    if ctx.uses_pow: binders.append('(pow : α → ε → α)')
    if ctx.uses_cast: binders.append('(cast : ε → α)')
    if u.has_n: binders.append('(n : Nat)')
    if u.cls is not None:
      for a, k in ATTRS[u.cls].items():
        ln = lname(a)
        if k == 'OV':
          binders.append('(%s : Nat → (Nat → α) → Nat → α)' % ln)
        elif k in ('O', 'O1'):
          if k == 'O': binders.append('(%s_call : Nat → (Nat → α) → α) (%s_deriv : Nat → (Nat → α) → Nat → α) (%s_hess : Nat → (Nat → α) → Nat → Nat → α)' % (ln, ln, ln))
          else: binders.append('(%s_call : α → α) (%s_deriv : α → α) (%s_hess : α → α)' % (ln, ln, ln))
        else:
          binders.append('(%s : %s)' % (ln, {'S': 'α', 'V': 'Nat → α', 'VE': 'Nat → ε', 'N': 'Nat', 'VL': 'Nat → List α'}[k]))
    for nm, kind in params:
      binders.append('(%s : %s)' % (lname(nm), {'S': 'α', 'V': 'Nat → α', 'V1': 'Nat → α', 'N': 'Nat'}[kind]))
    u.params = params; u.ret = (res.kind, res.ek); u.uses_pow = ctx.uses_pow; u.uses_cast = ctx.uses_cast
    u.retlen = (res.length if res.kind == 'V' else res.rows if res.kind == 'M' else None)
    u.ok = True
    return 'def %s %s : %s :=\n  %s\n' % (u.lean, ' '.join(binders), rty, body)


def translate_all(repo):
  """returns ({group: lean text}, units, fallback, calls): one generated module per source group."""
  tu = TU(repo)
  body = {g: [] for g in GROUPS}
  files = {g: set() for g in GROUPS}
  units, fallback = [], []
  for u in UNITS:
    tu.units[u.key] = u
    u.ok = False; u.calls = []
    files[u.group].add(u.file)
    qual = (u.cls + '.' if u.cls else 'utils.') + u.fn + ('::' + u.sub if u.sub else '')
    try:
      text = tu.translate(u)
    except Unsupported as ex:
      where = '%s:%d' % (u.file, u.line) if u.line else u.file
      body[u.group].append('-- UNTRANSLATABLE %s (%s): %s\n' % (qual, where, ex))
      fallback.append((u.lean, where, str(ex)))
      continue
    where = '%s:%d' % (u.file, u.line)
    body[u.group].append('/-- `%s` (%s) -/' % (qual, where))
    body[u.group].append(text)
    units.append((u.lean, where))
  by_lean = {u.lean: u for u in UNITS}
  texts = {}
  for g in GROUPS:
    # a group imports the groups its units call: the import graph of the generated modules is the call graph of the source
    deps = sorted({by_lean[c].group for u in UNITS if u.group == g for c in u.calls} - {g}, key=GROUPS.index)
    fs = sorted(files[g] | {by_lean[c].file for u in UNITS if u.group == g for c in u.calls})
    sha = hashlib.sha256(''.join(fn + '\n' + tu.src[fn] for fn in fs).encode()).hexdigest()[:16]
    imports = 'import DK.Gen.Vec.Prelude\n' + ''.join('import DK.Gen.Vec.%s\n' % d for d in deps)
    texts[g] = '\n'.join([HEADER.format(src=', '.join('device_kit/' + f for f in fs), sha=sha, imports=imports)] + body[g] + ['end', 'end DK.Gen', ''])
  calls = {u.lean: list(u.calls) for u in UNITS}
  return texts, units, fallback, calls


UMBRELLA = """-- GENERATED by vk/translate_vec.py — do not edit.
-- every generated vector module (one per source group; see vk/translate_vec.py `group_of`)
import DK.Gen.Vec.Prelude
"""


def callers_closure(calls, name):
  """`name` and every unit that (transitively) calls it."""
  out = {name}
  grew = True
  while grew:
    grew = False
    for u, cs in calls.items():
      if u not in out and out & set(cs):
        out.add(u); grew = True
  return out


def bridge_modules():
  """lemma -> module table of the vector bridge: {'DK.BridgeVec.<lemma>': 'DK.Lemmas.BridgeVec.<Group>'}, read off the
  Lean sources (so it cannot drift from them)."""
  d = os.path.join(HERE, '..', 'lean', 'DK', 'Lemmas', 'BridgeVec')
  out = {}
  if os.path.isdir(d):
    for fn in sorted(os.listdir(d)):
      if fn.endswith('.lean'):
        for m in re.finditer(r'^theorem\s+(\S+)', open(os.path.join(d, fn)).read(), re.M):
          out['DK.BridgeVec.' + m.group(1)] = 'DK.Lemmas.BridgeVec.' + fn[:-5]
  return out


def bridge_module(lemma):
  """the module a bridge lemma is audited from."""
  if lemma.startswith('DK.BridgeVec.'):
    return bridge_modules().get(lemma, 'DK.Lemmas.BridgeVec')
  return 'DK.Lemmas.Bridge'


def lemmas_of_units(units_):
  """the `DK.BridgeVec.*` lemmas that are about one of the given units."""
  us = set(units_)
  out = {'DK.BridgeVec.' + u for u in us}
  out |= {'DK.BridgeVec.' + l for l, xs in LEMMA_UNITS.items() if us & set(xs)}
  return out


def regenerate(repo=None):
  repo = repo or REPO
  texts, units, fallback, calls = translate_all(repo)
  changed = T1.write_if_changed(os.path.join(GEN, 'Vec', 'Prelude.lean'), PRELUDE)
  for g in GROUPS:
    changed = T1.write_if_changed(os.path.join(GEN, 'Vec', g + '.lean'), texts[g]) or changed
  changed = T1.write_if_changed(os.path.join(GEN, 'Vec.lean'), UMBRELLA + ''.join('import DK.Gen.Vec.%s\n' % g for g in GROUPS)) or changed
  # an untranslatable unit concerns the lemmas about it and about every unit that calls it (the callers are themselves
  # untranslatable — `callee … is untranslatable` — so they are listed too; the closure over the last good call graph
  # of this run is added for completeness)
  affected = {}
  for n, w, why in fallback:
    affected[n] = sorted(lemmas_of_units(callers_closure(calls, n)))
  return {'changed': changed, 't1_units': ['vec.%s @ %s' % (n, w) for n, w in units],
          't1_fallback_units': ['vec.%s @ %s: %s' % (n, w, why) for n, w, why in fallback],
          't1_vec_fallback_lemmas': affected,
          't1_vec_calls': {u: cs for u, cs in calls.items() if cs},
          't1_vec_t2_only': ['%s (%s): %s' % x for x in T2_ONLY]}


def record_pins(repo=None):
  """the current definitions of every attribute the translators read as a parameter / derived value (for review)."""
  global RECORD
  RECORD = {}
  try:
    translate_all(repo or REPO)
    try:
      from vk import translate_sets as TS
      TS.translate_all(repo or REPO)
    except ImportError:
      pass
    return RECORD
  finally:
    RECORD = None


if __name__ == '__main__':
  import json
  if len(sys.argv) > 1 and sys.argv[1] == '--pins':
    from vk import translate_vec as _pkg      # the module object vk/translate_sets.py sees (not __main__)
    rec = _pkg.record_pins(sys.argv[2] if len(sys.argv) > 2 else None)
    json.dump(rec, open(PINS_FILE, 'w'), indent=1, sort_keys=True)
    print('wrote %s: %d classes, %d attributes' % (PINS_FILE, len(rec), sum(len(v) for v in rec.values())))
  else:
    print(json.dumps(regenerate(sys.argv[1] if len(sys.argv) > 1 else None), indent=1))
